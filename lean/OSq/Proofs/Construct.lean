import OSq.Sem.Rot
import Mathlib.Tactic.Linarith
import Mathlib.Tactic.Positivity
import Mathlib.Tactic.FieldSimp
import Mathlib.Analysis.SpecialFunctions.Pow.Real

/-
  OSq.Proofs.Construct — the gate constructors at `α := ℝ`:
  "constructed gates are canonical and denote what was requested".
  (`OSq/Model/IR.lean`: `normalizeAngle`, `mkAxis`, `mkBSR`, `Gate.isIdentity`; `OSq/Model/Matrix.lean`: `can1`;
   specification `OSq.Sem.rot` from `OSq/Sem/Rot.lean`.)

  normalizeAngle  (common.normalize_angle)
  * `normalizeAngle_real`          the definition unfolded at ℝ
  * `normalizeAngle_spec`          `0 ≤ atol < π` ⇒ result `= x + 2πk` and lies in `[-π+atol, π+atol)`
  * `normalizeAngle_range`         `0 ≤ atol < π` ⇒ `-π+atol ≤ normalizeAngle atol x < π+atol`
  * `normalizeAngle_congr`         `∃ k : ℤ, normalizeAngle atol x = x + 2πk` (any `atol`)
  * `eq_of_congr_of_window`        congruent mod 2π + same half-open 2π-window ⇒ equal
  * `normalizeAngle_id_of_window`  `x ∈ [-π+atol, π+atol)` ⇒ `normalizeAngle atol x = x`
  * `normalizeAngle_id_of_range`   `0 < atol`, `x ∈ [-π+atol, π]` ⇒ `normalizeAngle atol x = x`
  * `normalizeAngle_idem`          idempotence
  * `normalizeAngle_three_pi`      `3π ↦ π`

  mkAxis  (Axis._normalize_axis)
  * `maxAbs_eq_zero_iff`, `norm_pos_of_ne_zero`, `divBy_divBy_norm` (rescaling is invisible), `divBy_norm_unit`
  * `mkAxis_eq`         `mkAxis v = if v = 0 then error ValueError else ok (v / ‖v‖)`
  * `mkAxis_error_iff`  fails with `ValueError` iff `v = (0,0,0)`;  `mkAxis_error`: that is the only error
  * `mkAxis_ok`         `mkAxis v = ok a` ⇒ `v ≠ 0`, `a = v/‖v‖` (componentwise, `‖v‖ = √(Σ vᵢ²)`), `a` unit
  * `mkAxis_real`       the two previous facts bundled
  * `mkAxis_of_unit`    a unit vector is returned unchanged;  `mkAxis_z`: `(0,0,c) ↦ (0,0,1)` for `c > 0`

  can1  (matrix_expander.can1)
  * `can1_get`          entrywise: `((can1 axis θ φ).get i j).toC = rot axis θ φ i j`
  * `can1_eq_rot`       `(can1 axis θ φ).toMatrix = rot axis θ φ`;  `can1_toMatrixOn` same with `toMatrixOn 2`

  mkBSR  (BlochSphereRotation.__init__)
  * `mkBSR_eq`          fully evaluated form;  `mkBSR_error_iff`: fails (ValueError) iff the axis is zero
  * `rot_normalizeAngle` `rot a (nA angle) (nA phase) = (-1)^k • rot a angle phase`, `nA angle = angle + 2πk`
  * `mkBSR_denotes`     a successful `mkBSR` yields `.bsr q a θ φ` with `a = axis/‖axis‖` unit, `θ, φ` in
                        `[-π+atol, π+atol)` and fixed by `normalizeAngle`, `rot a θ φ = ± rot a angle phase`
                        (sign `(-1)^k`, `k` = number of 2π-shifts of the angle; none if `angle` is in the window)
  * `mkBSR_denotes_of_range`  `angle ∈ [-π+atol, π]`, `0 < atol` ⇒ `θ = angle` and `rot a θ φ = rot a angle phase`

  Gate.isIdentity  (BlochSphereRotation.is_identity)
  * `isIdentity_bsr_iff`    `= true ↔ |θ| < atol ∧ |φ| < atol`
  * `isIdentity_bsr_crisp`  crisp tests + `isIdentity = true` ⇒ `rot a θ φ = 1`
  * `isIdentity_bsr_zero`   `(bsr q a 0 0).isIdentity atol = true` for `0 < atol`
  * (example) without crispness the accepted operator need not be `1`
-/

namespace OSq
open Sem

/-! ### `normalizeAngle` at `ℝ` -/

theorem decEqB_real (x y : ℝ) : Scalar.decEqB x y = decide (x = y) := rfl

/-- `normalizeAngle` unfolded at `ℝ`. -/
theorem normalizeAngle_real (atol x : ℝ) :
    normalizeAngle atol x =
      if x - 2 * Real.pi * ((⌊x / (2 * Real.pi)⌋ : ℝ) + 1) < -Real.pi + atol then
        x - 2 * Real.pi * ((⌊x / (2 * Real.pi)⌋ : ℝ) + 1) + 2 * Real.pi
      else if Real.pi < x - 2 * Real.pi * ((⌊x / (2 * Real.pi)⌋ : ℝ) + 1) then
        x - 2 * Real.pi * ((⌊x / (2 * Real.pi)⌋ : ℝ) + 1) - 2 * Real.pi
      else x - 2 * Real.pi * ((⌊x / (2 * Real.pi)⌋ : ℝ) + 1) := by
  simp only [normalizeAngle, two_real, pi_real, trig_floor_real, one_real]

/-- Range and congruence together (one case analysis). -/
theorem normalizeAngle_spec (atol x : ℝ) (h0 : 0 ≤ atol) (h1 : atol < Real.pi) :
    ∃ k : ℤ, normalizeAngle atol x = x + 2 * Real.pi * k ∧
      -Real.pi + atol ≤ normalizeAngle atol x ∧ normalizeAngle atol x < Real.pi + atol := by
  have hpi := Real.pi_pos
  have h2pi : (0 : ℝ) < 2 * Real.pi := by linarith
  rw [normalizeAngle_real]
  set f : ℝ := (⌊x / (2 * Real.pi)⌋ : ℝ) with hf
  have hfl : f * (2 * Real.pi) ≤ x := by
    have := Int.floor_le (x / (2 * Real.pi)); rwa [le_div_iff₀ h2pi] at this
  have hfl2 : x < (f + 1) * (2 * Real.pi) := by
    have := Int.lt_floor_add_one (x / (2 * Real.pi)); rwa [div_lt_iff₀ h2pi] at this
  set t := x - 2 * Real.pi * (f + 1) with ht
  have ht1 : -(2 * Real.pi) ≤ t := by rw [ht]; linarith
  have ht2 : t < 0 := by rw [ht]; linarith
  split_ifs with h1' h2'
  · refine ⟨-⌊x / (2 * Real.pi)⌋, ?_, by linarith, by linarith⟩
    rw [ht, hf]; push_cast; ring
  · exact absurd h2' (by linarith)
  · refine ⟨-⌊x / (2 * Real.pi)⌋ - 1, ?_, by linarith, by linarith⟩
    rw [ht, hf]; push_cast; ring

/-- The result lies in the half-open window `[-π + atol, π + atol)`. -/
theorem normalizeAngle_range (atol x : ℝ) (h0 : 0 ≤ atol) (h1 : atol < Real.pi) :
    -Real.pi + atol ≤ normalizeAngle atol x ∧ normalizeAngle atol x < Real.pi + atol := by
  obtain ⟨_, _, h⟩ := normalizeAngle_spec atol x h0 h1
  exact h

/-- The result differs from the input by a multiple of `2π` (no hypothesis on `atol` needed). -/
theorem normalizeAngle_congr (atol x : ℝ) : ∃ k : ℤ, normalizeAngle atol x = x + 2 * Real.pi * k := by
  rw [normalizeAngle_real]
  split_ifs
  · exact ⟨-⌊x / (2 * Real.pi)⌋, by push_cast; ring⟩
  · exact ⟨-⌊x / (2 * Real.pi)⌋ - 2, by push_cast; ring⟩
  · exact ⟨-⌊x / (2 * Real.pi)⌋ - 1, by push_cast; ring⟩

/-- Two reals congruent mod `2π` in the same half-open window of length `2π` are equal. -/
theorem eq_of_congr_of_window {L a b : ℝ} {k : ℤ} (hab : a = b + 2 * Real.pi * k)
    (ha1 : L ≤ a) (ha2 : a < L + 2 * Real.pi) (hb1 : L ≤ b) (hb2 : b < L + 2 * Real.pi) : a = b := by
  have hpi := Real.pi_pos
  rcases lt_trichotomy k 0 with hk | hk | hk
  · have : (k : ℝ) ≤ -1 := by exact_mod_cast Int.le_sub_one_of_lt hk
    nlinarith
  · subst hk; simpa using hab
  · have : (1 : ℝ) ≤ k := by exact_mod_cast Int.add_one_le_of_lt hk
    nlinarith

/-- `normalizeAngle` fixes every point of its target window. -/
theorem normalizeAngle_id_of_window (atol x : ℝ) (h0 : 0 ≤ atol) (h1 : atol < Real.pi)
    (hx1 : -Real.pi + atol ≤ x) (hx2 : x < Real.pi + atol) : normalizeAngle atol x = x := by
  obtain ⟨k, hk, hr1, hr2⟩ := normalizeAngle_spec atol x h0 h1
  exact eq_of_congr_of_window hk hr1 (by linarith) hx1 (by linarith)

/-- In particular it fixes `[-π + atol, π]` (for a positive tolerance). -/
theorem normalizeAngle_id_of_range (atol x : ℝ) (h0 : 0 < atol) (h1 : atol < Real.pi)
    (hx : -Real.pi + atol ≤ x ∧ x ≤ Real.pi) : normalizeAngle atol x = x :=
  normalizeAngle_id_of_window atol x h0.le h1 hx.1 (by linarith [hx.2])

theorem normalizeAngle_idem (atol x : ℝ) (h0 : 0 ≤ atol) (h1 : atol < Real.pi) :
    normalizeAngle atol (normalizeAngle atol x) = normalizeAngle atol x := by
  obtain ⟨hr1, hr2⟩ := normalizeAngle_range atol x h0 h1
  exact normalizeAngle_id_of_window atol _ h0 h1 hr1 hr2

/-- non-vacuity: `3π ↦ π`, `-π ↦ π` (the window is closed at the bottom only from `-π + atol`). -/
example : normalizeAngle (1e-3 : ℝ) (3 * Real.pi) = Real.pi := by
  have hpi := Real.two_le_pi
  obtain ⟨k, hk, hr1, hr2⟩ := normalizeAngle_spec (1e-3 : ℝ) (3 * Real.pi) (by norm_num) (by linarith)
  have : normalizeAngle (1e-3 : ℝ) (3 * Real.pi) = Real.pi + 2 * Real.pi * ((k + 1 : ℤ) : ℝ) := by
    rw [hk]; push_cast; ring
  exact eq_of_congr_of_window this hr1 (by linarith) (by linarith) (by linarith)
example : normalizeAngle (1e-3 : ℝ) (Real.pi / 2) = Real.pi / 2 :=
  normalizeAngle_id_of_range _ _ (by norm_num) (by linarith [Real.two_le_pi])
    ⟨by linarith [Real.two_le_pi], by linarith [Real.two_le_pi]⟩

/-! ### `mkAxis` at `ℝ` -/

theorem maxAbs_real (v : Vec3 ℝ) : v.maxAbs = max (max |v.1| |v.2.1|) |v.2.2| := by
  simp only [Vec3.maxAbs, maxS_real, absS_real]

theorem maxAbs_nonneg (v : Vec3 ℝ) : 0 ≤ v.maxAbs := by
  rw [maxAbs_real]; exact le_max_of_le_right (abs_nonneg _)

theorem maxAbs_eq_zero_iff (v : Vec3 ℝ) : v.maxAbs = 0 ↔ v = (0, 0, 0) := by
  obtain ⟨a, b, c⟩ := v
  rw [maxAbs_real]
  constructor
  · intro h
    have h1 : |a| ≤ 0 := h ▸ le_max_of_le_left (le_max_left _ _)
    have h2 : |b| ≤ 0 := h ▸ le_max_of_le_left (le_max_right _ _)
    have h3 : |c| ≤ 0 := h ▸ le_max_right _ _
    simp only [abs_nonpos_iff] at h1 h2 h3
    simp [h1, h2, h3]
  · intro h
    simp only [Prod.mk.injEq] at h
    obtain ⟨rfl, rfl, rfl⟩ := h
    simp

theorem norm_real (v : Vec3 ℝ) : v.norm = Real.sqrt (v.1 ^ 2 + v.2.1 ^ 2 + v.2.2 ^ 2) := by
  simp only [Vec3.norm, trig_sqrt_real, pow_two]

theorem norm_pos_of_ne_zero (v : Vec3 ℝ) (h : v ≠ (0, 0, 0)) : 0 < v.norm := by
  obtain ⟨a, b, c⟩ := v
  rw [norm_real]
  apply Real.sqrt_pos.mpr
  by_contra hle
  have h1 := sq_nonneg a; have h2 := sq_nonneg b; have h3 := sq_nonneg c
  have ha : a ^ 2 = 0 := by linarith
  have hb : b ^ 2 = 0 := by linarith
  have hc : c ^ 2 = 0 := by linarith
  simp only [pow_eq_zero_iff, ne_eq, OfNat.ofNat_ne_zero, not_false_eq_true] at ha hb hc
  exact h (by simp [ha, hb, hc])

/-- Rescaling by a positive factor before normalising changes nothing. -/
theorem divBy_divBy_norm (v : Vec3 ℝ) (l : ℝ) (hl : 0 < l) :
    (v.divBy l).divBy (v.divBy l).norm = v.divBy v.norm := by
  obtain ⟨a, b, c⟩ := v
  have hn : (Vec3.divBy (a, b, c) l).norm = (Vec3.norm (a, b, c)) / l := by
    simp only [norm_real, Vec3.divBy]
    rw [show (a / l) ^ 2 + (b / l) ^ 2 + (c / l) ^ 2 = (a ^ 2 + b ^ 2 + c ^ 2) / l ^ 2 by
      field_simp, Real.sqrt_div' _ (sq_nonneg l), Real.sqrt_sq hl.le]
  rw [hn]
  simp only [Vec3.divBy]
  have hl' : l ≠ 0 := hl.ne'
  simp only [div_div_div_cancel_right₀ hl']

/-- `mkAxis` at `ℝ`, fully evaluated: only the zero vector is refused, everything else is
    normalised (the tiny/huge rescaling branch is mathematically invisible). -/
theorem mkAxis_eq (v : Vec3 ℝ) :
    mkAxis v = if v = (0, 0, 0) then .error .value else .ok (v.divBy v.norm) := by
  unfold mkAxis
  simp only [trig_finite_real, decEqB_real, zero_real, Bool.not_true, Bool.or_false,
    decide_eq_true_eq, maxAbs_eq_zero_iff]
  split_ifs with h0 hw
  · rfl
  · rfl
  · have hl : 0 < v.maxAbs :=
      lt_of_le_of_ne (maxAbs_nonneg v) (fun e => h0 ((maxAbs_eq_zero_iff v).mp e.symm))
    rw [divBy_divBy_norm v _ hl]

theorem divBy_norm_unit (v : Vec3 ℝ) (h : v ≠ (0, 0, 0)) :
    (v.divBy v.norm).1 ^ 2 + (v.divBy v.norm).2.1 ^ 2 + (v.divBy v.norm).2.2 ^ 2 = 1 := by
  have hp := norm_pos_of_ne_zero v h
  have hsq : v.norm ^ 2 = v.1 ^ 2 + v.2.1 ^ 2 + v.2.2 ^ 2 := by
    rw [norm_real, Real.sq_sqrt (by positivity)]
  simp only [Vec3.divBy, div_pow]
  rw [← add_div, ← add_div, ← hsq, div_self (pow_ne_zero _ hp.ne')]

/-- `mkAxis` refuses exactly the zero vector … -/
theorem mkAxis_error_iff (v : Vec3 ℝ) : mkAxis v = .error .value ↔ v = (0, 0, 0) := by
  rw [mkAxis_eq]; split_ifs with h <;> simp [h]

/-- … and that is its only error. -/
theorem mkAxis_error (v : Vec3 ℝ) (e : Err) (h : mkAxis v = .error e) : e = .value ∧ v = (0, 0, 0) := by
  rw [mkAxis_eq] at h; split_ifs at h with h0
  · exact ⟨by injection h with h; exact h.symm, h0⟩

/-- Otherwise it returns `v / ‖v‖`, a unit vector. -/
theorem mkAxis_ok (v a : Vec3 ℝ) (h : mkAxis v = .ok a) :
    v ≠ (0, 0, 0) ∧
    a = (v.1 / Real.sqrt (v.1 ^ 2 + v.2.1 ^ 2 + v.2.2 ^ 2),
         v.2.1 / Real.sqrt (v.1 ^ 2 + v.2.1 ^ 2 + v.2.2 ^ 2),
         v.2.2 / Real.sqrt (v.1 ^ 2 + v.2.1 ^ 2 + v.2.2 ^ 2)) ∧
    a.1 ^ 2 + a.2.1 ^ 2 + a.2.2 ^ 2 = 1 := by
  rw [mkAxis_eq] at h; split_ifs at h with h0
  injection h with h
  subst h
  refine ⟨h0, ?_, divBy_norm_unit v h0⟩
  rw [← norm_real]; rfl

/-- The two halves of the requested statement together. -/
theorem mkAxis_real (v : Vec3 ℝ) :
    (mkAxis v = .error .value ↔ v = (0, 0, 0)) ∧
    (∀ a, mkAxis v = .ok a →
      a = (v.1 / Real.sqrt (v.1 ^ 2 + v.2.1 ^ 2 + v.2.2 ^ 2),
           v.2.1 / Real.sqrt (v.1 ^ 2 + v.2.1 ^ 2 + v.2.2 ^ 2),
           v.2.2 / Real.sqrt (v.1 ^ 2 + v.2.1 ^ 2 + v.2.2 ^ 2)) ∧
      a.1 ^ 2 + a.2.1 ^ 2 + a.2.2 ^ 2 = 1) :=
  ⟨mkAxis_error_iff v, fun a h => (mkAxis_ok v a h).2⟩

/-- A vector that is already unit is returned unchanged. -/
theorem mkAxis_of_unit (v : Vec3 ℝ) (h : v.1 ^ 2 + v.2.1 ^ 2 + v.2.2 ^ 2 = 1) : mkAxis v = .ok v := by
  have h0 : v ≠ (0, 0, 0) := by rintro rfl; norm_num at h
  rw [mkAxis_eq, if_neg h0]
  have : v.norm = 1 := by rw [norm_real, h, Real.sqrt_one]
  obtain ⟨a, b, c⟩ := v
  simp [Vec3.divBy, this]

/-- non-vacuity: `(3, 0, 4) ↦ (3/5, 0, 4/5)`; a tiny vector (rescaling branch) is normalised too. -/
example : mkAxis ((3, 0, 4) : Vec3 ℝ) = .ok (3 / 5, 0, 4 / 5) := by
  rw [mkAxis_eq, if_neg (by simp)]
  have : Vec3.norm ((3, 0, 4) : Vec3 ℝ) = 5 := by
    rw [norm_real, show ((3 : ℝ) ^ 2 + 0 ^ 2 + 4 ^ 2) = 5 ^ 2 by norm_num, Real.sqrt_sq (by norm_num)]
  simp [Vec3.divBy, this]
theorem mkAxis_z (c : ℝ) (hc : 0 < c) : mkAxis ((0, 0, c) : Vec3 ℝ) = .ok (0, 0, 1) := by
  rw [mkAxis_eq, if_neg (by simp [hc.ne'])]
  have : Vec3.norm ((0, 0, c) : Vec3 ℝ) = c := by
    rw [norm_real]; simp [Real.sqrt_sq hc.le]
  rw [this]; simp [Vec3.divBy, hc.ne']
example : mkAxis ((0, 0, 1e-200) : Vec3 ℝ) = .ok (0, 0, 1) := mkAxis_z _ (by norm_num)

/-! ### `can1` denotes `rot` -/

theorem can1_n (axis : Vec3 ℝ) (angle phase : ℝ) : (can1 axis angle phase).n = 2 := rfl

/-- Entrywise: the model's single-qubit matrix is the textbook operator. -/
theorem can1_get (axis : Vec3 ℝ) (angle phase : ℝ) (i j : Fin 2) :
    ((can1 axis angle phase).get i j).toC = rot axis angle phase i j := by
  obtain ⟨nx, ny, nz⟩ := axis
  rw [rot_eq]
  unfold can1
  simp only []
  rw [Mat.get_ofFn i.isLt j.isLt]
  fin_cases i <;> fin_cases j <;>
    simp only [Cx.toC_mul, Cx.toC_expI, Cx.toC_mk, Matrix.smul_apply, smul_eq_mul] <;>
    congr 1 <;> apply Complex.ext <;> simp [-Complex.ofReal_sin, -Complex.ofReal_cos]

/-- As Mathlib matrices (the cast `Fin (can1 …).n = Fin 2` is definitional). -/
theorem can1_eq_rot (axis : Vec3 ℝ) (angle phase : ℝ) :
    (can1 axis angle phase).toMatrix = rot axis angle phase := by
  ext i j; exact can1_get axis angle phase i j

theorem can1_toMatrixOn (axis : Vec3 ℝ) (angle phase : ℝ) :
    (can1 axis angle phase).toMatrixOn 2 = rot axis angle phase := can1_eq_rot axis angle phase

/-- non-vacuity: the model's matrix of `X` (axis `x`, angle `π`, phase `π/2`) is the Pauli `σx`. -/
example : (can1 ((1, 0, 0) : Vec3 ℝ) Real.pi (Real.pi / 2)).toMatrix = σx := by
  rw [can1_eq_rot, rot_eq]
  have hI : Complex.exp (Complex.I * ((Real.pi / 2 : ℝ) : ℂ)) = Complex.I := by
    rw [mul_comm]; push_cast; exact Complex.exp_pi_div_two_mul_I
  rw [hI]
  ext i j
  fin_cases i <;> fin_cases j <;> simp [σx]

/-! ### `mkBSR` -/

/-- `mkBSR` at `ℝ`, fully evaluated. -/
theorem mkBSR_eq (atol : ℝ) (q : Int) (axis : Vec3 ℝ) (angle phase : ℝ) :
    mkBSR atol q axis angle phase =
      if axis = (0, 0, 0) then .error .value
      else .ok (.bsr q (axis.divBy axis.norm) (normalizeAngle atol angle) (normalizeAngle atol phase)) := by
  unfold mkBSR
  rw [mkAxis_eq]
  split_ifs <;> rfl

/-- Sign relation between the operator of the normalised angles and the requested one. -/
theorem rot_normalizeAngle (atol : ℝ) (a : Vec3 ℝ) (angle phase : ℝ) :
    ∃ k : ℤ, normalizeAngle atol angle = angle + 2 * Real.pi * k ∧
      rot a (normalizeAngle atol angle) (normalizeAngle atol phase) = ((-1 : ℂ) ^ k) • rot a angle phase := by
  obtain ⟨k, hk⟩ := normalizeAngle_congr atol angle
  obtain ⟨m, hm⟩ := normalizeAngle_congr atol phase
  exact ⟨k, hk, by rw [hk, hm, rot_phase_add_int_mul_two_pi, rot_add_int_mul_two_pi]⟩

/-- **Constructed rotations are canonical and denote what was requested.**
    If `mkBSR` succeeds, the gate is a rotation on the same qubit whose axis is the normalised
    requested axis (a unit vector), whose angle and phase are the `normalizeAngle` images (hence in
    `[-π+atol, π+atol)` and fixed by a second normalisation), and whose operator equals the
    requested one up to the sign `(-1)^k`, `k` the number of `2π`-shifts of the angle; the shift of
    the phase changes nothing.  No sign when `angle` was already in the window. -/
theorem mkBSR_denotes (atol : ℝ) (h0 : 0 ≤ atol) (h1 : atol < Real.pi) (q : Int) (axis : Vec3 ℝ)
    (angle phase : ℝ) (g : Gate ℝ) (h : mkBSR atol q axis angle phase = .ok g) :
    ∃ a θ φ, g = .bsr q a θ φ ∧
      axis ≠ (0, 0, 0) ∧
      a = (axis.1 / Real.sqrt (axis.1 ^ 2 + axis.2.1 ^ 2 + axis.2.2 ^ 2),
           axis.2.1 / Real.sqrt (axis.1 ^ 2 + axis.2.1 ^ 2 + axis.2.2 ^ 2),
           axis.2.2 / Real.sqrt (axis.1 ^ 2 + axis.2.1 ^ 2 + axis.2.2 ^ 2)) ∧
      a.1 ^ 2 + a.2.1 ^ 2 + a.2.2 ^ 2 = 1 ∧
      θ = normalizeAngle atol angle ∧ φ = normalizeAngle atol phase ∧
      (-Real.pi + atol ≤ θ ∧ θ < Real.pi + atol) ∧ (-Real.pi + atol ≤ φ ∧ φ < Real.pi + atol) ∧
      normalizeAngle atol θ = θ ∧ normalizeAngle atol φ = φ ∧
      (∃ k : ℤ, θ = angle + 2 * Real.pi * k ∧ rot a θ φ = ((-1 : ℂ) ^ k) • rot a angle phase) ∧
      (rot a θ φ = rot a angle phase ∨ rot a θ φ = - rot a angle phase) ∧
      ((-Real.pi + atol ≤ angle ∧ angle < Real.pi + atol) → θ = angle ∧ rot a θ φ = rot a angle phase) := by
  rw [mkBSR_eq] at h
  split_ifs at h with hz
  injection h with h
  subst h
  refine ⟨_, _, _, rfl, hz, ?_, divBy_norm_unit axis hz, rfl, rfl, normalizeAngle_range atol angle h0 h1,
    normalizeAngle_range atol phase h0 h1, normalizeAngle_idem atol angle h0 h1,
    normalizeAngle_idem atol phase h0 h1, rot_normalizeAngle atol _ angle phase, ?_, ?_⟩
  · rw [← norm_real]; rfl
  · obtain ⟨k, -, hk⟩ := rot_normalizeAngle atol (axis.divBy axis.norm) angle phase
    rw [hk]
    rcases Int.even_or_odd k with he | ho
    · left; rw [he.neg_one_zpow, one_smul]
    · right; rw [ho.neg_one_zpow, neg_smul, one_smul]
  · rintro ⟨ha1, ha2⟩
    have hid := normalizeAngle_id_of_window atol angle h0 h1 ha1 ha2
    refine ⟨hid, ?_⟩
    obtain ⟨m, hm⟩ := normalizeAngle_congr atol phase
    rw [hid, hm, rot_phase_add_int_mul_two_pi]

/-- The version with the closed range `[-π+atol, π]` for a positive tolerance. -/
theorem mkBSR_denotes_of_range (atol : ℝ) (h0 : 0 < atol) (h1 : atol < Real.pi) (q : Int)
    (axis : Vec3 ℝ) (angle phase : ℝ) (a : Vec3 ℝ) (θ φ : ℝ) (q' : Int)
    (h : mkBSR atol q axis angle phase = .ok (.bsr q' a θ φ))
    (hr : -Real.pi + atol ≤ angle ∧ angle ≤ Real.pi) :
    q' = q ∧ θ = angle ∧ rot a θ φ = rot a angle phase := by
  obtain ⟨a', θ', φ', hg, -, -, -, -, -, -, -, -, -, -, -, hwin⟩ :=
    mkBSR_denotes atol h0.le h1 q axis angle phase _ h
  injection hg with hq ha hθ hφ
  subst hq ha hθ hφ
  exact ⟨rfl, hwin ⟨hr.1, by linarith [hr.2]⟩⟩

/-- `mkBSR` fails exactly on the zero axis, with `ValueError`. -/
theorem mkBSR_error_iff (atol : ℝ) (q : Int) (axis : Vec3 ℝ) (angle phase : ℝ) (e : Err) :
    mkBSR atol q axis angle phase = .error e ↔ e = .value ∧ axis = (0, 0, 0) := by
  rw [mkBSR_eq]
  split_ifs with hz
  · constructor
    · intro h; injection h with h; exact ⟨h.symm, hz⟩
    · rintro ⟨rfl, -⟩; rfl
  · constructor
    · intro h; cases h
    · rintro ⟨-, h⟩; exact absurd h hz

theorem normalizeAngle_three_pi (atol : ℝ) (h0 : 0 < atol) (h1 : atol < Real.pi) :
    normalizeAngle atol (3 * Real.pi) = Real.pi := by
  have hpi := Real.pi_pos
  obtain ⟨k, hk, hr1, hr2⟩ := normalizeAngle_spec atol (3 * Real.pi) h0.le h1
  have : normalizeAngle atol (3 * Real.pi) = Real.pi + 2 * Real.pi * ((k + 1 : ℤ) : ℝ) := by
    rw [hk]; push_cast; ring
  exact eq_of_congr_of_window this hr1 (by linarith) (by linarith) (by linarith)

/-- non-vacuity: a non-unit axis and an angle outside the window; the operator flips sign. -/
example : mkBSR (1e-3 : ℝ) 0 (0, 0, 2) (3 * Real.pi) 0 = .ok (.bsr 0 (0, 0, 1) Real.pi 0) := by
  have hpi := Real.two_le_pi
  rw [mkBSR]
  rw [mkAxis_z 2 (by norm_num), normalizeAngle_three_pi _ (by norm_num) (by linarith),
    normalizeAngle_id_of_window _ 0 (by norm_num) (by linarith) (by linarith) (by linarith)]
  rfl
example : rot (0, 0, 1) Real.pi 0 = - rot (0, 0, 1) (3 * Real.pi) 0 := by
  have := rot_add_two_pi (0, 0, 1) Real.pi 0
  rw [show Real.pi + 2 * Real.pi = 3 * Real.pi by ring] at this
  rw [this, neg_neg]

/-! ### `Gate.isIdentity` on rotations -/

theorem isIdentity_bsr_iff (atol : ℝ) (q : Int) (a : Vec3 ℝ) (θ φ : ℝ) :
    (Gate.bsr q a θ φ).isIdentity atol = true ↔ |θ| < atol ∧ |φ| < atol := by
  simp only [Gate.isIdentity, Bool.and_eq_true, decide_eq_true_eq]
  exact Iff.rfl

/-- Under crisp tolerance tests, a rotation that `is_identity` accepts denotes the identity. -/
theorem isIdentity_bsr_crisp (atol : ℝ) (q : Int) (a : Vec3 ℝ) (θ φ : ℝ)
    (hθ : |θ| < atol → θ = 0) (hφ : |φ| < atol → φ = 0)
    (h : (Gate.bsr q a θ φ).isIdentity atol = true) : rot a θ φ = 1 := by
  obtain ⟨h1, h2⟩ := (isIdentity_bsr_iff atol q a θ φ).mp h
  rw [hθ h1, hφ h2, rot_zero]

/-- Conversely the exact identity rotation is accepted for every positive tolerance. -/
theorem isIdentity_bsr_zero (atol : ℝ) (h0 : 0 < atol) (q : Int) (a : Vec3 ℝ) :
    (Gate.bsr q a 0 0).isIdentity atol = true := by
  rw [isIdentity_bsr_iff]; simp [h0]

/-- Without crispness only closeness holds: the accepted operator is `exp(iφ)·R_a(θ)` with
    `|θ|, |φ| < atol`, which is not the identity in general (e.g. `θ = 0`, `φ = atol/2`). -/
example : (Gate.bsr 0 ((0, 0, 1) : Vec3 ℝ) 0 (1 / 2)).isIdentity 1 = true ∧
    rot (0, 0, 1) 0 (1 / 2) ≠ 1 := by
  refine ⟨by rw [isIdentity_bsr_iff]; norm_num [abs_of_pos], ?_⟩
  rw [rot_angle_zero]
  intro h
  have h00 := congrFun (congrFun h 0) 0
  simp only [Matrix.smul_apply, Matrix.one_apply_eq, smul_eq_mul, mul_one] at h00
  have him := congrArg Complex.im h00
  rw [mul_comm, Complex.exp_ofReal_mul_I_im] at him
  simp only [Complex.one_im] at him
  have : 0 < Real.sin (1 / 2) := Real.sin_pos_of_pos_of_lt_pi (by norm_num) (by linarith [Real.two_le_pi])
  linarith

example : rot (0, 0, 1) 0 0 = 1 :=
  isIdentity_bsr_crisp (1e-3) 0 (0, 0, 1) 0 0 (fun _ => rfl) (fun _ => rfl)
    (isIdentity_bsr_zero _ (by norm_num) _ _)

end OSq

#print axioms OSq.normalizeAngle_range
#print axioms OSq.normalizeAngle_congr
#print axioms OSq.normalizeAngle_id_of_range
#print axioms OSq.normalizeAngle_idem
#print axioms OSq.mkAxis_real
#print axioms OSq.mkAxis_eq
#print axioms OSq.can1_eq_rot
#print axioms OSq.mkBSR_denotes
#print axioms OSq.mkBSR_denotes_of_range
#print axioms OSq.isIdentity_bsr_crisp
