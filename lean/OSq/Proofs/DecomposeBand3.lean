import OSq.Proofs.DecomposeBand2
import OSq.Proofs.Bands
import OSq.Proofs.Main

/-
  OSq.Proofs.DecomposeBand3 — part 3: **non-vacuity** of the tolerance-level theorems of `OSq.Proofs.DecomposeBand2`
  on runs whose result is accepted but NOT exact, and the theorem that the **defect of the un-normalised phase is gone**:
  a replacement / a gate whose matrix is a mere multiple `c·m`, `c ≠ 1`, of the other is REJECTED by
  `check_gate_replacement`, `compare_gates` and `Gate.__eq__`.
  Helper names live in `namespace OSq.DBand`.

  A. an accepted, inexact decomposer
  * `dShift atol`               every plain rotation `R_n(θ, φ)` ↦ `[R_n(θ + atol/3, φ)]`
  * `shift_accepted'`, `shift_accepted`, `self_accepted`   unit axis, `atol ≤ 3/8`, `|δ| ≤ atol/3` ⇒
                                `checkGateReplacement atol (bsr q n θ φ) [bsr q n (θ+δ) φ] = none`
                                (from `checkGateReplacement_band_accepts_reg` and `Bands.rot_lipschitz_angle`)
  * `rot_z_shift_ne`, `shift_not_exact`   `Rz(θ + δ)` (`0 < δ < 2π`) is not a scalar multiple of `Rz(θ)`; hence the accepted
                                replacement is not `ExactRepl`: the crisp theorems `decompose_sem` / `replace_sem` do not apply
  B. instances (register of 2 qubits; `Rz(θ₁)` on qubit 0, a measurement of qubit 0, `Rz(θ₂)` on qubit 1)
  * `ex_shift_run`, `ex_shift_band`   `decompose atol (dShift atol) …` completes with both angles shifted, and
                                `decompose_ok_band_syntactic` gives `‖circOp out o − z•circOp c o‖ ≤ 2·κ(1, atol)` for all `o`
                                (strictly positive bound);  `ex_shift_band_nohyp`: `decompose_ok_band_nohyp` on the same run;
  * `ex_fail_run` + example     `decompose_fail_band` on a decomposer that raises at the second gate: `G = 1`
  * `exN_shift_run` + example   `replace_ok_band` with a user rule for the named gate `Rz`: `G = 1` (the anonymous gate only
                                passes its self-check)
  C. scalar multiples are rejected
  * `equivPhase_rejects_scalar(')`  `b = γ•a`, an entry of `a` of modulus `≥ μ`, `atol < μ·(|‖γ‖ − 1| − 1e-5·‖γ‖)` ⇒
                                `equivPhase atol a b = false` (resp. `equivPhase atol b a = false` for `… − 1e-5`)
  * `gateOp_matrix_smul`, `local_scalar_pair`, `matrix_gate_big`   `MatrixGate(s·m)` has operator `s•`; local matrices;
                                a unitary matrix gate on `k` qubits has an operator entry `≥ μ` when `μ²·2^k ≤ 1`
  * `scalar_multiple_rejected_big`  general complex scalar `s`, any gate with an operator entry `≥ μ`:
                                `check_gate_replacement` ⇒ `ValueError`, `decompose` stops with it on an unchanged circuit,
                                `compare_gates` and `Gate.__eq__` ⇒ `False` in both orders
  * `scalar_multiple_rejected`  the same for a well-formed UNITARY `MatrixGate(m, ops)` and a real `c > 0`:
                                `atol < μ·(|c − 1| − 1e-5·max(c,1))`, `μ²·2^k ≤ 1`
  * `scalar_multiple_rejected_id4`  `c = 2`, `c = 1/2`, `c = 1000` on the 4×4 identity matrix gate, every `atol ≤ 1/5`;
                                examples: the factor `3i`; the factor `1` is accepted.
  (The former theorem `nonunitary_accepted` — `[MatrixGate(2·m, ops)]` accepted for every unitary `m`, the formal witness
  of the defect of `are_matrices_equivalent_up_to_global_phase` before its repair — is false for the repaired code and
  has been removed together with `equivPhase_accepts_scalar`.)
-/

open Matrix
open scoped Matrix.Norms.L2Operator

namespace OSq
namespace DBand
open Sem

/-! ## A. An accepted, inexact decomposer -/

/-- "shift the angle of every plain rotation by `atol/3`", anything else is returned as it is -/
noncomputable def dShift (atol : ℝ) : Nat → GStmt ℝ → Except Err (List (GStmt ℝ))
  | _, (.bsr q ax θ φ, nm) => .ok [(.bsr q ax (θ + atol / 3) φ, nm)]
  | _, g => .ok [g]

theorem bsr_wf (n : Nat) (q : Int) (hq : 0 ≤ q ∧ q < (n : Int)) (ax : Vec3 ℝ) (θ φ : ℝ) :
    GateWF n (.bsr q ax θ φ) :=
  ⟨by simp [Gate.operands], by
    intro x hx; simp only [Gate.operands, List.mem_singleton] at hx; subst hx; exact hq⟩

/-- **a slightly shifted rotation is accepted** by `check_gate_replacement` (unit axis, `atol ≤ 3/8`, shift `|δ| ≤ atol/3`):
    every entry moves by at most `atol/6` and the rotation has an entry of modulus `≥ 1/2` (band completeness of
    `OSq.Proofs.EqBands`) -/
theorem shift_accepted' (atol δ : ℝ) (h0 : 0 < atol) (h1 : atol ≤ 3 / 8) (hδ : |δ| ≤ atol / 3) (n : Nat) (q : Int)
    (hq : 0 ≤ q ∧ q < (n : Int)) (ax : Vec3 ℝ) (hax : ax.1 ^ 2 + ax.2.1 ^ 2 + ax.2.2 ^ 2 = 1) (θ φ : ℝ) :
    checkGateReplacement atol (.bsr q ax θ φ) [.bsr q ax (θ + δ) φ] = none := by
  have hnd : [q.toNat].Nodup := by simp
  have hlt : ∀ x ∈ [q.toNat], x < n := by
    intro x hx; simp only [List.mem_singleton] at hx; subst hx; omega
  apply checkGateReplacement_band_accepts_reg atol (atol / 6) (1 / 2) h0 (by positivity) n _ _
    (bsr_wf n q hq ax θ φ) trivial
    (by intro r hr; simp only [List.mem_singleton] at hr; subst hr; trivial)
    (by intro r hr; simp only [List.mem_singleton] at hr; subst hr; intro x hx; exact hx) 1 norm_one
  · intro r c
    have e : circOp n (gateStmts [Gate.bsr q ax (θ + δ) φ]) [] = gateOp n (.bsr q ax (θ + δ) φ) := by
      simp [gateStmts]
    rw [e, gateOp_bsr_lift1 n q hq, gateOp_bsr_lift1 n q hq]
    apply EqBands.lift_rel_of_local _ _ (P := fun x y => ‖x - 1 * y‖ ≤ atol / 6)
    · simp only [mul_zero, sub_zero, norm_zero]; positivity
    · intro i j
      rw [gateOp1_bsr_apply, gateOp1_bsr_apply, one_mul]
      refine le_trans (Bands.rot_lipschitz_angle ax hax _ _ _ _ _) ?_
      rw [show θ - (θ + δ) = -δ by ring, abs_neg]
      linarith
  · obtain ⟨i, hi⟩ := rot_entry_large ax θ φ hax
    rw [gateOp_bsr_lift1 n q hq]
    refine ⟨ketAt [q.toNat] hlt (⟨i.val, i.isLt⟩ : Fin (2 ^ 1)), ketAt [q.toNat] hlt (⟨0, by norm_num⟩ : Fin (2 ^ 1)), ?_⟩
    rw [lift_ketAt [q.toNat] rfl hnd hlt, gateOp1_bsr_apply]
    exact hi
  · linarith
  · nlinarith

theorem shift_accepted (atol : ℝ) (h0 : 0 < atol) (h1 : atol ≤ 3 / 8) (n : Nat) (q : Int)
    (hq : 0 ≤ q ∧ q < (n : Int)) (ax : Vec3 ℝ) (hax : ax.1 ^ 2 + ax.2.1 ^ 2 + ax.2.2 ^ 2 = 1) (θ φ : ℝ) :
    checkGateReplacement atol (.bsr q ax θ φ) [.bsr q ax (θ + atol / 3) φ] = none :=
  shift_accepted' atol (atol / 3) h0 h1 (by rw [abs_of_pos (by positivity)]) n q hq ax hax θ φ

/-- the self-check of `replace` on an untouched unit-axis rotation passes -/
theorem self_accepted (atol : ℝ) (h0 : 0 < atol) (h1 : atol ≤ 3 / 8) (n : Nat) (q : Int)
    (hq : 0 ≤ q ∧ q < (n : Int)) (ax : Vec3 ℝ) (hax : ax.1 ^ 2 + ax.2.1 ^ 2 + ax.2.2 ^ 2 = 1) (θ φ : ℝ) :
    checkGateReplacement atol (.bsr q ax θ φ) [.bsr q ax θ φ] = none := by
  have := shift_accepted' atol 0 h0 h1 (by rw [abs_zero]; positivity) n q hq ax hax θ φ
  rwa [add_zero] at this

/-- the shifted rotation about `z` is **not** the original up to any scalar, hence not an exact replacement -/
theorem rot_z_shift_ne (θ δ φ : ℝ) (hδ0 : 0 < δ) (hδ1 : δ < 2 * Real.pi) (z : ℂ) :
    rot (0, 0, 1) (θ + δ) φ ≠ z • rot (0, 0, 1) θ φ := by
  intro h
  have h00 := congrFun (congrFun h 0) 0
  have h11 := congrFun (congrFun h 1) 1
  rw [rot_eq, rot_eq] at h00 h11
  simp only [Matrix.smul_apply, Matrix.of_apply, Matrix.cons_val_zero, Matrix.cons_val_one, smul_eq_mul,
    Complex.ofReal_one, mul_one, Complex.ofReal_zero, mul_zero] at h00 h11
  have hE : Complex.exp (Complex.I * φ) ≠ 0 := Complex.exp_ne_zero _
  set E := Complex.exp (Complex.I * φ)
  set c : ℂ := (Real.cos (θ / 2) : ℂ)
  set s : ℂ := (Real.sin (θ / 2) : ℂ)
  set c' : ℂ := (Real.cos ((θ + δ) / 2) : ℂ)
  set s' : ℂ := (Real.sin ((θ + δ) / 2) : ℂ)
  have key : E * ((c' - Complex.I * s') * (c + Complex.I * s) - (c' + Complex.I * s') * (c - Complex.I * s)) = 0 := by
    linear_combination (c + Complex.I * s) * h00 - (c - Complex.I * s) * h11
  have key2 : (c' - Complex.I * s') * (c + Complex.I * s) - (c' + Complex.I * s') * (c - Complex.I * s) = 0 :=
    (mul_eq_zero.mp key).resolve_left hE
  have key3 : Complex.I * (2 * (c' * s - s' * c)) = 0 := by linear_combination key2
  have key4 : c' * s - s' * c = 0 := by
    have := (mul_eq_zero.mp key3).resolve_left Complex.I_ne_zero
    exact (mul_eq_zero.mp this).resolve_left two_ne_zero
  have key5 : Real.cos ((θ + δ) / 2) * Real.sin (θ / 2) - Real.sin ((θ + δ) / 2) * Real.cos (θ / 2) = 0 := by
    have : ((Real.cos ((θ + δ) / 2) * Real.sin (θ / 2) - Real.sin ((θ + δ) / 2) * Real.cos (θ / 2) : ℝ) : ℂ) = 0 := by
      simp only [Complex.ofReal_sub, Complex.ofReal_mul]; exact key4
    exact_mod_cast this
  have hsin : Real.sin (δ / 2) = 0 := by
    have e : δ / 2 = (θ + δ) / 2 - θ / 2 := by ring
    rw [e, Real.sin_sub]
    linarith
  have hpos : 0 < Real.sin (δ / 2) := Real.sin_pos_of_pos_of_lt_pi (by linarith) (by linarith)
  linarith

theorem shift_not_exact (atol : ℝ) (h0 : 0 < atol) (h1 : atol ≤ 3 / 8) (n : Nat) (q : Int)
    (hq : 0 ≤ q ∧ q < (n : Int)) (θ φ : ℝ) :
    ¬ ExactRepl (.bsr q (0, 0, 1) θ φ) [.bsr q (0, 0, 1) (θ + atol / 3) φ] := by
  intro hex
  obtain ⟨z, -, hz⟩ := exactRepl_circOp (n := n) (bsr_wf n q hq _ θ φ) hex
  have e : circOp n (gateStmts [Gate.bsr q ((0, 0, 1) : Vec3 ℝ) (θ + atol / 3) φ]) []
      = gateOp n (.bsr q (0, 0, 1) (θ + atol / 3) φ) := by simp [gateStmts]
  rw [e, gateOp_bsr_lift1 n q hq, gateOp_bsr_lift1 n q hq] at hz
  have hnd : [q.toNat].Nodup := by simp
  have hlt : ∀ x ∈ [q.toNat], x < n := by
    intro x hx; simp only [List.mem_singleton] at hx; subst hx; omega
  have hloc := (lift_eq_smul_iff [q.toNat] rfl hnd hlt z).mp hz
  apply rot_z_shift_ne θ (atol / 3) φ (by positivity) (by have := Real.two_le_pi; linarith) z
  ext i j
  have := congrFun (congrFun hloc (⟨i.val, i.isLt⟩ : Fin (2 ^ 1))) (⟨j.val, j.isLt⟩ : Fin (2 ^ 1))
  rw [Matrix.smul_apply, gateOp1_bsr_apply, gateOp1_bsr_apply] at this
  exact this


/-! ## B. Non-vacuity of the main theorems: a two-gate circuit with a measurement, decomposer `dShift` -/

/-- `Rz(θ₁)` on qubit 0, measure qubit 0, `Rz(θ₂)` on qubit 1 -/
noncomputable def exCirc (θ₁ θ₂ : ℝ) : Circuit ℝ :=
  ⟨2, 1, [.gate (.bsr 0 (0, 0, 1) θ₁ 0) none, .measure 0 0 (0, 0, 1) none, .gate (.bsr 1 (0, 0, 1) θ₂ 0) none]⟩

noncomputable def exOut (atol θ₁ θ₂ : ℝ) : List (Stmt ℝ) :=
  [.gate (.bsr 0 (0, 0, 1) (θ₁ + atol / 3) 0) none, .measure 0 0 (0, 0, 1) none,
   .gate (.bsr 1 (0, 0, 1) (θ₂ + atol / 3) 0) none]

theorem ez_unit : ((0, 0, 1) : Vec3 ℝ).1 ^ 2 + ((0, 0, 1) : Vec3 ℝ).2.1 ^ 2 + ((0, 0, 1) : Vec3 ℝ).2.2 ^ 2 = 1 := by
  norm_num

theorem ex_shift_run (atol : ℝ) (h0 : 0 < atol) (h1 : atol ≤ 3 / 8) (θ₁ θ₂ : ℝ) :
    decompose atol (dShift atol) (exCirc θ₁ θ₂).stmts = (exOut atol θ₁ θ₂, none) := by
  have a1 := shift_accepted atol h0 h1 2 0 (by omega) (0, 0, 1) ez_unit θ₁ 0
  have a2 := shift_accepted atol h0 h1 2 1 (by omega) (0, 0, 1) ez_unit θ₂ 0
  simp [decompose, decomposeLoop, exCirc, exOut, dShift, a1, a2, GStmt.toStmt]

theorem exCirc_wf (θ₁ θ₂ : ℝ) : (exCirc θ₁ θ₂).wf = true := by
  simp [Circuit.wf, exCirc, Stmt.wf, inRange, hasDup, Gate.operands, Gate.shapeOk]

theorem exCirc_gates (θ₁ θ₂ : ℝ) (g : Gate ℝ) (nm : Option (Named ℝ)) (h : Stmt.gate g nm ∈ (exCirc θ₁ θ₂).stmts) :
    (g = .bsr 0 (0, 0, 1) θ₁ 0 ∨ g = .bsr 1 (0, 0, 1) θ₂ 0) := by
  simp only [exCirc, List.mem_cons, Stmt.gate.injEq, reduceCtorEq, List.not_mem_nil, or_false, false_or] at h
  rcases h with ⟨rfl, _⟩ | ⟨rfl, _⟩
  · exact Or.inl rfl
  · exact Or.inr rfl

/-- **`decompose_ok_band` instantiated**: the pass completes with a result that is *not* exact, and the theorem bounds
    the distance by `2·κ(1, atol)`, for every outcome of the measurement -/
theorem ex_shift_band (atol : ℝ) (h0 : 0 < atol) (h1 : atol ≤ 3 / 8) (θ₁ θ₂ : ℝ) :
    ∃ z : ℂ, ‖z‖ = 1 ∧ ∀ o,
      ‖circOp 2 (exOut atol θ₁ θ₂) o - z • circOp 2 (exCirc θ₁ θ₂).stmts o‖ ≤ 2 * kappa 1 atol := by
  have := decompose_ok_band_syntactic atol h0 (dShift atol) (exCirc θ₁ θ₂) (exOut atol θ₁ θ₂) 1
    (exCirc_wf θ₁ θ₂)
    (by
      intro g nm hm
      rcases exCirc_gates θ₁ θ₂ g nm hm with rfl | rfl <;> exact ez_unit)
    (by
      intro g nm hm
      rcases exCirc_gates θ₁ θ₂ g nm hm with rfl | rfl <;> simp [Gate.operands])
    (by
      intro k g nm repl hs hd x hx
      rcases exCirc_gates θ₁ θ₂ g nm (List.mem_of_getElem? hs) with rfl | rfl <;>
      · simp only [dShift, Except.ok.injEq] at hd
        subst hd
        simp only [List.mem_singleton] at hx
        subst hx
        exact ⟨by simp [Gate.operands], ez_unit⟩)
    (ex_shift_run atol h0 h1 θ₁ θ₂)
  have hcount : gateCount (exCirc θ₁ θ₂).stmts = 2 := by
    simp [gateCount, exCirc, List.countP_cons, Stmt.isGate]
  rw [hcount] at this
  exact_mod_cast this

/-- **`decompose_ok_band_nohyp` instantiated** on the same run: no hypothesis on the decomposer is discharged, the
    bound is the product form `(1 + κ_L(1, atol))² − 1` -/
theorem ex_shift_band_nohyp (atol : ℝ) (h0 : 0 < atol) (h1 : atol ≤ 3 / 8) (θ₁ θ₂ : ℝ) :
    ∃ z : ℂ, ‖z‖ = 1 ∧ ∀ o,
      ‖circOp 2 (exOut atol θ₁ θ₂) o - z • circOp 2 (exCirc θ₁ θ₂).stmts o‖ ≤ (1 + kappaL 1 atol) ^ 2 - 1 := by
  have := decompose_ok_band_nohyp atol h0 (dShift atol) (exCirc θ₁ θ₂) (exOut atol θ₁ θ₂) 1
    (exCirc_wf θ₁ θ₂)
    (by
      intro g nm hm
      rcases exCirc_gates θ₁ θ₂ g nm hm with rfl | rfl <;> exact ez_unit)
    (by
      intro g nm hm
      rcases exCirc_gates θ₁ θ₂ g nm hm with rfl | rfl <;> simp [Gate.operands])
    (ex_shift_run atol h0 h1 θ₁ θ₂)
  have hcount : gateCount (exCirc θ₁ θ₂).stmts = 2 := by
    simp [gateCount, exCirc, List.countP_cons, Stmt.isGate]
  rwa [hcount] at this

/-- … the bound is strictly positive, and the crisp theorem `decompose_sem` does not apply: its hypothesis `ExactRepl`
    fails for the accepted replacement of the very first gate -/
example (atol : ℝ) (h0 : 0 < atol) : 0 < 2 * kappa 1 atol := by
  unfold kappa
  have := rtol_real_nonneg
  positivity

example (atol : ℝ) (h0 : 0 < atol) (h1 : atol ≤ 3 / 8) (θ₁ : ℝ) :
    checkGateReplacement atol (.bsr 0 (0, 0, 1) θ₁ 0) [.bsr 0 (0, 0, 1) (θ₁ + atol / 3) 0] = none ∧
    ¬ ExactRepl (.bsr 0 (0, 0, 1) θ₁ 0) [.bsr 0 (0, 0, 1) (θ₁ + atol / 3) 0] :=
  ⟨shift_accepted atol h0 h1 2 0 (by omega) (0, 0, 1) ez_unit θ₁ 0,
    shift_not_exact atol h0 h1 2 0 (by omega) θ₁ 0⟩

/-- failure: a decomposer that shifts the first gate and raises on the second leaves `[shifted, measure, original]`,
    within `1·κ(1, atol)` of the original (`decompose_fail_band`, `G = 1`) -/
noncomputable def dShiftThenFail (atol : ℝ) : Nat → GStmt ℝ → Except Err (List (GStmt ℝ))
  | 0, g => dShift atol 0 g
  | _, _ => .error .unsupported

theorem ex_fail_run (atol : ℝ) (h0 : 0 < atol) (h1 : atol ≤ 3 / 8) (θ₁ θ₂ : ℝ) :
    decompose atol (dShiftThenFail atol) (exCirc θ₁ θ₂).stmts =
      ([.gate (.bsr 0 (0, 0, 1) (θ₁ + atol / 3) 0) none, .measure 0 0 (0, 0, 1) none,
        .gate (.bsr 1 (0, 0, 1) θ₂ 0) none], some .unsupported) := by
  have a1 := shift_accepted atol h0 h1 2 0 (by omega) (0, 0, 1) ez_unit θ₁ 0
  simp [decompose, decomposeLoop, exCirc, dShiftThenFail, dShift, a1, GStmt.toStmt]

example (atol : ℝ) (h0 : 0 < atol) (h1 : atol ≤ 3 / 8) (θ₁ θ₂ : ℝ) :
    ∃ k g nm, (exCirc θ₁ θ₂).stmts[k]? = some (.gate g nm) ∧
      Rejects atol (dShiftThenFail atol) (gateIdx (exCirc θ₁ θ₂).stmts k) (.gate g nm) .unsupported ∧
      ∃ z : ℂ, ‖z‖ = 1 ∧ ∀ o,
        ‖circOp 2 [.gate (.bsr 0 (0, 0, 1) (θ₁ + atol / 3) 0) none, .measure 0 0 (0, 0, 1) none,
            .gate (.bsr 1 (0, 0, 1) θ₂ 0) none] o - z • circOp 2 (exCirc θ₁ θ₂).stmts o‖
          ≤ (gateIdx (exCirc θ₁ θ₂).stmts k : ℝ) * kappa 1 atol := by
  apply decompose_fail_band atol h0 (dShiftThenFail atol) (exCirc θ₁ θ₂) _ .unsupported 1 (exCirc_wf θ₁ θ₂)
    (by
      intro g nm hm
      rcases exCirc_gates θ₁ θ₂ g nm hm with rfl | rfl <;> exact ez_unit)
    (by
      intro g nm hm
      rcases exCirc_gates θ₁ θ₂ g nm hm with rfl | rfl <;> simp [Gate.operands])
    _ (ex_fail_run atol h0 h1 θ₁ θ₂)
  intro k g nm repl hs hd hc
  have hwf : GateWF 2 g := (Circuit.opOK_of_wf _ (exCirc_wf θ₁ θ₂) (by
      intro g nm hm
      rcases exCirc_gates θ₁ θ₂ g nm hm with rfl | rfl <;> exact ez_unit)).2 g nm (List.mem_of_getElem? hs)
  apply accepted_unitary_of_syntactic atol 2 g repl hwf _ hc
  intro x hx
  cases hk : gateIdx (exCirc θ₁ θ₂).stmts k with
  | zero =>
    rw [hk] at hd
    rcases exCirc_gates θ₁ θ₂ g nm (List.mem_of_getElem? hs) with rfl | rfl <;>
    · simp only [dShiftThenFail, dShift, Except.ok.injEq] at hd
      subst hd
      simp only [List.mem_singleton] at hx
      subst hx
      exact ⟨by simp [Gate.operands], ez_unit⟩
  | succ j =>
    rw [hk] at hd
    simp [dShiftThenFail] at hd


/-! ### `replace` on the same circuit with the first gate named `Rz` -/

noncomputable def exCircN (θ₁ θ₂ : ℝ) : Circuit ℝ :=
  ⟨2, 1, [.gate (.bsr 0 (0, 0, 1) θ₁ 0) (some ⟨"Rz", [.qubit 0, .float θ₁]⟩), .measure 0 0 (0, 0, 1) none,
    .gate (.bsr 1 (0, 0, 1) θ₂ 0) none]⟩

/-- the user rule: `Rz(q, θ) ↦ [Rz(q, θ + atol/3)]` (anonymous) -/
noncomputable def fShift (atol : ℝ) : Nat → List (Arg ℝ) → Except Err (List (GStmt ℝ))
  | _, [.qubit q, .float θ] => .ok [(.bsr q (0, 0, 1) (θ + atol / 3) 0, none)]
  | _, _ => .error .value

theorem exN_shift_run (atol : ℝ) (h0 : 0 < atol) (h1 : atol ≤ 3 / 8) (θ₁ θ₂ : ℝ) :
    replace atol "Rz" (fShift atol) (exCircN θ₁ θ₂).stmts =
      ([.gate (.bsr 0 (0, 0, 1) (θ₁ + atol / 3) 0) none, .measure 0 0 (0, 0, 1) none,
        .gate (.bsr 1 (0, 0, 1) θ₂ 0) none], none) := by
  have a1 := shift_accepted atol h0 h1 2 0 (by omega) (0, 0, 1) ez_unit θ₁ 0
  have a2 := self_accepted atol h0 h1 2 1 (by omega) (0, 0, 1) ez_unit θ₂ 0
  simp [replace, replace.go, exCircN, fShift, a1, a2, GStmt.toStmt]

theorem exCircN_gates (θ₁ θ₂ : ℝ) (g : Gate ℝ) (nm : Option (Named ℝ))
    (h : Stmt.gate g nm ∈ (exCircN θ₁ θ₂).stmts) :
    (g = .bsr 0 (0, 0, 1) θ₁ 0 ∧ nm = some ⟨"Rz", [.qubit 0, .float θ₁]⟩) ∨ (g = .bsr 1 (0, 0, 1) θ₂ 0 ∧ nm = none) := by
  simp only [exCircN, List.mem_cons, Stmt.gate.injEq, reduceCtorEq, List.not_mem_nil, or_false, false_or] at h
  rcases h with ⟨rfl, rfl⟩ | ⟨rfl, rfl⟩
  · exact Or.inl ⟨rfl, rfl⟩
  · exact Or.inr ⟨rfl, rfl⟩

/-- **`replace_ok_band` instantiated**: one matching gate, so the bound is `1·κ(1, atol)` -/
example (atol : ℝ) (h0 : 0 < atol) (h1 : atol ≤ 3 / 8) (θ₁ θ₂ : ℝ) :
    ∃ z : ℂ, ‖z‖ = 1 ∧ ∀ o,
      ‖circOp 2 [.gate (.bsr 0 (0, 0, 1) (θ₁ + atol / 3) 0) none, .measure 0 0 (0, 0, 1) none,
          .gate (.bsr 1 (0, 0, 1) θ₂ 0) none] o - z • circOp 2 (exCircN θ₁ θ₂).stmts o‖
        ≤ ((exCircN θ₁ θ₂).stmts.countP (matchesName "Rz") : ℝ) * kappa 1 atol := by
  have hU : ∀ g nm, Stmt.gate g nm ∈ (exCircN θ₁ θ₂).stmts → g.Unitary := by
    intro g nm hm
    rcases exCircN_gates θ₁ θ₂ g nm hm with ⟨rfl, -⟩ | ⟨rfl, -⟩ <;> exact ez_unit
  have hwf : (exCircN θ₁ θ₂).wf = true := by
    simp [Circuit.wf, exCircN, Stmt.wf, inRange, hasDup, Gate.operands, Gate.shapeOk]
  apply replace_ok_band atol h0 "Rz" (fShift atol) (exCircN θ₁ θ₂) _ 1 hwf hU
    (by
      intro g nm hm _
      rcases exCircN_gates θ₁ θ₂ g _ hm with ⟨rfl, -⟩ | ⟨rfl, -⟩ <;> simp [Gate.operands])
    _ (exN_shift_run atol h0 h1 θ₁ θ₂)
  intro k g nm repl hs _ hf hc
  have hm := List.mem_of_getElem? hs
  apply accepted_unitary_of_syntactic atol 2 g repl ((Circuit.opOK_of_wf _ hwf hU).2 g _ hm) _ hc
  intro x hx
  rcases exCircN_gates θ₁ θ₂ g _ hm with ⟨rfl, hnm⟩ | ⟨rfl, hnm⟩
  · cases hnm
    simp only [fShift, Except.ok.injEq] at hf
    subst hf
    simp only [List.mem_singleton] at hx
    subst hx
    exact ⟨by simp [Gate.operands], ez_unit⟩
  · cases hnm


/-! ## C. A matrix that is a mere multiple of the other is rejected (the defect of the un-normalised phase is gone) -/

/-- `equivPhase` REJECTS `b = γ•a` as soon as `a` has an entry of modulus `≥ μ` with `atol < μ·(|‖γ‖ − 1| − 1e-5·‖γ‖)`:
    for every unit `z`, `|a_k − z·γ·a_k| ≥ |a_k|·|1 − ‖γ‖|`.  (Before the measured phase was normalised, `b = γ•a` was
    ACCEPTED for every `γ ≠ 0`.) -/
theorem equivPhase_rejects_scalar (atol μ : ℝ) (h0 : 0 < atol) (N : Nat) (a b : Mat ℝ) (ha : a.n = N)
    (hb : b.n = N) (γ : ℂ) (hab : b.toMatrixOn N = γ • a.toMatrixOn N)
    (hbig : ∃ i j : Fin N, μ ≤ ‖a.toMatrixOn N i j‖) (hμ : 0 ≤ μ)
    (hrej : atol < μ * (|‖γ‖ - 1| - 1e-5 * ‖γ‖)) : equivPhase atol a b = false := by
  cases h : equivPhase atol a b with
  | false => rfl
  | true =>
    exfalso
    obtain ⟨z, hz, H⟩ := equivPhase_sound_get atol h0 N a b ha hb h
    obtain ⟨i, j, hij⟩ := hbig
    have h1 := H i.val j.val i.isLt j.isLt
    have hbij : (b.get i.val j.val).toC = γ * (a.get i.val j.val).toC := by
      have := congrFun (congrFun hab i) j
      simpa [Mat.toMatrixOn_apply] using this
    rw [Mat.toMatrixOn_apply] at hij
    rw [hbij] at h1
    have e : (a.get i.val j.val).toC - z * (γ * (a.get i.val j.val).toC)
        = (1 - z * γ) * (a.get i.val j.val).toC := by ring
    rw [e, norm_mul, norm_mul, norm_mul, hz, one_mul] at h1
    have h2 := abs_norm_sub_norm_le (1 : ℂ) (z * γ)
    rw [norm_one, norm_mul, hz, one_mul, abs_sub_comm] at h2
    set t := ‖(a.get i.val j.val).toC‖
    have ht : 0 ≤ t := norm_nonneg _
    have h3 : |‖γ‖ - 1| * t ≤ ‖1 - z * γ‖ * t := mul_le_mul_of_nonneg_right h2 ht
    have hfac : 0 < |‖γ‖ - 1| - 1e-5 * ‖γ‖ := by
      by_contra hcon
      have hcon := not_lt.mp hcon
      have : μ * (|‖γ‖ - 1| - 1e-5 * ‖γ‖) ≤ 0 := mul_nonpos_of_nonneg_of_nonpos hμ hcon
      linarith
    have h4 : μ * (|‖γ‖ - 1| - 1e-5 * ‖γ‖) ≤ t * (|‖γ‖ - 1| - 1e-5 * ‖γ‖) :=
      mul_le_mul_of_nonneg_right hij hfac.le
    nlinarith

/-- the other order: `a' = γ•a` against `a` is rejected as soon as `atol < μ·(|‖γ‖ − 1| − 1e-5)` -/
theorem equivPhase_rejects_scalar' (atol μ : ℝ) (h0 : 0 < atol) (N : Nat) (a b : Mat ℝ) (ha : a.n = N)
    (hb : b.n = N) (γ : ℂ) (hab : b.toMatrixOn N = γ • a.toMatrixOn N)
    (hbig : ∃ i j : Fin N, μ ≤ ‖a.toMatrixOn N i j‖) (hμ : 0 ≤ μ)
    (hrej : atol < μ * (|‖γ‖ - 1| - 1e-5)) : equivPhase atol b a = false := by
  cases h : equivPhase atol b a with
  | false => rfl
  | true =>
    exfalso
    obtain ⟨z, hz, H⟩ := equivPhase_sound_get atol h0 N b a hb ha h
    obtain ⟨i, j, hij⟩ := hbig
    have h1 := H i.val j.val i.isLt j.isLt
    have hbij : (b.get i.val j.val).toC = γ * (a.get i.val j.val).toC := by
      have := congrFun (congrFun hab i) j
      simpa [Mat.toMatrixOn_apply] using this
    rw [Mat.toMatrixOn_apply] at hij
    rw [hbij] at h1
    have e : γ * (a.get i.val j.val).toC - z * (a.get i.val j.val).toC
        = (γ - z) * (a.get i.val j.val).toC := by ring
    rw [e, norm_mul, norm_mul, hz, one_mul] at h1
    have h2 := abs_norm_sub_norm_le γ z
    rw [hz] at h2
    set t := ‖(a.get i.val j.val).toC‖
    have ht : 0 ≤ t := norm_nonneg _
    have h3 : |‖γ‖ - 1| * t ≤ ‖γ - z‖ * t := mul_le_mul_of_nonneg_right h2 ht
    have hfac : 0 < |‖γ‖ - 1| - 1e-5 := by
      by_contra hcon
      have hcon := not_lt.mp hcon
      have : μ * (|‖γ‖ - 1| - 1e-5) ≤ 0 := mul_nonpos_of_nonneg_of_nonpos hμ hcon
      linarith
    have h4 : μ * (|‖γ‖ - 1| - 1e-5) ≤ t * (|‖γ‖ - 1| - 1e-5) := mul_le_mul_of_nonneg_right hij hfac.le
    nlinarith

theorem toMatrixOn_smul' {N : Nat} (z : Cx ℝ) (a : Mat ℝ) (ha : a.n = N) :
    (Mat.smul z a).toMatrixOn N = z.toC • a.toMatrixOn N := by
  subst ha; exact Mat.toMatrixOn_smul z a

/-- the operator of `MatrixGate(s·m, ops)` is `s` times the operator of `MatrixGate(m, ops)` -/
theorem gateOp_matrix_smul (n : Nat) (s : Cx ℝ) (m : Mat ℝ) (ops : List Int) (hdim : m.n = 2 ^ ops.length) :
    gateOp n (.matrix (Mat.smul s m) ops) = s.toC • gateOp n (.matrix m ops) := by
  rw [gateOp_matrix_eq_lift, gateOp_matrix_eq_lift, toMatrixOn_smul' _ _ hdim, lift_smul]

/-- on any admissible enumeration `idx` of qubits the two local matrices differ by the factor `s`, and the local matrix
    of the unscaled gate inherits a large entry from the register operator -/
theorem local_scalar_pair {n : Nat} (idx : List Int) (hnd : idx.Nodup) (hreg : ∀ q ∈ idx, 0 ≤ q ∧ q < (n : Int))
    (s : Cx ℝ) (m : Mat ℝ) (ops : List Int) (hdim : m.n = 2 ^ ops.length) {A B : Mat ℝ}
    (hA : localMatrix idx [Gate.matrix m ops] = .ok A) (hB : localMatrix idx [Gate.matrix (Mat.smul s m) ops] = .ok B)
    {μ : ℝ} (hμ : 0 < μ) (hbig : ∃ r c, μ ≤ ‖gateOp n (.matrix m ops) r c‖) :
    B.toMatrixOn (2 ^ idx.length) = s.toC • A.toMatrixOn (2 ^ idx.length) ∧
      ∃ i j : Fin (2 ^ idx.length), μ ≤ ‖A.toMatrixOn (2 ^ idx.length) i j‖ := by
  have hgA := gateOp_eq_lift_localMatrix (n := n) idx hnd hreg hA
  have hgB := gateOp_eq_lift_localMatrix (n := n) idx hnd hreg hB
  have hndN := nodup_map_toNat (n := n) idx hnd hreg
  have hltN := map_toNat_lt (n := n) idx hreg
  constructor
  · apply lift_injective (n := n) _ (List.length_map _) hndN hltN
    rw [lift_smul, ← hgA, ← hgB, gateOp_matrix_smul n s m ops hdim]
  · rw [hgA] at hbig
    exact EqBands.local_big_of_lift _ _ hμ _ hbig

/-- **The defect is gone (C06/C16).**  For a well-formed matrix gate `g = MatrixGate(m, ops)` whose operator has an entry
    of modulus `≥ μ > 0` and a complex scalar `s` of modulus `ρ = ‖s‖` with `atol < μ·(|ρ − 1| − 1e-5·max(ρ, 1))`:
    the replacement `[MatrixGate(s·m, ops)]` is REJECTED by `check_gate_replacement` (`ValueError`), the decompose pass
    with a decomposer answering it stops with that error and leaves the circuit unchanged, and `compare_gates` /
    `Gate.__eq__` answer `False` in both orders.  (`nonunitary_accepted`, the formal witness of the defect of the
    un-normalised phase — `[MatrixGate(2·m, ops)]` accepted for every unitary `m` — is now false and has been removed.) -/
theorem scalar_multiple_rejected_big (atol μ : ℝ) (h0 : 0 < atol) (n : Nat) (m : Mat ℝ) (ops : List Int) (s : Cx ℝ)
    (hwf : GateWF n (.matrix m ops)) (hdim : m.n = 2 ^ ops.length) (hμ : 0 < μ)
    (hbig : ∃ r c, μ ≤ ‖gateOp n (.matrix m ops) r c‖)
    (hrej : atol < μ * (|‖s.toC‖ - 1| - 1e-5 * ‖s.toC‖))
    (hrej' : atol < μ * (|‖s.toC‖ - 1| - 1e-5)) :
    checkGateReplacement atol (.matrix m ops) [.matrix (Mat.smul s m) ops] = some .value ∧
    decompose atol (fun _ _ => .ok [(.matrix (Mat.smul s m) ops, none)]) [.gate (.matrix m ops) none]
      = ([.gate (.matrix m ops) none], some .value) ∧
    compareGates atol (.matrix m ops) (.matrix (Mat.smul s m) ops) = .ok false ∧
    compareGates atol (.matrix (Mat.smul s m) ops) (.matrix m ops) = .ok false ∧
    gateEq atol (.matrix m ops) (.matrix (Mat.smul s m) ops) = .ok false ∧
    gateEq atol (.matrix (Mat.smul s m) ops) (.matrix m ops) = .ok false := by
  set g : Gate ℝ := .matrix m ops with hg
  set g2 : Gate ℝ := .matrix (Mat.smul s m) ops with hg2
  have hd2 : g2.dimOk := by show (Mat.smul _ m).n = _; exact hdim
  -- the check
  have hcheck : checkGateReplacement atol g [g2] = some .value := by
    obtain ⟨A, hA⟩ := (localMatrix_single_ok_iff g.operands g).mpr ⟨fun q hq => hq, hdim⟩
    obtain ⟨B, hB⟩ := (localMatrix_single_ok_iff g.operands g2).mpr ⟨fun q hq => hq, hd2⟩
    obtain ⟨hAB, hbigA⟩ := local_scalar_pair (n := n) g.operands hwf.1 hwf.2 s m ops hdim hA hB hμ hbig
    have hrejE := equivPhase_rejects_scalar atol μ h0 _ A B (localMatrix_dim hA).1 (localMatrix_dim hB).1
      s.toC hAB hbigA hμ.le hrej
    rw [checkGateReplacement_local atol g [g2] (by
      intro r hr q hq; simp only [List.mem_singleton] at hr; subst hr; exact hq) hA hB, hrejE]
    rfl
  -- the comparisons, on the union of the operands
  have hr : g.inReg n := hwf.2
  have hr2 : g2.inReg n := hwf.2
  have hnd := dedup_nodup (g.operands ++ g2.operands)
  have hreg := dedup_union_reg hr hr2
  have hnd' := dedup_nodup (g2.operands ++ g.operands)
  have hreg' := dedup_union_reg hr2 hr
  have hcmp : compareGates atol g g2 = .ok false := by
    obtain ⟨A, hA⟩ := (localMatrix_single_ok_iff (dedup (g.operands ++ g2.operands)) g).mpr
      ⟨fun q hq => (mem_dedup _ q).mpr (List.mem_append_left _ hq), hdim⟩
    obtain ⟨B, hB⟩ := (localMatrix_single_ok_iff (dedup (g.operands ++ g2.operands)) g2).mpr
      ⟨fun q hq => (mem_dedup _ q).mpr (List.mem_append_right _ hq), hd2⟩
    obtain ⟨hAB, hbigA⟩ := local_scalar_pair (n := n) _ hnd hreg s m ops hdim hA hB hμ hbig
    rw [compareGates_eq_with, compareGatesWith_eq atol _ g g2 hA hB,
      equivPhase_rejects_scalar atol μ h0 _ A B (localMatrix_dim hA).1 (localMatrix_dim hB).1 s.toC hAB hbigA
        hμ.le hrej]
  have hcmp' : compareGates atol g2 g = .ok false := by
    obtain ⟨A, hA⟩ := (localMatrix_single_ok_iff (dedup (g2.operands ++ g.operands)) g).mpr
      ⟨fun q hq => (mem_dedup _ q).mpr (List.mem_append_right _ hq), hdim⟩
    obtain ⟨B, hB⟩ := (localMatrix_single_ok_iff (dedup (g2.operands ++ g.operands)) g2).mpr
      ⟨fun q hq => (mem_dedup _ q).mpr (List.mem_append_left _ hq), hd2⟩
    obtain ⟨hAB, hbigA⟩ := local_scalar_pair (n := n) _ hnd' hreg' s m ops hdim hA hB hμ hbig
    rw [compareGates_eq_with, compareGatesWith_eq atol _ g2 g hB hA,
      equivPhase_rejects_scalar' atol μ h0 _ A B (localMatrix_dim hA).1 (localMatrix_dim hB).1 s.toC hAB hbigA
        hμ.le hrej']
  refine ⟨hcheck, ?_, hcmp, hcmp', hcmp, hcmp'⟩
  simp [decompose, decomposeLoop, hcheck]

/-- a unitary matrix gate has an operator entry of modulus `≥ μ` as soon as `μ²·2^k ≤ 1` (`k` operands) -/
theorem matrix_gate_big (n : Nat) (m : Mat ℝ) (ops : List Int) (hwf : GateWF n (.matrix m ops))
    (hU : (Gate.matrix m ops).Unitary) (μ : ℝ) (hμ : μ ^ 2 * (2 ^ ops.length : ℕ) ≤ 1) :
    ∃ r c, μ ≤ ‖gateOp n (.matrix m ops) r c‖ := by
  obtain ⟨i, j, hij⟩ := exists_big_of_unitary (Nat.two_pow_pos _) hU μ hμ
  have hnd := nodup_map_toNat (n := n) ops hwf.1 hwf.2
  have hlt := map_toNat_lt (n := n) ops hwf.2
  have hndr : (ops.map Int.toNat).reverse.Nodup := List.nodup_reverse.mpr hnd
  have hltr : ∀ q ∈ (ops.map Int.toNat).reverse, q < n := fun q hq => hlt q (List.mem_reverse.mp hq)
  have hk : (ops.map Int.toNat).reverse.length = ops.length := by simp
  rw [gateOp_matrix_eq_lift]
  refine ⟨ketAt _ hltr i, ketAt _ hltr j, ?_⟩
  rw [lift_ketAt _ hk hndr hltr]
  exact hij

/-- **`scalar_multiple_rejected`**: for a well-formed UNITARY matrix gate `MatrixGate(m, ops)` on `k` qubits, a real
    `c > 0` and any `μ > 0` with `μ²·2^k ≤ 1` (e.g. `μ = 2^{-k/2}`, the guaranteed size of the largest entry):
    if `atol < μ·(|c − 1| − 1e-5·max(c, 1))`, the replacement `[MatrixGate(c·m, ops)]` is rejected with `ValueError`, the
    decompose pass stops with that error on an unchanged circuit, and `compare_gates` / `Gate.__eq__` of the two gates
    are `False` (both orders).  For the library's `ATOL = 1e-7` and a two-qubit gate (`μ = 1/2`) this covers every
    `c` with `|c − 1| > 1.001e-5·max(c,1) + 2e-7`: exactly the relative tolerance `rtol = 1e-5` of `np.allclose`. -/
theorem scalar_multiple_rejected (atol μ c : ℝ) (h0 : 0 < atol) (n : Nat) (m : Mat ℝ) (ops : List Int)
    (hwf : GateWF n (.matrix m ops)) (hdim : m.n = 2 ^ ops.length) (hU : (Gate.matrix m ops).Unitary)
    (hc : 0 < c) (hμ : 0 < μ) (hμ2 : μ ^ 2 * (2 ^ ops.length : ℕ) ≤ 1)
    (hrej : atol < μ * (|c - 1| - 1e-5 * max c 1)) :
    checkGateReplacement atol (.matrix m ops) [.matrix (Mat.smul ⟨c, 0⟩ m) ops] = some .value ∧
    decompose atol (fun _ _ => .ok [(.matrix (Mat.smul ⟨c, 0⟩ m) ops, none)]) [.gate (.matrix m ops) none]
      = ([.gate (.matrix m ops) none], some .value) ∧
    compareGates atol (.matrix m ops) (.matrix (Mat.smul ⟨c, 0⟩ m) ops) = .ok false ∧
    compareGates atol (.matrix (Mat.smul ⟨c, 0⟩ m) ops) (.matrix m ops) = .ok false ∧
    gateEq atol (.matrix m ops) (.matrix (Mat.smul ⟨c, 0⟩ m) ops) = .ok false ∧
    gateEq atol (.matrix (Mat.smul ⟨c, 0⟩ m) ops) (.matrix m ops) = .ok false := by
  have hnorm : ‖(⟨c, 0⟩ : Cx ℝ).toC‖ = c := by
    have : (⟨c, 0⟩ : Cx ℝ).toC = ((c : ℝ) : ℂ) := by apply Complex.ext <;> simp
    rw [this, Complex.norm_real, Real.norm_eq_abs, abs_of_pos hc]
  have hr : (0:ℝ) ≤ 1e-5 := rtol_real_nonneg
  have h1 : 1e-5 * c ≤ 1e-5 * max c 1 := mul_le_mul_of_nonneg_left (le_max_left _ _) hr
  have h2 : 1e-5 * 1 ≤ 1e-5 * max c 1 := mul_le_mul_of_nonneg_left (le_max_right _ _) hr
  apply scalar_multiple_rejected_big atol μ h0 n m ops ⟨c, 0⟩ hwf hdim hμ
    (matrix_gate_big n m ops hwf hU μ hμ2)
  · rw [hnorm]
    have := mul_le_mul_of_nonneg_left (sub_le_sub_left h1 |c - 1|) hμ.le
    linarith
  · rw [hnorm]
    have := mul_le_mul_of_nonneg_left (sub_le_sub_left h2 |c - 1|) hμ.le
    linarith

/-- the 4×4 identity as a `MatrixGate` on qubits `(0, 1)` of a 2-qubit register is well formed and unitary -/
theorem id4_wf : GateWF 2 (.matrix (Mat.identity 4) [0, 1]) :=
  ⟨by simp [Gate.operands], by
    intro q hq; simp only [Gate.operands, List.mem_cons, List.not_mem_nil, or_false] at hq
    rcases hq with rfl | rfl <;> omega⟩

theorem id4_unitary : (Gate.matrix (Mat.identity 4 : Mat ℝ) [0, 1]).Unitary := by
  show (Mat.identity 4 : Mat ℝ).toMatrixOn 4 ∈ Matrix.unitaryGroup (Fin 4) ℂ
  rw [Mat.toMatrixOn_identity]
  exact one_mem _

/-- **the concrete instances**: `c = 2`, `c = 1/2`, `c = 1000` on the 4×4 identity matrix gate, every `atol ≤ 1/5`
    (in particular `ATOL = 1e-7`): `MatrixGate(c·I₄)` is rejected as a replacement for `MatrixGate(I₄)` and is a
    different gate for `compare_gates` and `==`. -/
theorem scalar_multiple_rejected_id4 (atol c : ℝ) (h0 : 0 < atol) (h1 : atol ≤ 1 / 5)
    (hc : c = 2 ∨ c = 1 / 2 ∨ c = 1000) :
    checkGateReplacement atol (.matrix (Mat.identity 4) [0, 1]) [.matrix (Mat.smul ⟨c, 0⟩ (Mat.identity 4)) [0, 1]]
      = some .value ∧
    compareGates atol (.matrix (Mat.identity 4) [0, 1]) (.matrix (Mat.smul ⟨c, 0⟩ (Mat.identity 4)) [0, 1]) = .ok false ∧
    gateEq atol (.matrix (Mat.identity 4) [0, 1]) (.matrix (Mat.smul ⟨c, 0⟩ (Mat.identity 4)) [0, 1]) = .ok false := by
  have hcpos : 0 < c := by rcases hc with rfl | rfl | rfl <;> norm_num
  have := scalar_multiple_rejected atol (1 / 2) c h0 2 (Mat.identity 4) [0, 1] id4_wf rfl id4_unitary hcpos
    (by norm_num) (by simp only [List.length_cons, List.length_nil]; norm_num)
    (by
      rw [rtol_real]
      rcases hc with rfl | rfl | rfl
      · rw [max_eq_left (by norm_num), abs_of_pos (by norm_num)]; norm_num; linarith
      · rw [max_eq_right (by norm_num), abs_of_neg (by norm_num)]; norm_num; linarith
      · rw [max_eq_left (by norm_num), abs_of_pos (by norm_num)]; norm_num; linarith)
  exact ⟨this.1, this.2.2.1, this.2.2.2.2.1⟩

/-- a purely imaginary factor: `MatrixGate(3i·I₄)` is rejected as well (general complex scalars: `…_rejected_big`) -/
example (atol : ℝ) (h0 : 0 < atol) (h1 : atol ≤ 1 / 5) :
    checkGateReplacement atol (.matrix (Mat.identity 4) [0, 1]) [.matrix (Mat.smul ⟨0, 3⟩ (Mat.identity 4)) [0, 1]]
      = some .value := by
  have hn : ‖(⟨0, 3⟩ : Cx ℝ).toC‖ = 3 := by
    have : (⟨0, 3⟩ : Cx ℝ).toC = ((3 : ℝ) : ℂ) * Complex.I := by apply Complex.ext <;> simp
    rw [this, norm_mul, Complex.norm_I, Complex.norm_real]; norm_num
  refine (scalar_multiple_rejected_big atol (1 / 2) h0 2 (Mat.identity 4) [0, 1] ⟨0, 3⟩ id4_wf rfl (by norm_num)
    (matrix_gate_big 2 _ _ id4_wf id4_unitary (1 / 2)
      (by simp only [List.length_cons, List.length_nil]; norm_num)) ?_ ?_).1
  · rw [hn, rtol_real]; norm_num; linarith
  · rw [hn, rtol_real]; norm_num; linarith

/-- the accepted side stays non-vacuous: the factor `c = 1` (the gate itself) is accepted -/
example (atol : ℝ) (h0 : 0 < atol) (h1 : atol ≤ 1 / 2) :
    checkGateReplacement atol (.matrix (Mat.identity 4) [0, 1]) [.matrix (Mat.identity 4) [0, 1]] = none := by
  apply checkGateReplacement_accepts_exact atol h0 2 _ _ id4_wf rfl
    (by intro r hr; simp only [List.mem_singleton] at hr; subst hr; rfl)
    (by intro r hr q hq; simp only [List.mem_singleton] at hr; subst hr; exact hq) 1 norm_one
    (by simp [gateStmts])
  exact matrix_gate_big 2 _ _ id4_wf id4_unitary atol (by
    simp only [List.length_cons, List.length_nil]
    have : atol ^ 2 ≤ 1 / 4 := by nlinarith
    norm_num
    linarith)

end DBand
end OSq

#print axioms OSq.DBand.shift_accepted
#print axioms OSq.DBand.shift_not_exact
#print axioms OSq.DBand.ex_shift_band
#print axioms OSq.DBand.ex_shift_band_nohyp
#print axioms OSq.DBand.equivPhase_rejects_scalar
#print axioms OSq.DBand.scalar_multiple_rejected_big
#print axioms OSq.DBand.scalar_multiple_rejected
#print axioms OSq.DBand.scalar_multiple_rejected_id4
