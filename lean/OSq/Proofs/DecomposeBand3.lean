import OSq.Proofs.DecomposeBand2
import OSq.Proofs.Bands
import OSq.Proofs.Main

/-
  OSq.Proofs.DecomposeBand3 — part 3: **non-vacuity** of the tolerance-level theorems of `OSq.Proofs.DecomposeBand2`
  on runs whose result is accepted but NOT exact, and the **counter-example** showing that the unitarity hypothesis
  on the accepted answers cannot be dropped (a finding about `check_gate_replacement` + `MatrixGate`).
  Helper names live in `namespace OSq.DBand`.

  A. an accepted, inexact decomposer
  * `dShift atol`               every plain rotation `R_n(θ, φ)` ↦ `[R_n(θ + atol/3, φ)]`
  * `shift_accepted'`, `shift_accepted`, `self_accepted`   unit axis, `atol ≤ 3/8`, `|δ| ≤ atol/3` ⇒
                                `checkGateReplacement atol (bsr q n θ φ) [bsr q n (θ+δ) φ] = none`
                                (from `checkGateReplacement_band_accepts_reg` and `Bands.rot_lipschitz_angle`)
  * `rot_z_shift_ne`, `shift_not_exact`   `Rz(θ + δ)` (`0 < δ < 2π`) is not a scalar multiple of `Rz(θ)`; hence the accepted
                                replacement is not `ExactRepl`: the crisp theorems `decompose_sem` / `replace_sem` do not apply
  B. instances (register of 2 qubits; `Rz(θ₁)` on qubit 0, a measurement of qubit 0, `Rz(θ₂)` on qubit 1)
  * `ex_shift_run`, `ex_shift_band`   `decompose atol (dShift atol) …` completes with both angles shifted, and
                                `decompose_ok_band_syntactic` gives `‖circOp out o − z•circOp c o‖ ≤ 2·κ(1, atol)` for all `o`
                                (strictly positive bound);
  * `ex_fail_run` + example     `decompose_fail_band` on a decomposer that raises at the second gate: `G = 1`
  * `exN_shift_run` + example   `replace_ok_band` with a user rule for the named gate `Rz`: `G = 1` (the anonymous gate only
                                passes its self-check)
  C. the unitarity hypothesis cannot be dropped
  * `equivPhase_accepts_scalar` `a = z•b`, `0 < ‖z‖ ≤ 1`, an entry of `a` of modulus `≥ atol` ⇒ `equivPhase atol a b`
  * `nonunitary_accepted`       for EVERY well-formed unitary matrix gate `g = MatrixGate(m, ops)` (`atol²·2^k ≤ 1`) the answer
                                `[MatrixGate(2·m, ops)]` is accepted, `decompose` completes, the operator of the circuit is
                                doubled, and `‖circOp out o − z•circOp c o‖ ≥ 1` for every unit `z`.
                                Reproduced on /repo: `check_gate_replacement(CNOT(0,1), [MatrixGate(2*M_CNOT, [0,1])])` returns
                                without raising and `circuit.decompose(…)` doubles `get_circuit_matrix`.
-/

open Matrix
open scoped Matrix.Norms.L2Operator

namespace OSq
namespace DBand
open Sem

/-! ## A. An accepted, inexact decomposer -/

/-- "shift the angle of every plain rotation by `atol/3`", anything else is returned as it is -/
noncomputable def dShift (atol : ℝ) : Nat → GStmt ℝ → Except Err (List (GStmt ℝ))
  | _, (.bsr q ax θ φ, nm) => .ok [(.bsr q ax (θ + atol / 3) φ, nm)]
  | _, g => .ok [g]

theorem bsr_wf (n : Nat) (q : Int) (hq : 0 ≤ q ∧ q < (n : Int)) (ax : Vec3 ℝ) (θ φ : ℝ) :
    GateWF n (.bsr q ax θ φ) :=
  ⟨by simp [Gate.operands], by
    intro x hx; simp only [Gate.operands, List.mem_singleton] at hx; subst hx; exact hq⟩

/-- **a slightly shifted rotation is accepted** by `check_gate_replacement` (unit axis, `atol ≤ 3/8`, shift `|δ| ≤ atol/3`):
    every entry moves by at most `atol/6` and the rotation has an entry of modulus `≥ 1/2` (band completeness of
    `OSq.Proofs.EqBands`) -/
theorem shift_accepted' (atol δ : ℝ) (h0 : 0 < atol) (h1 : atol ≤ 3 / 8) (hδ : |δ| ≤ atol / 3) (n : Nat) (q : Int)
    (hq : 0 ≤ q ∧ q < (n : Int)) (ax : Vec3 ℝ) (hax : ax.1 ^ 2 + ax.2.1 ^ 2 + ax.2.2 ^ 2 = 1) (θ φ : ℝ) :
    checkGateReplacement atol (.bsr q ax θ φ) [.bsr q ax (θ + δ) φ] = none := by
  have hnd : [q.toNat].Nodup := by simp
  have hlt : ∀ x ∈ [q.toNat], x < n := by
    intro x hx; simp only [List.mem_singleton] at hx; subst hx; omega
  apply checkGateReplacement_band_accepts_reg atol (atol / 6) (1 / 2) h0 (by positivity) n _ _
    (bsr_wf n q hq ax θ φ) trivial
    (by intro r hr; simp only [List.mem_singleton] at hr; subst hr; trivial)
    (by intro r hr; simp only [List.mem_singleton] at hr; subst hr; intro x hx; exact hx) 1 norm_one
  · intro r c
    have e : circOp n (gateStmts [Gate.bsr q ax (θ + δ) φ]) [] = gateOp n (.bsr q ax (θ + δ) φ) := by
      simp [gateStmts]
    rw [e, gateOp_bsr_lift1 n q hq, gateOp_bsr_lift1 n q hq]
    apply EqBands.lift_rel_of_local _ _ (P := fun x y => ‖x - 1 * y‖ ≤ atol / 6)
    · simp only [mul_zero, sub_zero, norm_zero]; positivity
    · intro i j
      rw [gateOp1_bsr_apply, gateOp1_bsr_apply, one_mul]
      refine le_trans (Bands.rot_lipschitz_angle ax hax _ _ _ _ _) ?_
      rw [show θ - (θ + δ) = -δ by ring, abs_neg]
      linarith
  · obtain ⟨i, hi⟩ := rot_entry_large ax θ φ hax
    rw [gateOp_bsr_lift1 n q hq]
    refine ⟨ketAt [q.toNat] hlt (⟨i.val, i.isLt⟩ : Fin (2 ^ 1)), ketAt [q.toNat] hlt (⟨0, by norm_num⟩ : Fin (2 ^ 1)), ?_⟩
    rw [lift_ketAt [q.toNat] rfl hnd hlt, gateOp1_bsr_apply]
    exact hi
  · linarith
  · nlinarith

theorem shift_accepted (atol : ℝ) (h0 : 0 < atol) (h1 : atol ≤ 3 / 8) (n : Nat) (q : Int)
    (hq : 0 ≤ q ∧ q < (n : Int)) (ax : Vec3 ℝ) (hax : ax.1 ^ 2 + ax.2.1 ^ 2 + ax.2.2 ^ 2 = 1) (θ φ : ℝ) :
    checkGateReplacement atol (.bsr q ax θ φ) [.bsr q ax (θ + atol / 3) φ] = none :=
  shift_accepted' atol (atol / 3) h0 h1 (by rw [abs_of_pos (by positivity)]) n q hq ax hax θ φ

/-- the self-check of `replace` on an untouched unit-axis rotation passes -/
theorem self_accepted (atol : ℝ) (h0 : 0 < atol) (h1 : atol ≤ 3 / 8) (n : Nat) (q : Int)
    (hq : 0 ≤ q ∧ q < (n : Int)) (ax : Vec3 ℝ) (hax : ax.1 ^ 2 + ax.2.1 ^ 2 + ax.2.2 ^ 2 = 1) (θ φ : ℝ) :
    checkGateReplacement atol (.bsr q ax θ φ) [.bsr q ax θ φ] = none := by
  have := shift_accepted' atol 0 h0 h1 (by rw [abs_zero]; positivity) n q hq ax hax θ φ
  rwa [add_zero] at this

/-- the shifted rotation about `z` is **not** the original up to any scalar, hence not an exact replacement -/
theorem rot_z_shift_ne (θ δ φ : ℝ) (hδ0 : 0 < δ) (hδ1 : δ < 2 * Real.pi) (z : ℂ) :
    rot (0, 0, 1) (θ + δ) φ ≠ z • rot (0, 0, 1) θ φ := by
  intro h
  have h00 := congrFun (congrFun h 0) 0
  have h11 := congrFun (congrFun h 1) 1
  rw [rot_eq, rot_eq] at h00 h11
  simp only [Matrix.smul_apply, Matrix.of_apply, Matrix.cons_val_zero, Matrix.cons_val_one, smul_eq_mul,
    Complex.ofReal_one, mul_one, Complex.ofReal_zero, mul_zero] at h00 h11
  have hE : Complex.exp (Complex.I * φ) ≠ 0 := Complex.exp_ne_zero _
  set E := Complex.exp (Complex.I * φ)
  set c : ℂ := (Real.cos (θ / 2) : ℂ)
  set s : ℂ := (Real.sin (θ / 2) : ℂ)
  set c' : ℂ := (Real.cos ((θ + δ) / 2) : ℂ)
  set s' : ℂ := (Real.sin ((θ + δ) / 2) : ℂ)
  have key : E * ((c' - Complex.I * s') * (c + Complex.I * s) - (c' + Complex.I * s') * (c - Complex.I * s)) = 0 := by
    linear_combination (c + Complex.I * s) * h00 - (c - Complex.I * s) * h11
  have key2 : (c' - Complex.I * s') * (c + Complex.I * s) - (c' + Complex.I * s') * (c - Complex.I * s) = 0 :=
    (mul_eq_zero.mp key).resolve_left hE
  have key3 : Complex.I * (2 * (c' * s - s' * c)) = 0 := by linear_combination key2
  have key4 : c' * s - s' * c = 0 := by
    have := (mul_eq_zero.mp key3).resolve_left Complex.I_ne_zero
    exact (mul_eq_zero.mp this).resolve_left two_ne_zero
  have key5 : Real.cos ((θ + δ) / 2) * Real.sin (θ / 2) - Real.sin ((θ + δ) / 2) * Real.cos (θ / 2) = 0 := by
    have : ((Real.cos ((θ + δ) / 2) * Real.sin (θ / 2) - Real.sin ((θ + δ) / 2) * Real.cos (θ / 2) : ℝ) : ℂ) = 0 := by
      simp only [Complex.ofReal_sub, Complex.ofReal_mul]; exact key4
    exact_mod_cast this
  have hsin : Real.sin (δ / 2) = 0 := by
    have e : δ / 2 = (θ + δ) / 2 - θ / 2 := by ring
    rw [e, Real.sin_sub]
    linarith
  have hpos : 0 < Real.sin (δ / 2) := Real.sin_pos_of_pos_of_lt_pi (by linarith) (by linarith)
  linarith

theorem shift_not_exact (atol : ℝ) (h0 : 0 < atol) (h1 : atol ≤ 3 / 8) (n : Nat) (q : Int)
    (hq : 0 ≤ q ∧ q < (n : Int)) (θ φ : ℝ) :
    ¬ ExactRepl (.bsr q (0, 0, 1) θ φ) [.bsr q (0, 0, 1) (θ + atol / 3) φ] := by
  intro hex
  obtain ⟨z, -, hz⟩ := exactRepl_circOp (n := n) (bsr_wf n q hq _ θ φ) hex
  have e : circOp n (gateStmts [Gate.bsr q ((0, 0, 1) : Vec3 ℝ) (θ + atol / 3) φ]) []
      = gateOp n (.bsr q (0, 0, 1) (θ + atol / 3) φ) := by simp [gateStmts]
  rw [e, gateOp_bsr_lift1 n q hq, gateOp_bsr_lift1 n q hq] at hz
  have hnd : [q.toNat].Nodup := by simp
  have hlt : ∀ x ∈ [q.toNat], x < n := by
    intro x hx; simp only [List.mem_singleton] at hx; subst hx; omega
  have hloc := (lift_eq_smul_iff [q.toNat] rfl hnd hlt z).mp hz
  apply rot_z_shift_ne θ (atol / 3) φ (by positivity) (by have := Real.two_le_pi; linarith) z
  ext i j
  have := congrFun (congrFun hloc (⟨i.val, i.isLt⟩ : Fin (2 ^ 1))) (⟨j.val, j.isLt⟩ : Fin (2 ^ 1))
  rw [Matrix.smul_apply, gateOp1_bsr_apply, gateOp1_bsr_apply] at this
  exact this


/-! ## B. Non-vacuity of the main theorems: a two-gate circuit with a measurement, decomposer `dShift` -/

/-- `Rz(θ₁)` on qubit 0, measure qubit 0, `Rz(θ₂)` on qubit 1 -/
noncomputable def exCirc (θ₁ θ₂ : ℝ) : Circuit ℝ :=
  ⟨2, 1, [.gate (.bsr 0 (0, 0, 1) θ₁ 0) none, .measure 0 0 (0, 0, 1) none, .gate (.bsr 1 (0, 0, 1) θ₂ 0) none]⟩

noncomputable def exOut (atol θ₁ θ₂ : ℝ) : List (Stmt ℝ) :=
  [.gate (.bsr 0 (0, 0, 1) (θ₁ + atol / 3) 0) none, .measure 0 0 (0, 0, 1) none,
   .gate (.bsr 1 (0, 0, 1) (θ₂ + atol / 3) 0) none]

theorem ez_unit : ((0, 0, 1) : Vec3 ℝ).1 ^ 2 + ((0, 0, 1) : Vec3 ℝ).2.1 ^ 2 + ((0, 0, 1) : Vec3 ℝ).2.2 ^ 2 = 1 := by
  norm_num

theorem ex_shift_run (atol : ℝ) (h0 : 0 < atol) (h1 : atol ≤ 3 / 8) (θ₁ θ₂ : ℝ) :
    decompose atol (dShift atol) (exCirc θ₁ θ₂).stmts = (exOut atol θ₁ θ₂, none) := by
  have a1 := shift_accepted atol h0 h1 2 0 (by omega) (0, 0, 1) ez_unit θ₁ 0
  have a2 := shift_accepted atol h0 h1 2 1 (by omega) (0, 0, 1) ez_unit θ₂ 0
  simp [decompose, decomposeLoop, exCirc, exOut, dShift, a1, a2, GStmt.toStmt]

theorem exCirc_wf (θ₁ θ₂ : ℝ) : (exCirc θ₁ θ₂).wf = true := by
  simp [Circuit.wf, exCirc, Stmt.wf, inRange, hasDup, Gate.operands, Gate.shapeOk]

theorem exCirc_gates (θ₁ θ₂ : ℝ) (g : Gate ℝ) (nm : Option (Named ℝ)) (h : Stmt.gate g nm ∈ (exCirc θ₁ θ₂).stmts) :
    (g = .bsr 0 (0, 0, 1) θ₁ 0 ∨ g = .bsr 1 (0, 0, 1) θ₂ 0) := by
  simp only [exCirc, List.mem_cons, Stmt.gate.injEq, reduceCtorEq, List.not_mem_nil, or_false, false_or] at h
  rcases h with ⟨rfl, _⟩ | ⟨rfl, _⟩
  · exact Or.inl rfl
  · exact Or.inr rfl

/-- **`decompose_ok_band` instantiated**: the pass completes with a result that is *not* exact, and the theorem bounds
    the distance by `2·κ(1, atol)`, for every outcome of the measurement -/
theorem ex_shift_band (atol : ℝ) (h0 : 0 < atol) (h1 : atol ≤ 3 / 8) (θ₁ θ₂ : ℝ) :
    ∃ z : ℂ, ‖z‖ = 1 ∧ ∀ o,
      ‖circOp 2 (exOut atol θ₁ θ₂) o - z • circOp 2 (exCirc θ₁ θ₂).stmts o‖ ≤ 2 * kappa 1 atol := by
  have := decompose_ok_band_syntactic atol h0 (dShift atol) (exCirc θ₁ θ₂) (exOut atol θ₁ θ₂) 1
    (exCirc_wf θ₁ θ₂)
    (by
      intro g nm hm
      rcases exCirc_gates θ₁ θ₂ g nm hm with rfl | rfl <;> exact ez_unit)
    (by
      intro g nm hm
      rcases exCirc_gates θ₁ θ₂ g nm hm with rfl | rfl <;> simp [Gate.operands])
    (by
      intro k g nm repl hs hd x hx
      rcases exCirc_gates θ₁ θ₂ g nm (List.mem_of_getElem? hs) with rfl | rfl <;>
      · simp only [dShift, Except.ok.injEq] at hd
        subst hd
        simp only [List.mem_singleton] at hx
        subst hx
        exact ⟨by simp [Gate.operands], ez_unit⟩)
    (ex_shift_run atol h0 h1 θ₁ θ₂)
  have hcount : gateCount (exCirc θ₁ θ₂).stmts = 2 := by
    simp [gateCount, exCirc, List.countP_cons, Stmt.isGate]
  rw [hcount] at this
  exact_mod_cast this

/-- … the bound is strictly positive, and the crisp theorem `decompose_sem` does not apply: its hypothesis `ExactRepl`
    fails for the accepted replacement of the very first gate -/
example (atol : ℝ) (h0 : 0 < atol) : 0 < 2 * kappa 1 atol := by
  unfold kappa
  have := EqBands.unitSlack_nonneg (2 ^ 1) h0.le
  positivity

example (atol : ℝ) (h0 : 0 < atol) (h1 : atol ≤ 3 / 8) (θ₁ : ℝ) :
    checkGateReplacement atol (.bsr 0 (0, 0, 1) θ₁ 0) [.bsr 0 (0, 0, 1) (θ₁ + atol / 3) 0] = none ∧
    ¬ ExactRepl (.bsr 0 (0, 0, 1) θ₁ 0) [.bsr 0 (0, 0, 1) (θ₁ + atol / 3) 0] :=
  ⟨shift_accepted atol h0 h1 2 0 (by omega) (0, 0, 1) ez_unit θ₁ 0,
    shift_not_exact atol h0 h1 2 0 (by omega) θ₁ 0⟩

/-- failure: a decomposer that shifts the first gate and raises on the second leaves `[shifted, measure, original]`,
    within `1·κ(1, atol)` of the original (`decompose_fail_band`, `G = 1`) -/
noncomputable def dShiftThenFail (atol : ℝ) : Nat → GStmt ℝ → Except Err (List (GStmt ℝ))
  | 0, g => dShift atol 0 g
  | _, _ => .error .unsupported

theorem ex_fail_run (atol : ℝ) (h0 : 0 < atol) (h1 : atol ≤ 3 / 8) (θ₁ θ₂ : ℝ) :
    decompose atol (dShiftThenFail atol) (exCirc θ₁ θ₂).stmts =
      ([.gate (.bsr 0 (0, 0, 1) (θ₁ + atol / 3) 0) none, .measure 0 0 (0, 0, 1) none,
        .gate (.bsr 1 (0, 0, 1) θ₂ 0) none], some .unsupported) := by
  have a1 := shift_accepted atol h0 h1 2 0 (by omega) (0, 0, 1) ez_unit θ₁ 0
  simp [decompose, decomposeLoop, exCirc, dShiftThenFail, dShift, a1, GStmt.toStmt]

example (atol : ℝ) (h0 : 0 < atol) (h1 : atol ≤ 3 / 8) (θ₁ θ₂ : ℝ) :
    ∃ k g nm, (exCirc θ₁ θ₂).stmts[k]? = some (.gate g nm) ∧
      Rejects atol (dShiftThenFail atol) (gateIdx (exCirc θ₁ θ₂).stmts k) (.gate g nm) .unsupported ∧
      ∃ z : ℂ, ‖z‖ = 1 ∧ ∀ o,
        ‖circOp 2 [.gate (.bsr 0 (0, 0, 1) (θ₁ + atol / 3) 0) none, .measure 0 0 (0, 0, 1) none,
            .gate (.bsr 1 (0, 0, 1) θ₂ 0) none] o - z • circOp 2 (exCirc θ₁ θ₂).stmts o‖
          ≤ (gateIdx (exCirc θ₁ θ₂).stmts k : ℝ) * kappa 1 atol := by
  apply decompose_fail_band atol h0 (dShiftThenFail atol) (exCirc θ₁ θ₂) _ .unsupported 1 (exCirc_wf θ₁ θ₂)
    (by
      intro g nm hm
      rcases exCirc_gates θ₁ θ₂ g nm hm with rfl | rfl <;> exact ez_unit)
    (by
      intro g nm hm
      rcases exCirc_gates θ₁ θ₂ g nm hm with rfl | rfl <;> simp [Gate.operands])
    _ (ex_fail_run atol h0 h1 θ₁ θ₂)
  intro k g nm repl hs hd hc
  have hwf : GateWF 2 g := (Circuit.opOK_of_wf _ (exCirc_wf θ₁ θ₂) (by
      intro g nm hm
      rcases exCirc_gates θ₁ θ₂ g nm hm with rfl | rfl <;> exact ez_unit)).2 g nm (List.mem_of_getElem? hs)
  apply accepted_unitary_of_syntactic atol 2 g repl hwf _ hc
  intro x hx
  cases hk : gateIdx (exCirc θ₁ θ₂).stmts k with
  | zero =>
    rw [hk] at hd
    rcases exCirc_gates θ₁ θ₂ g nm (List.mem_of_getElem? hs) with rfl | rfl <;>
    · simp only [dShiftThenFail, dShift, Except.ok.injEq] at hd
      subst hd
      simp only [List.mem_singleton] at hx
      subst hx
      exact ⟨by simp [Gate.operands], ez_unit⟩
  | succ j =>
    rw [hk] at hd
    simp [dShiftThenFail] at hd


/-! ### `replace` on the same circuit with the first gate named `Rz` -/

noncomputable def exCircN (θ₁ θ₂ : ℝ) : Circuit ℝ :=
  ⟨2, 1, [.gate (.bsr 0 (0, 0, 1) θ₁ 0) (some ⟨"Rz", [.qubit 0, .float θ₁]⟩), .measure 0 0 (0, 0, 1) none,
    .gate (.bsr 1 (0, 0, 1) θ₂ 0) none]⟩

/-- the user rule: `Rz(q, θ) ↦ [Rz(q, θ + atol/3)]` (anonymous) -/
noncomputable def fShift (atol : ℝ) : Nat → List (Arg ℝ) → Except Err (List (GStmt ℝ))
  | _, [.qubit q, .float θ] => .ok [(.bsr q (0, 0, 1) (θ + atol / 3) 0, none)]
  | _, _ => .error .value

theorem exN_shift_run (atol : ℝ) (h0 : 0 < atol) (h1 : atol ≤ 3 / 8) (θ₁ θ₂ : ℝ) :
    replace atol "Rz" (fShift atol) (exCircN θ₁ θ₂).stmts =
      ([.gate (.bsr 0 (0, 0, 1) (θ₁ + atol / 3) 0) none, .measure 0 0 (0, 0, 1) none,
        .gate (.bsr 1 (0, 0, 1) θ₂ 0) none], none) := by
  have a1 := shift_accepted atol h0 h1 2 0 (by omega) (0, 0, 1) ez_unit θ₁ 0
  have a2 := self_accepted atol h0 h1 2 1 (by omega) (0, 0, 1) ez_unit θ₂ 0
  simp [replace, replace.go, exCircN, fShift, a1, a2, GStmt.toStmt]

theorem exCircN_gates (θ₁ θ₂ : ℝ) (g : Gate ℝ) (nm : Option (Named ℝ))
    (h : Stmt.gate g nm ∈ (exCircN θ₁ θ₂).stmts) :
    (g = .bsr 0 (0, 0, 1) θ₁ 0 ∧ nm = some ⟨"Rz", [.qubit 0, .float θ₁]⟩) ∨ (g = .bsr 1 (0, 0, 1) θ₂ 0 ∧ nm = none) := by
  simp only [exCircN, List.mem_cons, Stmt.gate.injEq, reduceCtorEq, List.not_mem_nil, or_false, false_or] at h
  rcases h with ⟨rfl, rfl⟩ | ⟨rfl, rfl⟩
  · exact Or.inl ⟨rfl, rfl⟩
  · exact Or.inr ⟨rfl, rfl⟩

/-- **`replace_ok_band` instantiated**: one matching gate, so the bound is `1·κ(1, atol)` -/
example (atol : ℝ) (h0 : 0 < atol) (h1 : atol ≤ 3 / 8) (θ₁ θ₂ : ℝ) :
    ∃ z : ℂ, ‖z‖ = 1 ∧ ∀ o,
      ‖circOp 2 [.gate (.bsr 0 (0, 0, 1) (θ₁ + atol / 3) 0) none, .measure 0 0 (0, 0, 1) none,
          .gate (.bsr 1 (0, 0, 1) θ₂ 0) none] o - z • circOp 2 (exCircN θ₁ θ₂).stmts o‖
        ≤ ((exCircN θ₁ θ₂).stmts.countP (matchesName "Rz") : ℝ) * kappa 1 atol := by
  have hU : ∀ g nm, Stmt.gate g nm ∈ (exCircN θ₁ θ₂).stmts → g.Unitary := by
    intro g nm hm
    rcases exCircN_gates θ₁ θ₂ g nm hm with ⟨rfl, -⟩ | ⟨rfl, -⟩ <;> exact ez_unit
  have hwf : (exCircN θ₁ θ₂).wf = true := by
    simp [Circuit.wf, exCircN, Stmt.wf, inRange, hasDup, Gate.operands, Gate.shapeOk]
  apply replace_ok_band atol h0 "Rz" (fShift atol) (exCircN θ₁ θ₂) _ 1 hwf hU
    (by
      intro g nm hm _
      rcases exCircN_gates θ₁ θ₂ g _ hm with ⟨rfl, -⟩ | ⟨rfl, -⟩ <;> simp [Gate.operands])
    _ (exN_shift_run atol h0 h1 θ₁ θ₂)
  intro k g nm repl hs _ hf hc
  have hm := List.mem_of_getElem? hs
  apply accepted_unitary_of_syntactic atol 2 g repl ((Circuit.opOK_of_wf _ hwf hU).2 g _ hm) _ hc
  intro x hx
  rcases exCircN_gates θ₁ θ₂ g _ hm with ⟨rfl, hnm⟩ | ⟨rfl, hnm⟩
  · cases hnm
    simp only [fShift, Except.ok.injEq] at hf
    subst hf
    simp only [List.mem_singleton] at hx
    subst hx
    exact ⟨by simp [Gate.operands], ez_unit⟩
  · cases hnm


/-! ## C. The unitarity hypothesis on the accepted answers cannot be dropped -/

/-- `equivPhase` accepts `a = z•b` for ANY non-zero `z` of modulus `≤ 1` (pivot of `a` at least `atol`) -/
theorem equivPhase_accepts_scalar (atol : ℝ) (h0 : 0 < atol) (N : Nat) (hN : 0 < N) (a b : Mat ℝ) (ha : a.n = N)
    (hb : b.n = N) (z : ℂ) (hz : z ≠ 0) (hz1 : ‖z‖ ≤ 1) (hab : a.toMatrixOn N = z • b.toMatrixOn N)
    (hbig : ∃ i j : Fin N, atol ≤ ‖a.toMatrixOn N i j‖) : equivPhase atol a b = true := by
  have hflat : ∀ k, k < N * N → a.flat k = z * b.flat k := by
    intro k hk
    rw [Mat.flat_eq_get a ha, Mat.flat_eq_get b hb]
    have hi : k / N < N := (Nat.div_lt_iff_lt_mul hN).mpr hk
    have hj : k % N < N := Nat.mod_lt _ hN
    have := congrFun (congrFun hab ⟨k / N, hi⟩) ⟨k % N, hj⟩
    simpa [Mat.toMatrixOn_apply] using this
  have hl := EqBands.pivot_lt hN a ha
  have hpa : atol ≤ ‖a.flat (argmaxAbs a)‖ := by
    obtain ⟨i, j, hij⟩ := hbig
    rw [Mat.toMatrixOn_apply, Mat.get_eq_flat a ha] at hij
    exact le_trans hij (EqBands.pivot_max a ha _ (Mat.index_lt i.isLt j.isLt))
  have hzpos : 0 < ‖z‖ := norm_pos_iff.mpr hz
  have hpb : atol ≤ ‖b.flat (argmaxAbs a)‖ := by
    have e := hflat _ hl
    rw [e, norm_mul] at hpa
    have : ‖z‖ * ‖b.flat (argmaxAbs a)‖ ≤ 1 * ‖b.flat (argmaxAbs a)‖ :=
      mul_le_mul_of_nonneg_right hz1 (norm_nonneg _)
    linarith
  have hb0 : b.flat (argmaxAbs a) ≠ 0 := by
    intro h; rw [h, norm_zero] at hpb; linarith
  rw [equivPhase_iff]
  refine ⟨not_lt.mpr hpa, not_lt.mpr hpb, ?_⟩
  intro k hk
  rw [ha] at hk
  have e : a.flat k - a.flat (argmaxAbs a) / b.flat (argmaxAbs a) * b.flat k = 0 := by
    rw [hflat k hk, hflat _ hl]
    field_simp
    ring
  rw [e, norm_zero]
  have := mul_nonneg rtol_real_nonneg (norm_nonneg (a.flat (argmaxAbs a) / b.flat (argmaxAbs a) * b.flat k))
  linarith

theorem toMatrixOn_smul' {N : Nat} (z : Cx ℝ) (a : Mat ℝ) (ha : a.n = N) :
    (Mat.smul z a).toMatrixOn N = z.toC • a.toMatrixOn N := by
  subst ha; exact Mat.toMatrixOn_smul z a

/-- **Finding (C06).**  `MatrixGate` does not require a unitary matrix, and `check_gate_replacement` compares up to
    an arbitrary complex factor.  For every well-formed unitary matrix gate `g = MatrixGate(m, ops)` the answer
    `[MatrixGate(2·m, ops)]` is ACCEPTED (`atol²·2^k ≤ 1`), the pass completes, and the operator of the circuit is
    doubled: no unit phase brings it closer than `1` to the original.  So `decompose_ok_band` is false without the
    hypothesis that accepted answers are unitary — "every replacement is checked" does not by itself make a completed
    pass operation-preserving when the decomposer may emit `MatrixGate`s. -/
theorem nonunitary_accepted (atol : ℝ) (h0 : 0 < atol) (n : Nat) (m : Mat ℝ) (ops : List Int)
    (hwf : GateWF n (.matrix m ops)) (hdim : m.n = 2 ^ ops.length) (hU : (Gate.matrix m ops).Unitary)
    (hat : atol ^ 2 * (2 ^ ops.length : ℕ) ≤ 1) :
    checkGateReplacement atol (.matrix m ops) [.matrix (Mat.smul ⟨2, 0⟩ m) ops] = none ∧
    decompose atol (fun _ _ => .ok [(.matrix (Mat.smul ⟨2, 0⟩ m) ops, none)]) [.gate (.matrix m ops) none]
      = ([.gate (.matrix (Mat.smul ⟨2, 0⟩ m) ops) none], none) ∧
    (∀ o, circOp n [.gate (.matrix (Mat.smul ⟨2, 0⟩ m) ops) none] o
      = (2 : ℂ) • circOp n [.gate (.matrix m ops) none] o) ∧
    ∀ z : ℂ, ‖z‖ = 1 → ∀ o,
      1 ≤ ‖circOp n [.gate (.matrix (Mat.smul ⟨2, 0⟩ m) ops) none] o - z • circOp n [.gate (.matrix m ops) none] o‖ := by
  set g : Gate ℝ := .matrix m ops with hg
  set g2 : Gate ℝ := .matrix (Mat.smul ⟨2, 0⟩ m) ops with hg2
  have hwf2 : GateWF n g2 := hwf
  -- the operator doubles
  have hop : gateOp n g2 = (2 : ℂ) • gateOp n g := by
    rw [hg, hg2, gateOp_matrix_eq_lift, gateOp_matrix_eq_lift, toMatrixOn_smul' _ _ hdim, lift_smul]
    congr 1
  have hUg : gateOp n g ∈ Matrix.unitaryGroup (Fin (2 ^ n)) ℂ := gateOp_unitary n g hwf hU
  -- the check accepts
  obtain ⟨A, hA⟩ := (localMatrix_single_ok_iff g.operands g).mpr ⟨fun q hq => hq, hdim⟩
  obtain ⟨B, hB⟩ := (localMatrix_single_ok_iff g.operands g2).mpr
    ⟨fun q hq => hq, by show (Mat.smul _ m).n = _; exact hdim⟩
  have hndN := nodup_map_toNat (n := n) g.operands hwf.1 hwf.2
  have hltN := map_toNat_lt (n := n) g.operands hwf.2
  have hgA := gateOp_eq_lift_local hwf hA
  have hgB : gateOp n g2 = lift (g.operands.map Int.toNat) (List.length_map _) (B.toMatrixOn (2 ^ g.operands.length)) := by
    have := localMatrix_lift (n := n) g.operands hwf.1 hwf.2 hB []
    rw [this]; simp [gateStmts]
  have hAB : A.toMatrixOn (2 ^ g.operands.length) = (2⁻¹ : ℂ) • B.toMatrixOn (2 ^ g.operands.length) := by
    apply lift_injective (n := n) _ (List.length_map _) hndN hltN
    rw [lift_smul, ← hgA, ← hgB, hop, smul_smul]
    norm_num
  have hUA : A.toMatrixOn (2 ^ g.operands.length) ∈ Matrix.unitaryGroup (Fin (2 ^ g.operands.length)) ℂ := by
    apply EqBands.unitary_of_lift _ _ hndN hltN
    rw [← hgA]; exact hUg
  have hacc : equivPhase atol A B = true :=
    equivPhase_accepts_scalar atol h0 _ (Nat.two_pow_pos _) A B (localMatrix_dim hA).1 (localMatrix_dim hB).1
      2⁻¹ (by norm_num) (by rw [norm_inv]; norm_num) hAB
      (exists_big_of_unitary (Nat.two_pow_pos _) hUA atol hat)
  have hcheck : checkGateReplacement atol g [g2] = none := by
    rw [checkGateReplacement_local atol g [g2] (by
      intro r hr q hq; simp only [List.mem_singleton] at hr; subst hr; exact hq) hA hB, hacc]
    rfl
  have hnorm : ‖gateOp n g‖ = 1 := CStarRing.norm_of_mem_unitary hUg
  refine ⟨hcheck, ?_, ?_, ?_⟩
  · simp [decompose, decomposeLoop, hcheck, GStmt.toStmt]
  · intro o; simp [hop]
  · intro z hz o
    simp only [circOp_gate, circOp_nil, Matrix.one_mul]
    rw [hop, ← sub_smul, norm_smul, hnorm, mul_one]
    have := norm_sub_norm_le (2 : ℂ) z
    rw [hz] at this
    norm_num at this
    linarith

/-- the finding on a concrete gate: the 4×4 identity as a `MatrixGate` on qubits `(0, 1)` of a 2-qubit register -/
example (atol : ℝ) (h0 : 0 < atol) (h1 : atol ≤ 1 / 2) :
    checkGateReplacement atol (.matrix (Mat.identity 4) [0, 1]) [.matrix (Mat.smul ⟨2, 0⟩ (Mat.identity 4)) [0, 1]] = none ∧
    ∀ z : ℂ, ‖z‖ = 1 → ∀ o,
      1 ≤ ‖circOp 2 [.gate (.matrix (Mat.smul ⟨2, 0⟩ (Mat.identity 4)) [0, 1]) none] o
            - z • circOp 2 [.gate (.matrix (Mat.identity 4) [0, 1]) none] o‖ := by
  have := nonunitary_accepted atol h0 2 (Mat.identity 4) [0, 1]
    ⟨by simp [Gate.operands], by
      intro q hq; simp only [Gate.operands, List.mem_cons, List.not_mem_nil, or_false] at hq
      rcases hq with rfl | rfl <;> omega⟩ rfl
    (by
      show (Mat.identity 4 : Mat ℝ).toMatrixOn 4 ∈ Matrix.unitaryGroup (Fin 4) ℂ
      rw [Mat.toMatrixOn_identity]
      exact one_mem _)
    (by
      have : atol ^ 2 ≤ 1 / 4 := by nlinarith
      simp only [List.length_cons, List.length_nil]
      norm_num
      linarith)
  exact ⟨this.1, this.2.2.2⟩

end DBand
end OSq

#print axioms OSq.DBand.shift_accepted
#print axioms OSq.DBand.shift_not_exact
#print axioms OSq.DBand.ex_shift_band
#print axioms OSq.DBand.equivPhase_accepts_scalar
#print axioms OSq.DBand.nonunitary_accepted
