import OSq.Proofs.V3Sem
import Mathlib.Analysis.Real.Pi.Bounds

/-
  OSq.Proofs.V3Sem2 — property C04, semantic half, continued (`OSq.V3Sem`): the hypotheses of
  `writeCircuit_read_sem` on the formatter are met by the writer's own formatter on double-valued circuits, and a
  concrete instance of the sign flip at the branch cut of `normalize_angle`.

  * `DoubleVal x`       `x` is the exact value (`bitsValue`) of a finite IEEE-754 double.
  * `fmtR P`            the model's `fmtFloat P = fixExponent ∘ fmtBits P ∘ toBits` transported to `ℝ` (on the value of
                        a finite double: the text written for a bit pattern of that value; `nan` elsewhere).
  * `fmtR_tok`          `fmtR P x` is always a parameter token.
  * `fmtR_denotes`      `DoubleVal x → FmtDenotes (fmtR 8) x`   (`param_value`, `param_value_zero` of `RoundTrip`).
  * `fmtFloat_denotes`  for a finite `x : Float`, `fmtFloat 8 x` denotes a rational `v` with `Close8 (value of x) v`.
  * `writeCircuit_read_sem_double`  the program-level theorem of `V3Sem` for circuits of library statements and
                        comments whose float parameters are values of finite doubles, with `fmt := fmtR 8`: no
                        hypothesis on the formatter is left.
  * examples            `fmtBits 8` of the doubles nearest `1/3`, `π`, and of `3.141592752`:
                        `"0.33333333"`, `"3.1415927"`, `"3.1415928"`.
  * `branch_cut_example`  (finding, concrete) `θ = 3.141592752 < π + 10⁻⁷ ≤ θ' = 3.1415928` (its 8-digit text):
                        `Close8 θ θ'` holds, `rot a (nA θ) 0 = rot a θ 0` but `rot a (nA θ') 0 = − rot a θ' 0`:
                        re-reading `Rx/Ry/Rz(3.141592752)` flips the global sign of the operator.
-/

namespace OSq
namespace V3Sem
open OSq.Sem OSq.GateTable OSq.SchedSem OSq.V1Sem OSq.Bands Complex Matrix

/-! ### The real formatter: `fixExponent (format(x, '.8'))` on the values of finite doubles -/

/-- `x` is the (exact) value of a finite IEEE-754 double -/
def DoubleVal (x : ℝ) : Prop := ∃ bits : UInt64, FiniteBits bits ∧ ((bitsValue bits : ℚ) : ℝ) = x

open Classical in
/-- the model's float formatter `fmtFloat P` (`= fixExponent ∘ fmtBits P ∘ toBits`) transported to the reals:
    on the value of a finite double it is the text written for (a bit pattern of) that double -/
noncomputable def fmtR (P : Nat) (x : ℝ) : String :=
  if h : DoubleVal x then fixExponent (fmtBits P (Classical.choose h)) else "nan"

theorem fmtR_tok (P : Nat) (x : ℝ) : isParamTok (fmtR P x) = true := by
  unfold fmtR
  split
  · exact isParamTok_fixExponent_fmtBits P _
  · decide

theorem bitsValue_zero {bits : UInt64} (hz : ¬ NonzeroBits bits) : bitsValue bits = 0 := by
  unfold NonzeroBits at hz
  simp only [Classical.not_not] at hz
  have : (bitsFrac bits).1 = 0 := by
    unfold bitsFrac
    simp only [hz.1, hz.2]
    rfl
  unfold bitsValue
  rw [this]; simp

/-- **`param_value` as a property of the formatter**: on the value of a finite double, `fmtR 8` produces a text
    that denotes it to 8 significant digits -/
theorem fmtR_denotes {x : ℝ} (h : DoubleVal x) : FmtDenotes (fmtR 8) x := by
  have e : fmtR 8 x = fixExponent (fmtBits 8 (Classical.choose h)) := dif_pos h
  unfold FmtDenotes
  rw [e]
  obtain ⟨hf, hx⟩ := Classical.choose_spec h
  generalize Classical.choose h = bits at hf hx
  by_cases hn : NonzeroBits bits
  · obtain ⟨v, e, hv, h1, h2, h3⟩ := param_value 8 (by decide) bits hf hn
    refine ⟨v, hv, .inr ⟨e, h1, h2, ?_⟩⟩
    rw [← hx]
    have := (Rat.cast_le (K := ℝ)).2 h3
    simpa using this
  · refine ⟨0, param_value_zero 8 bits hf hn, .inl ⟨?_, rfl⟩⟩
    rw [← hx, bitsValue_zero hn]; simp

/-- the model's `fmtFloat` is this formatter: for a finite `Float` the text `fmtFloat 8 x` denotes the exact value
    of `x` to 8 significant digits -/
theorem fmtFloat_denotes (x : Float) (hf : FiniteBits x.toBits) :
    ∃ v : ℚ, decimalValue (fmtFloat 8 x) = some v ∧ Close8 ((bitsValue x.toBits : ℚ) : ℝ) v := by
  by_cases hn : NonzeroBits x.toBits
  · obtain ⟨v, e, hv, h1, h2, h3⟩ := param_value 8 (by decide) x.toBits hf hn
    refine ⟨v, hv, .inr ⟨e, h1, h2, ?_⟩⟩
    have := (Rat.cast_le (K := ℝ)).2 h3
    simpa using this
  · exact ⟨0, param_value_zero 8 x.toBits hf hn, .inl ⟨by rw [bitsValue_zero hn]; simp, rfl⟩⟩

/-- **C04 end to end for double-valued circuits.**  A circuit of default-library statements and writable comments
    all of whose float parameters are values of finite doubles, written with the writer's own formatter
    (`format(x, '.8')` with the exponent repair), is read back and re-built, statement by statement, into a circuit
    with the same register sizes, instructions, operands, bit targets, parameters to 8 digits, and the same
    operation (`Reread`): no hypothesis on the formatter is left. -/
theorem writeCircuit_read_sem_double (anon : Gate ℝ → String) (atol : ℝ) (h0 : 0 < atol) (h1 : atol ≤ Real.pi / 2)
    (c : Circuit ℝ) (hc : ∀ s ∈ c.stmts, Readable atol s) (hdbl : ∀ s ∈ c.stmts, ∀ x ∈ stmtFloats s, DoubleVal x) :
    ∃ c', readProgram3 (writeCircuit (fmtR 8) anon c)
        = some (c.nQubits, c.nBits, c.stmts.map (expectedLine3 (fmtR 8))) ∧
      rebuildProgram atol (writeCircuit (fmtR 8) anon c) = some c' ∧
      c'.nQubits = c.nQubits ∧ c'.nBits = c.nBits ∧ List.Forall₂ (Reread atol) c.stmts c'.stmts :=
  writeCircuit_read_sem (fmtR 8) anon (fmtR_tok 8) atol h0 h1 c hc
    (fun s hs x hx => fmtR_denotes (hdbl s hs x hx))

/-- non-vacuity: `0.5` is the value of the double `0x3FE0000000000000` -/
example : DoubleVal (1 / 2) := by
  refine ⟨0x3FE0000000000000, by decide, ?_⟩
  have h1 : bitsFrac 0x3FE0000000000000 = (2 ^ 52, 2 ^ 53) := by decide
  have h2 : ((0x3FE0000000000000 : UInt64) >>> 63 != 0) = false := by decide
  have : bitsValue 0x3FE0000000000000 = 1 / 2 := by
    unfold bitsValue
    rw [h1, h2]
    norm_num
  rw [this]; norm_num

/-- the texts the writer emits for the doubles nearest `1/3` and `π`, and for the double `3.141592752` -/
example : fmtBits 8 0x3FD5555555555555 = "0.33333333" := by decide
example : fmtBits 8 0x400921FB54442D18 = "3.1415927" := by decide
example : fmtBits 8 0x400921fb6179866e = "3.1415928" := by decide

/-- **the sign flip happens on admissible data** (tolerance `Gen.atol = 10⁻⁷`): the angle `3.141592752` lies below
    the cut `π + atol` of `normalize_angle`, its 8-digit text `3.1415928` on the other side -/
theorem branch_cut_example (a : Vec3 ℝ) :
    Close8 (3141592752 / 10 ^ 9) (31415928 / 10 ^ 7 : ℚ) ∧
    rot a (normalizeAngle Gen.atol (3141592752 / 10 ^ 9)) 0 = rot a (3141592752 / 10 ^ 9) 0 ∧
    rot a (normalizeAngle Gen.atol ((31415928 / 10 ^ 7 : ℚ) : ℝ)) 0 = - rot a ((31415928 / 10 ^ 7 : ℚ) : ℝ) 0 := by
  have hlo := Real.pi_gt_d20
  have hhi := Real.pi_lt_d20
  have hat : (Gen.atol : ℝ) = 1 / 10 ^ 7 := by rw [atol_gen]; norm_num
  refine ⟨.inr ⟨1, ?_, ?_, ?_⟩, ?_⟩
  · rw [abs_of_pos (by norm_num)]; norm_num
  · rw [abs_of_pos (by norm_num)]; norm_num
  · push_cast
    rw [abs_of_neg (by norm_num)]
    norm_num
  · refine branch_cut_sign Gen.atol atol_gen_pos.le atol_gen_lt a _ _ ⟨?_, ?_⟩ ⟨?_, ?_⟩
    · rw [hat]; norm_num at hlo hhi ⊢; linarith
    · rw [hat]; norm_num at hlo hhi ⊢; linarith
    · rw [hat]; push_cast; norm_num at hlo hhi ⊢; linarith
    · rw [hat]; push_cast; norm_num at hlo hhi ⊢; linarith

end V3Sem
end OSq

#print axioms OSq.V3Sem.fmtR_denotes
#print axioms OSq.V3Sem.fmtFloat_denotes
#print axioms OSq.V3Sem.writeCircuit_read_sem_double
#print axioms OSq.V3Sem.branch_cut_example
