import OSq.Proofs.CircuitSem3
/-
  OSq.Proofs.CircuitSem8 — **`replace` preserves the meaning of the circuit** (C06; companion of `decompose_sem` in
  `CircuitSem3` for the driver `general_decomposer.replace`, which rewrites only the named gates called `name`).

  * `genSpec_replacesU`    generic: if every chunk of `genSpec c bump i l` is either the statement itself or an exact
                           replacement of a well-formed gate, the specification is a gate-by-gate replacement (`ReplacesU`)
  * `replace_sem`          `replace atol name f stmts = (out, none)`, matching gates well formed, every accepted
                           replacement exact ⇒ `CircEquiv n stmts out ∧ SameBarriers stmts out`
                           (`replace_sem_phase`: `∃ z, ReplacesU n stmts out z`)
  * `replace_fail_sem`     after a rejection at position `k` (the proposal of `f`, `f` raising, or the self-check of a
                           non-matching gate) the IR left behind is still equivalent to the original
-/
open Matrix

namespace OSq

/-- the specification of the generic loop is a gate-by-gate replacement when every chunk is the statement itself
    or an exact replacement of a well-formed gate -/
theorem genSpec_replacesU (n : Nat) (c : Nat → Stmt ℝ → List (Stmt ℝ)) (bump : Stmt ℝ → Bool) (i : Nat)
    (l : List (Stmt ℝ))
    (h : ∀ k s, l[k]? = some s →
      c (ctrAt bump i l k) s = [s] ∨
      ∃ (g : Gate ℝ) (nm : Option (Named ℝ)) (repl : List (GStmt ℝ)), s = .gate g nm ∧
        c (ctrAt bump i l k) s = repl.map GStmt.toStmt ∧ GateWF n g ∧ ExactRepl g (repl.map (·.1))) :
    ∃ z, ReplacesU n l (genSpec c bump i l) z := by
  induction l generalizing i with
  | nil => exact ⟨1, .nil⟩
  | cons s rest ih =>
    obtain ⟨z, hz⟩ := ih (i + (bump s).toNat) (by
      intro k s' hk
      have := h (k + 1) s' (by simpa using hk)
      rwa [ctrAt_succ] at this)
    have h0 := h 0 s (by simp)
    rw [ctrAt_zero] at h0
    simp only [genSpec]
    rcases h0 with h0 | ⟨g, nm, repl, rfl, hc, hwf, hex⟩
    · rw [h0]
      exact ⟨z, .keep s hz⟩
    · rw [hc]
      obtain ⟨w, hw, hop⟩ := exactRepl_circOp hwf hex
      exact ⟨w * z, .gate g nm _ w (map_toStmt_isGate repl) hw (by rw [circOp_map_toStmt]; exact hop) hz⟩

theorem ctrAt_matchIdx (name : String) (stmts : List (Stmt ℝ)) (k : Nat) :
    ctrAt (matchesName name) 0 stmts k = matchIdx name stmts k := by
  simp [ctrAt, matchIdx]

theorem matchesName_true_iff (name : String) (s : Stmt ℝ) :
    matchesName name s = true ↔ ∃ g n, s = .gate g (some n) ∧ n.name = name := by
  cases s with
  | gate g nm =>
    cases nm with
    | none => simp [matchesName]
    | some n => simp [matchesName]
  | measure q b ax nm => simp [matchesName]
  | reset q nm => simp [matchesName]
  | comment c => simp [matchesName]

/-- the chunk hypothesis of `genSpec_replacesU` for `replace`, from acceptance + exactness at each position -/
theorem replace_chunks (n : Nat) (atol : ℝ) (name : String)
    (f : Nat → List (Arg ℝ) → Except Err (List (GStmt ℝ))) (stmts : List (Stmt ℝ)) (k : Nat) (s : Stmt ℝ)
    (hs : stmts[k]? = some s)
    (hacc : RAcceptsAt atol name f stmts k)
    (hwf : ∀ g nm, s = .gate g (some nm) → nm.name = name → GateWF n g)
    (hexact : ∀ g nm repl, s = .gate g (some nm) → nm.name = name →
      f (matchIdx name stmts k) nm.args = .ok repl →
      checkGateReplacement atol g (repl.map (·.1)) = none → ExactRepl g (repl.map (·.1))) :
    spliceChunk (genericReplacer name f) (matchIdx name stmts k) s = [s] ∨
      ∃ (g : Gate ℝ) (nm : Option (Named ℝ)) (repl : List (GStmt ℝ)), s = .gate g nm ∧
        spliceChunk (genericReplacer name f) (matchIdx name stmts k) s = repl.map GStmt.toStmt ∧
        GateWF n g ∧ ExactRepl g (repl.map (·.1)) := by
  cases hm : matchesName name s with
  | false => exact Or.inl (replace_only_named name f _ s hm)
  | true =>
    right
    obtain ⟨g, nm, rfl, hn⟩ := (matchesName_true_iff name s).mp hm
    obtain ⟨repl, hf, hc⟩ := hacc.1 g nm hs hn
    exact ⟨g, some nm, repl, rfl, replaceChunk_named name f _ g nm repl hn hf, hwf g nm rfl hn,
      hexact g nm repl rfl hn hf hc⟩

/-- the phase-exposing form -/
theorem replace_sem_phase (n : Nat) (atol : ℝ) (name : String)
    (f : Nat → List (Arg ℝ) → Except Err (List (GStmt ℝ))) (stmts out : List (Stmt ℝ))
    (hwf : ∀ g nm, Stmt.gate g (some nm) ∈ stmts → nm.name = name → GateWF n g)
    (hrun : replace atol name f stmts = (out, none))
    (hexact : ∀ k g nm repl, stmts[k]? = some (.gate g (some nm)) → nm.name = name →
      f (matchIdx name stmts k) nm.args = .ok repl →
      checkGateReplacement atol g (repl.map (·.1)) = none → ExactRepl g (repl.map (·.1))) :
    ∃ z, ReplacesU n stmts out z := by
  rcases replace_ok_or_prefix atol name f stmts with ⟨hall, hres⟩ | ⟨k, e, _, _, hres⟩
  · rw [hrun] at hres
    have hout : out = replaceSpec name f 0 stmts := congrArg Prod.fst hres
    rw [hout, replaceSpec_eq_genSpec]
    apply genSpec_replacesU
    intro k s hs
    rw [ctrAt_matchIdx]
    exact replace_chunks n atol name f stmts k s hs (hall k)
      (fun g nm e hn => hwf g nm (e ▸ List.mem_of_getElem? hs) hn)
      (fun g nm repl e hn hf hc => hexact k g nm repl (e ▸ hs) hn hf hc)
  · rw [hrun] at hres
    cases congrArg Prod.snd hres

/-- **`replace` preserves the meaning of the circuit**: one global phase for every combination of measurement
    and reset outcomes; measurements, resets and comments untouched and in place. -/
theorem replace_sem (n : Nat) (atol : ℝ) (name : String)
    (f : Nat → List (Arg ℝ) → Except Err (List (GStmt ℝ))) (stmts out : List (Stmt ℝ))
    (hwf : ∀ g nm, Stmt.gate g (some nm) ∈ stmts → nm.name = name → GateWF n g)
    (hrun : replace atol name f stmts = (out, none))
    (hexact : ∀ k g nm repl, stmts[k]? = some (.gate g (some nm)) → nm.name = name →
      f (matchIdx name stmts k) nm.args = .ok repl →
      checkGateReplacement atol g (repl.map (·.1)) = none → ExactRepl g (repl.map (·.1))) :
    CircEquiv n stmts out ∧ SameBarriers stmts out := by
  obtain ⟨z, hz⟩ := replace_sem_phase n atol name f stmts out hwf hrun hexact
  exact ⟨hz.equiv.symm, hz.replaces.sameBarriers.symm⟩

/-- **A rejection leaves an equivalent circuit behind**, at whichever position it happens. -/
theorem replace_fail_sem (n : Nat) (atol : ℝ) (name : String)
    (f : Nat → List (Arg ℝ) → Except Err (List (GStmt ℝ))) (stmts : List (Stmt ℝ)) (k : Nat) (e : Err)
    (hwf : ∀ g nm, Stmt.gate g (some nm) ∈ stmts → nm.name = name → GateWF n g)
    (hpre : ∀ j, j < k → RAcceptsAt atol name f stmts j)
    (hexact : ∀ j g nm repl, j < k → stmts[j]? = some (.gate g (some nm)) → nm.name = name →
      f (matchIdx name stmts j) nm.args = .ok repl →
      checkGateReplacement atol g (repl.map (·.1)) = none → ExactRepl g (repl.map (·.1)))
    (hrej : RRejectsAt atol name f stmts k e) :
    (replace atol name f stmts).2 = some e ∧
      CircEquiv n stmts (replace atol name f stmts).1 ∧ SameBarriers stmts (replace atol name f stmts).1 := by
  rw [replace_fail_prefix atol name f stmts k e hpre hrej]
  refine ⟨rfl, ?_⟩
  obtain ⟨z, hz⟩ : ∃ z, ReplacesU n (stmts.take k) (replaceSpec name f 0 (stmts.take k)) z := by
    rw [replaceSpec_eq_genSpec]
    apply genSpec_replacesU
    intro j s hj
    have hjk : j < k := by
      have := (List.getElem?_eq_some_iff.1 hj).1
      rw [List.length_take] at this
      omega
    have hj' : stmts[j]? = some s := by rwa [List.getElem?_take_of_lt hjk] at hj
    have hctr : ctrAt (matchesName name) 0 (stmts.take k) j = matchIdx name stmts j := by
      simp only [ctrAt, matchIdx, Nat.zero_add, List.take_take, Nat.min_eq_left (Nat.le_of_lt hjk)]
    rw [hctr]
    exact replace_chunks n atol name f stmts j s hj' (hpre j hjk)
      (fun g nm e' hn => hwf g nm (e' ▸ List.mem_of_getElem? hj') hn)
      (fun g nm repl e' hn hf hc => hexact j g nm repl hjk (e' ▸ hj') hn hf hc)
  have happ := hz.append (ReplacesU.refl n (stmts.drop k))
  rw [List.take_append_drop] at happ
  exact ⟨happ.equiv.symm, happ.replaces.sameBarriers.symm⟩

/-! ## Non-vacuity -/
section Example

noncomputable def exNamed : Named ℝ := ⟨"CRx", [.qubit 0, .qubit 1]⟩

noncomputable def exProgN (ax : Vec3 ℝ) (an ph : ℝ) : List (Stmt ℝ) :=
  [.measure 0 0 (0, 0, 1) none, .gate (.ctrl 0 (.bsr 1 ax an ph)) (some exNamed), .reset 1 none]

/-- `f` proposes the (anonymous) gate itself -/
noncomputable def fSelf (ax : Vec3 ℝ) (an ph : ℝ) : Nat → List (Arg ℝ) → Except Err (List (GStmt ℝ)) :=
  fun _ _ => .ok [(.ctrl 0 (.bsr 1 ax an ph), none)]

theorem exN_run (atol : ℝ) (h0 : 0 < atol) (h1 : atol ≤ 1) (ax : Vec3 ℝ) (an ph : ℝ) :
    replace atol "CRx" (fSelf ax an ph) (exProgN ax an ph) =
      ([.measure 0 0 (0, 0, 1) none, .gate (.ctrl 0 (.bsr 1 ax an ph)) none, .reset 1 none], none) := by
  simp [replace, replace.go, exProgN, fSelf, exNamed, exGate_accepted atol h0 h1 ax an ph, GStmt.toStmt]

example (atol : ℝ) (h0 : 0 < atol) (h1 : atol ≤ 1) (ax : Vec3 ℝ) (an ph : ℝ) :
    CircEquiv 2 (exProgN ax an ph)
      [.measure 0 0 (0, 0, 1) none, .gate (.ctrl 0 (.bsr 1 ax an ph)) none, .reset 1 none] ∧
    SameBarriers (exProgN ax an ph)
      [.measure 0 0 (0, 0, 1) none, .gate (.ctrl 0 (.bsr 1 ax an ph)) none, .reset 1 none] := by
  apply replace_sem 2 atol "CRx" (fSelf ax an ph) _ _ ?_ (exN_run atol h0 h1 ax an ph)
  · intro k g nm repl hk _ hf _
    simp only [fSelf, Except.ok.injEq] at hf
    subst hf
    have hm := List.mem_of_getElem? hk
    simp only [exProgN, List.mem_cons, Stmt.gate.injEq, reduceCtorEq, false_or, List.not_mem_nil,
      or_false] at hm
    obtain ⟨rfl, _⟩ := hm
    exact exGate_exact ax an ph
  · intro g nm hm _
    simp only [exProgN, List.mem_cons, Stmt.gate.injEq, reduceCtorEq, false_or, List.not_mem_nil,
      or_false] at hm
    obtain ⟨rfl, _⟩ := hm
    exact exGate_wf ax an ph

end Example

end OSq

#print axioms OSq.genSpec_replacesU
#print axioms OSq.replace_sem_phase
#print axioms OSq.replace_sem
#print axioms OSq.replace_fail_sem
