/-
  OSq.Proofs.Bands5 — all-inputs error bounds (no crisp hypothesis), continued: the **CNOT decomposer, one-CNOT
  (shortcut) path** (property C01).  Complements `Bands4.cnot_general_all_inputs` (two-CNOT path): together the two
  theorems cover every successful run of `cnotDecompose` on a controlled rotation with a unit axis.
  4×4 operators on (control, target) are block matrices over the control (`DecomposeSem`: `bd`, `op4`, `listOp4`); all
  bounds are entrywise; `s7 = 10^7` is the rounding scale of `composeRot`.

  Tools
  * `sgn_sub_le`               `‖a/|a| − b/|b|‖ ≤ 2‖a − b‖/|a|` (direction of a complex number, Lipschitz off `0`)
  * `phase_err`                (iv) `w ≈ μ·u` within `E`, `|w|² ≥ 1/2`, `ph = arg(u/w·ε)` (the measured phase) ⇒
                               `‖e^{-i·ph}·ε − μ‖ ≤ 2√2·E`  (`u = 0` included)
  * `Xop_mul_entry`            `X·D` is `D` with its rows swapped (no loss of a constant)
  * `puq_row_sq`, `puq_pivot`  rows of a phase×unit-quaternion matrix have norm `1`; an entry of maximal modulus has
                               `1 ≤ 2·|entry|²`
  * `composeRot_angle_range`   the angle of `composeRot …` is in `[-π+atol, π+atol)` (so `abaAngles` accepts it)
  * `guard_split`              the guard `|(θ0 − θ2) mod 2π| < atol` gives `θ0 = θ2 + δ + 2πm`, `|δ| < atol`
  * `shortcut_V2_band`         (ii)+(iii) `Rz(θ2)Ry(θ1)Rz(θ2)` is within `atol/2 + cV + e1` of `ζ•M`
  Main
  * `cnot_shortcut_all_inputs` one-CNOT path, guard fires (not necessarily crisp), **no crisp hypothesis** anywhere:
                               `listOp4 c t out = bd Off On`, `‖Off i j − (s•1) i j‖ ≤ (5/2)·atol`,
                               `‖On i j − (s • rot n α φ) i j‖ ≤ (1+2√2)·(3·atol + √2·atol + 5/(2·s7)) + (5/2)·atol`
                               for one unit `s`; the phase error (iv) is bounded inside the proof (not left as a term)
  * `shortcut_const_le`        that constant is `≤ (41/2)·atol + 10/s7`
  * `cnot_shortcut_all_inputs_entry`  entrywise on the 4×4 matrix:
                               `∀ x y, ‖listOp4 c t out x y − (s • bd 1 (rot n α φ)) x y‖ ≤ (41/2)·atol + 10/s7`
  * `cnotDecompose_ok_shortcut`  the decomposer succeeds on the one-CNOT path as soon as `compose(X,U)` and its Z-Y-Z do
  Example (non-vacuity, strictly inside a band): controlled `e^{iπ/2}·Rx(π − 1/1000)` at `atol = 1/1000`:
  `compose(X, U)` falls into the identity band (`|sin(Θ/2)| = sin(1/2000) ≠ 0`), its Z-Y-Z angles are `(0, 0, 0)`, the
  guard fires, and the emitted circuit (`CNOT` and the measured `Rz` on the control) is within the bound of `C-U`.
-/
import OSq.Proofs.Bands4

set_option linter.unnecessarySeqFocus false
set_option linter.unusedSimpArgs false
set_option linter.unusedVariables false
open Matrix

namespace OSq
namespace Bands
open Sem Complex

/-! ### complex-number lemmas for the measured phase -/

/-- the direction of a complex number is Lipschitz away from `0`: `‖a/|a| − b/|b|‖ ≤ 2‖a − b‖/|a|` -/
theorem sgn_sub_le {a b : ℂ} (ha : a ≠ 0) (hb : b ≠ 0) :
    ‖a / (‖a‖ : ℂ) - b / (‖b‖ : ℂ)‖ ≤ 2 * ‖a - b‖ / ‖a‖ := by
  have ha' : (0 : ℝ) < ‖a‖ := norm_pos_iff.mpr ha
  have hb' : (0 : ℝ) < ‖b‖ := norm_pos_iff.mpr hb
  have hac : (‖a‖ : ℂ) ≠ 0 := by exact_mod_cast ha'.ne'
  have hbc : (‖b‖ : ℂ) ≠ 0 := by exact_mod_cast hb'.ne'
  have e : a / (‖a‖ : ℂ) - b / (‖b‖ : ℂ)
      = (a - b) / (‖a‖ : ℂ) + b * (((‖b‖ - ‖a‖ : ℝ) : ℂ) / ((‖a‖ : ℂ) * (‖b‖ : ℂ))) := by
    push_cast; field_simp; ring
  rw [e]
  refine (norm_add_le _ _).trans ?_
  simp only [norm_div, norm_mul, Complex.norm_real, Real.norm_eq_abs, abs_norm]
  have h1 : |‖b‖ - ‖a‖| ≤ ‖a - b‖ := by
    rw [norm_sub_rev]; exact abs_norm_sub_norm_le b a
  have h2 : ‖b‖ * (|‖b‖ - ‖a‖| / (‖a‖ * ‖b‖)) = |‖b‖ - ‖a‖| / ‖a‖ := by field_simp
  rw [h2, ← add_div]
  exact div_le_div_of_nonneg_right (by linarith) ha'.le

theorem one_le_sqrt_two_mul {x : ℝ} (hx : 0 ≤ x) (h : 1 ≤ 2 * x ^ 2) : 1 ≤ √2 * x := by
  by_contra hlt
  have hlt := not_le.mp hlt
  have h0 : 0 ≤ √2 * x := mul_nonneg (Real.sqrt_nonneg 2) hx
  have := pow_lt_one₀ h0 hlt (n := 2) (by norm_num)
  rw [mul_pow, Real.sq_sqrt (by norm_num)] at this
  linarith

/-- **error of the measured phase.**  `w ≈ μ·u` within `E` (`‖μ‖ = 1`) and `|w| ≥ 1/√2` (a pivot of a 2×2 unitary).
    The code measures `ph = arg(u / w · ε)`; the factor it induces on the control-on branch, `ρ = e^{-i·ph}·ε`, is
    within `2√2·E` of the true proportionality factor `μ`.  (`u = 0` included: then `ph = 0`, and `E ≥ 1/√2`.) -/
theorem phase_err (u w ε μ : ℂ) (E : ℝ) (hε : ‖ε‖ = 1) (hμ : ‖μ‖ = 1) (hw : 1 ≤ 2 * ‖w‖ ^ 2)
    (hE : ‖w - μ * u‖ ≤ E) :
    ‖Complex.exp (-(I * ((Complex.arg (u / w * ε) : ℝ) : ℂ))) * ε - μ‖ ≤ 2 * √2 * E := by
  have hs2 := Real.sqrt_nonneg 2
  have hE0 : 0 ≤ E := (norm_nonneg _).trans hE
  have hwn := one_le_sqrt_two_mul (norm_nonneg w) hw
  have hw0 : w ≠ 0 := by
    intro h; rw [h, norm_zero, mul_zero] at hwn; linarith
  have hwp : (0 : ℝ) < ‖w‖ := norm_pos_iff.mpr hw0
  by_cases hu : u = 0
  · subst hu
    simp only [zero_div, zero_mul, Complex.arg_zero, Complex.ofReal_zero, mul_zero, neg_zero, Complex.exp_zero,
      one_mul, sub_zero] at hE ⊢
    have h2 : ‖ε - μ‖ ≤ 2 := by
      refine (norm_sub_le _ _).trans ?_; rw [hε, hμ]; norm_num
    nlinarith
  · have hup : (0 : ℝ) < ‖u‖ := norm_pos_iff.mpr hu
    have hε0 : ε ≠ 0 := by intro h; rw [h, norm_zero] at hε; exact zero_ne_one hε
    have hμ0 : μ ≠ 0 := by intro h; rw [h, norm_zero] at hμ; exact zero_ne_one hμ
    set v : ℂ := u / w * ε with hv
    have hv0 : v ≠ 0 := mul_ne_zero (div_ne_zero hu hw0) hε0
    have hvn : ‖v‖ = ‖u‖ / ‖w‖ := by rw [hv, norm_mul, norm_div, hε, mul_one]
    have hexp : Complex.exp (-(I * ((Complex.arg v : ℝ) : ℂ))) = (‖v‖ : ℂ) / v := by
      have h1 := Complex.norm_mul_exp_arg_mul_I v
      have hvc : (‖v‖ : ℂ) ≠ 0 := by exact_mod_cast (norm_pos_iff.mpr hv0).ne'
      have h2 : Complex.exp ((Complex.arg v : ℂ) * I) = v / (‖v‖ : ℂ) := by
        rw [eq_div_iff hvc, mul_comm]; exact h1
      rw [show -(I * ((Complex.arg v : ℝ) : ℂ)) = -((Complex.arg v : ℂ) * I) by ring, Complex.exp_neg, h2,
        inv_div]
    have hb0 : μ * u ≠ 0 := mul_ne_zero hμ0 hu
    have hbn : ‖μ * u‖ = ‖u‖ := by rw [norm_mul, hμ, one_mul]
    have huc : (‖u‖ : ℂ) ≠ 0 := by exact_mod_cast hup.ne'
    have hwc : (‖w‖ : ℂ) ≠ 0 := by exact_mod_cast hwp.ne'
    have key : Complex.exp (-(I * ((Complex.arg v : ℝ) : ℂ))) * ε - μ
        = ((‖u‖ : ℂ) / u) * (w / (‖w‖ : ℂ) - (μ * u) / ((‖μ * u‖ : ℝ) : ℂ)) := by
      rw [hexp, hvn, hbn, hv]
      push_cast
      field_simp
    rw [key, norm_mul, norm_div, Complex.norm_real, Real.norm_eq_abs, abs_norm, div_self hup.ne', one_mul]
    refine (sgn_sub_le hw0 hb0).trans ?_
    rw [div_le_iff₀ hwp]
    nlinarith

/-! ### structural lemmas -/

/-- left multiplication by `X` permutes the rows -/
theorem Xop_mul_entry (D : Matrix (Fin 2) (Fin 2) ℂ) (i j : Fin 2) : ∃ i', (Xop * D) i j = D i' j := by
  rw [Xop_eq, σx]
  fin_cases i
  · exact ⟨1, by simp [Matrix.mul_apply, Fin.sum_univ_two]⟩
  · exact ⟨0, by simp [Matrix.mul_apply, Fin.sum_univ_two]⟩

/-- the rows of a phase×unit-quaternion matrix have Euclidean norm `1` -/
theorem puq_row_sq {M : Matrix (Fin 2) (Fin 2) ℂ} (hM : PUQ M) : ‖M 0 0‖ ^ 2 + ‖M 0 1‖ ^ 2 = 1 := by
  obtain ⟨z, q, hz, hq, rfl⟩ := hM
  simp only [Matrix.smul_apply, smul_eq_mul, norm_mul, hz, one_mul]
  unfold ABA.Q.toMat
  rw [qMat_eq]
  simp only [Matrix.of_apply, Matrix.cons_val', Matrix.cons_val_zero, Matrix.cons_val_one, Matrix.empty_val',
    Matrix.cons_val_fin_one, Complex.sq_norm, Complex.normSq_apply]
  simp only [qNormSq] at hq
  simp
  nlinarith

/-- an entry of maximal modulus of such a matrix has modulus `≥ 1/√2` -/
theorem puq_pivot {M : Matrix (Fin 2) (Fin 2) ℂ} (hM : PUQ M) (i j : Fin 2)
    (hmax : ∀ i' j', ‖M i' j'‖ ≤ ‖M i j‖) : 1 ≤ 2 * ‖M i j‖ ^ 2 := by
  have h := puq_row_sq hM
  have h0 := hmax 0 0
  have h1 := hmax 0 1
  have n0 := norm_nonneg (M 0 0)
  have n1 := norm_nonneg (M 0 1)
  nlinarith

/-- the angle of a composed rotation is in the window `[-π+atol, π+atol)` (it is `0` or a normalised angle) -/
theorem composeRot_angle_range (atol : ℝ) (hat : 0 < atol) (hat' : atol < Real.pi) (a b r : Rot ℝ)
    (ha : UnitVec a.axis) (hb : UnitVec b.axis) (h : composeRot atol a b = .ok r) :
    -Real.pi + atol ≤ r.angle ∧ r.angle < Real.pi + atol := by
  have hq := (compose_ok_same_qubit atol a b r h).1
  rw [composeRot_real atol a b ha hb hq] at h
  by_cases hf : |Real.sin (cTheta a b / 2)| < atol
  · rw [if_pos hf] at h
    injection h with h
    subst h
    simp only [identityRot, zero_real]
    constructor <;> linarith
  · rw [if_neg hf] at h
    cases hm : mkAxis (roundTo s7 (cAxis a b).1, roundTo s7 (cAxis a b).2.1, roundTo s7 (cAxis a b).2.2) with
    | error e => rw [hm] at h; cases h
    | ok ax =>
      rw [hm] at h
      simp only [Except.map] at h
      injection h with h
      subst h
      exact normalizeAngle_range atol _ hat.le hat'

/-- the guard of the one-CNOT path: `θ0 = θ2 + δ + 2πm` with `|δ| < atol` -/
theorem guard_split (atol θ0 θ2 : ℝ) (hg : |pymod (θ0 - θ2) (2 * Real.pi)| < atol) :
    ∃ (m : ℤ) (δ : ℝ), |δ| < atol ∧ θ0 = θ2 + δ + 2 * Real.pi * m := by
  refine ⟨⌊(θ0 - θ2) / (2 * Real.pi)⌋, pymod (θ0 - θ2) (2 * Real.pi), hg, ?_⟩
  simp only [pymod, trig_floor_real]
  ring

/-- **(ii)+(iii)**: the sandwich `V2 = Rz(θ2)·Ry(θ1)·Rz(θ2)` the one-CNOT path uses instead of
    `V0 = Rz(θ2)·Ry(θ1)·Rz(θ0)`: if `V0` is within `cV` of `R0`, `e^{iψ}•R0` within `e1` of `z•M`, and the guard
    `θ0 ≡ θ2 + δ (mod 2π)`, `|δ| < atol` holds, then `V2` is within `atol/2 + cV + e1` of `ζ•M` for a unit `ζ`. -/
theorem shortcut_V2_band (atol cV e1 θ0 θ1 θ2 ψ : ℝ) (R0 M : Matrix (Fin 2) (Fin 2) ℂ) (z : ℂ) (hz : ‖z‖ = 1)
    (hg : ∃ (m : ℤ) (δ : ℝ), |δ| < atol ∧ θ0 = θ2 + δ + 2 * Real.pi * m)
    (hV : ∀ i j : Fin 2, ‖(rot (eAxis 2) θ2 0 * rot (eAxis 1) θ1 0 * rot (eAxis 2) θ0 0) i j - R0 i j‖ ≤ cV)
    (hd : ∀ i j : Fin 2, ‖(Complex.exp (I * ψ) • R0) i j - (z • M) i j‖ ≤ e1) :
    ∃ ζ : ℂ, ‖ζ‖ = 1 ∧ ∀ i j : Fin 2,
      ‖(rot (eAxis 2) θ2 0 * rot (eAxis 1) θ1 0 * rot (eAxis 2) θ2 0) i j - (ζ • M) i j‖
        ≤ atol / 2 + cV + e1 := by
  obtain ⟨m, δ, hδ, hθ⟩ := hg
  set P := rot (eAxis 2) θ2 0 * rot (eAxis 1) θ1 0 with hP
  have hPP : PUQ (P * rot (eAxis 2) θ2 0) :=
    ((PUQ.rot _ (eAxis_unit 2) _ _).mul (PUQ.rot _ (eAxis_unit 1) _ _)).mul (PUQ.rot _ (eAxis_unit 2) _ _)
  have hs : ‖((-1 : ℂ) ^ m)‖ = 1 := norm_neg_one_zpow m
  have hss : ((-1 : ℂ) ^ m) * ((-1 : ℂ) ^ m) = 1 := by
    rw [← mul_zpow]; norm_num
  -- `V0 = (-1)^m • V2 · Rz(δ)`
  have hV0 : P * rot (eAxis 2) θ0 0 = ((-1 : ℂ) ^ m) • (P * rot (eAxis 2) θ2 0 * rot (eAxis 2) δ 0) := by
    rw [hθ, rot_add_int_mul_two_pi, ← rot_axis_add, Matrix.mul_smul]
    simp only [hP, Matrix.mul_assoc]
  refine ⟨(-1 : ℂ) ^ m * (Complex.exp (-(I * ψ)) * z), ?_, fun i j => ?_⟩
  · rw [norm_mul, norm_mul, hs, hz, norm_exp_neg_I_mul]; norm_num
  · -- (iii)
    have c1 : ‖(P * rot (eAxis 2) θ2 0) i j - ((-1 : ℂ) ^ m * (P * rot (eAxis 2) θ0 0) i j)‖ ≤ atol / 2 := by
      have e : (P * rot (eAxis 2) θ2 0) i j - ((-1 : ℂ) ^ m * (P * rot (eAxis 2) θ0 0) i j)
          = ((P * rot (eAxis 2) θ2 0) * (1 - rot (eAxis 2) δ 0) * (1 : Matrix (Fin 2) (Fin 2) ℂ)) i j := by
        rw [hV0, Matrix.smul_apply, smul_eq_mul, ← mul_assoc, hss, one_mul, Matrix.mul_one, Matrix.mul_sub,
          Matrix.mul_one, Matrix.sub_apply]
      rw [e]
      have := drop_cost_rot (eAxis 2) (eAxis_unit 2) δ 0 hPP PUQ.one i j
      rw [abs_zero, add_zero] at this
      linarith
    -- (ii)
    have c2 : ‖(-1 : ℂ) ^ m * (P * rot (eAxis 2) θ0 0) i j - (-1 : ℂ) ^ m * R0 i j‖ ≤ cV := by
      rw [← mul_sub, norm_mul, hs, one_mul]; exact hV i j
    -- (i)
    have c3 : ‖(-1 : ℂ) ^ m * R0 i j - (((-1 : ℂ) ^ m * (Complex.exp (-(I * ψ)) * z)) • M) i j‖ ≤ e1 := by
      have e : (-1 : ℂ) ^ m * R0 i j - (((-1 : ℂ) ^ m * (Complex.exp (-(I * ψ)) * z)) • M) i j
          = ((-1 : ℂ) ^ m * Complex.exp (-(I * ψ))) * ((Complex.exp (I * ψ) • R0) i j - (z • M) i j) := by
        simp only [Matrix.smul_apply, smul_eq_mul]
        have : Complex.exp (-(I * ψ)) * Complex.exp (I * ψ) = 1 := by rw [← Complex.exp_add]; simp
        linear_combination (-(-1 : ℂ) ^ m * R0 i j) * this
      rw [e, norm_mul, norm_mul, hs, norm_exp_neg_I_mul, one_mul, one_mul]
      exact hd i j
    calc ‖(P * rot (eAxis 2) θ2 0) i j - (((-1 : ℂ) ^ m * (Complex.exp (-(I * ψ)) * z)) • M) i j‖
        = ‖((P * rot (eAxis 2) θ2 0) i j - ((-1 : ℂ) ^ m * (P * rot (eAxis 2) θ0 0) i j))
          + ((-1 : ℂ) ^ m * (P * rot (eAxis 2) θ0 0) i j - (-1 : ℂ) ^ m * R0 i j)
          + ((-1 : ℂ) ^ m * R0 i j - (((-1 : ℂ) ^ m * (Complex.exp (-(I * ψ)) * z)) • M) i j)‖ := by
          congr 1; ring
      _ ≤ atol / 2 + cV + e1 := by
          refine (norm_add_le _ _).trans ?_
          refine (add_le_add (norm_add_le _ _) le_rfl).trans ?_
          linarith

/-! ### the one-CNOT path on every input -/

/-- **cnot_shortcut_all_inputs**.  For `g = ControlledGate(c, R_n(α, φ) on t)` with `n` a unit axis (any `α`, `φ`), on
    the one-CNOT path (the guard `|(θ0' − θ2') mod 2π| < atol` fires — **not necessarily crisp**) and with no crisp
    hypothesis on the composition `X·U`, on the Z-Y-Z tests or on the identity filter, the emitted circuit
    `B · CNOT · A · Rz_c(ph)` (minus the gates the filter drops) is a block matrix `bd Off On` over the control with,
    for one unit scalar `s`,
    `‖Off i j − (s•1) i j‖ ≤ (5/2)·atol` and `‖On i j − (s • R_n(α, φ)) i j‖ ≤ (1 + 2√2)·E + (5/2)·atol`,
    `E = 3·atol + √2·atol + 5/(2·s7)`:
    (i) `compose(X, U)` with its identity band and 7-decimal rounding `√2·atol + 5/(2·s7)`, (ii) its Z-Y-Z angles
    `(5/2)·atol`, (iii) `θ0'` replaced by `θ2'` in the sandwich `atol/2`, (iv) the measured phase
    `ph = arg(U_l / W_l · (AB)₀₀)`: its induced factor is within `2√2·E` of the true one because the pivot `W_l` is an
    entry of maximal modulus of a 2×2 unitary (`|W_l| ≥ 1/√2`), (v) at most five dropped gates, `atol/2` each. -/
theorem cnot_shortcut_all_inputs (atol : ℝ) (c t : Int) (n : Vec3 ℝ) (α φ : ℝ) (nm : Option (Named ℝ))
    (out : List (GStmt ℝ))
    (hat : 0 < atol) (hat' : atol < Real.pi) (hn : n.1 ^ 2 + n.2.1 ^ 2 + n.2.2 ^ 2 = 1)
    (hguard : ∀ xu θ0 θ1 θ2,
        composeRot atol ⟨t, eAxis 0, Real.pi, Real.pi / 2, some ⟨"X", [.qubit t]⟩⟩ ⟨t, n, α, φ, none⟩ = .ok xu →
        abaAngles atol .ZYZ xu.angle xu.axis = .ok (θ0, θ1, θ2) →
        |pymod (θ0 - θ2) (2 * Real.pi)| < atol)
    (h : cnotDecompose atol (.ctrl c (.bsr t n α φ), nm) = .ok out) :
    c ≠ t ∧ ∃ (s : ℂ) (Off On : Matrix (Fin 2) (Fin 2) ℂ), ‖s‖ = 1 ∧ listOp4 c t out = bd Off On ∧
      (∀ i j : Fin 2, ‖Off i j - (s • (1 : Matrix (Fin 2) (Fin 2) ℂ)) i j‖ ≤ 5 / 2 * atol) ∧
      (∀ i j : Fin 2, ‖On i j - (s • rot n α φ) i j‖
        ≤ (1 + 2 * √2) * (3 * atol + √2 * atol + 5 / (2 * s7)) + 5 / 2 * atol) := by
  have hpi := Real.pi_pos
  have hs2 := Real.sqrt_nonneg 2
  have h7 := s7_pos
  obtain ⟨xu, θ0, θ1, θ2, hct, hxu, hang, hout⟩ := cnot_form_shortcut h
  have e : (π / sc 2 : ℝ) = Real.pi / 2 := by simp
  rw [e, pi_real, normalizeAngle_id_of_window atol _ hat.le hat' (by linarith) (by linarith),
    normalizeAngle_id_of_window atol _ hat.le hat' (by linarith) (by linarith)] at hxu
  have hxu' : composeRot atol (xRot t) ⟨t, n, α, φ, none⟩ = .ok xu := hxu
  have hg := hguard xu θ0 θ1 θ2 hxu hang
  refine ⟨hct, ?_⟩
  have hout' := hout (by simpa using hg)
  simp only [two_real] at hout'
  subst hout'
  -- (i) the composition `xu ≈ X·U`
  have hXu : UnitVec (xRot t).axis := xRot_unit t
  have hUu : UnitVec (⟨t, n, α, φ, none⟩ : Rot ℝ).axis := (unitVec_iff n).2 hn
  obtain ⟨hxuU, z, hz, hd⟩ := composeRot_all_inputs atol hat (xRot t) ⟨t, n, α, φ, none⟩ xu hXu hUu hxu'
  set U := rot n α φ with hU
  have hd' : ∀ i j : Fin 2, ‖(Complex.exp (I * xu.phase) • rot xu.axis xu.angle 0) i j - (z • (Xop * U)) i j‖
      ≤ √2 * atol + 5 / (2 * s7) := by
    intro i j
    rw [← rot_phase_smul]
    exact hd i j
  obtain ⟨hr1, hr2⟩ := composeRot_angle_range atol hat hat' _ _ _ hXu hUu hxu'
  -- (ii) its Z-Y-Z angles
  have hV : ∀ i j : Fin 2, ‖(rot (eAxis 2) θ2 0 * rot (eAxis 1) θ1 0 * rot (eAxis 2) θ0 0) i j
      - rot xu.axis xu.angle 0 i j‖ ≤ 5 / 2 * atol :=
    fun i j => aba_all_inputs atol .ZYZ xu.angle xu.axis θ0 θ1 θ2 hat ((unitVec_iff _).1 hxuU) hr1 hr2 hang i j
  -- (iii) the sandwich with `θ2` on both sides
  obtain ⟨ζ, hζ, hV2⟩ := shortcut_V2_band atol (5 / 2 * atol) (√2 * atol + 5 / (2 * s7)) θ0 θ1 θ2 xu.phase _
    (Xop * U) z hz (guard_split atol θ0 θ2 hg) hV hd'
  set V2 := rot (eAxis 2) θ2 0 * rot (eAxis 1) θ1 0 * rot (eAxis 2) θ2 0 with hV2def
  set E : ℝ := 3 * atol + √2 * atol + 5 / (2 * s7) with hE
  have hE0 : 0 ≤ E := by rw [hE]; positivity
  have hXV : ∀ i j : Fin 2, ‖(Xop * V2) i j - (ζ • U) i j‖ ≤ E := by
    intro i j
    have e1 : Xop * V2 - ζ • U = Xop * (V2 - ζ • (Xop * U)) := by
      rw [Matrix.mul_sub, Matrix.mul_smul, ← Matrix.mul_assoc Xop Xop U, Xop_mul_self, Matrix.one_mul]
    rw [← Matrix.sub_apply, e1]
    obtain ⟨i', hi'⟩ := Xop_mul_entry (V2 - ζ • (Xop * U)) i j
    rw [hi', Matrix.sub_apply]
    have := hV2 i' j
    rw [hE]; linarith
  -- the emitted lists
  obtain ⟨ε, hε, hAB, hW, hL⟩ := listOp4_cnot_shortcut atol hat hat' c t hct θ1 θ2
    (shortcutPhase atol t n α φ θ1 θ2)
  obtain ⟨i0, j0, hmax, hph⟩ := shortcutPhase_spec atol hat hat' t n α φ θ1 θ2
  rw [hW, hAB] at hph
  rw [hW] at hmax
  set W := ε • (Xop * V2) with hWdef
  have hXP : PUQ Xop := PUQ.rot (eAxis 0) (eAxis_unit 0) _ _
  have hV2P : PUQ V2 :=
    ((PUQ.rot _ (eAxis_unit 2) _ _).mul (PUQ.rot _ (eAxis_unit 1) _ _)).mul (PUQ.rot _ (eAxis_unit 2) _ _)
  have hWP : PUQ W := (hXP.mul hV2P).smul ε hε
  have hWU : ∀ i j : Fin 2, ‖W i j - (ε * ζ) * U i j‖ ≤ E := by
    intro i j
    have := hXV i j
    rw [Matrix.smul_apply, smul_eq_mul] at this
    rw [hWdef, Matrix.smul_apply, smul_eq_mul, mul_assoc, ← mul_sub, norm_mul, hε, one_mul]
    exact this
  -- (iv) the measured phase
  have hμ : ‖ε * ζ‖ = 1 := by rw [norm_mul, hε, hζ, one_mul]
  have hperr := phase_err (U i0 j0) (W i0 j0) ε (ε * ζ) E hε hμ (puq_pivot hWP i0 j0 hmax) (hWU i0 j0)
  have h11 : (ε • (1 : Matrix (Fin 2) (Fin 2) ℂ)) 0 0 = ε := by simp
  rw [h11] at hph
  rw [← hph] at hperr
  set ph := shortcutPhase atol t n α φ θ1 θ2 with hphdef
  -- (v) the identity filter
  set l6 : List (GStmt ℝ) := [rotStmt atol "Rz" t (eAxis 2) θ2, rotStmt atol "Ry" t (eAxis 1) (θ1 / 2),
    cnotStmt atol c t (eAxis 0), rotStmt atol "Ry" t (eAxis 1) (-θ1 / 2), rotStmt atol "Rz" t (eAxis 2) (-θ2),
    rotStmt atol "Rz" c (eAxis 2) ph] with hl6
  have hgood : ∀ g ∈ l6, Good4 atol c t g := by
    intro g hg
    simp only [hl6, List.mem_cons, List.not_mem_nil, or_false] at hg
    rcases hg with rfl | rfl | rfl | rfl | rfl | rfl
    · exact good4_target atol hat.le hat' _ c t _ _
    · exact good4_target atol hat.le hat' _ c t _ _
    · exact good4_cnot atol hat hat' c t
    · exact good4_target atol hat.le hat' _ c t _ _
    · exact good4_target atol hat.le hat' _ c t _ _
    · exact good4_control atol hat.le hat' c t hct ph
  obtain ⟨eF, eU, dOff, dOn⟩ := filter4_band atol hat.le c t l6 hgood
  have hcnt : (idCount atol l6 : ℝ) ≤ 5 := by
    have hcid : (cnotStmt atol c t (eAxis 0)).1.isIdentity atol = false := by
      cases hb : (cnotStmt atol c t (eAxis 0)).1.isIdentity atol with
      | false => rfl
      | true =>
        exfalso
        rw [cnotStmt_real atol hat hat'] at hb
        have h' : (Gate.bsr t (eAxis 0) Real.pi (Real.pi / 2)).isIdentity atol = true := hb
        obtain ⟨ht, -⟩ := (isIdentity_bsr_iff atol t _ _ _).mp h'
        rw [abs_of_pos hpi] at ht
        linarith
    have : idCount atol l6 ≤ 5 := by
      simp only [hl6, idCount_cons, hcid]
      have a1 := ite_le_one ((rotStmt atol "Rz" t (eAxis 2) θ2).1.isIdentity atol)
      have a2 := ite_le_one ((rotStmt atol "Ry" t (eAxis 1) (θ1 / 2)).1.isIdentity atol)
      have a3 := ite_le_one ((rotStmt atol "Ry" t (eAxis 1) (-θ1 / 2)).1.isIdentity atol)
      have a4 := ite_le_one ((rotStmt atol "Rz" t (eAxis 2) (-θ2)).1.isIdentity atol)
      have a5 := ite_le_one ((rotStmt atol "Rz" c (eAxis 2) ph).1.isIdentity atol)
      have a0 : idCount atol ([] : List (GStmt ℝ)) = 0 := rfl
      simp only [Bool.false_eq_true, if_false] at *
      omega
    exact_mod_cast this
  have hb : (idCount atol l6 : ℝ) * (atol / 2) ≤ 5 / 2 * atol := by
    have := mul_le_mul_of_nonneg_right hcnt (show (0 : ℝ) ≤ atol / 2 by positivity)
    linarith
  rw [eU] at hL
  obtain ⟨hOff, hOn⟩ := bd_inj hL
  obtain ⟨k, hk⟩ := normalizeAngle_congr atol ph
  set ph' := normalizeAngle atol ph with hph'
  refine ⟨Complex.exp (-(I * (ph' / 2 : ℝ))) * ε, _, _, ?_, eF, fun i j => ?_, fun i j => ?_⟩
  · rw [norm_mul, hε, mul_one]; exact norm_exp_neg_I_mul _
  · have := dOff i j
    rw [hOff, smul_smul] at this
    linarith
  · have hd1 := dOn i j
    rw [hOn] at hd1
    -- the unfiltered control-on block against `s • U`
    have hd2 : ‖(Complex.exp (I * (ph' / 2 : ℝ)) • W) i j - ((Complex.exp (-(I * (ph' / 2 : ℝ))) * ε) • U) i j‖
        ≤ (1 + 2 * √2) * E := by
      have e1 : (Complex.exp (I * (ph' / 2 : ℝ)) • W) i j - ((Complex.exp (-(I * (ph' / 2 : ℝ))) * ε) • U) i j
          = (Complex.exp (-(I * (ph' / 2 : ℝ))) * Complex.exp (I * ph))
            * ((W i j - (ε * ζ) * U i j) + ((ε * ζ) - Complex.exp (-(I * (ph : ℂ))) * ε) * U i j) := by
        rw [Matrix.smul_apply, Matrix.smul_apply, smul_eq_mul, smul_eq_mul, ctrl_phase_split ph ph' k hk]
        have : Complex.exp (I * ph) * Complex.exp (-(I * (ph : ℂ))) = 1 := by rw [← Complex.exp_add]; simp
        linear_combination (Complex.exp (-(I * (ph' / 2 : ℝ))) * ε * U i j) * this
      rw [e1, norm_mul, norm_mul, norm_exp_neg_I_mul, norm_exp_I_mul, one_mul, one_mul]
      refine (norm_add_le _ _).trans ?_
      have t1 := hWU i j
      have t2 : ‖((ε * ζ) - Complex.exp (-(I * (ph : ℂ))) * ε) * U i j‖ ≤ 2 * √2 * E := by
        rw [norm_mul, norm_sub_rev]
        have hu1 : ‖U i j‖ ≤ 1 := (PUQ.rot n hn α φ).entry_le_one i j
        have hnn := norm_nonneg (Complex.exp (-(I * (ph : ℂ))) * ε - ε * ζ)
        calc ‖Complex.exp (-(I * (ph : ℂ))) * ε - ε * ζ‖ * ‖U i j‖
            ≤ ‖Complex.exp (-(I * (ph : ℂ))) * ε - ε * ζ‖ * 1 := mul_le_mul_of_nonneg_left hu1 hnn
          _ ≤ 2 * √2 * E := by rw [mul_one]; exact hperr
      linarith
    set X := prodF (onOf c t) (filterOutIdentities atol l6) i j
    set Y := (Complex.exp (I * (ph' / 2 : ℝ)) • W) i j
    set Z := ((Complex.exp (-(I * (ph' / 2 : ℝ))) * ε) • U) i j
    calc ‖X - Z‖ = ‖(X - Y) + (Y - Z)‖ := by ring_nf
      _ ≤ ‖X - Y‖ + ‖Y - Z‖ := norm_add_le _ _
      _ ≤ (1 + 2 * √2) * E + 5 / 2 * atol := by linarith

/-- the constant of `cnot_shortcut_all_inputs` in round numbers: `≤ (41/2)·atol + 10/s7` -/
theorem shortcut_const_le (atol : ℝ) (hat : 0 ≤ atol) :
    (1 + 2 * √2) * (3 * atol + √2 * atol + 5 / (2 * s7)) + 5 / 2 * atol ≤ 41 / 2 * atol + 10 / s7 := by
  have h7 := s7_pos
  have hs : √2 ≤ 3 / 2 := by
    rw [show (3 / 2 : ℝ) = √((3 / 2) ^ 2) by rw [Real.sqrt_sq (by norm_num)]]
    exact Real.sqrt_le_sqrt (by norm_num)
  have hs0 := Real.sqrt_nonneg 2
  have hq : (0 : ℝ) ≤ 5 / (2 * s7) := by positivity
  have e : (10 : ℝ) / s7 = 4 * (5 / (2 * s7)) := by field_simp; ring
  rw [e]
  have h1 : 3 * atol + √2 * atol + 5 / (2 * s7) ≤ 9 / 2 * atol + 5 / (2 * s7) := by nlinarith
  have h2 : 0 ≤ 3 * atol + √2 * atol + 5 / (2 * s7) := by positivity
  nlinarith

/-- **cnot_shortcut_all_inputs_entry**: the same entrywise on the 4×4 operator, in round numbers: within
    `(41/2)·atol + 10/s7` of `s • (|0⟩⟨0| ⊗ 1 + |1⟩⟨1| ⊗ R_n(α, φ))`. -/
theorem cnot_shortcut_all_inputs_entry (atol : ℝ) (c t : Int) (n : Vec3 ℝ) (α φ : ℝ) (nm : Option (Named ℝ))
    (out : List (GStmt ℝ))
    (hat : 0 < atol) (hat' : atol < Real.pi) (hn : n.1 ^ 2 + n.2.1 ^ 2 + n.2.2 ^ 2 = 1)
    (hguard : ∀ xu θ0 θ1 θ2,
        composeRot atol ⟨t, eAxis 0, Real.pi, Real.pi / 2, some ⟨"X", [.qubit t]⟩⟩ ⟨t, n, α, φ, none⟩ = .ok xu →
        abaAngles atol .ZYZ xu.angle xu.axis = .ok (θ0, θ1, θ2) →
        |pymod (θ0 - θ2) (2 * Real.pi)| < atol)
    (h : cnotDecompose atol (.ctrl c (.bsr t n α φ), nm) = .ok out) :
    c ≠ t ∧ ∃ s : ℂ, ‖s‖ = 1 ∧ ∀ x y : Fin 2 ⊕ Fin 2,
      ‖listOp4 c t out x y - (s • bd 1 (rot n α φ)) x y‖ ≤ 41 / 2 * atol + 10 / s7 := by
  obtain ⟨hct, s, Off, On, hs, e, dOff, dOn⟩ :=
    cnot_shortcut_all_inputs atol c t n α φ nm out hat hat' hn hguard h
  have h7 := s7_pos
  have hc := shortcut_const_le atol hat.le
  refine ⟨hct, s, hs, fun x y => ?_⟩
  rw [e, bd_smul]
  refine bd_sub_entry_le (by positivity) (fun i j => (dOff i j).trans ?_) (fun i j => (dOn i j).trans hc) x y
  have : (0 : ℝ) ≤ 10 / s7 := by positivity
  linarith

/-! ### totality on the one-CNOT path, and a worked example strictly inside a band -/

/-- the CNOT decomposer succeeds on the one-CNOT path as soon as `compose(X, U)` and its Z-Y-Z angles do -/
theorem cnotDecompose_ok_shortcut (atol : ℝ) (hat : 0 < atol) (hat' : atol < Real.pi) (c t : Int) (hct : c ≠ t)
    (n : Vec3 ℝ) (α φ : ℝ) (nm : Option (Named ℝ)) (xu : Rot ℝ) (θ0 θ1 θ2 : ℝ)
    (hxu : composeRot atol (xRot t) ⟨t, n, α, φ, none⟩ = .ok xu)
    (hang : abaAngles atol .ZYZ xu.angle xu.axis = .ok (θ0, θ1, θ2))
    (hg : |pymod (θ0 - θ2) (2 * Real.pi)| < atol) :
    ∃ out, cnotDecompose atol (.ctrl c (.bsr t n α φ), nm) = .ok out := by
  have hX : named atol "X" [.qubit t] = .ok (xStmt atol t (eAxis 0)) :=
    (named_X_iff atol t _).2 ⟨_, mkAxis_axisLit 0, rfl⟩
  have hC : named atol "CNOT" [.qubit c, .qubit t] = .ok (cnotStmt atol c t (eAxis 0)) :=
    (named_CNOT_iff atol c t _).2 ⟨_, mkAxis_axisLit 0, hct, rfl⟩
  have hY := fun θ => named_rot_real atol hat.le hat' 1 t θ
  have hZ := fun q θ => named_rot_real atol hat.le hat' 2 q θ
  simp only [rotName] at hY hZ
  have hxr : gstmtToRot (xStmt atol t (eAxis 0)) = some (xRot t) := by
    rw [xStmt_real atol hat hat']; rfl
  have hg' : absS (pymod (θ0 - θ2) (two * π)) < atol := by simpa using hg
  unfold cnotDecompose
  simp only [bind, Except.bind, pure, Except.pure, hX, hxr, hxu, hang, hC, hY, hZ, hg', if_true]
  exact ⟨_, rfl⟩

/-- the example target: `e^{iπ/2}·Rx(π − 1/1000)` on qubit `1` — an `X` gate whose angle is off by `atol` -/
noncomputable def exS : Rot ℝ := ⟨1, (1, 0, 0), Real.pi - 1 / 1000, Real.pi / 2, none⟩

theorem exS_unit : UnitVec exS.axis := by simp [UnitVec, exS]

theorem exS_sin : Real.sin (cTheta (xRot 1) exS / 2) = Real.sin (1 / 2000) := by
  have hpi := Real.two_le_pi
  have hW : cW (xRot 1) exS = -Real.cos (1 / 2000) := by
    simp [cW, xRot, exS, eAxis, Vec3.dot, Real.cos_pi_div_two, Real.sin_pi_div_two]
    rw [show (Real.pi - 1000⁻¹) / 2 = Real.pi / 2 - 2000⁻¹ by ring, Real.sin_pi_div_two_sub]
  rw [cTheta, hW, Real.arccos_neg, Real.arccos_cos (by norm_num) (by linarith),
    show 2 * (Real.pi - 1 / 2000) / 2 = Real.pi - 1 / 2000 by ring, Real.sin_pi_sub]

/-- `compose(X, U)` for the example: the identity branch fires although `sin(Θ/2) = sin(1/2000) ≠ 0` -/
theorem exS_compose : composeRot (1 / 1000 : ℝ) (xRot 1) exS = .ok (identityRot 1) := by
  have hpi := Real.two_le_pi
  have hpos : 0 < Real.sin (1 / 2000) := Real.sin_pos_of_pos_of_lt_pi (by norm_num) (by linarith)
  have hlt : Real.sin (1 / 2000) < 1 / 2000 := Real.sin_lt (by norm_num)
  have hf : |Real.sin (cTheta (xRot 1) exS / 2)| < (1 / 1000 : ℝ) := by
    rw [exS_sin, abs_of_pos hpos]; linarith
  rw [composeRot_real _ _ _ (xRot_unit 1) exS_unit rfl, if_pos hf]
  rfl

theorem exS_abaAngles : abaAngles (1 / 1000 : ℝ) .ZYZ (identityRot 1 : Rot ℝ).angle (identityRot 1 : Rot ℝ).axis
    = .ok (0, 0, 0) := by
  have hpi := Real.two_le_pi
  have e1 : (identityRot 1 : Rot ℝ).angle = 0 := by simp [identityRot]
  have e2 : (identityRot 1 : Rot ℝ).axis = (1, 0, 0) := by simp [identityRot]
  rw [e1, e2, ABA.abaAngles_unit _ _ _ _ (by norm_num) (by linarith) (by linarith)]
  have hnp : ¬ |(0 : ℝ) - Real.pi| < (1 / 1000 : ℝ) := by
    rw [abs_of_neg (by linarith)]; linarith
  have hp : ABA.atan2 0 1 = 0 := by
    unfold ABA.atan2
    have : (⟨1, 0⟩ : ℂ) = ((1 : ℝ) : ℂ) := rfl
    rw [this, Complex.arg_ofReal_of_nonneg (by norm_num)]
  have hθ2 : ABA.csgn (2 * Real.arccos (ABA.clamp 1)) 0 = 0 := by
    rw [ABA.clamp_of_mem (by norm_num) (by norm_num), Real.arccos_one]
    unfold ABA.csgn
    simp
  have hptm : ABA.ptm (1 / 1000) 0 0 1 0 = (0, 0, 0) := by
    unfold ABA.ptm
    rw [if_neg hnp]
    simp only [zero_div, Real.cos_zero, Real.sin_zero, Real.tan_zero, mul_zero, zero_mul, add_zero, Real.sqrt_one,
      mul_one, hp, hθ2, abs_zero]
    rw [if_pos (by norm_num)]
  simp only [ABAKind.ia, ABAKind.ib, ABAKind.ic, Vec3.get, hptm, ABA.finish, ABAKind.sinMNeg]
  norm_num

/-- **non-vacuity of `cnot_shortcut_all_inputs_entry`**, strictly inside a band: the controlled
    `e^{iπ/2}·Rx(π − 1/1000)` (control `0`, target `1`) at `atol = 1/1000` takes the one-CNOT path through the
    identity band of `compose(X, U)`; no test on the way is crisp, and the emitted circuit is within
    `(41/2)·atol + 10/s7` of the controlled gate up to one global phase. -/
example : ∃ out, cnotDecompose (1 / 1000 : ℝ)
      (.ctrl 0 (.bsr 1 (1, 0, 0) (Real.pi - 1 / 1000) (Real.pi / 2)), none) = .ok out ∧
    ∃ s : ℂ, ‖s‖ = 1 ∧ ∀ x y : Fin 2 ⊕ Fin 2,
      ‖listOp4 0 1 out x y - (s • bd 1 (rot (1, 0, 0) (Real.pi - 1 / 1000) (Real.pi / 2))) x y‖
        ≤ 41 / 2 * (1 / 1000) + 10 / s7 := by
  have hpi := Real.two_le_pi
  have hxu : composeRot (1 / 1000 : ℝ) (xRot 1) ⟨1, (1, 0, 0), Real.pi - 1 / 1000, Real.pi / 2, none⟩
      = .ok (identityRot 1) := exS_compose
  have hg0 : |pymod ((0 : ℝ) - 0) (2 * Real.pi)| < 1 / 1000 := by
    simp [pymod]
  obtain ⟨out, hout⟩ := cnotDecompose_ok_shortcut (1 / 1000) (by norm_num) (by linarith) 0 1 (by decide) (1, 0, 0)
    (Real.pi - 1 / 1000) (Real.pi / 2) none _ 0 0 0 hxu exS_abaAngles hg0
  refine ⟨out, hout, (cnot_shortcut_all_inputs_entry (1 / 1000) 0 1 (1, 0, 0) (Real.pi - 1 / 1000) (Real.pi / 2)
    none out (by norm_num) (by linarith) (by norm_num) ?_ hout).2⟩
  intro xu' θ0 θ1 θ2 h1 h2
  have h1' : composeRot (1 / 1000 : ℝ) (xRot 1) ⟨1, (1, 0, 0), Real.pi - 1 / 1000, Real.pi / 2, none⟩ = .ok xu' := h1
  rw [hxu] at h1'
  injection h1' with h1'
  subst h1'
  rw [exS_abaAngles] at h2
  injection h2 with h2
  simp only [Prod.mk.injEq] at h2
  obtain ⟨rfl, rfl, rfl⟩ := h2
  exact hg0

end Bands
end OSq

#print axioms OSq.Bands.phase_err
#print axioms OSq.Bands.shortcut_V2_band
#print axioms OSq.Bands.cnot_shortcut_all_inputs
#print axioms OSq.Bands.cnot_shortcut_all_inputs_entry
#print axioms OSq.Bands.cnotDecompose_ok_shortcut
