import OSq.Proofs.Sched
import OSq.Proofs.GateTable
import OSq.Proofs.Equality
import OSq.Proofs.Compose
import OSq.Sem.Circuit
import Mathlib.Analysis.SpecialFunctions.Complex.Arg
import Mathlib.Analysis.SpecialFunctions.Trigonometric.Bounds
import Mathlib.Tactic.Linarith
import Mathlib.Tactic.NormNum
import Mathlib.Tactic.FieldSimp
import Mathlib.Tactic.Ring

/-
  OSq.Proofs.SchedSem — property C11, the *meaning* of the operations the quantify-scheduler exporter emits
  (`OSq/Model/Sched.lean: schedStmt`, Python `exporter/quantify_scheduler_exporter.py`), at `α := ℝ`:
  "a rotation about an in-plane axis becomes Rxy(θ, φ), a rotation about +z or −z becomes Rz with the correspondingly
  signed angle (all up to global phase and the 5-decimal degree rounding), exact controlled-X/Z become CNOT/CZ".
  (The structural part — one op per statement, qubits in place, acquisition bookkeeping — is `OSq/Proofs/Sched.lean`.)

  All names live in `namespace OSq.SchedSem`.

  Specification of the schedule operations (angles in degrees, as quantify-scheduler takes them)
  * `rad d = d·π/180`
  * `opRxy θdeg φdeg = rot (cos φ, sin φ, 0) θ 0`,  `opRz θdeg = rot (0,0,1) θ 0`   (`θ = rad θdeg`, `φ = rad φdeg`)
  * `ctrlSpec n c t U`     the textbook controlled-`U` on an `n`-qubit register (control bit `c`, target bit `t`), entrywise

  Theorems
  * `degrees_radians`      `degrees x * (π/180) = x`  (`degrees_real`, `rad_degrees`)
  * `rot_phase_factor`     `rot n θ φ = e^{iφ} • rot n θ 0`
  * `cos_sin_atan2`        `(cos φ, sin φ) = (x, y)` for `φ = atan2 y x` and `x² + y² = 1`;  `rxy_axis_exact`
  * `rxy_denotes_exact`    unit axis, `|z| < atol` honest (⇒ `z = 0`):
                           `rot (x,y,z) θ φ_g = e^{iφ_g} • opRxy (degrees θ) (degrees (atan2 y x))`
  * `rz_denotes_exact`     unit axis, `|x|,|y| < atol` honest (⇒ `x = y = 0`, `z = ±1`):
                           `rot (x,y,z) θ φ_g = e^{iφ_g} • opRz (degrees (if 0 < z then θ else −θ))`
  * `rz_sign_matters`      about `−z` the un-negated angle would give the inverse operator: `rot (0,0,−1) θ 0 * opRz (degrees θ) = 1`
  * `sched_rxy_exact`, `sched_rz_exact`   the same together with the op `schedGateOp` emits
  * `ctrlIs_X_iff`, `ctrlIs_Z_iff`   (`0 < atol ≤ π/2`) the test `target == X(q)` is entrywise closeness of `rot` to `σx`/`σz`,
                           global phase included
  * `gateOp_ctrl_bsr`      the register operator of `.ctrl c (.bsr t …)` is `ctrlSpec n c t (rot …)`
  * `cnot_exact`, `cz_exact`, `cnot_cz_exact`   accepted + honest closeness tests ⇒ the target operator **equals** `σx` (`σz`),
                           the exporter emits `cnot c t` (`cz c t`), and the register operator is `ctrlSpec n c t σx` (`σz`)
  * `round5_real`, `round5_error`   `round5 x = roundTo 1e5 x`, `|round5 x − x| ≤ 5e-6`;  `rad_round5_error`: `≤ (π/180)·5e-6` in radians
  * `rot_entries`          real and imaginary parts of the entries of `rot n θ 0`;  `chord_le`: chord ≤ arc
  * `rot_lipschitz_angle`  unit axis: `‖rot n θ 0 i j − rot n θ' 0 i j‖ ≤ |θ − θ'|/2`
  * `rot_lipschitz_inplane`  `‖rot (cos φ, sin φ, 0) θ 0 i j − rot (cos φ', sin φ', 0) θ 0 i j‖ ≤ |φ − φ'|`
  * `roundTol = (π/180)·5e-6·(1/2 + 1)` (`roundTol_lt`: `< 1.7e-7`), `opRxy_round_error`, `opRz_round_error`
  * `rxy_denotes_rounded`  the op actually emitted (rounded degrees) agrees with the statement's operator, up to the global
                           phase, within `roundTol` in every entry;  `rz_denotes_rounded`: same, even within `(π/180)·5e-6/2`
  * `sopMatrix`, `sched_rot_denotes`   summary: whatever op the exporter emits for a crisp unit-axis rotation is a
                           single-qubit rotation on the same qubit within `roundTol` of the statement (up to its phase)
  * `rot_x_pi`, `sched_ctrl_phase_sensitive`   `Rx(π) = −i σx` is accepted neither as `X` nor as `Z` for `0 < atol < 1/2`; a
                           controlled `Rx(π)` is refused (`schedGateOp … = none`, i.e. `ExporterError`)
-/
namespace OSq.SchedSem
open OSq OSq.Sem OSq.GateTable Complex Matrix

/-! ### Specification of the schedule operations -/

/-- degrees ↦ radians -/
noncomputable def rad (d : ℝ) : ℝ := d * (Real.pi / 180)

/-- `Rxy(θ, φ)` of quantify-scheduler (angles in degrees): rotation by `θ` about the axis `(cos φ, sin φ, 0)` -/
noncomputable def opRxy (θdeg φdeg : ℝ) : Matrix (Fin 2) (Fin 2) ℂ :=
  rot (Real.cos (rad φdeg), Real.sin (rad φdeg), 0) (rad θdeg) 0

/-- `Rz(θ)` of quantify-scheduler (angle in degrees): rotation by `θ` about `+z` -/
noncomputable def opRz (θdeg : ℝ) : Matrix (Fin 2) (Fin 2) ℂ := rot (0, 0, 1) (rad θdeg) 0

/-! ### 1. degrees -/

theorem degrees_real (x : ℝ) : degrees x = x * (180 / Real.pi) := by
  simp [degrees]

theorem degrees_radians (x : ℝ) : degrees x * (Real.pi / 180) = x := by
  rw [degrees_real]
  have := Real.pi_ne_zero
  field_simp

theorem rad_degrees (x : ℝ) : rad (degrees x) = x := degrees_radians x

/-! ### the global phase is a scalar factor -/

theorem rot_phase_factor (n : ℝ × ℝ × ℝ) (θ φ : ℝ) :
    rot n θ φ = Complex.exp (I * φ) • rot n θ 0 := by
  unfold rot
  simp

/-! ### 2. in-plane axis ↦ Rxy -/

theorem norm_mk_of_unit (x y : ℝ) (h : x ^ 2 + y ^ 2 = 1) : ‖(⟨x, y⟩ : ℂ)‖ = 1 := by
  rw [Complex.norm_def, Complex.normSq_mk, show x * x + y * y = 1 by nlinarith, Real.sqrt_one]

/-- `(cos φ, sin φ) = (x, y)` for `φ = atan2 y x` and a unit vector `(x, y)` -/
theorem cos_sin_atan2 (x y : ℝ) (h : x ^ 2 + y ^ 2 = 1) :
    Real.cos (Trig.atan2 y x) = x ∧ Real.sin (Trig.atan2 y x) = y := by
  have hn := norm_mk_of_unit x y h
  have hne : (⟨x, y⟩ : ℂ) ≠ 0 := by
    intro h0; rw [h0, norm_zero] at hn; exact zero_ne_one hn
  rw [trig_atan2_real]
  constructor
  · rw [Complex.cos_arg hne, hn, div_one]
  · rw [Complex.sin_arg, hn, div_one]

theorem rxy_axis_exact (x y θ : ℝ) (h : x ^ 2 + y ^ 2 = 1) :
    rot (Real.cos (Trig.atan2 y x), Real.sin (Trig.atan2 y x), 0) θ 0 = rot (x, y, 0) θ 0 := by
  obtain ⟨h1, h2⟩ := cos_sin_atan2 x y h
  rw [h1, h2]

/-- **C11, in-plane axis, before rounding.**  For a unit axis `(x, y, z)` whose `z` component passes the
    exporter's test `|z| < atol` honestly (crisp: then `z = 0`), the operation `Rxy(degrees θ, degrees (atan2 y x))`
    equals the statement's operator up to the global phase `e^{iφ_g}`. -/
theorem rxy_denotes_exact (atol x y z θ φg : ℝ) (hunit : x ^ 2 + y ^ 2 + z ^ 2 = 1)
    (hz : |z| < atol) (hcrisp : |z| < atol → z = 0) :
    rot (x, y, z) θ φg = Complex.exp (I * φg) • opRxy (degrees θ) (degrees (Trig.atan2 y x)) := by
  have hz0 := hcrisp hz
  subst hz0
  have h : x ^ 2 + y ^ 2 = 1 := by nlinarith
  rw [rot_phase_factor, opRxy, rad_degrees, rad_degrees, rxy_axis_exact x y θ h]

/-! ### 3. z axis ↦ Rz with the signed angle -/

theorem rot_z_neg (θ φ : ℝ) : rot (0, 0, -1) θ φ = rot (0, 0, 1) (-θ) φ := by
  have := rot_neg_neg (0, 0, 1) (-θ) φ
  simpa using this

/-- **C11, z axis, before rounding.**  For a unit axis `(x, y, z)` whose `x`, `y` components pass the exporter's
    tests honestly (crisp: then `x = y = 0`, so `z = ±1`), the operation `Rz(degrees (±θ))` — sign of `z` —
    equals the statement's operator up to the global phase. -/
theorem rz_denotes_exact (atol x y z θ φg : ℝ) (hunit : x ^ 2 + y ^ 2 + z ^ 2 = 1)
    (hx : |x| < atol) (hy : |y| < atol) (hcx : |x| < atol → x = 0) (hcy : |y| < atol → y = 0) :
    rot (x, y, z) θ φg = Complex.exp (I * φg) • opRz (degrees (if 0 < z then θ else -θ)) := by
  have hx0 := hcx hx
  have hy0 := hcy hy
  subst hx0; subst hy0
  have hz : z = 1 ∨ z = -1 := by
    have : (z - 1) * (z + 1) = 0 := by nlinarith
    rcases mul_eq_zero.mp this with h | h
    · left; linarith
    · right; linarith
  rw [rot_phase_factor, opRz, rad_degrees]
  rcases hz with rfl | rfl
  · rw [if_pos one_pos]
  · rw [if_neg (by norm_num), rot_z_neg]

/-- the sign matters: about `-z`, the un-negated angle gives the *inverse* operator -/
theorem rz_sign_matters (θ : ℝ) : rot (0, 0, -1) θ 0 * opRz (degrees θ) = 1 := by
  have hu : ((0, 0, 1) : ℝ × ℝ × ℝ).1 ^ 2 + ((0, 0, 1) : ℝ × ℝ × ℝ).2.1 ^ 2
      + ((0, 0, 1) : ℝ × ℝ × ℝ).2.2 ^ 2 = 1 := by norm_num
  rw [opRz, rad_degrees, rot_z_neg]
  have h := rot_conjTranspose_mul_self (0, 0, 1) θ 0 hu
  have e : (rot (0, 0, 1) θ 0)ᴴ = rot (0, 0, 1) (-θ) 0 := by
    rw [rot_eq, rot_eq]
    ext i j
    fin_cases i <;> fin_cases j <;>
      simp [-Complex.ofReal_sin, -Complex.ofReal_cos, Matrix.conjTranspose_apply, neg_div, Real.cos_neg,
        Real.sin_neg, Complex.conj_ofReal]
  rw [← e]; exact h

/-! ### the exporter's step in these terms -/

/-- what the exporter emits for a rotation, and what it means (before rounding): in-plane axis -/
theorem sched_rxy_exact (atol : ℝ) (q : Int) (x y z θ φg : ℝ)
    (hunit : x ^ 2 + y ^ 2 + z ^ 2 = 1) (hz : |z| < atol) (hcrisp : |z| < atol → z = 0) :
    schedGateOp atol (.bsr q (x, y, z) θ φg)
        = some (.rxy q (round5 (degrees θ)) (round5 (degrees (Trig.atan2 y x)))) ∧
      rot (x, y, z) θ φg = Complex.exp (I * φg) • opRxy (degrees θ) (degrees (Trig.atan2 y x)) := by
  refine ⟨?_, rxy_denotes_exact atol x y z θ φg hunit hz hcrisp⟩
  simp [schedGateOp, bsrOp, hz]

/-- … and on the z axis -/
theorem sched_rz_exact (atol : ℝ) (q : Int) (x y z θ φg : ℝ)
    (hunit : x ^ 2 + y ^ 2 + z ^ 2 = 1) (hz : ¬ |z| < atol) (hx : |x| < atol) (hy : |y| < atol)
    (hcx : |x| < atol → x = 0) (hcy : |y| < atol → y = 0) :
    schedGateOp atol (.bsr q (x, y, z) θ φg)
        = some (.rz q (round5 (degrees (if 0 < z then θ else -θ)))) ∧
      rot (x, y, z) θ φg = Complex.exp (I * φg) • opRz (degrees (if 0 < z then θ else -θ)) := by
  refine ⟨?_, rz_denotes_exact atol x y z θ φg hunit hx hy hcx hcy⟩
  simp [schedGateOp, bsrOp, hz, hx, hy]

/-! ### 5. controlled X / Z -/

theorem named_X (atol : ℝ) (h0 : 0 < atol) (h1 : atol ≤ Real.pi / 2) (q : Int) :
    named atol "X" [.qubit q] = .ok (.bsr q (1, 0, 0) Real.pi (Real.pi / 2), some ⟨"X", [.qubit q]⟩) := by
  simp only [named, call_X atol h0 h1 q, bind, Except.bind, pure, Except.pure]

theorem named_Z (atol : ℝ) (h0 : 0 < atol) (h1 : atol ≤ Real.pi / 2) (q : Int) :
    named atol "Z" [.qubit q] = .ok (.bsr q (0, 0, 1) Real.pi (Real.pi / 2), some ⟨"Z", [.qubit q]⟩) := by
  simp only [named, call_Z atol h0 h1 q, bind, Except.bind, pure, Except.pure]

/-- the exporter's test `target == X(q)`: entrywise closeness of the target operator to `σx`, phase included -/
theorem ctrlIs_X_iff (atol : ℝ) (h0 : 0 < atol) (h1 : atol ≤ Real.pi / 2) (tq : Int) (tax : Vec3 ℝ)
    (tan tph : ℝ) :
    ctrlIs atol "X" tq tax tan tph = true ↔
      ∀ i j : Fin 2, ‖rot tax tan tph i j - σx i j‖ ≤ atol + 1e-5 * ‖σx i j‖ := by
  unfold ctrlIs
  rw [named_X atol h0 h1 tq]
  simp only [bsrEq_iff, rot_X, Std.X_eq, true_or, true_and]

theorem ctrlIs_Z_iff (atol : ℝ) (h0 : 0 < atol) (h1 : atol ≤ Real.pi / 2) (tq : Int) (tax : Vec3 ℝ)
    (tan tph : ℝ) :
    ctrlIs atol "Z" tq tax tan tph = true ↔
      ∀ i j : Fin 2, ‖rot tax tan tph i j - σz i j‖ ≤ atol + 1e-5 * ‖σz i j‖ := by
  unfold ctrlIs
  rw [named_Z atol h0 h1 tq]
  simp only [bsrEq_iff, rot_Z, Std.Z_eq, true_or, true_and]

/-- the textbook controlled-`U` on an `n`-qubit register: control qubit `c`, target qubit `t`, entrywise:
    column kets with control bit `0` are untouched; on the others `U` acts on bit `t`. -/
noncomputable def ctrlSpec (n c t : Nat) (U : Matrix (Fin 2) (Fin 2) ℂ) : Op n := fun r k =>
  if k.val.testBit c then
    (if agreeOff n [t] r.val k.val then U ⟨bitOf r.val t, bitOf_lt_two _ _⟩ ⟨bitOf k.val t, bitOf_lt_two _ _⟩
     else 0)
  else if r.val = k.val then 1 else 0

/-- the register operator of a controlled rotation is the textbook controlled-`rot` -/
theorem gateOp_ctrl_bsr (n : Nat) (c t : Int) (ax : Vec3 ℝ) (an ph : ℝ) :
    gateOp n (.ctrl c (.bsr t ax an ph)) = ctrlSpec n c.toNat t.toNat (rot ax an ph) := by
  ext r k
  rw [gateOp_apply]
  simp only [denote, ctrlOf, embed1, delta, ctrlSpec]
  by_cases hk : k.val.testBit c.toNat = true
  · rw [if_pos hk, if_pos hk]
    by_cases hag : agreeOff n [t.toNat] r.val k.val
    · rw [if_pos hag, if_pos hag]
      exact can1_get ax an ph ⟨_, bitOf_lt_two _ _⟩ ⟨_, bitOf_lt_two _ _⟩
    · rw [if_neg hag, if_neg hag, Cx.toC_zero]
  · rw [if_neg hk, if_neg hk]
    by_cases hrk : r.val = k.val
    · rw [if_pos hrk, if_pos hrk, Cx.toC_one]
    · rw [if_neg hrk, if_neg hrk, Cx.toC_zero]

/-- **C11, controlled X.**  If the exporter accepts the target of a controlled rotation as `X` and the closeness
    tests it made are honest (crisp), the target operator **is** `σx` — global phase included — so the
    statement's register operator is exactly the CNOT with control `c` and target `tq` in place; and the
    exporter emits `cnot c tq`. -/
theorem cnot_exact (atol : ℝ) (h0 : 0 < atol) (h1 : atol ≤ Real.pi / 2) (c tq : Int) (tax : Vec3 ℝ)
    (tan tph : ℝ) (hacc : ctrlIs atol "X" tq tax tan tph = true)
    (hcrisp : ∀ i j : Fin 2, ‖rot tax tan tph i j - σx i j‖ ≤ atol + 1e-5 * ‖σx i j‖ →
      rot tax tan tph i j = σx i j) :
    rot tax tan tph = σx ∧
    schedGateOp atol (.ctrl c (.bsr tq tax tan tph)) = some (.cnot c tq) ∧
    ∀ n, gateOp n (.ctrl c (.bsr tq tax tan tph)) = ctrlSpec n c.toNat tq.toNat σx := by
  have hclose := (ctrlIs_X_iff atol h0 h1 tq tax tan tph).mp hacc
  have heq : rot tax tan tph = σx := by
    ext i j; exact hcrisp i j (hclose i j)
  refine ⟨heq, ?_, ?_⟩
  · simp [schedGateOp, ctrlOp, hacc]
  · intro n; rw [gateOp_ctrl_bsr, heq]

/-- **C11, controlled Z.**  Same for `Z` (reached only when the `X` test fails). -/
theorem cz_exact (atol : ℝ) (h0 : 0 < atol) (h1 : atol ≤ Real.pi / 2) (c tq : Int) (tax : Vec3 ℝ)
    (tan tph : ℝ) (hnx : ctrlIs atol "X" tq tax tan tph = false)
    (hacc : ctrlIs atol "Z" tq tax tan tph = true)
    (hcrisp : ∀ i j : Fin 2, ‖rot tax tan tph i j - σz i j‖ ≤ atol + 1e-5 * ‖σz i j‖ →
      rot tax tan tph i j = σz i j) :
    rot tax tan tph = σz ∧
    schedGateOp atol (.ctrl c (.bsr tq tax tan tph)) = some (.cz c tq) ∧
    ∀ n, gateOp n (.ctrl c (.bsr tq tax tan tph)) = ctrlSpec n c.toNat tq.toNat σz := by
  have hclose := (ctrlIs_Z_iff atol h0 h1 tq tax tan tph).mp hacc
  have heq : rot tax tan tph = σz := by
    ext i j; exact hcrisp i j (hclose i j)
  refine ⟨heq, ?_, ?_⟩
  · simp [schedGateOp, ctrlOp, hacc, hnx]
  · intro n; rw [gateOp_ctrl_bsr, heq]

/-- both at once, as stated in the task -/
theorem cnot_cz_exact (atol : ℝ) (h0 : 0 < atol) (h1 : atol ≤ Real.pi / 2) (c tq : Int) (tax : Vec3 ℝ)
    (tan tph : ℝ)
    (hcx : ∀ i j : Fin 2, ‖rot tax tan tph i j - σx i j‖ ≤ atol + 1e-5 * ‖σx i j‖ →
      rot tax tan tph i j = σx i j)
    (hcz : ∀ i j : Fin 2, ‖rot tax tan tph i j - σz i j‖ ≤ atol + 1e-5 * ‖σz i j‖ →
      rot tax tan tph i j = σz i j) :
    (schedGateOp atol (.ctrl c (.bsr tq tax tan tph)) = some (.cnot c tq) →
      rot tax tan tph = σx ∧ ∀ n, gateOp n (.ctrl c (.bsr tq tax tan tph)) = ctrlSpec n c.toNat tq.toNat σx) ∧
    (schedGateOp atol (.ctrl c (.bsr tq tax tan tph)) = some (.cz c tq) →
      rot tax tan tph = σz ∧ ∀ n, gateOp n (.ctrl c (.bsr tq tax tan tph)) = ctrlSpec n c.toNat tq.toNat σz) := by
  constructor
  · intro h
    have hacc : ctrlIs atol "X" tq tax tan tph = true := by
      cases hX : ctrlIs atol "X" tq tax tan tph with
      | true => rfl
      | false =>
        cases hZ : ctrlIs atol "Z" tq tax tan tph <;> simp [schedGateOp, ctrlOp, hX, hZ] at h
    obtain ⟨a, _, b⟩ := cnot_exact atol h0 h1 c tq tax tan tph hacc hcx
    exact ⟨a, b⟩
  · intro h
    have hnx : ctrlIs atol "X" tq tax tan tph = false := by
      cases hX : ctrlIs atol "X" tq tax tan tph with
      | false => rfl
      | true => simp [schedGateOp, ctrlOp, hX] at h
    have hacc : ctrlIs atol "Z" tq tax tan tph = true := by
      cases hZ : ctrlIs atol "Z" tq tax tan tph with
      | true => rfl
      | false => simp [schedGateOp, ctrlOp, hnx, hZ] at h
    obtain ⟨a, _, b⟩ := cz_exact atol h0 h1 c tq tax tan tph hnx hacc hcz
    exact ⟨a, b⟩

/-- `Rx(π)` is `-i σx` -/
theorem rot_x_pi : rot (1, 0, 0) Real.pi 0 = (-I) • σx := by
  rw [rot_eq, Real.cos_pi_div_two, Real.sin_pi_div_two]
  ext i j
  fin_cases i <;> fin_cases j <;> simp [σx]

/-- **the test is phase sensitive**: a target equal to `σx` up to the non-trivial phase `-i` (the gate `Rx(π)`)
    is accepted neither as `X` nor as `Z`; a controlled `Rx(π)` is refused by the exporter. -/
theorem sched_ctrl_phase_sensitive (atol : ℝ) (h0 : 0 < atol) (h1 : atol < 1 / 2) (c tq : Int) :
    ctrlIs atol "X" tq (1, 0, 0) Real.pi 0 = false ∧ ctrlIs atol "Z" tq (1, 0, 0) Real.pi 0 = false ∧
    schedGateOp atol (.ctrl c (.bsr tq (1, 0, 0) Real.pi 0)) = none := by
  have hpi : atol ≤ Real.pi / 2 := by linarith [Real.two_le_pi]
  have hX : ctrlIs atol "X" tq (1, 0, 0) Real.pi 0 = false := by
    cases h : ctrlIs atol "X" tq (1, 0, 0) Real.pi 0 with
    | false => rfl
    | true =>
      exfalso
      have h01 := (ctrlIs_X_iff atol h0 hpi tq _ _ _).mp h 0 1
      rw [rot_x_pi, rtol_real] at h01
      simp [σx] at h01
      have hn : ‖-I - 1‖ = Real.sqrt 2 := by
        rw [Complex.norm_def, Complex.normSq_apply]
        simp
        norm_num
      rw [hn] at h01
      have : (1 : ℝ) < Real.sqrt 2 := by
        rw [show (1 : ℝ) = Real.sqrt 1 by simp]
        exact Real.sqrt_lt_sqrt (by norm_num) (by norm_num)
      linarith
  have hZ : ctrlIs atol "Z" tq (1, 0, 0) Real.pi 0 = false := by
    cases h : ctrlIs atol "Z" tq (1, 0, 0) Real.pi 0 with
    | false => rfl
    | true =>
      exfalso
      have h00 := (ctrlIs_Z_iff atol h0 hpi tq _ _ _).mp h 0 0
      rw [rot_x_pi, rtol_real] at h00
      simp [σx, σz] at h00
      linarith
  exact ⟨hX, hZ, by simp [schedGateOp, ctrlOp, hX, hZ]⟩

/-! ### 4. The 5-decimal rounding of the degrees -/

/-- the model's scale literal `(1e5 : α)` at `α := ℝ` -/
theorem round5_real (x : ℝ) : round5 x = roundTo 100000 x := by
  unfold round5
  congr 1
  show (1e5 : ℝ) = _
  norm_num

/-- `round(x, 5)` moves `x` by at most half a unit of the fifth decimal -/
theorem round5_error (x : ℝ) : |round5 x - x| ≤ 5e-6 := by
  rw [round5_real]
  have := roundTo_error 100000 x (by norm_num)
  norm_num at this ⊢
  exact this

theorem rad_sub (d d' : ℝ) : |rad d - rad d'| = Real.pi / 180 * |d - d'| := by
  unfold rad
  rw [← sub_mul, abs_mul, abs_of_pos (by positivity : (0 : ℝ) < Real.pi / 180), mul_comm]

/-- in radians the rounding error is at most `(π/180)·5e-6` -/
theorem rad_round5_error (x : ℝ) : |rad (degrees x) - rad (round5 (degrees x))| ≤ Real.pi / 180 * 5e-6 := by
  rw [rad_sub, abs_sub_comm]
  exact mul_le_mul_of_nonneg_left (round5_error _) (by positivity)

/-- entries of `rot n θ 0`, real and imaginary parts -/
theorem rot_entries (n : ℝ × ℝ × ℝ) (θ : ℝ) :
    rot n θ 0 = !![(⟨Real.cos (θ / 2), -(Real.sin (θ / 2) * n.2.2)⟩ : ℂ),
                    ⟨-(Real.sin (θ / 2) * n.2.1), -(Real.sin (θ / 2) * n.1)⟩;
                   ⟨Real.sin (θ / 2) * n.2.1, -(Real.sin (θ / 2) * n.1)⟩,
                    ⟨Real.cos (θ / 2), Real.sin (θ / 2) * n.2.2⟩] := by
  rw [rot_eq]
  ext i j
  fin_cases i <;> fin_cases j <;> apply Complex.ext <;>
    simp [-Complex.ofReal_sin, -Complex.ofReal_cos]

theorem norm_le_of_normSq_le (z : ℂ) (B : ℝ) (hB : 0 ≤ B) (h : Complex.normSq z ≤ B ^ 2) : ‖z‖ ≤ B := by
  rw [Complex.norm_def]
  calc Real.sqrt (Complex.normSq z) ≤ Real.sqrt (B ^ 2) := Real.sqrt_le_sqrt h
    _ = B := Real.sqrt_sq hB

/-- the chord is shorter than the arc -/
theorem chord_le (a b : ℝ) : (Real.cos a - Real.cos b) ^ 2 + (Real.sin a - Real.sin b) ^ 2 ≤ (a - b) ^ 2 := by
  have h1 : (Real.cos a - Real.cos b) ^ 2 + (Real.sin a - Real.sin b) ^ 2 = 2 - 2 * Real.cos (a - b) := by
    rw [Real.cos_sub]
    nlinarith [Real.sin_sq_add_cos_sq a, Real.sin_sq_add_cos_sq b]
  have h2 := Real.one_sub_sq_div_two_le_cos (x := a - b)
  rw [h1]; linarith

theorem sin_sub_sq_le (a b : ℝ) : (Real.sin a - Real.sin b) ^ 2 ≤ (a - b) ^ 2 := by
  have := chord_le a b
  nlinarith [sq_nonneg (Real.cos a - Real.cos b)]

/-- **Lipschitz bound in the rotation angle**: for a unit axis every entry of `rot n θ 0` moves by at most
    `|θ − θ'|/2`. -/
theorem rot_lipschitz_angle (n : ℝ × ℝ × ℝ) (hn : n.1 ^ 2 + n.2.1 ^ 2 + n.2.2 ^ 2 = 1) (θ θ' : ℝ)
    (i j : Fin 2) : ‖rot n θ 0 i j - rot n θ' 0 i j‖ ≤ |θ - θ'| / 2 := by
  obtain ⟨nx, ny, nz⟩ := n
  simp only at hn
  have hB : 0 ≤ |θ - θ'| / 2 := by positivity
  have hc := chord_le (θ / 2) (θ' / 2)
  have hs := sin_sub_sq_le (θ / 2) (θ' / 2)
  have hd : (θ / 2 - θ' / 2) ^ 2 = (|θ - θ'| / 2) ^ 2 := by
    rw [div_pow, sq_abs]; ring
  rw [hd] at hc hs
  have hz : nz ^ 2 ≤ 1 := by nlinarith [sq_nonneg nx, sq_nonneg ny]
  have hxy : nx ^ 2 + ny ^ 2 ≤ 1 := by nlinarith [sq_nonneg nz]
  have hS := sq_nonneg (Real.sin (θ / 2) - Real.sin (θ' / 2))
  rw [rot_entries, rot_entries]
  apply norm_le_of_normSq_le _ _ hB
  fin_cases i <;> fin_cases j <;> simp [Complex.normSq_apply]
  · nlinarith [mul_nonneg hS (sub_nonneg.mpr hz)]
  · nlinarith [mul_nonneg hS (sub_nonneg.mpr hxy)]
  · nlinarith [mul_nonneg hS (sub_nonneg.mpr hxy)]
  · nlinarith [mul_nonneg hS (sub_nonneg.mpr hz)]

/-- **Lipschitz bound in the direction of an in-plane axis**: every entry of `rot (cos φ, sin φ, 0) θ 0` moves by at
    most `|φ − φ'|`. -/
theorem rot_lipschitz_inplane (φ φ' θ : ℝ) (i j : Fin 2) :
    ‖rot (Real.cos φ, Real.sin φ, 0) θ 0 i j - rot (Real.cos φ', Real.sin φ', 0) θ 0 i j‖ ≤ |φ - φ'| := by
  have hB : 0 ≤ |φ - φ'| := abs_nonneg _
  have hc := chord_le φ φ'
  have hs1 : Real.sin (θ / 2) ^ 2 ≤ 1 := Real.sin_sq_le_one _
  have hC := add_nonneg (sq_nonneg (Real.cos φ - Real.cos φ')) (sq_nonneg (Real.sin φ - Real.sin φ'))
  rw [rot_entries, rot_entries]
  apply norm_le_of_normSq_le _ _ hB
  fin_cases i <;> fin_cases j <;> simp [Complex.normSq_apply]
  · positivity
  · nlinarith [mul_nonneg hC (sub_nonneg.mpr hs1)]
  · nlinarith [mul_nonneg hC (sub_nonneg.mpr hs1)]
  · positivity

/-- the tolerance of the exported rotation: `(π/180)·5e-6·(1/2 + 1)` (about `1.3e-7`) per matrix entry -/
noncomputable def roundTol : ℝ := Real.pi / 180 * 5e-6 * (1 / 2 + 1)

theorem norm_exp_I_mul' (x : ℝ) : ‖Complex.exp (I * x)‖ = 1 := norm_exp_I_mul x

/-- rounding both arguments of `Rxy` moves every entry by at most `roundTol` -/
theorem opRxy_round_error (θ φ : ℝ) (i j : Fin 2) :
    ‖opRxy (degrees θ) (degrees φ) i j - opRxy (round5 (degrees θ)) (round5 (degrees φ)) i j‖ ≤ roundTol := by
  unfold opRxy
  set a := rad (degrees φ)
  set a' := rad (round5 (degrees φ))
  set t := rad (degrees θ)
  set t' := rad (round5 (degrees θ))
  have hu : ((Real.cos a, Real.sin a, (0 : ℝ)) : ℝ × ℝ × ℝ).1 ^ 2 + (Real.cos a, Real.sin a, (0 : ℝ)).2.1 ^ 2
      + (Real.cos a, Real.sin a, (0 : ℝ)).2.2 ^ 2 = 1 := by
    simp only; nlinarith [Real.sin_sq_add_cos_sq a]
  have h1 := rot_lipschitz_angle (Real.cos a, Real.sin a, 0) hu t t' i j
  have h2 := rot_lipschitz_inplane a a' t' i j
  have e1 : |t - t'| ≤ Real.pi / 180 * 5e-6 := rad_round5_error θ
  have e2 : |a - a'| ≤ Real.pi / 180 * 5e-6 := rad_round5_error φ
  calc ‖rot (Real.cos a, Real.sin a, 0) t 0 i j - rot (Real.cos a', Real.sin a', 0) t' 0 i j‖
      = ‖(rot (Real.cos a, Real.sin a, 0) t 0 i j - rot (Real.cos a, Real.sin a, 0) t' 0 i j)
          + (rot (Real.cos a, Real.sin a, 0) t' 0 i j - rot (Real.cos a', Real.sin a', 0) t' 0 i j)‖ := by
        congr 1; ring
    _ ≤ |t - t'| / 2 + |a - a'| := le_trans (norm_add_le _ _) (add_le_add h1 h2)
    _ ≤ roundTol := by unfold roundTol; linarith

theorem opRz_round_error (θ : ℝ) (i j : Fin 2) :
    ‖opRz (degrees θ) i j - opRz (round5 (degrees θ)) i j‖ ≤ Real.pi / 180 * 5e-6 / 2 := by
  unfold opRz
  have h1 := rot_lipschitz_angle (0, 0, 1) (by norm_num) (rad (degrees θ)) (rad (round5 (degrees θ))) i j
  have e1 := rad_round5_error θ
  linarith

theorem phase_smul_sub (φg : ℝ) (A B : Matrix (Fin 2) (Fin 2) ℂ) (i j : Fin 2) :
    ‖(Complex.exp (I * φg) • A) i j - Complex.exp (I * φg) * B i j‖ = ‖A i j - B i j‖ := by
  rw [Matrix.smul_apply, smul_eq_mul, ← mul_sub, norm_mul, norm_exp_I_mul', one_mul]

/-- **C11, in-plane axis, as emitted.**  The operation actually emitted, `Rxy(round5 (degrees θ), round5 (degrees φ))`,
    differs entrywise from the statement's operator, up to the global phase `e^{iφ_g}`, by at most
    `roundTol = (π/180)·5e-6·(1/2 + 1)`. -/
theorem rxy_denotes_rounded (atol x y z θ φg : ℝ) (hunit : x ^ 2 + y ^ 2 + z ^ 2 = 1)
    (hz : |z| < atol) (hcrisp : |z| < atol → z = 0) (i j : Fin 2) :
    ‖rot (x, y, z) θ φg i j
        - Complex.exp (I * φg) * opRxy (round5 (degrees θ)) (round5 (degrees (Trig.atan2 y x))) i j‖
      ≤ roundTol := by
  rw [rxy_denotes_exact atol x y z θ φg hunit hz hcrisp, phase_smul_sub]
  exact opRxy_round_error θ _ i j

/-- **C11, z axis, as emitted.**  Same for `Rz(round5 (degrees (±θ)))`; the bound is even `(π/180)·5e-6/2`. -/
theorem rz_denotes_rounded (atol x y z θ φg : ℝ) (hunit : x ^ 2 + y ^ 2 + z ^ 2 = 1)
    (hx : |x| < atol) (hy : |y| < atol) (hcx : |x| < atol → x = 0) (hcy : |y| < atol → y = 0) (i j : Fin 2) :
    ‖rot (x, y, z) θ φg i j
        - Complex.exp (I * φg) * opRz (round5 (degrees (if 0 < z then θ else -θ))) i j‖
      ≤ Real.pi / 180 * 5e-6 / 2 ∧
    ‖rot (x, y, z) θ φg i j
        - Complex.exp (I * φg) * opRz (round5 (degrees (if 0 < z then θ else -θ))) i j‖
      ≤ roundTol := by
  rw [rz_denotes_exact atol x y z θ φg hunit hx hy hcx hcy, phase_smul_sub]
  have h := opRz_round_error (if 0 < z then θ else -θ) i j
  refine ⟨h, le_trans h ?_⟩
  unfold roundTol
  have : 0 ≤ Real.pi / 180 * 5e-6 := by positivity
  linarith

/-- the single-qubit operator of a schedule operation (`none` for two-qubit gates, measurements, resets) -/
noncomputable def sopMatrix : SOp ℝ → Option (Int × Matrix (Fin 2) (Fin 2) ℂ)
  | .rxy q θ φ => some (q, opRxy θ φ)
  | .rz q θ => some (q, opRz θ)
  | _ => none

/-- **C11, rotations, summary.**  For a rotation statement with a unit axis on which the exporter's axis tests are
    honest (crisp): if the exporter emits an operation, that operation is a single-qubit rotation on the same qubit
    whose operator agrees with the statement's operator, up to the statement's global phase, within `roundTol`
    in every entry. -/
theorem sched_rot_denotes (atol : ℝ) (q : Int) (x y z θ φg : ℝ) (hunit : x ^ 2 + y ^ 2 + z ^ 2 = 1)
    (hcx : |x| < atol → x = 0) (hcy : |y| < atol → y = 0) (hcz : |z| < atol → z = 0)
    (o : SOp ℝ) (ho : schedGateOp atol (.bsr q (x, y, z) θ φg) = some o) :
    ∃ M, sopMatrix o = some (q, M) ∧
      ∀ i j : Fin 2, ‖rot (x, y, z) θ φg i j - Complex.exp (I * φg) * M i j‖ ≤ roundTol := by
  by_cases hz : |z| < atol
  · have h := (sched_rxy_exact atol q x y z θ φg hunit hz hcz).1
    rw [h] at ho; injection ho with ho; subst ho
    exact ⟨_, rfl, fun i j => rxy_denotes_rounded atol x y z θ φg hunit hz hcz i j⟩
  · by_cases hxy : |x| < atol ∧ |y| < atol
    · have h := (sched_rz_exact atol q x y z θ φg hunit hz hxy.1 hxy.2 hcx hcy).1
      rw [h] at ho; injection ho with ho; subst ho
      exact ⟨_, rfl, fun i j => (rz_denotes_rounded atol x y z θ φg hunit hxy.1 hxy.2 hcx hcy i j).2⟩
    · exfalso
      have : schedGateOp atol (.bsr q (x, y, z) θ φg) = none := by
        simp only [schedGateOp, bsrOp_eq_none_iff, absS_real]
        exact ⟨hz, hxy⟩
      rw [this] at ho; cases ho

/-! ### Non-vacuity -/

-- `Ry(θ)`: in-plane axis `(0,1,0)`, exported as `Rxy(θ°, 90°)` (atan2 1 0 = π/2), and it denotes the same operator
example (θ : ℝ) : schedGateOp (1e-7 : ℝ) (.bsr 3 (0, 1, 0) θ 0)
      = some (.rxy 3 (round5 (degrees θ)) (round5 (degrees (Trig.atan2 1 0)))) ∧
    rot (0, 1, 0) θ 0 = Complex.exp (I * (0 : ℝ)) • opRxy (degrees θ) (degrees (Trig.atan2 1 0)) :=
  sched_rxy_exact (1e-7) 3 0 1 0 θ 0 (by norm_num) (by norm_num) (fun _ => rfl)

-- a rotation about `−z` by `θ` is exported as `Rz(−θ°)`
example (θ : ℝ) : schedGateOp (1e-7 : ℝ) (.bsr 0 (0, 0, -1) θ 0)
      = some (.rz 0 (round5 (degrees (if (0 : ℝ) < -1 then θ else -θ)))) ∧
    rot (0, 0, -1) θ 0 = Complex.exp (I * (0 : ℝ)) • opRz (degrees (if (0 : ℝ) < -1 then θ else -θ)) :=
  sched_rz_exact (1e-7) 0 0 0 (-1) θ 0 (by norm_num) (by norm_num) (by norm_num) (by norm_num)
    (fun _ => rfl) (fun _ => rfl)

-- `X` given by the *other* representation (axis `−x`, angle `π`, phase `−π/2`) is accepted as `X`: CNOT
example (c t : Int) :
    schedGateOp (1e-7 : ℝ) (.ctrl c (.bsr t (-1, 0, 0) Real.pi (-(Real.pi / 2)))) = some (.cnot c t) ∧
    ∀ n, gateOp n (.ctrl c (.bsr t (-1, 0, 0) Real.pi (-(Real.pi / 2)))) = ctrlSpec n c.toNat t.toNat σx := by
  have hpi : (1e-7 : ℝ) ≤ Real.pi / 2 := by linarith [Real.two_le_pi, show (1e-7 : ℝ) < 1 by norm_num]
  have heq : rot (-1, 0, 0) Real.pi (-(Real.pi / 2)) = σx := by
    rw [← rot_X_two_reps, rot_X, Std.X_eq]
  have hacc : ctrlIs (1e-7 : ℝ) "X" t (-1, 0, 0) Real.pi (-(Real.pi / 2)) = true := by
    rw [ctrlIs_X_iff _ (by norm_num) hpi]
    intro i j
    rw [heq, sub_self, norm_zero]
    have : (0 : ℝ) ≤ 1e-5 * ‖σx i j‖ := mul_nonneg rtol_real_nonneg (norm_nonneg _)
    linarith [show (0 : ℝ) < 1e-7 by norm_num]
  exact (cnot_exact (1e-7) (by norm_num) hpi c t _ _ _ hacc (fun i j _ => by rw [heq])).2

-- the phase-sensitivity statement at the generated tolerance
example (c t : Int) : schedGateOp (1e-7 : ℝ) (.ctrl c (.bsr t (1, 0, 0) Real.pi 0)) = none :=
  (sched_ctrl_phase_sensitive (1e-7) (by norm_num) (by norm_num) c t).2.2

theorem roundTol_lt : roundTol < 1.7e-7 := by
  unfold roundTol
  have := Real.pi_le_four
  norm_num
  linarith

-- the summary on `Ry(θ)` with a global phase: the emitted `Rxy` is within `roundTol` of the statement's operator
example (θ φg : ℝ) : ∃ M, sopMatrix (.rxy 3 (round5 (degrees θ)) (round5 (degrees (Trig.atan2 1 0)))) = some (3, M) ∧
    ∀ i j : Fin 2, ‖rot (0, 1, 0) θ φg i j - Complex.exp (I * φg) * M i j‖ ≤ roundTol :=
  sched_rot_denotes (1e-7) 3 0 1 0 θ φg (by norm_num) (fun _ => rfl) (fun h => by norm_num at h) (fun _ => rfl) _
    (sched_rxy_exact (1e-7) 3 0 1 0 θ φg (by norm_num) (by norm_num) (fun _ => rfl)).1

-- … and on a rotation about `−z`
example (θ φg : ℝ) (i j : Fin 2) :
    ‖rot (0, 0, -1) θ φg i j
        - Complex.exp (I * φg) * opRz (round5 (degrees (if (0 : ℝ) < -1 then θ else -θ))) i j‖ ≤ roundTol :=
  (rz_denotes_rounded (1e-7) 0 0 (-1) θ φg (by norm_num) (by norm_num) (by norm_num) (fun _ => rfl)
    (fun _ => rfl) i j).2

example : |round5 (1 / 3 : ℝ) - 1 / 3| ≤ 5e-6 := round5_error _

end OSq.SchedSem

#print axioms OSq.SchedSem.degrees_radians
#print axioms OSq.SchedSem.rxy_denotes_exact
#print axioms OSq.SchedSem.rz_denotes_exact
#print axioms OSq.SchedSem.rz_sign_matters
#print axioms OSq.SchedSem.sched_rxy_exact
#print axioms OSq.SchedSem.sched_rz_exact
#print axioms OSq.SchedSem.gateOp_ctrl_bsr
#print axioms OSq.SchedSem.cnot_exact
#print axioms OSq.SchedSem.cz_exact
#print axioms OSq.SchedSem.cnot_cz_exact
#print axioms OSq.SchedSem.sched_ctrl_phase_sensitive
#print axioms OSq.SchedSem.round5_error
#print axioms OSq.SchedSem.rot_lipschitz_angle
#print axioms OSq.SchedSem.rot_lipschitz_inplane
#print axioms OSq.SchedSem.rxy_denotes_rounded
#print axioms OSq.SchedSem.rz_denotes_rounded
#print axioms OSq.SchedSem.sched_rot_denotes
