import OSq.Proofs.Main2
import OSq.Proofs.MergeBand4
import OSq.Proofs.DecomposeBand4
/-
  OSq.Proofs.PipelineBand — **C05 for ALL inputs, part 1: one pass** (`α := ℝ`, no crisp hypothesis).
  "Any finite sequence of passes applied to a well-formed circuit … leaves a well-formed circuit whose operation equals the
  original's up to a global phase and the accumulated qubit permutation" — here up to an explicit error budget in the
  ℓ² operator norm (`open scoped Matrix.Norms.L2Operator`), for every input, on top of the per-pass all-inputs bounds
  `decompose_band_sum`, `replace_band_sum` (`DecomposeBand2`), `merge_all_inputs'` (`MergeBand3`) and the exact
  `map_step_sem` (`Main2`).  Part 2 (`OSq.Proofs.PipelineBand2`) is the induction over the list of passes.

  Invariant and hypotheses
  * `Circuit.UWF c`          `c.wf = true` and every gate of `c` is `Gate.Unitary` (unit rotation axes, unitary matrix nodes)
  * `CallbackUnitary f`, `Pass.UFine p`   for `replace name f`: `f` only returns constructible (`CallbackFine`) and
                             `Gate.Unitary` gates; nothing is assumed for `decompose`, `merge`, `map`.  (CHOICE: the callback
                             is ASSUMED to return unitary gates rather than using the `_nohyp` product bound, because
                             without it the invariant `Gate.Unitary` is not preserved — an accepted replacement
                             `[MatrixGate(2U), MatrixGate(U/2)]` is a product of non-unitary gates — and the next pass
                             could not be bounded.)
  Preservation of the invariant (completed AND raising passes)
  * `decompose_gok`, `replace_gok`   the accumulator loops keep "distinct operands, `Gate.Unitary`" (`DBand.run_GOK`)
  * `merge_output_unit`, `merge_unitary`   every rotation the merger emits has a unit axis (`composeRot_all_inputs_op`,
                             `finalRot_op_band`), the other gates are gates of the input
  * `Gate.unitary_mapQubits` relabelling keeps `Gate.Unitary`
  * `pass_uwf`               one pass, any kind, any outcome, keeps `Circuit.UWF`
  Permutations
  * `norm_conj_unitary`      `‖U A U⁻¹‖ = ‖A‖` for unitary `U`
  * `permOp_unitary`, `permsOp_unitary`   permutation matrices of valid relabellings of the register are unitary
  * `norm_conj_perm`, `norm_conj_perms`   **conjugation by a permutation matrix is an isometry of the operator norm**
  Budgets
  * `budgetUpTo atol p c k`  budget of pass `p` on `c` stopped at list position `k`;  `budget atol p c` (completed):
                             decompose `Σ_gates κ(#operands, atol)`, replace: the same over the gates called `name`, merge
                             `#rotations · perRot atol`, map `0`;  `budget_nonneg`, `budgetUpTo_le`
  * `budget_le_closed`       `budget atol p c ≤ gateCount c.stmts · max (κ(K, atol)) (perRot atol)`, `K` ≥ operand counts
  One pass
  * `pass_band_any`          any outcome: invariant kept, registers kept, stop position `k` (`Pass.StopsAt`), ONE unit `z`,
                             `∀ o, ‖circOp (after) o − z • (P circOp (before) o P⁻¹)‖ ≤ budgetUpTo atol p c k`
  * `pass_band`              **the pass completes** ⇒ `… ≤ budget atol p c`, `P = permsOp n p.mapOf`
  * `pass_fail_band`         **the pass raises** ⇒ `… ≤ budgetUpTo atol p c k ≤ budget atol p c`, `P = 1`; a `merge` cannot
                             raise on a circuit with the invariant, a `map` that raises changes nothing
  Constants: `κ(k, atol) = kappa k atol = 2^k·(atol + 1e-5)`, `perRot atol = (2√2 + 7)·atol + 5/10⁷ ≤ 10·atol + 5·10⁻⁷`;
  hypothesis on the tolerance: `0 < atol ≤ π`.
  Non-vacuity: examples at the end (a `map` pass and a `merge` pass on concrete 2-qubit circuits).
-/

set_option linter.unusedSectionVars false
set_option linter.unusedVariables false
set_option linter.unusedSimpArgs false
open Matrix
open scoped Matrix.Norms.L2Operator

namespace OSq
open Bands

/-! ## 1. The invariant -/

/-- **the invariant of the all-inputs theorem**: the circuit is well formed (`Circuit.wf`: operands in the register, no
    repeated operand, matrices of the right size) and every gate is `Gate.Unitary` (rotation axes are unit vectors,
    matrix nodes are unitary, recursively through controls) -/
def Circuit.UWF (c : Circuit ℝ) : Prop := c.wf = true ∧ ∀ g nm, Stmt.gate g nm ∈ c.stmts → g.Unitary

/-- hypothesis on a `replace` callback (besides `CallbackFine`): it only returns `Gate.Unitary` gates -/
def CallbackUnitary (f : Nat → List (Arg ℝ) → Except Err (List (GStmt ℝ))) : Prop :=
  ∀ j args repl, f j args = .ok repl → ∀ r ∈ repl, r.1.Unitary

/-- the hypothesis on one pass: nothing for `decompose`, `merge`, `map`; for `replace name f` the callback returns
    constructible (`CallbackFine`) unitary (`CallbackUnitary`) gates -/
def Pass.UFine : Pass ℝ → Prop
  | .replace _ f => CallbackFine f ∧ CallbackUnitary f
  | _ => True

theorem Pass.UFine.fine {p : Pass ℝ} (h : p.UFine) : p.Fine := by
  cases p with
  | replace name f => exact h.1
  | decompose d => trivial
  | merge => trivial
  | map m => trivial

/-- statement-level form of the invariant used inside the accumulator loops -/
def Stmt.GOK (s : Stmt ℝ) : Prop := ∀ g nm, s = .gate g nm → g.operands.Nodup ∧ g.Unitary

theorem Circuit.UWF.gok {c : Circuit ℝ} (h : c.UWF) : ∀ s ∈ c.stmts, s.GOK := by
  rintro s hs g nm rfl
  exact ⟨(gateWF_of_wf ((Circuit.wf_iff c).mp h.1 _ hs)).1, h.2 g nm hs⟩

/-- the loop body of `decompose` / `replace` keeps `Stmt.GOK` as soon as the decomposer does -/
theorem verdict_gok (atol : ℝ) (d : Nat → GStmt ℝ → Except Err (List (GStmt ℝ)))
    (hd : ∀ i g nm repl, g.operands.Nodup ∧ g.Unitary → d i (g, nm) = .ok repl →
      ∀ x ∈ repl, x.1.operands.Nodup ∧ x.1.Unitary)
    (i : Nat) (s : Stmt ℝ) (r : List (Stmt ℝ)) (hs : s.GOK) (h : verdict atol d i s = .ok r) :
    ∀ x ∈ r, x.GOK := by
  cases s with
  | gate g nm =>
    simp only [verdict] at h
    cases hdd : d i (g, nm) with
    | error e => simp [hdd] at h
    | ok repl =>
      cases hc : checkGateReplacement atol g (repl.map (·.1)) with
      | some e => simp [hdd, hc] at h
      | none =>
        simp [hdd, hc] at h; subst h
        intro x hx
        obtain ⟨y, hy, rfl⟩ := List.mem_map.mp hx
        rintro g' nm' e
        have := hd i g nm repl (hs g nm rfl) hdd y hy
        cases y with
        | mk y1 y2 =>
          simp only [GStmt.toStmt, Stmt.gate.injEq] at e
          obtain ⟨rfl, -⟩ := e
          exact this
  | measure q b ax nm => simp [verdict] at h; subst h; intro x hx; simp at hx; subst hx; exact hs
  | reset q nm => simp [verdict] at h; subst h; intro x hx; simp at hx; subst hx; exact hs
  | comment c => simp [verdict] at h; subst h; intro x hx; simp at hx; subst hx; exact hs

/-- **`decompose` keeps the unitarity invariant**, whatever the outcome (completed or stopped by an exception) -/
theorem decompose_gok (atol : ℝ) (dc : Decomposer) (stmts : List (Stmt ℝ)) (h : ∀ s ∈ stmts, s.GOK) :
    ∀ s ∈ (decomposeBuiltin atol dc stmts).1, s.GOK := by
  unfold decomposeBuiltin
  rw [decompose_eq_genLoop]
  exact genLoop_all _ _ Stmt.GOK
    (fun i s r => verdict_gok atol _ (fun _ g nm repl hg hr => DBand.run_GOK atol dc (g, nm) hg repl hr) i s r)
    stmts 0 [] (by simp) h

/-- **`replace` keeps the unitarity invariant** (callback returning constructible unitary gates), whatever the outcome -/
theorem replace_gok (atol : ℝ) (name : String) (f : Nat → List (Arg ℝ) → Except Err (List (GStmt ℝ)))
    (hf : CallbackFine f) (hu : CallbackUnitary f) (stmts : List (Stmt ℝ)) (h : ∀ s ∈ stmts, s.GOK) :
    ∀ s ∈ (replace atol name f stmts).1, s.GOK := by
  rw [replace_eq_genLoop]
  refine genLoop_all _ _ Stmt.GOK (fun i s r => verdict_gok atol _ ?_ i s r) stmts 0 [] (by simp) h
  intro i g nm repl hg hr
  rcases matchesName_cases name g nm with ⟨n, rfl, hn, _⟩ | hm
  · rw [genericReplacer_match name f i g n hn] at hr
    intro x hx
    exact ⟨nodup_of_hasDup_false _ (hf i n.args repl hr x hx).1, hu i n.args repl hr x hx⟩
  · rw [genericReplacer_other name f i g nm hm] at hr
    injection hr with hr; subst hr
    intro x hx
    rw [List.mem_singleton] at hx; subst hx
    exact hg

/-! ## 2. The merger emits unit-axis rotations -/

/-- every plain rotation of the list has a unit axis -/
def OutUnit (l : List (Stmt ℝ)) : Prop := ∀ s ∈ l, ∀ r, s.rot? = some r → UnitVec r.axis

theorem OutUnit.cons_nonBSR {l : List (Stmt ℝ)} (h : OutUnit l) (s : Stmt ℝ) (hb : s.isBSR = false) :
    OutUnit (s :: l) := by
  intro x hx r hr
  rcases List.mem_cons.mp hx with rfl | hx
  · have := (rot?_isBSR x).mpr ⟨r, hr⟩
    rw [hb] at this; cases this
  · exact h x hx r hr

theorem flushOps_unit_out (atol : ℝ) (hat : 0 < atol) (hpi : atol ≤ Real.pi) (qs : List Int) :
    ∀ (accs : Array (Rot ℝ)) (out : List (Stmt ℝ)) (accs' : Array (Rot ℝ)) (out' : List (Stmt ℝ)),
      AccUnit accs → OutUnit out → flushOps atol accs out qs = .ok (accs', out') → OutUnit out' := by
  induction qs with
  | nil =>
    intro accs out accs' out' hu ho h
    rw [flushOps_nil] at h; injection h with h; injection h with h1 h2
    subst h2; exact ho
  | cons q0 qs ih =>
    intro accs out accs' out' hu ho h
    cases hq0 : accGet? accs q0 with
    | none => rw [flushOps_cons_key atol accs out q0 qs hq0] at h; cases h
    | some r0 =>
      cases hid : r0.isIdentity atol with
      | true =>
        rw [flushOps_cons_id atol accs out q0 qs r0 hq0 hid] at h
        exact ih accs out accs' out' hu ho h
      | false =>
        rw [flushOps_cons_emit atol accs out q0 qs r0 hq0 hid] at h
        refine ih _ _ accs' out' (hu.set _ _ (defaultI_unit atol hat hpi _)) ?_ h
        intro x hx r hr
        rcases List.mem_cons.mp hx with rfl | hx
        · rw [Rot.rot?_toStmt] at hr; injection hr with hr; subst hr
          exact hu _ _ (accGet?_some accs q0 r0 hq0).2
        · exact ho x hx r hr

/-- the loop of the merger on unit-axis rotations: it runs to the end, and accumulators and emitted rotations all have
    unit axes -/
theorem mergeLoop_unit_out (atol : ℝ) (hat : 0 < atol) (hpi : atol ≤ Real.pi) (n : Nat) (rest : List (Stmt ℝ))
    (hr : OperandsInRange n rest) (hax : OutUnit rest) :
    ∀ (accs : Array (Rot ℝ)) (out : List (Stmt ℝ)), accs.size = n → AccOK accs → AccUnit accs → OutUnit out →
      ∃ accs' out', mergeLoop atol accs out rest = .inr (accs', out') ∧ AccUnit accs' ∧ OutUnit out' := by
  induction rest with
  | nil => intro accs out _ _ hu ho; exact ⟨accs, out, mergeLoop_nil atol accs out, hu, ho⟩
  | cons s rest ih =>
    intro accs out hsz hok hu ho
    have ih := ih (fun s' hs' => hr s' (List.mem_cons_of_mem _ hs'))
      (fun s' hs' => hax s' (List.mem_cons_of_mem _ hs'))
    have hs := hr s List.mem_cons_self
    cases hb : s.isBSR with
    | true =>
      cases s with
      | gate g nm =>
        cases g with
        | bsr q ax an ph =>
          have hqr : inRange n q = true := hs q (by simp [Stmt.qubits, Gate.operands])
          obtain ⟨acc, hacc⟩ := accGet?_inRange accs q (by rw [hsz]; exact hqr)
          obtain ⟨hq0, hget⟩ := accGet?_some accs q acc hacc
          have haq : acc.q = q := by rw [hok _ _ hget]; omega
          have hux : UnitVec ax := hax _ List.mem_cons_self ⟨q, ax, an, ph, nm⟩ rfl
          obtain ⟨r, hc, hru, hrq, _⟩ := composeRot_all_inputs_op atol hat ⟨q, ax, an, ph, nm⟩ acc hux
            (hu _ _ hget) haq.symm
          rw [mergeLoop_bsr_ok atol accs out rest q ax an ph nm acc r hacc hc]
          refine ih _ _ (by simpa using hsz) (hok.set _ _ ?_) (hu.set _ _ hru) ho
          rw [hrq]; show q = _; omega
        | matrix m ops => simp [Stmt.isBSR] at hb
        | ctrl c g => simp [Stmt.isBSR] at hb
      | measure q b ax nm => simp [Stmt.isBSR] at hb
      | reset q nm => simp [Stmt.isBSR] at hb
      | comment c => simp [Stmt.isBSR] at hb
    | false =>
      obtain ⟨accs', out', hf, hsz', hok'⟩ := flushOps_ok atol n s.qubits hs accs out hsz hok
      rw [mergeLoop_nonBSR_ok atol accs out rest s hb accs' out' hf]
      exact ih accs' (s :: out') hsz' hok' (flushOps_unit atol hat hpi _ accs out accs' out' hu hf)
        ((flushOps_unit_out atol hat hpi _ accs out accs' out' hu ho hf).cons_nonBSR s hb)

/-- **every rotation in the output of the merger has a unit axis** (input: operands in range, unit axes) -/
theorem merge_output_unit (atol : ℝ) (hat : 0 < atol) (hpi : atol ≤ Real.pi) (c : Circuit ℝ)
    (hr : OperandsInRange c.nQubits c.stmts) (hax : OutUnit c.stmts) : OutUnit (merge atol c).1.stmts := by
  obtain ⟨hsz, hok⟩ := initAccs_ok atol c.nQubits
  have hu : AccUnit (Array.ofFn (n := c.nQubits) fun i => defaultI atol i.val) := by
    intro i r hi
    rw [Array.getElem?_ofFn] at hi
    split at hi
    · injection hi with hi; rw [← hi]; exact defaultI_unit atol hat hpi i
    · cases hi
  obtain ⟨accs', out', h, hu', ho'⟩ := mergeLoop_unit_out atol hat hpi c.nQubits c.stmts hr hax _ []
    hsz hok hu (by intro s hs; cases hs)
  rw [merge_eq, h]
  intro s hs r hsr
  rcases List.mem_append.mp hs with hs | hs
  · exact ho' s (List.mem_reverse.mp hs) r hsr
  · rw [mergeTail_eq, List.mem_filterMap] at hs
    obtain ⟨a, ha, hsa⟩ := hs
    unfold tailF at hsa
    split at hsa
    · cases hsa
    · injection hsa with hsa; subst hsa
      rw [Rot.rot?_toStmt] at hsr; injection hsr with hsr; subst hsr
      obtain ⟨i, hi⟩ := List.getElem?_of_mem ha
      have : accs'[i]? = some a := by rw [← hi]; simp
      exact (finalRot_op_band atol hat.le a (hu' i a this)).1

theorem outUnit_of_unitary {l : List (Stmt ℝ)} (h : ∀ g nm, Stmt.gate g nm ∈ l → g.Unitary) : OutUnit l := by
  intro s hs r hr
  cases s with
  | gate g nm =>
    cases g with
    | bsr q ax an ph =>
      simp only [Stmt.rot?, Option.some.injEq] at hr; subst hr
      exact (unitVec_iff _).mpr (h _ _ hs)
    | matrix m ops => simp [Stmt.rot?] at hr
    | ctrl cq g => simp [Stmt.rot?] at hr
  | measure q b ax nm => simp [Stmt.rot?] at hr
  | reset q nm => simp [Stmt.rot?] at hr
  | comment cm => simp [Stmt.rot?] at hr

/-- **`merge` keeps the unitarity invariant** -/
theorem merge_unitary (atol : ℝ) (hat : 0 < atol) (hpi : atol ≤ Real.pi) (c : Circuit ℝ) (h : c.UWF) :
    ∀ g nm, Stmt.gate g nm ∈ (merge atol c).1.stmts → g.Unitary := by
  intro g nm hm
  rcases merge_emits_only_bsr atol c _ hm with h1 | h1
  · exact h.2 g nm h1
  · cases g with
    | bsr q ax an ph =>
      exact (unitVec_iff _).mp
        (merge_output_unit atol hat hpi c (operandsInRange_of_wf h.1) (outUnit_of_unitary h.2) _ hm
          ⟨q, ax, an, ph, nm⟩ rfl)
    | matrix m ops => simp [Stmt.isBSR] at h1
    | ctrl cq g => simp [Stmt.isBSR] at h1

/-! ## 3. Relabelling keeps the invariant -/

theorem Gate.operands_mapQubits_length (m : List Int) (g : Gate ℝ) :
    (g.mapQubits m).operands.length = g.operands.length := by
  induction g with
  | bsr q ax an ph => rfl
  | matrix mt ops => simp [Gate.mapQubits, Gate.operands]
  | ctrl c g ih => simp [Gate.mapQubits, Gate.operands, ih]

theorem Gate.unitary_mapQubits (m : List Int) (g : Gate ℝ) (h : g.Unitary) : (g.mapQubits m).Unitary := by
  induction g with
  | bsr q ax an ph => exact h
  | matrix mt ops =>
    have key : ∀ k, k = ops.length →
        mt.toMatrixOn (2 ^ k) ∈ Matrix.unitaryGroup (Fin (2 ^ k)) ℂ := by
      rintro k rfl; exact h
    exact key _ (List.length_map _)
  | ctrl c g ih => exact ih h

/-- **one pass keeps the invariant `Circuit.UWF`** — whether it completes or raises -/
theorem pass_uwf (atol : ℝ) (hat : 0 < atol) (hpi : atol ≤ Real.pi) (p : Pass ℝ) (c : Circuit ℝ)
    (hp : p.UFine) (h : c.UWF) : (p.run atol c).1.UWF := by
  refine ⟨(pass_wf atol p c hp.fine h.1).1, ?_⟩
  cases p with
  | decompose d =>
    intro g nm hm
    exact (decompose_gok atol d c.stmts h.gok _ hm g nm rfl).2
  | replace name f =>
    intro g nm hm
    exact (replace_gok atol name f hp.1 hp.2 c.stmts h.gok _ hm g nm rfl).2
  | merge => exact merge_unitary atol hat hpi c h
  | map m =>
    rcases Pass.run_map_cases atol m c with ⟨e, he⟩ | he
    · rw [he]; exact h.2
    · rw [he]
      intro g nm hm
      obtain ⟨t, ht, e⟩ := List.mem_map.mp hm
      cases t with
      | gate g0 nm0 =>
        simp only [Stmt.mapQubits, Stmt.gate.injEq] at e
        obtain ⟨rfl, -⟩ := e
        exact Gate.unitary_mapQubits m g0 (h.2 g0 nm0 ht)
      | measure q b ax nm' => simp [Stmt.mapQubits] at e
      | reset q nm' => simp [Stmt.mapQubits] at e
      | comment cm => simp [Stmt.mapQubits] at e

/-! ## 4. Conjugation by a permutation matrix is an isometry -/

/-- conjugation by a unitary is an isometry of the operator norm -/
theorem norm_conj_unitary {N : Nat} [NeZero N] (U A : Matrix (Fin N) (Fin N) ℂ)
    (hU : U ∈ Matrix.unitaryGroup (Fin N) ℂ) : ‖U * A * U⁻¹‖ = ‖A‖ := by
  have h1 : U * star U = 1 := Matrix.mem_unitaryGroup_iff.mp hU
  have h2 : star U * U = 1 := Matrix.mem_unitaryGroup_iff'.mp hU
  have hinv : U⁻¹ = star U := Matrix.inv_eq_right_inv h1
  have hsU : star U ∈ Matrix.unitaryGroup (Fin N) ℂ := by
    rw [Matrix.mem_unitaryGroup_iff, star_star]; exact h2
  have nU := DBand.opNorm_unitary_le hU
  have nS := DBand.opNorm_unitary_le hsU
  rw [hinv]
  apply le_antisymm
  · calc ‖U * A * star U‖ ≤ ‖U * A‖ * ‖star U‖ := norm_mul_le _ _
      _ ≤ (‖U‖ * ‖A‖) * ‖star U‖ := mul_le_mul_of_nonneg_right (norm_mul_le _ _) (norm_nonneg _)
      _ ≤ (1 * ‖A‖) * 1 := by
          apply mul_le_mul _ nS (norm_nonneg _) (by positivity)
          exact mul_le_mul_of_nonneg_right nU (norm_nonneg _)
      _ = ‖A‖ := by ring
  · have e : A = star U * (U * A * star U) * U := by
      rw [Matrix.mul_assoc U A, ← Matrix.mul_assoc (star U) U, h2, Matrix.one_mul, Matrix.mul_assoc, h2,
        Matrix.mul_one]
    calc ‖A‖ = ‖star U * (U * A * star U) * U‖ := by rw [← e]
      _ ≤ ‖star U * (U * A * star U)‖ * ‖U‖ := norm_mul_le _ _
      _ ≤ (‖star U‖ * ‖U * A * star U‖) * ‖U‖ := mul_le_mul_of_nonneg_right (norm_mul_le _ _) (norm_nonneg _)
      _ ≤ (1 * ‖U * A * star U‖) * 1 := by
          apply mul_le_mul _ nU (norm_nonneg _) (by positivity)
          exact mul_le_mul_of_nonneg_right nS (norm_nonneg _)
      _ = ‖U * A * star U‖ := by ring

/-- the permutation matrix of a valid relabelling of the whole register is unitary -/
theorem permOp_unitary (n : Nat) (m : List Int) (hv : mappingValid m = true) (hn : n = m.length) :
    permOp n m ∈ Matrix.unitaryGroup (Fin (2 ^ n)) ℂ := by
  subst hn
  rw [permOp_eq_qpermOp, Matrix.mem_unitaryGroup_iff]
  have : star (qpermOp m) = (qpermOp m)ᵀ := by
    ext r c
    rw [Matrix.star_apply, Matrix.transpose_apply, qpermOp_apply]
    split <;> simp
  rw [this]
  exact qpermOp_mul_transpose m hv

/-- … and so is the permutation matrix of a sequence of valid relabellings -/
theorem permsOp_unitary (n : Nat) (ms : List (List Int))
    (h : ∀ m ∈ ms, mappingValid m = true ∧ m.length = n) :
    permsOp n ms ∈ Matrix.unitaryGroup (Fin (2 ^ n)) ℂ := by
  induction ms with
  | nil => rw [permsOp_nil]; exact one_mem _
  | cons m ms ih =>
    rw [permsOp_cons]
    exact mul_mem (ih (fun m' hm' => h m' (List.mem_cons_of_mem _ hm')))
      (permOp_unitary n m (h m List.mem_cons_self).1 (h m List.mem_cons_self).2.symm)

/-- **norm_conj_perm**: conjugation by the permutation matrix of a valid relabelling is an isometry for the operator
    norm -/
theorem norm_conj_perm (n : Nat) (m : List Int) (hv : mappingValid m = true) (hn : n = m.length) (A : Op n) :
    ‖permOp n m * A * (permOp n m)⁻¹‖ = ‖A‖ :=
  norm_conj_unitary _ A (permOp_unitary n m hv hn)

/-- the same for a sequence of relabellings -/
theorem norm_conj_perms (n : Nat) (ms : List (List Int)) (h : ∀ m ∈ ms, mappingValid m = true ∧ m.length = n)
    (A : Op n) : ‖permsOp n ms * A * (permsOp n ms)⁻¹‖ = ‖A‖ :=
  norm_conj_unitary _ A (permsOp_unitary n ms h)

/-! ## 5. Budgets -/

/-- the error budget of a pass that was stopped at list position `k` of the circuit it was applied to
    (`k = c.stmts.length`: the pass completed):
    * `decompose`: `Σ κ(#operands g, atol)` over the gates among the first `k` statements,
    * `replace name`: the same over the gates *called `name`* among the first `k` statements,
    * `merge`: `(number of one-qubit rotations) · perRot atol` (the merger cannot stop on a circuit with the invariant),
    * `map`: `0` (a relabelling is exact). -/
noncomputable def budgetUpTo (atol : ℝ) : Pass ℝ → Circuit ℝ → Nat → ℝ
  | .decompose _, c, k => ((c.stmts.take k).map (bandOf atol)).sum
  | .replace name _, c, k => ((c.stmts.take k).map (bandOfNamed atol name)).sum
  | .merge, c, _ => (c.stmts.countP Stmt.isBSR : ℝ) * perRot atol
  | .map _, _, _ => 0

/-- **the error budget of one (completed) pass** on the circuit it is applied to -/
noncomputable def budget (atol : ℝ) (p : Pass ℝ) (c : Circuit ℝ) : ℝ := budgetUpTo atol p c c.stmts.length

theorem budget_decompose (atol : ℝ) (d : Decomposer) (c : Circuit ℝ) :
    budget atol (.decompose d) c = (c.stmts.map (bandOf atol)).sum := by
  simp [budget, budgetUpTo]

theorem budget_replace (atol : ℝ) (name : String) (f : Nat → List (Arg ℝ) → Except Err (List (GStmt ℝ)))
    (c : Circuit ℝ) : budget atol (.replace name f) c = (c.stmts.map (bandOfNamed atol name)).sum := by
  simp [budget, budgetUpTo]

theorem budget_merge (atol : ℝ) (c : Circuit ℝ) :
    budget atol .merge c = (c.stmts.countP Stmt.isBSR : ℝ) * perRot atol := rfl

theorem budget_map (atol : ℝ) (m : List Int) (c : Circuit ℝ) : budget atol (.map m) c = 0 := rfl

theorem bandOfNamed_nonneg {atol : ℝ} (h : 0 ≤ atol) (name : String) (s : Stmt ℝ) : 0 ≤ bandOfNamed atol name s := by
  unfold bandOfNamed; split; exacts [bandOf_nonneg h s, le_refl _]

theorem perRot_nonneg (atol : ℝ) (h : 0 ≤ atol) : 0 ≤ perRot atol := by
  unfold perRot Fc
  have := Kc_nonneg atol h
  linarith

theorem sum_take_le {β : Type} (f : β → ℝ) (hf : ∀ x, 0 ≤ f x) (l : List β) (k : Nat) :
    ((l.take k).map f).sum ≤ (l.map f).sum := by
  induction l generalizing k with
  | nil => simp
  | cons x l ih =>
    cases k with
    | zero =>
      simp only [List.take_zero, List.map_nil, List.sum_nil, List.map_cons, List.sum_cons]
      have : 0 ≤ (l.map f).sum := List.sum_nonneg (by intro y hy; obtain ⟨z, _, rfl⟩ := List.mem_map.mp hy; exact hf z)
      linarith [hf x]
    | succ k =>
      simp only [List.take_succ_cons, List.map_cons, List.sum_cons]
      linarith [ih k]

theorem budgetUpTo_nonneg (atol : ℝ) (hat : 0 ≤ atol) (p : Pass ℝ) (c : Circuit ℝ) (k : Nat) :
    0 ≤ budgetUpTo atol p c k := by
  cases p with
  | decompose d =>
    exact List.sum_nonneg (by intro y hy; obtain ⟨z, _, rfl⟩ := List.mem_map.mp hy; exact bandOf_nonneg hat z)
  | replace name f =>
    exact List.sum_nonneg (by
      intro y hy; obtain ⟨z, _, rfl⟩ := List.mem_map.mp hy; exact bandOfNamed_nonneg hat name z)
  | merge => exact mul_nonneg (Nat.cast_nonneg _) (perRot_nonneg atol hat)
  | map m => exact le_refl _

theorem budget_nonneg (atol : ℝ) (hat : 0 ≤ atol) (p : Pass ℝ) (c : Circuit ℝ) : 0 ≤ budget atol p c :=
  budgetUpTo_nonneg atol hat p c _

/-- a stopped pass has spent at most the budget of the whole pass -/
theorem budgetUpTo_le (atol : ℝ) (hat : 0 ≤ atol) (p : Pass ℝ) (c : Circuit ℝ) (k : Nat) :
    budgetUpTo atol p c k ≤ budget atol p c := by
  cases p with
  | decompose d =>
    simp only [budget, budgetUpTo, List.take_length]
    exact sum_take_le _ (bandOf_nonneg hat) _ _
  | replace name f =>
    simp only [budget, budgetUpTo, List.take_length]
    exact sum_take_le _ (bandOfNamed_nonneg hat name) _ _
  | merge => exact le_refl _
  | map m => exact le_refl _

/-- closed form of the budget: `G · κ(K, atol)` resp. `G · perRot atol`, `G` the number of gates (resp. of gates called
    `name`, resp. of one-qubit rotations) and `K` a bound on the number of operands of a gate -/
theorem budget_le_closed (atol : ℝ) (hat : 0 ≤ atol) (p : Pass ℝ) (c : Circuit ℝ) (K : Nat)
    (hK : ∀ g nm, Stmt.gate g nm ∈ c.stmts → g.operands.length ≤ K) :
    budget atol p c ≤ (gateCount c.stmts : ℝ) * max (kappa K atol) (perRot atol) := by
  have hG : (0 : ℝ) ≤ gateCount c.stmts := Nat.cast_nonneg _
  cases p with
  | decompose d =>
    rw [budget_decompose]
    exact (bandOf_sum_le atol hat K c.stmts hK).trans (mul_le_mul_of_nonneg_left (le_max_left _ _) hG)
  | replace name f =>
    rw [budget_replace]
    refine (bandOfNamed_sum_le atol hat name K c.stmts (fun g nm hm _ => hK g (some nm) hm)).trans ?_
    have hcnt : c.stmts.countP (matchesName name) ≤ gateCount c.stmts := by
      unfold gateCount
      apply List.countP_mono_left
      intro s _ hs
      obtain ⟨g, n', rfl, _⟩ := (matchesName_true_iff name s).mp hs
      rfl
    calc (c.stmts.countP (matchesName name) : ℝ) * kappa K atol
        ≤ (gateCount c.stmts : ℝ) * kappa K atol :=
          mul_le_mul_of_nonneg_right (by exact_mod_cast hcnt) (kappa_nonneg K hat)
      _ ≤ _ := mul_le_mul_of_nonneg_left (le_max_left _ _) hG
  | merge =>
    rw [budget_merge]
    have hcnt : c.stmts.countP Stmt.isBSR ≤ gateCount c.stmts := by
      unfold gateCount
      apply List.countP_mono_left
      intro s _ hs
      cases s with
      | gate g nm => rfl
      | measure q b ax nm => simp [Stmt.isBSR] at hs
      | reset q nm => simp [Stmt.isBSR] at hs
      | comment cm => simp [Stmt.isBSR] at hs
    calc (c.stmts.countP Stmt.isBSR : ℝ) * perRot atol
        ≤ (gateCount c.stmts : ℝ) * perRot atol :=
          mul_le_mul_of_nonneg_right (by exact_mod_cast hcnt) (perRot_nonneg atol hat)
      _ ≤ _ := mul_le_mul_of_nonneg_left (le_max_right _ _) hG
  | map m =>
    rw [budget_map]
    exact mul_nonneg hG (le_trans (kappa_nonneg K hat) (le_max_left _ _))

/-! ## 6. One pass -/

theorem accepted_builtin_unitary (atol : ℝ) (dc : Decomposer) (c : Circuit ℝ) (h : c.UWF) (k : Nat) (g : Gate ℝ)
    (nm : Option (Named ℝ)) (repl : List (GStmt ℝ)) (hs : c.stmts[k]? = some (.gate g nm))
    (hd : dc.run atol (g, nm) = .ok repl) (hc : checkGateReplacement atol g (repl.map (·.1)) = none) :
    circOp c.nQubits (gateStmts (repl.map (·.1))) [] ∈ Matrix.unitaryGroup (Fin (2 ^ c.nQubits)) ℂ := by
  have hm := List.mem_of_getElem? hs
  have hgwf := (Circuit.opOK_of_wf c h.1 h.2).2 g nm hm
  exact accepted_unitary_of_syntactic atol c.nQubits g repl hgwf
    (DBand.run_GOK atol dc (g, nm) ⟨hgwf.1, h.2 g nm hm⟩ repl hd) hc

theorem accepted_callback_unitary (atol : ℝ) (f : Nat → List (Arg ℝ) → Except Err (List (GStmt ℝ)))
    (hf : CallbackFine f) (hu : CallbackUnitary f) (c : Circuit ℝ) (h : c.UWF) (j : Nat) (k : Nat) (g : Gate ℝ)
    (nm : Named ℝ) (repl : List (GStmt ℝ)) (hs : c.stmts[k]? = some (.gate g (some nm)))
    (hd : f j nm.args = .ok repl) (hc : checkGateReplacement atol g (repl.map (·.1)) = none) :
    circOp c.nQubits (gateStmts (repl.map (·.1))) [] ∈ Matrix.unitaryGroup (Fin (2 ^ c.nQubits)) ℂ := by
  have hm := List.mem_of_getElem? hs
  have hgwf := (Circuit.opOK_of_wf c h.1 h.2).2 g (some nm) hm
  exact accepted_unitary_of_syntactic atol c.nQubits g repl hgwf
    (fun x hx => ⟨nodup_of_hasDup_false _ (hf j nm.args repl hd x hx).1, hu j nm.args repl hd x hx⟩) hc

/-- what a `map` pass that goes through has checked, and what it does -/
theorem run_map_none (atol : ℝ) (m : List Int) (c c' : Circuit ℝ) (h : Pass.run atol (.map m) c = (c', none)) :
    mappingValid m = true ∧ m.length = c.nQubits ∧ c' = { c with stmts := c.stmts.map (Stmt.mapQubits m) } := by
  rw [Pass.run_map] at h
  split at h
  · cases h
  · rename_i m' hm
    obtain ⟨rfl, hv, hl⟩ := mkMapping_mkMapper_ok _ _ _ hm
    rcases remap_cases m' c with ⟨_, _, hr⟩ | ⟨_, hr⟩
    · rw [hr] at h
      exact ⟨hv, hl, (congrArg Prod.fst h).symm⟩
    · rw [hr] at h; cases h

/-- a `map` pass that raises leaves the circuit untouched -/
theorem run_map_some (atol : ℝ) (m : List Int) (c c' : Circuit ℝ) (e : Err)
    (h : Pass.run atol (.map m) c = (c', some e)) : c' = c := by
  rcases Pass.run_map_cases atol m c with ⟨e', he⟩ | he
  · rw [he] at h; exact (congrArg Prod.fst h).symm
  · rw [he] at h; cases h

theorem qubits_bounds_of_wf {c : Circuit ℝ} (hwf : c.wf = true) :
    ∀ s ∈ c.stmts, ∀ q ∈ s.qubits, 0 ≤ q ∧ q < (c.nQubits : Int) := by
  intro s hs q hq
  exact (inRange_iff_bounds _ _).mp (operandsInRange_of_wf hwf s hs q hq)

/-- where and why a pass stopped: list position `k` of the circuit and the reason.
    * `decompose`: statement `k` is a gate that the decomposer or the replacement check refused with `e`;
    * `replace`: statement `k` is a gate refused by the callback, by the check of its replacement, or by its self-check;
    * `merge`: impossible on a circuit with the invariant (unit axes: `merge_no_error_of_unit_axes`);
    * `map`: the mapping was refused. -/
def Pass.StopsAt (atol : ℝ) : Pass ℝ → Circuit ℝ → Nat → Err → Prop
  | .decompose d, c, k, e =>
      ∃ g nm, c.stmts[k]? = some (.gate g nm) ∧
        Rejects atol (fun _ g => d.run atol g) (gateIdx c.stmts k) (.gate g nm) e
  | .replace name f, c, k, e => RRejectsAt atol name f c.stmts k e
  | .merge, _, _, _ => False
  | .map _, _, _, _ => True

/-- **One pass, any outcome** (all inputs, no crisp hypothesis).  `c` satisfies the invariant `Circuit.UWF`, `p` is any
    pass (`p.UFine`: a `replace` callback returns constructible unitary gates), `0 < atol ≤ π`.  Then the circuit the
    pass leaves satisfies the invariant on the same registers, and there is a list position `k ≤ c.stmts.length` —
    `k = c.stmts.length` if the pass completed, the position where it stopped (`Pass.StopsAt`) if it raised — and ONE
    unit scalar `z` such that for EVERY outcome assignment `o`
    `‖circOp (after) o − z • (P * circOp (before) o * P⁻¹)‖ ≤ budgetUpTo atol p c k`,
    `P` the permutation matrix of the relabelling the pass performed (`1` unless it is a `map` that went through). -/
theorem pass_band_any (atol : ℝ) (hat : 0 < atol) (hpi : atol ≤ Real.pi) (p : Pass ℝ) (c : Circuit ℝ)
    (hp : p.UFine) (h : c.UWF) :
    (p.run atol c).1.UWF ∧ (p.run atol c).1.nQubits = c.nQubits ∧ (p.run atol c).1.nBits = c.nBits ∧
    ∃ k, k ≤ c.stmts.length ∧ ((p.run atol c).2 = none → k = c.stmts.length) ∧
      (∀ e, (p.run atol c).2 = some e → p.StopsAt atol c k e) ∧
      ∃ z : ℂ, ‖z‖ = 1 ∧ ∀ o,
        ‖circOp c.nQubits (p.run atol c).1.stmts o
            - z • (permsOp c.nQubits (if (p.run atol c).2 = none then p.mapOf else [])
                    * circOp c.nQubits c.stmts o
                    * (permsOp c.nQubits (if (p.run atol c).2 = none then p.mapOf else []))⁻¹)‖
          ≤ budgetUpTo atol p c k := by
  obtain ⟨-, hq, hb⟩ := pass_wf atol p c hp.fine h.1
  refine ⟨pass_uwf atol hat hpi p c hp h, hq, hb, ?_⟩
  obtain ⟨hok, hgwf⟩ := Circuit.opOK_of_wf c h.1 h.2
  have hnomap : ∀ (ms : List (List Int)), ms = [] → ∀ A : Op c.nQubits,
      permsOp c.nQubits ms * A * (permsOp c.nQubits ms)⁻¹ = A := by
    rintro ms rfl A; simp
  cases p with
  | decompose d =>
    obtain ⟨k, hk, h1, h2, z, hz, H⟩ := decompose_band_sum atol hat c.nQubits (fun _ g => d.run atol g) c.stmts
      hok hgwf (fun k g nm repl hs hd hc => accepted_builtin_unitary atol d c h k g nm repl hs hd hc)
    refine ⟨k, hk, h1, h2, z, hz, fun o => ?_⟩
    rw [hnomap _ (by simp [Pass.mapOf])]
    exact H o
  | replace name f =>
    obtain ⟨k, hk, h1, h2, z, hz, H⟩ := replace_band_sum atol hat c.nQubits name f c.stmts hok
      (fun g nm hm _ => hgwf g (some nm) hm)
      (fun k g nm repl hs _ hd hc => accepted_callback_unitary atol f hp.1 hp.2 c h _ k g nm repl hs hd hc)
    refine ⟨k, hk, h1, h2, z, hz, fun o => ?_⟩
    rw [hnomap _ (by simp [Pass.mapOf])]
    exact H o
  | merge =>
    obtain ⟨hne, -, z, hz, H⟩ := merge_all_inputs' atol hat hpi c (operandsInRange_of_wf h.1)
      (outUnit_of_unitary h.2)
      (fun g nm hm _ => DBand.opNorm_unitary_le (hok _ hm g nm rfl))
    refine ⟨c.stmts.length, le_refl _, fun _ => rfl, ?_, z, hz, fun o => ?_⟩
    · intro e he
      have : (merge atol c).2 = some e := he
      rw [hne] at this; cases this
    · rw [hnomap _ (by simp [Pass.mapOf])]
      exact H o
  | map m =>
    refine ⟨c.stmts.length, le_refl _, fun _ => rfl, fun _ _ => trivial, 1, norm_one, fun o => ?_⟩
    rw [one_smul]
    cases hrun : Pass.run atol (.map m) c with
    | mk c' oe =>
      cases oe with
      | none =>
        obtain ⟨hv, hl, rfl⟩ := run_map_none atol m c c' hrun
        simp only [if_true, Pass.mapOf, permsOp_singleton]
        rw [map_step_sem m hv c.nQubits hl.symm c.stmts (qubits_bounds_of_wf h.1) o, sub_self, norm_zero]
        exact le_refl _
      | some e =>
        have := run_map_some atol m c c' e hrun
        subst this
        rw [hnomap _ (by simp)]
        rw [sub_self, norm_zero]
        exact le_refl _

/-- **pass_band** — one pass that completes.  `c` with the invariant `Circuit.UWF` (well formed, gates `Gate.Unitary`),
    `p.UFine`, `0 < atol ≤ π`, `p.run atol c = (c', none)`: `c'` has the invariant on the same registers, and for ONE unit
    `z` and EVERY outcome assignment `o`
    `‖circOp n c'.stmts o − z • (P_p * circOp n c.stmts o * P_p⁻¹)‖ ≤ budget atol p c`     (ℓ² operator norm),
    `P_p = permsOp n p.mapOf` the permutation matrix of the relabelling of the pass (`1` unless `p = map m`, then
    `permOp n m`), `budget` = `Σ_gates κ(#operands, atol)` (decompose), the same over the gates called `name` (replace),
    `#rotations · perRot atol` (merge), `0` (map). -/
theorem pass_band (atol : ℝ) (hat : 0 < atol) (hpi : atol ≤ Real.pi) (p : Pass ℝ) (c c' : Circuit ℝ)
    (hp : p.UFine) (h : c.UWF) (hrun : p.run atol c = (c', none)) :
    c'.UWF ∧ c'.nQubits = c.nQubits ∧ c'.nBits = c.nBits ∧
    ∃ z : ℂ, ‖z‖ = 1 ∧ ∀ o,
      ‖circOp c.nQubits c'.stmts o
          - z • (permsOp c.nQubits p.mapOf * circOp c.nQubits c.stmts o * (permsOp c.nQubits p.mapOf)⁻¹)‖
        ≤ budget atol p c := by
  obtain ⟨h1, h2, h3, k, -, hk, -, z, hz, H⟩ := pass_band_any atol hat hpi p c hp h
  rw [hrun] at h1 h2 h3 hk H
  simp only [if_true] at H
  have := hk rfl
  subst this
  exact ⟨h1, h2, h3, z, hz, H⟩

/-- **pass_fail_band** — one pass that raises.  Same hypotheses, `p.run atol c = (c', some e)`: the circuit `c'` left
    behind has the invariant on the same registers, the pass stopped at a list position `k` (`Pass.StopsAt`; a `merge`
    cannot stop), and `c'` is within the budget of the statements processed before the stop of the ORIGINAL circuit (no
    relabelling: a `map` that raises changes nothing). -/
theorem pass_fail_band (atol : ℝ) (hat : 0 < atol) (hpi : atol ≤ Real.pi) (p : Pass ℝ) (c c' : Circuit ℝ) (e : Err)
    (hp : p.UFine) (h : c.UWF) (hrun : p.run atol c = (c', some e)) :
    c'.UWF ∧ c'.nQubits = c.nQubits ∧ c'.nBits = c.nBits ∧
    ∃ k, k ≤ c.stmts.length ∧ p.StopsAt atol c k e ∧ budgetUpTo atol p c k ≤ budget atol p c ∧
      ∃ z : ℂ, ‖z‖ = 1 ∧ ∀ o,
        ‖circOp c.nQubits c'.stmts o - z • circOp c.nQubits c.stmts o‖ ≤ budgetUpTo atol p c k := by
  obtain ⟨h1, h2, h3, k, hk, -, hs, z, hz, H⟩ := pass_band_any atol hat hpi p c hp h
  rw [hrun] at h1 h2 h3 hs H
  refine ⟨h1, h2, h3, k, hk, hs e rfl, budgetUpTo_le atol hat.le p c k, z, hz, fun o => ?_⟩
  have := H o
  simpa using this

/-! ## 7. Non-vacuity -/
section Examples

/-- the example circuit of `OSq.Proofs.Main` (`Rx-like(π/2) q0; CR(1) q0 q1; measure q0; reset q1`) has the invariant -/
theorem exMCirc_uwf : exMCirc.UWF := by
  refine ⟨exMCirc_wf, ?_⟩
  intro g nm hm
  simp only [exMCirc, List.mem_cons, Stmt.gate.injEq, reduceCtorEq, List.not_mem_nil, or_false] at hm
  rcases hm with ⟨rfl, _⟩ | ⟨rfl, _⟩ <;> simp [Gate.Unitary]

/-- the example circuit of `OSq.Proofs.MergeBand4` (`Rx(1/20) q0; CNOT q0 q1; Rx(1/20) q0; measure q0`) has the invariant -/
theorem exStd_uwf : exStd.UWF := by
  refine ⟨by simp [exStd, rotStmtOf, exR, Circuit.wf, Stmt.wf, Gate.operands, inRange, hasDup, Gate.shapeOk], ?_⟩
  intro g nm hm
  simp only [exStd, rotStmtOf, exR, List.mem_cons, Stmt.gate.injEq, reduceCtorEq, List.not_mem_nil, or_false] at hm
  rcases hm with ⟨rfl, _⟩ | ⟨rfl, _⟩ | ⟨rfl, _⟩ <;> simp [Gate.Unitary]

/-- `norm_conj_perm` for the swap of two qubits -/
example (A : Op 2) : ‖permOp 2 [1, 0] * A * (permOp 2 [1, 0])⁻¹‖ = ‖A‖ :=
  norm_conj_perm 2 [1, 0] (by decide) rfl A

/-- `pass_band` for the pass `map [1, 0]` on `exMCirc` (it completes: `run_map_eq`): exact, budget `0` -/
example : ∃ c', Pass.run (1 / 1000 : ℝ) (.map [1, 0]) exMCirc = (c', none) ∧ c'.UWF ∧
    ∃ z : ℂ, ‖z‖ = 1 ∧ ∀ o,
      ‖circOp 2 c'.stmts o - z • (permOp 2 [1, 0] * circOp 2 exMCirc.stmts o * (permOp 2 [1, 0])⁻¹)‖ ≤ 0 := by
  have hpi := Real.two_le_pi
  refine ⟨_, run_map_eq _ _ _ exM_map_step, ?_⟩
  obtain ⟨hu, -, -, z, hz, H⟩ := pass_band (1 / 1000) (by norm_num) (by linarith) (.map [1, 0]) exMCirc _ trivial
    exMCirc_uwf (run_map_eq _ _ _ exM_map_step)
  refine ⟨hu, z, hz, fun o => ?_⟩
  have := H o
  rw [budget_map] at this
  simp only [Pass.mapOf, permsOp_singleton] at this
  exact this

/-- `pass_band_any` / `pass_band` for the pass `merge` on `exStd`, `atol = 1/10`: the pass completes and the result is
    within `2 · perRot (1/10)` of the original (two rotations) — an input on which the merger is NOT exact -/
example : (Pass.run (1 / 10 : ℝ) .merge exStd).2 = none ∧ (Pass.run (1 / 10 : ℝ) .merge exStd).1.UWF ∧
    ∃ z : ℂ, ‖z‖ = 1 ∧ ∀ o,
      ‖circOp 2 (Pass.run (1 / 10 : ℝ) .merge exStd).1.stmts o - z • circOp 2 exStd.stmts o‖
        ≤ 2 * perRot (1 / 10) := by
  have hpi := Real.two_le_pi
  have hne : (Pass.run (1 / 10 : ℝ) .merge exStd).2 = none :=
    merge_no_error_of_unit_axes (1 / 10) (by norm_num) (by linarith) exStd (operandsInRange_of_wf exStd_uwf.1)
      (outUnit_of_unitary exStd_uwf.2)
  refine ⟨hne, ?_⟩
  cases hrun : Pass.run (1 / 10 : ℝ) .merge exStd with
  | mk c' oe =>
    rw [hrun] at hne
    simp only at hne
    subst hne
    obtain ⟨hu, -, -, z, hz, H⟩ := pass_band (1 / 10) (by norm_num) (by linarith) .merge exStd c' trivial
      exStd_uwf hrun
    refine ⟨hu, z, hz, fun o => ?_⟩
    have := H o
    have e : (exStd.stmts.countP Stmt.isBSR : ℝ) = 2 := by
      have : exStd.stmts.countP Stmt.isBSR = 2 := rfl
      rw [this]; norm_num
    rw [budget_merge, e] at this
    simp only [Pass.mapOf, permsOp_nil, inv_one, Matrix.one_mul, Matrix.mul_one] at this
    exact this

end Examples

end OSq

#print axioms OSq.norm_conj_perm
#print axioms OSq.pass_uwf
#print axioms OSq.pass_band_any
#print axioms OSq.pass_band
#print axioms OSq.pass_fail_band
