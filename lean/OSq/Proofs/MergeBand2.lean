/-
  OSq.Proofs.MergeBand2 — the register semantics `circOp` with the **operator norm** as an instance of the metric
  merge framework of `MergeBand` (`MergeAbs.Approx`, `MergeAbs.Sem`).

  Norm: everywhere in this file and in `MergeBand3`, `‖A‖` for `A : Op n = Matrix (Fin (2^n)) (Fin (2^n)) ℂ` is the
  L2 operator norm (`Matrix.Norms.L2Operator`: `A` as a linear map on `EuclideanSpace ℂ (Fin (2^n))`), for which
  products of unitaries and projectors have norm `≤ 1` — all bounds are dimension-free.

  1. Operator norm
  * `lift_conjTranspose`, `liftStarHom`   `lift idx` (operator on the listed qubits, identity elsewhere) is a unital
                              ⋆-algebra morphism `Op k →⋆ₐ[ℂ] Op n`
  * `norm_lift_le`            hence a contraction: `‖lift idx a‖ ≤ ‖a‖` (⋆-morphisms of C⋆-algebras are contractive)
  * `opNorm_le_of_entry_le`   2×2: all entries of modulus `≤ ε` ⇒ `‖A‖ ≤ 2·ε`   (the only place a constant is lost)
  * `entry_le_opNorm`         `‖A i j‖ ≤ ‖A‖` (any size)
  * `opNorm_one_le`, `opNorm_le_one_of_unitary`, `norm_measOp_le`, `norm_resetOp_le`   identity, unitaries, the
                              measurement projector `|b⟩⟨b|` and the reset operator `|0⟩⟨b|` have norm `≤ 1`
  2. Distance up to one global phase
  * `stApprox n : Approx (ST n)`   on outcome-consuming operators (`ST n`, `CircuitSem6`):
                              `near ε x y ↔ ∃ z, ‖z‖ = 1 ∧ ∀ o, (x o).2 = (y o).2 ∧ ‖(x o).1 − z • (y o).1‖ ≤ ε`
                              (ONE unit scalar for ALL outcome streams), `contr x ↔ ∀ o, ‖(x o).1‖ ≤ 1`
  3. Semantics
  * `embST`, `denST`, `stSem n : Sem (Op 1) (ST n) (Stmt ℝ)`   the register semantics of `CircuitSem6.regSem` without
                              the quotient by the phase (commutation from `lift_commute`, `lift_commute_stmtOp`)
  * `rotOp1 r : Op 1`         the operator of a rotation record
  * `denS_stSem`              for in-range statement lists `denS (stSem n) rotOp1 l = stCirc n l`
                              (so `(denS … l o).1 = circOp n l o`)
  * `near_embST`              `‖a − z • b‖ ≤ ε` on one qubit ⇒ `near ε (emb q a) (emb q b)` — no dimension factor
  * `contr_embST`, `contr_denST`   `‖a‖ ≤ 1` ⇒ the embedding is a contraction; measurements, resets, comments are
                              contractions, a gate statement is one as soon as `‖gateOp n g‖ ≤ 1`
-/
import OSq.Proofs.CircuitSem7
import OSq.Proofs.MergeBand
import Mathlib.Analysis.CStarAlgebra.Matrix
import Mathlib.Analysis.CStarAlgebra.Spectrum

set_option linter.unusedSectionVars false
set_option linter.unusedVariables false
open Matrix
open scoped Matrix.Norms.L2Operator

namespace OSq
open MergeAbs

/-! ## 1. The operator norm on register operators -/

theorem lift_conjTranspose {n k : Nat} (idx : List Nat) (hk : idx.length = k) (a : Op k) :
    (lift idx hk aᴴ : Op n) = (lift idx hk a)ᴴ := by
  ext r c
  rw [Matrix.conjTranspose_apply, lift_apply, lift_apply]
  by_cases h : agreeOff n idx r.val c.val
  · rw [if_pos h, if_pos (agreeOff_symm h), Matrix.conjTranspose_apply]
  · rw [if_neg h, if_neg (fun h' => h (agreeOff_symm h')), star_zero]

/-- `lift` (operator on the listed qubits, identity elsewhere) as a unital ⋆-algebra morphism -/
noncomputable def liftStarHom {n k : Nat} (idx : List Nat) (hk : idx.length = k) (hnd : idx.Nodup)
    (hlt : ∀ q ∈ idx, q < n) : Op k →⋆ₐ[ℂ] Op n where
  toFun := lift idx hk
  map_one' := lift_one idx hk
  map_mul' := lift_mul idx hk hnd hlt
  map_zero' := lift_zero idx hk
  map_add' := lift_add idx hk
  commutes' z := by
    simp only [Algebra.algebraMap_eq_smul_one]
    rw [lift_smul, lift_one]
  map_star' a := by
    rw [Matrix.star_eq_conjTranspose, Matrix.star_eq_conjTranspose, lift_conjTranspose]

/-- **`lift` is a contraction for the operator norm** (a ⋆-morphism of C⋆-algebras) -/
theorem norm_lift_le {n k : Nat} (idx : List Nat) (hk : idx.length = k) (hnd : idx.Nodup)
    (hlt : ∀ q ∈ idx, q < n) (a : Op k) : ‖(lift idx hk a : Op n)‖ ≤ ‖a‖ :=
  NonUnitalStarAlgHom.norm_apply_le (liftStarHom idx hk hnd hlt) a

theorem lift_sub {n k : Nat} (idx : List Nat) (hk : idx.length = k) (a b : Op k) :
    (lift idx hk (a - b) : Op n) = lift idx hk a - lift idx hk b := by
  ext r c
  simp only [lift_apply, Matrix.sub_apply]
  split <;> simp

/-- a 2×2 matrix all of whose entries have modulus `≤ ε` has operator norm `≤ 2·ε` -/
theorem opNorm_le_of_entry_le {A : Matrix (Fin 2) (Fin 2) ℂ} {ε : ℝ} (hε : 0 ≤ ε) (h : ∀ i j, ‖A i j‖ ≤ ε) :
    ‖A‖ ≤ 2 * ε := by
  set T := toEuclideanCLM (n := Fin 2) (𝕜 := ℂ) A with hT
  rw [← l2_opNorm_toEuclideanCLM]
  refine T.opNorm_le_bound (by positivity) fun x => ?_
  refine (sq_le_sq₀ (by positivity) (by positivity)).mp ?_
  rw [mul_pow, (T x).norm_sq_eq, EuclideanSpace.norm_sq_eq x]
  simp only [hT, ofLp_toEuclideanCLM, Fin.sum_univ_two, mulVec, dotProduct]
  have key : ∀ i : Fin 2, ‖A i 0 * x.ofLp 0 + A i 1 * x.ofLp 1‖ ^ 2
      ≤ 2 * ε ^ 2 * (‖x.ofLp 0‖ ^ 2 + ‖x.ofLp 1‖ ^ 2) := by
    intro i
    have h0 := h i 0
    have h1 := h i 1
    have n0 := norm_nonneg (x.ofLp 0)
    have n1 := norm_nonneg (x.ofLp 1)
    have hb : ‖A i 0 * x.ofLp 0 + A i 1 * x.ofLp 1‖ ≤ ε * (‖x.ofLp 0‖ + ‖x.ofLp 1‖) := by
      refine (norm_add_le _ _).trans ?_
      rw [norm_mul, norm_mul]
      nlinarith [mul_le_mul_of_nonneg_right h0 n0, mul_le_mul_of_nonneg_right h1 n1]
    have hsq := pow_le_pow_left₀ (norm_nonneg _) hb 2
    have : (ε * (‖x.ofLp 0‖ + ‖x.ofLp 1‖)) ^ 2 ≤ 2 * ε ^ 2 * (‖x.ofLp 0‖ ^ 2 + ‖x.ofLp 1‖ ^ 2) := by
      nlinarith [sq_nonneg (‖x.ofLp 0‖ - ‖x.ofLp 1‖), sq_nonneg ε,
        mul_nonneg (sq_nonneg ε) (sq_nonneg (‖x.ofLp 0‖ - ‖x.ofLp 1‖))]
    linarith
  have k0 := key 0
  have k1 := key 1
  nlinarith

/-- every entry is bounded by the operator norm (so all bounds below also hold entrywise, with no dimension factor) -/
theorem entry_le_opNorm {m : Type} [Fintype m] [DecidableEq m] (A : Matrix m m ℂ) (i j : m) : ‖A i j‖ ≤ ‖A‖ := by
  set T := toEuclideanCLM (n := m) (𝕜 := ℂ) A with hT
  rw [← l2_opNorm_toEuclideanCLM]
  have h1 : ‖T (WithLp.toLp 2 (Pi.single j (1 : ℂ)))‖ ≤ ‖T‖ := by
    have := T.le_opNorm (WithLp.toLp 2 (Pi.single j (1 : ℂ)))
    simpa using this
  refine le_trans ?_ h1
  rw [hT, toEuclideanCLM_toLp]
  have := PiLp.norm_apply_le (p := 2) (WithLp.toLp 2 (A *ᵥ Pi.single j (1 : ℂ))) i
  simpa using this

theorem opNorm_one_le {m : Type} [Fintype m] [DecidableEq m] : ‖(1 : Matrix m m ℂ)‖ ≤ 1 := by
  have : (1 : Matrix m m ℂ) = diagonal (fun _ => (1 : ℂ)) := by simp
  rw [this, l2_opNorm_diagonal]
  exact (pi_norm_le_iff_of_nonneg zero_le_one).mpr (fun i => by simp)

theorem opNorm_le_one_of_unitary {m : Type} [Fintype m] [DecidableEq m] {U : Matrix m m ℂ}
    (hU : U ∈ Matrix.unitaryGroup m ℂ) : ‖U‖ ≤ 1 := by
  have h := l2_opNorm_conjTranspose_mul_self U
  have hU' : Uᴴ * U = 1 := by
    have := Matrix.mem_unitaryGroup_iff'.mp hU
    rwa [Matrix.star_eq_conjTranspose] at this
  rw [hU'] at h
  nlinarith [norm_nonneg U, opNorm_one_le (m := m)]

/-- the measurement projector is diagonal with entries `0`/`1`: norm `≤ 1` -/
theorem norm_measOp_le (n q : Nat) (b : Bool) : ‖measOp n q b‖ ≤ 1 := by
  have : measOp n q b = diagonal (fun r : Fin (2 ^ n) => if r.val.testBit q = b then (1 : ℂ) else 0) := by
    ext r c
    simp only [measOp, diagonal_apply]
    by_cases h : r = c
    · subst h; simp
    · simp [h]
  rw [this, l2_opNorm_diagonal]
  refine (pi_norm_le_iff_of_nonneg zero_le_one).mpr (fun i => ?_)
  split <;> simp

/-- `|0⟩⟨b|` on one qubit has norm `≤ 1` -/
theorem norm_resetOp_one_le (b : Bool) : ‖resetOp 1 0 b‖ ≤ 1 := by
  have h := l2_opNorm_conjTranspose_mul_self (resetOp 1 0 b)
  have e : (resetOp 1 0 b)ᴴ * resetOp 1 0 b = measOp 1 0 b := by
    ext r c
    rw [op1_mul_apply]
    rcases op1_cases r with rfl | rfl <;> rcases op1_cases c with rfl | rfl <;> cases b <;>
      simp [resetOp, measOp, i0, i1, agreeOff_one_zero, Matrix.conjTranspose_apply]
  rw [e] at h
  nlinarith [norm_nonneg (resetOp 1 0 b), norm_measOp_le 1 0 b]

theorem norm_resetOp_le (n q : Nat) (hq : q < n) (b : Bool) : ‖resetOp n q b‖ ≤ 1 := by
  rw [resetOp_eq_lift]
  exact (norm_lift_le [q] rfl (by simp) (by simpa using hq) _).trans (norm_resetOp_one_le b)

/-! ## 2. Distance up to one global phase on outcome-consuming operators -/

/-- `near ε x y`: for ONE unit scalar `z` and EVERY outcome stream `o`, `x` and `y` leave the same outcomes unread
    and `‖x(o) − z • y(o)‖ ≤ ε` (operator norm); `contr x`: `‖x(o)‖ ≤ 1` for every `o`. -/
noncomputable def stApprox (n : Nat) : Approx (ST n) where
  near ε x y := ∃ z : ℂ, ‖z‖ = 1 ∧ ∀ o, (x o).2 = (y o).2 ∧ ‖(x o).1 - z • (y o).1‖ ≤ ε
  contr x := ∀ o, ‖(x o).1‖ ≤ 1
  near_refl x := ⟨1, norm_one, fun o => ⟨rfl, by simp⟩⟩
  near_mono := by
    rintro ε δ x y ⟨z, hz, h⟩ hle
    exact ⟨z, hz, fun o => ⟨(h o).1, (h o).2.trans hle⟩⟩
  near_symm := by
    rintro ε x y ⟨z, hz, h⟩
    have hz0 : z ≠ 0 := by
      intro h0; rw [h0, norm_zero] at hz; exact zero_ne_one hz
    refine ⟨z⁻¹, by rw [norm_inv, hz, inv_one], fun o => ⟨(h o).1.symm, ?_⟩⟩
    have e : (y o).1 - z⁻¹ • (x o).1 = (-z⁻¹) • ((x o).1 - z • (y o).1) := by
      rw [smul_sub, smul_smul, neg_mul, inv_mul_cancel₀ hz0, neg_smul, neg_smul, one_smul]
      abel
    rw [e, norm_smul, norm_neg, norm_inv, hz, inv_one, one_mul]
    exact (h o).2
  near_trans := by
    rintro ε δ x y w ⟨z, hz, h⟩ ⟨z', hz', h'⟩
    refine ⟨z * z', by rw [norm_mul, hz, hz', one_mul], fun o => ⟨(h o).1.trans (h' o).1, ?_⟩⟩
    have e : (x o).1 - (z * z') • (w o).1 = ((x o).1 - z • (y o).1) + z • ((y o).1 - z' • (w o).1) := by
      rw [smul_sub, smul_smul]; abel
    rw [e]
    refine (norm_add_le _ _).trans (add_le_add (h o).2 ?_)
    rw [norm_smul, hz, one_mul]
    exact (h' o).2
  contr_one := fun o => opNorm_one_le
  contr_mul := by
    intro x y hx hy o
    rw [ST.mul_apply]
    refine (norm_mul_le _ _).trans ?_
    have := hx (y o).2
    have := hy o
    nlinarith [norm_nonneg (x (y o).2).1, norm_nonneg (y o).1]
  near_mul_left := by
    rintro ε m x y hm ⟨z, hz, h⟩
    refine ⟨z, hz, fun o => ?_⟩
    rw [ST.mul_apply, ST.mul_apply, (h o).1]
    refine ⟨rfl, ?_⟩
    show ‖(m (y o).2).1 * (x o).1 - z • ((m (y o).2).1 * (y o).1)‖ ≤ ε
    rw [← Matrix.mul_smul, ← Matrix.mul_sub]
    refine (norm_mul_le _ _).trans ?_
    have := hm (y o).2
    have := (h o).2
    nlinarith [norm_nonneg (m (y o).2).1, norm_nonneg ((x o).1 - z • (y o).1)]
  near_mul_right := by
    rintro ε m x y hm ⟨z, hz, h⟩
    refine ⟨z, hz, fun o => ?_⟩
    rw [ST.mul_apply, ST.mul_apply]
    refine ⟨(h (m o).2).1, ?_⟩
    show ‖(x (m o).2).1 * (m o).1 - z • ((y (m o).2).1 * (m o).1)‖ ≤ ε
    rw [← Matrix.smul_mul, ← Matrix.sub_mul]
    refine (norm_mul_le _ _).trans ?_
    have := hm o
    have := (h (m o).2).2
    nlinarith [norm_nonneg (m o).1, norm_nonneg ((x (m o).2).1 - z • (y (m o).2).1)]

theorem stApprox_near_iff (n : Nat) (ε : ℝ) (x y : ST n) :
    (stApprox n).near ε x y ↔ ∃ z : ℂ, ‖z‖ = 1 ∧ ∀ o, (x o).2 = (y o).2 ∧ ‖(x o).1 - z • (y o).1‖ ≤ ε := Iff.rfl

theorem stApprox_contr_iff (n : Nat) (x : ST n) : (stApprox n).contr x ↔ ∀ o, ‖(x o).1‖ ≤ 1 := Iff.rfl

/-! ## 3. The register semantics (no quotient) as an instance of the abstract merge semantics -/

/-- a one-qubit operator placed on qubit `q` (trivial outside the register) -/
noncomputable def embST (n q : Nat) : Op 1 →* ST n := if hq : q < n then embHom n q hq else 1

theorem embST_apply (n q : Nat) (hq : q < n) (a : Op 1) : embST n q a = stGate (lift [q] rfl a) := by
  simp only [embST, dif_pos hq]; rfl

/-- the denotation of a barrier statement (trivial for statements outside the register) -/
noncomputable def denST (n : Nat) (s : Stmt ℝ) : ST n := if s.qubits.all (inRange n) then stStmt n s else 1

/-- **the register semantics, operators not quotiented by the phase** -/
noncomputable def stSem (n : Nat) : Sem (Op 1) (ST n) (Stmt ℝ) where
  emb := embST n
  den := denST n
  touches := fun s => s.qubits.map Int.toNat
  comm_emb := by
    intro q q' a b hne
    by_cases hq : q < n
    · by_cases hq' : q' < n
      · rw [embST_apply n q hq, embST_apply n q' hq']
        show _ * _ = _ * _
        rw [← stGate_mul, ← stGate_mul,
          lift_commute [q] [q'] rfl rfl (by simp) (by simpa using hq) (by simp) (by simpa using hq')
            (by simpa using hne)]
      · simp only [embST, dif_neg hq']
        exact Commute.one_right _
    · simp only [embST, dif_neg hq]
      exact Commute.one_left _
  comm_den := by
    intro q a s hnot
    by_cases hq : q < n
    · by_cases hs : s.qubits.all (inRange n) = true
      · rw [embST_apply n q hq]
        simp only [denST, hs, if_true]
        apply stGate_commute_stStmt
        intro b
        exact lift_commute_stmtOp q hq a s ((all_inRange_iff n _).mp hs) hnot b
      · simp only [denST, hs, if_false, Bool.false_eq_true]
        exact Commute.one_right _
    · simp only [embST, dif_neg hq]
      exact Commute.one_left _

/-- the operator of a rotation record on a one-qubit register -/
noncomputable def rotOp1 (r : Rot ℝ) : Op 1 := gateOp 1 (.bsr 0 r.axis r.angle r.phase)

/-- **the abstract denotation of an in-range statement list is its register semantics** -/
theorem denS_stSem (n : Nat) (l : List (Stmt ℝ)) (h : ∀ s ∈ l, s.inRegSem n) :
    denS (stSem n) rotOp1 l = stCirc n l := by
  induction l with
  | nil => rw [stCirc_nil]; rfl
  | cons s l ih =>
    have ih' := ih (fun x hx => h x (List.mem_cons_of_mem _ hx))
    have hs := h s List.mem_cons_self
    rw [denS, ih', stCirc_cons]
    congr 1
    unfold Stmt.inRegSem at hs
    cases hr : s.rot? with
    | none =>
      rw [hr] at hs
      have : s.qubits.all (inRange n) = true := List.all_eq_true.mpr hs
      simp only [stSem, denST, this, if_true]
    | some r =>
      rw [hr] at hs
      cases s with
      | gate g nm =>
        cases g with
        | bsr q ax an ph =>
          simp only [Stmt.rot?, Option.some.injEq] at hr
          subst hr
          simp only [stSem, rotOp1]
          rw [embST_apply n q.toNat hs, stStmt_gate, gateOp_bsr_eq_lift n q hs]
        | matrix m ops => simp [Stmt.rot?] at hr
        | ctrl c g => simp [Stmt.rot?] at hr
      | measure q b ax nm => simp [Stmt.rot?] at hr
      | reset q nm => simp [Stmt.rot?] at hr
      | comment c => simp [Stmt.rot?] at hr

/-- nearness of one-qubit operators transfers to their embeddings (no dimension factor) -/
theorem near_embST (n q : Nat) (a b : Op 1) (z : ℂ) (hz : ‖z‖ = 1) {ε : ℝ} (hε : 0 ≤ ε) (h : ‖a - z • b‖ ≤ ε) :
    (stApprox n).near ε (embST n q a) (embST n q b) := by
  by_cases hq : q < n
  · rw [embST_apply n q hq, embST_apply n q hq]
    refine ⟨z, hz, fun o => ⟨rfl, ?_⟩⟩
    show ‖(lift [q] rfl a : Op n) - z • lift [q] rfl b‖ ≤ ε
    rw [← lift_smul, ← lift_sub]
    exact (norm_lift_le [q] rfl (by simp) (by simpa using hq) _).trans h
  · simp only [embST, dif_neg hq]
    exact (stApprox n).near_mono ((stApprox n).near_refl _) hε

theorem contr_embST (n q : Nat) (a : Op 1) (h : ‖a‖ ≤ 1) : (stApprox n).contr (embST n q a) := by
  by_cases hq : q < n
  · rw [embST_apply n q hq]
    intro o
    exact (norm_lift_le [q] rfl (by simp) (by simpa using hq) a).trans h
  · simp only [embST, dif_neg hq]
    exact (stApprox n).contr_one

/-- measurements, resets and comments denote contractions; a gate does if its operator has norm `≤ 1` -/
theorem contr_denST (n : Nat) (s : Stmt ℝ) (hg : ∀ g nm, s = .gate g nm → ‖gateOp n g‖ ≤ 1) :
    (stApprox n).contr (denST n s) := by
  unfold denST
  split
  · rename_i hs
    have hin := (all_inRange_iff n _).mp hs
    intro o
    cases s with
    | gate g nm => exact hg g nm rfl
    | measure q b ax nm => exact norm_measOp_le n q.toNat _
    | reset q nm =>
      have := hin q (by simp [Stmt.qubits])
      exact norm_resetOp_le n q.toNat (by omega) _
    | comment c => exact opNorm_one_le
  · exact (stApprox n).contr_one

/-! ### Non-vacuity -/

-- the reset operator on qubit 1 of three is a contraction; so is its product with a measurement projector
example : ‖resetOp 3 1 true * measOp 3 0 false‖ ≤ 1 := by
  refine (norm_mul_le _ _).trans ?_
  have h1 := norm_resetOp_le 3 1 (by norm_num) true
  have h2 := norm_measOp_le 3 0 false
  nlinarith [norm_nonneg (resetOp 3 1 true), norm_nonneg (measOp 3 0 false)]

-- `lift` does not increase the norm
example (a : Op 1) : ‖(lift [2] rfl a : Op 4)‖ ≤ ‖a‖ := norm_lift_le [2] rfl (by simp) (by simp) a

-- a circuit is at distance 0 from itself, and multiplying by a measurement keeps distances
example (l l' : List (Stmt ℝ)) (ε : ℝ) (h : (stApprox 2).near ε (stCirc 2 l) (stCirc 2 l')) :
    (stApprox 2).near ε (stCirc 2 (.measure 0 0 (0, 0, 1) none :: l)) (stCirc 2 (.measure 0 0 (0, 0, 1) none :: l')) := by
  rw [stCirc_cons, stCirc_cons]
  apply (stApprox 2).near_mul_right _ h
  have := contr_denST 2 (.measure 0 0 (0, 0, 1) none) (fun g nm e => by cases e)
  simpa [denST, Stmt.qubits, inRange] using this

end OSq

#print axioms OSq.norm_lift_le
#print axioms OSq.opNorm_le_of_entry_le
#print axioms OSq.entry_le_opNorm
#print axioms OSq.norm_resetOp_le
#print axioms OSq.stApprox
#print axioms OSq.stSem
#print axioms OSq.denS_stSem
#print axioms OSq.near_embST
#print axioms OSq.contr_denST
