import OSq.Proofs.MergeReal
import OSq.Proofs.MergeAbstract
/-
  OSq.Proofs.MergeSemReal — "merging preserves circuit meaning" at `α := ℝ`: the analytic crisp hypotheses of
  `Compose.compose_crisp` feed the run-local hypothesis `MergeAbs.Crisp` of `MergeAbstract.merge_sem`.
  Operators are taken up to the global phase −1 (`PQuat`, `Rot.op`); the `phase` field of a rotation is a global
  phase and is ignored by `Rot.op`.

  Theorems
  * `CrispPair`, `CrispR`     the crisp hypothesis as a proposition about the input, stated along the run:
                              unit axes; each composition `composeRot statement acc` has an honest identity test and
                              exact 7-decimal rounding; the final renaming (`tryName`) keeps the operator.
                              "Tests as identity ⇒ denotes the unit" is proved for accumulators, not assumed
                              (`MergeReal.composeRot_isIdentity_angle_zero`), so the fact that such accumulators are
                              neither emitted nor reset at a barrier is harmless.
  * `crispR_crisp`            `CrispR` (+ unit-axis accumulators) ⇒ `MergeAbs.Crisp` for `ρ := Rot.op`.
  * `merge_sem_real`          in-range operands, no exception, `CrispR` ⇒ the output circuit denotes the same operator
                              as the input circuit, for every semantics `S : Sem PQuat M (Stmt ℝ)`.
  * `crispR_bars`, `ex2_crispR`, `ex2_no_error`  non-vacuity: barrier-only programs, and the circuit
                              `X(π) q0; measure q0` (one real composition), satisfy all hypotheses at `ATOL = 1e-7`.
-/
set_option linter.unusedSectionVars false
set_option linter.unusedVariables false
namespace OSq
open Real MergeAbs Function

/-! ### Semantic correctness at ℝ: from the analytic crisp hypotheses to `MergeAbs.Crisp` -/

variable {M : Type} [Monoid M]

theorem op_eq_one_of_angle_zero (r : Rot ℝ) (h : r.angle = 0) : r.op = 1 := by
  rw [Rot.op, PQuat.one_def]
  congr 1
  ext <;> simp [Rot.quat, quat, h, Quat.one_def]

/-- the rounding/identity-test hypotheses of `compose_crisp` for the pair `(u, acc)` -/
def CrispPair (atol : ℝ) (u acc : Rot ℝ) : Prop :=
  u.q = acc.q ∧ UnitVec u.axis ∧
  (|Real.sin (cTheta u acc / 2)| < atol → Real.sin (cTheta u acc / 2) = 0) ∧
  (¬ |Real.sin (cTheta u acc / 2)| < atol →
    roundTo s7 (cAxis u acc).1 = (cAxis u acc).1 ∧ roundTo s7 (cAxis u acc).2.1 = (cAxis u acc).2.1 ∧
    roundTo s7 (cAxis u acc).2.2 = (cAxis u acc).2.2 ∧
    roundTo s7 (u.phase + acc.phase) = u.phase + acc.phase)

/-- **The crisp hypothesis at ℝ, along the run** (a proposition about the input circuit): every rotation statement
    has a unit axis and is on the qubit of its accumulator, every composition is crisp (`CrispPair`), and the final
    renaming keeps the operator.  ("An accumulator that tests as identity denotes the unit" is *not* assumed: it is
    proved, `composeRot_isIdentity_angle_zero`.) -/
def CrispR (atol : ℝ) (S : Sem PQuat M (Stmt ℝ)) (n : ℕ) :
    GState (Rot ℝ) (Stmt ℝ) → List (St (Rot ℝ) (Stmt ℝ)) → Prop
  | st, [] => ∀ q < n, (finalRot atol (st.1 q)).op = (st.1 q).op
  | st, .rot q u :: rest =>
      CrispPair atol u (st.1 q) ∧ CrispR atol S n (gstep S (modelAlg atol Rot.op) st (.rot q u)) rest
  | st, .bar b :: rest => CrispR atol S n (gstep S (modelAlg atol Rot.op) st (.bar b)) rest

/-- accumulator invariant at ℝ: unit axis, and "tests as identity ⇒ angle is exactly 0" -/
def AccGood (atol : ℝ) (r : Rot ℝ) : Prop := UnitVec r.axis ∧ (r.isIdentity atol = true → r.angle = 0)

theorem defaultI_good (atol : ℝ) (hatol : 0 < atol) (hpi : atol ≤ Real.pi) (q : ℕ) :
    AccGood atol (defaultI atol q) := by
  rw [defaultI_real atol hatol hpi]; exact ⟨unitVec_x, fun _ => rfl⟩

theorem gflush_good (atol : ℝ) (hatol : 0 < atol) (hpi : atol ≤ Real.pi) (qs : List ℕ) :
    ∀ st : GState (Rot ℝ) (Stmt ℝ), (∀ q, AccGood atol (st.1 q)) →
      ∀ q, AccGood atol ((gflush (modelAlg atol Rot.op) qs st).1 q) := by
  induction qs with
  | nil => intro st h; exact h
  | cons q0 qs ih =>
    intro st h
    apply ih
    intro q
    unfold gflush1
    split
    · exact h q
    · by_cases e : q = q0
      · subst e
        simp only [update_self, modelAlg]
        exact defaultI_good atol hatol hpi q
      · simp only [update_of_ne e]; exact h q

theorem crispR_crisp (atol : ℝ) (hatol : 0 < atol) (hpi : atol ≤ Real.pi) (S : Sem PQuat M (Stmt ℝ)) (n : ℕ)
    (prog : List (St (Rot ℝ) (Stmt ℝ))) :
    ∀ st : GState (Rot ℝ) (Stmt ℝ), (∀ q, AccGood atol (st.1 q)) → CrispR atol S n st prog →
      Crisp S (modelAlg atol Rot.op) n st prog := by
  induction prog with
  | nil =>
    intro st hg h q hq
    exact ⟨fun hid => op_eq_one_of_angle_zero _ ((hg q).2 hid), h q hq⟩
  | cons s prog ih =>
    intro st hg h
    cases s with
    | rot q u =>
      obtain ⟨⟨hq, hux, hc, hr⟩, hrest⟩ := h
      obtain ⟨r, hok⟩ := compose_ok_of_crisp atol hatol u (st.1 q) hux (hg q).1 hq
        (fun hs => ⟨(hr hs).1, (hr hs).2.1, (hr hs).2.2.1⟩)
      obtain ⟨hop, hunit⟩ := compose_crisp_op atol hatol u (st.1 q) r hux (hg q).1 hok hc hr
      have hcomp : compTotal atol u (st.1 q) = r := compTotal_ok atol _ _ r hok
      refine ⟨?_, ih _ ?_ hrest⟩
      · show (compTotal atol u (st.1 q)).op = u.op * (st.1 q).op
        rw [hcomp]; exact hop
      · intro q'
        show AccGood atol ((update st.1 q (compTotal atol u (st.1 q))) q')
        by_cases e : q' = q
        · subst e; rw [update_self, hcomp]
          exact ⟨hunit, composeRot_isIdentity_angle_zero atol hatol _ _ r hok⟩
        · rw [update_of_ne e]; exact hg q'
    | bar b =>
      refine ⟨fun q _ hid => op_eq_one_of_angle_zero _ ((hg q).2 hid), ih _ ?_ h⟩
      intro q
      exact gflush_good atol hatol hpi (S.touches b) st hg q

/-- **Merging preserves the circuit's meaning (ℝ).**  `S` is any semantics of statements in a monoid `M` of register
    operators (up to global phase) with commuting one-qubit embeddings `S.emb q : PQuat →* M`, in which every
    non-rotation statement commutes with rotations on qubits it does not touch.  If all operands are in range,
    the pass does not raise, and the run is crisp (`CrispR`), the output denotes the same operator as the input. -/
theorem merge_sem_real (atol : ℝ) (hatol : 0 < atol) (hpi : atol ≤ Real.pi) (S : Sem PQuat M (Stmt ℝ))
    (htouch : ∀ s : Stmt ℝ, S.touches s = s.qubits.map Int.toNat)
    (c : Circuit ℝ) (hr : OperandsInRange c.nQubits c.stmts) (hne : (merge atol c).2 = none)
    (hc : CrispR atol S c.nQubits ((fun q => defaultI atol q), []) (c.stmts.map absStmt)) :
    denS S Rot.op (merge atol c).1.stmts = denS S Rot.op c.stmts := by
  have hI : ∀ q : ℕ, (defaultI atol q).op = 1 := fun q =>
    op_eq_one_of_angle_zero _ (by rw [defaultI_real atol hatol hpi])
  apply merge_sem atol S Rot.op htouch c hr hne hI
  apply crispR_crisp atol hatol hpi S c.nQubits _ _ _ hc
  intro q
  exact defaultI_good atol hatol hpi q

/-- non-vacuity: a concrete semantics and circuit for which every hypothesis holds -/
def freeSemR : Sem PQuat (FreeMonoid (Stmt ℝ)) (Stmt ℝ) where
  emb := fun _ => 1
  den := fun s => FreeMonoid.of s
  touches := fun s => s.qubits.map Int.toNat
  comm_emb := fun _ _ _ _ _ => Commute.one_left _
  comm_den := fun _ _ _ _ => Commute.one_left _

theorem gflush_of_isId {A Op B : Type} (G : Alg A Op) (qs : List ℕ) (st : GState A B)
    (h : ∀ q ∈ qs, G.isId (st.1 q) = true) : gflush G qs st = st := by
  induction qs with
  | nil => rfl
  | cons q0 qs ih =>
    have : gflush1 G st q0 = st := by simp [gflush1, h q0 (by simp)]
    show gflush G qs (gflush1 G st q0) = st
    rw [this]; exact ih (fun q hq => h q (by simp [hq]))

/-- a program consisting of barriers only is crisp: the accumulators stay `I(q)` -/
theorem crispR_bars (atol : ℝ) (hatol : 0 < atol) (hpi : atol ≤ Real.pi) (S : Sem PQuat M (Stmt ℝ)) (n : ℕ)
    (prog : List (St (Rot ℝ) (Stmt ℝ))) (hbars : ∀ s ∈ prog, ∃ b, s = St.bar b) :
    ∀ out, CrispR atol S n ((fun q => defaultI atol q), out) prog := by
  have hid := defaultIsIdentity_real atol hatol hpi
  induction prog with
  | nil =>
    intro out q _
    show (finalRot atol (defaultI atol q)).op = (defaultI atol q).op
    rw [defaultI_real atol hatol hpi]; simp [finalRot]
  | cons s prog ih =>
    intro out
    obtain ⟨b, rfl⟩ := hbars s (by simp)
    have : gstep S (modelAlg atol Rot.op) ((fun q => defaultI atol q), out) (.bar b)
        = ((fun q => defaultI atol q), .bar b :: out) := by
      show ((gflush (modelAlg atol Rot.op) (S.touches b) ((fun q => defaultI atol q), out)).1,
        St.bar b :: (gflush (modelAlg atol Rot.op) (S.touches b) ((fun q => defaultI atol q), out)).2) = _
      rw [gflush_of_isId _ _ _ (fun q _ => hid q)]
    show CrispR atol S n (gstep S (modelAlg atol Rot.op) ((fun q => defaultI atol q), out) (.bar b)) prog
    rw [this]
    exact ih (fun s hs => hbars s (by simp [hs])) _

example : denS freeSemR Rot.op (merge (1 / 10 ^ 7 : ℝ) exCircR).1.stmts = denS freeSemR Rot.op exCircR.stmts := by
  have hpi := Real.two_le_pi
  have hatol : (0 : ℝ) < 1 / 10 ^ 7 := by norm_num
  have hle : (1 / 10 ^ 7 : ℝ) ≤ Real.pi := by norm_num; linarith
  refine merge_sem_real _ hatol hle freeSemR (fun _ => rfl) exCircR ?_ ?_ ?_
  · simp [OperandsInRange, exCircR, Stmt.qubits, inRange]
  · apply merge_no_error_of_no_bsr
    · simp [OperandsInRange, exCircR, Stmt.qubits, inRange]
    · simp [exCircR, Stmt.isBSR]
  · apply crispR_bars _ hatol hle
    intro s hs
    simp only [exCircR, List.map_cons, List.map_nil, List.mem_cons, List.not_mem_nil, or_false] at hs
    rcases hs with rfl | rfl
    · exact ⟨_, rfl⟩
    · exact ⟨_, rfl⟩

/-! #### A circuit with an actual composition: `X(π)` on qubit 0, then a measurement of qubit 0 -/

noncomputable def exU : Rot ℝ := ⟨0, (1, 0, 0), Real.pi, 0, none⟩

noncomputable def exCircR2 : Circuit ℝ :=
  { nQubits := 1, nBits := 1, stmts := [.gate (.bsr 0 (1, 0, 0) Real.pi 0) none, .measure 0 0 (0, 0, 1) none] }

theorem exU_unit : UnitVec exU.axis := by simp [UnitVec, exU]

section ex2
variable (atol : ℝ) (hatol : 0 < atol) (hpi : atol ≤ Real.pi / 4)
include hatol hpi

theorem ex2_cTheta : cTheta exU (defaultI atol 0) = Real.pi := by
  have hw : cW exU (defaultI atol 0) = 0 := by
    rw [defaultI_real atol hatol (by linarith [Real.pi_pos])]
    simp [cW, exU, Vec3.dot, Real.cos_pi_div_two]
  rw [cTheta, hw, Real.arccos_zero]; ring

theorem ex2_cAxis : cAxis exU (defaultI atol 0) = (1, 0, 0) := by
  unfold cAxis
  rw [ex2_cTheta atol hatol hpi, defaultI_real atol hatol (by linarith [Real.pi_pos])]
  simp [cVi, exU, Vec3.cross, Vec3.get, Real.cos_pi_div_two, Real.sin_pi_div_two]

theorem ex2_not_small : ¬ |Real.sin (cTheta exU (defaultI atol 0) / 2)| < atol := by
  rw [ex2_cTheta atol hatol hpi, Real.sin_pi_div_two, abs_one]
  have := Real.pi_le_four
  linarith

theorem ex2_pair : CrispPair atol exU (defaultI atol 0) := by
  refine ⟨by rw [defaultI_q]; rfl, exU_unit, fun h => absurd h (ex2_not_small atol hatol hpi), fun _ => ?_⟩
  rw [ex2_cAxis atol hatol hpi]
  have hph : exU.phase + (defaultI atol 0).phase = 0 := by
    rw [defaultI_real atol hatol (by linarith [Real.pi_pos])]; simp [exU]
  rw [hph]
  exact ⟨roundTo_exact _ 10000000 (by rw [s7_eq]; norm_num), roundTo_exact _ 0 (by simp),
    roundTo_exact _ 0 (by simp), roundTo_exact _ 0 (by simp)⟩

/-- the accumulator after absorbing `X(π)`: exists, is a half turn, does not test as identity -/
theorem ex2_acc : ∃ r, composeRot atol exU (defaultI atol 0) = .ok r ∧ r.isIdentity atol = false := by
  obtain ⟨hq, hu, hc, hr⟩ := ex2_pair atol hatol hpi
  have hdu : UnitVec (defaultI atol 0).axis := by
    rw [defaultI_real atol hatol (by linarith [Real.pi_pos])]; exact unitVec_x
  obtain ⟨r, hok⟩ := compose_ok_of_crisp atol hatol exU (defaultI atol 0) hu hdu hq
    (fun hs => ⟨(hr hs).1, (hr hs).2.1, (hr hs).2.2.1⟩)
  refine ⟨r, hok, ?_⟩
  obtain ⟨_, _, h | h⟩ := compose_crisp atol hatol exU (defaultI atol 0) r hu hdu hok hc hr
  · exact absurd h.1 (ex2_not_small atol hatol hpi)
  · have hang : r.angle = Real.pi := by
      rw [h.2.2.2.2.2.2.2, ex2_cTheta atol hatol hpi]
      exact normalizeAngle_of_mem atol _ hatol (by linarith [Real.pi_pos]) le_rfl
    have : ¬ |r.angle| < atol := by
      rw [hang, abs_of_pos Real.pi_pos]; linarith [Real.pi_pos]
    simp [Rot.isIdentity, this]

theorem ex2_crispR : CrispR atol freeSemR 1 ((fun q => defaultI atol q), [])
    (exCircR2.stmts.map absStmt) := by
  have hle : atol ≤ Real.pi := by linarith [Real.pi_pos]
  obtain ⟨r, hok, hnid⟩ := ex2_acc atol hatol hpi
  have hcomp : compTotal atol exU (defaultI atol 0) = r := compTotal_ok atol _ _ r hok
  show CrispR atol freeSemR 1 _ [St.rot 0 exU, St.bar (.measure 0 0 (0, 0, 1) none)]
  refine ⟨ex2_pair atol hatol hpi, ?_⟩
  have hst1 : gstep freeSemR (modelAlg atol Rot.op) ((fun q => defaultI atol q), []) (.rot 0 exU)
      = (update (fun q => defaultI atol q) 0 r, []) := by
    show (update (fun q => defaultI atol q) 0 (compTotal atol exU (defaultI atol 0)), _) = _
    rw [hcomp]
  rw [hst1]
  show CrispR atol freeSemR 1 (gstep freeSemR (modelAlg atol Rot.op) (update (fun q => defaultI atol q) 0 r, [])
    (.bar (.measure 0 0 (0, 0, 1) none))) []
  · have hst2 : gstep freeSemR (modelAlg atol Rot.op) (update (fun q => defaultI atol q) 0 r, [])
        (.bar (.measure 0 0 (0, 0, 1) none))
        = ((fun q => defaultI atol q), [.bar (.measure 0 0 (0, 0, 1) none), .rot 0 r]) := by
      show ((gflush (modelAlg atol Rot.op) [0] (update (fun q => defaultI atol q) 0 r, [])).1,
        St.bar _ :: (gflush (modelAlg atol Rot.op) [0] (update (fun q => defaultI atol q) 0 r, [])).2) = _
      have : gflush (modelAlg atol Rot.op) [0]
          ((update (fun q => defaultI atol q) 0 r, []) : GState (Rot ℝ) (Stmt ℝ))
          = ((fun q => defaultI atol q), [.rot 0 r]) := by
        show gflush1 (modelAlg atol Rot.op) _ 0 = _
        simp [gflush1, modelAlg, hnid]
      rw [this]
    rw [hst2]
    exact crispR_bars atol hatol hle freeSemR 1 [] (by simp) _

theorem ex2_no_error : (merge atol exCircR2).2 = none := by
  obtain ⟨r, hok, _⟩ := ex2_acc atol hatol hpi
  obtain ⟨hsz, hokA⟩ := initAccs_ok atol 1
  have hget : accGet? (Array.ofFn (n := 1) fun i => defaultI atol i.val) 0 = some (defaultI atol 0) := by
    simp [accGet?]
  have hrq : r.q = ((0 : Nat) : Int) := by rw [(composeRot_q atol _ _ _ hok).2]; rfl
  obtain ⟨accs', out', hf, _, _⟩ := flushOps_ok atol 1 [0] (by simp [inRange])
    ((Array.ofFn (n := 1) fun i => defaultI atol i.val).set! 0 r) [] (by simp) (hokA.set 0 r hrq)
  have h : mergeLoop atol (Array.ofFn (n := exCircR2.nQubits) fun i => defaultI atol i.val) [] exCircR2.stmts
      = .inr (accs', .measure 0 0 (0, 0, 1) none :: out') := by
    show mergeLoop atol (Array.ofFn (n := 1) fun i => defaultI atol i.val) []
      [.gate (.bsr 0 (1, 0, 0) Real.pi 0) none, .measure 0 0 (0, 0, 1) none] = _
    rw [mergeLoop_bsr_ok atol _ [] _ 0 (1, 0, 0) Real.pi 0 none (defaultI atol 0) r hget hok]
    show mergeLoop atol ((Array.ofFn (n := 1) fun i => defaultI atol i.val).set! 0 r) []
      [.measure 0 0 (0, 0, 1) none] = _
    rw [mergeLoop_nonBSR_ok atol _ [] [] (.measure 0 0 (0, 0, 1) none) rfl accs' out' hf, mergeLoop_nil]
  rw [merge_eq, h]

end ex2

/-- **`merge_sem_real` on a circuit that performs a composition** (`X(π)` then a measurement), `ATOL = 1e-7`. -/
example : denS freeSemR Rot.op (merge (1 / 10 ^ 7 : ℝ) exCircR2).1.stmts
    = denS freeSemR Rot.op exCircR2.stmts := by
  have hpi := Real.two_le_pi
  have hatol : (0 : ℝ) < 1 / 10 ^ 7 := by norm_num
  have h4 : (1 / 10 ^ 7 : ℝ) ≤ Real.pi / 4 := by norm_num; linarith
  refine merge_sem_real _ hatol (by linarith) freeSemR (fun _ => rfl) exCircR2 ?_
    (ex2_no_error _ hatol h4) (ex2_crispR _ hatol h4)
  simp [OperandsInRange, exCircR2, Stmt.qubits, Gate.operands, inRange]

/-- the structural theorems of `MergeReal` on the same circuit -/
example (atol : ℝ) (hatol : 0 < atol) (h4 : atol ≤ Real.pi / 4) :=
  merge_normal_form_real atol hatol h4 exCircR2 (ex2_no_error atol hatol h4)

#print axioms crispR_crisp
#print axioms merge_sem_real

end OSq
