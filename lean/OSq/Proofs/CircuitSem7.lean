import OSq.Proofs.CircuitSem6
/-
  OSq.Proofs.CircuitSem7 — the merge pass preserves the register-level meaning of the circuit under the *analytic*
  crisp hypotheses of `MergeSemReal` (`CrispR`: unit axes, honest identity tests, exact 7-decimal rounding, operator-
  preserving final renaming) instead of the abstract run-local hypothesis `MergeAbs.Crisp` of `merge_sem_global`.
  The missing link is the monoid morphism from quaternions modulo sign (`PQuat`, in which `Compose.compose_crisp_op`
  states `(composeRot a b).op = a.op * b.op`) to one-qubit operators modulo phase (`POp 1`).

  * `quatOp p : Op 1`        `w·1 − i (x σx + y σy + z σz)`;  `quatOp_mul`, `quatOp_one`, `quatOp_neg`
  * `quatHom : PQuat →* POp 1`
  * `quatHom_op`             `quatHom r.op = rotOp r`: the class of the quaternion of a rotation record is the class of
                             its operator `can1 axis angle phase` (the factor is `e^{i·phase}`)
  * `regSemQ n : Sem PQuat (MOp n) (Stmt ℝ)`   the register semantics with quaternion-valued rotations
  * `denS_regSemQ`           `denS (regSemQ n) Rot.op l = denS (regSem n) rotOp l`
  * `crispR_congr`           `CrispR` depends on the semantics only through `touches`
  * `merge_sem_global_real`  in-range operands, no exception, `0 < atol ≤ π`, `CrispR` ⇒
                             `CircEquiv n c.stmts (merge atol c).1.stmts ∧ SameBarriers c.stmts (merge atol c).1.stmts`
  * example                  the circuit `X(π) q0; measure q0` (one real composition, one flush) at `ATOL = 1e-7`
-/
open Matrix

namespace OSq
open MergeAbs

/-! ## One-qubit operators, entrywise -/

def i0 : Fin (2 ^ 1) := ⟨0, by decide⟩
def i1 : Fin (2 ^ 1) := ⟨1, by decide⟩

theorem op1_cases (r : Fin (2 ^ 1)) : r = i0 ∨ r = i1 := by
  have : r.val < 2 := r.isLt
  rcases Nat.lt_or_ge r.val 1 with h | h
  · left; apply Fin.ext; show r.val = 0; omega
  · right; apply Fin.ext; show r.val = 1; omega

theorem op1_mul_apply (A B : Op 1) (r c : Fin (2 ^ 1)) :
    (A * B) r c = A r i0 * B i0 c + A r i1 * B i1 c := by
  rw [Matrix.mul_apply]
  exact Fin.sum_univ_two (fun k : Fin 2 => A r k * B k c)

/-- the operator of a quaternion: `w·1 − i (x σx + y σy + z σz)` -/
noncomputable def quatOp (p : Quat) : Op 1 := fun r c =>
  if r.val = 0 then (if c.val = 0 then ⟨p.w, -p.z⟩ else ⟨-p.y, -p.x⟩)
  else (if c.val = 0 then ⟨p.y, -p.x⟩ else ⟨p.w, p.z⟩)

@[simp] theorem quatOp_00 (p : Quat) : quatOp p i0 i0 = ⟨p.w, -p.z⟩ := rfl
@[simp] theorem quatOp_01 (p : Quat) : quatOp p i0 i1 = ⟨-p.y, -p.x⟩ := rfl
@[simp] theorem quatOp_10 (p : Quat) : quatOp p i1 i0 = ⟨p.y, -p.x⟩ := rfl
@[simp] theorem quatOp_11 (p : Quat) : quatOp p i1 i1 = ⟨p.w, p.z⟩ := rfl

theorem quatOp_mul (p q : Quat) : quatOp (p * q) = quatOp p * quatOp q := by
  ext r c
  rw [op1_mul_apply]
  rcases op1_cases r with rfl | rfl <;> rcases op1_cases c with rfl | rfl <;>
    simp only [quatOp_00, quatOp_01, quatOp_10, quatOp_11, Quat.mul_def, Quat.mul] <;>
    apply Complex.ext <;> simp <;> ring

theorem quatOp_one : quatOp 1 = 1 := by
  ext r c
  rcases op1_cases r with rfl | rfl <;> rcases op1_cases c with rfl | rfl <;>
    simp only [quatOp_00, quatOp_01, quatOp_10, quatOp_11, Quat.one_def, Matrix.one_apply] <;>
    apply Complex.ext <;> simp [i0, i1]

theorem quatOp_neg (p : Quat) : quatOp (-p) = (-1 : ℂ) • quatOp p := by
  ext r c
  rcases op1_cases r with rfl | rfl <;> rcases op1_cases c with rfl | rfl <;>
    simp only [quatOp_00, quatOp_01, quatOp_10, quatOp_11, Quat.neg_def, Quat.neg, Matrix.smul_apply] <;>
    apply Complex.ext <;> simp

/-- quaternions modulo sign act as one-qubit operators modulo phase -/
noncomputable def quatHom : PQuat →* POp 1 where
  toFun := Quotient.lift (fun p => ((quatOp p : Op 1) : POp 1)) (by
    rintro p q (h | h)
    · rw [h]
    · show ((quatOp p : Op 1) : POp 1) = ((quatOp q : Op 1) : POp 1)
      rw [Con.eq, phaseCon_rel]
      exact ⟨-1, by simp, by rw [h, quatOp_neg]⟩)
  map_one' := by
    show ((quatOp 1 : Op 1) : POp 1) = 1
    rw [quatOp_one]; rfl
  map_mul' := by
    rintro ⟨a⟩ ⟨b⟩
    show ((quatOp (a * b) : Op 1) : POp 1) = ((quatOp a : Op 1) : POp 1) * ((quatOp b : Op 1) : POp 1)
    rw [quatOp_mul]; rfl

theorem quatHom_mk (p : Quat) : quatHom (PQuat.mk p) = ((quatOp p : Op 1) : POp 1) := rfl

/-- **the quaternion of a rotation record denotes its operator, up to the phase `e^{i·phase}`** -/
theorem quatHom_op (r : Rot ℝ) : quatHom r.op = rotOp r := by
  rw [Rot.op, quatHom_mk, rotOp, eq_comm, Con.eq, phaseCon_rel]
  refine ⟨Complex.exp (Complex.I * r.phase), ?_, ?_⟩
  · rw [mul_comm, Complex.norm_exp_ofReal_mul_I]
  · ext a b
    rw [gateOp_one_bsr, Sem.rot_eq]
    simp only [Rot.quat, quat]
    generalize Real.cos (r.angle / 2) = cθ
    generalize Real.sin (r.angle / 2) = sθ
    rcases op1_cases a with rfl | rfl <;> rcases op1_cases b with rfl | rfl <;>
      simp only [Matrix.smul_apply, quatOp_00, quatOp_01, quatOp_10, quatOp_11, smul_eq_mul] <;>
      congr 1 <;> simp [i0, i1] <;> apply Complex.ext <;> simp

/-! ## The register semantics with quaternion-valued rotations -/

noncomputable def regSemQ (n : Nat) : Sem PQuat (MOp n) (Stmt ℝ) where
  emb := fun q => (embP n q).comp quatHom
  den := denP n
  touches := fun s => s.qubits.map Int.toNat
  comm_emb := fun q q' a b h => (regSem n).comm_emb q q' (quatHom a) (quatHom b) h
  comm_den := fun q a b h => (regSem n).comm_den q (quatHom a) b h

theorem denS_regSemQ (n : Nat) (l : List (Stmt ℝ)) :
    denS (regSemQ n) Rot.op l = denS (regSem n) rotOp l := by
  induction l with
  | nil => rfl
  | cons s l ih =>
    simp only [denS, ih]
    congr 1
    cases s.rot? with
    | none => rfl
    | some r =>
      show (embP n r.q.toNat) (quatHom r.op) = (embP n r.q.toNat) (rotOp r)
      rw [quatHom_op]

/-- `CrispR` depends on the semantics only through `touches` -/
theorem crispR_congr {M M' : Type} [Monoid M] [Monoid M'] (atol : ℝ) (S : Sem PQuat M (Stmt ℝ))
    (S' : Sem PQuat M' (Stmt ℝ)) (ht : ∀ b, S.touches b = S'.touches b) (n : ℕ)
    (prog : List (St (Rot ℝ) (Stmt ℝ))) :
    ∀ st, CrispR atol S n st prog → CrispR atol S' n st prog := by
  have hstep : ∀ st s, gstep S (modelAlg atol Rot.op) st s = gstep S' (modelAlg atol Rot.op) st s := by
    intro st s
    cases s with
    | rot q u => rfl
    | bar b => simp only [gstep, ht]
  induction prog with
  | nil => intro st h; exact h
  | cons s prog ih =>
    intro st h
    cases s with
    | rot q u => exact ⟨h.1, by rw [← hstep]; exact ih _ h.2⟩
    | bar b =>
      show CrispR atol S' n (gstep S' (modelAlg atol Rot.op) st (.bar b)) prog
      rw [← hstep]
      exact ih _ h

/-- **The merge pass preserves the meaning of the circuit** (register level, one global phase for every
    combination of measurement and reset outcomes) under the analytic crisp hypotheses `CrispR` along the run. -/
theorem merge_sem_global_real (atol : ℝ) (hatol : 0 < atol) (hpi : atol ≤ Real.pi) (c : Circuit ℝ)
    (hr : OperandsInRange c.nQubits c.stmts) (hne : (merge atol c).2 = none)
    (hc : CrispR atol (regSemQ c.nQubits) c.nQubits ((fun q => defaultI atol q), [])
      (c.stmts.map absStmt)) :
    CircEquiv c.nQubits c.stmts (merge atol c).1.stmts ∧ SameBarriers c.stmts (merge atol c).1.stmts := by
  have hsb := merge_sameBarriers atol c
  refine ⟨?_, hsb.symm⟩
  have h := merge_sem_real atol hatol hpi (regSemQ c.nQubits) (fun _ => rfl) c hr hne hc
  rw [denS_regSemQ, denS_regSemQ, denS_regSem _ _ (merge_output_inReg atol c hr hne),
    denS_regSem _ _ (fun s hs => inRegSem_of_inRange _ s (hr s hs))] at h
  exact ((stCirc_equiv_iff _ _ _ hsb.nOutcomes).mp h).symm

/-! ## Non-vacuity: a circuit that performs a composition and a flush -/

/-- `X(π) q0; measure q0` at `ATOL = 1e-7`: the merged circuit implements the same operation up to one global
    phase for both measurement outcomes. -/
example : CircEquiv 1 exCircR2.stmts (merge (1 / 10 ^ 7 : ℝ) exCircR2).1.stmts ∧
    SameBarriers exCircR2.stmts (merge (1 / 10 ^ 7 : ℝ) exCircR2).1.stmts := by
  have hpi := Real.two_le_pi
  have hatol : (0 : ℝ) < 1 / 10 ^ 7 := by norm_num
  have h4 : (1 / 10 ^ 7 : ℝ) ≤ Real.pi / 4 := by norm_num; linarith
  refine merge_sem_global_real _ hatol (by linarith) exCircR2 ?_ (ex2_no_error _ hatol h4) ?_
  · simp [OperandsInRange, exCircR2, Stmt.qubits, Gate.operands, inRange]
  · exact crispR_congr _ freeSemR (regSemQ 1) (fun _ => rfl) 1 _ _ (ex2_crispR _ hatol h4)

end OSq

#print axioms OSq.quatOp_mul
#print axioms OSq.quatHom_op
#print axioms OSq.denS_regSemQ
#print axioms OSq.crispR_congr
#print axioms OSq.merge_sem_global_real
