import OSq.Proofs.Construct
import OSq.Proofs.Expander
import Mathlib.Analysis.Complex.Norm
import Mathlib.Tactic.NormNum
import Mathlib.Tactic.Linarith

/-
  OSq.Proofs.Equality — gate equality (`OSq/Model/Matrix.lean`: `argmaxAbs`, `equivPhase`, `bsrEq`, `gateEq`,
  `compareGates`, `compareGatesWith`; Python `common.are_matrices_equivalent_up_to_global_phase`,
  `BlochSphereRotation.__eq__`, `ir.compare_gates`) at `α := ℝ`.
  Properties C16 ("gate equality = equality of operations up to global phase; reflexive and symmetric; never
  equates different operations") and C17 ("the enumeration of the union of qubits in `compare_gates` does not
  influence the result").

  Vocabulary
  * `Mat.flat m k`          the `k`-th stored entry (row major) as a Mathlib complex number; `Mat.absAt m k` its modulus
  * `PhaseEq n a b`         `∃ z : ℂ, ‖z‖ = 1 ∧ ∀ i j < n, a[i,j] = z · b[i,j]`

  Bridges
  * `Cx.abs_real`           `Cx.abs z = ‖z.toC‖`;   `Cx.toC_div`: `Cx.div` is complex division
  argmaxAbs
  * `amFold_spec`           (any linear order) invariant of the arg-max loop
  * `argmaxAbs_spec`        for `0 < m.n`: the result is `< n·n`, its entry has maximal modulus, and it is the first such
  * `argmaxAbs_max`         the arg-max entry dominates every stored entry (any size)
  equivPhase
  * `pivotPhase a b`        the measured phase `w/‖w‖`, `w = a_l/b_l` (normalised: the Python code divides by `abs`);
                            `pivotPhase_norm` (modulus one for non-zero pivots), `pivotPhase_of_unit`
  * `equivPhase_iff`        the test in Mathlib vocabulary
  * `equivPhase_complete_exact(')`  `PhaseEq n a b` + largest entry of `a` has modulus `≥ atol` ⇒ accepted
  * `equivPhase_sound`, `equivPhase_sound_unit`, `equivPhase_sound_get`  accepted ⇒ `z = pivotPhase a b` is a UNIT
                            (`‖z‖ = 1`), `|a_k − z b_k| ≤ atol + 1e-5·|z b_k|` (`= atol + 1e-5·|b_k|`) ∀ k
  * `equivPhase_crisp`, `equivPhase_crisp_phaseEq`  accepted + honest closeness tests ⇒ `a = z·b` exactly, `‖z‖ = 1`
  bsrEq
  * `close2_iff`, `isScalar2_iff`   the two `np.allclose` tests in terms of `rot` entries
  * `bsrEq_iff`, `bsrEq_sound`   accepted ⇔ (same qubit ∨ first operator scalar to tolerance) and the operators `rot`
                            are entrywise close *including phase*
  * `bsrEq_complete_exact` (same qubit), `bsrEq_complete_exact_diff` (any qubits, both operators the same `c•1`),
    `isScalar2_of_smul_one`, `bsrEq_diff_qubit_sound_exact` (crisp: accepted on different qubits ⇒ both are the
    same `c•1`), `bsrEq_refl`, `bsrEq_symm_exact`, `bsrEq_symm_exact_diff`,
    `bsrEq_ne_qubit` (different qubits and not scalar ⇒ rejected), `isScalar2_X_false`
  * `rot_X_two_reps` + example: `X` as (x, π, π/2) and as (−x, π, −π/2) are equal for `bsrEq`
  Re-indexing, local matrix of one gate (generic in `α` unless stated)
  * `indexOf?_eq`, `Gate.pos idx g` (operands ↦ positions in `idx`), `reindexGate_eq`: re-indexing succeeds iff every
    operand is listed and then yields `g.pos idx`, else `ValueError`;  `Gate.pos_operands/_inReg/_dimOk`
  * `localMatrix_single`, `localMatrix_single_ok_iff` (exists iff operands listed ∧ `dimOk`),
    `localMatrix_single_error` (else `ValueError`), `localMatrix_single_spec` (ℝ): it is `denote k (g.pos idx)`
  * `mem_dedup`, `dedup_nodup`, `dedup_append_perm`
  Order independence (C17)
  * `ketPerm idx idx'`      the bit permutation `π` of ket indices; `ketPerm_lt`, `ketPerm_testBit`, `ketPerm_inj`,
                            `ketPerm_inv` (bijection of `[0, 2^k)`), `agreeOff_ketPerm`, `subIdx_ketPerm`
  * `denote_pos_perm`       (any `α`) `denote k (g.pos idx') (π r) (π c) = denote k (g.pos idx) r c`
  * `localMatrix_perm`      (ℝ) `A'[π r, π c] = A[r, c]`: the two local matrices are conjugate by the basis permutation
  * `localMatrix_perm_ok`, `compareGatesWith_error_perm`   success / the error do not depend on the enumeration
  * `PhaseEq.refl/.symm/.trans`, `PhaseEq.of_relabel`, `phaseEq_localMatrix_perm`
  * `compareGatesWith_exact`, `compareGatesWith_perm_exact`   exact-level verdict `ok true` for every enumeration
    REMARK (tolerance level): the entries compared are the same multiset of pairs for every enumeration, but the
    pivot `l = argmaxAbs a` is the *first* entry of maximal modulus, so with ties (e.g. CNOT: all entries 0/1) the
    phase estimate `z = (a_l/b_l)/|a_l/b_l|` may be taken at different entries for different enumerations; the verdicts can then
    differ only for inputs within the tolerance band.  At the exact level (`PhaseEq`) there is no dependence.
  Reflexivity / symmetry (C16)
  * `compareGates_refl_exact`, `gateEq_refl_bsr`, `gateEq_refl_exact`, `localMatrix_ctrl_big` (a controlled gate has
    the entry 1, so the modulus hypothesis holds for `atol ≤ 1`)
  * `compareGates_symm_exact`  `PhaseEq` on the union ⇒ both `compare_gates(g1,g2)` and `compare_gates(g2,g1)` are `True`
  * `compareGates_sound`       `compare_gates = True` ⇒ the textbook operators (`denote` of the re-indexed gates) agree up
                               to one unit factor `z` (`‖z‖ = 1`) within `atol + 1e-5·|z·entry|` (never equates
                               different operations)
  * `gateEq_eq_compareGates`   `Gate.__eq__` is `compare_gates` unless both gates are plain rotations
  * `equivPhase_reverse_bound` the tolerance version is asymmetric only through the `rtol·|z b|` term (and the pivot)
  NOTE: `Gate.__eq__` on two plain rotations (`bsrEq`) compares operators *including* the global phase (on different
  qubits it accepts only two rotations that are the same multiple of the identity, to tolerance), every other pair
  goes through `compare_gates`, which ignores the phase; both mirror the Python source.
-/

namespace OSq
open Sem

/-! ## Bridges at `ℝ` -/

/-- `Cx.abs` at `ℝ` is the modulus of the corresponding Mathlib complex number. -/
theorem Cx.abs_real (z : Cx ℝ) : Cx.abs z = ‖z.toC‖ := by
  simp only [Cx.abs, Cx.normSq, trig_sqrt_real, Complex.norm_def, Complex.normSq_apply, Cx.toC_re,
    Cx.toC_im]

/-- `Cx.div` at `ℝ` is complex division (also for a zero divisor: both sides are `0`). -/
theorem Cx.toC_div (a b : Cx ℝ) : (Cx.div a b).toC = a.toC / b.toC := by
  apply Complex.ext
  · simp only [Cx.div, Cx.normSq, Cx.toC_re, Complex.div_re, Complex.normSq_apply, Cx.toC_im]
    ring
  · simp only [Cx.div, Cx.normSq, Cx.toC_im, Complex.div_im, Complex.normSq_apply, Cx.toC_re]
    ring

/-- the relative tolerance literal of the model at `ℝ` -/
theorem rtol_real : ((1e-5 : ℝ)) = 1 / 100000 := by norm_num

theorem rtol_real_nonneg : (0 : ℝ) ≤ (1e-5 : ℝ) := by norm_num

/-! ## `argmaxAbs` -/

section argmax
variable {β : Type} [LinearOrder β]

/-- the loop body of `argmaxAbs` for an abstract value function -/
def amStep (v : Nat → β) (best : Nat × β) (k : Nat) : Nat × β :=
  if best.2 < v k then (k, v k) else best

/-- invariant of the arg-max loop: the running best is an index of a maximal value, the first such. -/
theorem amFold_spec (v : Nat → β) (N : Nat) :
    ((List.range N).foldl (amStep v) (0, v 0)).2 = v ((List.range N).foldl (amStep v) (0, v 0)).1 ∧
    (((List.range N).foldl (amStep v) (0, v 0)).1 < N ∨ ((List.range N).foldl (amStep v) (0, v 0)).1 = 0) ∧
    (∀ k, k < N → v k ≤ v ((List.range N).foldl (amStep v) (0, v 0)).1) ∧
    (∀ k, k < ((List.range N).foldl (amStep v) (0, v 0)).1 →
      v k < v ((List.range N).foldl (amStep v) (0, v 0)).1) := by
  induction N with
  | zero => simp
  | succ N ih =>
    rw [List.range_succ, List.foldl_append, List.foldl_cons, List.foldl_nil]
    obtain ⟨h1, h2, h3, h4⟩ := ih
    generalize (List.range N).foldl (amStep v) (0, v 0) = r at *
    unfold amStep
    split_ifs with h
    · rw [h1] at h
      refine ⟨rfl, Or.inl (Nat.lt_succ_self N), ?_, ?_⟩
      · intro k hk
        rcases Nat.lt_succ_iff_lt_or_eq.mp hk with hk | rfl
        · exact le_of_lt (lt_of_le_of_lt (h3 k hk) h)
        · exact le_refl _
      · intro k hk
        exact lt_of_le_of_lt (h3 k hk) h
    · rw [h1] at h
      refine ⟨h1, ?_, ?_, h4⟩
      · rcases h2 with h2 | h2
        · exact Or.inl (Nat.lt_succ_of_lt h2)
        · exact Or.inr h2
      · intro k hk
        rcases Nat.lt_succ_iff_lt_or_eq.mp hk with hk | rfl
        · exact h3 k hk
        · exact not_lt.mp h
end argmax

/-- modulus of the `k`-th stored entry -/
noncomputable def Mat.absAt (m : Mat ℝ) (k : Nat) : ℝ := Cx.abs (m.d.getD k Cx.zero)

theorem argmaxAbs_eq_fold (m : Mat ℝ) :
    argmaxAbs m = ((List.range (m.n * m.n)).foldl (amStep m.absAt) (0, m.absAt 0)).1 := by
  unfold argmaxAbs
  congr 2

/-- **`argmaxAbs`** (`np.argmax(np.abs(m))`): for a non-empty matrix the result is a valid flat index whose
    entry has maximal modulus, and it is the first such index. -/
theorem argmaxAbs_spec (m : Mat ℝ) (hn : 0 < m.n) :
    argmaxAbs m < m.n * m.n ∧
    (∀ k, k < m.n * m.n → m.absAt k ≤ m.absAt (argmaxAbs m)) ∧
    (∀ k, k < argmaxAbs m → m.absAt k < m.absAt (argmaxAbs m)) := by
  rw [argmaxAbs_eq_fold]
  obtain ⟨_, h2, h3, h4⟩ := amFold_spec m.absAt (m.n * m.n)
  refine ⟨?_, h3, h4⟩
  rcases h2 with h2 | h2
  · exact h2
  · rw [h2]; exact Nat.mul_pos hn hn

/-- whatever the size, the arg-max entry dominates every stored entry -/
theorem argmaxAbs_max (m : Mat ℝ) (k : Nat) (hk : k < m.n * m.n) :
    m.absAt k ≤ m.absAt (argmaxAbs m) := by
  rw [argmaxAbs_eq_fold]
  exact (amFold_spec m.absAt (m.n * m.n)).2.2.1 k hk

/-! ## `equivPhase` -/

/-- equality of two `n × n` model matrices up to a global phase (a complex number of modulus one) -/
def PhaseEq (n : Nat) (a b : Mat ℝ) : Prop :=
  ∃ z : ℂ, ‖z‖ = 1 ∧ ∀ i j, i < n → j < n → (a.get i j).toC = z * (b.get i j).toC

/-- the `k`-th stored entry (row-major) as a Mathlib complex number -/
noncomputable def Mat.flat (m : Mat ℝ) (k : Nat) : ℂ := (m.d.getD k Cx.zero).toC

theorem Mat.absAt_eq (m : Mat ℝ) (k : Nat) : m.absAt k = ‖m.flat k‖ := Cx.abs_real _

theorem Mat.get_eq_flat (m : Mat ℝ) {n : Nat} (hn : m.n = n) (i j : Nat) :
    (m.get i j).toC = m.flat (i * n + j) := by subst hn; rfl

theorem Mat.flat_eq_get (m : Mat ℝ) {n : Nat} (hn : m.n = n) (k : Nat) :
    m.flat k = (m.get (k / n) (k % n)).toC := by
  rw [Mat.get_eq_flat m hn, Nat.div_add_mod']

/-- **the phase measured by `equivPhase`** (after the repair of the Python code: normalised to modulus one):
    with `l = argmaxAbs a` and `w = a_l / b_l`, it is `w / ‖w‖`. -/
noncomputable def pivotPhase (a b : Mat ℝ) : ℂ :=
  a.flat (argmaxAbs a) / b.flat (argmaxAbs a) /
    ((‖a.flat (argmaxAbs a) / b.flat (argmaxAbs a)‖ : ℝ) : ℂ)

/-- a unit complex number is not zero -/
theorem ne_zero_of_norm_one {z : ℂ} (hz : ‖z‖ = 1) : z ≠ 0 := by
  intro h0; rw [h0, norm_zero] at hz; exact zero_ne_one hz

/-- the inverse of a unit complex number is a unit -/
theorem norm_inv_of_norm_one {z : ℂ} (hz : ‖z‖ = 1) : ‖z⁻¹‖ = 1 := by
  rw [norm_inv, hz, inv_one]

/-- a non-zero complex number divided by its modulus has modulus one -/
theorem norm_div_norm_self {w : ℂ} (hw : w ≠ 0) : ‖w / ((‖w‖ : ℝ) : ℂ)‖ = 1 := by
  rw [norm_div, Complex.norm_real, norm_norm, div_self (norm_ne_zero_iff.mpr hw)]

/-- a unit complex number is its own direction -/
theorem div_norm_self_of_unit {z : ℂ} (hz : ‖z‖ = 1) : z / ((‖z‖ : ℝ) : ℂ) = z := by
  rw [hz, Complex.ofReal_one, div_one]

/-- **the measured phase has modulus one** as soon as both pivot entries are non-zero (which the two pivot tests
    of `equivPhase` guarantee for `0 < atol`) -/
theorem pivotPhase_norm (a b : Mat ℝ) (ha : a.flat (argmaxAbs a) ≠ 0) (hb : b.flat (argmaxAbs a) ≠ 0) :
    ‖pivotPhase a b‖ = 1 :=
  norm_div_norm_self (div_ne_zero ha hb)

/-- the measured phase when the pivot quotient is already a unit -/
theorem pivotPhase_of_unit (a b : Mat ℝ) {z : ℂ} (hz : ‖z‖ = 1)
    (h : a.flat (argmaxAbs a) / b.flat (argmaxAbs a) = z) : pivotPhase a b = z := by
  unfold pivotPhase
  rw [h]
  exact div_norm_self_of_unit hz

/-- `equivPhase` at `ℝ`, in Mathlib vocabulary: with `l = argmaxAbs a` and `z = pivotPhase a b = w/‖w‖`,
    `w = a_l / b_l`, the test is `|a_l| ≥ atol`, `|b_l| ≥ atol` and `|a_k − z·b_k| ≤ atol + 1e-5·|z·b_k|` for every
    stored entry. -/
theorem equivPhase_iff (atol : ℝ) (a b : Mat ℝ) :
    equivPhase atol a b = true ↔
      ¬ (‖a.flat (argmaxAbs a)‖ < atol) ∧ ¬ (‖b.flat (argmaxAbs a)‖ < atol) ∧
      ∀ k, k < a.n * a.n →
        ‖a.flat k - pivotPhase a b * b.flat k‖ ≤ atol + 1e-5 * ‖pivotPhase a b * b.flat k‖ := by
  unfold equivPhase pivotPhase
  simp only [Cx.abs_real, Cx.toC_sub, Cx.toC_mul, Cx.toC_div, Cx.toC_ofReal, Mat.flat]
  split_ifs with h
  · constructor
    · intro h'; cases h'
    · rintro ⟨h1, h2, -⟩
      rcases h with h | h
      · exact absurd h h1
      · exact absurd h h2
  · rw [not_or] at h
    rw [List.all_eq_true]
    constructor
    · intro H
      refine ⟨h.1, h.2, ?_⟩
      intro k hk
      have := H k (List.mem_range.mpr hk)
      simpa only [decide_eq_true_eq] using this
    · rintro ⟨-, -, H⟩ k hk
      have := H k (List.mem_range.mp hk)
      simpa only [decide_eq_true_eq] using this

/-- **Completeness for exact equality.**  If `a = z·b` entrywise for a unit complex `z` and the largest entry
    of `a` has modulus at least `atol`, the test accepts (for every positive tolerance). -/
theorem equivPhase_complete_exact (atol : ℝ) (hatol : 0 < atol) (n : Nat) (hn : 0 < n) (a b : Mat ℝ)
    (ha : a.n = n) (hb : b.n = n)
    (hbig : atol ≤ Cx.abs (a.d.getD (argmaxAbs a) Cx.zero)) (hpe : PhaseEq n a b) :
    equivPhase atol a b = true := by
  obtain ⟨z, hz, hab⟩ := hpe
  have hflat : ∀ k, k < n * n → a.flat k = z * b.flat k := by
    intro k hk
    rw [Mat.flat_eq_get a ha, Mat.flat_eq_get b hb]
    exact hab _ _ ((Nat.div_lt_iff_lt_mul hn).mpr hk) (Nat.mod_lt _ hn)
  have hl : argmaxAbs a < n * n := by
    have := (argmaxAbs_spec a (by omega)).1
    rwa [ha] at this
  rw [Cx.abs_real] at hbig
  change atol ≤ ‖a.flat (argmaxAbs a)‖ at hbig
  have hnorm : ‖a.flat (argmaxAbs a)‖ = ‖b.flat (argmaxAbs a)‖ := by
    rw [hflat _ hl, norm_mul, hz, one_mul]
  have hb0 : b.flat (argmaxAbs a) ≠ 0 := by
    intro h0
    rw [h0, norm_zero] at hnorm
    linarith
  have hph : pivotPhase a b = z := by
    apply pivotPhase_of_unit a b hz
    rw [hflat _ hl, mul_div_assoc, div_self hb0, mul_one]
  rw [equivPhase_iff]
  refine ⟨not_lt.mpr hbig, not_lt.mpr (hnorm ▸ hbig), ?_⟩
  intro k hk
  rw [ha] at hk
  rw [hph, hflat k hk, sub_self, norm_zero]
  have : (0 : ℝ) ≤ 1e-5 * ‖z * b.flat k‖ := mul_nonneg rtol_real_nonneg (norm_nonneg _)
  linarith

/-- **Soundness with tolerance.**  If the test accepts, then with `l = argmaxAbs a` the measured phase
    `z = pivotPhase a b = w/‖w‖` (`w = a_l / b_l`) is a **unit** complex number, both `|a_l|, |b_l| ≥ atol`, and every
    stored entry satisfies `|a_k − z·b_k| ≤ atol + 1e-5·|z·b_k|` (`= atol + 1e-5·|b_k|`).  In particular a matrix
    that is a mere multiple of the other (`a = 2·b`) is no longer accepted: `scalar_multiple_rejected` in
    `DecomposeBand3.lean`. -/
theorem equivPhase_sound (atol : ℝ) (hatol : 0 < atol) (a b : Mat ℝ) (h : equivPhase atol a b = true) :
    ∃ z : ℂ, ‖z‖ = 1 ∧ z = pivotPhase a b ∧
      atol ≤ ‖a.flat (argmaxAbs a)‖ ∧ atol ≤ ‖b.flat (argmaxAbs a)‖ ∧
      ∀ k, k < a.n * a.n → ‖a.flat k - z * b.flat k‖ ≤ atol + 1e-5 * ‖z * b.flat k‖ := by
  obtain ⟨h1, h2, h3⟩ := (equivPhase_iff atol a b).mp h
  have h1' := not_lt.mp h1
  have h2' := not_lt.mp h2
  refine ⟨_, ?_, rfl, h1', h2', h3⟩
  apply pivotPhase_norm
  · intro h0; rw [h0, norm_zero] at h1'; linarith
  · intro h0; rw [h0, norm_zero] at h2'; linarith

/-- the same with the relative term simplified by `‖z‖ = 1` -/
theorem equivPhase_sound_unit (atol : ℝ) (hatol : 0 < atol) (a b : Mat ℝ) (h : equivPhase atol a b = true) :
    ∃ z : ℂ, ‖z‖ = 1 ∧ z = pivotPhase a b ∧
      atol ≤ ‖a.flat (argmaxAbs a)‖ ∧ atol ≤ ‖b.flat (argmaxAbs a)‖ ∧
      ∀ k, k < a.n * a.n → ‖a.flat k - z * b.flat k‖ ≤ atol + 1e-5 * ‖b.flat k‖ := by
  obtain ⟨z, hz, hdef, h1, h2, H⟩ := equivPhase_sound atol hatol a b h
  refine ⟨z, hz, hdef, h1, h2, ?_⟩
  intro k hk
  have := H k hk
  rwa [norm_mul, hz, one_mul] at this

/-- the same through `Mat.get`, for two matrices of the same dimension `n` -/
theorem equivPhase_sound_get (atol : ℝ) (hatol : 0 < atol) (n : Nat) (a b : Mat ℝ) (ha : a.n = n)
    (hb : b.n = n) (h : equivPhase atol a b = true) :
    ∃ z : ℂ, ‖z‖ = 1 ∧ ∀ i j, i < n → j < n →
      ‖(a.get i j).toC - z * (b.get i j).toC‖ ≤ atol + 1e-5 * ‖z * (b.get i j).toC‖ := by
  obtain ⟨z, hz, -, -, -, H⟩ := equivPhase_sound atol hatol a b h
  refine ⟨z, hz, ?_⟩
  intro i j hi hj
  rw [Mat.get_eq_flat a ha, Mat.get_eq_flat b hb]
  apply H
  rw [ha]
  exact Mat.index_lt hi hj

/-- **Exactness under a crisp tolerance test**: if the test accepts and every closeness test it made is
    honest (`|a_k − z·b_k| ≤ atol + … ` only when `a_k = z·b_k`), the two matrices are equal up to the
    **unit** complex factor `z = pivotPhase a b`: a genuine global phase. -/
theorem equivPhase_crisp (atol : ℝ) (hatol : 0 < atol) (n : Nat) (a b : Mat ℝ) (ha : a.n = n) (hb : b.n = n)
    (h : equivPhase atol a b = true)
    (hcrisp : ∀ k, k < n * n →
      ‖a.flat k - pivotPhase a b * b.flat k‖ ≤ atol + 1e-5 * ‖pivotPhase a b * b.flat k‖ →
      a.flat k = pivotPhase a b * b.flat k) :
    ∃ z : ℂ, ‖z‖ = 1 ∧ ∀ i j, i < n → j < n → (a.get i j).toC = z * (b.get i j).toC := by
  obtain ⟨z, hz, hzdef, -, -, H⟩ := equivPhase_sound atol hatol a b h
  refine ⟨z, hz, ?_⟩
  intro i j hi hj
  rw [Mat.get_eq_flat a ha, Mat.get_eq_flat b hb, hzdef]
  have hk := Mat.index_lt hi hj
  apply hcrisp _ hk
  rw [← hzdef]
  exact H _ (by rw [ha]; exact hk)

/-- hence under crisp tests acceptance *is* equality up to a global phase -/
theorem equivPhase_crisp_phaseEq (atol : ℝ) (hatol : 0 < atol) (n : Nat) (a b : Mat ℝ) (ha : a.n = n)
    (hb : b.n = n) (h : equivPhase atol a b = true)
    (hcrisp : ∀ k, k < n * n →
      ‖a.flat k - pivotPhase a b * b.flat k‖ ≤ atol + 1e-5 * ‖pivotPhase a b * b.flat k‖ →
      a.flat k = pivotPhase a b * b.flat k) : PhaseEq n a b :=
  equivPhase_crisp atol hatol n a b ha hb h hcrisp

/-- the modulus hypothesis in a form that does not mention the arg-max: some stored entry is `≥ atol` -/
theorem big_of_exists (atol : ℝ) (a : Mat ℝ) (h : ∃ k, k < a.n * a.n ∧ atol ≤ ‖a.flat k‖) :
    atol ≤ Cx.abs (a.d.getD (argmaxAbs a) Cx.zero) := by
  obtain ⟨k, hk, hle⟩ := h
  have := argmaxAbs_max a k hk
  rw [Mat.absAt_eq] at this
  exact le_trans hle this

theorem equivPhase_complete_exact' (atol : ℝ) (hatol : 0 < atol) (n : Nat) (hn : 0 < n) (a b : Mat ℝ)
    (ha : a.n = n) (hb : b.n = n) (hbig : ∃ i j, i < n ∧ j < n ∧ atol ≤ ‖(a.get i j).toC‖)
    (hpe : PhaseEq n a b) : equivPhase atol a b = true := by
  apply equivPhase_complete_exact atol hatol n hn a b ha hb _ hpe
  obtain ⟨i, j, hi, hj, h⟩ := hbig
  apply big_of_exists
  refine ⟨i * n + j, by rw [ha]; exact Mat.index_lt hi hj, ?_⟩
  rwa [← Mat.get_eq_flat a ha]

/-- non-vacuity: `e^{iθ}·I₂` against `I₂`, any tolerance in `(0, 1]` -/
example (θ atol : ℝ) (h0 : 0 < atol) (h1 : atol ≤ 1) :
    equivPhase atol (Mat.smul (Cx.expI θ) (Mat.identity 2)) (Mat.identity 2) = true := by
  have hz : ‖Complex.exp (Complex.I * θ)‖ = 1 := by
    rw [mul_comm]; exact Complex.norm_exp_ofReal_mul_I θ
  apply equivPhase_complete_exact' atol h0 2 (by decide) _ _ rfl rfl
  · refine ⟨0, 0, by decide, by decide, ?_⟩
    rw [Mat.get_smul _ _ (by decide) (by decide), Mat.get_identity (by decide) (by decide)]
    simp only [if_true, Cx.toC_mul, Cx.toC_expI, Cx.toC_one, mul_one, hz]
    exact h1
  · refine ⟨Complex.exp (Complex.I * θ), hz, ?_⟩
    intro i j hi hj
    rw [Mat.get_smul _ _ hi hj, Cx.toC_mul, Cx.toC_expI]

/-- non-vacuity of soundness on the same pair -/
example (θ : ℝ) : ∃ z : ℂ, ‖z‖ = 1 ∧ ∀ i j, i < 2 → j < 2 →
    ‖((Mat.smul (Cx.expI θ) (Mat.identity 2) : Mat ℝ).get i j).toC - z * ((Mat.identity 2 : Mat ℝ).get i j).toC‖
      ≤ 1e-7 + 1e-5 * ‖z * ((Mat.identity 2 : Mat ℝ).get i j).toC‖ := by
  apply equivPhase_sound_get (1e-7) (by norm_num) 2 _ _ rfl rfl
  have hz : ‖Complex.exp (Complex.I * θ)‖ = 1 := by
    rw [mul_comm]; exact Complex.norm_exp_ofReal_mul_I θ
  apply equivPhase_complete_exact' _ (by norm_num) 2 (by decide) _ _ rfl rfl
  · refine ⟨0, 0, by decide, by decide, ?_⟩
    rw [Mat.get_smul _ _ (by decide) (by decide), Mat.get_identity (by decide) (by decide)]
    simp only [if_true, Cx.toC_mul, Cx.toC_expI, Cx.toC_one, mul_one, hz]
    norm_num
  · refine ⟨Complex.exp (Complex.I * θ), hz, ?_⟩
    intro i j hi hj
    rw [Mat.get_smul _ _ hi hj, Cx.toC_mul, Cx.toC_expI]

/-! ## `bsrEq` (`BlochSphereRotation.__eq__`) -/

theorem can1_flat (ax : Vec3 ℝ) (an ph : ℝ) (k : Nat) (hk : k < 4) :
    ((can1 ax an ph).d.getD k Cx.zero).toC
      = rot ax an ph ⟨k / 2, by omega⟩ ⟨k % 2, by omega⟩ := by
  have := Mat.flat_eq_get (can1 ax an ph) (n := 2) rfl k
  unfold Mat.flat at this
  rw [this]
  exact can1_get ax an ph ⟨k / 2, by omega⟩ ⟨k % 2, by omega⟩

/-- `close2` (`np.allclose` of two 2×2 operators) entrywise, in Mathlib vocabulary -/
theorem close2_iff (atol : ℝ) (a b : Mat ℝ) (ha : a.n = 2) (hb : b.n = 2) :
    close2 atol a b = true ↔ ∀ i j : Fin 2,
      ‖(a.get i j).toC - (b.get i j).toC‖ ≤ atol + 1e-5 * ‖(b.get i j).toC‖ := by
  unfold close2
  simp only [List.all_eq_true, List.mem_range, decide_eq_true_eq, Cx.abs_real, Cx.toC_sub]
  constructor
  · intro H i j
    have hk : i.val * 2 + j.val < 4 := by have := i.isLt; have := j.isLt; omega
    have := H _ hk
    rwa [← Mat.flat, ← Mat.flat, ← Mat.get_eq_flat a ha, ← Mat.get_eq_flat b hb] at this
  · intro H k hk
    have := H ⟨k / 2, by omega⟩ ⟨k % 2, by omega⟩
    rwa [← Mat.flat_eq_get a ha, ← Mat.flat_eq_get b hb] at this

/-- **`isScalar2`** (`np.allclose(m, m[0,0]·eye(2))`) on a rotation operator, through the textbook operator `rot` -/
theorem isScalar2_iff (atol : ℝ) (ax : Vec3 ℝ) (an ph : ℝ) :
    isScalar2 atol (can1 ax an ph) = true ↔ ∀ i j : Fin 2,
      ‖rot ax an ph i j - (if i = j then rot ax an ph 0 0 else 0)‖
        ≤ atol + 1e-5 * ‖(if i = j then rot ax an ph 0 0 else 0)‖ := by
  unfold isScalar2
  rw [close2_iff atol _ _ rfl rfl]
  have h00 : ((can1 ax an ph).get 0 0).toC = rot ax an ph 0 0 := can1_get ax an ph 0 0
  have key : ∀ i j : Fin 2,
      ((Mat.ofFn 2 fun i j => if i = j then (can1 ax an ph).get 0 0
          else (can1 ax an ph).get 0 0 * Cx.zero).get i j).toC
        = (if i = j then rot ax an ph 0 0 else 0) := by
    intro i j
    rw [Mat.get_ofFn i.isLt j.isLt]
    by_cases h : i = j
    · rw [if_pos (by rw [h]), if_pos h, h00]
    · rw [if_neg (fun e => h (Fin.ext e)), if_neg h, Cx.toC_mul, Cx.toC_zero, mul_zero]
  constructor
  · intro H i j
    have := H i j
    rwa [can1_get, key] at this
  · intro H i j
    rw [can1_get, key]
    exact H i j

/-- **`bsrEq` decides closeness of the two operators, phase included** (`np.allclose` of the `can1`
    matrices, which are the textbook operators `rot`); on different qubits it additionally requires the
    first operator to be a multiple of the identity (to tolerance). -/
theorem bsrEq_iff (atol : ℝ) (q1 : Int) (a1 : Vec3 ℝ) (n1 p1 : ℝ) (q2 : Int) (a2 : Vec3 ℝ) (n2 p2 : ℝ) :
    bsrEq atol q1 a1 n1 p1 q2 a2 n2 p2 = true ↔
      (q1 = q2 ∨ isScalar2 atol (can1 a1 n1 p1) = true) ∧ ∀ i j : Fin 2,
        ‖rot a1 n1 p1 i j - rot a2 n2 p2 i j‖ ≤ atol + 1e-5 * ‖rot a2 n2 p2 i j‖ := by
  have hclose : close2 atol (can1 a1 n1 p1) (can1 a2 n2 p2) = true ↔ ∀ i j : Fin 2,
      ‖rot a1 n1 p1 i j - rot a2 n2 p2 i j‖ ≤ atol + 1e-5 * ‖rot a2 n2 p2 i j‖ := by
    rw [close2_iff atol _ _ rfl rfl]
    constructor
    · intro H i j; have := H i j; rwa [can1_get, can1_get] at this
    · intro H i j; rw [can1_get, can1_get]; exact H i j
  unfold bsrEq
  simp only []
  by_cases hq : q1 = q2
  · have hc : (q1 != q2 && !isScalar2 atol (can1 a1 n1 p1)) = false := by simp [hq]
    rw [if_neg (by rw [hc]; exact Bool.false_ne_true), hclose]
    exact ⟨fun H => ⟨Or.inl hq, H⟩, fun H => H.2⟩
  · by_cases hs : isScalar2 atol (can1 a1 n1 p1) = true
    · have hc : (q1 != q2 && !isScalar2 atol (can1 a1 n1 p1)) = false := by simp [hs]
      rw [if_neg (by rw [hc]; exact Bool.false_ne_true), hclose]
      exact ⟨fun H => ⟨Or.inr hs, H⟩, fun H => H.2⟩
    · have hc : (q1 != q2 && !isScalar2 atol (can1 a1 n1 p1)) = true := by simp [hq, hs]
      rw [if_pos hc]
      constructor
      · intro h; cases h
      · rintro ⟨h | h, -⟩
        · exact absurd h hq
        · exact absurd h hs

/-- **Soundness**: for an accepted pair the two operators are entrywise close, *including the global phase*,
    and either the qubit is the same or the first operator is a multiple of the identity (to tolerance). -/
theorem bsrEq_sound (atol : ℝ) (q1 : Int) (a1 : Vec3 ℝ) (n1 p1 : ℝ) (q2 : Int) (a2 : Vec3 ℝ) (n2 p2 : ℝ)
    (h : bsrEq atol q1 a1 n1 p1 q2 a2 n2 p2 = true) :
    (q1 = q2 ∨ isScalar2 atol (can1 a1 n1 p1) = true) ∧ ∀ i j : Fin 2,
      ‖rot a1 n1 p1 i j - rot a2 n2 p2 i j‖ ≤ atol + 1e-5 * ‖rot a2 n2 p2 i j‖ :=
  (bsrEq_iff atol q1 a1 n1 p1 q2 a2 n2 p2).mp h

/-- **Completeness for exact equality, same qubit**: same qubit and the same operator — whatever the
    representation by axis, angle and phase — is accepted for every non-negative tolerance. -/
theorem bsrEq_complete_exact (atol : ℝ) (hatol : 0 ≤ atol) (q : Int) (a1 : Vec3 ℝ) (n1 p1 : ℝ)
    (a2 : Vec3 ℝ) (n2 p2 : ℝ) (h : rot a1 n1 p1 = rot a2 n2 p2) :
    bsrEq atol q a1 n1 p1 q a2 n2 p2 = true := by
  rw [bsrEq_iff]
  refine ⟨Or.inl rfl, ?_⟩
  intro i j
  rw [h, sub_self, norm_zero]
  have : (0 : ℝ) ≤ 1e-5 * ‖rot a2 n2 p2 i j‖ := mul_nonneg rtol_real_nonneg (norm_nonneg _)
  linarith

/-- an exact multiple of the identity passes the scalar test, for every non-negative tolerance -/
theorem isScalar2_of_smul_one (atol : ℝ) (hatol : 0 ≤ atol) (ax : Vec3 ℝ) (an ph : ℝ) (c : ℂ)
    (h : rot ax an ph = c • (1 : Matrix (Fin 2) (Fin 2) ℂ)) : isScalar2 atol (can1 ax an ph) = true := by
  rw [isScalar2_iff]
  intro i j
  have : rot ax an ph i j = (if i = j then rot ax an ph 0 0 else 0) := by
    rw [h]
    by_cases hij : i = j
    · subst hij; simp
    · simp [hij]
  rw [← this, sub_self, norm_zero]
  have : (0 : ℝ) ≤ 1e-5 * ‖rot ax an ph i j‖ := mul_nonneg rtol_real_nonneg (norm_nonneg _)
  linarith

/-- **Completeness for exact equality, any two qubits**: two rotations that are the *same* multiple `c•1` of
    the identity are the same operation wherever they sit, and are accepted (every non-negative tolerance). -/
theorem bsrEq_complete_exact_diff (atol : ℝ) (hatol : 0 ≤ atol) (q1 q2 : Int) (a1 : Vec3 ℝ) (n1 p1 : ℝ)
    (a2 : Vec3 ℝ) (n2 p2 : ℝ) (c : ℂ)
    (h1 : rot a1 n1 p1 = c • (1 : Matrix (Fin 2) (Fin 2) ℂ))
    (h2 : rot a2 n2 p2 = c • (1 : Matrix (Fin 2) (Fin 2) ℂ)) :
    bsrEq atol q1 a1 n1 p1 q2 a2 n2 p2 = true := by
  rw [bsrEq_iff]
  refine ⟨Or.inr (isScalar2_of_smul_one atol hatol a1 n1 p1 c h1), ?_⟩
  intro i j
  rw [h1, h2, sub_self, norm_zero]
  have : (0 : ℝ) ≤ 1e-5 * ‖(c • (1 : Matrix (Fin 2) (Fin 2) ℂ)) i j‖ :=
    mul_nonneg rtol_real_nonneg (norm_nonneg _)
  linarith

/-- **Exact-level soundness on different qubits.**  If `bsrEq` accepts two rotations on different qubits and
    every closeness test it made is honest (crisp: close only if equal), both operators are the same scalar
    multiple of the identity — i.e. the two gates are the same operation on the union of the two qubits. -/
theorem bsrEq_diff_qubit_sound_exact (atol : ℝ) (q1 q2 : Int) (hq : q1 ≠ q2) (a1 : Vec3 ℝ) (n1 p1 : ℝ)
    (a2 : Vec3 ℝ) (n2 p2 : ℝ)
    (hc1 : ∀ i j : Fin 2,
      ‖rot a1 n1 p1 i j - (if i = j then rot a1 n1 p1 0 0 else 0)‖
        ≤ atol + 1e-5 * ‖(if i = j then rot a1 n1 p1 0 0 else 0)‖ →
      rot a1 n1 p1 i j = (if i = j then rot a1 n1 p1 0 0 else 0))
    (hc2 : ∀ i j : Fin 2,
      ‖rot a1 n1 p1 i j - rot a2 n2 p2 i j‖ ≤ atol + 1e-5 * ‖rot a2 n2 p2 i j‖ →
      rot a1 n1 p1 i j = rot a2 n2 p2 i j)
    (h : bsrEq atol q1 a1 n1 p1 q2 a2 n2 p2 = true) :
    ∃ c : ℂ, rot a1 n1 p1 = c • (1 : Matrix (Fin 2) (Fin 2) ℂ) ∧
      rot a2 n2 p2 = c • (1 : Matrix (Fin 2) (Fin 2) ℂ) := by
  obtain ⟨hs, hcl⟩ := bsrEq_sound _ _ _ _ _ _ _ _ _ h
  have hs : isScalar2 atol (can1 a1 n1 p1) = true := by
    rcases hs with hs | hs
    · exact absurd hs hq
    · exact hs
  rw [isScalar2_iff] at hs
  have e1 : rot a1 n1 p1 = rot a1 n1 p1 0 0 • (1 : Matrix (Fin 2) (Fin 2) ℂ) := by
    ext i j
    rw [hc1 i j (hs i j)]
    by_cases hij : i = j
    · subst hij; simp
    · simp [hij]
  have e2 : rot a2 n2 p2 = rot a1 n1 p1 := by
    ext i j
    exact (hc2 i j (hcl i j)).symm
  exact ⟨rot a1 n1 p1 0 0, e1, by rw [e2]; exact e1⟩

/-- reflexivity of rotation equality -/
theorem bsrEq_refl (atol : ℝ) (hatol : 0 ≤ atol) (q : Int) (ax : Vec3 ℝ) (an ph : ℝ) :
    bsrEq atol q ax an ph q ax an ph = true :=
  bsrEq_complete_exact atol hatol q ax an ph ax an ph rfl

/-- exact-level symmetry of rotation equality, same qubit -/
theorem bsrEq_symm_exact (atol : ℝ) (hatol : 0 ≤ atol) (q : Int) (a1 : Vec3 ℝ) (n1 p1 : ℝ)
    (a2 : Vec3 ℝ) (n2 p2 : ℝ) (h : rot a1 n1 p1 = rot a2 n2 p2) :
    bsrEq atol q a1 n1 p1 q a2 n2 p2 = true ∧ bsrEq atol q a2 n2 p2 q a1 n1 p1 = true :=
  ⟨bsrEq_complete_exact atol hatol q _ _ _ _ _ _ h, bsrEq_complete_exact atol hatol q _ _ _ _ _ _ h.symm⟩

/-- exact-level symmetry on any two qubits: both operators the same multiple of the identity -/
theorem bsrEq_symm_exact_diff (atol : ℝ) (hatol : 0 ≤ atol) (q1 q2 : Int) (a1 : Vec3 ℝ) (n1 p1 : ℝ)
    (a2 : Vec3 ℝ) (n2 p2 : ℝ) (c : ℂ)
    (h1 : rot a1 n1 p1 = c • (1 : Matrix (Fin 2) (Fin 2) ℂ))
    (h2 : rot a2 n2 p2 = c • (1 : Matrix (Fin 2) (Fin 2) ℂ)) :
    bsrEq atol q1 a1 n1 p1 q2 a2 n2 p2 = true ∧ bsrEq atol q2 a2 n2 p2 q1 a1 n1 p1 = true :=
  ⟨bsrEq_complete_exact_diff atol hatol q1 q2 _ _ _ _ _ _ c h1 h2,
   bsrEq_complete_exact_diff atol hatol q2 q1 _ _ _ _ _ _ c h2 h1⟩

/-- on different qubits a rotation that is not a multiple of the identity (to tolerance) equals nothing -/
theorem bsrEq_ne_qubit (atol : ℝ) (q1 q2 : Int) (hq : q1 ≠ q2) (a1 : Vec3 ℝ) (n1 p1 : ℝ) (a2 : Vec3 ℝ)
    (n2 p2 : ℝ) (hs : isScalar2 atol (can1 a1 n1 p1) = false) :
    bsrEq atol q1 a1 n1 p1 q2 a2 n2 p2 = false := by
  cases h : bsrEq atol q1 a1 n1 p1 q2 a2 n2 p2 with
  | false => rfl
  | true =>
    rcases (bsrEq_sound _ _ _ _ _ _ _ _ _ h).1 with h' | h'
    · exact absurd h' hq
    · rw [hs] at h'; cases h'

/-- two representations of Pauli `X`: axis `x`, angle `π`, phase `π/2`, and axis `-x`, angle `π`, phase `-π/2` -/
theorem rot_X_two_reps : rot (1, 0, 0) Real.pi (Real.pi / 2) = rot (-1, 0, 0) Real.pi (-(Real.pi / 2)) := by
  have hI : Complex.exp (Complex.I * ((Real.pi / 2 : ℝ) : ℂ)) = Complex.I := by
    rw [mul_comm]; push_cast; exact Complex.exp_pi_div_two_mul_I
  have hI' : Complex.exp (Complex.I * ((-(Real.pi / 2) : ℝ) : ℂ)) = -Complex.I := by
    rw [show Complex.I * ((-(Real.pi / 2) : ℝ) : ℂ) = -(Complex.I * ((Real.pi / 2 : ℝ) : ℂ)) by
      push_cast; ring, Complex.exp_neg, hI, Complex.inv_I]
  rw [rot_eq, rot_eq, hI, hI']
  ext i j
  fin_cases i <;> fin_cases j <;> simp

example : bsrEq (1e-7 : ℝ) 0 (1, 0, 0) Real.pi (Real.pi / 2) 0 (-1, 0, 0) Real.pi (-(Real.pi / 2)) = true :=
  bsrEq_complete_exact _ (by norm_num) 0 _ _ _ _ _ _ rot_X_two_reps

/-- Pauli `X` is not a multiple of the identity: its `(0,1)` entry is `1` -/
theorem isScalar2_X_false : isScalar2 (1e-7 : ℝ) (can1 ((1, 0, 0) : Vec3 ℝ) Real.pi (Real.pi / 2)) = false := by
  cases h : isScalar2 (1e-7 : ℝ) (can1 ((1, 0, 0) : Vec3 ℝ) Real.pi (Real.pi / 2)) with
  | false => rfl
  | true =>
    exfalso
    have h01 := (isScalar2_iff _ _ _ _).mp h 0 1
    have hI : Complex.exp (Complex.I * ((Real.pi / 2 : ℝ) : ℂ)) = Complex.I := by
      rw [mul_comm]; push_cast; exact Complex.exp_pi_div_two_mul_I
    have hX : rot ((1, 0, 0) : Vec3 ℝ) Real.pi (Real.pi / 2) 0 1 = 1 := by
      rw [rot_eq, hI]; simp
    rw [hX] at h01
    norm_num at h01

/-- `X` on qubit 0 and `X` on qubit 1 are different operations -/
example : bsrEq (1e-7 : ℝ) 0 (1, 0, 0) Real.pi (Real.pi / 2) 1 (1, 0, 0) Real.pi (Real.pi / 2) = false :=
  bsrEq_ne_qubit _ 0 1 (by decide) _ _ _ _ _ _ isScalar2_X_false

/-- identity rotations on different qubits (any axes) are the same operation -/
example (ax ax' : Vec3 ℝ) : bsrEq (1e-7 : ℝ) 0 ax 0 0 1 ax' 0 0 = true :=
  bsrEq_complete_exact_diff _ (by norm_num) 0 1 _ _ _ _ _ _ 1
    (by rw [rot_zero, one_smul]) (by rw [rot_zero, one_smul])

/-- non-vacuity of the exact-level soundness on different qubits: its hypothesis is satisfiable -/
example (ax ax' : Vec3 ℝ) : ∃ c : ℂ, rot ax 0 0 = c • (1 : Matrix (Fin 2) (Fin 2) ℂ) ∧
    rot ax' 0 0 = c • (1 : Matrix (Fin 2) (Fin 2) ℂ) :=
  ⟨1, by rw [rot_zero, one_smul], by rw [rot_zero, one_smul]⟩

/-! ## Re-indexing and the local matrix of one gate -/

section generic
variable {α : Type} [Scalar α]

theorem indexOf?_eq (idx : List Int) (q : Int) :
    indexOf? idx q = if q ∈ idx then some (idx.idxOf q) else none := by
  unfold indexOf?
  have : List.findIdx (fun x => x == q) idx = idx.idxOf q := rfl
  simp only [this, List.idxOf_lt_length_iff]

/-- the gate with every operand replaced by its position in `idx` -/
def Gate.pos (idx : List Int) : Gate α → Gate α
  | .bsr q ax an ph => .bsr (idx.idxOf q : Nat) ax an ph
  | .matrix m ops => .matrix m (ops.map fun q => ((idx.idxOf q : Nat) : Int))
  | .ctrl c g => .ctrl (idx.idxOf c : Nat) (g.pos idx)

theorem mapM_ok_of {β γ : Type} (f : β → Except Err γ) (g : β → γ) (ops : List β)
    (h : ∀ q ∈ ops, f q = .ok (g q)) : ops.mapM f = .ok (ops.map g) := by
  induction ops with
  | nil => rfl
  | cons q qs ih =>
    rw [List.mapM_cons, ih (fun x hx => h x (List.mem_cons_of_mem _ hx)), h q List.mem_cons_self]
    rfl

theorem mapM_err_of {β γ : Type} (f : β → Except Err γ) (e : Err) (ops : List β)
    (h0 : ∀ q ∈ ops, (∃ v, f q = .ok v) ∨ f q = .error e) (h : ∃ q ∈ ops, f q = .error e) :
    ops.mapM f = .error e := by
  induction ops with
  | nil => obtain ⟨q, hq, _⟩ := h; cases hq
  | cons q qs ih =>
    rw [List.mapM_cons]
    rcases h0 q List.mem_cons_self with ⟨v, hv⟩ | he
    · rw [hv]
      have : ∃ x ∈ qs, f x = .error e := by
        obtain ⟨x, hx, hxe⟩ := h
        rcases List.mem_cons.mp hx with rfl | hx
        · rw [hv] at hxe; cases hxe
        · exact ⟨x, hx, hxe⟩
      simp only [bind, Except.bind]
      rw [ih (fun x hx => h0 x (List.mem_cons_of_mem _ hx)) this]
    · rw [he]; rfl

omit [Scalar α] in
/-- **re-indexing**: succeeds iff every operand is listed, and then yields the positions -/
theorem reindexGate_eq (idx : List Int) (g : Gate α) :
    reindexGate idx g = if ∀ q ∈ g.operands, q ∈ idx then .ok (g.pos idx) else .error .value := by
  induction g with
  | bsr q ax an ph =>
    by_cases h : q ∈ idx
    · rw [if_pos (by simpa [Gate.operands] using h)]
      simp only [reindexGate, indexOf?_eq, if_pos h, Gate.pos]
    · rw [if_neg (by simpa [Gate.operands] using h)]
      simp only [reindexGate, indexOf?_eq, if_neg h]
  | matrix m ops =>
    by_cases h : ∀ q ∈ ops, q ∈ idx
    · rw [if_pos (by simpa [Gate.operands] using h)]
      simp only [reindexGate, Gate.pos]
      rw [mapM_ok_of _ (fun q => ((idx.idxOf q : Nat) : Int)) ops
        (fun q hq => by simp only [indexOf?_eq, if_pos (h q hq)])]
      rfl
    · rw [if_neg (by simpa [Gate.operands] using h)]
      simp only [reindexGate]
      rw [mapM_err_of _ .value ops ?_ ?_]
      · rfl
      · intro q _
        by_cases hq : q ∈ idx
        · left; exact ⟨((idx.idxOf q : Nat) : Int), by simp only [indexOf?_eq, if_pos hq]⟩
        · right; simp only [indexOf?_eq, if_neg hq]
      · have : ∃ q ∈ ops, q ∉ idx := by
          by_contra hcon
          apply h
          intro q hq
          by_contra hq'
          exact hcon ⟨q, hq, hq'⟩
        obtain ⟨q, hq, hq'⟩ := this
        exact ⟨q, hq, by simp only [indexOf?_eq, if_neg hq']⟩
  | ctrl c g ih =>
    by_cases hc : c ∈ idx
    · by_cases hg : ∀ q ∈ g.operands, q ∈ idx
      · rw [if_pos (by simpa [Gate.operands] using ⟨hc, hg⟩)]
        rw [if_pos hg] at ih
        simp only [reindexGate, indexOf?_eq, if_pos hc, ih, Gate.pos, bind, Except.bind, pure, Except.pure]
      · rw [if_neg (by simp only [Gate.operands, List.mem_cons, forall_eq_or_imp]; exact fun h => hg h.2)]
        rw [if_neg hg] at ih
        simp only [reindexGate, indexOf?_eq, if_pos hc, ih, bind, Except.bind]
    · rw [if_neg (by simp only [Gate.operands, List.mem_cons, forall_eq_or_imp]; exact fun h => hc h.1)]
      simp only [reindexGate, indexOf?_eq, if_neg hc]

omit [Scalar α] in
theorem Gate.pos_operands (idx : List Int) (g : Gate α) :
    (g.pos idx).operands = g.operands.map (fun q => ((idx.idxOf q : Nat) : Int)) := by
  induction g with
  | bsr q ax an ph => rfl
  | matrix m ops => rfl
  | ctrl c g ih => simp only [Gate.pos, Gate.operands, List.map_cons, ih]

omit [Scalar α] in
/-- positions are always inside the register spanned by `idx` -/
theorem Gate.pos_inReg (idx : List Int) (g : Gate α) (h : ∀ q ∈ g.operands, q ∈ idx) :
    (g.pos idx).inReg idx.length := by
  intro p hp
  rw [Gate.pos_operands] at hp
  obtain ⟨q, hq, rfl⟩ := List.mem_map.mp hp
  have := List.idxOf_lt_length_of_mem (h q hq)
  omega

omit [Scalar α] in
theorem Gate.pos_dimOk (idx : List Int) (g : Gate α) : (g.pos idx).dimOk ↔ g.dimOk := by
  induction g with
  | bsr q ax an ph => exact Iff.rfl
  | matrix m ops => simp only [Gate.pos, Gate.dimOk, List.length_map]
  | ctrl c g ih => exact ih

/-- `localMatrix` of one gate: re-index, expand on `idx.length` qubits, multiply by the identity -/
theorem localMatrix_single (idx : List Int) (g : Gate α) :
    localMatrix idx [g] =
      (do let h ← reindexGate idx g
          let M ← expand idx.length h
          pure (Mat.mul M (Mat.identity (2 ^ idx.length)))) := by
  unfold localMatrix
  cases hh : reindexGate idx g with
  | error e => simp [List.mapM_cons, hh, bind, Except.bind]
  | ok h =>
    simp only [List.mapM_cons, List.mapM_nil, hh, bind, Except.bind, pure, Except.pure, List.map_cons,
      List.map_nil]
    cases hM : expand idx.length h with
    | error e => simp [circuitMatrix, List.foldlM, hM, bind, Except.bind]
    | ok M => simp [circuitMatrix, List.foldlM, hM, bind, Except.bind, pure, Except.pure]

/-- a single-gate local matrix exists iff the gate's operands are all listed and its matrix nodes fit -/
theorem localMatrix_single_ok_iff (idx : List Int) (g : Gate α) :
    (∃ A, localMatrix idx [g] = .ok A) ↔ (∀ q ∈ g.operands, q ∈ idx) ∧ g.dimOk := by
  rw [localMatrix_single, reindexGate_eq]
  constructor
  · rintro ⟨A, hA⟩
    by_cases h : ∀ q ∈ g.operands, q ∈ idx
    · rw [if_pos h] at hA
      simp only [bind, Except.bind] at hA
      cases hM : expand idx.length (g.pos idx) with
      | error e => rw [hM] at hA; cases hA
      | ok M => exact ⟨h, (Gate.pos_dimOk idx g).mp ((expand_ok_iff _).mp ⟨M, hM⟩).2⟩
    · rw [if_neg h] at hA; cases hA
  · rintro ⟨h, hd⟩
    rw [if_pos h]
    obtain ⟨M, hM⟩ := (expand_ok_iff (n := idx.length) (g.pos idx)).mpr
      ⟨Gate.pos_inReg idx g h, (Gate.pos_dimOk idx g).mpr hd⟩
    exact ⟨Mat.mul M (Mat.identity (2 ^ idx.length)), by simp only [bind, Except.bind, hM, pure, Except.pure]⟩

/-- at `ℝ`, right multiplication by the model identity changes no entry -/
theorem Mat.mul_identity_get (M : Mat ℝ) {N : Nat} (hM : M.n = N) {r c : Nat} (hr : r < N) (hc : c < N) :
    (Mat.mul M (Mat.identity N)).get r c = M.get r c := by
  apply Cx.toC_injective
  have := congrFun (congrFun (Mat.toMatrixOn_mul' M (Mat.identity N) hM) ⟨r, hr⟩) ⟨c, hc⟩
  rw [Mat.toMatrixOn_identity, mul_one] at this
  exact this

/-- **the local matrix of one gate is the textbook operator of the re-indexed gate** (at `ℝ`) -/
theorem localMatrix_single_spec (idx : List Int) (g : Gate ℝ) (A : Mat ℝ) (hA : localMatrix idx [g] = .ok A) :
    IsMat idx.length A (denote idx.length (g.pos idx)) := by
  have hok := (localMatrix_single_ok_iff idx g).mp ⟨A, hA⟩
  rw [localMatrix_single, reindexGate_eq, if_pos hok.1] at hA
  simp only [bind, Except.bind] at hA
  cases hM : expand idx.length (g.pos idx) with
  | error e => rw [hM] at hA; cases hA
  | ok M =>
    rw [hM] at hA
    simp only [pure, Except.pure, Except.ok.injEq] at hA
    subst hA
    obtain ⟨h1, h2, h3⟩ := expand_spec hM
    refine ⟨by rw [Mat.mul_n, h1], by rw [Mat.mul_size, h1], ?_⟩
    intro r c hr hc
    rw [Mat.mul_identity_get M h1 hr hc, h3 r c hr hc]

/-! ## `dedup` -/

theorem mem_dedup (l : List Int) (q : Int) : q ∈ dedup l ↔ q ∈ l := by
  induction l with
  | nil => simp [dedup]
  | cons x xs ih =>
    simp only [dedup, List.mem_cons, List.mem_filter, ih, bne_iff_ne, ne_eq]
    constructor
    · rintro (h | ⟨h, -⟩)
      · exact Or.inl h
      · exact Or.inr h
    · rintro (h | h)
      · exact Or.inl h
      · by_cases hq : q = x
        · exact Or.inl hq
        · exact Or.inr ⟨h, hq⟩

theorem dedup_nodup (l : List Int) : (dedup l).Nodup := by
  induction l with
  | nil => simp [dedup]
  | cons x xs ih =>
    simp only [dedup, List.nodup_cons, List.mem_filter, bne_self_eq_false, Bool.false_eq_true, and_false,
      not_false_eq_true, true_and]
    exact ih.filter _

/-- the two unions `compare_gates` may enumerate are permutations of each other -/
theorem dedup_append_perm (l1 l2 : List Int) : (dedup (l1 ++ l2)).Perm (dedup (l2 ++ l1)) := by
  rw [List.perm_ext_iff_of_nodup (dedup_nodup _) (dedup_nodup _)]
  intro a
  simp only [mem_dedup, List.mem_append]
  exact Or.comm

/-! ## Order independence (C17): bit permutation of the ket index -/

/-- the bit permutation of ket indices induced by passing from the enumeration `idx` to `idx'`:
    bit `idx'.idxOf q` of the result is bit `idx.idxOf q` of the argument -/
def ketPerm (idx idx' : List Int) (x : Nat) : Nat := reducedKet x (idx'.map fun q => idx.idxOf q)

theorem ketPerm_lt (idx idx' : List Int) (x : Nat) : ketPerm idx idx' x < 2 ^ idx'.length := by
  have := reducedKet_lt x (idx'.map fun q => idx.idxOf q)
  rwa [List.length_map] at this

theorem ketPerm_testBit (idx idx' : List Int) (x : Nat) {q : Int} (hq : q ∈ idx') :
    (ketPerm idx idx' x).testBit (idx'.idxOf q) = x.testBit (idx.idxOf q) := by
  have hlt : idx'.idxOf q < idx'.length := List.idxOf_lt_length_of_mem hq
  unfold ketPerm
  rw [reducedKet_spec, dif_pos (by rwa [List.length_map])]
  simp only [List.getElem_map, List.getElem_idxOf hlt]

section perm
variable (idx idx' : List Int) (hnd : idx.Nodup) (hnd' : idx'.Nodup) (hmem : ∀ q, q ∈ idx ↔ q ∈ idx')
include hnd hmem

theorem ketPerm_inj {r c : Nat} (hr : r < 2 ^ idx.length) (hc : c < 2 ^ idx.length)
    (h : ketPerm idx idx' r = ketPerm idx idx' c) : r = c := by
  apply Nat.eq_of_testBit_eq
  intro i
  by_cases hi : i < idx.length
  · have hq : idx[i] ∈ idx' := (hmem _).mp (List.getElem_mem hi)
    have h1 := ketPerm_testBit idx idx' r hq
    have h2 := ketPerm_testBit idx idx' c hq
    rw [hnd.idxOf_getElem i hi] at h1 h2
    rw [← h1, ← h2, h]
  · rw [testBit_ge hr (by omega), testBit_ge hc (by omega)]

omit hnd in
theorem ketPerm_bitOf (x : Nat) {q : Int} (hq : q ∈ idx) :
    bitOf (ketPerm idx idx' x) (idx'.idxOf q) = bitOf x (idx.idxOf q) := by
  unfold bitOf
  rw [ketPerm_testBit idx idx' x ((hmem q).mp hq)]

include hnd' in
/-- the agreement test is transported by the bit permutation -/
theorem agreeOff_ketPerm (qs : List Int) (hqs : ∀ q ∈ qs, q ∈ idx) (r c : Nat) :
    agreeOff idx'.length (qs.map fun q => idx'.idxOf q) (ketPerm idx idx' r) (ketPerm idx idx' c)
      ↔ agreeOff idx.length (qs.map fun q => idx.idxOf q) r c := by
  constructor
  · intro H i hi hni
    have hq0 : idx[i] ∈ idx := List.getElem_mem hi
    have hq0' : idx[i] ∈ idx' := (hmem _).mp hq0
    have hj : idx'.idxOf idx[i] < idx'.length := List.idxOf_lt_length_of_mem hq0'
    have hnj : idx'.idxOf idx[i] ∉ qs.map fun q => idx'.idxOf q := by
      intro hm
      obtain ⟨q1, hq1, e⟩ := List.mem_map.mp hm
      have : q1 = idx[i] := (List.idxOf_inj ((hmem _).mp (hqs q1 hq1))).mp e
      apply hni
      rw [List.mem_map]
      exact ⟨q1, hq1, by rw [this, hnd.idxOf_getElem i hi]⟩
    have := H _ hj hnj
    rw [ketPerm_testBit idx idx' r hq0', ketPerm_testBit idx idx' c hq0', hnd.idxOf_getElem i hi] at this
    exact this
  · intro H j hj hnj
    have hq0' : idx'[j] ∈ idx' := List.getElem_mem hj
    have hq0 : idx'[j] ∈ idx := (hmem _).mpr hq0'
    have hi : idx.idxOf idx'[j] < idx.length := List.idxOf_lt_length_of_mem hq0
    have hni : idx.idxOf idx'[j] ∉ qs.map fun q => idx.idxOf q := by
      intro hm
      obtain ⟨q1, hq1, e⟩ := List.mem_map.mp hm
      have : q1 = idx'[j] := (List.idxOf_inj (hqs q1 hq1)).mp e
      apply hnj
      rw [List.mem_map]
      exact ⟨q1, hq1, by rw [this, hnd'.idxOf_getElem j hj]⟩
    have := H _ hi hni
    have h1 := ketPerm_testBit idx idx' r hq0'
    have h2 := ketPerm_testBit idx idx' c hq0'
    rw [hnd'.idxOf_getElem j hj] at h1 h2
    rw [h1, h2, this]

omit hnd in
theorem subIdx_ketPerm (qs : List Int) (hqs : ∀ q ∈ qs, q ∈ idx) (x : Nat) :
    subIdx (ketPerm idx idx' x) (qs.map fun q => idx'.idxOf q) = subIdx x (qs.map fun q => idx.idxOf q) := by
  induction qs with
  | nil => rfl
  | cons q qs ih =>
    simp only [List.map_cons, subIdx, List.length_map]
    rw [ketPerm_bitOf idx idx' hmem x (hqs q List.mem_cons_self),
      ih (fun y hy => hqs y (List.mem_cons_of_mem _ hy))]

end perm

theorem map_toNat_pos (idx : List Int) (ops : List Int) :
    (ops.map fun q => ((idx.idxOf q : Nat) : Int)).map Int.toNat = ops.map fun q => idx.idxOf q := by
  rw [List.map_map]
  apply List.map_congr_left
  intro q _
  simp

/-- **the textbook operator of the re-indexed gate is transported by the bit permutation**: entry
    `(π r, π c)` for the enumeration `idx'` is entry `(r, c)` for the enumeration `idx`. -/
theorem denote_pos_perm (idx idx' : List Int) (hnd : idx.Nodup) (hnd' : idx'.Nodup)
    (hmem : ∀ q, q ∈ idx ↔ q ∈ idx') (g : Gate α)
    (hg : ∀ q ∈ g.operands, q ∈ idx) {r c : Nat} (hr : r < 2 ^ idx.length) (hc : c < 2 ^ idx.length) :
    denote idx'.length (g.pos idx') (ketPerm idx idx' r) (ketPerm idx idx' c)
      = denote idx.length (g.pos idx) r c := by
  induction g generalizing r c with
  | bsr q ax an ph =>
    have hq : q ∈ idx := hg q (by simp [Gate.operands])
    simp only [Gate.pos, denote, embed1, Int.toNat_natCast]
    have hag := agreeOff_ketPerm idx idx' hnd hnd' hmem [q] (by simpa using hq) r c
    simp only [List.map_cons, List.map_nil] at hag
    rw [ketPerm_bitOf idx idx' hmem r hq, ketPerm_bitOf idx idx' hmem c hq]
    by_cases h : agreeOff idx.length [idx.idxOf q] r c
    · rw [if_pos h, if_pos (hag.mpr h)]
    · rw [if_neg h, if_neg (fun h' => h (hag.mp h'))]
  | matrix m ops =>
    have hops : ∀ q ∈ ops, q ∈ idx := hg
    simp only [Gate.pos, denote, embedM, map_toNat_pos]
    have hag := agreeOff_ketPerm idx idx' hnd hnd' hmem ops hops r c
    rw [subIdx_ketPerm idx idx' hmem ops hops r, subIdx_ketPerm idx idx' hmem ops hops c]
    by_cases h : agreeOff idx.length (ops.map fun q => idx.idxOf q) r c
    · rw [if_pos h, if_pos (hag.mpr h)]
    · rw [if_neg h, if_neg (fun h' => h (hag.mp h'))]
  | ctrl cq g ih =>
    have hcq : cq ∈ idx := hg cq (by simp [Gate.operands])
    have hg' : ∀ q ∈ g.operands, q ∈ idx := fun q hq => hg q (by simp [Gate.operands, hq])
    simp only [Gate.pos, denote, ctrlOf, Int.toNat_natCast]
    have hbit := ketPerm_testBit idx idx' c ((hmem cq).mp hcq)
    by_cases hb : c.testBit (idx.idxOf cq) = true
    · rw [if_pos hb, if_pos (by rw [hbit]; exact hb)]
      exact ih hg' hr hc
    · rw [if_neg hb, if_neg (by rw [hbit]; exact hb)]
      unfold delta
      by_cases hrc : r = c
      · rw [if_pos hrc, if_pos (by rw [hrc])]
      · rw [if_neg hrc, if_neg (fun h => hrc (ketPerm_inj idx idx' hnd hmem hr hc h))]

end generic

/-! ## `PhaseEq` is an equivalence relation -/

theorem PhaseEq.refl (n : Nat) (a : Mat ℝ) : PhaseEq n a a :=
  ⟨1, norm_one, fun _ _ _ _ => (one_mul _).symm⟩

theorem PhaseEq.symm {n : Nat} {a b : Mat ℝ} (h : PhaseEq n a b) : PhaseEq n b a := by
  obtain ⟨z, hz, H⟩ := h
  have hz0 : z ≠ 0 := by
    intro h0; rw [h0, norm_zero] at hz; exact zero_ne_one hz
  refine ⟨z⁻¹, by rw [norm_inv, hz, inv_one], ?_⟩
  intro i j hi hj
  rw [H i j hi hj, ← mul_assoc, inv_mul_cancel₀ hz0, one_mul]

theorem PhaseEq.trans {n : Nat} {a b c : Mat ℝ} (h1 : PhaseEq n a b) (h2 : PhaseEq n b c) : PhaseEq n a c := by
  obtain ⟨z, hz, H⟩ := h1
  obtain ⟨w, hw, K⟩ := h2
  refine ⟨z * w, by rw [norm_mul, hz, hw, one_mul], ?_⟩
  intro i j hi hj
  rw [H i j hi hj, K i j hi hj, mul_assoc]

/-- `PhaseEq` is invariant under a simultaneous re-labelling of the basis (conjugation by a permutation matrix) -/
theorem PhaseEq.of_relabel {n n' : Nat} (π ρ : Nat → Nat) (hρ : ∀ i, i < n' → ρ i < n ∧ π (ρ i) = i)
    {a b a' b' : Mat ℝ}
    (ha : ∀ r c, r < n → c < n → a'.get (π r) (π c) = a.get r c)
    (hb : ∀ r c, r < n → c < n → b'.get (π r) (π c) = b.get r c)
    (h : PhaseEq n a b) : PhaseEq n' a' b' := by
  obtain ⟨z, hz, H⟩ := h
  refine ⟨z, hz, ?_⟩
  intro i j hi hj
  obtain ⟨hi1, hi2⟩ := hρ i hi
  obtain ⟨hj1, hj2⟩ := hρ j hj
  have e1 := ha _ _ hi1 hj1
  have e2 := hb _ _ hi1 hj1
  rw [hi2, hj2] at e1 e2
  rw [e1, e2]
  exact H _ _ hi1 hj1

/-! ## The bit permutation is a bijection of `[0, 2^k)` -/

theorem ketPerm_inv (idx idx' : List Int) (hnd' : idx'.Nodup) (hmem : ∀ q, q ∈ idx ↔ q ∈ idx') {x : Nat}
    (hx : x < 2 ^ idx'.length) : ketPerm idx idx' (ketPerm idx' idx x) = x := by
  apply Nat.eq_of_testBit_eq
  intro j
  by_cases hj : j < idx'.length
  · have hq' : idx'[j] ∈ idx' := List.getElem_mem hj
    have hq : idx'[j] ∈ idx := (hmem _).mpr hq'
    have h1 := ketPerm_testBit idx idx' (ketPerm idx' idx x) hq'
    have h2 := ketPerm_testBit idx' idx x hq
    rw [hnd'.idxOf_getElem j hj] at h1 h2
    rw [h1, h2]
  · rw [testBit_ge (ketPerm_lt idx idx' _) (by omega), testBit_ge hx (by omega)]

/-! ## Order independence of the local matrix and of gate comparison (C17) -/

/-- **Order independence, matrix level.**  For two enumerations `idx`, `idx'` of the same set of qubits the
    local matrices of a gate are conjugate by the bit permutation `π = ketPerm idx idx'` of the ket index:
    `A'[π r, π c] = A[r, c]`, i.e. `A' = P · A · P⁻¹`. -/
theorem localMatrix_perm (idx idx' : List Int) (hnd : idx.Nodup) (hperm : idx.Perm idx') (g : Gate ℝ)
    {A A' : Mat ℝ} (hA : localMatrix idx [g] = .ok A) (hA' : localMatrix idx' [g] = .ok A')
    {r c : Nat} (hr : r < 2 ^ idx.length) (hc : c < 2 ^ idx.length) :
    A'.get (ketPerm idx idx' r) (ketPerm idx idx' c) = A.get r c := by
  have hnd' : idx'.Nodup := hperm.nodup_iff.mp hnd
  have hmem : ∀ q, q ∈ idx ↔ q ∈ idx' := fun q => hperm.mem_iff
  have hg := ((localMatrix_single_ok_iff idx g).mp ⟨A, hA⟩).1
  rw [(localMatrix_single_spec idx' g A' hA').2.2 _ _ (ketPerm_lt idx idx' r) (ketPerm_lt idx idx' c),
    (localMatrix_single_spec idx g A hA).2.2 r c hr hc]
  exact denote_pos_perm idx idx' hnd hnd' hmem g hg hr hc

/-- success of `localMatrix` on one gate does not depend on the enumeration -/
theorem localMatrix_perm_ok (idx idx' : List Int) (hperm : idx.Perm idx') (g : Gate ℝ)
    (h : ∃ A, localMatrix idx [g] = .ok A) : ∃ A', localMatrix idx' [g] = .ok A' := by
  rw [localMatrix_single_ok_iff] at h ⊢
  exact ⟨fun q hq => hperm.mem_iff.mp (h.1 q hq), h.2⟩

/-- **`PhaseEq` of the two local matrices does not depend on the enumeration.** -/
theorem phaseEq_localMatrix_perm (idx idx' : List Int) (hnd : idx.Nodup) (hperm : idx.Perm idx')
    (g1 g2 : Gate ℝ) {a b a' b' : Mat ℝ}
    (ha : localMatrix idx [g1] = .ok a) (hb : localMatrix idx [g2] = .ok b)
    (ha' : localMatrix idx' [g1] = .ok a') (hb' : localMatrix idx' [g2] = .ok b')
    (h : PhaseEq (2 ^ idx.length) a b) : PhaseEq (2 ^ idx'.length) a' b' := by
  have hnd' : idx'.Nodup := hperm.nodup_iff.mp hnd
  have hmem : ∀ q, q ∈ idx ↔ q ∈ idx' := fun q => hperm.mem_iff
  refine PhaseEq.of_relabel (ketPerm idx idx') (ketPerm idx' idx) ?_
    (fun r c hr hc => localMatrix_perm idx idx' hnd hperm g1 ha ha' hr hc)
    (fun r c hr hc => localMatrix_perm idx idx' hnd hperm g2 hb hb' hr hc) h
  intro i hi
  exact ⟨ketPerm_lt idx' idx i, ketPerm_inv idx idx' hnd' hmem hi⟩

theorem compareGatesWith_eq (atol : ℝ) (idx : List Int) (g1 g2 : Gate ℝ) {a b : Mat ℝ}
    (ha : localMatrix idx [g1] = .ok a) (hb : localMatrix idx [g2] = .ok b) :
    compareGatesWith atol idx g1 g2 = .ok (equivPhase atol a b) := by
  simp only [compareGatesWith, ha, hb, bind, Except.bind, pure, Except.pure]

theorem compareGates_eq_with (atol : ℝ) (g1 g2 : Gate ℝ) :
    compareGates atol g1 g2 = compareGatesWith atol (dedup (g1.operands ++ g2.operands)) g1 g2 := rfl

/-- exact-level acceptance for a given enumeration -/
theorem compareGatesWith_exact (atol : ℝ) (hatol : 0 < atol) (idx : List Int) (g1 g2 : Gate ℝ) {a b : Mat ℝ}
    (ha : localMatrix idx [g1] = .ok a) (hb : localMatrix idx [g2] = .ok b)
    (hpe : PhaseEq (2 ^ idx.length) a b)
    (hbig : ∃ i j, i < 2 ^ idx.length ∧ j < 2 ^ idx.length ∧ atol ≤ ‖(a.get i j).toC‖) :
    compareGatesWith atol idx g1 g2 = .ok true := by
  rw [compareGatesWith_eq atol idx g1 g2 ha hb,
    equivPhase_complete_exact' atol hatol (2 ^ idx.length) (Nat.two_pow_pos _) a b
      (localMatrix_dim ha).1 (localMatrix_dim hb).1 hbig hpe]

/-- **Order independence of `compare_gates` at the exact level (C17).**  If for one enumeration `idx` of the
    union of the operands the two local matrices are equal up to a global phase (and `a` has an entry of
    modulus `≥ atol`), then `compareGatesWith` answers `ok true` for `idx` *and for every other enumeration
    `idx'` of the same qubits*. -/
theorem compareGatesWith_perm_exact (atol : ℝ) (hatol : 0 < atol) (idx idx' : List Int) (hnd : idx.Nodup)
    (hperm : idx.Perm idx') (g1 g2 : Gate ℝ) {a b : Mat ℝ}
    (ha : localMatrix idx [g1] = .ok a) (hb : localMatrix idx [g2] = .ok b)
    (hpe : PhaseEq (2 ^ idx.length) a b)
    (hbig : ∃ i j, i < 2 ^ idx.length ∧ j < 2 ^ idx.length ∧ atol ≤ ‖(a.get i j).toC‖) :
    compareGatesWith atol idx g1 g2 = .ok true ∧ compareGatesWith atol idx' g1 g2 = .ok true := by
  refine ⟨compareGatesWith_exact atol hatol idx g1 g2 ha hb hpe hbig, ?_⟩
  obtain ⟨a', ha'⟩ := localMatrix_perm_ok idx idx' hperm g1 ⟨a, ha⟩
  obtain ⟨b', hb'⟩ := localMatrix_perm_ok idx idx' hperm g2 ⟨b, hb⟩
  apply compareGatesWith_exact atol hatol idx' g1 g2 ha' hb'
    (phaseEq_localMatrix_perm idx idx' hnd hperm g1 g2 ha hb ha' hb' hpe)
  obtain ⟨i, j, hi, hj, hle⟩ := hbig
  refine ⟨ketPerm idx idx' i, ketPerm idx idx' j, ketPerm_lt _ _ _, ketPerm_lt _ _ _, ?_⟩
  rw [localMatrix_perm idx idx' hnd hperm g1 ha ha' hi hj]
  exact hle

/-! ## Reflexivity and symmetry of `compare_gates` / `Gate.__eq__` at the exact level (C16) -/

/-- **Reflexivity.**  A gate whose matrix nodes have the right size always has a local matrix on the union of
    its own operands, and if that matrix has largest-entry modulus `≥ atol`, `compare_gates(g, g)` is `True`. -/
theorem compareGates_refl_exact (atol : ℝ) (hatol : 0 < atol) (g : Gate ℝ) (hd : g.dimOk) :
    ∃ A, localMatrix (dedup (g.operands ++ g.operands)) [g] = .ok A ∧
      (atol ≤ Cx.abs (A.d.getD (argmaxAbs A) Cx.zero) → compareGates atol g g = .ok true) := by
  obtain ⟨A, hA⟩ := (localMatrix_single_ok_iff (dedup (g.operands ++ g.operands)) g).mpr
    ⟨fun q hq => (mem_dedup _ q).mpr (List.mem_append_left _ hq), hd⟩
  refine ⟨A, hA, ?_⟩
  intro hbig
  rw [compareGates_eq_with, compareGatesWith_eq atol _ g g hA hA,
    equivPhase_complete_exact atol hatol _ (Nat.two_pow_pos _) A A (localMatrix_dim hA).1
      (localMatrix_dim hA).1 hbig (PhaseEq.refl _ A)]

/-- `Gate.__eq__` on two plain rotations is `bsrEq`: reflexive for every non-negative tolerance -/
theorem gateEq_refl_bsr (atol : ℝ) (hatol : 0 ≤ atol) (q : Int) (ax : Vec3 ℝ) (an ph : ℝ) :
    gateEq atol (.bsr q ax an ph) (.bsr q ax an ph) = .ok true := by
  simp only [gateEq, bsrEq_refl atol hatol q ax an ph]

/-- `Gate.__eq__` dispatch: two plain rotations go through `bsrEq` (always reflexive), everything else through
    `compare_gates`. -/
theorem gateEq_refl_exact (atol : ℝ) (hatol : 0 < atol) (g : Gate ℝ) (hd : g.dimOk)
    (hbig : ∀ A, localMatrix (dedup (g.operands ++ g.operands)) [g] = .ok A →
      atol ≤ Cx.abs (A.d.getD (argmaxAbs A) Cx.zero)) :
    gateEq atol g g = .ok true := by
  obtain ⟨A, hA, himp⟩ := compareGates_refl_exact atol hatol g hd
  cases g with
  | bsr q ax an ph => exact gateEq_refl_bsr atol hatol.le q ax an ph
  | matrix m ops => exact himp (hbig A hA)
  | ctrl c g => exact himp (hbig A hA)

/-- a controlled gate always has the entry `1` at `(0, 0)`, so the modulus hypothesis holds for `atol ≤ 1` -/
theorem localMatrix_ctrl_big (atol : ℝ) (h1 : atol ≤ 1) (idx : List Int) (c : Int) (g : Gate ℝ) (A : Mat ℝ)
    (hA : localMatrix idx [Gate.ctrl c g] = .ok A) :
    atol ≤ Cx.abs (A.d.getD (argmaxAbs A) Cx.zero) := by
  apply big_of_exists
  have hspec := localMatrix_single_spec idx _ A hA
  refine ⟨0, by rw [hspec.1]; exact Nat.mul_pos (Nat.two_pow_pos _) (Nat.two_pow_pos _), ?_⟩
  have h00 := hspec.2.2 0 0 (Nat.two_pow_pos _) (Nat.two_pow_pos _)
  have : A.flat 0 = (A.get 0 0).toC := by
    rw [Mat.get_eq_flat A rfl]; simp
  rw [this, h00]
  simp only [Gate.pos, denote, ctrlOf, Nat.zero_testBit, Bool.false_eq_true, if_false, delta, if_true,
    Cx.toC_one, norm_one]
  exact h1

/-- non-vacuity: a controlled rotation on qubits 5 and 9 equals itself, for every tolerance in `(0, 1]` -/
example (atol : ℝ) (h0 : 0 < atol) (h1 : atol ≤ 1) (ax : Vec3 ℝ) (an ph : ℝ) :
    gateEq atol (Gate.ctrl 5 (.bsr 9 ax an ph)) (Gate.ctrl 5 (.bsr 9 ax an ph)) = .ok true :=
  gateEq_refl_exact atol h0 _ trivial (fun A hA => localMatrix_ctrl_big atol h1 _ _ _ A hA)

example (ax : Vec3 ℝ) (an ph : ℝ) :
    gateEq (1e-7 : ℝ) (Gate.bsr 3 ax an ph) (Gate.bsr 3 ax an ph) = .ok true :=
  gateEq_refl_bsr _ (by norm_num) _ _ _ _

/-- **Symmetry at the exact level.**  If the local matrices of `g1`, `g2` on the union enumerated as
    `compare_gates(g1, g2)` does are equal up to a global phase (and `a` has an entry of modulus `≥ atol`),
    then both `compare_gates(g1, g2)` and `compare_gates(g2, g1)` — which enumerates the union in the other
    order — answer `True`.  (Uses order independence.) -/
theorem compareGates_symm_exact (atol : ℝ) (hatol : 0 < atol) (g1 g2 : Gate ℝ) {a b : Mat ℝ}
    (ha : localMatrix (dedup (g1.operands ++ g2.operands)) [g1] = .ok a)
    (hb : localMatrix (dedup (g1.operands ++ g2.operands)) [g2] = .ok b)
    (hpe : PhaseEq (2 ^ (dedup (g1.operands ++ g2.operands)).length) a b)
    (hbig : ∃ i j, i < 2 ^ (dedup (g1.operands ++ g2.operands)).length ∧
      j < 2 ^ (dedup (g1.operands ++ g2.operands)).length ∧ atol ≤ ‖(a.get i j).toC‖) :
    compareGates atol g1 g2 = .ok true ∧ compareGates atol g2 g1 = .ok true := by
  refine ⟨compareGatesWith_exact atol hatol _ g1 g2 ha hb hpe hbig, ?_⟩
  rw [compareGates_eq_with]
  refine (compareGatesWith_perm_exact atol hatol _ _ (dedup_nodup _) (dedup_append_perm _ _) g2 g1 hb ha
    hpe.symm ?_).2
  obtain ⟨i, j, hi, hj, hle⟩ := hbig
  refine ⟨i, j, hi, hj, ?_⟩
  obtain ⟨z, hz, H⟩ := hpe
  rw [H i j hi hj, norm_mul, hz, one_mul] at hle
  exact hle

/-- when at most one of the two gates is a plain rotation, `Gate.__eq__` is `compare_gates` -/
theorem gateEq_eq_compareGates (atol : ℝ) (g1 g2 : Gate ℝ)
    (h : (∀ q ax an ph, g1 ≠ .bsr q ax an ph) ∨ (∀ q ax an ph, g2 ≠ .bsr q ax an ph)) :
    gateEq atol g1 g2 = compareGates atol g1 g2 := by
  cases g1 with
  | bsr q1 a1 n1 p1 =>
    cases g2 with
    | bsr q2 a2 n2 p2 =>
      rcases h with h | h
      · exact absurd rfl (h q1 a1 n1 p1)
      · exact absurd rfl (h q2 a2 n2 p2)
    | matrix m ops => rfl
    | ctrl c g => rfl
  | matrix m ops => rfl
  | ctrl c g => rfl

/-- **The tolerance version is asymmetric only through the relative term.**  If `equivPhase atol a b` accepts
    with the (unit) phase `z`, then `b` is close to `z⁻¹·a` with the *same* error bound:
    `|b_k − z⁻¹ a_k| ≤ atol + 1e-5·|b_k|`; the reversed test would ask for
    `|b_k − w a_k| ≤ atol + 1e-5·|a_k|` with its own unit `w` measured at its own pivot, so it can differ from the
    forward verdict only within the `1e-5·|·|` band and the choice of the pivot entry. -/
theorem equivPhase_reverse_bound (atol : ℝ) (hatol : 0 < atol) (a b : Mat ℝ) (h : equivPhase atol a b = true) :
    ∃ z : ℂ, ‖z‖ = 1 ∧ ∀ k, k < a.n * a.n →
      ‖b.flat k - z⁻¹ * a.flat k‖ ≤ atol + 1e-5 * ‖b.flat k‖ := by
  obtain ⟨z, hz, -, -, -, H⟩ := equivPhase_sound_unit atol hatol a b h
  refine ⟨z, hz, ?_⟩
  intro k hk
  have hz0 : z ≠ 0 := ne_zero_of_norm_one hz
  have : b.flat k - z⁻¹ * a.flat k = -(z⁻¹ * (a.flat k - z * b.flat k)) := by
    field_simp; ring
  rw [this, norm_neg, norm_mul, norm_inv, hz, inv_one, one_mul]
  exact H k hk

/-- **`compare_gates` never equates different operations (tolerance form).**  If `compare_gates(g1, g2)` is
    `True`, both gates have textbook operators on the union register (`denote` of the re-indexed gates) and
    these agree entrywise, up to one **unit** complex factor `z` (a global phase), within
    `atol + 1e-5·|z·entry|`. -/
theorem compareGates_sound (atol : ℝ) (hatol : 0 < atol) (g1 g2 : Gate ℝ)
    (h : compareGates atol g1 g2 = .ok true) :
    ∃ z : ℂ, ‖z‖ = 1 ∧ ∀ r c, r < 2 ^ (dedup (g1.operands ++ g2.operands)).length →
      c < 2 ^ (dedup (g1.operands ++ g2.operands)).length →
      ‖(denote (dedup (g1.operands ++ g2.operands)).length
            (g1.pos (dedup (g1.operands ++ g2.operands))) r c).toC
        - z * (denote (dedup (g1.operands ++ g2.operands)).length
            (g2.pos (dedup (g1.operands ++ g2.operands))) r c).toC‖
        ≤ atol + 1e-5 * ‖z * (denote (dedup (g1.operands ++ g2.operands)).length
            (g2.pos (dedup (g1.operands ++ g2.operands))) r c).toC‖ := by
  rw [compareGates_eq_with] at h
  generalize dedup (g1.operands ++ g2.operands) = idx at h ⊢
  cases ha : localMatrix idx [g1] with
  | error e => simp [compareGatesWith, ha, bind, Except.bind] at h
  | ok a =>
    cases hb : localMatrix idx [g2] with
    | error e => simp [compareGatesWith, ha, hb, bind, Except.bind] at h
    | ok b =>
      rw [compareGatesWith_eq atol idx g1 g2 ha hb] at h
      have h' : equivPhase atol a b = true := by injection h
      have hsa := localMatrix_single_spec idx g1 a ha
      have hsb := localMatrix_single_spec idx g2 b hb
      obtain ⟨z, hz, H⟩ := equivPhase_sound_get atol hatol _ a b hsa.1 hsb.1 h'
      refine ⟨z, hz, ?_⟩
      intro r c hr hc
      have := H r c hr hc
      rwa [hsa.2.2 r c hr hc, hsb.2.2 r c hr hc] at this

/-- non-vacuity: the hypothesis is satisfiable (reflexivity of a controlled rotation) -/
example (ax : Vec3 ℝ) (an ph : ℝ) :
    compareGates (1e-7 : ℝ) (Gate.ctrl 5 (.bsr 9 ax an ph)) (Gate.ctrl 5 (.bsr 9 ax an ph)) = .ok true := by
  obtain ⟨A, hA, himp⟩ := compareGates_refl_exact (1e-7 : ℝ) (by norm_num) (Gate.ctrl 5 (.bsr 9 ax an ph)) trivial
  exact himp (localMatrix_ctrl_big _ (by norm_num) _ _ _ A hA)

/-! ## Errors do not depend on the enumeration either -/

/-- a single-gate local matrix fails only with `ValueError`, exactly when an operand is not listed or a matrix
    node has the wrong size — a condition on the *set* of listed qubits -/
theorem localMatrix_single_error (idx : List Int) (g : Gate ℝ)
    (h : ¬ ((∀ q ∈ g.operands, q ∈ idx) ∧ g.dimOk)) : localMatrix idx [g] = .error .value := by
  rw [localMatrix_single, reindexGate_eq]
  by_cases hsub : ∀ q ∈ g.operands, q ∈ idx
  · have hd : ¬ g.dimOk := fun hd => h ⟨hsub, hd⟩
    rw [if_pos hsub]
    have hreg := Gate.pos_inReg idx g hsub
    have := expand_value (n := idx.length) (g.pos idx) (fun q hq => (hreg q hq).2)
      (Or.inr (fun hd' => hd ((Gate.pos_dimOk idx g).mp hd')))
    simp only [bind, Except.bind, this]
  · rw [if_neg hsub]; rfl

/-- `compareGatesWith` for two enumerations of the same qubits: an error for one is the same error for the other -/
theorem compareGatesWith_error_perm (atol : ℝ) (idx idx' : List Int) (hperm : idx.Perm idx') (g1 g2 : Gate ℝ)
    (e : Err) (h : compareGatesWith atol idx g1 g2 = .error e) :
    compareGatesWith atol idx' g1 g2 = .error e := by
  have key : ∀ g : Gate ℝ, ((∀ q ∈ g.operands, q ∈ idx) ∧ g.dimOk) ↔ ((∀ q ∈ g.operands, q ∈ idx') ∧ g.dimOk) :=
    fun g => ⟨fun h => ⟨fun q hq => hperm.mem_iff.mp (h.1 q hq), h.2⟩,
      fun h => ⟨fun q hq => hperm.mem_iff.mpr (h.1 q hq), h.2⟩⟩
  by_cases h1 : (∀ q ∈ g1.operands, q ∈ idx) ∧ g1.dimOk
  · obtain ⟨a, ha⟩ := (localMatrix_single_ok_iff idx g1).mpr h1
    obtain ⟨a', ha'⟩ := (localMatrix_single_ok_iff idx' g1).mpr ((key g1).mp h1)
    by_cases h2 : (∀ q ∈ g2.operands, q ∈ idx) ∧ g2.dimOk
    · obtain ⟨b, hb⟩ := (localMatrix_single_ok_iff idx g2).mpr h2
      rw [compareGatesWith_eq atol idx g1 g2 ha hb] at h
      cases h
    · have hb := localMatrix_single_error idx g2 h2
      have hb' := localMatrix_single_error idx' g2 (fun h' => h2 ((key g2).mpr h'))
      simp only [compareGatesWith, ha, hb, bind, Except.bind] at h
      simp only [compareGatesWith, ha', hb', bind, Except.bind]
      exact h
  · have ha := localMatrix_single_error idx g1 h1
    have ha' := localMatrix_single_error idx' g1 (fun h' => h1 ((key g1).mpr h'))
    simp only [compareGatesWith, ha, bind, Except.bind] at h
    simp only [compareGatesWith, ha', bind, Except.bind]
    exact h

/-! ## Non-vacuity of order independence: CNOT in two representations, union enumerated both ways -/

theorem can1_X_two_reps (i j : Nat) (hi : i < 2) (hj : j < 2) :
    (can1 ((1, 0, 0) : Vec3 ℝ) Real.pi (Real.pi / 2)).get i j
      = (can1 ((-1, 0, 0) : Vec3 ℝ) Real.pi (-(Real.pi / 2))).get i j := by
  apply Cx.toC_injective
  have h1 := can1_get ((1, 0, 0) : Vec3 ℝ) Real.pi (Real.pi / 2) ⟨i, hi⟩ ⟨j, hj⟩
  have h2 := can1_get ((-1, 0, 0) : Vec3 ℝ) Real.pi (-(Real.pi / 2)) ⟨i, hi⟩ ⟨j, hj⟩
  simp only at h1 h2
  rw [h1, h2, rot_X_two_reps]

example (atol : ℝ) (h0 : 0 < atol) (h1 : atol ≤ 1) :
    compareGatesWith atol [5, 9] (Gate.ctrl 5 (.bsr 9 ((1, 0, 0) : Vec3 ℝ) Real.pi (Real.pi / 2)))
        (Gate.ctrl 5 (.bsr 9 (-1, 0, 0) Real.pi (-(Real.pi / 2)))) = .ok true ∧
    compareGatesWith atol [9, 5] (Gate.ctrl 5 (.bsr 9 ((1, 0, 0) : Vec3 ℝ) Real.pi (Real.pi / 2)))
        (Gate.ctrl 5 (.bsr 9 (-1, 0, 0) Real.pi (-(Real.pi / 2)))) = .ok true := by
  obtain ⟨a, ha⟩ := (localMatrix_single_ok_iff [5, 9]
    (Gate.ctrl 5 (.bsr 9 ((1, 0, 0) : Vec3 ℝ) Real.pi (Real.pi / 2)))).mpr
      ⟨by simp [Gate.operands], trivial⟩
  obtain ⟨b, hb⟩ := (localMatrix_single_ok_iff [5, 9]
    (Gate.ctrl 5 (.bsr 9 ((-1, 0, 0) : Vec3 ℝ) Real.pi (-(Real.pi / 2))))).mpr
      ⟨by simp [Gate.operands], trivial⟩
  have hsa := localMatrix_single_spec _ _ a ha
  have hsb := localMatrix_single_spec _ _ b hb
  apply compareGatesWith_perm_exact atol h0 [5, 9] [9, 5] (by decide) (List.Perm.swap 9 5 []) _ _ ha hb
  · refine ⟨1, norm_one, ?_⟩
    intro i j hi hj
    rw [one_mul, hsa.2.2 i j hi hj, hsb.2.2 i j hi hj]
    simp only [Gate.pos, denote, ctrlOf, embed1]
    rw [can1_X_two_reps _ _ (bitOf_lt_two _ _) (bitOf_lt_two _ _)]
  · refine ⟨0, 0, Nat.two_pow_pos _, Nat.two_pow_pos _, ?_⟩
    rw [hsa.2.2 0 0 (Nat.two_pow_pos _) (Nat.two_pow_pos _)]
    simp only [Gate.pos, denote, ctrlOf, Nat.zero_testBit, Bool.false_eq_true, if_false, delta, if_true,
      Cx.toC_one, norm_one]
    exact h1

end OSq

#print axioms OSq.argmaxAbs_spec
#print axioms OSq.equivPhase_complete_exact
#print axioms OSq.equivPhase_sound
#print axioms OSq.bsrEq_iff
#print axioms OSq.isScalar2_iff
#print axioms OSq.bsrEq_complete_exact_diff
#print axioms OSq.bsrEq_diff_qubit_sound_exact
#print axioms OSq.bsrEq_ne_qubit
#print axioms OSq.rot_X_two_reps
#print axioms OSq.reindexGate_eq
#print axioms OSq.localMatrix_single_spec
#print axioms OSq.denote_pos_perm
#print axioms OSq.localMatrix_perm
#print axioms OSq.compareGatesWith_perm_exact
#print axioms OSq.compareGatesWith_error_perm
#print axioms OSq.compareGates_refl_exact
#print axioms OSq.gateEq_refl_exact
#print axioms OSq.compareGates_symm_exact
#print axioms OSq.equivPhase_reverse_bound
#print axioms OSq.compareGates_sound
#print axioms OSq.bsrEq_complete_exact
