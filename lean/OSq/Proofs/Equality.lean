import OSq.Proofs.Construct
import OSq.Proofs.Expander
import Mathlib.Analysis.Complex.Norm
import Mathlib.Tactic.NormNum
import Mathlib.Tactic.Linarith

/-
  OSq.Proofs.Equality — gate equality (`OSq/Model/Matrix.lean`: `argmaxAbs`, `equivPhase`, `bsrEq`, `gateEq`,
  `compareGates`, `compareGatesWith`; Python `common.are_matrices_equivalent_up_to_global_phase`,
  `BlochSphereRotation.__eq__`, `ir.compare_gates`) at `α := ℝ`.
  Properties C16 ("gate equality = equality of operations up to global phase; reflexive and symmetric; never
  equates different operations") and C17 ("the enumeration of the union of qubits in `compare_gates` does not
  influence the result").

  Vocabulary
  * `Mat.flat m k`          the `k`-th stored entry (row major) as a Mathlib complex number; `Mat.absAt m k` its modulus
  * `PhaseEq n a b`         `∃ z : ℂ, ‖z‖ = 1 ∧ ∀ i j < n, a[i,j] = z · b[i,j]`

  Bridges
  * `Cx.abs_real`           `Cx.abs z = ‖z.toC‖`;   `Cx.toC_div`: `Cx.div` is complex division
  argmaxAbs
  * `amFold_spec`           (any linear order) invariant of the arg-max loop
  * `argmaxAbs_spec`        for `0 < m.n`: the result is `< n·n`, its entry has maximal modulus, and it is the first such
  * `argmaxAbs_max`         the arg-max entry dominates every stored entry (any size)
  equivPhase
  * `equivPhase_iff`        the test in Mathlib vocabulary
  * `equivPhase_complete_exact(')`  `PhaseEq n a b` + largest entry of `a` has modulus `≥ atol` ⇒ accepted
  * `equivPhase_sound`, `equivPhase_sound_get`  accepted ⇒ `z = a_l/b_l ≠ 0`, `|a_k − z b_k| ≤ atol + 1e-5·|z b_k|` ∀ k
  * `equivPhase_crisp`      accepted + honest closeness tests ⇒ `a = z·b` exactly
  bsrEq
  * `bsrEq_iff`, `bsrEq_sound`   accepted ⇔ same qubit and the operators `rot` are entrywise close *including phase*
  * `bsrEq_complete_exact`, `bsrEq_refl`, `bsrEq_symm_exact`, `bsrEq_ne_qubit`
  * `rot_X_two_reps` + example: `X` as (x, π, π/2) and as (−x, π, −π/2) are equal for `bsrEq`
  (continued below as the file grows)
-/

namespace OSq
open Sem

/-! ## Bridges at `ℝ` -/

/-- `Cx.abs` at `ℝ` is the modulus of the corresponding Mathlib complex number. -/
theorem Cx.abs_real (z : Cx ℝ) : Cx.abs z = ‖z.toC‖ := by
  simp only [Cx.abs, Cx.normSq, trig_sqrt_real, Complex.norm_def, Complex.normSq_apply, Cx.toC_re,
    Cx.toC_im]

/-- `Cx.div` at `ℝ` is complex division (also for a zero divisor: both sides are `0`). -/
theorem Cx.toC_div (a b : Cx ℝ) : (Cx.div a b).toC = a.toC / b.toC := by
  apply Complex.ext
  · simp only [Cx.div, Cx.normSq, Cx.toC_re, Complex.div_re, Complex.normSq_apply, Cx.toC_im]
    ring
  · simp only [Cx.div, Cx.normSq, Cx.toC_im, Complex.div_im, Complex.normSq_apply, Cx.toC_re]
    ring

/-- the relative tolerance literal of the model at `ℝ` -/
theorem rtol_real : ((1e-5 : ℝ)) = 1 / 100000 := by norm_num

theorem rtol_real_nonneg : (0 : ℝ) ≤ (1e-5 : ℝ) := by norm_num

/-! ## `argmaxAbs` -/

section argmax
variable {β : Type} [LinearOrder β]

/-- the loop body of `argmaxAbs` for an abstract value function -/
def amStep (v : Nat → β) (best : Nat × β) (k : Nat) : Nat × β :=
  if best.2 < v k then (k, v k) else best

/-- invariant of the arg-max loop: the running best is an index of a maximal value, the first such. -/
theorem amFold_spec (v : Nat → β) (N : Nat) :
    ((List.range N).foldl (amStep v) (0, v 0)).2 = v ((List.range N).foldl (amStep v) (0, v 0)).1 ∧
    (((List.range N).foldl (amStep v) (0, v 0)).1 < N ∨ ((List.range N).foldl (amStep v) (0, v 0)).1 = 0) ∧
    (∀ k, k < N → v k ≤ v ((List.range N).foldl (amStep v) (0, v 0)).1) ∧
    (∀ k, k < ((List.range N).foldl (amStep v) (0, v 0)).1 →
      v k < v ((List.range N).foldl (amStep v) (0, v 0)).1) := by
  induction N with
  | zero => simp
  | succ N ih =>
    rw [List.range_succ, List.foldl_append, List.foldl_cons, List.foldl_nil]
    obtain ⟨h1, h2, h3, h4⟩ := ih
    generalize (List.range N).foldl (amStep v) (0, v 0) = r at *
    unfold amStep
    split_ifs with h
    · rw [h1] at h
      refine ⟨rfl, Or.inl (Nat.lt_succ_self N), ?_, ?_⟩
      · intro k hk
        rcases Nat.lt_succ_iff_lt_or_eq.mp hk with hk | rfl
        · exact le_of_lt (lt_of_le_of_lt (h3 k hk) h)
        · exact le_refl _
      · intro k hk
        exact lt_of_le_of_lt (h3 k hk) h
    · rw [h1] at h
      refine ⟨h1, ?_, ?_, h4⟩
      · rcases h2 with h2 | h2
        · exact Or.inl (Nat.lt_succ_of_lt h2)
        · exact Or.inr h2
      · intro k hk
        rcases Nat.lt_succ_iff_lt_or_eq.mp hk with hk | rfl
        · exact h3 k hk
        · exact not_lt.mp h
end argmax

/-- modulus of the `k`-th stored entry -/
noncomputable def Mat.absAt (m : Mat ℝ) (k : Nat) : ℝ := Cx.abs (m.d.getD k Cx.zero)

theorem argmaxAbs_eq_fold (m : Mat ℝ) :
    argmaxAbs m = ((List.range (m.n * m.n)).foldl (amStep m.absAt) (0, m.absAt 0)).1 := by
  unfold argmaxAbs
  congr 2

/-- **`argmaxAbs`** (`np.argmax(np.abs(m))`): for a non-empty matrix the result is a valid flat index whose
    entry has maximal modulus, and it is the first such index. -/
theorem argmaxAbs_spec (m : Mat ℝ) (hn : 0 < m.n) :
    argmaxAbs m < m.n * m.n ∧
    (∀ k, k < m.n * m.n → m.absAt k ≤ m.absAt (argmaxAbs m)) ∧
    (∀ k, k < argmaxAbs m → m.absAt k < m.absAt (argmaxAbs m)) := by
  rw [argmaxAbs_eq_fold]
  obtain ⟨_, h2, h3, h4⟩ := amFold_spec m.absAt (m.n * m.n)
  refine ⟨?_, h3, h4⟩
  rcases h2 with h2 | h2
  · exact h2
  · rw [h2]; exact Nat.mul_pos hn hn

/-- whatever the size, the arg-max entry dominates every stored entry -/
theorem argmaxAbs_max (m : Mat ℝ) (k : Nat) (hk : k < m.n * m.n) :
    m.absAt k ≤ m.absAt (argmaxAbs m) := by
  rw [argmaxAbs_eq_fold]
  exact (amFold_spec m.absAt (m.n * m.n)).2.2.1 k hk

/-! ## `equivPhase` -/

/-- equality of two `n × n` model matrices up to a global phase (a complex number of modulus one) -/
def PhaseEq (n : Nat) (a b : Mat ℝ) : Prop :=
  ∃ z : ℂ, ‖z‖ = 1 ∧ ∀ i j, i < n → j < n → (a.get i j).toC = z * (b.get i j).toC

/-- the `k`-th stored entry (row-major) as a Mathlib complex number -/
noncomputable def Mat.flat (m : Mat ℝ) (k : Nat) : ℂ := (m.d.getD k Cx.zero).toC

theorem Mat.absAt_eq (m : Mat ℝ) (k : Nat) : m.absAt k = ‖m.flat k‖ := Cx.abs_real _

theorem Mat.get_eq_flat (m : Mat ℝ) {n : Nat} (hn : m.n = n) (i j : Nat) :
    (m.get i j).toC = m.flat (i * n + j) := by subst hn; rfl

theorem Mat.flat_eq_get (m : Mat ℝ) {n : Nat} (hn : m.n = n) (k : Nat) :
    m.flat k = (m.get (k / n) (k % n)).toC := by
  rw [Mat.get_eq_flat m hn, Nat.div_add_mod']

/-- `equivPhase` at `ℝ`, in Mathlib vocabulary: with `l = argmaxAbs a` and `z = a_l / b_l`, the test is
    `|a_l| ≥ atol`, `|b_l| ≥ atol` and `|a_k − z·b_k| ≤ atol + 1e-5·|z·b_k|` for every stored entry. -/
theorem equivPhase_iff (atol : ℝ) (a b : Mat ℝ) :
    equivPhase atol a b = true ↔
      ¬ (‖a.flat (argmaxAbs a)‖ < atol) ∧ ¬ (‖b.flat (argmaxAbs a)‖ < atol) ∧
      ∀ k, k < a.n * a.n →
        ‖a.flat k - a.flat (argmaxAbs a) / b.flat (argmaxAbs a) * b.flat k‖
          ≤ atol + 1e-5 * ‖a.flat (argmaxAbs a) / b.flat (argmaxAbs a) * b.flat k‖ := by
  unfold equivPhase
  simp only [Cx.abs_real, Cx.toC_sub, Cx.toC_mul, Cx.toC_div, Mat.flat]
  split_ifs with h
  · constructor
    · intro h'; cases h'
    · rintro ⟨h1, h2, -⟩
      rcases h with h | h
      · exact absurd h h1
      · exact absurd h h2
  · rw [not_or] at h
    rw [List.all_eq_true]
    constructor
    · intro H
      refine ⟨h.1, h.2, ?_⟩
      intro k hk
      have := H k (List.mem_range.mpr hk)
      simpa using this
    · rintro ⟨-, -, H⟩ k hk
      have := H k (List.mem_range.mp hk)
      simpa using this

/-- **Completeness for exact equality.**  If `a = z·b` entrywise for a unit complex `z` and the largest entry
    of `a` has modulus at least `atol`, the test accepts (for every positive tolerance). -/
theorem equivPhase_complete_exact (atol : ℝ) (hatol : 0 < atol) (n : Nat) (hn : 0 < n) (a b : Mat ℝ)
    (ha : a.n = n) (hb : b.n = n)
    (hbig : atol ≤ Cx.abs (a.d.getD (argmaxAbs a) Cx.zero)) (hpe : PhaseEq n a b) :
    equivPhase atol a b = true := by
  obtain ⟨z, hz, hab⟩ := hpe
  have hflat : ∀ k, k < n * n → a.flat k = z * b.flat k := by
    intro k hk
    rw [Mat.flat_eq_get a ha, Mat.flat_eq_get b hb]
    exact hab _ _ ((Nat.div_lt_iff_lt_mul hn).mpr hk) (Nat.mod_lt _ hn)
  have hl : argmaxAbs a < n * n := by
    have := (argmaxAbs_spec a (by omega)).1
    rwa [ha] at this
  rw [Cx.abs_real] at hbig
  change atol ≤ ‖a.flat (argmaxAbs a)‖ at hbig
  have hnorm : ‖a.flat (argmaxAbs a)‖ = ‖b.flat (argmaxAbs a)‖ := by
    rw [hflat _ hl, norm_mul, hz, one_mul]
  have hb0 : b.flat (argmaxAbs a) ≠ 0 := by
    intro h0
    rw [h0, norm_zero] at hnorm
    linarith
  have hph : a.flat (argmaxAbs a) / b.flat (argmaxAbs a) = z := by
    rw [hflat _ hl, mul_div_assoc, div_self hb0, mul_one]
  rw [equivPhase_iff]
  refine ⟨not_lt.mpr hbig, not_lt.mpr (hnorm ▸ hbig), ?_⟩
  intro k hk
  rw [ha] at hk
  rw [hph, hflat k hk, sub_self, norm_zero]
  have : (0 : ℝ) ≤ 1e-5 * ‖z * b.flat k‖ := mul_nonneg rtol_real_nonneg (norm_nonneg _)
  linarith

/-- **Soundness with tolerance.**  If the test accepts, then with `l = argmaxAbs a` and the non-zero complex
    number `z = a_l / b_l`, both `|a_l|, |b_l| ≥ atol` and every stored entry satisfies
    `|a_k − z·b_k| ≤ atol + 1e-5·|z·b_k|`.  (`|z| = 1` is *not* implied: `a = 2·b` is accepted; for unitary
    inputs `|z|` is within tolerance of `1`.) -/
theorem equivPhase_sound (atol : ℝ) (hatol : 0 < atol) (a b : Mat ℝ) (h : equivPhase atol a b = true) :
    ∃ z : ℂ, z ≠ 0 ∧ z = a.flat (argmaxAbs a) / b.flat (argmaxAbs a) ∧
      atol ≤ ‖a.flat (argmaxAbs a)‖ ∧ atol ≤ ‖b.flat (argmaxAbs a)‖ ∧
      ∀ k, k < a.n * a.n → ‖a.flat k - z * b.flat k‖ ≤ atol + 1e-5 * ‖z * b.flat k‖ := by
  obtain ⟨h1, h2, h3⟩ := (equivPhase_iff atol a b).mp h
  have h1' := not_lt.mp h1
  have h2' := not_lt.mp h2
  refine ⟨_, ?_, rfl, h1', h2', h3⟩
  apply div_ne_zero
  · intro h0; rw [h0, norm_zero] at h1'; linarith
  · intro h0; rw [h0, norm_zero] at h2'; linarith

/-- the same through `Mat.get`, for two matrices of the same dimension `n` -/
theorem equivPhase_sound_get (atol : ℝ) (hatol : 0 < atol) (n : Nat) (a b : Mat ℝ) (ha : a.n = n)
    (hb : b.n = n) (h : equivPhase atol a b = true) :
    ∃ z : ℂ, z ≠ 0 ∧ ∀ i j, i < n → j < n →
      ‖(a.get i j).toC - z * (b.get i j).toC‖ ≤ atol + 1e-5 * ‖z * (b.get i j).toC‖ := by
  obtain ⟨z, hz, -, -, -, H⟩ := equivPhase_sound atol hatol a b h
  refine ⟨z, hz, ?_⟩
  intro i j hi hj
  rw [Mat.get_eq_flat a ha, Mat.get_eq_flat b hb]
  apply H
  rw [ha]
  exact Mat.index_lt hi hj

/-- **Exactness under a crisp tolerance test**: if the test accepts and every closeness test it made is
    honest (`|a_k − z·b_k| ≤ atol + … ` only when `a_k = z·b_k`), the two matrices are equal up to the
    complex factor `z = a_l/b_l ≠ 0`. -/
theorem equivPhase_crisp (atol : ℝ) (hatol : 0 < atol) (n : Nat) (a b : Mat ℝ) (ha : a.n = n) (hb : b.n = n)
    (h : equivPhase atol a b = true)
    (hcrisp : ∀ k, k < n * n →
      ‖a.flat k - a.flat (argmaxAbs a) / b.flat (argmaxAbs a) * b.flat k‖
        ≤ atol + 1e-5 * ‖a.flat (argmaxAbs a) / b.flat (argmaxAbs a) * b.flat k‖ →
      a.flat k = a.flat (argmaxAbs a) / b.flat (argmaxAbs a) * b.flat k) :
    ∃ z : ℂ, z ≠ 0 ∧ ∀ i j, i < n → j < n → (a.get i j).toC = z * (b.get i j).toC := by
  obtain ⟨z, hz, hzdef, -, -, H⟩ := equivPhase_sound atol hatol a b h
  refine ⟨z, hz, ?_⟩
  intro i j hi hj
  rw [Mat.get_eq_flat a ha, Mat.get_eq_flat b hb, hzdef]
  have hk := Mat.index_lt hi hj
  apply hcrisp _ hk
  rw [← hzdef]
  exact H _ (by rw [ha]; exact hk)

/-- the modulus hypothesis in a form that does not mention the arg-max: some stored entry is `≥ atol` -/
theorem big_of_exists (atol : ℝ) (a : Mat ℝ) (h : ∃ k, k < a.n * a.n ∧ atol ≤ ‖a.flat k‖) :
    atol ≤ Cx.abs (a.d.getD (argmaxAbs a) Cx.zero) := by
  obtain ⟨k, hk, hle⟩ := h
  have := argmaxAbs_max a k hk
  rw [Mat.absAt_eq] at this
  exact le_trans hle this

theorem equivPhase_complete_exact' (atol : ℝ) (hatol : 0 < atol) (n : Nat) (hn : 0 < n) (a b : Mat ℝ)
    (ha : a.n = n) (hb : b.n = n) (hbig : ∃ i j, i < n ∧ j < n ∧ atol ≤ ‖(a.get i j).toC‖)
    (hpe : PhaseEq n a b) : equivPhase atol a b = true := by
  apply equivPhase_complete_exact atol hatol n hn a b ha hb _ hpe
  obtain ⟨i, j, hi, hj, h⟩ := hbig
  apply big_of_exists
  refine ⟨i * n + j, by rw [ha]; exact Mat.index_lt hi hj, ?_⟩
  rwa [← Mat.get_eq_flat a ha]

/-- non-vacuity: `e^{iθ}·I₂` against `I₂`, any tolerance in `(0, 1]` -/
example (θ atol : ℝ) (h0 : 0 < atol) (h1 : atol ≤ 1) :
    equivPhase atol (Mat.smul (Cx.expI θ) (Mat.identity 2)) (Mat.identity 2) = true := by
  have hz : ‖Complex.exp (Complex.I * θ)‖ = 1 := by
    rw [mul_comm]; exact Complex.norm_exp_ofReal_mul_I θ
  apply equivPhase_complete_exact' atol h0 2 (by decide) _ _ rfl rfl
  · refine ⟨0, 0, by decide, by decide, ?_⟩
    rw [Mat.get_smul _ _ (by decide) (by decide), Mat.get_identity (by decide) (by decide)]
    simp only [if_true, Cx.toC_mul, Cx.toC_expI, Cx.toC_one, mul_one, hz]
    exact h1
  · refine ⟨Complex.exp (Complex.I * θ), hz, ?_⟩
    intro i j hi hj
    rw [Mat.get_smul _ _ hi hj, Cx.toC_mul, Cx.toC_expI]

/-- non-vacuity of soundness on the same pair -/
example (θ : ℝ) : ∃ z : ℂ, z ≠ 0 ∧ ∀ i j, i < 2 → j < 2 →
    ‖((Mat.smul (Cx.expI θ) (Mat.identity 2) : Mat ℝ).get i j).toC - z * ((Mat.identity 2 : Mat ℝ).get i j).toC‖
      ≤ 1e-7 + 1e-5 * ‖z * ((Mat.identity 2 : Mat ℝ).get i j).toC‖ := by
  apply equivPhase_sound_get (1e-7) (by norm_num) 2 _ _ rfl rfl
  have hz : ‖Complex.exp (Complex.I * θ)‖ = 1 := by
    rw [mul_comm]; exact Complex.norm_exp_ofReal_mul_I θ
  apply equivPhase_complete_exact' _ (by norm_num) 2 (by decide) _ _ rfl rfl
  · refine ⟨0, 0, by decide, by decide, ?_⟩
    rw [Mat.get_smul _ _ (by decide) (by decide), Mat.get_identity (by decide) (by decide)]
    simp only [if_true, Cx.toC_mul, Cx.toC_expI, Cx.toC_one, mul_one, hz]
    norm_num
  · refine ⟨Complex.exp (Complex.I * θ), hz, ?_⟩
    intro i j hi hj
    rw [Mat.get_smul _ _ hi hj, Cx.toC_mul, Cx.toC_expI]

/-! ## `bsrEq` (`BlochSphereRotation.__eq__`) -/

theorem can1_flat (ax : Vec3 ℝ) (an ph : ℝ) (k : Nat) (hk : k < 4) :
    ((can1 ax an ph).d.getD k Cx.zero).toC
      = rot ax an ph ⟨k / 2, by omega⟩ ⟨k % 2, by omega⟩ := by
  have := Mat.flat_eq_get (can1 ax an ph) (n := 2) rfl k
  unfold Mat.flat at this
  rw [this]
  exact can1_get ax an ph ⟨k / 2, by omega⟩ ⟨k % 2, by omega⟩

/-- **`bsrEq` decides closeness of the two operators, phase included** (`np.allclose` of the `can1`
    matrices, which are the textbook operators `rot`), after the test for the same qubit. -/
theorem bsrEq_iff (atol : ℝ) (q1 : Int) (a1 : Vec3 ℝ) (n1 p1 : ℝ) (q2 : Int) (a2 : Vec3 ℝ) (n2 p2 : ℝ) :
    bsrEq atol q1 a1 n1 p1 q2 a2 n2 p2 = true ↔
      q1 = q2 ∧ ∀ i j : Fin 2,
        ‖rot a1 n1 p1 i j - rot a2 n2 p2 i j‖ ≤ atol + 1e-5 * ‖rot a2 n2 p2 i j‖ := by
  unfold bsrEq
  by_cases hq : q1 = q2
  · have hq' : (q1 != q2) = false := by simp [hq]
    simp only [hq', Bool.false_eq_true, if_false, List.all_eq_true, List.mem_range, decide_eq_true_eq,
      Cx.abs_real, Cx.toC_sub]
    constructor
    · intro H
      refine ⟨hq, ?_⟩
      intro i j
      have hk : i.val * 2 + j.val < 4 := by have := i.isLt; have := j.isLt; omega
      have := H _ hk
      rw [can1_flat a1 n1 p1 _ hk, can1_flat a2 n2 p2 _ hk] at this
      have e1 : (⟨(i.val * 2 + j.val) / 2, by omega⟩ : Fin 2) = i := by
        apply Fin.ext; have := j.isLt; simp; omega
      have e2 : (⟨(i.val * 2 + j.val) % 2, by omega⟩ : Fin 2) = j := by
        apply Fin.ext; have := j.isLt; simp; omega
      rw [e1, e2] at this
      exact this
    · rintro ⟨-, H⟩ k hk
      rw [can1_flat a1 n1 p1 _ hk, can1_flat a2 n2 p2 _ hk]
      exact H _ _
  · have hq' : (q1 != q2) = true := by simp [hq]
    simp only [hq', if_true]
    constructor
    · intro h; cases h
    · rintro ⟨h, -⟩; exact absurd h hq

/-- **Soundness**: an accepted pair acts on the same qubit and the two operators are entrywise close,
    *including the global phase*. -/
theorem bsrEq_sound (atol : ℝ) (q1 : Int) (a1 : Vec3 ℝ) (n1 p1 : ℝ) (q2 : Int) (a2 : Vec3 ℝ) (n2 p2 : ℝ)
    (h : bsrEq atol q1 a1 n1 p1 q2 a2 n2 p2 = true) :
    q1 = q2 ∧ ∀ i j : Fin 2,
      ‖rot a1 n1 p1 i j - rot a2 n2 p2 i j‖ ≤ atol + 1e-5 * ‖rot a2 n2 p2 i j‖ :=
  (bsrEq_iff atol q1 a1 n1 p1 q2 a2 n2 p2).mp h

/-- **Completeness for exact equality**: same qubit and the same operator — whatever the representation by
    axis, angle and phase — is accepted for every non-negative tolerance. -/
theorem bsrEq_complete_exact (atol : ℝ) (hatol : 0 ≤ atol) (q : Int) (a1 : Vec3 ℝ) (n1 p1 : ℝ)
    (a2 : Vec3 ℝ) (n2 p2 : ℝ) (h : rot a1 n1 p1 = rot a2 n2 p2) :
    bsrEq atol q a1 n1 p1 q a2 n2 p2 = true := by
  rw [bsrEq_iff]
  refine ⟨rfl, ?_⟩
  intro i j
  rw [h, sub_self, norm_zero]
  have : (0 : ℝ) ≤ 1e-5 * ‖rot a2 n2 p2 i j‖ := mul_nonneg rtol_real_nonneg (norm_nonneg _)
  linarith

/-- reflexivity of rotation equality -/
theorem bsrEq_refl (atol : ℝ) (hatol : 0 ≤ atol) (q : Int) (ax : Vec3 ℝ) (an ph : ℝ) :
    bsrEq atol q ax an ph q ax an ph = true :=
  bsrEq_complete_exact atol hatol q ax an ph ax an ph rfl

/-- exact-level symmetry of rotation equality -/
theorem bsrEq_symm_exact (atol : ℝ) (hatol : 0 ≤ atol) (q : Int) (a1 : Vec3 ℝ) (n1 p1 : ℝ)
    (a2 : Vec3 ℝ) (n2 p2 : ℝ) (h : rot a1 n1 p1 = rot a2 n2 p2) :
    bsrEq atol q a1 n1 p1 q a2 n2 p2 = true ∧ bsrEq atol q a2 n2 p2 q a1 n1 p1 = true :=
  ⟨bsrEq_complete_exact atol hatol q _ _ _ _ _ _ h, bsrEq_complete_exact atol hatol q _ _ _ _ _ _ h.symm⟩

/-- a different qubit is never accepted -/
theorem bsrEq_ne_qubit (atol : ℝ) (q1 q2 : Int) (hq : q1 ≠ q2) (a1 : Vec3 ℝ) (n1 p1 : ℝ) (a2 : Vec3 ℝ)
    (n2 p2 : ℝ) : bsrEq atol q1 a1 n1 p1 q2 a2 n2 p2 = false := by
  cases h : bsrEq atol q1 a1 n1 p1 q2 a2 n2 p2 with
  | false => rfl
  | true => exact absurd (bsrEq_sound _ _ _ _ _ _ _ _ _ h).1 hq

/-- two representations of Pauli `X`: axis `x`, angle `π`, phase `π/2`, and axis `-x`, angle `π`, phase `-π/2` -/
theorem rot_X_two_reps : rot (1, 0, 0) Real.pi (Real.pi / 2) = rot (-1, 0, 0) Real.pi (-(Real.pi / 2)) := by
  have hI : Complex.exp (Complex.I * ((Real.pi / 2 : ℝ) : ℂ)) = Complex.I := by
    rw [mul_comm]; push_cast; exact Complex.exp_pi_div_two_mul_I
  have hI' : Complex.exp (Complex.I * ((-(Real.pi / 2) : ℝ) : ℂ)) = -Complex.I := by
    rw [show Complex.I * ((-(Real.pi / 2) : ℝ) : ℂ) = -(Complex.I * ((Real.pi / 2 : ℝ) : ℂ)) by
      push_cast; ring, Complex.exp_neg, hI, Complex.inv_I]
  rw [rot_eq, rot_eq, hI, hI']
  ext i j
  fin_cases i <;> fin_cases j <;> simp

example : bsrEq (1e-7 : ℝ) 0 (1, 0, 0) Real.pi (Real.pi / 2) 0 (-1, 0, 0) Real.pi (-(Real.pi / 2)) = true :=
  bsrEq_complete_exact _ (by norm_num) 0 _ _ _ _ _ _ rot_X_two_reps

example : bsrEq (1e-7 : ℝ) 0 (1, 0, 0) Real.pi (Real.pi / 2) 1 (1, 0, 0) Real.pi (Real.pi / 2) = false :=
  bsrEq_ne_qubit _ 0 1 (by decide) _ _ _ _ _ _

end OSq

#print axioms OSq.argmaxAbs_spec
#print axioms OSq.equivPhase_complete_exact
#print axioms OSq.equivPhase_sound
#print axioms OSq.bsrEq_iff
#print axioms OSq.rot_X_two_reps
