import OSq.Proofs.GateTable
import OSq.Proofs.Writer
import OSq.Proofs.InstrWF
import OSq.Proofs.Builder

/-
  OSq.Proofs.V1Sem — property C12, semantic half: **the cQASM 1.0 export is meaning preserving**.
  `exportV1Stmt` / `exportV1` (OSq/Model/Text.lean; Python `exporter/cqasmv1_exporter.py`) spell every statement
  produced by the default instruction library (`callGate` / `callMeasure` / `callReset` on the *generated* tables
  `Gen.gateTable`, `Gen.measureTable`, `Gen.resetTable`) with a cQASM 1.0 name whose cQASM 1.0 meaning is the
  operation the in-memory statement performs.  At `α := ℝ`.  Helpers live in `OSq.V1Sem`.

  Specification (independent of the gate table; the textbook table of cQASM 1.0)
  * `V1Op`            what a cQASM 1.0 instruction does: `gate1 U` (one-qubit unitary `U` on the operand; the global
                      phase is immaterial), `ctrl U` (operands `control, target`: `|0⟩⟨0|⊗1 + |1⟩⟨1|⊗U`),
                      `measureZ` (computational-basis measurement), `prepZ` (reset to `|0⟩`).
  * `rx ry rz ph`     `exp(-iθσ/2)` written out, `ph θ = diag(1, e^{iθ})`.
  * `v1Meaning name params : Option V1Op`   the 22 names `i h x y z s sdag t tdag x90 mx90 y90 my90 rx ry rz cnot cz
                      cr crk measure_z prep_z` (with their parameter lists); anything else is `none`.
  * `v1Names`         those 22 names;  `v1Spelling` the table `cQASM 3 name ↦ cQASM 1 name` of the 20 default gates.
  * `v1Line fmt name qs ps`   the text of an instruction line: `name q[i], q[j], …[, p1, …]\n`.
  * `PhaseEq A B`     `∃ z, ‖z‖ = 1 ∧ A = z • B`.
  * `Performs op s`   statement `s` performs `op`: a rotation statement `.bsr q a θ φ` performs `gate1 U` iff
                      `PhaseEq (rot a θ φ) U`; `.ctrl c (.bsr t a θ φ)` performs `ctrl U` iff `rot a θ φ = U` (exactly,
                      phase included); a measure performs `measureZ` iff its axis is `(0,0,1)`; a reset performs `prepZ`.
  * `LibGate atol g nm`   the 20 shapes `(gate, recorded name and arguments)` of the default gates.
  * `LibStmt atol s`  `s` is the result of `callGate atol Gen.gateTable …`, `callMeasure Gen.measureTable …` or
                      `callReset Gen.resetTable …` (any name, any argument list) — name/arguments and semantic fields are
                      coherent by construction (this is the explicit coherence hypothesis of the theorems).
  * `stmtParams s`    the parameters the exporter prints: non-qubit arguments of a gate; none for measure / reset.

  Theorems  (`0 < atol ≤ π/2`, as in `GateTable`)
  * `callGate_cases`        every successful `callGate atol Gen.gateTable name args` is one of the 20 shapes `LibGate`
                            (control = target never succeeds).
  * `callMeasure_cases`, `callReset_cases`   the same for the measure / reset tables.
  * `toLower_names`, `v1_name_table`   `Gen.gateTable.map (name, name.toLower) = v1Spelling` (the exporter's `.lower()`
                            yields `i h x x90 mx90 y y90 my90 z s sdag t tdag rx ry rz cnot cz cr crk`), every v1
                            spelling is in `v1Names`, and for every entry `d` of the table and every gate statement named
                            `d.name` the emitted text is `v1Line fmt spelling qubit-arguments non-qubit-arguments`.
  * `exportV1Stmt_gate_line`   `exportV1Stmt` of a named gate is `v1Line fmt nm.name.toLower nm.qubitArgs (params nm)`.
  * `libGate_denotes`       per shape: v1 name, `v1Meaning` of it at the statement's parameters, `Performs`,
                            and the printed operands are the gate's operands (control first).
  * `exportV1_denotes`      (main, statement level) for every `LibStmt`: the emitted line is
                            `v1Line fmt v1 s.qubits (stmtParams s)` with `v1 ∈ v1Names`,
                            `v1Meaning v1 (stmtParams s) = some op` and `Performs op s`.
  * `exportV1_program_denotes`  (program level) circuits made of library statements, comments and anonymous gates:
                            success iff no anonymous gate (else `UnsupportedGateError`); on success the output is
                            header ++ lines, `Forall₂ (StmtLine fmt) c.stmts lines` (one text per statement, in order;
                            comments ↦ comment blocks, the others ↦ a denoting instruction line), and
                            `Forall₂ (InstrLine fmt)` between the non-comment statements and the non-comment lines.
  * `exportV1_denotes_gate` the same for gates with the extra facts: `v1 = nm.name.toLower`, `(nm.name, v1) ∈ v1Spelling`,
                            the recorded qubit arguments are the gate's operands (control first).
  * `builder_call_libStmt`, `builder_run_exportable`, `exportV1_built_denotes`   every circuit made by the builder
                            (`Builder.run`, any request sequence) with the default library consists of library
                            statements and comments, so its export succeeds and denotes (the hypotheses are met by
                            construction; uses `coherent_by_construction` of `Builder`).
  * negative controls       `v1Meaning_x90_ne_mx90`: `v1Meaning "x90" [] ≠ v1Meaning "mx90" []`; `rx90_not_phaseEq`,
                            `not_performs_swapped`: the statement `X90 q` does not perform what `mx90` means, not even
                            up to a global phase; `v1Meaning_cnot_ne_cz`; unknown names mean nothing.
  The register-level / reader-level continuation (text → reader → `v1Meaning` → operator of the circuit) is in
  `OSq/Proofs/V1Sem2.lean`.
  NOTE (model = Python): comments are *not* dropped by the exporter, they are emitted as `/* … */` blocks
  (`visit_comment`); the measurement axis is ignored (`measure_z` whatever the axis) — harmless for the default
  library whose measures all have axis `(0,0,1)` (`callMeasure_cases`).
-/

namespace OSq
namespace V1Sem
open OSq.Sem OSq.GateTable Complex Matrix

/-! ### Specification: the meaning of cQASM 1.0 instructions -/

abbrev M2 := Matrix (Fin 2) (Fin 2) ℂ

/-- what a cQASM 1.0 instruction does to its operands -/
inductive V1Op
  | gate1 (U : M2)   -- one operand: the unitary `U` (global phase immaterial)
  | ctrl (U : M2)    -- operands `control, target`: `U` on the target when the control is `1`
  | measureZ         -- measurement in the computational basis
  | prepZ            -- reset to `|0⟩`

noncomputable def rx (θ : ℝ) : M2 :=
  !![(Real.cos (θ / 2) : ℂ), -(I * Real.sin (θ / 2)); -(I * Real.sin (θ / 2)), (Real.cos (θ / 2) : ℂ)]
noncomputable def ry (θ : ℝ) : M2 :=
  !![(Real.cos (θ / 2) : ℂ), -(Real.sin (θ / 2) : ℂ); (Real.sin (θ / 2) : ℂ), (Real.cos (θ / 2) : ℂ)]
noncomputable def rz (θ : ℝ) : M2 :=
  !![Complex.exp (-(I * (θ / 2 : ℝ))), 0; 0, Complex.exp (I * (θ / 2 : ℝ))]
/-- phase shift `diag(1, e^{iθ})` -/
noncomputable def ph (θ : ℝ) : M2 := !![1, 0; 0, Complex.exp (I * θ)]

/-- **the cQASM 1.0 table**: name, parameters ↦ operation -/
noncomputable def v1Meaning : String → List (Arg ℝ) → Option V1Op
  | "i", [] => some (.gate1 1)
  | "h", [] => some (.gate1 ((1 / (Real.sqrt 2 : ℂ)) • !![1, 1; 1, -1]))
  | "x", [] => some (.gate1 !![0, 1; 1, 0])
  | "y", [] => some (.gate1 !![0, -I; I, 0])
  | "z", [] => some (.gate1 !![1, 0; 0, -1])
  | "s", [] => some (.gate1 (ph (Real.pi / 2)))
  | "sdag", [] => some (.gate1 (ph (-(Real.pi / 2))))
  | "t", [] => some (.gate1 (ph (Real.pi / 4)))
  | "tdag", [] => some (.gate1 (ph (-(Real.pi / 4))))
  | "x90", [] => some (.gate1 (rx (Real.pi / 2)))
  | "mx90", [] => some (.gate1 (rx (-(Real.pi / 2))))
  | "y90", [] => some (.gate1 (ry (Real.pi / 2)))
  | "my90", [] => some (.gate1 (ry (-(Real.pi / 2))))
  | "rx", [.float θ] => some (.gate1 (rx θ))
  | "ry", [.float θ] => some (.gate1 (ry θ))
  | "rz", [.float θ] => some (.gate1 (rz θ))
  | "cnot", [] => some (.ctrl !![0, 1; 1, 0])
  | "cz", [] => some (.ctrl !![1, 0; 0, -1])
  | "cr", [.float θ] => some (.ctrl (ph θ))
  | "crk", [.int k] => some (.ctrl (ph (2 * Real.pi / (2 : ℝ) ^ k)))
  | "measure_z", [] => some .measureZ
  | "prep_z", [] => some .prepZ
  | _, _ => none

/-- the names of cQASM 1.0 the exporter uses -/
def v1Names : List String :=
  ["i", "h", "x", "y", "z", "s", "sdag", "t", "tdag", "x90", "mx90", "y90", "my90", "rx", "ry", "rz",
   "cnot", "cz", "cr", "crk", "measure_z", "prep_z"]

/-- cQASM 3 gate name ↦ cQASM 1.0 spelling, in the order of the default gate set -/
def v1Spelling : List (String × String) :=
  [("I", "i"), ("H", "h"), ("X", "x"), ("X90", "x90"), ("mX90", "mx90"), ("Y", "y"), ("Y90", "y90"),
   ("mY90", "my90"), ("Z", "z"), ("S", "s"), ("Sdag", "sdag"), ("T", "t"), ("Tdag", "tdag"),
   ("Rx", "rx"), ("Ry", "ry"), ("Rz", "rz"), ("CNOT", "cnot"), ("CZ", "cz"), ("CR", "cr"), ("CRk", "crk")]

/-- the text of an instruction line: name, qubit operands, then parameters, comma separated -/
def v1Line (fmt : ℝ → String) (name : String) (qs : List Int) (ps : List (Arg ℝ)) : String :=
  name ++ " " ++ ", ".intercalate (qs.map showQubit) ++
    (if ps = [] then "" else ", " ++ ", ".intercalate (ps.map (showArg fmt))) ++ "\n"

/-- equal up to a unit global phase -/
def PhaseEq (A B : M2) : Prop := ∃ z : ℂ, ‖z‖ = 1 ∧ A = z • B

/-- statement `s` performs the cQASM 1.0 operation `op` (on its operands `s.qubits`, in order) -/
def Performs : V1Op → Stmt ℝ → Prop
  | .gate1 U, .gate (.bsr _ a θ φ) _ => PhaseEq (rot a θ φ) U
  | .ctrl U, .gate (.ctrl _ (.bsr _ a θ φ)) _ => rot a θ φ = U
  | .measureZ, .measure _ _ ax _ => ax = (0, 0, 1)
  | .prepZ, .reset _ _ => True
  | _, _ => False

/-- the parameters the exporter prints -/
def params (nm : Named ℝ) : List (Arg ℝ) := nm.args.filter (fun a => !isQubitArg a)

def stmtParams : Stmt ℝ → List (Arg ℝ)
  | .gate _ (some nm) => params nm
  | _ => []

/-! ### The default library, by cases -/

/-- the 20 shapes of a default gate: the gate and its recorded name and arguments -/
inductive LibGate (atol : ℝ) : Gate ℝ → Named ℝ → Prop
  | I (q : Int) : LibGate atol (.bsr q (1, 0, 0) 0 0) ⟨"I", [.qubit q]⟩
  | H (q : Int) : LibGate atol (.bsr q (1 / Real.sqrt 2, 0, 1 / Real.sqrt 2) Real.pi (Real.pi / 2)) ⟨"H", [.qubit q]⟩
  | X (q : Int) : LibGate atol (.bsr q (1, 0, 0) Real.pi (Real.pi / 2)) ⟨"X", [.qubit q]⟩
  | X90 (q : Int) : LibGate atol (.bsr q (1, 0, 0) (Real.pi / 2) 0) ⟨"X90", [.qubit q]⟩
  | mX90 (q : Int) : LibGate atol (.bsr q (1, 0, 0) (-Real.pi / 2) 0) ⟨"mX90", [.qubit q]⟩
  | Y (q : Int) : LibGate atol (.bsr q (0, 1, 0) Real.pi (Real.pi / 2)) ⟨"Y", [.qubit q]⟩
  | Y90 (q : Int) : LibGate atol (.bsr q (0, 1, 0) (Real.pi / 2) 0) ⟨"Y90", [.qubit q]⟩
  | mY90 (q : Int) : LibGate atol (.bsr q (0, 1, 0) (-Real.pi / 2) 0) ⟨"mY90", [.qubit q]⟩
  | Z (q : Int) : LibGate atol (.bsr q (0, 0, 1) Real.pi (Real.pi / 2)) ⟨"Z", [.qubit q]⟩
  | S (q : Int) : LibGate atol (.bsr q (0, 0, 1) (Real.pi / 2) 0) ⟨"S", [.qubit q]⟩
  | Sdag (q : Int) : LibGate atol (.bsr q (0, 0, 1) (-Real.pi / 2) 0) ⟨"Sdag", [.qubit q]⟩
  | T (q : Int) : LibGate atol (.bsr q (0, 0, 1) (Real.pi / 4) 0) ⟨"T", [.qubit q]⟩
  | Tdag (q : Int) : LibGate atol (.bsr q (0, 0, 1) (-Real.pi / 4) 0) ⟨"Tdag", [.qubit q]⟩
  | Rx (q : Int) (θ : ℝ) :
      LibGate atol (.bsr q (1, 0, 0) (normalizeAngle atol θ) 0) ⟨"Rx", [.qubit q, .float θ]⟩
  | Ry (q : Int) (θ : ℝ) :
      LibGate atol (.bsr q (0, 1, 0) (normalizeAngle atol θ) 0) ⟨"Ry", [.qubit q, .float θ]⟩
  | Rz (q : Int) (θ : ℝ) :
      LibGate atol (.bsr q (0, 0, 1) (normalizeAngle atol θ) 0) ⟨"Rz", [.qubit q, .float θ]⟩
  | CNOT (c t : Int) (h : c ≠ t) :
      LibGate atol (.ctrl c (.bsr t (1, 0, 0) Real.pi (Real.pi / 2))) ⟨"CNOT", [.qubit c, .qubit t]⟩
  | CZ (c t : Int) (h : c ≠ t) :
      LibGate atol (.ctrl c (.bsr t (0, 0, 1) Real.pi (Real.pi / 2))) ⟨"CZ", [.qubit c, .qubit t]⟩
  | CR (c t : Int) (θ : ℝ) (h : c ≠ t) :
      LibGate atol (.ctrl c (.bsr t (0, 0, 1) (normalizeAngle atol θ) (normalizeAngle atol θ / 2)))
        ⟨"CR", [.qubit c, .qubit t, .float θ]⟩
  | CRk (c t : Int) (k : ℤ) (h : c ≠ t) :
      LibGate atol (.ctrl c (.bsr t (0, 0, 1) (normalizeAngle atol (crkAngle k))
          (normalizeAngle atol (crkAngle k) / 2))) ⟨"CRk", [.qubit c, .qubit t, .int k]⟩

/-- a statement produced by the default library -/
inductive LibStmt (atol : ℝ) : Stmt ℝ → Prop
  | gate {name : String} {args : List (Arg ℝ)} {g : Gate ℝ} {nm : Named ℝ}
      (h : callGate atol Gen.gateTable name args = .ok (g, nm)) : LibStmt atol (.gate g (some nm))
  | measure {name : String} {args : List (Arg ℝ)} {s : Stmt ℝ}
      (h : callMeasure Gen.measureTable name args = .ok s) : LibStmt atol s
  | reset {name : String} {args : List (Arg ℝ)} {s : Stmt ℝ}
      (h : callReset Gen.resetTable name args = .ok s) : LibStmt atol s

/-! #### argument lists of a given kind signature -/

theorem kinds_q {l : List (Arg ℝ)} (h : l.map Arg.kind = [Kind.qubit]) : ∃ q, l = [.qubit q] := by
  match l, h with
  | [.qubit q], _ => exact ⟨q, rfl⟩

theorem kinds_qf {l : List (Arg ℝ)} (h : l.map Arg.kind = [Kind.qubit, Kind.float]) :
    ∃ q θ, l = [.qubit q, .float θ] := by
  match l, h with
  | [.qubit q, .float θ], _ => exact ⟨q, θ, rfl⟩

theorem kinds_qq {l : List (Arg ℝ)} (h : l.map Arg.kind = [Kind.qubit, Kind.qubit]) :
    ∃ c t, l = [.qubit c, .qubit t] := by
  match l, h with
  | [.qubit c, .qubit t], _ => exact ⟨c, t, rfl⟩

theorem kinds_qqf {l : List (Arg ℝ)} (h : l.map Arg.kind = [Kind.qubit, Kind.qubit, Kind.float]) :
    ∃ c t θ, l = [.qubit c, .qubit t, .float θ] := by
  match l, h with
  | [.qubit c, .qubit t, .float θ], _ => exact ⟨c, t, θ, rfl⟩

theorem kinds_qqi {l : List (Arg ℝ)} (h : l.map Arg.kind = [Kind.qubit, Kind.qubit, Kind.int]) :
    ∃ c t k, l = [.qubit c, .qubit t, .int k] := by
  match l, h with
  | [.qubit c, .qubit t, .int k], _ => exact ⟨c, t, k, rfl⟩

theorem kinds_qb {l : List (Arg ℝ)} (h : l.map Arg.kind = [Kind.qubit, Kind.bit]) :
    ∃ q b, l = [.qubit q, .bit b] := by
  match l, h with
  | [.qubit q, .bit b], _ => exact ⟨q, b, rfl⟩

theorem env_kinds {ps : List (String × Kind)} {as : List (Arg ℝ)} {env : Env ℝ}
    (h : bindArgs ps as = .ok env) : (env.map (·.2)).map Arg.kind = ps.map (·.2) := by
  have := congrArg (List.map (·.2)) (bindArgs_sig h)
  simpa [Env.sig, List.map_map, Function.comp_def] using this

/-- what a successful call records: the entry, its kinds, and the re-run on the recorded arguments -/
theorem callGate_sig {atol : ℝ} {table : List GateDef} {name : String} {args : List (Arg ℝ)} {g : Gate ℝ}
    {nm : Named ℝ} (h : callGate atol table name args = .ok (g, nm)) :
    ∃ d ∈ table, d.name = name ∧ nm.name = name ∧ nm.args.map Arg.kind = d.params.map (·.2) ∧
      callGate atol table name nm.args = .ok (g, nm) := by
  have hid := callGate_idem h
  obtain ⟨d, env, hd, _, hb, _, rfl⟩ := callGate_ok.1 h
  refine ⟨d, List.mem_of_find?_eq_some hd, ?_, rfl, env_kinds hb, hid⟩
  have := List.find?_some hd
  simpa using this

section cases
variable (atol : ℝ) (h0 : 0 < atol) (h1 : atol ≤ Real.pi / 2)
include h0 h1

/-- **every successful call of the default gate table is one of the 20 shapes** -/
theorem callGate_cases {name : String} {args : List (Arg ℝ)} {g : Gate ℝ} {nm : Named ℝ}
    (h : callGate atol Gen.gateTable name args = .ok (g, nm)) : LibGate atol g nm := by
  have h1' : atol < Real.pi := by linarith [Real.pi_pos]
  obtain ⟨d, hmem, hname, -, hk, hid⟩ := callGate_sig h
  simp only [Gen.gateTable, List.mem_cons, List.not_mem_nil, or_false] at hmem
  rcases hmem with rfl | rfl | rfl | rfl | rfl | rfl | rfl | rfl | rfl | rfl | rfl | rfl | rfl | rfl | rfl |
    rfl | rfl | rfl | rfl | rfl <;> simp only [List.map] at hk <;> subst hname
  · obtain ⟨q, hq⟩ := kinds_q hk; rw [hq, call_I atol h0 h1 q] at hid; cases hid; exact .I q
  · obtain ⟨q, hq⟩ := kinds_q hk; rw [hq, call_H atol h0 h1 q] at hid; cases hid; exact .H q
  · obtain ⟨q, hq⟩ := kinds_q hk; rw [hq, call_X atol h0 h1 q] at hid; cases hid; exact .X q
  · obtain ⟨q, hq⟩ := kinds_q hk; rw [hq, call_X90 atol h0 h1 q] at hid; cases hid; exact .X90 q
  · obtain ⟨q, hq⟩ := kinds_q hk; rw [hq, call_mX90 atol h0 h1 q] at hid; cases hid; exact .mX90 q
  · obtain ⟨q, hq⟩ := kinds_q hk; rw [hq, call_Y atol h0 h1 q] at hid; cases hid; exact .Y q
  · obtain ⟨q, hq⟩ := kinds_q hk; rw [hq, call_Y90 atol h0 h1 q] at hid; cases hid; exact .Y90 q
  · obtain ⟨q, hq⟩ := kinds_q hk; rw [hq, call_mY90 atol h0 h1 q] at hid; cases hid; exact .mY90 q
  · obtain ⟨q, hq⟩ := kinds_q hk; rw [hq, call_Z atol h0 h1 q] at hid; cases hid; exact .Z q
  · obtain ⟨q, hq⟩ := kinds_q hk; rw [hq, call_S atol h0 h1 q] at hid; cases hid; exact .S q
  · obtain ⟨q, hq⟩ := kinds_q hk; rw [hq, call_Sdag atol h0 h1 q] at hid; cases hid; exact .Sdag q
  · obtain ⟨q, hq⟩ := kinds_q hk; rw [hq, call_T atol h0 h1 q] at hid; cases hid; exact .T q
  · obtain ⟨q, hq⟩ := kinds_q hk; rw [hq, call_Tdag atol h0 h1 q] at hid; cases hid; exact .Tdag q
  · obtain ⟨q, θ, hq⟩ := kinds_qf hk; rw [hq, call_Rx atol h0.le h1' q θ] at hid; cases hid; exact .Rx q θ
  · obtain ⟨q, θ, hq⟩ := kinds_qf hk; rw [hq, call_Ry atol h0.le h1' q θ] at hid; cases hid; exact .Ry q θ
  · obtain ⟨q, θ, hq⟩ := kinds_qf hk; rw [hq, call_Rz atol h0.le h1' q θ] at hid; cases hid; exact .Rz q θ
  · obtain ⟨c, t, hq⟩ := kinds_qq hk
    by_cases hct : c = t
    · subst hct; rw [hq, call_CNOT_same] at hid; cases hid
    · rw [hq, call_CNOT atol h0 h1 c t hct] at hid; cases hid; exact .CNOT c t hct
  · obtain ⟨c, t, hq⟩ := kinds_qq hk
    by_cases hct : c = t
    · subst hct; rw [hq, call_CZ_same] at hid; cases hid
    · rw [hq, call_CZ atol h0 h1 c t hct] at hid; cases hid; exact .CZ c t hct
  · obtain ⟨c, t, θ, hq⟩ := kinds_qqf hk
    by_cases hct : c = t
    · subst hct; rw [hq, call_CR_same] at hid; cases hid
    · rw [hq, call_CR atol h0.le h1' c t θ hct] at hid; cases hid; exact .CR c t θ hct
  · obtain ⟨c, t, k, hq⟩ := kinds_qqi hk
    by_cases hct : c = t
    · subst hct; rw [hq, call_CRk_same] at hid; cases hid
    · rw [hq, call_CRk atol h0.le h1' c t k hct] at hid; cases hid; exact .CRk c t k hct

end cases

/-- every successful call of the default measure table: axis `(0,0,1)`, arguments `[qubit, bit]` -/
theorem callMeasure_cases {name : String} {args : List (Arg ℝ)} {s : Stmt ℝ}
    (h : callMeasure Gen.measureTable name args = .ok s) :
    ∃ q b, (name = "measure" ∨ name = "measure_z") ∧
      s = .measure q b (0, 0, 1) (some ⟨name, [.qubit q, .bit b]⟩) := by
  obtain ⟨nm, hnm, hid⟩ := callMeasure_idem h
  obtain ⟨d, env, q, b, ax, hd, _, hb, _, _, _, rfl⟩ := callMeasure_ok.1 h
  have hk := env_kinds hb
  have hmem := List.mem_of_find?_eq_some hd
  have hname : d.name = name := by simpa using List.find?_some hd
  simp only [Stmt.named, Option.some.injEq] at hnm
  subst hnm
  simp only [Gen.measureTable, List.mem_cons, List.not_mem_nil, or_false] at hmem
  rcases hmem with rfl | rfl <;> simp only [List.map] at hk <;> subst hname <;>
    obtain ⟨q', b', hq⟩ := kinds_qb hk <;> rw [hq] at hid ⊢
  · rw [call_measure] at hid; cases hid; exact ⟨_, _, .inl rfl, rfl⟩
  · rw [call_measure_z] at hid; cases hid; exact ⟨_, _, .inr rfl, rfl⟩

theorem callReset_cases {name : String} {args : List (Arg ℝ)} {s : Stmt ℝ}
    (h : callReset Gen.resetTable name args = .ok s) :
    ∃ q, name = "reset" ∧ s = .reset q (some ⟨name, [.qubit q]⟩) := by
  obtain ⟨nm, hnm, hid⟩ := callReset_idem h
  obtain ⟨d, env, q, hd, _, hb, _, rfl⟩ := callReset_ok.1 h
  have hk := env_kinds hb
  have hmem := List.mem_of_find?_eq_some hd
  have hname : d.name = name := by simpa using List.find?_some hd
  simp only [Stmt.named, Option.some.injEq] at hnm
  subst hnm
  simp only [Gen.resetTable, List.mem_cons, List.not_mem_nil, or_false] at hmem
  subst hmem
  simp only [List.map] at hk
  subst hname
  obtain ⟨q', hq⟩ := kinds_q hk
  rw [hq] at hid ⊢
  rw [call_reset] at hid; cases hid; exact ⟨_, rfl, rfl⟩

/-! ### The spelling -/

theorem toLower_eq (s t : String) (h : s.toList.map Char.toLower = t.toList) : s.toLower = t := by
  apply String.toList_inj.1; rw [toLower_toList]; exact h

/-- Python's `.lower()` on the 20 default gate names -/
theorem toLower_names : ∀ p ∈ v1Spelling, p.1.toLower = p.2 := by
  intro p hp
  simp only [v1Spelling, List.mem_cons, List.not_mem_nil, or_false] at hp
  rcases hp with rfl | rfl | rfl | rfl | rfl | rfl | rfl | rfl | rfl | rfl | rfl | rfl | rfl | rfl | rfl |
    rfl | rfl | rfl | rfl | rfl <;> exact toLower_eq _ _ (by decide)

/-- `exportV1Stmt` of a named gate, as an instruction line -/
theorem exportV1Stmt_gate_line (fmt : ℝ → String) (g : Gate ℝ) (nm : Named ℝ) :
    exportV1Stmt fmt (.gate g (some nm)) = .ok (v1Line fmt nm.name.toLower nm.qubitArgs (params nm)) := by
  rw [exportV1Stmt_gate_form, qubitTexts_eq]
  have hp : paramTexts fmt nm = (params nm).map (showArg fmt) := rfl
  have he : (paramTexts fmt nm = []) ↔ (params nm = []) := by rw [hp]; exact List.map_eq_nil_iff
  unfold v1Line
  rw [hp] at he ⊢
  by_cases hps : params nm = []
  · rw [if_pos hps, if_pos (he.2 hps)]; rfl
  · rw [if_neg hps, if_neg (fun e => hps (he.1 e))]; rfl

/-- **`v1_name_table`**: for every entry of the generated default gate table the exporter's name is the
    cQASM 1.0 spelling of `v1Spelling` (a name of `v1Names`), and the emitted text consists of that spelling, the
    statement's qubit arguments and the statement's non-qubit arguments. -/
theorem v1_name_table (fmt : ℝ → String) :
    Gen.gateTable.map (fun d => (d.name, d.name.toLower)) = v1Spelling ∧
    (∀ p ∈ v1Spelling, p.2 ∈ v1Names) ∧
    ∀ d ∈ Gen.gateTable, ∃ v1, (d.name, v1) ∈ v1Spelling ∧ ∀ (g : Gate ℝ) (args : List (Arg ℝ)),
      exportV1Stmt fmt (.gate g (some ⟨d.name, args⟩))
        = .ok (v1Line fmt v1 (Named.qubitArgs ⟨d.name, args⟩) (params ⟨d.name, args⟩)) := by
  have hT : Gen.gateTable.map (fun d => (d.name, d.name.toLower)) = v1Spelling := by
    have hn : Gen.gateTable.map (·.name) = v1Spelling.map (·.1) := rfl
    have : Gen.gateTable.map (fun d => (d.name, d.name.toLower))
        = (Gen.gateTable.map (·.name)).map (fun n => (n, n.toLower)) := by
      rw [List.map_map]; rfl
    rw [this, hn, List.map_map]
    conv_rhs => rw [← List.map_id v1Spelling]
    apply List.map_congr_left
    intro p hp
    show (p.1, p.1.toLower) = p
    rw [toLower_names p hp]
  refine ⟨hT, by decide, ?_⟩
  intro d hd
  refine ⟨d.name.toLower, ?_, fun g args => exportV1Stmt_gate_line fmt g _⟩
  rw [← hT]
  exact List.mem_map.2 ⟨d, hd, rfl⟩

/-! ### Operators of the shapes (all from `GateTable`) -/

theorem PhaseEq.of_eq {A B : M2} (h : A = B) : PhaseEq A B := ⟨1, by simp, by rw [h, one_smul]⟩

theorem PhaseEq.exp {A B : M2} (x : ℝ) (h : A = Complex.exp (I * x) • B) : PhaseEq A B :=
  ⟨_, norm_exp_I_mul x, h⟩

theorem PhaseEq.sign {A B : M2} (h : A = B ∨ A = -B) : PhaseEq A B := by
  rcases h with h | h
  · exact .of_eq h
  · exact ⟨-1, by simp, by rw [h, neg_smul, one_smul]⟩

theorem H_eq : Std.H = (1 / (Real.sqrt 2 : ℂ)) • !![1, 1; 1, -1] := by
  rw [Std.H]; ext i j; fin_cases i <;> fin_cases j <;> simp

theorem one_eq : (1 : M2) = Std.I_ := Std.I_eq.symm

/-- per shape: the cQASM 1.0 name, its meaning at the statement's parameters, and that the statement performs it;
    the printed qubit arguments are the gate's operands, in order (control first) -/
theorem libGate_denotes {atol : ℝ} {g : Gate ℝ} {nm : Named ℝ} (h : LibGate atol g nm) :
    ∃ v1 op, (nm.name, v1) ∈ v1Spelling ∧ v1 ∈ v1Names ∧ nm.qubitArgs = g.operands ∧
      v1Meaning v1 (params nm) = some op ∧ Performs op (.gate g (some nm)) := by
  cases h with
  | I q => exact ⟨"i", _, by simp [v1Spelling], by decide, rfl, rfl, .of_eq (rot_zero _)⟩
  | H q => exact ⟨"h", _, by simp [v1Spelling], by decide, rfl, rfl, .of_eq (rot_H.trans H_eq)⟩
  | X q => exact ⟨"x", _, by simp [v1Spelling], by decide, rfl, rfl, .of_eq rot_X⟩
  | X90 q => exact ⟨"x90", _, by simp [v1Spelling], by decide, rfl, rfl, .exp 0 (rot_x _ _)⟩
  | mX90 q => exact ⟨"mx90", _, by simp [v1Spelling], by decide, rfl, rfl, .exp 0 (by rw [← neg_div]; exact rot_x _ _)⟩
  | Y q => exact ⟨"y", _, by simp [v1Spelling], by decide, rfl, rfl, .of_eq rot_Y⟩
  | Y90 q => exact ⟨"y90", _, by simp [v1Spelling], by decide, rfl, rfl, .exp 0 (rot_y _ _)⟩
  | mY90 q => exact ⟨"my90", _, by simp [v1Spelling], by decide, rfl, rfl, .exp 0 (by rw [← neg_div]; exact rot_y _ _)⟩
  | Z q => exact ⟨"z", _, by simp [v1Spelling], by decide, rfl, rfl, .of_eq rot_Z⟩
  | S q => exact ⟨"s", _, by simp [v1Spelling], by decide, rfl, rfl, .exp _ (rot_z_diag _ _)⟩
  | Sdag q => exact ⟨"sdag", _, by simp [v1Spelling], by decide, rfl, rfl, .exp _ (by rw [← neg_div]; exact rot_z_diag _ _)⟩
  | T q => exact ⟨"t", _, by simp [v1Spelling], by decide, rfl, rfl, .exp _ (rot_z_diag _ _)⟩
  | Tdag q => exact ⟨"tdag", _, by simp [v1Spelling], by decide, rfl, rfl, .exp _ (by rw [← neg_div]; exact rot_z_diag _ _)⟩
  | Rx q θ => exact ⟨"rx", _, by simp [v1Spelling], by decide, rfl, rfl, .sign (rot_Rx atol θ)⟩
  | Ry q θ => exact ⟨"ry", _, by simp [v1Spelling], by decide, rfl, rfl, .sign (rot_Ry atol θ)⟩
  | Rz q θ => exact ⟨"rz", _, by simp [v1Spelling], by decide, rfl, rfl, .sign (rot_Rz atol θ)⟩
  | CNOT c t hct => exact ⟨"cnot", _, by simp [v1Spelling], by decide, rfl, rfl, rot_X⟩
  | CZ c t hct => exact ⟨"cz", _, by simp [v1Spelling], by decide, rfl, rfl, rot_Z⟩
  | CR c t θ hct => exact ⟨"cr", _, by simp [v1Spelling], by decide, rfl, rfl, rot_CR atol θ⟩
  | CRk c t k hct => exact ⟨"crk", _, by simp [v1Spelling], by decide, rfl, rfl, rot_CR atol (crkAngle k)⟩

/-! ### Statement level -/

theorem v1Line_one (fmt : ℝ → String) (name : String) (q : Int) :
    v1Line fmt name [q] [] = name ++ " " ++ showQubit q ++ "\n" := by
  simp [v1Line, String.intercalate_singleton]

/-- **C12, statement level (`exportV1_denotes`).**  Every statement produced by the default library is exported
    as one instruction line `v1 q[..], …[, params]` where `v1` is a cQASM 1.0 name, the operands are the
    statement's qubits in order, the parameters are the statement's parameters, and the cQASM 1.0 meaning of `v1`
    at these parameters is the operation the statement performs (one-qubit gates up to a unit global phase,
    controlled gates with exactly the in-memory target operator, measurement in the computational basis, reset). -/
theorem exportV1_denotes (fmt : ℝ → String) (atol : ℝ) (h0 : 0 < atol) (h1 : atol ≤ Real.pi / 2)
    {s : Stmt ℝ} (hs : LibStmt atol s) :
    ∃ v1 op, v1 ∈ v1Names ∧
      exportV1Stmt fmt s = .ok (v1Line fmt v1 s.qubits (stmtParams s)) ∧
      v1Meaning v1 (stmtParams s) = some op ∧ Performs op s := by
  cases hs with
  | @gate name args g nm h =>
    obtain ⟨v1, op, hsp, hv, hq, hm, hp⟩ := libGate_denotes (callGate_cases atol h0 h1 h)
    refine ⟨v1, op, hv, ?_, hm, hp⟩
    rw [exportV1Stmt_gate_line, toLower_names _ hsp, hq]
    rfl
  | @measure name args s h =>
    obtain ⟨q, b, -, rfl⟩ := callMeasure_cases h
    refine ⟨"measure_z", .measureZ, by decide, ?_, rfl, rfl⟩
    rw [exportV1Stmt_measure_form]
    show _ = Except.ok (v1Line fmt "measure_z" [q] [])
    rw [v1Line_one]; rfl
  | @reset name args s h =>
    obtain ⟨q, -, rfl⟩ := callReset_cases h
    refine ⟨"prep_z", .prepZ, by decide, ?_, rfl, trivial⟩
    rw [exportV1Stmt_reset_form]
    show _ = Except.ok (v1Line fmt "prep_z" [q] [])
    rw [v1Line_one]; rfl

/-- for gates additionally: the emitted name is the lower-cased recorded name, listed in `v1Spelling` -/
theorem exportV1_denotes_gate (fmt : ℝ → String) (atol : ℝ) (h0 : 0 < atol) (h1 : atol ≤ Real.pi / 2)
    {name : String} {args : List (Arg ℝ)} {g : Gate ℝ} {nm : Named ℝ}
    (h : callGate atol Gen.gateTable name args = .ok (g, nm)) :
    ∃ v1 op, (nm.name, v1) ∈ v1Spelling ∧ v1 = nm.name.toLower ∧ nm.qubitArgs = g.operands ∧
      exportV1Stmt fmt (.gate g (some nm)) = .ok (v1Line fmt v1 g.operands (params nm)) ∧
      v1Meaning v1 (params nm) = some op ∧ Performs op (.gate g (some nm)) := by
  obtain ⟨v1, op, hsp, -, hq, hm, hp⟩ := libGate_denotes (callGate_cases atol h0 h1 h)
  refine ⟨v1, op, hsp, (toLower_names _ hsp).symm, hq, ?_, hm, hp⟩
  rw [exportV1Stmt_gate_line, toLower_names _ hsp, hq]

/-! ### Program level -/

def isComment : Stmt ℝ → Bool
  | .comment _ => true
  | _ => false

/-- the text of a comment statement starts with a newline (an instruction line starts with its name) -/
def isCommentBlock (l : String) : Bool := l.toList.head? == some '\n'

/-- `l` is an instruction line and denotes statement `s` -/
def InstrLine (fmt : ℝ → String) (s : Stmt ℝ) (l : String) : Prop :=
  ∃ v1 op, v1 ∈ v1Names ∧ l = v1Line fmt v1 s.qubits (stmtParams s) ∧
    v1Meaning v1 (stmtParams s) = some op ∧ Performs op s

/-- the text emitted for a statement: a comment block for a comment, a denoting instruction line otherwise -/
inductive StmtLine (fmt : ℝ → String) : Stmt ℝ → String → Prop
  | comment (t : String) : StmtLine fmt (.comment t) ("\n/* " ++ t ++ " */\n\n")
  | instr {s : Stmt ℝ} {l : String} (hc : isComment s = false) (h : InstrLine fmt s l) : StmtLine fmt s l

theorem v1Names_head : ∀ v ∈ v1Names, (v.toList.head? == some '\n') = false ∧ v.toList ≠ [] := by decide

theorem v1Line_not_commentBlock (fmt : ℝ → String) (v : String) (qs : List Int) (ps : List (Arg ℝ))
    (hv : v ∈ v1Names) : isCommentBlock (v1Line fmt v qs ps) = false := by
  obtain ⟨h1, h2⟩ := v1Names_head v hv
  unfold isCommentBlock v1Line
  simp only [String.toList_append, List.append_assoc]
  rw [List.head?_append_of_ne_nil _ h2]; exact h1

theorem commentText_commentBlock (t : String) : isCommentBlock ("\n/* " ++ t ++ " */\n\n") = true := by
  unfold isCommentBlock
  simp only [String.toList_append, List.append_assoc]
  rw [List.head?_append_of_ne_nil _ (by decide)]; decide

theorem StmtLine.commentBlock {fmt : ℝ → String} {s : Stmt ℝ} {l : String} (h : StmtLine fmt s l) :
    isComment s = isCommentBlock l := by
  cases h with
  | comment t => rw [commentText_commentBlock]; rfl
  | instr hc h =>
    obtain ⟨v1, op, hv, rfl, -, -⟩ := h
    rw [hc, v1Line_not_commentBlock fmt v1 _ _ hv]

theorem forall₂_filter {β γ : Type} {R S : β → γ → Prop} {p : β → Bool} {q : γ → Bool}
    (h : ∀ a b, R a b → p a = q b ∧ (p a = true → S a b)) {l : List β} {r : List γ}
    (hl : List.Forall₂ R l r) : List.Forall₂ S (l.filter p) (r.filter q) := by
  induction hl with
  | nil => exact .nil
  | @cons a b l r hab _ ih =>
    obtain ⟨hpq, hS⟩ := h a b hab
    by_cases hp : p a = true
    · rw [List.filter_cons_of_pos hp, List.filter_cons_of_pos (hpq ▸ hp)]
      exact .cons (hS hp) ih
    · have hq : ¬ q b = true := hpq ▸ hp
      rw [List.filter_cons_of_neg hp, List.filter_cons_of_neg hq]
      exact ih

theorem forall₂_of_map_ok {β γ ε : Type} {R : β → γ → Prop} (f : β → Except ε γ) :
    ∀ (l : List β) (out : List γ), l.map f = out.map Except.ok →
      (∀ a ∈ l, ∀ b, f a = .ok b → R a b) → List.Forall₂ R l out
  | [], [], _, _ => .nil
  | [], _ :: _, h, _ => by simp at h
  | _ :: _, [], h, _ => by simp at h
  | a :: l, b :: out, h, hR => by
    simp only [List.map_cons, List.cons.injEq] at h
    exact .cons (hR a (by simp) b h.1)
      (forall₂_of_map_ok f l out h.2 (fun a' ha' => hR a' (List.mem_cons_of_mem _ ha')))

/-- the statements the theorem is about: library statements, comments, anonymous gates -/
def Exportable (atol : ℝ) (s : Stmt ℝ) : Prop :=
  LibStmt atol s ∨ (∃ t, s = .comment t) ∨ ∃ g, s = .gate g none

theorem LibStmt.not_comment {atol : ℝ} {s : Stmt ℝ} (h : LibStmt atol s) : isComment s = false := by
  cases h with
  | gate h => rfl
  | measure h => obtain ⟨q, b, -, rfl⟩ := callMeasure_cases h; rfl
  | reset h => obtain ⟨q, -, rfl⟩ := callReset_cases h; rfl

theorem LibStmt.not_anon {atol : ℝ} {s : Stmt ℝ} (h : LibStmt atol s) (g : Gate ℝ) : s ≠ .gate g none := by
  cases h with
  | gate h => intro e; cases e
  | measure h => obtain ⟨q, b, -, rfl⟩ := callMeasure_cases h; intro e; cases e
  | reset h => obtain ⟨q, -, rfl⟩ := callReset_cases h; intro e; cases e

/-- **C12, program level (`exportV1_program_denotes`).**  For a circuit made of statements of the default
    library, comments and anonymous gates:
    * the export succeeds iff no gate is anonymous, and otherwise fails with `UnsupportedGateError`;
    * on success the output is the header followed by exactly one text per statement, in order
      (`Forall₂ (StmtLine fmt)`): a comment block for a comment, and for every other statement one instruction
      line whose cQASM 1.0 meaning is the operation of that statement;
    * hence the non-comment statements and the non-comment texts correspond one to one, in order, each line
      denoting its statement (`Forall₂ (InstrLine fmt)`). -/
theorem exportV1_program_denotes (fmt : ℝ → String) (atol : ℝ) (h0 : 0 < atol) (h1 : atol ≤ Real.pi / 2)
    (c : Circuit ℝ) (hc : ∀ s ∈ c.stmts, Exportable atol s) :
    ((∃ out, exportV1 fmt c = .ok out) ↔ ∀ s ∈ c.stmts, ∀ g, s ≠ .gate g none) ∧
    ((∃ s ∈ c.stmts, ∃ g, s = .gate g none) → exportV1 fmt c = .error .unsupported) ∧
    ∀ out, exportV1 fmt c = .ok out → ∃ lines : List String,
      out = rstripNl (v1Header c.nQubits ++ String.join lines) ++ "\n" ∧
      List.Forall₂ (StmtLine fmt) c.stmts lines ∧
      List.Forall₂ (InstrLine fmt) (c.stmts.filter (fun s => !isComment s))
        (lines.filter (fun l => !isCommentBlock l)) := by
  have hiff : (∃ out, exportV1 fmt c = .ok out) ↔ ∀ s ∈ c.stmts, ∀ g, s ≠ .gate g none := by
    rw [exportV1_ok_iff_all_ok]
    constructor
    · intro h s hs g e
      obtain ⟨l, hl⟩ := h s hs
      rw [e] at hl; cases hl
    · intro h s hs
      rcases hc s hs with hlib | ⟨t, rfl⟩ | ⟨g, rfl⟩
      · obtain ⟨v1, op, -, he, -, -⟩ := exportV1_denotes fmt atol h0 h1 hlib
        exact ⟨_, he⟩
      · exact ⟨_, rfl⟩
      · exact absurd rfl (h _ hs g)
  refine ⟨hiff, ?_, ?_⟩
  · rintro ⟨s, hs, g, rfl⟩
    cases hr : exportV1 fmt c with
    | ok out => exact absurd rfl (hiff.1 ⟨out, hr⟩ _ hs g)
    | error e =>
      obtain ⟨pre, s', post, hst, -, he⟩ := (exportV1_error_iff fmt c e).1 hr
      have hs' : s' ∈ c.stmts := by rw [hst]; simp
      rcases hc s' hs' with hlib | ⟨t, rfl⟩ | ⟨g', rfl⟩
      · obtain ⟨v1, op, -, he', -, -⟩ := exportV1_denotes fmt atol h0 h1 hlib
        rw [he'] at he; cases he
      · cases he
      · cases he; rfl
  · intro out hok
    obtain ⟨lines, hl, hout⟩ := (exportV1_ok_form fmt c out).1 hok
    have hF : List.Forall₂ (StmtLine fmt) c.stmts lines := by
      refine forall₂_of_map_ok (exportV1Stmt fmt) c.stmts lines hl ?_
      intro s hs l hsl
      rcases hc s hs with hlib | ⟨t, rfl⟩ | ⟨g, rfl⟩
      · obtain ⟨v1, op, hv, he, hm, hp⟩ := exportV1_denotes fmt atol h0 h1 hlib
        rw [he] at hsl; cases hsl
        exact .instr hlib.not_comment ⟨v1, op, hv, rfl, hm, hp⟩
      · cases hsl; exact .comment t
      · cases hsl
    refine ⟨lines, hout, hF, forall₂_filter ?_ hF⟩
    intro s l hsl
    refine ⟨by rw [hsl.commentBlock], ?_⟩
    intro hns
    cases hsl with
    | comment t => simp [isComment] at hns
    | instr _ h => exact h

/-! ### Circuits made by the builder with the default library satisfy the hypotheses -/

/-- an accepted builder request (default library) appends a library statement -/
theorem builder_call_libStmt {atol : ℝ} {b b' : Builder ℝ} {name : String} {args : List (PyArg ℝ)}
    (h : b.call atol defaultLib name args = .ok b') : ∃ s, b'.stmts = b.stmts ++ [s] ∧ LibStmt atol s := by
  obtain ⟨s, nm, hs, -, hb, -⟩ := coherent_by_construction h
  refine ⟨s, hs, ?_⟩
  unfold GateLib.build at hb
  by_cases hm : defaultLib.measureSet.contains name = true
  · rw [if_pos hm] at hb; exact .measure hb
  · rw [if_neg hm] at hb
    by_cases hr : defaultLib.resetSet.contains name = true
    · rw [if_pos hr] at hb; exact .reset hb
    · rw [if_neg hr] at hb
      obtain ⟨⟨g, nm'⟩, hcall, hret⟩ := bind_ok.1 hb
      cases hret
      exact .gate hcall

/-- whatever requests are made (accepted or refused), a builder over the default library only ever holds
    library statements and comments -/
theorem builder_run_exportable (atol : ℝ) (cmds : List (Cmd ℝ)) :
    ∀ (b : Builder ℝ), (∀ s ∈ b.stmts, LibStmt atol s ∨ ∃ t, s = .comment t) →
      ∀ s ∈ (b.run atol defaultLib cmds).stmts, LibStmt atol s ∨ ∃ t, s = .comment t := by
  induction cmds with
  | nil => intro b hb; exact hb
  | cons cmd rest ih =>
    intro b hb
    show ∀ s ∈ ((b.step atol defaultLib cmd).run atol defaultLib rest).stmts, _
    apply ih
    cases cmd with
    | call name args =>
      simp only [Builder.step]
      cases hc : b.call atol defaultLib name args with
      | error e => exact hb
      | ok b' =>
        obtain ⟨s, hs, hlib⟩ := builder_call_libStmt hc
        intro s' hs'
        rw [hs] at hs'
        rcases List.mem_append.1 hs' with h | h
        · exact hb s' h
        · rw [List.mem_singleton.1 h]; exact .inl hlib
    | comment t =>
      simp only [Builder.step]
      cases hc : b.comment t with
      | error e => exact hb
      | ok b' =>
        simp only [Builder.comment, bind, Except.bind, pure, Except.pure] at hc
        cases hm : (mkComment t : Except Err (Stmt ℝ)) with
        | error e => rw [hm] at hc; cases hc
        | ok c =>
          rw [hm] at hc
          cases hc
          obtain ⟨-, rfl⟩ | ⟨hcon, he⟩ : (containsSub t "*/" = false ∧ c = .comment t) ∨
              (containsSub t "*/" = true ∧ False) := by
            unfold mkComment at hm
            by_cases hcs : containsSub t "*/" = true
            · rw [if_pos hcs] at hm; cases hm
            · rw [if_neg hcs] at hm; cases hm; exact .inl ⟨by simpa using hcs, rfl⟩
          · intro s' hs'
            rcases List.mem_append.1 hs' with h | h
            · exact hb s' h
            · rw [List.mem_singleton.1 h]; exact .inr ⟨t, rfl⟩
          · exact he.elim

/-- **C12 for built circuits**: every circuit produced by the builder with the default library is exported
    successfully, one text per statement in order, every instruction line denoting its statement. -/
theorem exportV1_built_denotes (fmt : ℝ → String) (atol : ℝ) (h0 : 0 < atol) (h1 : atol ≤ Real.pi / 2)
    (nq nb : Nat) (cmds : List (Cmd ℝ)) :
    let c := ((⟨nq, nb, []⟩ : Builder ℝ).run atol defaultLib cmds).toCircuit
    ∃ out lines, exportV1 fmt c = .ok out ∧
      out = rstripNl (v1Header c.nQubits ++ String.join lines) ++ "\n" ∧
      List.Forall₂ (StmtLine fmt) c.stmts lines ∧
      List.Forall₂ (InstrLine fmt) (c.stmts.filter (fun s => !isComment s))
        (lines.filter (fun l => !isCommentBlock l)) := by
  intro c
  have hst : ∀ s ∈ c.stmts, LibStmt atol s ∨ ∃ t, s = .comment t :=
    builder_run_exportable atol cmds ⟨nq, nb, []⟩ (by intro s hs; cases hs)
  have hex : ∀ s ∈ c.stmts, Exportable atol s := by
    intro s hs
    rcases hst s hs with h | h
    · exact .inl h
    · exact .inr (.inl h)
  obtain ⟨hiff, -, hden⟩ := exportV1_program_denotes fmt atol h0 h1 c hex
  obtain ⟨out, hout⟩ := hiff.2 (by
    intro s hs g e
    rcases hst s hs with h | ⟨t, rfl⟩
    · exact h.not_anon g e
    · cases e)
  obtain ⟨lines, h1, h2, h3⟩ := hden out hout
  exact ⟨out, lines, hout, h1, h2, h3⟩

/-! ### Negative controls: a wrong spelling would falsify the theorems -/

theorem sin_pi4_ne : (Real.sin (Real.pi / 2 / 2) : ℂ) ≠ 0 := by
  rw [sin_pi4]
  have : Real.sqrt 2 ≠ 0 := by positivity
  exact_mod_cast one_div_ne_zero this

theorem cos_pi4_ne : (Real.cos (Real.pi / 2 / 2) : ℂ) ≠ 0 := by
  rw [cos_pi4]
  have : Real.sqrt 2 ≠ 0 := by positivity
  exact_mod_cast one_div_ne_zero this

/-- `x90` and `mx90` are different operations, even up to a global phase -/
theorem rx90_not_phaseEq : ¬ PhaseEq (rx (Real.pi / 2)) (rx (-(Real.pi / 2))) := by
  rintro ⟨z, -, h⟩
  have h00 := congrFun (congrFun h 0) 0
  have h01 := congrFun (congrFun h 0) 1
  simp only [rx, neg_div, Real.cos_neg, Real.sin_neg, Matrix.smul_apply, smul_eq_mul, Matrix.of_apply,
    Matrix.cons_val_zero, Matrix.cons_val_one, Matrix.cons_val', Matrix.cons_val_fin_one] at h00 h01
  have hz : z = 1 := by
    have := mul_right_cancel₀ cos_pi4_ne (by rw [one_mul]; exact h00 : 1 * _ = z * _)
    exact this.symm
  rw [hz, one_mul] at h01
  simp only [Complex.ofReal_neg] at h01
  have h2 : (2 : ℂ) * (I * (Real.sin (Real.pi / 2 / 2) : ℂ)) = 0 := by linear_combination -h01
  rcases mul_eq_zero.1 h2 with h | h
  · norm_num at h
  · rcases mul_eq_zero.1 h with h | h
    · exact I_ne_zero h
    · exact sin_pi4_ne h

/-- the cQASM 1.0 table distinguishes `x90` from `mx90` … -/
theorem v1Meaning_x90_ne_mx90 : v1Meaning "x90" [] ≠ v1Meaning "mx90" [] := by
  intro h
  have h' : rx (Real.pi / 2) = rx (-(Real.pi / 2)) := by
    have : some (V1Op.gate1 (rx (Real.pi / 2))) = some (V1Op.gate1 (rx (-(Real.pi / 2)))) := h
    injection this with this
    injection this
  exact rx90_not_phaseEq (.of_eq h')

/-- … and the statement `X90 q` does **not** perform what `mx90` means: had the exporter written `mx90` for
    `X90` (or not renamed consistently), `exportV1_denotes` would be false. -/
theorem not_performs_swapped (q : Int) (nm : Option (Named ℝ)) :
    ¬ Performs (.gate1 (rx (-(Real.pi / 2)))) (.gate (.bsr q (1, 0, 0) (Real.pi / 2) 0) nm) := by
  intro h
  have h' : PhaseEq (rot (1, 0, 0) (Real.pi / 2) 0) (rx (-(Real.pi / 2))) := h
  rw [rot_x, Complex.ofReal_zero, mul_zero, Complex.exp_zero, one_smul] at h'
  exact rx90_not_phaseEq h'

/-- `cnot` and `cz` mean different things (the target operator is compared exactly) -/
theorem v1Meaning_cnot_ne_cz : v1Meaning "cnot" [] ≠ v1Meaning "cz" [] := by
  intro h
  have : some (V1Op.ctrl !![0, 1; 1, 0]) = some (V1Op.ctrl !![1, 0; 0, -1]) := h
  injection this with this
  injection this with this
  have h00 := congrFun (congrFun this 0) 0
  simp at h00

/-- names outside the table (e.g. the un-lowered cQASM 3 spellings) and wrong parameter lists mean nothing -/
example : v1Meaning "X90" [] = none := rfl
example : v1Meaning "mX90" [] = none := rfl
example : v1Meaning "CNOT" [] = none := rfl
example (θ : ℝ) : v1Meaning "x" [.float θ] = none := rfl
example : v1Meaning "rx" [] = none := rfl
example : v1Meaning "measure" [] = none := rfl

/-! ### Non-vacuity -/

/-- the spelling of the exporter on the table: `mX90 ↦ mx90`, `CRk ↦ crk`, … -/
example : "mX90".toLower = "mx90" := toLower_names ("mX90", "mx90") (by decide)
example : ("CRk", "crk") ∈ Gen.gateTable.map (fun d => (d.name, d.name.toLower)) := by
  rw [(v1_name_table (fun _ => "")).1]; decide

/-- `CR(θ) q[0], q[1]` (any `θ`) is a library statement; it is exported as `cr q[0], q[1], <θ>` and `cr θ` means
    "controlled `diag(1, e^{iθ})`", which is exactly the in-memory target operator -/
example (fmt : ℝ → String) (θ : ℝ) :
    ∃ v1 op, ("CR", v1) ∈ v1Spelling ∧
      exportV1Stmt fmt (.gate (.ctrl 0 (.bsr 1 (0, 0, 1) (normalizeAngle Gen.atol θ) (normalizeAngle Gen.atol θ / 2)))
        (some ⟨"CR", [.qubit 0, .qubit 1, .float θ]⟩)) = .ok (v1Line fmt v1 [0, 1] [.float θ]) ∧
      v1Meaning v1 [.float θ] = some op ∧
      Performs op (.gate (.ctrl 0 (.bsr 1 (0, 0, 1) (normalizeAngle Gen.atol θ) (normalizeAngle Gen.atol θ / 2)))
        (some ⟨"CR", [.qubit 0, .qubit 1, .float θ]⟩)) := by
  obtain ⟨v1, op, h1, -, -, h2, h3, h4⟩ := exportV1_denotes_gate fmt Gen.atol atol_gen_pos atol_gen_le
    (call_CR Gen.atol atol_gen_pos.le atol_gen_lt 0 1 θ (by decide))
  exact ⟨v1, op, h1, h2, h3, h4⟩

example (θ : ℝ) : v1Meaning "cr" [.float θ] = some (.ctrl !![1, 0; 0, Complex.exp (I * θ)]) := rfl
example (fmt : ℝ → String) (θ : ℝ) :
    v1Line fmt "cr" [0, 1] [.float θ] = "cr q[0], q[1], " ++ fmt θ ++ "\n" := by
  have e0 : showQubit 0 = "q[0]" := by decide
  have e1 : showQubit 1 = "q[1]" := by decide
  have e2 : "cr" ++ " " ++ ("q[0]" ++ ", " ++ "q[1]") = "cr q[0], q[1]" := by decide
  have e3 : "cr q[0], q[1]" ++ ", " = "cr q[0], q[1], " := by decide
  simp only [v1Line, List.map, String.intercalate_cons_cons, String.intercalate_singleton, showArg,
    e0, e1, e2, if_neg (List.cons_ne_nil _ _)]
  rw [← String.append_assoc (s₁ := "cr q[0], q[1]") (s₂ := ", "), e3]

/-- a circuit over the default library (tolerance `Gen.atol`): `H q[0]; /* c */; CNOT q[0], q[1]; measure; reset` -/
noncomputable def exStmts : List (Stmt ℝ) :=
  [.gate (.bsr 0 (1 / Real.sqrt 2, 0, 1 / Real.sqrt 2) Real.pi (Real.pi / 2)) (some ⟨"H", [.qubit 0]⟩),
   .comment "c",
   .gate (.ctrl 0 (.bsr 1 (1, 0, 0) Real.pi (Real.pi / 2))) (some ⟨"CNOT", [.qubit 0, .qubit 1]⟩),
   .measure 1 0 (0, 0, 1) (some ⟨"measure", [.qubit 1, .bit 0]⟩),
   .reset 1 (some ⟨"reset", [.qubit 1]⟩)]

theorem exStmts_exportable : ∀ s ∈ exStmts, Exportable (Gen.atol : ℝ) s := by
  intro s hs
  simp only [exStmts, List.mem_cons, List.not_mem_nil, or_false] at hs
  rcases hs with rfl | rfl | rfl | rfl | rfl
  · exact .inl (.gate (call_H _ atol_gen_pos atol_gen_le 0))
  · exact .inr (.inl ⟨_, rfl⟩)
  · exact .inl (.gate (call_CNOT _ atol_gen_pos atol_gen_le 0 1 (by decide)))
  · exact .inl (.measure (call_measure 1 0))
  · exact .inl (.reset (call_reset 1))

/-- the hypotheses of the program theorem are satisfiable, the export succeeds, and the conclusion applies -/
example (fmt : ℝ → String) : ∃ out lines, exportV1 fmt ⟨2, 1, exStmts⟩ = .ok out ∧
    out = rstripNl (v1Header 2 ++ String.join lines) ++ "\n" ∧
    List.Forall₂ (StmtLine fmt) exStmts lines ∧
    List.Forall₂ (InstrLine fmt) (exStmts.filter (fun s => !isComment s))
      (lines.filter (fun l => !isCommentBlock l)) := by
  obtain ⟨hiff, -, hden⟩ := exportV1_program_denotes fmt Gen.atol atol_gen_pos atol_gen_le ⟨2, 1, exStmts⟩
    exStmts_exportable
  obtain ⟨out, hout⟩ := hiff.2 (by
    intro s hs g
    simp only [exStmts, List.mem_cons, List.not_mem_nil, or_false] at hs
    rcases hs with rfl | rfl | rfl | rfl | rfl <;> intro e <;> cases e)
  obtain ⟨lines, h1, h2, h3⟩ := hden out hout
  exact ⟨out, lines, hout, h1, h2, h3⟩

/-- … four non-comment statements -/
example : (exStmts.filter (fun s => !isComment s)).length = 4 := by
  simp [exStmts, isComment]

/-- an anonymous gate makes the export fail with `UnsupportedGateError` -/
example (fmt : ℝ → String) (g : Gate ℝ) :
    exportV1 fmt ⟨2, 1, exStmts ++ [.gate g none]⟩ = .error .unsupported := by
  refine (exportV1_program_denotes fmt Gen.atol atol_gen_pos atol_gen_le ⟨2, 1, exStmts ++ [.gate g none]⟩ ?_).2.1
    ⟨.gate g none, by simp, g, rfl⟩
  intro s hs
  rcases List.mem_append.1 hs with hs | hs
  · exact exStmts_exportable s hs
  · simp only [List.mem_singleton] at hs; exact .inr (.inr ⟨g, hs⟩)

end V1Sem
end OSq

#print axioms OSq.V1Sem.callGate_cases
#print axioms OSq.V1Sem.callMeasure_cases
#print axioms OSq.V1Sem.callReset_cases
#print axioms OSq.V1Sem.toLower_names
#print axioms OSq.V1Sem.v1_name_table
#print axioms OSq.V1Sem.exportV1Stmt_gate_line
#print axioms OSq.V1Sem.libGate_denotes
#print axioms OSq.V1Sem.exportV1_denotes
#print axioms OSq.V1Sem.exportV1_denotes_gate
#print axioms OSq.V1Sem.exportV1_program_denotes
#print axioms OSq.V1Sem.builder_call_libStmt
#print axioms OSq.V1Sem.exportV1_built_denotes
#print axioms OSq.V1Sem.v1Meaning_x90_ne_mx90
#print axioms OSq.V1Sem.not_performs_swapped
#print axioms OSq.V1Sem.v1Meaning_cnot_ne_cz
