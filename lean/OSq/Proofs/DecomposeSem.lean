import OSq.Proofs.RotAlgebra
import OSq.Proofs.Construct
import OSq.Proofs.GateTable
import OSq.Proofs.Shape
import OSq.Proofs.Equality
import Mathlib.Tactic.Ring
import Mathlib.Tactic.Linarith
import Mathlib.Tactic.FinCases

/-
  OSq.Proofs.DecomposeSem — the built-in decomposers and the composition of rotations at the **operator level**:
  theorems about the gate lists the model emits (`abaDecompose`, `mckayDecompose`, `cnotDecompose`,
  `filterOutIdentities`, `composeRot` of `OSq/Model/Passes.lean`), read through the specification
  `OSq.Sem.rot` (2×2 complex matrices), at `α := ℝ`.  Single-gate part of C01 ("every built-in decomposition
  yields the same operation up to one global phase") and C02 ("composition is the operator product").

  Definitions
  * `opOf g`        the 2×2 operator of a gate statement: `rot a θ φ` for `(.bsr q a θ φ, _)`, `1` otherwise
  * `listOp l`      operator of a list in program order (first element applied first; later elements on the left)
  * `CrispId atol g`  the two tolerance tests of `is_identity` are honest on `g`

  Theorems
  * `listOp_append`            `listOp (l₁ ++ l₂) = listOp l₂ * listOp l₁`
  * `prod2_toMatrixOn`         the model's `prod2 l` (CNOT decomposer) is `listOp l`
  * `filter_identities_sem`    crisp identity tests ⇒ `listOp (filterOutIdentities atol l) = listOp l`
  * `axisLit_real`, `mkAxis_axisLit`, `named_rot_real`, `rotStmt_real`, `opOf_rotStmt`
                               the generated `Rx/Ry/Rz(q, θ)` at ℝ is `.bsr q e_i (normalizeAngle θ) 0`, operator `± R_{e_i}(θ)`
  * `abaDecompose_sem` (main)  all six A-B-A decomposers: `listOp out = z • rot n α φ`, `‖z‖ = 1`, all gates on `q`
  * `abaDecompose_ok`          … and the decomposer does not raise on a unit axis and an angle in range
  * `composeRot_sem`           `rot r = z • (rot a * rot b)`, `‖z‖ = 1`, for `composeRot atol a b = .ok r` (b first)
  McKay
  * `mckay_prod`               `Rz(φ)·X90·Rz(θ)·X90·Rz(λ) = (mcQ φ θ λ).toMat` (one explicit quaternion)
  * `mckayRaw`, `mckayAngles_real`   the model's `(λ, θ, φ)` at ℝ before / after `normalize_angle`
  * `mckay_generic_quat`, `mckay_generic_rot`   the generic formula: `Rz(φ)·X90·Rz(θ)·X90·Rz(λ) = rot n α 0` **exactly**
                               (no phase, no sign) for every unit axis and every angle, with the model's atan2 formulas
  * `listOp_mckayGeneric`, `mckay_generic_sem`  the emitted generic list (optional `Rz`s, `[X90, X90]` special case)
  * `listOp_mckay_shortcut`    the Z-X-Z path with `Rx(π/2)` replaced by `X90`
  * `rot_z_axis`               `R_{(0,0,±1)}(α) = Rz(±α)`
  * `mckay_sem`                all five paths: `listOp out = z • rot n α φ`, `‖z‖ = 1`, all gates on `q`
  CNOT (4×4 operators as block matrices over the control: `M4`, `bd Off On = |0⟩⟨0|⊗Off + |1⟩⟨1|⊗On`, `op4`, `listOp4`)
  * `bd_mul`, `bd_smul`, `bd_one`, `bd_inj`, `op4_target`, `op4_ctrl`, `op4_rz_control`
  * `ctrl_equiv_iff`           `bd Off On = s • bd 1 U ↔ Off = s•1 ∧ On = s•U` — the meaning of "controlled-U up to one
                               global phase" as two 2×2 identities with the same `s`
  * `filter_identities_sem4`   the identity filter on two-qubit lists (`CrispId4`)
  * `rot_axis_add`, `Xop_mul_self`, `X_conj_ry`, `X_conj_rz`   `Ri(a)Ri(b)=Ri(a+b)`, `X² = 1`, `X·Ry(θ)·X = Ry(−θ)`, `X·Rz(θ)·X = Rz(−θ)`
  * `cnot_off_branch`, `cnot_on_branch`   control off: `A·B·C = 1`; control on: `A·X·B·X·C = Rz(t2)·Ry(t1)·Rz(t0)`
  * `listOp4_cnot_general`     the unfiltered two-CNOT circuit as `ε • bd (e^{-iφ'/2}•1) (e^{iφ'/2}•Rz(t2)Ry(t1)Rz(t0))`
  * `cnot_general_sem`         general path of `cnotDecompose`: `listOp4 c t out = s • bd 1 (rot n α φ)`, `‖s‖ = 1`
  * `cnot_shortcut_phase`      matrix level: `W = μ•U`, `A·B = ε•1`, `ph = arg(U_l/W_l·ε)` ⇒ both branches carry `s = e^{-iph'/2}ε`
  * `shortcut_off_branch`, `shortcut_on_branch`, `listOp4_cnot_shortcut`   `A·B = 1`, `A·X·B = X·Rz(θ2)Ry(θ1)Rz(θ2)`
  * `shortcutPhase`, `cnot_form_shortcut`   the phase the model measures, and the exact output of the one-CNOT path with it
  * `prod2_n`, `xStmt_real`, `shortcutPhase_spec`   the measured phase in Mathlib vocabulary (pivot = an entry of maximal modulus)
  * `ShortcutCrisp`, `cnot_shortcut_sem`   one-CNOT path: guard crisp ⇒ `W ∝ U` ⇒ `listOp4 c t out = s • bd 1 (rot n α φ)`
  * `GeneralCrisp`, `cnot_sem`  both paths in one statement
  * `cnotDecompose_ok`         the decomposer succeeds as soon as `compose(X,U)` and the two Z-Y-Z computations do
  Examples (non-vacuity): `Rx(π/2)·e^{i/3}` through Z-Y-Z (`ex_abaAngles`); `X∘Z` composition; McKay on a rotation about
  `-z` and the generic identity at `Rx(1)`; controlled `e^{i/3}Rx(π/2)` through the two-CNOT path of `cnot_sem`
  (`dsEx2_compose`, `dsEx2_abaAngles`); `cnot_shortcut_phase` at `U = σx`, `W = iσx`.
-/
set_option linter.unnecessarySeqFocus false
set_option linter.unusedSimpArgs false
open Matrix

namespace OSq
open Sem Complex

/-! ### 0. The operator of a list of single-qubit gate statements -/

/-- the 2×2 operator of a single-qubit gate statement (`1` for anything that is not a plain rotation) -/
noncomputable def opOf : GStmt ℝ → Matrix (Fin 2) (Fin 2) ℂ
  | (.bsr _ a θ φ, _) => rot a θ φ
  | _ => 1

/-- the operator of a gate list in program order: the first element is applied first, so later elements
    stand on the left of the product -/
noncomputable def listOp : List (GStmt ℝ) → Matrix (Fin 2) (Fin 2) ℂ
  | [] => 1
  | g :: l => listOp l * opOf g

@[simp] theorem opOf_bsr (q : Int) (a : Vec3 ℝ) (θ φ : ℝ) (nm : Option (Named ℝ)) :
    opOf (.bsr q a θ φ, nm) = rot a θ φ := rfl
@[simp] theorem listOp_nil : listOp [] = 1 := rfl
@[simp] theorem listOp_cons (g : GStmt ℝ) (l : List (GStmt ℝ)) : listOp (g :: l) = listOp l * opOf g := rfl
theorem listOp_singleton (g : GStmt ℝ) : listOp [g] = opOf g := by simp

theorem listOp_append (l₁ l₂ : List (GStmt ℝ)) : listOp (l₁ ++ l₂) = listOp l₂ * listOp l₁ := by
  induction l₁ with
  | nil => simp
  | cons g l ih => simp [ih, Matrix.mul_assoc]

private theorem foldl_toMatrixOn (f : Mat ℝ → GStmt ℝ → Mat ℝ)
    (hf : ∀ acc g, (f acc g).toMatrixOn 2 = opOf g * acc.toMatrixOn 2) (l : List (GStmt ℝ)) (acc : Mat ℝ) :
    (l.foldl f acc).toMatrixOn 2 = listOp l * acc.toMatrixOn 2 := by
  induction l generalizing acc with
  | nil => simp
  | cons g l ih => rw [List.foldl_cons, ih, listOp_cons, Matrix.mul_assoc, hf]

/-- the model's `prod2` (used by the CNOT decomposer) computes `listOp` -/
theorem prod2_toMatrixOn (l : List (GStmt ℝ)) : (prod2 l).toMatrixOn 2 = listOp l := by
  unfold prod2
  rw [foldl_toMatrixOn, Mat.toMatrixOn_identity, Matrix.mul_one]
  rintro acc ⟨g, nm⟩
  cases g with
  | bsr q a θ φ =>
    show (Mat.mul (can1 a θ φ) acc).toMatrixOn 2 = rot a θ φ * _
    rw [Mat.toMatrixOn_mul' _ _ (can1_n a θ φ), can1_toMatrixOn]
  | matrix m ops => simp [opOf]
  | ctrl c g => simp [opOf]

/-! ### 1. The identity filter -/

/-- crispness of the two tolerance tests `is_identity` makes on a rotation -/
def CrispId (atol : ℝ) (g : GStmt ℝ) : Prop :=
  ∀ q a θ φ, g.1 = .bsr q a θ φ → (|θ| < atol → θ = 0) ∧ (|φ| < atol → φ = 0)

theorem opOf_of_isIdentity {atol : ℝ} {g : GStmt ℝ} (hc : CrispId atol g)
    (h : g.1.isIdentity atol = true) : opOf g = 1 := by
  obtain ⟨g, nm⟩ := g
  cases g with
  | bsr q a θ φ =>
    obtain ⟨h1, h2⟩ := hc q a θ φ rfl
    exact isIdentity_bsr_crisp atol q a θ φ h1 h2 h
  | matrix m ops => rfl
  | ctrl c g => rfl

/-- **filter_identities_sem**: removing the gates that test as identity does not change the operator, provided
    the tests are crisp on every rotation of the list. -/
theorem filter_identities_sem (atol : ℝ) (l : List (GStmt ℝ)) (hc : ∀ g ∈ l, CrispId atol g) :
    listOp (filterOutIdentities atol l) = listOp l := by
  induction l with
  | nil => rfl
  | cons g l ih =>
    have ih' := ih (fun g' hg' => hc g' (List.mem_cons_of_mem _ hg'))
    unfold filterOutIdentities at ih' ⊢
    rw [List.filter_cons]
    cases hid : g.1.isIdentity atol with
    | true =>
      simp only [Bool.not_true, Bool.false_eq_true, if_false]
      rw [ih', listOp_cons, opOf_of_isIdentity (hc g List.mem_cons_self) hid, Matrix.mul_one]
    | false =>
      simp only [Bool.not_false, if_true]
      rw [listOp_cons, listOp_cons, ih']

/-! ### the generated `Rx/Ry/Rz/X90/X` at ℝ -/

theorem axisLit_real (i : Nat) : (axisLit i : Vec3 ℝ) = eAxis i := by
  unfold axisLit eAxis
  split <;> simp [intToScalar]

theorem mkAxis_axisLit (i : Nat) : mkAxis (axisLit i : Vec3 ℝ) = .ok (eAxis i) := by
  rw [axisLit_real]; exact mkAxis_of_unit _ (eAxis_unit i)

theorem mkAxis_axisLit_inj {i : Nat} {ax : Vec3 ℝ} (h : mkAxis (axisLit i : Vec3 ℝ) = .ok ax) : ax = eAxis i := by
  rw [mkAxis_axisLit] at h; injection h with h; exact h.symm

theorem nA_sc0 (atol : ℝ) (h0 : 0 ≤ atol) (h1 : atol < Real.pi) : normalizeAngle atol (sc 0 : ℝ) = 0 := by
  simpa using GateTable.nA_zero' atol h0 h1

/-- `R_i(q, θ)` at ℝ: the rotation about `e_i` with the normalised angle and phase `0` -/
theorem rotStmt_real (atol : ℝ) (h0 : 0 ≤ atol) (h1 : atol < Real.pi) (nme : String) (q : Int) (i : Nat) (θ : ℝ) :
    rotStmt atol nme q (eAxis i) θ
      = (.bsr q (eAxis i) (normalizeAngle atol θ) 0, some ⟨nme, [.qubit q, .float θ]⟩) := by
  unfold rotStmt; rw [nA_sc0 atol h0 h1]

theorem named_rot_real (atol : ℝ) (h0 : 0 ≤ atol) (h1 : atol < Real.pi) (i : Nat) (q : Int) (θ : ℝ) :
    named atol (rotName i) [.qubit q, .float θ]
      = .ok (.bsr q (eAxis i) (normalizeAngle atol θ) 0, some ⟨rotName i, [.qubit q, .float θ]⟩) := by
  rw [(named_rot_iff atol i q θ _).2 ⟨eAxis i, mkAxis_axisLit i, rfl⟩, rotStmt_real atol h0 h1]

/-- the operator of an emitted `R_i(θ)`: `± R_{e_i}(θ)` (the sign comes from `normalize_angle`) -/
theorem opOf_rotStmt (atol : ℝ) (h0 : 0 ≤ atol) (h1 : atol < Real.pi) (nme : String) (q : Int) (i : Nat) (θ : ℝ) :
    ∃ k : ℤ, opOf (rotStmt atol nme q (eAxis i) θ) = ((-1 : ℂ) ^ k) • rot (eAxis i) θ 0 := by
  rw [rotStmt_real atol h0 h1]
  obtain ⟨k, -, hk⟩ := GateTable.rot_nA atol θ (eAxis i)
  exact ⟨k, hk⟩

theorem norm_neg_one_zpow (k : ℤ) : ‖((-1 : ℂ) ^ k)‖ = 1 := by
  rw [norm_zpow]; simp

theorem norm_exp_I_mul (x : ℝ) : ‖Complex.exp (I * x)‖ = 1 := GateTable.norm_exp_I_mul x

theorem norm_exp_neg_I_mul (x : ℝ) : ‖Complex.exp (-(I * x))‖ = 1 := by
  have := GateTable.norm_exp_I_mul (-x)
  simpa using this

/-! ### 2. A-B-A decomposition -/

/-- the operator of the unfiltered A-B-A triple is `± R_a(θ3)·R_b(θ2)·R_a(θ1)` -/
theorem listOp_aba_triple (atol : ℝ) (h0 : 0 ≤ atol) (h1 : atol < Real.pi) (q : Int) (ia ib : Nat)
    (na nb : String) (t1 t2 t3 : ℝ) :
    ∃ k : ℤ, listOp [rotStmt atol na q (eAxis ia) t1, rotStmt atol nb q (eAxis ib) t2,
        rotStmt atol na q (eAxis ia) t3]
      = ((-1 : ℂ) ^ k) • (rot (eAxis ia) t3 0 * rot (eAxis ib) t2 0 * rot (eAxis ia) t1 0) := by
  obtain ⟨k1, e1⟩ := opOf_rotStmt atol h0 h1 na q ia t1
  obtain ⟨k2, e2⟩ := opOf_rotStmt atol h0 h1 nb q ib t2
  obtain ⟨k3, e3⟩ := opOf_rotStmt atol h0 h1 na q ia t3
  refine ⟨k3 + k2 + k1, ?_⟩
  simp only [listOp_cons, listOp_nil, Matrix.one_mul, e1, e2, e3]
  rw [smul_mul_smul_comm, smul_mul_smul_comm, zpow_add₀ (by norm_num : (-1 : ℂ) ≠ 0),
    zpow_add₀ (by norm_num : (-1 : ℂ) ≠ 0)]

/-- a crisp angle test makes the identity filter crisp on an emitted `R_i(θ)` -/
theorem crispId_rotStmt (atol : ℝ) (h0 : 0 ≤ atol) (h1 : atol < Real.pi) (nme : String) (q : Int) (i : Nat) (θ : ℝ)
    (hθ : |normalizeAngle atol θ| < atol → normalizeAngle atol θ = 0) :
    CrispId atol (rotStmt atol nme q (eAxis i) θ) := by
  rw [rotStmt_real atol h0 h1]
  intro q' a θ' ψ he
  injection he with _ _ hθ' hψ
  subst hθ' hψ
  exact ⟨hθ, fun _ => rfl⟩

/-- the unfiltered triple `A(θ1), B(θ2), A(θ3)` of an A-B-A decomposition denotes the input up to a global phase -/
theorem aba_triple_sem (atol : ℝ) (k : ABAKind) (q : Int) (n : Vec3 ℝ) (α φ : ℝ)
    (hat : 0 < atol) (hat' : atol < Real.pi) (hn : n.1^2 + n.2.1^2 + n.2.2^2 = 1)
    (h1 : -Real.pi + atol ≤ α) (h2 : α < Real.pi + atol)
    (hcπ : |α - Real.pi| < atol → α = Real.pi)
    (hca : |α - Real.pi| < atol → |Vec3.get n k.ia| < atol → Vec3.get n k.ia = 0)
    (hcs : ¬ (|α - Real.pi| < atol ∧ |Vec3.get n k.ia| < atol) →
           Real.sin (α / 2)^2 * ((Vec3.get n k.ib)^2 + (Vec3.get n k.ic)^2) < atol^2 →
           Real.sin (α / 2)^2 * ((Vec3.get n k.ib)^2 + (Vec3.get n k.ic)^2) = 0)
    {t1 t2 t3 : ℝ} (hang : abaAngles atol k α n = .ok (t1, t2, t3)) :
    ∃ z : ℂ, ‖z‖ = 1 ∧
      listOp [rotStmt atol (rotName k.ia) q (eAxis k.ia) t1, rotStmt atol (rotName k.ib) q (eAxis k.ib) t2,
        rotStmt atol (rotName k.ia) q (eAxis k.ia) t3] = z • rot n α φ := by
  obtain ⟨j, hj⟩ := listOp_aba_triple atol hat.le hat' q k.ia k.ib (rotName k.ia) (rotName k.ib) t1 t2 t3
  rw [hj, aba_rot_phase φ (aba_rot atol k α n hat hn h1 h2 hcπ hca hcs hang), smul_smul]
  refine ⟨_, ?_, rfl⟩
  rw [norm_mul, norm_neg_one_zpow, norm_exp_neg_I_mul, one_mul]

/-- **abaDecompose_sem** (main).  Let `g = R_n(α, φ)` on qubit `q` with `n` a unit axis and `α ∈ [-π+atol, π+atol)`
    (what the constructor produces).  Under the crisp hypotheses of `aba_crisp` (tests `α ≈ π`, `a ≈ 0`,
    `sin(θ2/2) ≈ 0`) and crispness of the identity filter on the three emitted angles, every successful run of
    any of the six A-B-A decomposers returns a list of rotations on `q` whose operator (program order) equals the
    operator of `g` up to one global phase `z`, `‖z‖ = 1` (`z = ± e^{-iφ}`: the emitted gates carry no phase). -/
theorem abaDecompose_sem (atol : ℝ) (k : ABAKind) (q : Int) (n : Vec3 ℝ) (α φ : ℝ) (nm : Option (Named ℝ))
    (out : List (GStmt ℝ))
    (hat : 0 < atol) (hat' : atol < Real.pi) (hn : n.1^2 + n.2.1^2 + n.2.2^2 = 1)
    (h1 : -Real.pi + atol ≤ α) (h2 : α < Real.pi + atol)
    (hcπ : |α - Real.pi| < atol → α = Real.pi)
    (hca : |α - Real.pi| < atol → |Vec3.get n k.ia| < atol → Vec3.get n k.ia = 0)
    (hcs : ¬ (|α - Real.pi| < atol ∧ |Vec3.get n k.ia| < atol) →
           Real.sin (α / 2)^2 * ((Vec3.get n k.ib)^2 + (Vec3.get n k.ic)^2) < atol^2 →
           Real.sin (α / 2)^2 * ((Vec3.get n k.ib)^2 + (Vec3.get n k.ic)^2) = 0)
    (hfil : ∀ t1 t2 t3, abaAngles atol k α n = .ok (t1, t2, t3) → ∀ t ∈ [t1, t2, t3],
           |normalizeAngle atol t| < atol → normalizeAngle atol t = 0)
    (h : abaDecompose atol k (.bsr q n α φ, nm) = .ok out) :
    (∃ z : ℂ, ‖z‖ = 1 ∧ listOp out = z • rot n α φ) ∧
    (∀ g ∈ out, ∃ a θ ψ, g.1 = .bsr q a θ ψ) := by
  obtain ⟨t1, t2, t3, axA, axB, hang, hA, hB, rfl⟩ := aba_form h
  obtain rfl := mkAxis_axisLit_inj hA
  obtain rfl := mkAxis_axisLit_inj hB
  have hf := hfil t1 t2 t3 hang
  constructor
  · rw [filter_identities_sem]
    · exact aba_triple_sem atol k q n α φ hat hat' hn h1 h2 hcπ hca hcs hang
    · intro g hg
      simp only [List.mem_cons, List.not_mem_nil, or_false] at hg
      rcases hg with rfl | rfl | rfl <;>
      · exact crispId_rotStmt atol hat.le hat' _ q _ _ (hf _ (by simp))
  · intro g hg
    have := (filterOutIdentities_sublist atol _).subset hg
    simp only [List.mem_cons, List.not_mem_nil, or_false] at this
    rcases this with rfl | rfl | rfl <;> exact ⟨_, _, _, rfl⟩

/-- totality: under the range hypotheses an A-B-A decomposition of a unit-axis rotation never raises -/
theorem abaDecompose_ok (atol : ℝ) (k : ABAKind) (q : Int) (n : Vec3 ℝ) (α φ : ℝ) (nm : Option (Named ℝ))
    (hat : 0 ≤ atol) (hat' : atol < Real.pi) (hn : n.1^2 + n.2.1^2 + n.2.2^2 = 1)
    (h1 : -Real.pi + atol ≤ α) (h2 : α ≤ Real.pi + atol) :
    ∃ out, abaDecompose atol k (.bsr q n α φ, nm) = .ok out := by
  obtain ⟨⟨t1, t2, t3⟩, h⟩ := ABA.aba_total atol k α n hn h1 h2
  unfold abaDecompose
  simp only [h, named_rot_real atol hat hat', bind, Except.bind, pure, Except.pure]
  exact ⟨_, rfl⟩

/-! non-vacuity: `Rx(π/2)` (with a phase) through the Z-Y-Z decomposer -/

theorem ex_abaAngles : abaAngles (1 / 1000 : ℝ) .ZYZ (Real.pi / 2) (1, 0, 0)
    = .ok (Real.pi / 2, Real.pi / 2, -(Real.pi / 2)) := by
  have hpi := Real.two_le_pi
  have hnp : ¬ |Real.pi / 2 - Real.pi| < (1 / 1000 : ℝ) := by
    rw [abs_of_neg (by linarith)]; linarith
  have h4 : Real.pi / 2 / 2 = Real.pi / 4 := by ring
  have hc : 0 < Real.cos (Real.pi / 4) := by rw [Real.cos_pi_div_four]; positivity
  have hs2 : Real.sqrt 2 * Real.sqrt 2 = 2 := Real.mul_self_sqrt (by norm_num)
  have hs : ¬ |Real.sin (Real.pi / 4)| < (1 / 1000 : ℝ) := by
    rw [Real.sin_pi_div_four, abs_of_pos (by positivity)]
    have : 1 ≤ Real.sqrt 2 := by nlinarith [Real.sqrt_nonneg 2]
    linarith
  rw [ABA.abaAngles_unit _ _ _ _ (by norm_num) (by linarith) (by linarith)]
  have hp : ABA.atan2 0 (Real.cos (Real.pi / 4)) = 0 := by
    unfold ABA.atan2
    have : (⟨Real.cos (Real.pi / 4), 0⟩ : ℂ) = ((Real.cos (Real.pi / 4) : ℝ) : ℂ) := rfl
    rw [this, Complex.arg_ofReal_of_nonneg hc.le]
  have hθ2 : ABA.csgn (2 * Real.arccos (ABA.clamp (Real.cos (Real.pi / 4)))) (Real.pi / 2) = Real.pi / 2 := by
    rw [ABA.clamp_of_mem (by linarith) (Real.cos_le_one _), Real.arccos_cos (by linarith) (by linarith)]
    unfold ABA.csgn
    rw [if_pos (by linarith), abs_of_nonneg (by linarith)]; ring
  have hm : ABA.csgn (2 * Real.arccos (ABA.clamp 0)) 1 = Real.pi := by
    rw [ABA.clamp_of_mem (by norm_num) (by norm_num), Real.arccos_zero]
    unfold ABA.csgn
    rw [if_pos (by norm_num), abs_of_nonneg (by linarith)]; ring
  have hptm : ABA.ptm (1 / 1000) 0 0 1 (Real.pi / 2) = (0, Real.pi / 2, Real.pi) := by
    unfold ABA.ptm
    rw [if_neg hnp]
    simp only [h4, zero_mul, mul_zero, add_zero, Real.sqrt_one, mul_one, hp, hθ2, if_neg hs, zero_div, hm]
  simp only [ABAKind.ia, ABAKind.ib, ABAKind.ic, Vec3.get, hptm, ABA.finish, ABAKind.sinMNeg]
  norm_num

example : ∃ out, abaDecompose (1 / 1000 : ℝ) .ZYZ (.bsr 0 (1, 0, 0) (Real.pi / 2) (1 / 3), none) = .ok out ∧
    (∃ z : ℂ, ‖z‖ = 1 ∧ listOp out = z • rot (1, 0, 0) (Real.pi / 2) (1 / 3)) := by
  have hpi := Real.two_le_pi
  have hnp : ¬ |Real.pi / 2 - Real.pi| < (1 / 1000 : ℝ) := by
    rw [abs_of_neg (by linarith)]; linarith
  obtain ⟨out, h⟩ := abaDecompose_ok (1 / 1000) .ZYZ 0 (1, 0, 0) (Real.pi / 2) (1 / 3) none (by norm_num)
    (by linarith) (by norm_num) (by linarith) (by linarith)
  refine ⟨out, h, (abaDecompose_sem (1 / 1000) .ZYZ 0 (1, 0, 0) (Real.pi / 2) (1 / 3) none out (by norm_num)
    (by linarith) (by norm_num) (by linarith) (by linarith) (fun h => absurd h hnp) (fun h => absurd h hnp)
    ?_ ?_ h).1⟩
  · intro _ h
    exfalso
    simp only [ABAKind.ib, ABAKind.ic, ABAKind.ia, Vec3.get] at h
    have : Real.sin (Real.pi / 2 / 2) = Real.sqrt 2 / 2 := by
      rw [show Real.pi / 2 / 2 = Real.pi / 4 by ring, Real.sin_pi_div_four]
    rw [this] at h
    have hs : Real.sqrt 2 * Real.sqrt 2 = 2 := Real.mul_self_sqrt (by norm_num)
    nlinarith [hs]
  · intro t1 t2 t3 he t ht habs
    rw [ex_abaAngles] at he
    injection he with he
    simp only [Prod.mk.injEq] at he
    obtain ⟨rfl, rfl, rfl⟩ := he
    exfalso
    simp only [List.mem_cons, List.not_mem_nil, or_false, or_self_left] at ht
    rcases ht with rfl | rfl
    · rw [normalizeAngle_id_of_window _ _ (by norm_num) (by linarith) (by linarith) (by linarith),
        abs_of_pos (by linarith)] at habs
      linarith
    · rw [normalizeAngle_id_of_window _ _ (by norm_num) (by linarith) (by linarith) (by linarith),
        abs_of_neg (by linarith)] at habs
      linarith

/-! ### 3. Composition of two rotations -/

theorem exp_I_add_int_two_pi (x : ℝ) (m : ℤ) :
    Complex.exp (I * ((x + m * (2 * Real.pi) : ℝ) : ℂ)) = Complex.exp (I * x) := by
  rw [show I * ((x + m * (2 * Real.pi) : ℝ) : ℂ) = I * x + m * (2 * Real.pi * I) by push_cast; ring,
    Complex.exp_add, Complex.exp_int_mul_two_pi_mul_I, mul_one]

/-- **composeRot_sem**: under the crisp / exact-rounding hypotheses of `compose_crisp`, the rotation returned by
    `composeRot atol a b` denotes the operator product `U_a · U_b` (`b` applied first) up to one global phase.
    (In the identity branch the result is the bare identity rotation: the phases of `a` and `b` are dropped —
    that is where `z` is not just a sign.) -/
theorem composeRot_sem (atol : ℝ) (hatol : 0 < atol) (a b r : Rot ℝ)
    (ha : UnitVec a.axis) (hb : UnitVec b.axis)
    (h : composeRot atol a b = .ok r)
    (hcrisp : |Real.sin (cTheta a b / 2)| < atol → Real.sin (cTheta a b / 2) = 0)
    (hround : ¬ |Real.sin (cTheta a b / 2)| < atol →
      roundTo s7 (cAxis a b).1 = (cAxis a b).1 ∧ roundTo s7 (cAxis a b).2.1 = (cAxis a b).2.1 ∧
      roundTo s7 (cAxis a b).2.2 = (cAxis a b).2.2 ∧
      roundTo s7 (a.phase + b.phase) = a.phase + b.phase) :
    ∃ z : ℂ, ‖z‖ = 1 ∧
      rot r.axis r.angle r.phase = z • (rot a.axis a.angle a.phase * rot b.axis b.angle b.phase) := by
  rw [rot_mul_rot]
  obtain ⟨_, _, hc | hc⟩ := compose_crisp atol hatol a b r ha hb h hcrisp hround
  · obtain ⟨_, _, hr, _, hm⟩ := hc
    have hr1 : rot r.axis r.angle r.phase = 1 := by
      rw [hr]; simp [identityRot, rot_zero]
    have hq : a.quat * b.quat = quat a.axis a.angle * quat b.axis b.angle := rfl
    rw [hr1, ← hq]
    rcases hm with hm | hm
    · refine ⟨Complex.exp (-(I * ((a.phase + b.phase : ℝ) : ℂ))), norm_exp_neg_I_mul _, ?_⟩
      rw [hm, Quat.toMat_one, smul_smul, ← Complex.exp_add]; simp
    · refine ⟨-Complex.exp (-(I * ((a.phase + b.phase : ℝ) : ℂ))), by rw [norm_neg]; exact norm_exp_neg_I_mul _, ?_⟩
      rw [hm, Quat.toMat_neg, Quat.toMat_one, smul_smul, neg_mul, ← Complex.exp_add]; simp
  · obtain ⟨_, _, _, _, hq, ⟨m, hm⟩, _, _⟩ := hc
    have hq' : a.quat * b.quat = quat a.axis a.angle * quat b.axis b.angle := rfl
    rw [rot_eq_quat, hm, exp_I_add_int_two_pi, ← hq']
    have hrq : quat r.axis r.angle = r.quat := rfl
    rw [hrq]
    rcases hq with hq | hq
    · exact ⟨1, by simp, by rw [hq, one_smul]⟩
    · exact ⟨-1, by simp, by rw [hq, Quat.toMat_neg]; simp⟩

/-- non-vacuity: `X`-half-turn after `Z`-half-turn (general branch), see `Compose.lean` for the hypotheses -/
example : ∃ r, composeRot (1 / 10 ^ 7 : ℝ) exX exZ = .ok r ∧ ∃ z : ℂ, ‖z‖ = 1 ∧
    rot r.axis r.angle r.phase = z • (rot (1, 0, 0) Real.pi 0 * rot (0, 0, 1) Real.pi 0) := by
  have hs : ¬ |Real.sin (cTheta exX exZ / 2)| < (1 / 10 ^ 7 : ℝ) := by
    rw [ex_cTheta, Real.sin_pi_div_two]; norm_num
  have hr : roundTo s7 (cAxis exX exZ).1 = (cAxis exX exZ).1 ∧
      roundTo s7 (cAxis exX exZ).2.1 = (cAxis exX exZ).2.1 ∧
      roundTo s7 (cAxis exX exZ).2.2 = (cAxis exX exZ).2.2 := by
    rw [ex_cAxis]
    refine ⟨roundTo_exact _ 0 (by simp), roundTo_exact _ (-10000000) (by rw [s7_eq]; norm_num),
      roundTo_exact _ 0 (by simp)⟩
  have hp : roundTo s7 (exX.phase + exZ.phase) = exX.phase + exZ.phase :=
    roundTo_exact _ 0 (by simp [exX, exZ])
  obtain ⟨r, h⟩ := compose_ok_of_crisp (1 / 10 ^ 7) (by norm_num) exX exZ exX_unit exZ_unit rfl (fun _ => hr)
  exact ⟨r, h, composeRot_sem (1 / 10 ^ 7) (by norm_num) exX exZ r exX_unit exZ_unit h
    (fun h => absurd h hs) (fun _ => ⟨hr.1, hr.2.1, hr.2.2, hp⟩)⟩

/-! ### 4. McKay decomposition -/

/-- the quaternion of `Rz(φ)·X90·Rz(θ)·X90·Rz(λ)` -/
noncomputable def mcQ (φ θ lam : ℝ) : ABA.Q :=
  ⟨-(Real.sin (θ / 2) * Real.sin ((φ + lam) / 2)), Real.cos (θ / 2) * Real.cos ((φ - lam) / 2),
   Real.cos (θ / 2) * Real.sin ((φ - lam) / 2), Real.sin (θ / 2) * Real.cos ((φ + lam) / 2)⟩

theorem x90_rz_x90 (θ : ℝ) :
    ABA.Q.ofAxisAngle 0 (Real.pi / 2) * ABA.Q.ofAxisAngle 2 θ * ABA.Q.ofAxisAngle 0 (Real.pi / 2)
      = ⟨0, Real.cos (θ / 2), 0, Real.sin (θ / 2)⟩ := by
  have h4 : Real.pi / 2 / 2 = Real.pi / 4 := by ring
  have hs2 : Real.sqrt 2 * Real.sqrt 2 = 2 := Real.mul_self_sqrt (by norm_num)
  ext <;> simp [ABA.Q.ofAxisAngle, ABA.Q.mul_def, ABA.Q.mul, h4] <;> ring_nf <;> simp [Real.sq_sqrt] <;> ring

theorem rz_mul_rz (φ X Z lam : ℝ) :
    ABA.Q.ofAxisAngle 2 φ * ⟨0, X, 0, Z⟩ * ABA.Q.ofAxisAngle 2 lam
      = ⟨-(Z * Real.sin ((φ + lam) / 2)), X * Real.cos ((φ - lam) / 2), X * Real.sin ((φ - lam) / 2),
         Z * Real.cos ((φ + lam) / 2)⟩ := by
  have e1 : (φ + lam) / 2 = φ / 2 + lam / 2 := by ring
  have e2 : (φ - lam) / 2 = φ / 2 - lam / 2 := by ring
  rw [e1, e2, Real.sin_add, Real.cos_add, Real.sin_sub, Real.cos_sub]
  ext <;> simp [ABA.Q.ofAxisAngle, ABA.Q.mul_def, ABA.Q.mul] <;> ring

/-- **the McKay product** as one quaternion -/
theorem mckay_prod (φ θ lam : ℝ) :
    rot (eAxis 2) φ 0 * rot (eAxis 0) (Real.pi / 2) 0 * rot (eAxis 2) θ 0 * rot (eAxis 0) (Real.pi / 2) 0
      * rot (eAxis 2) lam 0 = (mcQ φ θ lam).toMat := by
  have h := congrArg ABA.Q.toMat (x90_rz_x90 θ)
  rw [ABA.Q.toMat_mul, ABA.Q.toMat_mul] at h
  have h2 := congrArg ABA.Q.toMat (rz_mul_rz φ (Real.cos (θ / 2)) (Real.sin (θ / 2)) lam)
  rw [ABA.Q.toMat_mul, ABA.Q.toMat_mul, ← h] at h2
  simp only [rot_axis]
  simp only [Matrix.mul_assoc] at h2 ⊢
  exact h2

/-- the un-normalised Euler angles `(λ, θ, φ)` of the generic McKay path (`mckay_decomposer.py`) at ℝ -/
noncomputable def mckayRaw (n : Vec3 ℝ) (α : ℝ) : ℝ × ℝ × ℝ :=
  let sh := Real.sin (α / 2)
  let ch := Real.cos (α / 2)
  let zaMod := Real.sqrt (ch * ch + (n.2.2 * sh) * (n.2.2 * sh))
  let zbMod := |sh| * Real.sqrt (n.1 * n.1 + n.2.1 * n.2.1)
  let theta := Real.pi - 2 * Complex.arg ⟨zaMod, zbMod⟩
  let alpha := Complex.arg ⟨ch, -sh * n.2.2⟩
  let beta := Complex.arg ⟨-sh * n.2.1, -sh * n.1⟩
  (beta - alpha, theta, -beta - alpha - Real.pi)

theorem mckayAngles_real (atol : ℝ) (n : Vec3 ℝ) (α : ℝ) :
    mckayAngles atol n α = (normalizeAngle atol (mckayRaw n α).1, normalizeAngle atol (mckayRaw n α).2.1,
      normalizeAngle atol (mckayRaw n α).2.2) := by
  simp only [mckayAngles, mckayRaw, trig_sin_real, trig_cos_real, trig_sqrt_real, trig_atan2_real, two_real,
    pi_real, absS_real]

/-- **the generic McKay formula** (real trigonometry): with the model's `θ, α, β, λ, φ` (before normalisation) the
    quaternion of `Rz(φ)·X90·Rz(θ)·X90·Rz(λ)` is exactly the quaternion of `R_n(α)`, for every unit axis and angle. -/
theorem mckay_generic_quat (n : Vec3 ℝ) (α : ℝ) (hn : n.1^2 + n.2.1^2 + n.2.2^2 = 1) :
    mcQ (mckayRaw n α).2.2 (mckayRaw n α).2.1 (mckayRaw n α).1 = ABA.Q.ofRot n α := by
  obtain ⟨nx, ny, nz⟩ := n
  simp only at hn
  simp only [mckayRaw]
  set sh := Real.sin (α / 2) with hsh
  set ch := Real.cos (α / 2) with hch
  have hcs : sh ^ 2 + ch ^ 2 = 1 := Real.sin_sq_add_cos_sq (α / 2)
  set zaMod := Real.sqrt (ch * ch + (nz * sh) * (nz * sh)) with hza
  set zbMod := |sh| * Real.sqrt (nx * nx + ny * ny) with hzb
  have hza2 : zaMod ^ 2 = ch * ch + (nz * sh) * (nz * sh) :=
    Real.sq_sqrt (add_nonneg (mul_self_nonneg _) (mul_self_nonneg _))
  have hzb2 : zbMod ^ 2 = sh ^ 2 * (nx * nx + ny * ny) := by
    rw [hzb, mul_pow, sq_abs, Real.sq_sqrt (add_nonneg (mul_self_nonneg _) (mul_self_nonneg _))]
  have nza : ‖(⟨ch, -sh * nz⟩ : ℂ)‖ = zaMod := by
    rw [ABA.norm_mk, hza]; congr 1; ring
  have nzb : ‖(⟨-sh * ny, -sh * nx⟩ : ℂ)‖ = zbMod := by
    rw [ABA.norm_mk, hzb, ← Real.sqrt_sq_eq_abs, ← Real.sqrt_mul (sq_nonneg sh)]; congr 1; ring
  have nw : ‖(⟨zaMod, zbMod⟩ : ℂ)‖ = 1 := by
    rw [ABA.norm_mk, hza2, hzb2]
    have : ch * ch + nz * sh * (nz * sh) + sh ^ 2 * (nx * nx + ny * ny) = 1 := by nlinarith
    rw [this, Real.sqrt_one]
  have a1 := Complex.norm_mul_cos_arg (⟨ch, -sh * nz⟩ : ℂ)
  have a2 := Complex.norm_mul_sin_arg (⟨ch, -sh * nz⟩ : ℂ)
  have b1 := Complex.norm_mul_cos_arg (⟨-sh * ny, -sh * nx⟩ : ℂ)
  have b2 := Complex.norm_mul_sin_arg (⟨-sh * ny, -sh * nx⟩ : ℂ)
  have c1 := Complex.norm_mul_cos_arg (⟨zaMod, zbMod⟩ : ℂ)
  have c2 := Complex.norm_mul_sin_arg (⟨zaMod, zbMod⟩ : ℂ)
  rw [nza] at a1 a2; rw [nzb] at b1 b2; rw [nw, one_mul] at c1 c2
  simp only at a1 a2 b1 b2 c1 c2
  set al := Complex.arg ⟨ch, -sh * nz⟩
  set be := Complex.arg ⟨-sh * ny, -sh * nx⟩
  set ga := Complex.arg ⟨zaMod, zbMod⟩
  have e1 : (Real.pi - 2 * ga) / 2 = Real.pi / 2 - ga := by ring
  have e2 : (-be - al - Real.pi + (be - al)) / 2 = -(al + Real.pi / 2) := by ring
  have e3 : (-be - al - Real.pi - (be - al)) / 2 = -(be + Real.pi / 2) := by ring
  unfold mcQ ABA.Q.ofRot
  simp only [e1, e2, e3, Real.sin_pi_div_two_sub, Real.cos_pi_div_two_sub, Real.sin_neg, Real.cos_neg,
    Real.sin_add_pi_div_two, Real.cos_add_pi_div_two, c1, c2]
  ext <;> simp only <;> [linarith; linarith; linarith; linarith]

/-- at the operator level: the generic McKay circuit with the un-normalised angles is `R_n(α)` exactly -/
theorem mckay_generic_rot (n : Vec3 ℝ) (α : ℝ) (hn : n.1^2 + n.2.1^2 + n.2.2^2 = 1) :
    rot (eAxis 2) (mckayRaw n α).2.2 0 * rot (eAxis 0) (Real.pi / 2) 0 * rot (eAxis 2) (mckayRaw n α).2.1 0
      * rot (eAxis 0) (Real.pi / 2) 0 * rot (eAxis 2) (mckayRaw n α).1 0 = rot n α 0 := by
  rw [mckay_prod, mckay_generic_quat n α hn, rot_eq_qMat0]

/-! #### the emitted `X90` and optional `Rz` at ℝ -/

theorem x90Stmt_real (atol : ℝ) (h0 : 0 ≤ atol) (h1 : atol < Real.pi) (q : Int) :
    x90Stmt atol q (eAxis 0) = (.bsr q (eAxis 0) (Real.pi / 2) 0, some ⟨"X90", [.qubit q]⟩) := by
  have hpi := Real.pi_pos
  unfold x90Stmt
  rw [nA_sc0 atol h0 h1]
  have : (π / sc 2 : ℝ) = Real.pi / 2 := by simp
  rw [this, normalizeAngle_id_of_window atol _ h0 h1 (by linarith) (by linarith)]

theorem opOf_x90Stmt (atol : ℝ) (h0 : 0 ≤ atol) (h1 : atol < Real.pi) (q : Int) :
    opOf (x90Stmt atol q (eAxis 0)) = rot (eAxis 0) (Real.pi / 2) 0 := by
  rw [x90Stmt_real atol h0 h1]; rfl

/-- `X90` is the standard matrix -/
theorem opOf_x90Stmt_std (atol : ℝ) (h0 : 0 ≤ atol) (h1 : atol < Real.pi) (q : Int) :
    opOf (x90Stmt atol q (eAxis 0)) = GateTable.Std.X90 := by
  rw [opOf_x90Stmt atol h0 h1]; exact GateTable.rot_X90

/-- an optional `Rz(x)` on an already normalised angle, crisp test `|x| ≤ atol → x = 0`: its operator is `Rz(x)` -/
theorem listOp_optRz (atol : ℝ) (h0 : 0 ≤ atol) (h1 : atol < Real.pi) (q : Int) (x : ℝ)
    (hx : normalizeAngle atol x = x) (hc : ¬ atol < |x| → x = 0) :
    listOp (optRz atol q (eAxis 2) x) = rot (eAxis 2) x 0 := by
  unfold optRz
  by_cases h : atol < absS x
  · rw [if_pos h, listOp_singleton, rotStmt_real atol h0 h1, opOf_bsr, hx]
  · rw [if_neg h, hc h, rot_zero]; rfl

theorem mcQ_same (x : ℝ) : mcQ x 0 x = mcQ 0 0 0 := by
  simp [mcQ]

/-- the operator of the generic McKay output for normalised angles `(λ, θ, φ)` under crisp tests -/
theorem listOp_mckayGeneric (atol : ℝ) (h0 : 0 ≤ atol) (h1 : atol < Real.pi) (q : Int) (lam θ φ : ℝ)
    (hl : normalizeAngle atol lam = lam) (hθ : normalizeAngle atol θ = θ) (hφ : normalizeAngle atol φ = φ)
    (cl : ¬ atol < |lam| → lam = 0) (cθ : ¬ atol < |θ| → θ = 0) (cφ : ¬ atol < |φ| → φ = 0) :
    listOp (mckayGeneric atol q (eAxis 0) (eAxis 2) (lam, θ, φ))
      = rot (eAxis 2) φ 0 * rot (eAxis 0) (Real.pi / 2) 0 * rot (eAxis 2) θ 0 * rot (eAxis 0) (Real.pi / 2) 0
        * rot (eAxis 2) lam 0 := by
  unfold mckayGeneric
  simp only [absS_real, decEqB_real, Bool.and_eq_true, decide_eq_true_eq]
  split_ifs with h
  · obtain ⟨hθ0, hlφ⟩ := h
    have hθ0 := of_decide_eq_true hθ0
    have : θ = 0 := cθ (by linarith)
    subst this
    subst hlφ
    rw [mckay_prod, mcQ_same, ← mckay_prod]
    simp [listOp_cons, opOf_x90Stmt atol h0 h1, rot_zero]
  · simp only [listOp_append, listOp_singleton, opOf_x90Stmt atol h0 h1, listOp_optRz atol h0 h1 q _ hl cl,
      listOp_optRz atol h0 h1 q _ hθ cθ, listOp_optRz atol h0 h1 q _ hφ cφ, Matrix.mul_assoc]

/-- **generic path** of the McKay decomposer: its output denotes `R_n(α, φ)` up to a global phase -/
theorem mckay_generic_sem (atol : ℝ) (h0 : 0 ≤ atol) (h1 : atol < Real.pi) (q : Int) (n : Vec3 ℝ) (α φ : ℝ)
    (hn : n.1^2 + n.2.1^2 + n.2.2^2 = 1)
    (hc : ∀ x ∈ [(mckayAngles atol n α).1, (mckayAngles atol n α).2.1, (mckayAngles atol n α).2.2],
      ¬ atol < |x| → x = 0) :
    ∃ z : ℂ, ‖z‖ = 1 ∧
      listOp (mckayGeneric atol q (eAxis 0) (eAxis 2) (mckayAngles atol n α)) = z • rot n α φ := by
  rw [mckayAngles_real] at hc ⊢
  rw [listOp_mckayGeneric atol h0 h1 q _ _ _ (normalizeAngle_idem _ _ h0 h1) (normalizeAngle_idem _ _ h0 h1)
    (normalizeAngle_idem _ _ h0 h1) (hc _ (by simp)) (hc _ (by simp)) (hc _ (by simp))]
  obtain ⟨k1, -, e1⟩ := GateTable.rot_nA atol (mckayRaw n α).1 (eAxis 2)
  obtain ⟨k2, -, e2⟩ := GateTable.rot_nA atol (mckayRaw n α).2.1 (eAxis 2)
  obtain ⟨k3, -, e3⟩ := GateTable.rot_nA atol (mckayRaw n α).2.2 (eAxis 2)
  rw [e1, e2, e3]
  simp only [smul_mul_assoc, mul_smul_comm, smul_smul]
  rw [mckay_generic_rot n α hn, rot_phase_smul n α φ]
  refine ⟨(-1) ^ k3 * ((-1) ^ k2 * (-1) ^ k1) * Complex.exp (-(I * φ)), ?_, ?_⟩
  · simp only [norm_mul, norm_neg_one_zpow, norm_exp_neg_I_mul, one_mul]
  · rw [smul_smul, mul_assoc, ← Complex.exp_add]; simp
    congr 1; ring

/-- a rotation about `±z` is an `Rz` with the signed angle -/
theorem rot_z_axis (c α : ℝ) (hc : c ^ 2 = 1) : rot (eAxis 2) (α * c) 0 = rot (0, 0, c) α 0 := by
  have : c = 1 ∨ c = -1 := by
    have : (c - 1) * (c + 1) = 0 := by ring_nf; linarith
    rcases mul_eq_zero.mp this with h | h
    · left; linarith
    · right; linarith
  rcases this with rfl | rfl
  · rw [mul_one]; rfl
  · have := rot_neg_neg (0, 0, 1) (α * -1) 0
    show rot (0, 0, 1) (α * -1) 0 = _
    rw [← this]
    congr 1
    · simp
    · ring

/-- **Z-X-Z shortcut path**: `filter [Rz θ1] ++ X90 :: filter [Rz θ3]` has the operator of the unfiltered
    `[Rz θ1, Rx θ2, Rz θ3]` when the guard `θ2 ≈ π/2` and the identity filter are crisp -/
theorem listOp_mckay_shortcut (atol : ℝ) (h0 : 0 ≤ atol) (h1 : atol < Real.pi) (q : Int) (t1 t2 t3 : ℝ)
    (c1 : |normalizeAngle atol t1| < atol → normalizeAngle atol t1 = 0)
    (c3 : |normalizeAngle atol t3| < atol → normalizeAngle atol t3 = 0)
    (c2 : normalizeAngle atol t2 = Real.pi / 2) :
    listOp (filterOutIdentities atol [rotStmt atol "Rz" q (eAxis 2) t1] ++ x90Stmt atol q (eAxis 0) ::
      filterOutIdentities atol [rotStmt atol "Rz" q (eAxis 2) t3])
    = listOp [rotStmt atol "Rz" q (eAxis 2) t1, rotStmt atol "Rx" q (eAxis 0) t2, rotStmt atol "Rz" q (eAxis 2) t3] := by
  rw [listOp_append, listOp_cons, filter_identities_sem, filter_identities_sem]
  · simp only [listOp_cons, listOp_nil, Matrix.one_mul, opOf_x90Stmt atol h0 h1]
    rw [rotStmt_real atol h0 h1 "Rx", opOf_bsr, c2, Matrix.mul_assoc]
  · intro g hg
    simp only [List.mem_cons, List.not_mem_nil, or_false] at hg
    subst hg
    exact crispId_rotStmt atol h0 h1 _ q _ _ c1
  · intro g hg
    simp only [List.mem_cons, List.not_mem_nil, or_false] at hg
    subst hg
    exact crispId_rotStmt atol h0 h1 _ q _ _ c3

/-- the input reaches the Z-X-Z / generic part of the McKay decomposer: not already native, not a null rotation,
    not a rotation about `z` -/
def McKayDeep (atol : ℝ) (n : Vec3 ℝ) (α : ℝ) (nm : Option (Named ℝ)) : Prop :=
  ¬ (nm.map (·.name) = some "Rz" ∨ nm.map (·.name) = some "X90") ∧ ¬ |α| < atol ∧ ¬ (n.1 = 0 ∧ n.2.1 = 0)

/-- **mckay_sem**: the McKay decomposer (`Rz`/`X90` basis), all five paths.  For `g = R_n(α, φ)` on `q` with `n`
    a unit axis and `α ∈ [-π+atol, π+atol)`, under crisp hypotheses for every tolerance test the code makes
    (null-angle test; the Z-X-Z tests of `aba_crisp`; the identity filter on `θ1, θ3` and the guard `θ2 ≈ π/2` of the
    shortcut; the `|x| > atol` tests on the three normalised angles of the generic path — all of these only needed
    when the input reaches that part, `McKayDeep`), every successful run returns rotations on `q` whose operator is
    the operator of `g` up to one global phase. -/
theorem mckay_sem (atol : ℝ) (q : Int) (n : Vec3 ℝ) (α φ : ℝ) (nm : Option (Named ℝ)) (out : List (GStmt ℝ))
    (hat : 0 < atol) (hat' : atol < Real.pi) (hn : n.1^2 + n.2.1^2 + n.2.2^2 = 1)
    (h1 : -Real.pi + atol ≤ α) (h2 : α < Real.pi + atol)
    (hnull : |α| < atol → α = 0)
    (hcπ : McKayDeep atol n α nm → |α - Real.pi| < atol → α = Real.pi)
    (hca : McKayDeep atol n α nm → |α - Real.pi| < atol → |n.2.2| < atol → n.2.2 = 0)
    (hcs : McKayDeep atol n α nm → ¬ (|α - Real.pi| < atol ∧ |n.2.2| < atol) →
           Real.sin (α / 2)^2 * (n.1^2 + n.2.1^2) < atol^2 → Real.sin (α / 2)^2 * (n.1^2 + n.2.1^2) = 0)
    (hzxz : McKayDeep atol n α nm → ∀ t1 t2 t3, abaAngles atol .ZXZ α n = .ok (t1, t2, t3) →
           (∀ t ∈ [t1, t3], |normalizeAngle atol t| < atol → normalizeAngle atol t = 0) ∧
           (|normalizeAngle atol t2 - Real.pi / 2| < atol → normalizeAngle atol t2 = Real.pi / 2))
    (hgen : McKayDeep atol n α nm →
           ∀ x ∈ [(mckayAngles atol n α).1, (mckayAngles atol n α).2.1, (mckayAngles atol n α).2.2],
           ¬ atol < |x| → x = 0)
    (h : mckayDecompose atol (.bsr q n α φ, nm) = .ok out) :
    (∃ z : ℂ, ‖z‖ = 1 ∧ listOp out = z • rot n α φ) ∧
    (∀ g ∈ out, ∃ a θ ψ, g.1 = .bsr q a θ ψ) := by
  constructor
  swap
  · intro g hg
    rcases (mckay_shape h).1 g hg with ⟨_, _, _, _, rfl⟩ | ⟨_, _, _, _, rfl⟩ <;> exact ⟨_, _, _, rfl⟩
  rcases mckay_form h with ⟨-, rfl⟩ | ⟨hP, ⟨hA, rfl⟩ | ⟨hnA, ⟨hZ, axZ, hZax, rfl⟩ |
    ⟨hnZ, t1, t2, t3, axX, axZ, hang, hX, hZ, ⟨-, hg, rfl⟩ | ⟨-, rfl⟩⟩⟩⟩
  · -- (1) native
    exact ⟨1, by simp, by simp⟩
  · -- (2) null rotation
    have hα : α = 0 := hnull hA
    subst hα
    refine ⟨Complex.exp (-(I * φ)), norm_exp_neg_I_mul φ, ?_⟩
    rw [rot_angle_zero, smul_smul, ← Complex.exp_add]; simp
  · -- (3) rotation about z
    obtain rfl := mkAxis_axisLit_inj hZax
    simp only [decEqB_real, zero_real, Bool.and_eq_true, decide_eq_true_eq] at hZ
    obtain ⟨nx, ny, nz⟩ := n
    simp only at hZ hn
    obtain ⟨rfl, rfl⟩ := hZ
    have hnz : nz ^ 2 = 1 := by linarith
    obtain ⟨k, hk⟩ := opOf_rotStmt atol hat.le hat' "Rz" q 2 (α * nz)
    rw [listOp_singleton, hk, rot_z_axis nz α hnz, rot_phase_smul (0, 0, nz) α φ]
    refine ⟨(-1) ^ k * Complex.exp (-(I * φ)), ?_, ?_⟩
    · rw [norm_mul, norm_neg_one_zpow, norm_exp_neg_I_mul, one_mul]
    · rw [smul_smul, mul_assoc, ← Complex.exp_add]; simp
  · -- (4) Z-X-Z shortcut
    have hD : McKayDeep atol n α nm := ⟨hP, hnA, by
      simpa [decEqB_real, zero_real] using hnZ⟩
    obtain rfl := mkAxis_axisLit_inj hX
    obtain rfl := mkAxis_axisLit_inj hZ
    obtain ⟨hf, hguard⟩ := hzxz hD t1 t2 t3 hang
    have hg' : |normalizeAngle atol t2 - Real.pi / 2| < atol := by simpa using hg
    rw [listOp_mckay_shortcut atol hat.le hat' q t1 t2 t3 (hf _ (by simp)) (hf _ (by simp)) (hguard hg')]
    exact aba_triple_sem atol .ZXZ q n α φ hat hat' hn h1 h2 (hcπ hD) (hca hD) (hcs hD) hang
  · -- (5) generic path
    have hD : McKayDeep atol n α nm := ⟨hP, hnA, by
      simpa [decEqB_real, zero_real] using hnZ⟩
    obtain rfl := mkAxis_axisLit_inj hX
    obtain rfl := mkAxis_axisLit_inj hZ
    exact mckay_generic_sem atol hat.le hat' q n α φ hn (hgen hD)

/-- non-vacuity of the generic McKay identity: `Rx(1)` -/
example : rot (eAxis 2) (mckayRaw (1, 0, 0) 1).2.2 0 * rot (eAxis 0) (Real.pi / 2) 0
      * rot (eAxis 2) (mckayRaw (1, 0, 0) 1).2.1 0 * rot (eAxis 0) (Real.pi / 2) 0
      * rot (eAxis 2) (mckayRaw (1, 0, 0) 1).1 0 = rot (1, 0, 0) 1 0 :=
  mckay_generic_rot (1, 0, 0) 1 (by norm_num)

/-- non-vacuity of `mckay_sem`: a rotation by `1` about `-z` with a phase (path 3) -/
example : ∃ out, mckayDecompose (1 / 1000 : ℝ) (.bsr 0 (0, 0, -1) 1 (1 / 3), none) = .ok out ∧
    ∃ z : ℂ, ‖z‖ = 1 ∧ listOp out = z • rot (0, 0, -1) 1 (1 / 3) := by
  have hpi := Real.two_le_pi
  have hnn : ¬ |(1 : ℝ)| < 1 / 1000 := by norm_num
  have hok : ∃ out, mckayDecompose (1 / 1000 : ℝ) (.bsr 0 (0, 0, -1) 1 (1 / 3), none) = .ok out := by
    rw [mckayDecompose_bsr_eq]
    simp only [GStmt.name?, Option.map_none, absS_real, hnn, if_false, decEqB_real, zero_real]
    have := named_rot_real (1 / 1000) (by norm_num) (by linarith) 2 0 ((1 : ℝ) * (-1))
    simp only [rotName] at this
    simp only [if_true, decide_true, Bool.and_self, this, bind, Except.bind, pure, Except.pure]
    exact ⟨_, rfl⟩
  obtain ⟨out, h⟩ := hok
  have hD : ¬ McKayDeep (1 / 1000) (0, 0, -1) 1 none := fun hD => hD.2.2 ⟨rfl, rfl⟩
  exact ⟨out, h, (mckay_sem (1 / 1000) 0 (0, 0, -1) 1 (1 / 3) none out (by norm_num) (by linarith) (by norm_num)
    (by linarith) (by linarith) (fun h => absurd h hnn) (fun h => absurd h hD) (fun h => absurd h hD)
    (fun h => absurd h hD) (fun h => absurd h hD) (fun h => absurd h hD) h).1⟩

/-! ### 5. CNOT decomposition: two-qubit operators that are block matrices w.r.t. the control -/

/-- 4×4 operators on (control, target), the control being the block index: `Fin 2 ⊕ Fin 2`, first summand =
    control off -/
abbrev M4 := Matrix (Fin 2 ⊕ Fin 2) (Fin 2 ⊕ Fin 2) ℂ

/-- block-diagonal operator `|0⟩⟨0| ⊗ A + |1⟩⟨1| ⊗ B` : `A` acts on the target when the control is off, `B` when on -/
noncomputable def bd (A B : Matrix (Fin 2) (Fin 2) ℂ) : M4 := Matrix.fromBlocks A 0 0 B

theorem bd_mul (A B C D : Matrix (Fin 2) (Fin 2) ℂ) : bd A B * bd C D = bd (A * C) (B * D) := by
  simp [bd, Matrix.fromBlocks_multiply]
theorem bd_one : bd 1 1 = 1 := Matrix.fromBlocks_one
theorem bd_smul (z : ℂ) (A B : Matrix (Fin 2) (Fin 2) ℂ) : z • bd A B = bd (z • A) (z • B) := by
  simp [bd, Matrix.fromBlocks_smul]
theorem bd_inj {A B C D : Matrix (Fin 2) (Fin 2) ℂ} (h : bd A B = bd C D) : A = C ∧ B = D := by
  have := Matrix.fromBlocks_inj.mp h
  exact ⟨this.1, this.2.2.2⟩

/-- the 4×4 operator on (control `c`, target `t`) of a gate statement: a rotation on `t` is `1 ⊗ R`, a rotation
    on `c` is `R ⊗ 1`, a controlled rotation `c → t` is `|0⟩⟨0| ⊗ 1 + |1⟩⟨1| ⊗ R` (anything else: `1`, unused). -/
noncomputable def op4 (c t : Int) : GStmt ℝ → M4
  | (.bsr q a θ φ, _) =>
      if q = t then bd (rot a θ φ) (rot a θ φ)
      else if q = c then
        Matrix.fromBlocks ((rot a θ φ 0 0) • 1) ((rot a θ φ 0 1) • 1) ((rot a θ φ 1 0) • 1) ((rot a θ φ 1 1) • 1)
      else 1
  | (.ctrl c' (.bsr t' a θ φ), _) => if c' = c ∧ t' = t then bd 1 (rot a θ φ) else 1
  | _ => 1

/-- program order: the first element is applied first -/
noncomputable def listOp4 (c t : Int) : List (GStmt ℝ) → M4
  | [] => 1
  | g :: l => listOp4 c t l * op4 c t g

@[simp] theorem listOp4_nil (c t : Int) : listOp4 c t [] = 1 := rfl
@[simp] theorem listOp4_cons (c t : Int) (g : GStmt ℝ) (l : List (GStmt ℝ)) :
    listOp4 c t (g :: l) = listOp4 c t l * op4 c t g := rfl

theorem op4_target (c t : Int) (a : Vec3 ℝ) (θ φ : ℝ) (nm : Option (Named ℝ)) :
    op4 c t (.bsr t a θ φ, nm) = bd (rot a θ φ) (rot a θ φ) := by simp [op4]

theorem op4_ctrl (c t : Int) (a : Vec3 ℝ) (θ φ : ℝ) (nm : Option (Named ℝ)) :
    op4 c t (.ctrl c (.bsr t a θ φ), nm) = bd 1 (rot a θ φ) := by simp [op4]

/-- `Rz(θ)` on the control: the phase `e^{-iθ/2}` on the control-off block and `e^{iθ/2}` on the control-on block -/
theorem op4_rz_control (c t : Int) (hct : c ≠ t) (θ : ℝ) (nm : Option (Named ℝ)) :
    op4 c t (.bsr c (eAxis 2) θ 0, nm)
      = bd (Complex.exp (-(I * (θ / 2 : ℝ))) • 1) (Complex.exp (I * (θ / 2 : ℝ)) • 1) := by
  have h := GateTable.rot_z θ 0
  simp only [Complex.ofReal_zero, mul_zero, Complex.exp_zero, one_smul] at h
  have h' : rot (eAxis 2) θ 0 = GateTable.Std.Rz θ := h
  simp only [op4, if_neg hct, if_true, h', GateTable.Std.Rz, bd]
  congr 1 <;> simp

/-- crispness of the identity test on rotations and on controlled rotations -/
def CrispId4 (atol : ℝ) (g : GStmt ℝ) : Prop :=
  CrispId atol g ∧
  ∀ c' q a θ φ, g.1 = .ctrl c' (.bsr q a θ φ) → (|θ| < atol → θ = 0) ∧ (|φ| < atol → φ = 0)

theorem op4_of_isIdentity (c t : Int) {atol : ℝ} {g : GStmt ℝ} (hc : CrispId4 atol g)
    (h : g.1.isIdentity atol = true) : op4 c t g = 1 := by
  obtain ⟨g, nm⟩ := g
  cases g with
  | bsr q a θ φ =>
    obtain ⟨h1, h2⟩ := hc.1 q a θ φ rfl
    have hr := isIdentity_bsr_crisp atol q a θ φ h1 h2 h
    simp only [op4, hr, bd]
    split_ifs
    · exact Matrix.fromBlocks_one
    · simp [Matrix.fromBlocks_one]
    · rfl
  | matrix m ops => rfl
  | ctrl c' g' =>
    cases g' with
    | bsr q a θ φ =>
      obtain ⟨h1, h2⟩ := hc.2 c' q a θ φ rfl
      have hr := isIdentity_bsr_crisp atol q a θ φ h1 h2 h
      simp only [op4, hr, bd]
      split_ifs
      · exact Matrix.fromBlocks_one
      · rfl
    | matrix m ops => rfl
    | ctrl c'' g'' => rfl

theorem filter_identities_sem4 (c t : Int) (atol : ℝ) (l : List (GStmt ℝ)) (hc : ∀ g ∈ l, CrispId4 atol g) :
    listOp4 c t (filterOutIdentities atol l) = listOp4 c t l := by
  induction l with
  | nil => rfl
  | cons g l ih =>
    have ih' := ih (fun g' hg' => hc g' (List.mem_cons_of_mem _ hg'))
    unfold filterOutIdentities at ih' ⊢
    rw [List.filter_cons]
    cases hid : g.1.isIdentity atol with
    | true =>
      simp only [Bool.not_true, Bool.false_eq_true, if_false]
      rw [ih', listOp4_cons, op4_of_isIdentity c t (hc g List.mem_cons_self) hid, Matrix.mul_one]
    | false =>
      simp only [Bool.not_false, if_true]
      rw [listOp4_cons, listOp4_cons, ih']

/-! #### rotation algebra used by the CNOT decomposer -/

/-- rotations about one coordinate axis add their angles -/
theorem rot_axis_add (i : Nat) (a b : ℝ) :
    rot (eAxis i) a 0 * rot (eAxis i) b 0 = rot (eAxis i) (a + b) 0 := by
  simp only [rot_axis]
  rw [← ABA.Q.toMat_mul]
  congr 1
  have e : (a + b) / 2 = a / 2 + b / 2 := by ring
  unfold ABA.Q.ofAxisAngle
  split <;> (ext <;> simp [ABA.Q.mul_def, ABA.Q.mul, e, Real.cos_add, Real.sin_add] <;> ring)

theorem rot_axis_neg_cancel (i : Nat) (a : ℝ) : rot (eAxis i) a 0 * rot (eAxis i) (-a) 0 = 1 := by
  rw [rot_axis_add, add_neg_cancel, rot_zero]

/-- the operator of the table's `X` gate -/
noncomputable def Xop : Matrix (Fin 2) (Fin 2) ℂ := rot (eAxis 0) Real.pi (Real.pi / 2)

theorem Xop_eq : Xop = σx := GateTable.rot_X

theorem Xop_mul_self : Xop * Xop = 1 := by
  rw [Xop_eq, σx]; ext i j; fin_cases i <;> fin_cases j <;> simp [Matrix.mul_apply, Fin.sum_univ_two]

/-- `X·Ry(θ)·X = Ry(−θ)` -/
theorem X_conj_ry (θ : ℝ) : Xop * rot (eAxis 1) θ 0 * Xop = rot (eAxis 1) (-θ) 0 := by
  have h1 := GateTable.rot_y θ 0
  have h2 := GateTable.rot_y (-θ) 0
  simp only [Complex.ofReal_zero, mul_zero, Complex.exp_zero, one_smul] at h1 h2
  show Xop * rot (0, 1, 0) θ 0 * Xop = rot (0, 1, 0) (-θ) 0
  rw [h1, h2, Xop_eq, σx, GateTable.Std.Ry, GateTable.Std.Ry, neg_div, Real.cos_neg, Real.sin_neg]
  ext i j; fin_cases i <;> fin_cases j <;> simp [Matrix.mul_apply, Fin.sum_univ_two]

/-- `X·Rz(θ)·X = Rz(−θ)` -/
theorem X_conj_rz (θ : ℝ) : Xop * rot (eAxis 2) θ 0 * Xop = rot (eAxis 2) (-θ) 0 := by
  have h1 := GateTable.rot_z θ 0
  have h2 := GateTable.rot_z (-θ) 0
  simp only [Complex.ofReal_zero, mul_zero, Complex.exp_zero, one_smul] at h1 h2
  show Xop * rot (0, 0, 1) θ 0 * Xop = rot (0, 0, 1) (-θ) 0
  rw [h1, h2, Xop_eq, σx, GateTable.Std.Rz, GateTable.Std.Rz]
  ext i j; fin_cases i <;> fin_cases j <;> simp [Matrix.mul_apply, Fin.sum_univ_two, neg_div]

/-- `CNOT(c, t)` at ℝ -/
theorem cnotStmt_real (atol : ℝ) (h0 : 0 < atol) (h1 : atol < Real.pi) (c t : Int) :
    cnotStmt atol c t (eAxis 0)
      = (.ctrl c (.bsr t (eAxis 0) Real.pi (Real.pi / 2)), some ⟨"CNOT", [.qubit c, .qubit t]⟩) := by
  have hpi := Real.pi_pos
  unfold cnotStmt
  have e : (π / sc 2 : ℝ) = Real.pi / 2 := by simp
  rw [e, pi_real, normalizeAngle_id_of_window atol _ h0.le h1 (by linarith) (by linarith),
    normalizeAngle_id_of_window atol _ h0.le h1 (by linarith) (by linarith)]

theorem op4_cnotStmt (atol : ℝ) (h0 : 0 < atol) (h1 : atol < Real.pi) (c t : Int) :
    op4 c t (cnotStmt atol c t (eAxis 0)) = bd 1 Xop := by
  rw [cnotStmt_real atol h0 h1, op4_ctrl]; rfl

theorem crispId4_cnotStmt (atol : ℝ) (h0 : 0 < atol) (h1 : atol ≤ Real.pi / 2) (c t : Int) :
    CrispId4 atol (cnotStmt atol c t (eAxis 0)) := by
  have hpi := Real.pi_pos
  rw [cnotStmt_real atol h0 (by linarith)]
  constructor
  · intro _ _ _ _ he; cases he
  · intro c' q a θ φ he
    injection he with _ he
    injection he with _ _ hθ hφ
    subst hθ hφ
    refine ⟨fun h => ?_, fun h => ?_⟩
    · rw [abs_of_pos hpi] at h; linarith
    · rw [abs_of_pos (by linarith)] at h; linarith

/-- **control off**: the target gates of the two-CNOT form cancel -/
theorem cnot_off_branch (t0 t1 t2 : ℝ) :
    rot (eAxis 2) t2 0 * (rot (eAxis 1) (t1 / 2) 0 * (rot (eAxis 1) (-t1 / 2) 0 *
      (rot (eAxis 2) (-(t0 + t2) / 2) 0 * rot (eAxis 2) ((t0 - t2) / 2) 0))) = 1 := by
  rw [rot_axis_add, ← Matrix.mul_assoc (rot (eAxis 1) (t1 / 2) 0), rot_axis_add,
    show t1 / 2 + -t1 / 2 = 0 by ring, rot_zero, Matrix.one_mul, rot_axis_add,
    show t2 + (-(t0 + t2) / 2 + (t0 - t2) / 2) = 0 by ring, rot_zero]

/-- **control on**: with the two `X` in place the target gates compose to `Rz(t2)·Ry(t1)·Rz(t0)` -/
theorem cnot_on_branch (t0 t1 t2 : ℝ) :
    rot (eAxis 2) t2 0 * (rot (eAxis 1) (t1 / 2) 0 * (Xop * (rot (eAxis 1) (-t1 / 2) 0 *
      (rot (eAxis 2) (-(t0 + t2) / 2) 0 * (Xop * rot (eAxis 2) ((t0 - t2) / 2) 0)))))
      = rot (eAxis 2) t2 0 * rot (eAxis 1) t1 0 * rot (eAxis 2) t0 0 := by
  have key : Xop * (rot (eAxis 1) (-t1 / 2) 0 * (rot (eAxis 2) (-(t0 + t2) / 2) 0 *
      (Xop * rot (eAxis 2) ((t0 - t2) / 2) 0)))
      = (Xop * rot (eAxis 1) (-t1 / 2) 0 * Xop) * ((Xop * rot (eAxis 2) (-(t0 + t2) / 2) 0 * Xop) *
          rot (eAxis 2) ((t0 - t2) / 2) 0) := by
    simp only [Matrix.mul_assoc]
    rw [← Matrix.mul_assoc Xop Xop, Xop_mul_self, Matrix.one_mul]
  rw [key, X_conj_ry, X_conj_rz, rot_axis_add, ← Matrix.mul_assoc (rot (eAxis 1) (t1 / 2) 0), rot_axis_add,
    show t1 / 2 + -(-t1 / 2) = t1 by ring, show -(-(t0 + t2) / 2) + (t0 - t2) / 2 = t0 by ring,
    Matrix.mul_assoc]

theorem op4_rotStmt_target (atol : ℝ) (h0 : 0 ≤ atol) (h1 : atol < Real.pi) (nme : String) (c t : Int) (i : Nat)
    (θ : ℝ) : ∃ k : ℤ, op4 c t (rotStmt atol nme t (eAxis i) θ)
      = ((-1 : ℂ) ^ k) • bd (rot (eAxis i) θ 0) (rot (eAxis i) θ 0) := by
  obtain ⟨k, -, hk⟩ := GateTable.rot_nA atol θ (eAxis i)
  exact ⟨k, by rw [rotStmt_real atol h0 h1, op4_target, hk, bd_smul]⟩

theorem op4_rotStmt_control (atol : ℝ) (h0 : 0 ≤ atol) (h1 : atol < Real.pi) (c t : Int) (hct : c ≠ t) (ph : ℝ) :
    op4 c t (rotStmt atol "Rz" c (eAxis 2) ph)
      = bd (Complex.exp (-(I * (normalizeAngle atol ph / 2 : ℝ))) • 1)
           (Complex.exp (I * (normalizeAngle atol ph / 2 : ℝ)) • 1) := by
  rw [rotStmt_real atol h0 h1, op4_rz_control c t hct]

/-- the unfiltered two-CNOT circuit as a block matrix: a common unit factor `ε` (the `normalize_angle` signs of the
    five target rotations), the control phase `e^{∓iφ'/2}` and, in the control-on block, `Rz(t2)·Ry(t1)·Rz(t0)` -/
theorem listOp4_cnot_general (atol : ℝ) (h0 : 0 < atol) (h1 : atol < Real.pi) (c t : Int) (hct : c ≠ t)
    (t0 t1 t2 ph : ℝ) :
    ∃ ε : ℂ, ‖ε‖ = 1 ∧
      listOp4 c t [rotStmt atol "Rz" t (eAxis 2) ((t0 - t2) / 2), cnotStmt atol c t (eAxis 0),
        rotStmt atol "Rz" t (eAxis 2) (-(t0 + t2) / 2), rotStmt atol "Ry" t (eAxis 1) (-t1 / 2),
        cnotStmt atol c t (eAxis 0), rotStmt atol "Ry" t (eAxis 1) (t1 / 2), rotStmt atol "Rz" t (eAxis 2) t2,
        rotStmt atol "Rz" c (eAxis 2) ph]
      = ε • bd (Complex.exp (-(I * (normalizeAngle atol ph / 2 : ℝ))) • 1)
            (Complex.exp (I * (normalizeAngle atol ph / 2 : ℝ)) •
              (rot (eAxis 2) t2 0 * rot (eAxis 1) t1 0 * rot (eAxis 2) t0 0)) := by
  obtain ⟨k1, e1⟩ := op4_rotStmt_target atol h0.le h1 "Rz" c t 2 ((t0 - t2) / 2)
  obtain ⟨k2, e2⟩ := op4_rotStmt_target atol h0.le h1 "Rz" c t 2 (-(t0 + t2) / 2)
  obtain ⟨k3, e3⟩ := op4_rotStmt_target atol h0.le h1 "Ry" c t 1 (-t1 / 2)
  obtain ⟨k4, e4⟩ := op4_rotStmt_target atol h0.le h1 "Ry" c t 1 (t1 / 2)
  obtain ⟨k5, e5⟩ := op4_rotStmt_target atol h0.le h1 "Rz" c t 2 t2
  refine ⟨(-1) ^ k5 * ((-1) ^ k4 * ((-1) ^ k3 * ((-1) ^ k2 * (-1) ^ k1))), ?_, ?_⟩
  · simp only [norm_mul, norm_neg_one_zpow, one_mul]
  · simp only [listOp4_cons, listOp4_nil, Matrix.one_mul, e1, e2, e3, e4, e5, op4_cnotStmt atol h0 h1,
      op4_rotStmt_control atol h0.le h1 c t hct]
    simp only [smul_mul_assoc, mul_smul_comm, smul_smul, bd_mul, Matrix.one_mul, Matrix.mul_one,
      Matrix.mul_assoc, Matrix.smul_mul, cnot_off_branch, cnot_on_branch]
    rw [← Matrix.mul_assoc]
    congr 1; ring

theorem crispId4_rotStmt (atol : ℝ) (h0 : 0 ≤ atol) (h1 : atol < Real.pi) (nme : String) (q : Int) (i : Nat) (θ : ℝ)
    (hθ : |normalizeAngle atol θ| < atol → normalizeAngle atol θ = 0) :
    CrispId4 atol (rotStmt atol nme q (eAxis i) θ) := by
  refine ⟨crispId_rotStmt atol h0 h1 nme q i θ hθ, ?_⟩
  rw [rotStmt_real atol h0 h1]
  intro _ _ _ _ _ he; cases he

/-- the control phase bookkeeping: `e^{iφ'/2} = e^{-iφ'/2}·e^{iφ}` when `φ' ≡ φ (mod 2π)` -/
theorem ctrl_phase_split (φ φ' : ℝ) (k : ℤ) (hk : φ' = φ + 2 * Real.pi * k) :
    Complex.exp (I * (φ' / 2 : ℝ)) = Complex.exp (-(I * (φ' / 2 : ℝ))) * Complex.exp (I * φ) := by
  rw [← Complex.exp_add, Complex.exp_eq_exp_iff_exists_int]
  refine ⟨k, ?_⟩
  rw [hk]; push_cast; ring

/-- **"the emitted circuit is controlled-`U` up to one global phase"**, as the two 2×2 branch identities: a
    block-diagonal circuit `bd Off On` equals `s • (|0⟩⟨0| ⊗ 1 + |1⟩⟨1| ⊗ U)` iff the control-off block is `s • 1`
    and the control-on block is `s • U` — with the **same** `s`. -/
theorem ctrl_equiv_iff (Off On U : Matrix (Fin 2) (Fin 2) ℂ) (s : ℂ) :
    bd Off On = s • bd 1 U ↔ (Off = s • 1 ∧ On = s • U) := by
  rw [bd_smul]
  constructor
  · intro h; exact bd_inj h
  · rintro ⟨rfl, rfl⟩; rfl

/-- **cnot_sem, general (two-CNOT) path.**  For `g = ControlledGate(c, R_n(α, φ) on t)` with `n` a unit axis and
    `α ∈ [-π+atol, π+atol)`: if the guard of the one-CNOT shortcut does not fire, the Z-Y-Z tests of `aba_crisp` on
    `(n, α)` are crisp and the identity filter is crisp on the six emitted angles, then the emitted circuit
    `C · CNOT · B · CNOT · A · Rz_c(φ)` is, as a 4×4 block matrix over the control, `s • (|0⟩⟨0|⊗1 + |1⟩⟨1|⊗U)` with
    `‖s‖ = 1`, `U = R_n(α, φ)`: control off `A·B·C·e^{-iφ'/2} = s•1`, control on `A·X·B·X·C·e^{iφ'/2} = s•U` — the
    relative phase of the two branches is exactly the one the `Rz` on the control supplies. -/
theorem cnot_general_sem (atol : ℝ) (c t : Int) (n : Vec3 ℝ) (α φ : ℝ) (nm : Option (Named ℝ))
    (out : List (GStmt ℝ))
    (hat : 0 < atol) (hat' : atol ≤ Real.pi / 2) (hn : n.1^2 + n.2.1^2 + n.2.2^2 = 1)
    (h1 : -Real.pi + atol ≤ α) (h2 : α < Real.pi + atol)
    (hcπ : |α - Real.pi| < atol → α = Real.pi)
    (hca : |α - Real.pi| < atol → |n.2.2| < atol → n.2.2 = 0)
    (hcs : ¬ (|α - Real.pi| < atol ∧ |n.2.2| < atol) →
           Real.sin (α / 2)^2 * (n.2.1^2 + n.1^2) < atol^2 → Real.sin (α / 2)^2 * (n.2.1^2 + n.1^2) = 0)
    (hguard : ∀ xu θ0 θ1 θ2,
        composeRot atol ⟨t, eAxis 0, Real.pi, Real.pi / 2, some ⟨"X", [.qubit t]⟩⟩ ⟨t, n, α, φ, none⟩ = .ok xu →
        abaAngles atol .ZYZ xu.angle xu.axis = .ok (θ0, θ1, θ2) →
        ¬ |pymod (θ0 - θ2) (2 * Real.pi)| < atol)
    (hfil : ∀ t0 t1 t2, abaAngles atol .ZYZ α n = .ok (t0, t1, t2) →
        ∀ x ∈ [(t0 - t2) / 2, -(t0 + t2) / 2, -t1 / 2, t1 / 2, t2, φ],
          |normalizeAngle atol x| < atol → normalizeAngle atol x = 0)
    (h : cnotDecompose atol (.ctrl c (.bsr t n α φ), nm) = .ok out) :
    c ≠ t ∧ ∃ s : ℂ, ‖s‖ = 1 ∧ listOp4 c t out = s • bd 1 (rot n α φ) := by
  have hpi := Real.pi_pos
  have hatπ : atol < Real.pi := by linarith
  obtain ⟨axX, axY, axZ, xu, θ0, θ1, θ2, hX, hY, hZ, hct, hxu, hang, hsc | hgen⟩ := cnot_form h
  · exfalso
    obtain rfl := mkAxis_axisLit_inj hX
    have e : (π / sc 2 : ℝ) = Real.pi / 2 := by simp
    rw [e, pi_real, normalizeAngle_id_of_window atol _ hat.le hatπ (by linarith) (by linarith),
      normalizeAngle_id_of_window atol _ hat.le hatπ (by linarith) (by linarith)] at hxu
    have := hguard xu θ0 θ1 θ2 hxu hang
    apply this
    simpa using hsc.1
  · obtain ⟨-, t0, t1, t2, hang', rfl⟩ := hgen
    obtain rfl := mkAxis_axisLit_inj hX
    obtain rfl := mkAxis_axisLit_inj hY
    obtain rfl := mkAxis_axisLit_inj hZ
    refine ⟨hct, ?_⟩
    have hf := hfil t0 t1 t2 hang'
    simp only [two_real] at *
    rw [filter_identities_sem4]
    · obtain ⟨ε, hε, hl⟩ := listOp4_cnot_general atol hat hatπ c t hct t0 t1 t2 φ
      have hV : rot (eAxis 2) t2 0 * rot (eAxis 1) t1 0 * rot (eAxis 2) t0 0 = rot n α 0 :=
        aba_rot atol .ZYZ α n hat hn h1 h2 hcπ hca hcs hang'
      obtain ⟨k, hk⟩ := normalizeAngle_congr atol φ
      refine ⟨ε * Complex.exp (-(I * (normalizeAngle atol φ / 2 : ℝ))), ?_, ?_⟩
      · rw [norm_mul, hε, one_mul]
        have := norm_exp_neg_I_mul (normalizeAngle atol φ / 2)
        exact this
      · rw [hl, hV, rot_phase_smul n α φ, ctrl_phase_split φ _ k hk]
        simp only [bd_smul, smul_smul, mul_one, mul_assoc]
    · intro g hg
      simp only [List.mem_cons, List.not_mem_nil, or_false] at hg
      rcases hg with rfl | rfl | rfl | rfl | rfl | rfl | rfl | rfl
      · exact crispId4_rotStmt atol hat.le hatπ _ _ _ _ (hf _ (by simp))
      · exact crispId4_cnotStmt atol hat hat' c t
      · exact crispId4_rotStmt atol hat.le hatπ _ _ _ _ (hf _ (by simp))
      · exact crispId4_rotStmt atol hat.le hatπ _ _ _ _ (hf _ (by simp))
      · exact crispId4_cnotStmt atol hat hat' c t
      · exact crispId4_rotStmt atol hat.le hatπ _ _ _ _ (hf _ (by simp))
      · exact crispId4_rotStmt atol hat.le hatπ _ _ _ _ (hf _ (by simp))
      · exact crispId4_rotStmt atol hat.le hatπ _ _ _ _ (hf _ (by simp))

/-! #### the one-CNOT shortcut path -/

/-- **the measured phase of the shortcut path.**  If the control-on target operator `W = A·X·B` is proportional to
    `U` (`W = μ•U`, `‖μ‖ = 1`), the control-off operator is `A·B = ε•1` (`‖ε‖ = 1`), and the phase is measured as
    the code does, `ph = arg(U_l / W_l · (A·B)₀₀)` at an entry where `U_l ≠ 0`, then after the `Rz(ph)` on the
    control (angle `ph' ≡ ph mod 2π`) both branches carry the same factor `s = e^{-iph'/2}·ε`:
    control off `e^{-iph'/2}•(ε•1) = s•1`, control on `e^{iph'/2}•W = s•U`. -/
theorem cnot_shortcut_phase (U W : Matrix (Fin 2) (Fin 2) ℂ) (ε μ : ℂ) (hε : ‖ε‖ = 1) (hμ : ‖μ‖ = 1)
    (hW : W = μ • U) (i j : Fin 2) (hU : U i j ≠ 0) (ph ph' : ℝ) (k : ℤ)
    (hph : ph = Complex.arg (U i j / W i j * ε)) (hk : ph' = ph + 2 * Real.pi * k) :
    Complex.exp (-(I * (ph' / 2 : ℝ))) • (ε • (1 : Matrix (Fin 2) (Fin 2) ℂ))
        = (Complex.exp (-(I * (ph' / 2 : ℝ))) * ε) • 1 ∧
    Complex.exp (I * (ph' / 2 : ℝ)) • W = (Complex.exp (-(I * (ph' / 2 : ℝ))) * ε) • U := by
  have hμ0 : μ ≠ 0 := by intro h; rw [h, norm_zero] at hμ; exact zero_ne_one hμ
  have hq : U i j / W i j * ε = ε / μ := by
    rw [hW, Matrix.smul_apply, smul_eq_mul]; field_simp
  have hn : ‖ε / μ‖ = 1 := by rw [norm_div, hε, hμ, div_one]
  have hexp : Complex.exp (I * ph) = ε / μ := by
    have := Complex.norm_mul_exp_arg_mul_I (ε / μ)
    rw [hn, Complex.ofReal_one, one_mul] at this
    rw [hph, hq, mul_comm]; exact this
  refine ⟨by rw [smul_smul], ?_⟩
  rw [ctrl_phase_split ph ph' k hk, hexp, hW, smul_smul]
  congr 1
  field_simp

/-- control off (one-CNOT form): `A·B = 1` -/
theorem shortcut_off_branch (θ1 θ2 : ℝ) :
    rot (eAxis 2) (-θ2) 0 * (rot (eAxis 1) (-θ1 / 2) 0 * (rot (eAxis 1) (θ1 / 2) 0 * rot (eAxis 2) θ2 0)) = 1 := by
  rw [← Matrix.mul_assoc (rot (eAxis 1) (-θ1 / 2) 0), rot_axis_add, show -θ1 / 2 + θ1 / 2 = 0 by ring, rot_zero,
    Matrix.one_mul, rot_axis_add, neg_add_cancel, rot_zero]

/-- control on (one-CNOT form): `A·X·B = X·Rz(θ2)·Ry(θ1)·Rz(θ2)` -/
theorem shortcut_on_branch (θ1 θ2 : ℝ) :
    rot (eAxis 2) (-θ2) 0 * (rot (eAxis 1) (-θ1 / 2) 0 * (Xop * (rot (eAxis 1) (θ1 / 2) 0 * rot (eAxis 2) θ2 0)))
      = Xop * (rot (eAxis 2) θ2 0 * rot (eAxis 1) θ1 0 * rot (eAxis 2) θ2 0) := by
  have key : rot (eAxis 2) (-θ2) 0 * (rot (eAxis 1) (-θ1 / 2) 0 * (Xop * (rot (eAxis 1) (θ1 / 2) 0 *
      rot (eAxis 2) θ2 0)))
      = Xop * ((Xop * rot (eAxis 2) (-θ2) 0 * Xop) * ((Xop * rot (eAxis 1) (-θ1 / 2) 0 * Xop) *
          (rot (eAxis 1) (θ1 / 2) 0 * rot (eAxis 2) θ2 0))) := by
    simp only [Matrix.mul_assoc]
    rw [← Matrix.mul_assoc Xop Xop, Xop_mul_self, Matrix.one_mul]
    congr 1
    rw [← Matrix.mul_assoc Xop Xop, Xop_mul_self, Matrix.one_mul]
  rw [key, X_conj_ry, X_conj_rz, neg_neg, ← Matrix.mul_assoc (rot (eAxis 1) (-(-θ1 / 2)) 0), rot_axis_add,
    show -(-θ1 / 2) + θ1 / 2 = θ1 by ring, Matrix.mul_assoc]

/-- the unfiltered one-CNOT circuit as a block matrix -/
theorem listOp4_cnot_shortcut (atol : ℝ) (h0 : 0 < atol) (h1 : atol < Real.pi) (c t : Int) (hct : c ≠ t)
    (θ1 θ2 ph : ℝ) :
    ∃ ε : ℂ, ‖ε‖ = 1 ∧
      listOp [rotStmt atol "Rz" t (eAxis 2) θ2, rotStmt atol "Ry" t (eAxis 1) (θ1 / 2),
        rotStmt atol "Ry" t (eAxis 1) (-θ1 / 2), rotStmt atol "Rz" t (eAxis 2) (-θ2)] = ε • 1 ∧
      listOp [rotStmt atol "Rz" t (eAxis 2) θ2, rotStmt atol "Ry" t (eAxis 1) (θ1 / 2),
        (.bsr t (eAxis 0) Real.pi (Real.pi / 2), some ⟨"X", [.qubit t]⟩),
        rotStmt atol "Ry" t (eAxis 1) (-θ1 / 2), rotStmt atol "Rz" t (eAxis 2) (-θ2)]
        = ε • (Xop * (rot (eAxis 2) θ2 0 * rot (eAxis 1) θ1 0 * rot (eAxis 2) θ2 0)) ∧
      listOp4 c t [rotStmt atol "Rz" t (eAxis 2) θ2, rotStmt atol "Ry" t (eAxis 1) (θ1 / 2),
        cnotStmt atol c t (eAxis 0), rotStmt atol "Ry" t (eAxis 1) (-θ1 / 2),
        rotStmt atol "Rz" t (eAxis 2) (-θ2), rotStmt atol "Rz" c (eAxis 2) ph]
      = bd (Complex.exp (-(I * (normalizeAngle atol ph / 2 : ℝ))) • (ε • 1))
           (Complex.exp (I * (normalizeAngle atol ph / 2 : ℝ)) •
              (ε • (Xop * (rot (eAxis 2) θ2 0 * rot (eAxis 1) θ1 0 * rot (eAxis 2) θ2 0)))) := by
  obtain ⟨k1, -, r1⟩ := GateTable.rot_nA atol θ2 (eAxis 2)
  obtain ⟨k2, -, r2⟩ := GateTable.rot_nA atol (θ1 / 2) (eAxis 1)
  obtain ⟨k3, -, r3⟩ := GateTable.rot_nA atol (-θ1 / 2) (eAxis 1)
  obtain ⟨k4, -, r4⟩ := GateTable.rot_nA atol (-θ2) (eAxis 2)
  refine ⟨(-1) ^ k4 * ((-1) ^ k3 * ((-1) ^ k2 * (-1) ^ k1)), ?_, ?_, ?_, ?_⟩
  · simp only [norm_mul, norm_neg_one_zpow, one_mul]
  · simp only [listOp_cons, listOp_nil, Matrix.one_mul, rotStmt_real atol h0.le h1, opOf_bsr, r1, r2, r3, r4]
    simp only [smul_mul_assoc, mul_smul_comm, smul_smul, Matrix.mul_assoc, shortcut_off_branch]
    congr 1; ring
  · simp only [listOp_cons, listOp_nil, Matrix.one_mul, rotStmt_real atol h0.le h1, opOf_bsr, r1, r2, r3, r4]
    simp only [smul_mul_assoc, mul_smul_comm, smul_smul, Matrix.mul_assoc]
    rw [show rot (eAxis 0) Real.pi (Real.pi / 2) = Xop from rfl, shortcut_on_branch]
    simp only [Matrix.mul_assoc]
    congr 1; ring
  · simp only [listOp4_cons, listOp4_nil, Matrix.one_mul, rotStmt_real atol h0.le h1, op4_target,
      op4_rz_control c t hct, op4_cnotStmt atol h0 h1, r1, r2, r3, r4]
    simp only [bd_mul, Matrix.one_mul, Matrix.mul_one, Matrix.mul_assoc, Matrix.smul_mul, smul_mul_assoc,
      mul_smul_comm, smul_smul, shortcut_off_branch, shortcut_on_branch]
    congr 1
    · congr 1; ring
    · congr 1; ring

private theorem bindOk' {ε β γ : Type} {x : Except ε β} {f : β → Except ε γ} {c : γ} :
    (x >>= f) = .ok c ↔ ∃ a, x = .ok a ∧ f a = .ok c := by
  cases x <;> simp [bind, Except.bind]

/-- the phase the one-CNOT path measures (`cnot_decomposer.py`: `np.angle(U[l] / W[l] * (A·B)[0,0])`, `l` the
    arg-max entry of `W = A·X·B`), as the model computes it -/
noncomputable def shortcutPhase (atol : ℝ) (t : Int) (n : Vec3 ℝ) (α φ θ1 θ2 : ℝ) : ℝ :=
  let b : List (GStmt ℝ) := [rotStmt atol "Rz" t (eAxis 2) θ2, rotStmt atol "Ry" t (eAxis 1) (θ1 / two)]
  let a : List (GStmt ℝ) := [rotStmt atol "Ry" t (eAxis 1) (-θ1 / two), rotStmt atol "Rz" t (eAxis 2) (-θ2)]
  let x : GStmt ℝ := xStmt atol t (eAxis 0)
  let ab := prod2 (b ++ a)
  let axb := prod2 (b ++ [x] ++ a)
  let tm := can1 n α φ
  let l := argmaxAbs axb
  Cx.arg (Cx.div (tm.d.getD l Cx.zero) (axb.d.getD l Cx.zero) * ab.get 0 0)

/-- exact form of the one-CNOT path **with its phase**: when the guard fires the output is the filtered 6-gate list
    whose last gate is `Rz(shortcutPhase …)` on the control -/
theorem cnot_form_shortcut {atol : ℝ} {c t : Int} {n : Vec3 ℝ} {α φ : ℝ} {nm : Option (Named ℝ)}
    {out : List (GStmt ℝ)} (h : cnotDecompose atol (.ctrl c (.bsr t n α φ), nm) = .ok out) :
    ∃ xu θ0 θ1 θ2, c ≠ t ∧
      composeRot atol ⟨t, eAxis 0, normalizeAngle atol π, normalizeAngle atol (π / sc 2), some ⟨"X", [.qubit t]⟩⟩
        ⟨t, n, α, φ, none⟩ = .ok xu ∧
      abaAngles atol .ZYZ xu.angle xu.axis = .ok (θ0, θ1, θ2) ∧
      (absS (pymod (θ0 - θ2) (two * π)) < atol → out = filterOutIdentities atol
          [rotStmt atol "Rz" t (eAxis 2) θ2, rotStmt atol "Ry" t (eAxis 1) (θ1 / two), cnotStmt atol c t (eAxis 0),
           rotStmt atol "Ry" t (eAxis 1) (-θ1 / two), rotStmt atol "Rz" t (eAxis 2) (-θ2),
           rotStmt atol "Rz" c (eAxis 2) (shortcutPhase atol t n α φ θ1 θ2)]) := by
  simp only [cnotDecompose, bindOk'] at h
  obtain ⟨x, hx, h⟩ := h
  obtain ⟨axX, hX, rfl⟩ := (named_X_iff ..).1 hx
  obtain rfl := mkAxis_axisLit_inj hX
  simp only [xStmt, gstmtToRot, bindOk'] at h
  obtain ⟨xu, hxu, ⟨θ0, θ1, θ2⟩, hang, cn, hcn, h⟩ := h
  obtain ⟨axX', hX', hct, rfl⟩ := (named_CNOT_iff ..).1 hcn
  obtain rfl := mkAxis_axisLit_inj hX'
  refine ⟨xu, θ0, θ1, θ2, hct, hxu, hang, fun hg => ?_⟩
  simp only [hg, if_true, bindOk'] at h
  obtain ⟨r1, h1, r2, h2, r3, h3, r4, h4, r5, h5, h⟩ := h
  obtain ⟨axY, hY, rfl⟩ := (named_Ry_iff ..).1 h1
  obtain rfl := mkAxis_axisLit_inj hY
  obtain ⟨axZ, hZ, rfl⟩ := (named_Rz_iff ..).1 h2
  obtain rfl := mkAxis_axisLit_inj hZ
  obtain ⟨axZ', hZ', rfl⟩ := (named_Rz_iff ..).1 h3
  obtain rfl := mkAxis_axisLit_inj hZ'
  obtain ⟨axY', hY', rfl⟩ := (named_Ry_iff ..).1 h4
  obtain rfl := mkAxis_axisLit_inj hY'
  obtain ⟨axZ', hZ', rfl⟩ := (named_Rz_iff ..).1 h5
  obtain rfl := mkAxis_axisLit_inj hZ'
  cases h
  rfl

private theorem foldl_n (f : Mat ℝ → GStmt ℝ → Mat ℝ) (hf : ∀ acc g, acc.n = 2 → (f acc g).n = 2)
    (l : List (GStmt ℝ)) (acc : Mat ℝ) (h : acc.n = 2) : (l.foldl f acc).n = 2 := by
  induction l generalizing acc with
  | nil => exact h
  | cons g l ih => exact ih _ (hf acc g h)

theorem prod2_n (l : List (GStmt ℝ)) : (prod2 l).n = 2 := by
  unfold prod2
  apply foldl_n _ _ _ _ rfl
  rintro acc ⟨g, nm⟩ h
  cases g with
  | bsr q a θ φ => rfl
  | matrix m ops => exact h
  | ctrl c g => exact h

theorem xStmt_real (atol : ℝ) (h0 : 0 < atol) (h1 : atol < Real.pi) (t : Int) :
    xStmt atol t (eAxis 0) = (.bsr t (eAxis 0) Real.pi (Real.pi / 2), some ⟨"X", [.qubit t]⟩) := by
  have hpi := Real.pi_pos
  unfold xStmt
  have e : (π / sc 2 : ℝ) = Real.pi / 2 := by simp
  rw [e, pi_real, normalizeAngle_id_of_window atol _ h0.le h1 (by linarith) (by linarith),
    normalizeAngle_id_of_window atol _ h0.le h1 (by linarith) (by linarith)]

/-- the measured phase in Mathlib vocabulary: `arg(U_ij / W_ij · (A·B)₀₀)` at an entry `(i, j)` of maximal
    modulus of `W = A·X·B` (operators of the emitted lists) -/
theorem shortcutPhase_spec (atol : ℝ) (h0 : 0 < atol) (h1 : atol < Real.pi) (t : Int) (n : Vec3 ℝ)
    (α φ θ1 θ2 : ℝ) :
    ∃ i j : Fin 2,
      (∀ i' j' : Fin 2,
        ‖listOp [rotStmt atol "Rz" t (eAxis 2) θ2, rotStmt atol "Ry" t (eAxis 1) (θ1 / 2),
          (.bsr t (eAxis 0) Real.pi (Real.pi / 2), some ⟨"X", [.qubit t]⟩),
          rotStmt atol "Ry" t (eAxis 1) (-θ1 / 2), rotStmt atol "Rz" t (eAxis 2) (-θ2)] i' j'‖
        ≤ ‖listOp [rotStmt atol "Rz" t (eAxis 2) θ2, rotStmt atol "Ry" t (eAxis 1) (θ1 / 2),
          (.bsr t (eAxis 0) Real.pi (Real.pi / 2), some ⟨"X", [.qubit t]⟩),
          rotStmt atol "Ry" t (eAxis 1) (-θ1 / 2), rotStmt atol "Rz" t (eAxis 2) (-θ2)] i j‖) ∧
      shortcutPhase atol t n α φ θ1 θ2
        = Complex.arg (rot n α φ i j /
            listOp [rotStmt atol "Rz" t (eAxis 2) θ2, rotStmt atol "Ry" t (eAxis 1) (θ1 / 2),
              (.bsr t (eAxis 0) Real.pi (Real.pi / 2), some ⟨"X", [.qubit t]⟩),
              rotStmt atol "Ry" t (eAxis 1) (-θ1 / 2), rotStmt atol "Rz" t (eAxis 2) (-θ2)] i j
          * listOp [rotStmt atol "Rz" t (eAxis 2) θ2, rotStmt atol "Ry" t (eAxis 1) (θ1 / 2),
              rotStmt atol "Ry" t (eAxis 1) (-θ1 / 2), rotStmt atol "Rz" t (eAxis 2) (-θ2)] 0 0) := by
  unfold shortcutPhase
  simp only [two_real, xStmt_real atol h0 h1, List.cons_append, List.nil_append]
  set W := prod2 [rotStmt atol "Rz" t (eAxis 2) θ2, rotStmt atol "Ry" t (eAxis 1) (θ1 / 2),
          (.bsr t (eAxis 0) Real.pi (Real.pi / 2), some ⟨"X", [.qubit t]⟩),
          rotStmt atol "Ry" t (eAxis 1) (-θ1 / 2), rotStmt atol "Rz" t (eAxis 2) (-θ2)] with hWdef
  have hWn : W.n = 2 := prod2_n _
  obtain ⟨hl, hmax, -⟩ := argmaxAbs_spec W (by omega)
  rw [hWn] at hl hmax
  set l := argmaxAbs W
  have hi : l / 2 < 2 := by omega
  have hj : l % 2 < 2 := by omega
  refine ⟨⟨l / 2, hi⟩, ⟨l % 2, hj⟩, ?_, ?_⟩
  · intro i' j'
    have := hmax (i'.val * 2 + j'.val) (by omega)
    rw [Mat.absAt_eq, Mat.absAt_eq, ← Mat.get_eq_flat W hWn, Mat.flat_eq_get W hWn] at this
    rw [← prod2_toMatrixOn]
    exact this
  · have e1 : ((can1 n α φ).d.getD l Cx.zero).toC = rot n α φ ⟨l / 2, hi⟩ ⟨l % 2, hj⟩ := by
      have := Mat.flat_eq_get (can1 n α φ) (can1_n n α φ) l
      unfold Mat.flat at this
      rw [this]
      exact can1_get n α φ ⟨l / 2, hi⟩ ⟨l % 2, hj⟩
    have e2 : (W.d.getD l Cx.zero).toC = W.toMatrixOn 2 ⟨l / 2, hi⟩ ⟨l % 2, hj⟩ := by
      have := Mat.flat_eq_get W hWn l
      unfold Mat.flat at this
      rw [this]; rfl
    show Complex.arg (Cx.toC _) = _
    rw [Cx.toC_mul, Cx.toC_div, e1, e2, prod2_toMatrixOn]
    congr 2
    rw [← prod2_toMatrixOn]; rfl

/-- the `X` gate as a rotation record (what `gstmtToRot (X(t))` is at ℝ) -/
noncomputable def xRot (t : Int) : Rot ℝ := ⟨t, eAxis 0, Real.pi, Real.pi / 2, some ⟨"X", [.qubit t]⟩⟩

/-- crisp hypotheses of the one-CNOT path for the intermediate values `xu = compose(X, U)` and its Z-Y-Z angles -/
structure ShortcutCrisp (atol : ℝ) (t : Int) (n : Vec3 ℝ) (α φ : ℝ) (xu : Rot ℝ) (θ0 θ1 θ2 : ℝ) : Prop where
  /-- the guard `|(θ0 − θ2) mod 2π| < atol` fires, and honestly -/
  guard : |pymod (θ0 - θ2) (2 * Real.pi)| < atol
  guard_crisp : pymod (θ0 - θ2) (2 * Real.pi) = 0
  /-- the three tests of the Z-Y-Z decomposition of `xu` are crisp (as in `aba_crisp`) -/
  cπ : |xu.angle - Real.pi| < atol → xu.angle = Real.pi
  ca : |xu.angle - Real.pi| < atol → |xu.axis.2.2| < atol → xu.axis.2.2 = 0
  cs : ¬ (|xu.angle - Real.pi| < atol ∧ |xu.axis.2.2| < atol) →
        Real.sin (xu.angle / 2)^2 * (xu.axis.2.1^2 + xu.axis.1^2) < atol^2 →
        Real.sin (xu.angle / 2)^2 * (xu.axis.2.1^2 + xu.axis.1^2) = 0
  /-- the identity filter is crisp on the five emitted angles -/
  fil : ∀ x ∈ [θ2, θ1 / 2, -θ1 / 2, -θ2, shortcutPhase atol t n α φ θ1 θ2],
        |normalizeAngle atol x| < atol → normalizeAngle atol x = 0

theorem unitVec_iff (v : Vec3 ℝ) : UnitVec v ↔ v.1 ^ 2 + v.2.1 ^ 2 + v.2.2 ^ 2 = 1 := by
  unfold UnitVec; constructor <;> intro h <;> nlinarith

theorem rot_ne_zero (n : Vec3 ℝ) (α φ : ℝ) (hn : n.1^2 + n.2.1^2 + n.2.2^2 = 1) : rot n α φ ≠ 0 := by
  intro h
  have := rot_mul_conjTranspose_self n α φ hn
  rw [h, Matrix.zero_mul] at this
  have h00 := congrFun (congrFun this 0) 0
  simp at h00

/-- **cnot_sem, one-CNOT (shortcut) path.**  If the guard fires and every tolerance test on the way is crisp
    (composition `X·U`: `compose_crisp`'s hypotheses; Z-Y-Z of the result; the guard; the identity filter), the emitted
    circuit `B · CNOT · A · Rz_c(ph)` is `s • (|0⟩⟨0|⊗1 + |1⟩⟨1|⊗U)`, `‖s‖ = 1`: the phase the code measures numerically,
    `ph = arg(U_l/W_l·(AB)₀₀)`, is exactly the relative phase between the two control branches. -/
theorem cnot_shortcut_sem (atol : ℝ) (c t : Int) (n : Vec3 ℝ) (α φ : ℝ) (nm : Option (Named ℝ))
    (out : List (GStmt ℝ))
    (hat : 0 < atol) (hat' : atol ≤ Real.pi / 2) (hn : n.1^2 + n.2.1^2 + n.2.2^2 = 1)
    (hcrisp : |Real.sin (cTheta (xRot t) ⟨t, n, α, φ, none⟩ / 2)| < atol →
        Real.sin (cTheta (xRot t) ⟨t, n, α, φ, none⟩ / 2) = 0)
    (hround : ¬ |Real.sin (cTheta (xRot t) ⟨t, n, α, φ, none⟩ / 2)| < atol →
      roundTo s7 (cAxis (xRot t) ⟨t, n, α, φ, none⟩).1 = (cAxis (xRot t) ⟨t, n, α, φ, none⟩).1 ∧
      roundTo s7 (cAxis (xRot t) ⟨t, n, α, φ, none⟩).2.1 = (cAxis (xRot t) ⟨t, n, α, φ, none⟩).2.1 ∧
      roundTo s7 (cAxis (xRot t) ⟨t, n, α, φ, none⟩).2.2 = (cAxis (xRot t) ⟨t, n, α, φ, none⟩).2.2 ∧
      roundTo s7 ((xRot t).phase + φ) = (xRot t).phase + φ)
    (hsc : ∀ xu θ0 θ1 θ2, composeRot atol (xRot t) ⟨t, n, α, φ, none⟩ = .ok xu →
        abaAngles atol .ZYZ xu.angle xu.axis = .ok (θ0, θ1, θ2) → ShortcutCrisp atol t n α φ xu θ0 θ1 θ2)
    (h : cnotDecompose atol (.ctrl c (.bsr t n α φ), nm) = .ok out) :
    c ≠ t ∧ ∃ s : ℂ, ‖s‖ = 1 ∧ listOp4 c t out = s • bd 1 (rot n α φ) := by
  have hpi := Real.pi_pos
  have hatπ : atol < Real.pi := by linarith
  obtain ⟨xu, θ0, θ1, θ2, hct, hxu, hang, hout⟩ := cnot_form_shortcut h
  have e : (π / sc 2 : ℝ) = Real.pi / 2 := by simp
  rw [e, pi_real, normalizeAngle_id_of_window atol _ hat.le hatπ (by linarith) (by linarith),
    normalizeAngle_id_of_window atol _ hat.le hatπ (by linarith) (by linarith)] at hxu
  have hxu' : composeRot atol (xRot t) ⟨t, n, α, φ, none⟩ = .ok xu := hxu
  obtain ⟨hg, hg0, hcπ, hca, hcs, hfil⟩ := hsc xu θ0 θ1 θ2 hxu' hang
  refine ⟨hct, ?_⟩
  have hout' := hout (by simpa using hg)
  simp only [two_real] at hout'
  subst hout'
  -- the composition `xu = X·U` up to phase
  have hXu : UnitVec (xRot t).axis := by simp [UnitVec, xRot, eAxis]
  have hUu : UnitVec (⟨t, n, α, φ, none⟩ : Rot ℝ).axis := (unitVec_iff n).2 hn
  obtain ⟨z, hz, hzeq⟩ := composeRot_sem atol hat (xRot t) ⟨t, n, α, φ, none⟩ xu hXu hUu hxu' hcrisp hround
  have hzeq' : rot xu.axis xu.angle xu.phase = z • (Xop * rot n α φ) := hzeq
  -- `xu` has a unit axis and an angle in range
  have hxu_ok : (xu.axis.1^2 + xu.axis.2.1^2 + xu.axis.2.2^2 = 1) ∧
      (-Real.pi + atol ≤ xu.angle ∧ xu.angle < Real.pi + atol) := by
    obtain ⟨_, _, hc | hc⟩ := compose_crisp atol hat (xRot t) ⟨t, n, α, φ, none⟩ xu hXu hUu hxu' hcrisp hround
    · obtain ⟨_, _, hr, _, _⟩ := hc
      rw [hr]
      simp only [identityRot, one_real, zero_real]
      refine ⟨by norm_num, by linarith, by linarith⟩
    · obtain ⟨_, _, _, hu, _, _, _, hang'⟩ := hc
      exact ⟨(unitVec_iff _).1 hu, by rw [hang']; exact normalizeAngle_range atol _ hat.le hatπ⟩
  -- Z-Y-Z of `xu`
  have hV : rot (eAxis 2) θ2 0 * rot (eAxis 1) θ1 0 * rot (eAxis 2) θ0 0 = rot xu.axis xu.angle 0 :=
    aba_rot atol .ZYZ xu.angle xu.axis hat hxu_ok.1 hxu_ok.2.1 hxu_ok.2.2 hcπ hca hcs hang
  -- the guard: θ2 ≡ θ0 (mod 2π)
  obtain ⟨j, hj⟩ : ∃ j : ℤ, θ2 = θ0 + 2 * Real.pi * j := by
    refine ⟨-⌊(θ0 - θ2) / (2 * Real.pi)⌋, ?_⟩
    simp only [pymod, trig_floor_real] at hg0
    push_cast; linarith
  have hθ2 : rot (eAxis 2) θ2 0 = ((-1 : ℂ) ^ j) • rot (eAxis 2) θ0 0 := by
    rw [hj, rot_add_int_mul_two_pi]
  -- `X·Rz(θ2)Ry(θ1)Rz(θ2) = ν • U`
  set U := rot n α φ with hU
  have hXV : Xop * (rot (eAxis 2) θ2 0 * rot (eAxis 1) θ1 0 * rot (eAxis 2) θ2 0)
      = ((-1 : ℂ) ^ j * (Complex.exp (-(I * xu.phase)) * z)) • U := by
    have hlast : ∀ M : Matrix (Fin 2) (Fin 2) ℂ,
        M * rot (eAxis 2) θ2 0 = ((-1 : ℂ) ^ j) • (M * rot (eAxis 2) θ0 0) := fun M => by
      rw [hθ2, Matrix.mul_smul]
    have h0 : rot xu.axis xu.angle 0 = Complex.exp (-(I * xu.phase)) • rot xu.axis xu.angle xu.phase := by
      rw [rot_phase_smul xu.axis xu.angle xu.phase, smul_smul, ← Complex.exp_add]; simp
    rw [hlast, hV, h0, hzeq']
    simp only [Matrix.mul_smul, smul_smul]
    rw [← Matrix.mul_assoc, Xop_mul_self, Matrix.one_mul]
  set ν : ℂ := (-1 : ℂ) ^ j * (Complex.exp (-(I * xu.phase)) * z) with hν
  have hνn : ‖ν‖ = 1 := by
    rw [hν, norm_mul, norm_mul, norm_neg_one_zpow, norm_exp_neg_I_mul, hz]; norm_num
  -- the emitted lists
  obtain ⟨ε, hε, hAB, hW, hL⟩ := listOp4_cnot_shortcut atol hat hatπ c t hct θ1 θ2
    (shortcutPhase atol t n α φ θ1 θ2)
  rw [hXV] at hW hL
  obtain ⟨i, jj, hmax, hph⟩ := shortcutPhase_spec atol hat hatπ t n α φ θ1 θ2
  rw [hW, hAB] at hph
  rw [hW] at hmax
  -- the pivot entry of `U` is not zero
  have hμn : ‖ε * ν‖ = 1 := by rw [norm_mul, hε, hνn, one_mul]
  have hμ0 : ε * ν ≠ 0 := by intro h0; rw [h0, norm_zero] at hμn; exact zero_ne_one hμn
  have hUij : U i jj ≠ 0 := by
    intro h0
    apply rot_ne_zero n α φ hn
    ext i' j'
    have := hmax i' j'
    simp only [Matrix.smul_apply, smul_eq_mul, h0, mul_zero, norm_zero, norm_le_zero_iff, mul_eq_zero] at this
    rcases this with h | h | h
    · exact absurd h (left_ne_zero_of_mul hμ0)
    · exact absurd h (right_ne_zero_of_mul hμ0)
    · simpa using h
  obtain ⟨k, hk⟩ := normalizeAngle_congr atol (shortcutPhase atol t n α φ θ1 θ2)
  have hph' : shortcutPhase atol t n α φ θ1 θ2 = Complex.arg (U i jj / ((ε * ν) • U) i jj * ε) := by
    rw [hph]; simp only [smul_smul, Matrix.smul_apply, smul_eq_mul, mul_assoc, Matrix.one_apply_eq, mul_one]
    rfl
  obtain ⟨b1, b2⟩ := cnot_shortcut_phase U ((ε * ν) • U) ε (ε * ν) hε hμn rfl i jj hUij _ _ k hph' hk
  refine ⟨Complex.exp (-(I * (normalizeAngle atol (shortcutPhase atol t n α φ θ1 θ2) / 2 : ℝ))) * ε, ?_, ?_⟩
  · rw [norm_mul, hε, mul_one]; exact norm_exp_neg_I_mul _
  · rw [filter_identities_sem4, hL, smul_smul ε ν, b1, b2, bd_smul]
    intro g hg
    simp only [List.mem_cons, List.not_mem_nil, or_false] at hg
    rcases hg with rfl | rfl | rfl | rfl | rfl | rfl
    · exact crispId4_rotStmt atol hat.le hatπ _ _ _ _ (hfil _ (by simp))
    · exact crispId4_rotStmt atol hat.le hatπ _ _ _ _ (hfil _ (by simp))
    · exact crispId4_cnotStmt atol hat hat' c t
    · exact crispId4_rotStmt atol hat.le hatπ _ _ _ _ (hfil _ (by simp))
    · exact crispId4_rotStmt atol hat.le hatπ _ _ _ _ (hfil _ (by simp))
    · exact crispId4_rotStmt atol hat.le hatπ _ _ _ _ (hfil _ (by simp))

/-- crisp hypotheses of the two-CNOT (general) path: those of `aba_crisp` for Z-Y-Z on the target rotation, and the
    identity filter on the six emitted angles -/
structure GeneralCrisp (atol : ℝ) (n : Vec3 ℝ) (α φ : ℝ) : Prop where
  range : -Real.pi + atol ≤ α ∧ α < Real.pi + atol
  cπ : |α - Real.pi| < atol → α = Real.pi
  ca : |α - Real.pi| < atol → |n.2.2| < atol → n.2.2 = 0
  cs : ¬ (|α - Real.pi| < atol ∧ |n.2.2| < atol) →
        Real.sin (α / 2)^2 * (n.2.1^2 + n.1^2) < atol^2 → Real.sin (α / 2)^2 * (n.2.1^2 + n.1^2) = 0
  fil : ∀ t0 t1 t2, abaAngles atol .ZYZ α n = .ok (t0, t1, t2) →
        ∀ x ∈ [(t0 - t2) / 2, -(t0 + t2) / 2, -t1 / 2, t1 / 2, t2, φ],
          |normalizeAngle atol x| < atol → normalizeAngle atol x = 0

/-- **cnot_sem** (both paths).  For `g = ControlledGate(c, R_n(α, φ) on t)`, `n` a unit axis: whichever path the
    decomposer takes — decided by the guard on the Z-Y-Z angles of `xu = compose(X, U)` — if the tolerance tests of that
    path are crisp then the emitted circuit equals controlled-`U` up to one global phase:
    `listOp4 c t out = s • (|0⟩⟨0|⊗1 + |1⟩⟨1|⊗U)`, `‖s‖ = 1`; equivalently (`ctrl_equiv_iff`) the control-off block is
    `s•1` and the control-on block is `s•U` with the same `s`. -/
theorem cnot_sem (atol : ℝ) (c t : Int) (n : Vec3 ℝ) (α φ : ℝ) (nm : Option (Named ℝ)) (out : List (GStmt ℝ))
    (hat : 0 < atol) (hat' : atol ≤ Real.pi / 2) (hn : n.1^2 + n.2.1^2 + n.2.2^2 = 1)
    (hpath : ∀ xu θ0 θ1 θ2, composeRot atol (xRot t) ⟨t, n, α, φ, none⟩ = .ok xu →
        abaAngles atol .ZYZ xu.angle xu.axis = .ok (θ0, θ1, θ2) →
        (ShortcutCrisp atol t n α φ xu θ0 θ1 θ2 ∧
          (|Real.sin (cTheta (xRot t) ⟨t, n, α, φ, none⟩ / 2)| < atol →
            Real.sin (cTheta (xRot t) ⟨t, n, α, φ, none⟩ / 2) = 0) ∧
          (¬ |Real.sin (cTheta (xRot t) ⟨t, n, α, φ, none⟩ / 2)| < atol →
            roundTo s7 (cAxis (xRot t) ⟨t, n, α, φ, none⟩).1 = (cAxis (xRot t) ⟨t, n, α, φ, none⟩).1 ∧
            roundTo s7 (cAxis (xRot t) ⟨t, n, α, φ, none⟩).2.1 = (cAxis (xRot t) ⟨t, n, α, φ, none⟩).2.1 ∧
            roundTo s7 (cAxis (xRot t) ⟨t, n, α, φ, none⟩).2.2 = (cAxis (xRot t) ⟨t, n, α, φ, none⟩).2.2 ∧
            roundTo s7 ((xRot t).phase + φ) = (xRot t).phase + φ)) ∨
        (¬ |pymod (θ0 - θ2) (2 * Real.pi)| < atol ∧ GeneralCrisp atol n α φ))
    (h : cnotDecompose atol (.ctrl c (.bsr t n α φ), nm) = .ok out) :
    c ≠ t ∧ ∃ s : ℂ, ‖s‖ = 1 ∧ listOp4 c t out = s • bd 1 (rot n α φ) := by
  have hpi := Real.pi_pos
  have hatπ : atol < Real.pi := by linarith
  obtain ⟨xu, θ0, θ1, θ2, -, hxu, hang, -⟩ := cnot_form_shortcut h
  have e : (π / sc 2 : ℝ) = Real.pi / 2 := by simp
  rw [e, pi_real, normalizeAngle_id_of_window atol _ hat.le hatπ (by linarith) (by linarith),
    normalizeAngle_id_of_window atol _ hat.le hatπ (by linarith) (by linarith)] at hxu
  have hxu' : composeRot atol (xRot t) ⟨t, n, α, φ, none⟩ = .ok xu := hxu
  have uniq : ∀ xu' θ0' θ1' θ2', composeRot atol (xRot t) ⟨t, n, α, φ, none⟩ = .ok xu' →
      abaAngles atol .ZYZ xu'.angle xu'.axis = .ok (θ0', θ1', θ2') →
      xu' = xu ∧ θ0' = θ0 ∧ θ1' = θ1 ∧ θ2' = θ2 := by
    intro xu' θ0' θ1' θ2' h1 h2
    rw [hxu'] at h1
    injection h1 with h1
    subst h1
    rw [hang] at h2
    injection h2 with h2
    simp only [Prod.mk.injEq] at h2
    exact ⟨rfl, h2.1.symm, h2.2.1.symm, h2.2.2.symm⟩
  rcases hpath xu θ0 θ1 θ2 hxu' hang with ⟨hs, hc, hr⟩ | ⟨hg, hgc⟩
  · refine cnot_shortcut_sem atol c t n α φ nm out hat hat' hn hc hr ?_ h
    intro xu' θ0' θ1' θ2' h1 h2
    obtain ⟨rfl, rfl, rfl, rfl⟩ := uniq xu' θ0' θ1' θ2' h1 h2
    exact hs
  · refine cnot_general_sem atol c t n α φ nm out hat hat' hn hgc.range.1 hgc.range.2 hgc.cπ hgc.ca hgc.cs
      ?_ hgc.fil h
    intro xu' θ0' θ1' θ2' h1 h2
    obtain ⟨rfl, rfl, rfl, rfl⟩ := uniq xu' θ0' θ1' θ2' h1 h2
    exact hg

/-! #### totality of the CNOT decomposer and a worked example (controlled `e^{i/3}·Rx(π/2)`, two-CNOT path) -/

/-- the CNOT decomposer succeeds as soon as its intermediate computations do -/
theorem cnotDecompose_ok (atol : ℝ) (hat : 0 < atol) (hat' : atol < Real.pi) (c t : Int) (hct : c ≠ t) (n : Vec3 ℝ)
    (α φ : ℝ) (nm : Option (Named ℝ)) (xu : Rot ℝ) (θs ts : ℝ × ℝ × ℝ)
    (hxu : composeRot atol (xRot t) ⟨t, n, α, φ, none⟩ = .ok xu)
    (hang : abaAngles atol .ZYZ xu.angle xu.axis = .ok θs)
    (hang' : abaAngles atol .ZYZ α n = .ok ts) :
    ∃ out, cnotDecompose atol (.ctrl c (.bsr t n α φ), nm) = .ok out := by
  have hX : named atol "X" [.qubit t] = .ok (xStmt atol t (eAxis 0)) :=
    (named_X_iff atol t _).2 ⟨_, mkAxis_axisLit 0, rfl⟩
  have hC : named atol "CNOT" [.qubit c, .qubit t] = .ok (cnotStmt atol c t (eAxis 0)) :=
    (named_CNOT_iff atol c t _).2 ⟨_, mkAxis_axisLit 0, hct, rfl⟩
  have hY := fun θ => named_rot_real atol hat.le hat' 1 t θ
  have hZ := fun q θ => named_rot_real atol hat.le hat' 2 q θ
  simp only [rotName] at hY hZ
  have hxr : gstmtToRot (xStmt atol t (eAxis 0)) = some (xRot t) := by
    rw [xStmt_real atol hat hat']; rfl
  obtain ⟨θ0, θ1, θ2⟩ := θs
  obtain ⟨t0, t1, t2⟩ := ts
  unfold cnotDecompose
  simp only [bind, Except.bind, pure, Except.pure, hX, hxr, hxu, hang, hang', hC, hY, hZ]
  split_ifs <;> exact ⟨_, rfl⟩

/-- the example target: `e^{i/3}·Rx(π/2)` on qubit `1` -/
noncomputable def dsExU : Rot ℝ := ⟨1, (1, 0, 0), Real.pi / 2, 1 / 3, none⟩

theorem dsExU_unit : UnitVec dsExU.axis := by simp [UnitVec, dsExU]
theorem xRot_unit (t : Int) : UnitVec (xRot t).axis := by simp [UnitVec, xRot, eAxis]

theorem dsEx2_cTheta : cTheta (xRot 1) dsExU = 3 * Real.pi / 2 := by
  have hpi := Real.pi_pos
  have hW : cW (xRot 1) dsExU = -Real.cos (Real.pi / 4) := by
    simp [cW, xRot, dsExU, eAxis, Vec3.dot, Real.cos_pi_div_two, Real.sin_pi_div_two,
      show Real.pi / 2 / 2 = Real.pi / 4 by ring]
  rw [cTheta, hW, Real.arccos_neg, Real.arccos_cos (by linarith) (by linarith)]; ring

theorem dsEx2_sin : Real.sin (cTheta (xRot 1) dsExU / 2) = Real.sqrt 2 / 2 := by
  rw [dsEx2_cTheta, show 3 * Real.pi / 2 / 2 = Real.pi - Real.pi / 4 by ring, Real.sin_pi_sub,
    Real.sin_pi_div_four]

theorem dsEx2_cAxis : cAxis (xRot 1) dsExU = (1, 0, 0) := by
  have hs2 : Real.sqrt 2 ≠ 0 := by positivity
  unfold cAxis
  rw [dsEx2_sin]
  simp only [cVi, xRot, dsExU, eAxis, Vec3.cross, Vec3.get, Real.cos_pi_div_two, Real.sin_pi_div_two,
    show Real.pi / 2 / 2 = Real.pi / 4 by ring, Real.cos_pi_div_four, Real.sin_pi_div_four]
  refine Prod.ext ?_ (Prod.ext ?_ ?_) <;> (simp only; field_simp) <;> ring

theorem dsEx2_nA : normalizeAngle (1 / 1000 : ℝ) (3 * Real.pi / 2) = -(Real.pi / 2) := by
  have hpi := Real.two_le_pi
  obtain ⟨k, hk, hr1, hr2⟩ := normalizeAngle_spec (1 / 1000 : ℝ) (3 * Real.pi / 2) (by norm_num) (by linarith)
  have : normalizeAngle (1 / 1000 : ℝ) (3 * Real.pi / 2) = -(Real.pi / 2) + 2 * Real.pi * ((k + 1 : ℤ) : ℝ) := by
    rw [hk]; push_cast; ring
  exact eq_of_congr_of_window this hr1 (by linarith) (by linarith) (by linarith)

/-- `compose(X, U)` for the example: the rotation by `-π/2` about `x` (the phase is irrelevant here) -/
theorem dsEx2_compose : ∃ xu, composeRot (1 / 1000 : ℝ) (xRot 1) dsExU = .ok xu ∧ xu.axis = (1, 0, 0) ∧
    xu.angle = -(Real.pi / 2) := by
  have hs : ¬ |Real.sin (cTheta (xRot 1) dsExU / 2)| < (1 / 1000 : ℝ) := by
    rw [dsEx2_sin, abs_of_pos (by positivity)]
    have : 1 ≤ Real.sqrt 2 := by
      nlinarith [Real.sqrt_nonneg 2, Real.mul_self_sqrt (show (0 : ℝ) ≤ 2 by norm_num)]
    linarith
  rw [composeRot_real _ _ _ (xRot_unit 1) dsExU_unit rfl, if_neg hs, dsEx2_cAxis]
  have r1 : roundTo s7 (1 : ℝ) = 1 := roundTo_exact 1 10000000 (by rw [s7_eq]; norm_num)
  have r0 : roundTo s7 (0 : ℝ) = 0 := roundTo_exact 0 0 (by simp)
  simp only [r1, r0]
  rw [mkAxis_unit (1, 0, 0) (by simp [UnitVec])]
  exact ⟨_, rfl, rfl, by simp only [dsEx2_cTheta, dsEx2_nA]⟩

theorem dsEx2_abaAngles : abaAngles (1 / 1000 : ℝ) .ZYZ (-(Real.pi / 2)) (1, 0, 0)
    = .ok (Real.pi / 2, -(Real.pi / 2), -(Real.pi / 2)) := by
  have hpi := Real.two_le_pi
  have hnp : ¬ |-(Real.pi / 2) - Real.pi| < (1 / 1000 : ℝ) := by
    rw [abs_of_neg (by linarith)]; linarith
  have h4 : -(Real.pi / 2) / 2 = -(Real.pi / 4) := by ring
  have hc : 0 < Real.cos (Real.pi / 4) := by rw [Real.cos_pi_div_four]; positivity
  have hs : ¬ |Real.sin (-(Real.pi / 4))| < (1 / 1000 : ℝ) := by
    rw [Real.sin_neg, abs_neg, Real.sin_pi_div_four, abs_of_pos (by positivity)]
    have : 1 ≤ Real.sqrt 2 := by
      nlinarith [Real.sqrt_nonneg 2, Real.mul_self_sqrt (show (0 : ℝ) ≤ 2 by norm_num)]
    linarith
  rw [ABA.abaAngles_unit _ _ _ _ (by norm_num) (by linarith) (by linarith)]
  have hp : ABA.atan2 0 (Real.cos (Real.pi / 4)) = 0 := by
    unfold ABA.atan2
    have : (⟨Real.cos (Real.pi / 4), 0⟩ : ℂ) = ((Real.cos (Real.pi / 4) : ℝ) : ℂ) := rfl
    rw [this, Complex.arg_ofReal_of_nonneg hc.le]
  have hθ2 : ABA.csgn (2 * Real.arccos (ABA.clamp (Real.cos (Real.pi / 4)))) (-(Real.pi / 2))
      = -(Real.pi / 2) := by
    rw [ABA.clamp_of_mem (by linarith) (Real.cos_le_one _), Real.arccos_cos (by linarith) (by linarith)]
    unfold ABA.csgn
    rw [if_neg (by linarith), abs_of_nonneg (by linarith)]; ring
  have hm : ABA.csgn (2 * Real.arccos (ABA.clamp 0)) 1 = Real.pi := by
    rw [ABA.clamp_of_mem (by norm_num) (by norm_num), Real.arccos_zero]
    unfold ABA.csgn
    rw [if_pos (by norm_num), abs_of_nonneg (by linarith)]; ring
  have hptm : ABA.ptm (1 / 1000) 0 0 1 (-(Real.pi / 2)) = (0, -(Real.pi / 2), Real.pi) := by
    unfold ABA.ptm
    rw [if_neg hnp]
    simp only [h4, Real.cos_neg, zero_mul, mul_zero, add_zero, Real.sqrt_one, mul_one, hp, hθ2, if_neg hs,
      zero_div, hm]
  simp only [ABAKind.ia, ABAKind.ib, ABAKind.ic, Vec3.get, hptm, ABA.finish, ABAKind.sinMNeg]
  norm_num

/-- **non-vacuity of `cnot_sem`** (two-CNOT path): the controlled `e^{i/3}·Rx(π/2)` (control `0`, target `1`) is
    decomposed, and the emitted circuit is the controlled gate up to one global phase. -/
example : ∃ out, cnotDecompose (1 / 1000 : ℝ) (.ctrl 0 (.bsr 1 (1, 0, 0) (Real.pi / 2) (1 / 3)), none) = .ok out ∧
    ∃ s : ℂ, ‖s‖ = 1 ∧ listOp4 0 1 out = s • bd 1 (rot (1, 0, 0) (Real.pi / 2) (1 / 3)) := by
  have hpi := Real.two_le_pi
  obtain ⟨xu, hxu, hax, han⟩ := dsEx2_compose
  have hang : abaAngles (1 / 1000 : ℝ) .ZYZ xu.angle xu.axis
      = .ok (Real.pi / 2, -(Real.pi / 2), -(Real.pi / 2)) := by rw [hax, han]; exact dsEx2_abaAngles
  obtain ⟨out, hout⟩ := cnotDecompose_ok (1 / 1000) (by norm_num) (by linarith) 0 1 (by decide) (1, 0, 0)
    (Real.pi / 2) (1 / 3) none xu _ _ hxu hang ex_abaAngles
  refine ⟨out, hout, (cnot_sem (1 / 1000) 0 1 (1, 0, 0) (Real.pi / 2) (1 / 3) none out (by norm_num) (by linarith)
    (by norm_num) ?_ hout).2⟩
  intro xu' θ0 θ1 θ2 h1 h2
  have hxu' : composeRot (1 / 1000 : ℝ) (xRot 1) ⟨1, (1, 0, 0), Real.pi / 2, 1 / 3, none⟩ = .ok xu := hxu
  rw [hxu'] at h1
  injection h1 with h1
  subst h1
  rw [hang] at h2
  injection h2 with h2
  simp only [Prod.mk.injEq] at h2
  obtain ⟨rfl, rfl, rfl⟩ := h2
  right
  have hnp : ¬ |Real.pi / 2 - Real.pi| < (1 / 1000 : ℝ) := by
    rw [abs_of_neg (by linarith)]; linarith
  refine ⟨?_, ⟨⟨by linarith, by linarith⟩, fun h => absurd h hnp, fun h => absurd h hnp, ?_, ?_⟩⟩
  · -- the guard does not fire: `(θ0 − θ2) mod 2π = π`
    have hfl : ⌊(Real.pi / 2 - -(Real.pi / 2)) / (2 * Real.pi)⌋ = 0 := by
      rw [show (Real.pi / 2 - -(Real.pi / 2)) / (2 * Real.pi) = 1 / 2 by field_simp; ring]
      norm_num
    simp only [pymod, trig_floor_real, hfl]
    rw [abs_of_pos (by norm_num; linarith)]
    norm_num; linarith
  · intro _ h
    exfalso
    have : Real.sin (Real.pi / 2 / 2) = Real.sqrt 2 / 2 := by
      rw [show Real.pi / 2 / 2 = Real.pi / 4 by ring, Real.sin_pi_div_four]
    rw [this] at h
    have hs : Real.sqrt 2 * Real.sqrt 2 = 2 := Real.mul_self_sqrt (by norm_num)
    norm_num at h
    nlinarith [hs]
  · intro t0 t1 t2 he x hx habs
    rw [ex_abaAngles] at he
    injection he with he
    simp only [Prod.mk.injEq] at he
    obtain ⟨rfl, rfl, rfl⟩ := he
    simp only [List.mem_cons, List.not_mem_nil, or_false] at hx
    have hid : ∀ y : ℝ, -Real.pi + 1 / 1000 ≤ y → y < Real.pi + 1 / 1000 →
        normalizeAngle (1 / 1000 : ℝ) y = y := fun y h1 h2 =>
      normalizeAngle_id_of_window _ _ (by norm_num) (by linarith) h1 h2
    rcases hx with rfl | rfl | rfl | rfl | rfl | rfl
    · exfalso; rw [hid _ (by linarith) (by linarith), abs_of_pos (by linarith)] at habs; linarith
    · rw [show -(Real.pi / 2 + -(Real.pi / 2)) / 2 = (0 : ℝ) by ring]
      exact hid 0 (by linarith) (by linarith)
    · exfalso; rw [hid _ (by linarith) (by linarith), abs_of_neg (by linarith)] at habs; linarith
    · exfalso; rw [hid _ (by linarith) (by linarith), abs_of_pos (by linarith)] at habs; linarith
    · exfalso; rw [hid _ (by linarith) (by linarith), abs_of_neg (by linarith)] at habs; linarith
    · exfalso; rw [hid _ (by linarith) (by linarith), abs_of_pos (by norm_num)] at habs; norm_num at habs

/-- non-vacuity of `cnot_shortcut_phase`: `U = σx`, `W = i•σx`, `A·B = 1`; the measured phase is `arg(1/i) = -π/2`
    and both branches get the factor `e^{iπ/4}`. -/
example : Complex.exp (-(I * ((-(Real.pi / 2)) / 2 : ℝ))) • ((1 : ℂ) • (1 : Matrix (Fin 2) (Fin 2) ℂ))
      = (Complex.exp (-(I * ((-(Real.pi / 2)) / 2 : ℝ))) * 1) • 1 ∧
    Complex.exp (I * ((-(Real.pi / 2)) / 2 : ℝ)) • (I • σx)
      = (Complex.exp (-(I * ((-(Real.pi / 2)) / 2 : ℝ))) * 1) • σx := by
  refine cnot_shortcut_phase σx (I • σx) 1 I (by simp) (by simp) rfl 0 1 (by simp [σx])
    (-(Real.pi / 2)) (-(Real.pi / 2)) 0 ?_ (by simp)
  have : σx 0 1 / (I • σx) 0 1 * 1 = -I := by simp [σx, Complex.inv_I]
  rw [this, Complex.arg_neg_I]

end OSq



















#print axioms OSq.prod2_toMatrixOn
#print axioms OSq.filter_identities_sem
#print axioms OSq.abaDecompose_sem
#print axioms OSq.abaDecompose_ok
#print axioms OSq.composeRot_sem
#print axioms OSq.mckay_generic_rot
#print axioms OSq.mckay_sem
#print axioms OSq.cnot_general_sem
#print axioms OSq.cnot_shortcut_sem
#print axioms OSq.cnot_sem
