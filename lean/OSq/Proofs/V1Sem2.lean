import OSq.Proofs.V1Sem
import OSq.Proofs.RoundTrip
import OSq.Proofs.SchedSem

/-
  OSq.Proofs.V1Sem2 — property C12, end to end: **reading the exported cQASM 1.0 text back and interpreting it
  with the cQASM 1.0 table gives the operator of the circuit** (up to one global phase, for every assignment of
  measurement / reset outcomes).  Continues `OSq.Proofs.V1Sem`; helpers in `OSq.V1Sem`.

  Specification (register level; `Op n = Matrix (Fin (2^n)) (Fin (2^n)) ℂ`, qubit 0 = least significant bit)
  * `oneSpec n q U`        the textbook one-qubit operator `U` on qubit `q` (entrywise, identity elsewhere).
  * `ctrlSpec n c t U`     (from `SchedSem`) the textbook controlled-`U`.
  * `V1Op.sem n op qs b`   register operator of a cQASM 1.0 operation on the operands `qs` for outcome `b`:
                           `gate1 U, [q] ↦ oneSpec`; `ctrl U, [c, t] ↦ ctrlSpec`; `measureZ, [q] ↦ measOp` (projector
                           `|b⟩⟨b|`); `prepZ, [q] ↦ resetOp` (`|0⟩⟨b|`); wrong operand count ↦ `none`.
  * `V1Instr`              an instruction of a cQASM 1.0 program: name, qubit indices, parameter values.
  * `v1ProgOp n instrs o`  the state map of a cQASM 1.0 program for the outcome assignment `o` (product in program
                           order, `measure_z` / `prep_z` consume one outcome each) — defined from `v1Meaning` only.
  * `V1Instr.toLine fmt i` the `Line1` the specification reader (`OSq/Sem/Grammar.lean`) returns for the instruction.

  Theorems
  * `gateOp_bsr_oneSpec`   `gateOp n (.bsr q a θ φ) = oneSpec n q.toNat (rot a θ φ)`.
  * `performs_stmtOp`      `Performs op s → ∃ z, ‖z‖ = 1 ∧ ∀ b, ∃ M, op.sem n s.qubits b = some M ∧ stmtOp n s b = z • M`
                           (the 2×2 statement of `V1Sem` lifted to the register; `z = 1` except for one-qubit gates).
  * `LibStmt.writable`     library statements satisfy the hypotheses (`Stmt.Writable`) of the reader theorems.
  * `libStmt_expectedLine1`  the line the reader returns for a library statement is
                           `instr v1 s.qubits (texts of stmtParams s)` with `v1Meaning v1 (stmtParams s) = some op`,
                           `Performs op s`.
  * `exportV1_read_denotes`  (program level, reader form) for a circuit of library statements and (one-line, `*/`-free)
                           comments: `exportV1` succeeds with some text; `readProgram1 text = some (nQubits, ls)`; the
                           instruction lines of `ls` are, in order, `instrs.map (toLine fmt)` where
                           `Forall₂ (fun s i => i.qubits = s.qubits ∧ i.params = stmtParams s ∧ ∃ op,
                           v1Meaning i.name i.params = some op ∧ Performs op s)` relates the non-comment statements and
                           `instrs`.
  * `exportV1_circuit_sem` (end to end) … and `∃ z, ‖z‖ = 1 ∧ ∀ o, ∃ M, v1ProgOp n instrs o = some M ∧
                           circOp n c.stmts o = z • M`: the cQASM 1.0 reading of the exported text is the circuit's
                           operator up to one global phase, for all outcomes.
  Remaining gap (stated, not hidden): the reader returns parameter *texts* `showArg fmt p`; their numeric value is
  the subject of `param_value` in `RoundTrip` (correct to 8 significant digits); integers (`crk`) are exact.
-/

namespace OSq
namespace V1Sem
open OSq.Sem OSq.GateTable OSq.SchedSem Complex Matrix

/-! ### Register-level specification -/

/-- the textbook one-qubit operator `U` on qubit `q` of an `n`-qubit register -/
noncomputable def oneSpec (n q : Nat) (U : M2) : Op n := fun r k =>
  if agreeOff n [q] r.val k.val then U ⟨bitOf r.val q, bitOf_lt_two _ _⟩ ⟨bitOf k.val q, bitOf_lt_two _ _⟩ else 0

theorem gateOp_bsr_oneSpec (n : Nat) (q : Int) (ax : Vec3 ℝ) (an ph : ℝ) :
    gateOp n (.bsr q ax an ph) = oneSpec n q.toNat (rot ax an ph) := by
  ext r k
  rw [gateOp_apply]
  simp only [denote, embed1, oneSpec]
  by_cases hag : agreeOff n [q.toNat] r.val k.val
  · rw [if_pos hag, if_pos hag]
    exact can1_get ax an ph ⟨_, bitOf_lt_two _ _⟩ ⟨_, bitOf_lt_two _ _⟩
  · rw [if_neg hag, if_neg hag, Cx.toC_zero]

theorem oneSpec_smul (n q : Nat) (z : ℂ) (U : M2) : oneSpec n q (z • U) = z • oneSpec n q U := by
  ext r k
  simp only [oneSpec, Matrix.smul_apply, smul_eq_mul]
  split <;> simp

/-- register operator of a cQASM 1.0 operation on the operands `qs`, for the outcome `b` -/
noncomputable def V1Op.sem (n : Nat) : V1Op → List Int → Bool → Option (Op n)
  | .gate1 U, [q], _ => some (oneSpec n q.toNat U)
  | .ctrl U, [c, t], _ => some (ctrlSpec n c.toNat t.toNat U)
  | .measureZ, [q], b => some (measOp n q.toNat b)
  | .prepZ, [q], b => some (resetOp n q.toNat b)
  | _, _, _ => none

def V1Op.hasOutcome : V1Op → Bool
  | .measureZ | .prepZ => true
  | _ => false

/-- **the 2×2 statement lifted to the register**: a statement that performs `op` acts on the register as the
    cQASM 1.0 operation `op` on the statement's qubits, up to a unit phase -/
theorem performs_stmtOp (n : Nat) {op : V1Op} {s : Stmt ℝ} (h : Performs op s) :
    ∃ z : ℂ, ‖z‖ = 1 ∧ ∀ b, ∃ M, op.sem n s.qubits b = some M ∧ stmtOp n s b = z • M := by
  match op, s, h with
  | .gate1 U, .gate (.bsr q a θ φ) nm, h =>
    obtain ⟨z, hz, hU⟩ := h
    refine ⟨z, hz, fun b => ⟨_, rfl, ?_⟩⟩
    show gateOp n _ = _
    rw [gateOp_bsr_oneSpec, hU, oneSpec_smul]
  | .ctrl U, .gate (.ctrl c (.bsr t a θ φ)) nm, h =>
    refine ⟨1, by simp, fun b => ⟨_, rfl, ?_⟩⟩
    show gateOp n _ = _
    have hU : rot a θ φ = U := h
    rw [gateOp_ctrl_bsr, hU, one_smul]
  | .measureZ, .measure q b' ax nm, _ =>
    exact ⟨1, by simp, fun b => ⟨_, rfl, by rw [one_smul]; rfl⟩⟩
  | .prepZ, .reset q nm, _ =>
    exact ⟨1, by simp, fun b => ⟨_, rfl, by rw [one_smul]; rfl⟩⟩

theorem performs_hasOutcome {op : V1Op} {s : Stmt ℝ} (h : Performs op s) : op.hasOutcome = s.hasOutcome := by
  match op, s, h with
  | .gate1 U, .gate (.bsr q a θ φ) nm, _ => rfl
  | .ctrl U, .gate (.ctrl c (.bsr t a θ φ)) nm, _ => rfl
  | .measureZ, .measure q b' ax nm, _ => rfl
  | .prepZ, .reset q nm, _ => rfl

/-! ### cQASM 1.0 programs -/

/-- an instruction of a cQASM 1.0 program -/
structure V1Instr where
  name : String
  qubits : List Int
  params : List (Arg ℝ)

/-- the line the specification reader returns for it (parameters as texts) -/
def V1Instr.toLine (fmt : ℝ → String) (i : V1Instr) : Line1 :=
  .instr i.name i.qubits (i.params.map (showArg fmt))

/-- **the meaning of a cQASM 1.0 program** for the outcome assignment `o`: product in program order (later
    instructions on the left); `measure_z` / `prep_z` consume the next outcome.  `none` if some instruction has no
    meaning (unknown name, wrong parameters or operand count). -/
noncomputable def v1ProgOp (n : Nat) : List V1Instr → List Bool → Option (Op n)
  | [], _ => some 1
  | i :: rest, o =>
    (v1Meaning i.name i.params).bind fun op =>
      (op.sem n i.qubits (o.headD false)).bind fun M =>
        (v1ProgOp n rest (if op.hasOutcome then o.tail else o)).map fun R => R * M

def Line1.isInstr : Line1 → Bool
  | .instr .. => true
  | _ => false

/-! ### Library statements are writable, and what the reader returns for them -/

theorem LibGate.writable {atol : ℝ} {g : Gate ℝ} {nm : Named ℝ} (h : LibGate atol g nm) :
    (Stmt.gate g (some nm)).Writable := by
  obtain ⟨v1, op, hsp, -, -, -, -⟩ := libGate_denotes h
  have hid : isIdent nm.name = true :=
    (by decide : ∀ p ∈ v1Spelling, isIdent p.1 = true) _ hsp
  cases h <;> exact ⟨hid, by simp, by simp [Named.qubitArgs]⟩

theorem LibStmt.writable {atol : ℝ} (h0 : 0 < atol) (h1 : atol ≤ Real.pi / 2) {s : Stmt ℝ}
    (h : LibStmt atol s) : s.Writable := by
  cases h with
  | gate h => exact (callGate_cases atol h0 h1 h).writable
  | measure h =>
    obtain ⟨q, b, hn, rfl⟩ := callMeasure_cases h
    rcases hn with rfl | rfl
    · exact ⟨(by decide : isIdent "measure" = true), q, b, rfl⟩
    · exact ⟨(by decide : isIdent "measure_z" = true), q, b, rfl⟩
  | reset h =>
    obtain ⟨q, rfl, rfl⟩ := callReset_cases h
    exact ⟨(by decide : isIdent "reset" = true), q, rfl⟩

/-- the line read back for a library statement: a cQASM 1.0 name whose meaning the statement performs, the
    statement's qubits, the texts of the statement's parameters -/
theorem libStmt_expectedLine1 (fmt : ℝ → String) {atol : ℝ} (h0 : 0 < atol) (h1 : atol ≤ Real.pi / 2)
    {s : Stmt ℝ} (h : LibStmt atol s) :
    ∃ v1 op, expectedLine1 fmt s = .instr v1 s.qubits ((stmtParams s).map (showArg fmt)) ∧
      v1Meaning v1 (stmtParams s) = some op ∧ Performs op s := by
  cases h with
  | @gate name args g nm h =>
    obtain ⟨v1, op, hsp, -, hq, hm, hp⟩ := libGate_denotes (callGate_cases atol h0 h1 h)
    refine ⟨v1, op, ?_, hm, hp⟩
    show Line1.instr nm.name.toLower nm.qubitArgs (paramTexts fmt nm) = _
    rw [toLower_names _ hsp, hq]; rfl
  | measure h =>
    obtain ⟨q, b, -, rfl⟩ := callMeasure_cases h
    exact ⟨"measure_z", .measureZ, rfl, rfl, rfl⟩
  | reset h =>
    obtain ⟨q, -, rfl⟩ := callReset_cases h
    exact ⟨"prep_z", .prepZ, rfl, rfl, trivial⟩

/-- statement `s` is denoted by instruction `i` -/
def Denoted (s : Stmt ℝ) (i : V1Instr) : Prop :=
  i.qubits = s.qubits ∧ i.params = stmtParams s ∧ ∃ op, v1Meaning i.name i.params = some op ∧ Performs op s

/-- the statements of the reader theorems: library statements and one-line, `*/`-free comments -/
def Readable (atol : ℝ) (s : Stmt ℝ) : Prop :=
  LibStmt atol s ∨ ∃ t, s = .comment t ∧ (Stmt.comment t : Stmt ℝ).Writable

/-- per-list core of the two program theorems -/
theorem stmts_instrs (fmt : ℝ → String) (n : Nat) {atol : ℝ} (h0 : 0 < atol) (h1 : atol ≤ Real.pi / 2) :
    ∀ (stmts : List (Stmt ℝ)), (∀ s ∈ stmts, Readable atol s) →
      ∃ instrs : List V1Instr,
        (stmts.map (expectedLine1 fmt)).filter Line1.isInstr = instrs.map (V1Instr.toLine fmt) ∧
        List.Forall₂ Denoted (stmts.filter (fun s => !isComment s)) instrs ∧
        ∃ z : ℂ, ‖z‖ = 1 ∧ ∀ o, ∃ M, v1ProgOp n instrs o = some M ∧ circOp n stmts o = z • M
  | [], _ => ⟨[], rfl, .nil, 1, by simp, fun o => ⟨1, rfl, by simp⟩⟩
  | s :: rest, hall => by
    obtain ⟨instrs, hL, hF, z, hz, hO⟩ :=
      stmts_instrs fmt n h0 h1 rest (fun s' hs' => hall s' (List.mem_cons_of_mem _ hs'))
    rcases hall s (by simp) with hlib | ⟨t, rfl, -⟩
    · obtain ⟨v1, op, hE, hm, hp⟩ := libStmt_expectedLine1 fmt h0 h1 hlib
      obtain ⟨z1, hz1, hS⟩ := performs_stmtOp n hp
      have hout := performs_hasOutcome hp
      refine ⟨⟨v1, s.qubits, stmtParams s⟩ :: instrs, ?_, ?_, z * z1, by rw [norm_mul, hz, hz1, one_mul], ?_⟩
      · rw [List.map_cons, hE, List.filter_cons_of_pos rfl, hL]; rfl
      · rw [List.filter_cons_of_pos (by rw [hlib.not_comment]; rfl)]
        exact .cons ⟨rfl, rfl, op, hm, hp⟩ hF
      · intro o
        obtain ⟨M1, hM1, hS1⟩ := hS (o.headD false)
        obtain ⟨R, hR, hC⟩ := hO (if op.hasOutcome then o.tail else o)
        refine ⟨R * M1, ?_, ?_⟩
        · simp only [v1ProgOp, hm, Option.bind_some, hM1, hR, Option.map_some]
        · rw [circOp_cons, ← hout]
          cases ho : op.hasOutcome
          · simp only [ho, Bool.false_eq_true, if_false] at hC
            simp only [Bool.false_eq_true, if_false]
            obtain ⟨M1', hM1', hS1'⟩ := hS false
            -- gates ignore the outcome
            have : M1' = M1 := by
              have hg : ∀ b b', op.sem n s.qubits b = op.sem n s.qubits b' := by
                intro b b'
                match op, ho with
                | .gate1 U, _ => cases s.qubits with
                  | nil => rfl
                  | cons q t => cases t <;> rfl
                | .ctrl U, _ => cases s.qubits with
                  | nil => rfl
                  | cons q t => cases t with
                    | nil => rfl
                    | cons q' t' => cases t' <;> rfl
              rw [hg false (o.headD false), hM1] at hM1'
              exact (Option.some.inj hM1').symm
            rw [hC, hS1', this, smul_mul_smul_comm]
          · simp only [ho, if_true] at hC
            simp only [if_true]
            rw [hC, hS1, smul_mul_smul_comm]
    · refine ⟨instrs, ?_, ?_, z, hz, ?_⟩
      · rw [List.map_cons, List.filter_cons_of_neg (by simp [expectedLine1, Line1.isInstr])]; exact hL
      · rw [List.filter_cons_of_neg (by simp [isComment])]; exact hF
      · intro o
        obtain ⟨R, hR, hC⟩ := hO o
        exact ⟨R, hR, by rw [circOp_comment, hC]⟩

/-- **C12, program level, reader form (`exportV1_read_denotes`).**  The exported text of a circuit of library
    statements and comments is read by the cQASM 1.0 specification reader as the register size and a list of
    lines whose instruction lines are, in order and one per non-comment statement, instructions that denote the
    statements: same qubits, same parameters (rendered by `fmt`), and a name whose cQASM 1.0 meaning at these
    parameters is the operation the statement performs. -/
theorem exportV1_read_denotes (fmt : ℝ → String) (hfmt : ∀ x, isParamTok (fmt x) = true) (atol : ℝ)
    (h0 : 0 < atol) (h1 : atol ≤ Real.pi / 2) (c : Circuit ℝ) (hc : ∀ s ∈ c.stmts, Readable atol s) :
    ∃ text ls instrs, exportV1 fmt c = .ok text ∧ readProgram1 text = some (c.nQubits, ls) ∧
      ls.filter Line1.isInstr = instrs.map (V1Instr.toLine fmt) ∧
      List.Forall₂ Denoted (c.stmts.filter (fun s => !isComment s)) instrs := by
  have hW : ∀ s ∈ c.stmts, s.Writable := by
    intro s hs
    rcases hc s hs with hlib | ⟨t, rfl, hw⟩
    · exact hlib.writable h0 h1
    · exact hw
  obtain ⟨text, hok, -⟩ := exportV1_writable fmt c hW
  obtain ⟨instrs, hL, hF, -⟩ := stmts_instrs fmt 0 h0 h1 c.stmts hc
  exact ⟨text, _, instrs, hok, readProgram1_exportV1 fmt hfmt c hW text hok, hL, hF⟩

/-- **C12, end to end (`exportV1_circuit_sem`).**  Interpreting the instruction lines read back from the exported
    text with the cQASM 1.0 table (`v1ProgOp`, defined from `v1Meaning` alone) gives the operator of the circuit
    (`circOp`, the register-level specification of `OSq/Sem/Circuit.lean`) up to ONE unit global phase, for every
    assignment `o` of measurement / reset outcomes, on every register size `n`. -/
theorem exportV1_circuit_sem (fmt : ℝ → String) (hfmt : ∀ x, isParamTok (fmt x) = true) (atol : ℝ)
    (h0 : 0 < atol) (h1 : atol ≤ Real.pi / 2) (c : Circuit ℝ) (hc : ∀ s ∈ c.stmts, Readable atol s) (n : Nat) :
    ∃ text ls instrs, exportV1 fmt c = .ok text ∧ readProgram1 text = some (c.nQubits, ls) ∧
      ls.filter Line1.isInstr = instrs.map (V1Instr.toLine fmt) ∧
      ∃ z : ℂ, ‖z‖ = 1 ∧ ∀ o, ∃ M, v1ProgOp n instrs o = some M ∧ circOp n c.stmts o = z • M := by
  have hW : ∀ s ∈ c.stmts, s.Writable := by
    intro s hs
    rcases hc s hs with hlib | ⟨t, rfl, hw⟩
    · exact hlib.writable h0 h1
    · exact hw
  obtain ⟨text, hok, -⟩ := exportV1_writable fmt c hW
  obtain ⟨instrs, hL, -, hZ⟩ := stmts_instrs fmt n h0 h1 c.stmts hc
  exact ⟨text, _, instrs, hok, readProgram1_exportV1 fmt hfmt c hW text hok, hL, hZ⟩

/-! ### Non-vacuity -/

theorem exStmts_readable : ∀ s ∈ exStmts, Readable (Gen.atol : ℝ) s := by
  intro s hs
  rcases exStmts_exportable s hs with h | ⟨t, rfl⟩ | ⟨g, rfl⟩
  · exact .inl h
  · simp only [exStmts, List.mem_cons, List.not_mem_nil, or_false] at hs
    rcases hs with h | h | h | h | h <;> try cases h
    exact .inr ⟨_, rfl, by decide, by rw [infix_pair_iff]; decide⟩
  · simp only [exStmts, List.mem_cons, List.not_mem_nil, or_false] at hs
    rcases hs with h | h | h | h | h <;> cases h

/-- the end-to-end theorem applies to `H q[0]; /* c */; CNOT q[0], q[1]; measure q[1]; reset q[1]` on a 2-qubit
    register with any token-producing formatter -/
example (fmt : ℝ → String) (hfmt : ∀ x, isParamTok (fmt x) = true) :
    ∃ text ls instrs, exportV1 fmt ⟨2, 1, exStmts⟩ = .ok text ∧ readProgram1 text = some (2, ls) ∧
      ls.filter Line1.isInstr = instrs.map (V1Instr.toLine fmt) ∧
      ∃ z : ℂ, ‖z‖ = 1 ∧ ∀ o, ∃ M, v1ProgOp 2 instrs o = some M ∧ circOp 2 exStmts o = z • M :=
  exportV1_circuit_sem fmt hfmt Gen.atol atol_gen_pos atol_gen_le ⟨2, 1, exStmts⟩ exStmts_readable 2

/-- formatters producing parameter tokens exist (e.g. a constant one) -/
example : ∀ x : ℝ, isParamTok ((fun _ => "0.5") x) = true :=
  fun _ => (by decide : isParamTok "0.5" = true)

/-- `v1ProgOp` is not trivially `none` / trivially satisfiable: a program with an unknown name has no meaning,
    the empty program is the identity, `cnot` with one operand has no meaning -/
example (o : List Bool) : v1ProgOp 2 [⟨"X90", [0], []⟩] o = none := rfl
example (o : List Bool) : v1ProgOp 2 [] o = some 1 := rfl
example (o : List Bool) : v1ProgOp 2 [⟨"cnot", [0], []⟩] o = none := rfl
example (o : List Bool) : v1ProgOp 2 [⟨"cnot", [0, 1], []⟩] o
    = some (1 * ctrlSpec 2 0 1 !![0, 1; 1, 0]) := rfl

end V1Sem
end OSq

#print axioms OSq.V1Sem.gateOp_bsr_oneSpec
#print axioms OSq.V1Sem.performs_stmtOp
#print axioms OSq.V1Sem.LibStmt.writable
#print axioms OSq.V1Sem.libStmt_expectedLine1
#print axioms OSq.V1Sem.exportV1_read_denotes
#print axioms OSq.V1Sem.exportV1_circuit_sem
