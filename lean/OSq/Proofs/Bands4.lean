/-
  OSq.Proofs.Bands4 — all-inputs error bounds (no crisp hypothesis), continued: the **CNOT decomposer, two-CNOT
  (general) path**.  4×4 operators on (control, target) are block matrices over the control (`DecomposeSem`: `M4`, `bd`,
  `op4`, `listOp4`); all bounds are entrywise.

  * `offOf`, `onOf`, `Diag4`, `listOp4_bd`   a list of gates each of which is block diagonal over the control has the
                               operator `bd (∏ control-off blocks) (∏ control-on blocks)`
  * `Good4`                    what is needed of a gate: block diagonal, both blocks phase×unit-quaternion, and dropping
                               it when `is_identity` accepts it costs `≤ atol/2` in either block
                               (`good4_target`: `R_i(θ)` on the target; `good4_cnot`: `CNOT` is never dropped;
                               `good4_control`: `Rz(θ)` on the control)
  * `filter4_band`             the identity filter on such a list: both blocks move by `≤ k·atol/2`, `k = idCount`
  * `cnot_general_all_inputs`  two-CNOT path, **no crisp hypothesis** on the Z-Y-Z tests or on the identity filter:
                               `listOp4 c t out = bd Off On` with `‖Off i j − (s•1) i j‖ ≤ 3·atol`,
                               `‖On i j − (s • rot n α φ) i j‖ ≤ (11/2)·atol` for one unit `s`
                               (`5/2` for the Z-Y-Z angles, `1/2` for each of the ≤ 6 dropped gates)
  * `cnot_general_all_inputs_entry`   the same entrywise on the 4×4 matrix:
                               `∀ x y, ‖listOp4 c t out x y − (s • bd 1 (rot n α φ)) x y‖ ≤ (11/2)·atol`
  Example: controlled `e^{i/2000}·Rx(π/2)` at `atol = 1/1000` — the `Rz` on the control is strictly inside the identity
  band and is dropped.
-/
import OSq.Proofs.Bands2

set_option linter.unnecessarySeqFocus false
set_option linter.unusedSimpArgs false
set_option linter.unusedVariables false
open Matrix

namespace OSq
namespace Bands
open Sem Complex

/-! ### block-diagonal lists -/

/-- the control-off / control-on diagonal blocks of the 4×4 operator of a gate statement -/
noncomputable def offOf (c t : Int) (g : GStmt ℝ) : Matrix (Fin 2) (Fin 2) ℂ := (op4 c t g).toBlocks₁₁
noncomputable def onOf (c t : Int) (g : GStmt ℝ) : Matrix (Fin 2) (Fin 2) ℂ := (op4 c t g).toBlocks₂₂

theorem offOf_of_bd {c t : Int} {g : GStmt ℝ} {X Y : Matrix (Fin 2) (Fin 2) ℂ} (h : op4 c t g = bd X Y) :
    offOf c t g = X := by
  unfold offOf; rw [h]; exact Matrix.toBlocks_fromBlocks₁₁ _ _ _ _

theorem onOf_of_bd {c t : Int} {g : GStmt ℝ} {X Y : Matrix (Fin 2) (Fin 2) ℂ} (h : op4 c t g = bd X Y) :
    onOf c t g = Y := by
  unfold onOf; rw [h]; exact Matrix.toBlocks_fromBlocks₂₂ _ _ _ _

/-- the operator of the gate is block diagonal over the control -/
def Diag4 (c t : Int) (g : GStmt ℝ) : Prop := ∃ X Y, op4 c t g = bd X Y

theorem Diag4.eq {c t : Int} {g : GStmt ℝ} (h : Diag4 c t g) : op4 c t g = bd (offOf c t g) (onOf c t g) := by
  obtain ⟨X, Y, e⟩ := h
  rw [offOf_of_bd e, onOf_of_bd e, e]

theorem listOp4_bd (c t : Int) (l : List (GStmt ℝ)) (h : ∀ g ∈ l, Diag4 c t g) :
    listOp4 c t l = bd (prodF (offOf c t) l) (prodF (onOf c t) l) := by
  induction l with
  | nil => exact bd_one.symm
  | cons g l ih =>
    rw [listOp4_cons, ih (fun g' hg' => h g' (List.mem_cons_of_mem _ hg')), (h g List.mem_cons_self).eq, bd_mul]
    rfl

theorem norm_one_sub_exp (x : ℝ) : ‖1 - Complex.exp (I * x)‖ ≤ |x| := by
  have := norm_exp_sub_exp_le 0 x
  rw [zero_sub, abs_neg] at this
  simpa using this

theorem norm_one_sub_exp_neg (x : ℝ) : ‖1 - Complex.exp (-(I * x))‖ ≤ |x| := by
  have := norm_one_sub_exp (-x)
  rw [abs_neg] at this
  have e : I * ((-x : ℝ) : ℂ) = -(I * x) := by push_cast; ring
  rwa [e] at this

/-- what the band argument needs of one gate of a two-qubit list -/
structure Good4 (atol : ℝ) (c t : Int) (g : GStmt ℝ) : Prop where
  diag : Diag4 c t g
  offP : PUQ (offOf c t g)
  onP : PUQ (onOf c t g)
  offC : g.1.isIdentity atol = true → ∀ A B, PUQ A → PUQ B → ∀ i j : Fin 2,
    ‖(A * (1 - offOf c t g) * B) i j‖ ≤ atol / 2
  onC : g.1.isIdentity atol = true → ∀ A B, PUQ A → PUQ B → ∀ i j : Fin 2,
    ‖(A * (1 - onOf c t g) * B) i j‖ ≤ atol / 2

/-- a named rotation `R_i(θ)` on the target -/
theorem good4_target (atol : ℝ) (h0 : 0 ≤ atol) (h1 : atol < Real.pi) (nme : String) (c t : Int) (i : Nat) (θ : ℝ) :
    Good4 atol c t (rotStmt atol nme t (eAxis i) θ) := by
  rw [rotStmt_real atol h0 h1]
  have e := op4_target c t (eAxis i) (normalizeAngle atol θ) 0 (some ⟨nme, [.qubit t, .float θ]⟩)
  have hP := PUQ.rot (eAxis i) (eAxis_unit i) (normalizeAngle atol θ) 0
  have hC : (Gate.bsr t (eAxis i) (normalizeAngle atol θ) 0).isIdentity atol = true → ∀ A B, PUQ A → PUQ B →
      ∀ i' j' : Fin 2, ‖(A * (1 - rot (eAxis i) (normalizeAngle atol θ) 0) * B) i' j'‖ ≤ atol / 2 := by
    intro hid A B hA hB i' j'
    obtain ⟨ht, -⟩ := (isIdentity_bsr_iff atol t _ _ _).mp hid
    have := drop_cost_rot (eAxis i) (eAxis_unit i) (normalizeAngle atol θ) 0 hA hB i' j'
    rw [abs_zero, add_zero] at this
    linarith
  refine ⟨⟨_, _, e⟩, ?_, ?_, ?_, ?_⟩
  · rw [offOf_of_bd e]; exact hP
  · rw [onOf_of_bd e]; exact hP
  · rw [offOf_of_bd e]; exact hC
  · rw [onOf_of_bd e]; exact hC

/-- `CNOT(c, t)`: block diagonal, never dropped -/
theorem good4_cnot (atol : ℝ) (h0 : 0 < atol) (h1 : atol < Real.pi) (c t : Int) :
    Good4 atol c t (cnotStmt atol c t (eAxis 0)) := by
  have hpi := Real.pi_pos
  have e := op4_cnotStmt atol h0 h1 c t
  have hid : (cnotStmt atol c t (eAxis 0)).1.isIdentity atol = false := by
    rw [cnotStmt_real atol h0 h1, Bool.eq_false_iff]
    intro h
    have h' : (Gate.bsr t (eAxis 0) Real.pi (Real.pi / 2)).isIdentity atol = true := h
    obtain ⟨ht, -⟩ := (isIdentity_bsr_iff atol t _ _ _).mp h'
    rw [abs_of_pos hpi] at ht
    linarith
  refine ⟨⟨_, _, e⟩, ?_, ?_, ?_, ?_⟩
  · rw [offOf_of_bd e]; exact PUQ.one
  · rw [onOf_of_bd e]; exact PUQ.rot (eAxis 0) (eAxis_unit 0) _ _
  · intro h; rw [hid] at h; cases h
  · intro h; rw [hid] at h; cases h

/-- `Rz(θ)` on the control: the scalars `e^{∓iθ'/2}` on the two blocks -/
theorem good4_control (atol : ℝ) (h0 : 0 ≤ atol) (h1 : atol < Real.pi) (c t : Int) (hct : c ≠ t) (ph : ℝ) :
    Good4 atol c t (rotStmt atol "Rz" c (eAxis 2) ph) := by
  have e := op4_rotStmt_control atol h0 h1 c t hct ph
  have hid : (rotStmt atol "Rz" c (eAxis 2) ph).1.isIdentity atol = true → |normalizeAngle atol ph| < atol := by
    rw [rotStmt_real atol h0 h1]
    intro h
    exact ((isIdentity_bsr_iff atol c _ _ _).mp h).1
  have cost : ∀ w : ℂ, ‖1 - w‖ ≤ atol / 2 → ∀ A B, PUQ A → PUQ B → ∀ i j : Fin 2,
      ‖(A * (1 - w • (1 : Matrix (Fin 2) (Fin 2) ℂ)) * B) i j‖ ≤ atol / 2 := by
    intro w hw A B hA hB i j
    have e1 : (1 : Matrix (Fin 2) (Fin 2) ℂ) - w • 1 = (1 - w) • 1 := by rw [sub_smul, one_smul]
    rw [e1]
    exact (puq_sandwich_scalar hA hB _ i j).trans hw
  refine ⟨⟨_, _, e⟩, ?_, ?_, ?_, ?_⟩
  · rw [offOf_of_bd e]; exact PUQ.one.smul _ (norm_exp_neg_I_mul _)
  · rw [onOf_of_bd e]; exact PUQ.one.smul _ (norm_exp_I_mul _)
  · intro h
    rw [offOf_of_bd e]
    refine cost _ ((norm_one_sub_exp_neg _).trans ?_)
    have := hid h
    rw [abs_div, abs_two]; linarith
  · intro h
    rw [onOf_of_bd e]
    refine cost _ ((norm_one_sub_exp _).trans ?_)
    have := hid h
    rw [abs_div, abs_two]; linarith

/-- **filter4_band**: the identity filter on a two-qubit list of `Good4` gates, block by block -/
theorem filter4_band (atol : ℝ) (hat : 0 ≤ atol) (c t : Int) (l : List (GStmt ℝ)) (hl : ∀ g ∈ l, Good4 atol c t g) :
    listOp4 c t (filterOutIdentities atol l)
      = bd (prodF (offOf c t) (filterOutIdentities atol l)) (prodF (onOf c t) (filterOutIdentities atol l)) ∧
    listOp4 c t l = bd (prodF (offOf c t) l) (prodF (onOf c t) l) ∧
    (∀ i j : Fin 2, ‖prodF (offOf c t) (filterOutIdentities atol l) i j - prodF (offOf c t) l i j‖
      ≤ idCount atol l * (atol / 2)) ∧
    (∀ i j : Fin 2, ‖prodF (onOf c t) (filterOutIdentities atol l) i j - prodF (onOf c t) l i j‖
      ≤ idCount atol l * (atol / 2)) := by
  refine ⟨listOp4_bd c t _ (fun g hg => (hl g ((filterOutIdentities_sublist atol l).subset hg)).diag),
    listOp4_bd c t _ (fun g hg => (hl g hg).diag), fun i j => ?_, fun i j => ?_⟩
  · have := filter_band_gen atol (atol / 2) (by positivity) (offOf c t) l (fun g hg => (hl g hg).offP)
      (fun g hg => (hl g hg).offC) 1 1 PUQ.one PUQ.one i j
    rwa [Matrix.one_mul, Matrix.mul_one, Matrix.sub_apply] at this
  · have := filter_band_gen atol (atol / 2) (by positivity) (onOf c t) l (fun g hg => (hl g hg).onP)
      (fun g hg => (hl g hg).onC) 1 1 PUQ.one PUQ.one i j
    rwa [Matrix.one_mul, Matrix.mul_one, Matrix.sub_apply] at this

/-! ### the two-CNOT path on every input -/

theorem ite_le_one (b : Bool) : (if b = true then 1 else 0 : ℕ) ≤ 1 := by cases b <;> simp

/-- **cnot_general_all_inputs**.  For `g = ControlledGate(c, R_n(α, φ) on t)` with `n` a unit axis and
    `α ∈ [-π+atol, π+atol)`, on the two-CNOT path (the guard of the one-CNOT shortcut does not fire) and with **no
    crisp hypothesis** — neither on the three Z-Y-Z tests nor on the identity filter — the emitted circuit
    `C · CNOT · B · CNOT · A · Rz_c(φ)` (minus the gates the filter drops) is a block matrix `bd Off On` over the
    control with, for one unit scalar `s`,
    `‖Off i j − (s•1) i j‖ ≤ 3·atol` (control off) and `‖On i j − (s • R_n(α, φ)) i j‖ ≤ (11/2)·atol` (control on).
    The identities `A·B·C = 1`, `A·X·B·X·C = Rz·Ry·Rz` are exact for all angles; the error is the Z-Y-Z error `5/2`
    plus `1/2` for each of the at most six dropped gates (five target rotations and the `Rz` on the control). -/
theorem cnot_general_all_inputs (atol : ℝ) (c t : Int) (n : Vec3 ℝ) (α φ : ℝ) (nm : Option (Named ℝ))
    (out : List (GStmt ℝ))
    (hat : 0 < atol) (hat' : atol < Real.pi) (hn : n.1 ^ 2 + n.2.1 ^ 2 + n.2.2 ^ 2 = 1)
    (h1 : -Real.pi + atol ≤ α) (h2 : α < Real.pi + atol)
    (hguard : ∀ xu θ0 θ1 θ2,
        composeRot atol ⟨t, eAxis 0, Real.pi, Real.pi / 2, some ⟨"X", [.qubit t]⟩⟩ ⟨t, n, α, φ, none⟩ = .ok xu →
        abaAngles atol .ZYZ xu.angle xu.axis = .ok (θ0, θ1, θ2) →
        ¬ |pymod (θ0 - θ2) (2 * Real.pi)| < atol)
    (h : cnotDecompose atol (.ctrl c (.bsr t n α φ), nm) = .ok out) :
    c ≠ t ∧ ∃ (s : ℂ) (Off On : Matrix (Fin 2) (Fin 2) ℂ), ‖s‖ = 1 ∧ listOp4 c t out = bd Off On ∧
      (∀ i j : Fin 2, ‖Off i j - (s • (1 : Matrix (Fin 2) (Fin 2) ℂ)) i j‖ ≤ 3 * atol) ∧
      (∀ i j : Fin 2, ‖On i j - (s • rot n α φ) i j‖ ≤ 11 / 2 * atol) := by
  have hpi := Real.pi_pos
  obtain ⟨axX, axY, axZ, xu, θ0, θ1, θ2, hX, hY, hZ, hct, hxu, hang, hsc | hgen⟩ := cnot_form h
  · exfalso
    obtain rfl := mkAxis_axisLit_inj hX
    have e : (π / sc 2 : ℝ) = Real.pi / 2 := by simp
    rw [e, pi_real, normalizeAngle_id_of_window atol _ hat.le hat' (by linarith) (by linarith),
      normalizeAngle_id_of_window atol _ hat.le hat' (by linarith) (by linarith)] at hxu
    have := hguard xu θ0 θ1 θ2 hxu hang
    apply this
    simpa using hsc.1
  · obtain ⟨-, t0, t1, t2, hang', rfl⟩ := hgen
    obtain rfl := mkAxis_axisLit_inj hX
    obtain rfl := mkAxis_axisLit_inj hY
    obtain rfl := mkAxis_axisLit_inj hZ
    refine ⟨hct, ?_⟩
    simp only [two_real] at *
    set l8 : List (GStmt ℝ) := [rotStmt atol "Rz" t (eAxis 2) ((t0 - t2) / 2), cnotStmt atol c t (eAxis 0),
      rotStmt atol "Rz" t (eAxis 2) (-(t0 + t2) / 2), rotStmt atol "Ry" t (eAxis 1) (-t1 / 2),
      cnotStmt atol c t (eAxis 0), rotStmt atol "Ry" t (eAxis 1) (t1 / 2), rotStmt atol "Rz" t (eAxis 2) t2,
      rotStmt atol "Rz" c (eAxis 2) φ] with hl8
    have hgood : ∀ g ∈ l8, Good4 atol c t g := by
      intro g hg
      simp only [hl8, List.mem_cons, List.not_mem_nil, or_false] at hg
      rcases hg with rfl | rfl | rfl | rfl | rfl | rfl | rfl | rfl
      · exact good4_target atol hat.le hat' _ c t _ _
      · exact good4_cnot atol hat hat' c t
      · exact good4_target atol hat.le hat' _ c t _ _
      · exact good4_target atol hat.le hat' _ c t _ _
      · exact good4_cnot atol hat hat' c t
      · exact good4_target atol hat.le hat' _ c t _ _
      · exact good4_target atol hat.le hat' _ c t _ _
      · exact good4_control atol hat.le hat' c t hct φ
    obtain ⟨eF, eU, dOff, dOn⟩ := filter4_band atol hat.le c t l8 hgood
    -- at most six gates can be dropped
    have hcnt : (idCount atol l8 : ℝ) ≤ 6 := by
      have hc := (good4_cnot atol hat hat' c t).offC
      have hcid : (cnotStmt atol c t (eAxis 0)).1.isIdentity atol = false := by
        cases hb : (cnotStmt atol c t (eAxis 0)).1.isIdentity atol with
        | false => rfl
        | true =>
          exfalso
          have hpos := Real.pi_pos
          rw [cnotStmt_real atol hat hat'] at hb
          have h' : (Gate.bsr t (eAxis 0) Real.pi (Real.pi / 2)).isIdentity atol = true := hb
          obtain ⟨ht, -⟩ := (isIdentity_bsr_iff atol t _ _ _).mp h'
          rw [abs_of_pos hpos] at ht
          linarith
      have : idCount atol l8 ≤ 6 := by
        simp only [hl8, idCount_cons, hcid]
        have a1 := ite_le_one ((rotStmt atol "Rz" t (eAxis 2) ((t0 - t2) / 2)).1.isIdentity atol)
        have a2 := ite_le_one ((rotStmt atol "Rz" t (eAxis 2) (-(t0 + t2) / 2)).1.isIdentity atol)
        have a3 := ite_le_one ((rotStmt atol "Ry" t (eAxis 1) (-t1 / 2)).1.isIdentity atol)
        have a4 := ite_le_one ((rotStmt atol "Ry" t (eAxis 1) (t1 / 2)).1.isIdentity atol)
        have a5 := ite_le_one ((rotStmt atol "Rz" t (eAxis 2) t2).1.isIdentity atol)
        have a6 := ite_le_one ((rotStmt atol "Rz" c (eAxis 2) φ).1.isIdentity atol)
        have a0 : idCount atol ([] : List (GStmt ℝ)) = 0 := rfl
        simp only [Bool.false_eq_true, if_false] at *
        omega
      exact_mod_cast this
    -- the unfiltered circuit
    obtain ⟨ε, hε, hl⟩ := listOp4_cnot_general atol hat hat' c t hct t0 t1 t2 φ
    rw [eU, bd_smul] at hl
    obtain ⟨hOff, hOn⟩ := bd_inj hl
    obtain ⟨k, hk⟩ := normalizeAngle_congr atol φ
    refine ⟨ε * Complex.exp (-(I * (normalizeAngle atol φ / 2 : ℝ))), _, _, ?_, eF, fun i j => ?_, fun i j => ?_⟩
    · rw [norm_mul, hε, one_mul]
      exact norm_exp_neg_I_mul (normalizeAngle atol φ / 2)
    · have := dOff i j
      rw [hOff, smul_smul] at this
      have hb : (idCount atol l8 : ℝ) * (atol / 2) ≤ 6 * (atol / 2) :=
        mul_le_mul_of_nonneg_right hcnt (by positivity)
      linarith
    · have hd := dOn i j
      rw [hOn] at hd
      have hV := aba_all_inputs atol .ZYZ α n t0 t1 t2 hat hn h1 h2 hang' i j
      have es : (ε * Complex.exp (-(I * (normalizeAngle atol φ / 2 : ℝ)))) • rot n α φ
          = ε • Complex.exp (I * (normalizeAngle atol φ / 2 : ℝ)) • rot n α 0 := by
        rw [rot_phase_smul n α φ, ctrl_phase_split φ _ k hk]
        simp only [smul_smul, mul_assoc]
      rw [es]
      have hs : ‖(ε • Complex.exp (I * (normalizeAngle atol φ / 2 : ℝ)) •
            (rot (eAxis 2) t2 0 * rot (eAxis 1) t1 0 * rot (eAxis 2) t0 0)) i j
          - (ε • Complex.exp (I * (normalizeAngle atol φ / 2 : ℝ)) • rot n α 0) i j‖ ≤ 5 / 2 * atol := by
        simp only [Matrix.smul_apply, smul_eq_mul]
        rw [← mul_sub, ← mul_sub, norm_mul, norm_mul, hε, norm_exp_I_mul, one_mul, one_mul]
        exact hV
      have hb : (idCount atol l8 : ℝ) * (atol / 2) ≤ 6 * (atol / 2) :=
        mul_le_mul_of_nonneg_right hcnt (by positivity)
      set X := prodF (onOf c t) (filterOutIdentities atol l8) i j
      set Y := (ε • Complex.exp (I * (normalizeAngle atol φ / 2 : ℝ)) •
            (rot (eAxis 2) t2 0 * rot (eAxis 1) t1 0 * rot (eAxis 2) t0 0)) i j
      set Z := (ε • Complex.exp (I * (normalizeAngle atol φ / 2 : ℝ)) • rot n α 0) i j
      calc ‖X - Z‖ = ‖(X - Y) + (Y - Z)‖ := by ring_nf
        _ ≤ ‖X - Y‖ + ‖Y - Z‖ := norm_add_le _ _
        _ ≤ 11 / 2 * atol := by linarith

/-- entries of a difference of two block-diagonal matrices -/
theorem bd_sub_entry_le {A B A' B' : Matrix (Fin 2) (Fin 2) ℂ} {K : ℝ} (hK : 0 ≤ K)
    (hA : ∀ i j, ‖A i j - A' i j‖ ≤ K) (hB : ∀ i j, ‖B i j - B' i j‖ ≤ K) (x y : Fin 2 ⊕ Fin 2) :
    ‖bd A B x y - bd A' B' x y‖ ≤ K := by
  rcases x with i | i <;> rcases y with j | j <;> simp [bd, Matrix.fromBlocks, hA, hB, hK]

/-- **cnot_general_all_inputs_entry**: the same entrywise on the 4×4 operator: within `(11/2)·atol` of
    `s • (|0⟩⟨0| ⊗ 1 + |1⟩⟨1| ⊗ R_n(α, φ))`. -/
theorem cnot_general_all_inputs_entry (atol : ℝ) (c t : Int) (n : Vec3 ℝ) (α φ : ℝ) (nm : Option (Named ℝ))
    (out : List (GStmt ℝ))
    (hat : 0 < atol) (hat' : atol < Real.pi) (hn : n.1 ^ 2 + n.2.1 ^ 2 + n.2.2 ^ 2 = 1)
    (h1 : -Real.pi + atol ≤ α) (h2 : α < Real.pi + atol)
    (hguard : ∀ xu θ0 θ1 θ2,
        composeRot atol ⟨t, eAxis 0, Real.pi, Real.pi / 2, some ⟨"X", [.qubit t]⟩⟩ ⟨t, n, α, φ, none⟩ = .ok xu →
        abaAngles atol .ZYZ xu.angle xu.axis = .ok (θ0, θ1, θ2) →
        ¬ |pymod (θ0 - θ2) (2 * Real.pi)| < atol)
    (h : cnotDecompose atol (.ctrl c (.bsr t n α φ), nm) = .ok out) :
    c ≠ t ∧ ∃ s : ℂ, ‖s‖ = 1 ∧ ∀ x y : Fin 2 ⊕ Fin 2,
      ‖listOp4 c t out x y - (s • bd 1 (rot n α φ)) x y‖ ≤ 11 / 2 * atol := by
  obtain ⟨hct, s, Off, On, hs, e, dOff, dOn⟩ :=
    cnot_general_all_inputs atol c t n α φ nm out hat hat' hn h1 h2 hguard h
  refine ⟨hct, s, hs, fun x y => ?_⟩
  rw [e, bd_smul]
  exact bd_sub_entry_le (by positivity) (fun i j => (dOff i j).trans (by linarith)) dOn x y

/-! ### non-vacuity: an input strictly inside a band -/

/-- the example target: `e^{i/2000}·Rx(π/2)` on qubit `1`; at `atol = 1/1000` the `Rz(1/2000)` on the control is strictly
    inside the identity band and is dropped by the filter -/
noncomputable def exV : Rot ℝ := ⟨1, (1, 0, 0), Real.pi / 2, 1 / 2000, none⟩

theorem exV_unit : UnitVec exV.axis := by simp [UnitVec, exV]

theorem exV_compose : ∃ xu, composeRot (1 / 1000 : ℝ) (xRot 1) exV = .ok xu ∧ xu.axis = (1, 0, 0) ∧
    xu.angle = -(Real.pi / 2) := by
  have eT : cTheta (xRot 1) exV = cTheta (xRot 1) dsExU := rfl
  have eA : cAxis (xRot 1) exV = cAxis (xRot 1) dsExU := rfl
  have hs : ¬ |Real.sin (cTheta (xRot 1) exV / 2)| < (1 / 1000 : ℝ) := by
    rw [eT, dsEx2_sin, abs_of_pos (by positivity)]
    have : 1 ≤ Real.sqrt 2 := by
      nlinarith [Real.sqrt_nonneg 2, Real.mul_self_sqrt (show (0 : ℝ) ≤ 2 by norm_num)]
    linarith
  rw [composeRot_real _ _ _ (xRot_unit 1) exV_unit rfl, if_neg hs, eA, dsEx2_cAxis]
  have r1 : roundTo s7 (1 : ℝ) = 1 := roundTo_exact 1 10000000 (by rw [s7_eq]; norm_num)
  have r0 : roundTo s7 (0 : ℝ) = 0 := roundTo_exact 0 0 (by simp)
  simp only [r1, r0]
  rw [mkAxis_unit (1, 0, 0) (by simp [UnitVec])]
  exact ⟨_, rfl, rfl, by simp only [eT, dsEx2_cTheta, dsEx2_nA]⟩

example : ∃ out, cnotDecompose (1 / 1000 : ℝ) (.ctrl 0 (.bsr 1 (1, 0, 0) (Real.pi / 2) (1 / 2000)), none) = .ok out ∧
    ∃ s : ℂ, ‖s‖ = 1 ∧ ∀ x y : Fin 2 ⊕ Fin 2,
      ‖listOp4 0 1 out x y - (s • bd 1 (rot (1, 0, 0) (Real.pi / 2) (1 / 2000))) x y‖ ≤ 11 / 2 * (1 / 1000) := by
  have hpi := Real.two_le_pi
  obtain ⟨xu, hxu, hax, han⟩ := exV_compose
  have hang : abaAngles (1 / 1000 : ℝ) .ZYZ xu.angle xu.axis
      = .ok (Real.pi / 2, -(Real.pi / 2), -(Real.pi / 2)) := by rw [hax, han]; exact dsEx2_abaAngles
  obtain ⟨out, hout⟩ := cnotDecompose_ok (1 / 1000) (by norm_num) (by linarith) 0 1 (by decide) (1, 0, 0)
    (Real.pi / 2) (1 / 2000) none xu _ _ hxu hang ex_abaAngles
  refine ⟨out, hout, (cnot_general_all_inputs_entry (1 / 1000) 0 1 (1, 0, 0) (Real.pi / 2) (1 / 2000) none out
    (by norm_num) (by linarith) (by norm_num) (by linarith) (by linarith) ?_ hout).2⟩
  intro xu' θ0 θ1 θ2 h1 h2
  have hxu' : composeRot (1 / 1000 : ℝ) (xRot 1) ⟨1, (1, 0, 0), Real.pi / 2, 1 / 2000, none⟩ = .ok xu := hxu
  have h1' : composeRot (1 / 1000 : ℝ) (xRot 1) ⟨1, (1, 0, 0), Real.pi / 2, 1 / 2000, none⟩ = .ok xu' := h1
  rw [hxu'] at h1'
  injection h1' with h1'
  subst h1'
  rw [hang] at h2
  injection h2 with h2
  simp only [Prod.mk.injEq] at h2
  obtain ⟨rfl, rfl, rfl⟩ := h2
  have hfl : ⌊(Real.pi / 2 - -(Real.pi / 2)) / (2 * Real.pi)⌋ = 0 := by
    rw [show (Real.pi / 2 - -(Real.pi / 2)) / (2 * Real.pi) = 1 / 2 by field_simp; ring]
    norm_num
  simp only [pymod, trig_floor_real, hfl]
  rw [abs_of_pos (by norm_num; linarith)]
  norm_num; linarith

end Bands
end OSq

#print axioms OSq.Bands.filter4_band
#print axioms OSq.Bands.cnot_general_all_inputs
#print axioms OSq.Bands.cnot_general_all_inputs_entry
