import OSq.Proofs.MatBasic
/-
  OSq.Proofs.Expander — the gate-to-matrix code computes the textbook embedding
  (`OSq/Model/Matrix.lean`: `reducedKet`, `expandKet`, `expand`, `circuitMatrix`, `localMatrix`;
  Python `utils/matrix_expander.py`, `circuit_matrix_calculator.py`).
  Core Lean only (imports `OSq.Proofs.MatBasic`); every statement holds for every scalar type `α`
  with `[Scalar α]` — the facts are index arithmetic on `Nat.testBit`.

  Specification vocabulary (bit level, qubit 0 = least significant bit)
  * `bitOf x q`            0/1 value of bit `q` of `x`
  * `agreeOff n qs r c`    `r`, `c` agree on all bits `< n` not in `qs`
  * `subIdx x ops`         `Σ_j bit(x, ops[j]) · 2^(k-1-j)` (first operand most significant)
  * `embed1 n q u`         entry function of `I ⊗ u ⊗ I` (2×2 `u` on qubit `q`)
  * `embedM n ops m`       entry function of the `k`-qubit operator `m` on qubits `ops`
  * `ctrlOf cq M`          column masking: `if c.testBit cq then M r c else δ_rc`
  * `ctrlP0P1 cq M`        `P0 ⊗ I + P1 ⊗ M` entrywise
  * `denote n g`           the textbook operator of a gate (recursion over nested controls)
  * `IsMat n M F`          `M.n = 2^n`, `M.d.size = 2^n·2^n`, and `M.get r c = F r c` for `r c < 2^n`
  * `Gate.inReg n g`, `Gate.dimOk g`   operands in `0..n-1`; matrix nodes have size `2^(#operands)`

  Theorems
  * `reducedKet_spec`        bit `i` of `reducedKet ket qs` is bit `qs[i]` of `ket` (false beyond `qs`)
  * `reducedKet_lt`          `reducedKet ket qs < 2^qs.length`
  * `expandKet_spec`         (`qs` distinct) bit `p` of `expandKet base red qs` is bit `idxOf p` of `red`
                             if `p ∈ qs`, else bit `p` of `base`;  `expandKet_getElem`, `expandKet_not_mem`,
                             `expandKet_mem` (no distinctness: some position carrying `p`)
  * `expandKet_lt`           the result stays `< 2^n` if `base < 2^n` and all `qs < n`
  * `expandKet_eq_imp_reduced` scatter (Python loop) = gather (model formula) for distinct operands
  * `bitOf_eq_div_mod`, `agreeOff_single_iff`   the `div/mod` tests of the rotation case, bitwise
  * `subIdx_eq_reducedKet`, `expandKet_eq_iff`  the two index computations of the matrix case, bitwise
  * `expandBSR_spec`         `expand n (.bsr q …)` (0 ≤ q < n) is the single-qubit embedding of `can1 …`
  * `expandMatrix_spec`      `expand n (.matrix m ops)` is `embedM n ops m` (first operand most significant)
  * `expandCtrl_spec`        `expand n (.ctrl cq g)` is the column masking of `expand n g`
  * `ctrlOf_eq_P0P1`, `expandCtrl_P0P1`  … which is `P0 + P1·M` when `cq` is not an operand of `g`
  * `denote_not_touching`, `expand_not_touching`  gates whose operands avoid `cq` have zero entries
                             between basis states that differ on `cq`
  * `expand_ok_spec`, `expand_spec`  any gate, any control depth: the result is `denote n g`
  * `expand_refuses`         some operand `≥ n` ⇒ `.error .index` (wins over every other defect)
  * `expand_value`           else, a negative operand or a wrong matrix size ⇒ `.error .value`
  * `expand_ok_iff`, `expand_index_iff`, `expand_value_iff`, `expand_error_cases`, `expand_trichotomy`
                             complete classification of the outcome;  `expand_ok_of_wf` (from `Stmt.wf` parts)
  * `expand_dim`             on success `M.n = 2^n` and `M.d.size = 2^n·2^n`
  * `circuitMatrix_nil`, `circuitMatrix_append_gate`, `circuitMatrix_append_nongate`
                             later gates multiply on the left; non-gates are skipped
  * `circuitMatrix_ok_iff`   success iff every gate statement expands
  * `circuitMatrix_dim`      the result is `2^n × 2^n`
  * `circuitMatrix_product`  result `= M_k * (… * (M_1 * I))` for the gate matrices in program order
  * `localMatrix_dim`, `checkGateReplacement_dims`  (C19) replacement checks use `2^(#operands)` matrices
-/
namespace OSq
variable {α : Type} [Scalar α]

/-! ## Specification vocabulary (bit level) -/

/-- value (0/1) of bit `q` of `x` -/
def bitOf (x q : Nat) : Nat := if x.testBit q then 1 else 0

/-- `r` and `c` agree on every register bit that is not listed in `qs` -/
def agreeOff (n : Nat) (qs : List Nat) (r c : Nat) : Prop :=
  ∀ i, i < n → i ∉ qs → r.testBit i = c.testBit i

instance (n : Nat) (qs : List Nat) (r c : Nat) : Decidable (agreeOff n qs r c) := by
  unfold agreeOff; exact Nat.decidableBallLT n _

/-- `Σ_j bit(x, ops[j]) · 2^(k-1-j)`: first operand most significant. -/
def subIdx (x : Nat) : List Nat → Nat
  | [] => 0
  | q :: qs => bitOf x q * 2 ^ qs.length + subIdx x qs

/-! ## Bit lemmas -/

theorem bitOf_eq_div_mod (x q : Nat) : (x / 2 ^ q) % 2 = bitOf x q := by
  unfold bitOf
  rw [Nat.testBit_eq_decide_div_mod_eq]
  by_cases h : x / 2 ^ q % 2 = 1
  · simp [h]
  · have : x / 2 ^ q % 2 = 0 := by omega
    simp [this]

theorem bitOf_lt_two (x q : Nat) : bitOf x q < 2 := by unfold bitOf; split <;> omega

theorem pick_testBit (ket q i j : Nat) :
    (((ket &&& (1 <<< q)) >>> q) <<< i).testBit j = (decide (j = i) && ket.testBit q) := by
  simp only [Nat.testBit_shiftLeft, Nat.testBit_shiftRight, Nat.testBit_and, Nat.one_shiftLeft,
    Nat.testBit_two_pow]
  by_cases h : j = i
  · subst h; simp
  · by_cases h2 : j ≥ i
    · have : ¬ (j - i = 0) := by omega
      simp [h, this]
    · simp [h, h2]

theorem testBit_sub_two_pow_aux (a b q p : Nat) (hb : b < 2 ^ q) (ha : a % 2 = 1) :
    (2 ^ q * a + b - 2 ^ q).testBit p = ((2 ^ q * a + b).testBit p && !decide (p = q)) := by
  have hsub : 2 ^ q * a + b - 2 ^ q = 2 ^ q * (a - 1) + b := by
    have h1 : 2 ^ q * (a - 1) = 2 ^ q * a - 2 ^ q := Nat.mul_sub_one _ _
    have h2 : 2 ^ q ≤ 2 ^ q * a := Nat.le_mul_of_pos_right _ (by omega)
    omega
  rw [hsub, Nat.testBit_two_pow_mul_add _ hb, Nat.testBit_two_pow_mul_add _ hb]
  by_cases h : p < q
  · have : p ≠ q := by omega
    simp [h, this]
  · simp only [h, if_false]
    by_cases h2 : p = q
    · subst h2
      simp only [Nat.sub_self, Nat.testBit_zero]
      have : (a - 1) % 2 ≠ 1 := by omega
      simp [this]
    · obtain ⟨m, hm⟩ : ∃ m, p - q = m + 1 := ⟨p - q - 1, by omega⟩
      rw [hm, Nat.testBit_succ, Nat.testBit_succ]
      have : (a - 1) / 2 = a / 2 := by omega
      simp [this, h2]

/-- clearing a set bit by subtraction -/
theorem testBit_sub_two_pow {x q : Nat} (h : x.testBit q = true) (p : Nat) :
    (x - 2 ^ q).testBit p = (x.testBit p && !decide (p = q)) := by
  have hb : x % 2 ^ q < 2 ^ q := Nat.mod_lt _ (Nat.two_pow_pos q)
  have hx : 2 ^ q * (x / 2 ^ q) + x % 2 ^ q = x := Nat.div_add_mod x (2 ^ q)
  have hodd : (x / 2 ^ q) % 2 = 1 := by
    simpa [Nat.testBit_eq_decide_div_mod_eq] using h
  have := testBit_sub_two_pow_aux (x / 2 ^ q) (x % 2 ^ q) q p hb hodd
  rwa [hx] at this

/-- one iteration of `expand_ket`: bit `q` is replaced by bit `i` of `red`, all other bits kept. -/
theorem expandStep_testBit (acc red q i p : Nat) :
    ((if acc.testBit q then acc - (1 <<< q) else acc) ||| (((red &&& (1 <<< i)) >>> i) <<< q)).testBit p
      = if p = q then red.testBit i else acc.testBit p := by
  rw [Nat.testBit_or, pick_testBit]
  by_cases hq : acc.testBit q = true
  · simp only [hq, if_true, Nat.one_shiftLeft]
    rw [testBit_sub_two_pow hq]
    by_cases h : p = q <;> simp [h]
  · simp only [hq, Bool.false_eq_true, if_false]
    by_cases h : p = q
    · subst h; simp [hq]
    · simp [h]

/-! ## `reducedKet` -/

theorem reducedKet_aux (f : Nat → Nat × Nat → Nat) (ket : Nat)
    (hf : ∀ acc q i, f acc (q, i) = acc ||| (((ket &&& (1 <<< q)) >>> q) <<< i))
    (qs : List Nat) (k acc j : Nat) :
    ((qs.zipIdx k).foldl f acc).testBit j =
      (acc.testBit j || (decide (k ≤ j) && (qs[j - k]?.any ket.testBit))) := by
  induction qs generalizing k acc with
  | nil => simp
  | cons q rest ih =>
    rw [List.zipIdx_cons, List.foldl_cons, ih, hf, Nat.testBit_or, pick_testBit]
    by_cases h1 : j = k
    · subst h1
      have : ¬ (j + 1 ≤ j) := by omega
      simp [this]
    · by_cases h2 : k ≤ j
      · obtain ⟨m, hm⟩ : ∃ m, j - k = m + 1 := ⟨j - k - 1, by omega⟩
        have h3 : j - (k + 1) = m := by omega
        have h4 : k + 1 ≤ j := by omega
        simp [h1, h2, hm, h3, h4]
      · have h4 : ¬ (k + 1 ≤ j) := by omega
        simp [h1, h2, h4]

theorem reducedKet_testBit? (ket : Nat) (qs : List Nat) (i : Nat) :
    (reducedKet ket qs).testBit i = qs[i]?.any ket.testBit := by
  unfold reducedKet
  rw [reducedKet_aux _ ket (fun _ _ _ => rfl)]
  simp

/-- **`get_reduced_ket`**: bit `i` of the result is bit `qs[i]` of the ket (and `0` beyond `qs`). -/
theorem reducedKet_spec (ket : Nat) (qs : List Nat) (i : Nat) :
    (reducedKet ket qs).testBit i = (if h : i < qs.length then ket.testBit qs[i] else false) := by
  rw [reducedKet_testBit?]
  by_cases h : i < qs.length
  · simp [h]
  · simp [h]

theorem reducedKet_lt (ket : Nat) (qs : List Nat) : reducedKet ket qs < 2 ^ qs.length := by
  apply Nat.lt_pow_two_of_testBit
  intro i hi
  rw [reducedKet_spec]
  simp [Nat.not_lt.mpr hi]

/-! ## `expandKet` -/

theorem expandKet_aux (f : Nat → Nat × Nat → Nat) (red : Nat)
    (hf : ∀ acc q i, f acc (q, i) =
      (if acc.testBit q then acc - (1 <<< q) else acc) ||| (((red &&& (1 <<< i)) >>> i) <<< q))
    (qs : List Nat) (k acc p : Nat) :
    (p ∉ qs → ((qs.zipIdx k).foldl f acc).testBit p = acc.testBit p) ∧
    (p ∈ qs → ∃ j, ∃ h : j < qs.length, qs[j] = p ∧
        ((qs.zipIdx k).foldl f acc).testBit p = red.testBit (k + j)) := by
  induction qs generalizing k acc with
  | nil => simp
  | cons q rest ih =>
    rw [List.zipIdx_cons, List.foldl_cons]
    obtain ⟨ih1, ih2⟩ := ih (k + 1) (f acc (q, k))
    constructor
    · intro hp
      have hpq : p ≠ q := fun h => hp (h ▸ List.mem_cons_self)
      have hpr : p ∉ rest := fun h => hp (List.mem_cons_of_mem _ h)
      rw [ih1 hpr, hf, expandStep_testBit]
      simp [hpq]
    · intro hp
      by_cases hpr : p ∈ rest
      · obtain ⟨j, hj, hj1, hj2⟩ := ih2 hpr
        refine ⟨j + 1, by simp; omega, by simpa using hj1, ?_⟩
        rw [hj2]; congr 1; omega
      · have hpq : p = q := by
          rcases List.mem_cons.mp hp with h | h
          · exact h
          · exact absurd h hpr
        refine ⟨0, by simp, by simp [hpq], ?_⟩
        rw [ih1 hpr, hf, expandStep_testBit]
        simp [hpq]

/-- the loop body of `expand_ket` -/
def ekStep (red : Nat) : Nat → Nat × Nat → Nat := fun acc (q, i) =>
  let cleared := if acc.testBit q then acc - (1 <<< q) else acc
  cleared ||| (((red &&& (1 <<< i)) >>> i) <<< q)

theorem expandKet_eq (base red : Nat) (qs : List Nat) :
    expandKet base red qs = qs.zipIdx.foldl (ekStep red) base := rfl

/-- bits outside `qs` are those of `base` -/
theorem expandKet_not_mem (base red : Nat) (qs : List Nat) {p : Nat} (hp : p ∉ qs) :
    (expandKet base red qs).testBit p = base.testBit p := by
  unfold expandKet
  refine (expandKet_aux _ red ?_ qs 0 base p).1 hp
  intros; rfl

/-- a bit listed in `qs` is one of the bits of `red` whose position in `qs` carries that qubit
    (no distinctness needed; with duplicates the last occurrence wins). -/
theorem expandKet_mem (base red : Nat) (qs : List Nat) {p : Nat} (hp : p ∈ qs) :
    ∃ j, ∃ h : j < qs.length, qs[j] = p ∧ (expandKet base red qs).testBit p = red.testBit j := by
  rw [expandKet_eq]
  obtain ⟨j, hj, h1, h2⟩ := (expandKet_aux (ekStep red) red (fun _ _ _ => rfl) qs 0 base p).2 hp
  exact ⟨j, hj, h1, by simpa using h2⟩

theorem nodup_getElem_inj {qs : List Nat} (hnd : qs.Nodup) {i j : Nat} (hi : i < qs.length)
    (hj : j < qs.length) (h : qs[i] = qs[j]) : i = j :=
  (List.getElem_inj hnd).mp h

/-- **`expand_ket`** for distinct `qs`: bit `qs[i]` of the result is bit `i` of `red`,
    every other bit is that of `base`. -/
theorem expandKet_spec (base red : Nat) (qs : List Nat) (hnd : qs.Nodup) (p : Nat) :
    (expandKet base red qs).testBit p =
      (if p ∈ qs then red.testBit (qs.idxOf p) else base.testBit p) := by
  by_cases hp : p ∈ qs
  · simp only [hp, if_true]
    obtain ⟨j, hj, h1, h2⟩ := expandKet_mem base red qs hp
    rw [h2]
    have hlt : qs.idxOf p < qs.length := List.idxOf_lt_length_of_mem hp
    have : qs[qs.idxOf p] = qs[j] := by rw [h1]; exact List.getElem_idxOf hlt
    rw [nodup_getElem_inj hnd hlt hj this]
  · simp only [hp, if_false]
    exact expandKet_not_mem base red qs hp

theorem expandKet_getElem (base red : Nat) (qs : List Nat) (hnd : qs.Nodup) (i : Nat)
    (hi : i < qs.length) : (expandKet base red qs).testBit qs[i] = red.testBit i := by
  obtain ⟨j, hj, h1, h2⟩ := expandKet_mem base red qs (List.getElem_mem hi)
  rw [h2, nodup_getElem_inj hnd hj hi h1]

/-- the result stays inside the register (no distinctness needed) -/
theorem expandKet_lt {n : Nat} (base red : Nat) (qs : List Nat) (hb : base < 2 ^ n)
    (hq : ∀ q ∈ qs, q < n) : expandKet base red qs < 2 ^ n := by
  apply Nat.lt_pow_two_of_testBit
  intro i hi
  have hni : i ∉ qs := fun h => by have := hq i h; omega
  rw [expandKet_not_mem base red qs hni]
  apply Nat.testBit_lt_two_pow
  exact Nat.lt_of_lt_of_le hb (Nat.pow_le_pow_right (by decide) hi)

/-! ## The textbook embeddings (specification side) -/

/-- Kronecker delta -/
def delta (r c : Nat) : Cx α := if r = c then Cx.one else Cx.zero

/-- single-qubit operator `u` (2×2) on qubit `q` of an `n`-qubit register, identity elsewhere -/
def embed1 (n q : Nat) (u : Mat α) (r c : Nat) : Cx α :=
  if agreeOff n [q] r c then u.get (bitOf r q) (bitOf c q) else Cx.zero

/-- `k`-qubit operator `m` on the qubits `ops` (first operand most significant), identity elsewhere -/
def embedM (n : Nat) (ops : List Nat) (m : Mat α) (r c : Nat) : Cx α :=
  if agreeOff n ops r c then m.get (subIdx r ops) (subIdx c ops) else Cx.zero

/-- column masking by a control qubit: columns whose control bit is `0` become identity columns -/
def ctrlOf (cq : Nat) (M : Nat → Nat → Cx α) (r c : Nat) : Cx α :=
  if c.testBit cq then M r c else delta r c

/-- `P0 ⊗ I + P1 ⊗ M` entrywise (control qubit `cq`) -/
def ctrlP0P1 (cq : Nat) (M : Nat → Nat → Cx α) (r c : Nat) : Cx α :=
  if r.testBit cq = c.testBit cq then (if c.testBit cq then M r c else delta r c) else Cx.zero

/-- the textbook operator of a gate on an `n`-qubit register, entrywise -/
def denote (n : Nat) : Gate α → Nat → Nat → Cx α
  | .bsr q axis angle phase => embed1 n q.toNat (can1 axis angle phase)
  | .matrix m ops => embedM n (ops.map Int.toNat) m
  | .ctrl cq g => ctrlOf cq.toNat (denote n g)

/-- all operands inside the register -/
def Gate.inReg (n : Nat) (g : Gate α) : Prop := ∀ q ∈ g.operands, 0 ≤ q ∧ q < (n : Int)

/-- every matrix node has dimension `2^(number of its operands)` (implied by `Gate.shapeOk`) -/
def Gate.dimOk : Gate α → Prop
  | .bsr _ _ _ _ => True
  | .matrix m ops => m.n = 2 ^ ops.length
  | .ctrl _ g => g.dimOk

omit [Scalar α] in
theorem Gate.dimOk_of_shapeOk (g : Gate α) (h : g.shapeOk = true) : g.dimOk := by
  induction g with
  | bsr => trivial
  | matrix m ops => simp [Gate.shapeOk] at h; exact h.1.2
  | ctrl c g ih => exact ih h

/-! ## Index arithmetic behind the specs -/

theorem testBit_ge {x n i : Nat} (hx : x < 2 ^ n) (hi : n ≤ i) : x.testBit i = false :=
  Nat.testBit_lt_two_pow (Nat.lt_of_lt_of_le hx (Nat.pow_le_pow_right (by decide) hi))

/-- the `div/mod` test of the rotation case is "agree on all bits but `q`" -/
theorem agreeOff_single_iff {n q r c : Nat} (hr : r < 2 ^ n) (hc : c < 2 ^ n) :
    (r % 2 ^ q = c % 2 ^ q ∧ r / (2 * 2 ^ q) = c / (2 * 2 ^ q)) ↔ agreeOff n [q] r c := by
  have h2 : 2 * 2 ^ q = 2 ^ (q + 1) := by rw [Nat.pow_succ, Nat.mul_comm]
  rw [h2]
  constructor
  · rintro ⟨h1, h3⟩ i _ hiq
    have hiq : i ≠ q := by simpa using hiq
    by_cases hlt : i < q
    · have := congrArg (fun x => x.testBit i) h1
      simpa [hlt] using this
    · have := congrArg (fun x => x.testBit (i - (q + 1))) h3
      simp only [Nat.testBit_div_two_pow] at this
      have e : i - (q + 1) + (q + 1) = i := by omega
      rwa [e] at this
  · intro h
    constructor
    · apply Nat.eq_of_testBit_eq
      intro i
      rw [Nat.testBit_mod_two_pow, Nat.testBit_mod_two_pow]
      by_cases hlt : i < q
      · by_cases hin : i < n
        · rw [h i hin (by simp; omega)]
        · rw [testBit_ge hr (by omega), testBit_ge hc (by omega)]
      · simp [hlt]
    · apply Nat.eq_of_testBit_eq
      intro i
      rw [Nat.testBit_div_two_pow, Nat.testBit_div_two_pow]
      by_cases hin : i + (q + 1) < n
      · exact h _ hin (by simp; omega)
      · rw [testBit_ge hr (by omega), testBit_ge hc (by omega)]

theorem subIdx_lt (x : Nat) (ops : List Nat) : subIdx x ops < 2 ^ ops.length := by
  induction ops with
  | nil => simp [subIdx]
  | cons q qs ih =>
    simp only [subIdx, List.length_cons, Nat.pow_succ]
    have := bitOf_lt_two x q
    rcases Nat.lt_or_ge (bitOf x q) 1 with h | h
    · have : bitOf x q = 0 := by omega
      rw [this]; omega
    · have : bitOf x q = 1 := by omega
      rw [this]; omega

theorem bitOf_testBit (x q j : Nat) : (bitOf x q).testBit j = (decide (j = 0) && x.testBit q) := by
  unfold bitOf
  by_cases h : x.testBit q = true
  · simp only [h, if_true, Bool.and_true]
    cases j with
    | zero => simp
    | succ j => simp [Nat.testBit_succ]
  · simp [h]

theorem subIdx_testBit (x : Nat) (ops : List Nat) (i : Nat) :
    (subIdx x ops).testBit i = ops.reverse[i]?.any x.testBit := by
  induction ops generalizing i with
  | nil => simp [subIdx]
  | cons q qs ih =>
    simp only [subIdx, List.reverse_cons]
    rw [Nat.mul_comm, Nat.testBit_two_pow_mul_add _ (subIdx_lt x qs)]
    by_cases h : i < qs.length
    · rw [if_pos h, ih, List.getElem?_append_left (by simpa using h)]
    · rw [if_neg h, List.getElem?_append_right (by simpa using Nat.le_of_not_lt h), bitOf_testBit]
      simp only [List.length_reverse]
      by_cases h0 : i - qs.length = 0
      · simp [h0]
      · obtain ⟨m, hm⟩ : ∃ m, i - qs.length = m + 1 := ⟨i - qs.length - 1, by omega⟩
        simp [hm]

/-- the row/column of the small matrix that the code reads (`get_reduced_ket` on the *reversed*
    operand list) is `Σ_j bit(x, ops[j]) · 2^(k-1-j)`: the first operand is the most significant. -/
theorem subIdx_eq_reducedKet (x : Nat) (ops : List Nat) : subIdx x ops = reducedKet x ops.reverse := by
  apply Nat.eq_of_testBit_eq
  intro i
  rw [subIdx_testBit, reducedKet_testBit?]

/-- the `expand_ket … == row` test of the matrix case is "agree on all bits outside the operands" -/
theorem expandKet_eq_iff {n r c : Nat} (rs : List Nat) (hr : r < 2 ^ n) (hc : c < 2 ^ n) :
    expandKet c (reducedKet r rs) rs = r ↔ agreeOff n rs r c := by
  constructor
  · intro h i _ hni
    have := congrArg (fun x => x.testBit i) h
    simp only [expandKet_not_mem _ _ _ hni] at this
    exact this.symm
  · intro h
    apply Nat.eq_of_testBit_eq
    intro p
    by_cases hp : p ∈ rs
    · obtain ⟨j, hj, h1, h2⟩ := expandKet_mem c (reducedKet r rs) rs hp
      rw [h2, reducedKet_spec]
      simp [hj, h1]
    · rw [expandKet_not_mem _ _ _ hp]
      by_cases hpn : p < n
      · exact (h p hpn hp).symm
      · rw [testBit_ge hr (by omega), testBit_ge hc (by omega)]

/-- scatter = gather: Python fills `expanded[expand_ket(col, s, ops)][col] = m[s][…]` for every small
    row `s < 2^k`; for distinct operands the only `s` that lands on row `r` is `get_reduced_ket(r, ops)`,
    which is the row the model reads.  (With repeated operands several `s` land on the same row and the
    two formulations differ; `MatrixGate.__init__`/`mkMatrix` refuse repeated operands.) -/
theorem expandKet_eq_imp_reduced {r c s : Nat} (rs : List Nat) (hnd : rs.Nodup)
    (hs : s < 2 ^ rs.length) (h : expandKet c s rs = r) : s = reducedKet r rs := by
  apply Nat.eq_of_testBit_eq
  intro i
  rw [reducedKet_spec]
  by_cases hi : i < rs.length
  · rw [dif_pos hi, ← h, expandKet_getElem c s rs hnd i hi]
  · rw [dif_neg hi]
    exact testBit_ge hs (Nat.le_of_not_lt hi)

theorem agreeOff_congr {n : Nat} {qs qs' : List Nat} (h : ∀ x, x ∈ qs ↔ x ∈ qs') (r c : Nat) :
    agreeOff n qs r c ↔ agreeOff n qs' r c := by
  unfold agreeOff
  constructor
  · intro H i hi hni; exact H i hi (fun hm => hni ((h i).mp hm))
  · intro H i hi hni; exact H i hi (fun hm => hni ((h i).mpr hm))

/-! ## `expand`: the three gate kinds -/

/-- what "`M` is the `2^n × 2^n` matrix with entries `F`" means -/
def IsMat (n : Nat) (M : Mat α) (F : Nat → Nat → Cx α) : Prop :=
  M.n = 2 ^ n ∧ M.d.size = 2 ^ n * 2 ^ n ∧ ∀ r c, r < 2 ^ n → c < 2 ^ n → M.get r c = F r c

theorem isMat_ofFn (n : Nat) (f F : Nat → Nat → Cx α)
    (h : ∀ r c, r < 2 ^ n → c < 2 ^ n → f r c = F r c) : IsMat n (Mat.ofFn (2 ^ n) f) F :=
  ⟨rfl, Mat.ofFn_size _ _, fun r c hr hc => by rw [Mat.get_ofFn hr hc]; exact h r c hr hc⟩

/-- **rotation case**: the `div/mod` formula is the single-qubit embedding of `can1 axis angle phase`. -/
theorem expandBSR_spec {n : Nat} {q : Int} (h0 : 0 ≤ q) (hn : q < n) (axis : Vec3 α) (angle phase : α) :
    ∃ M, expand n (.bsr q axis angle phase) = .ok M ∧
      IsMat n M (embed1 n q.toNat (can1 axis angle phase)) := by
  have h1 : ¬ (q ≥ (n : Int)) := by omega
  have h2 : ¬ (q < 0) := by omega
  simp only [expand, h1, h2, if_false]
  refine ⟨_, rfl, isMat_ofFn _ _ _ ?_⟩
  intro r c hr hc
  unfold embed1
  rw [bitOf_eq_div_mod, bitOf_eq_div_mod]
  by_cases h : agreeOff n [q.toNat] r c
  · rw [if_pos h, if_pos ((agreeOff_single_iff hr hc).mpr h)]
  · rw [if_neg h, if_neg (fun h' => h ((agreeOff_single_iff hr hc).mp h'))]

/-- **matrix case**: the `get_reduced_ket`/`expand_ket` formula is the embedding of `m` on `ops`,
    first operand most significant.  (Distinctness of the operands is not needed for the equality;
    `mkMatrix` guarantees it for gates the compiler builds.) -/
theorem expandMatrix_spec {n : Nat} (m : Mat α) (ops : List Int)
    (hops : ∀ q ∈ ops, 0 ≤ q ∧ q < (n : Int)) (hdim : m.n = 2 ^ ops.length) :
    ∃ M, expand n (.matrix m ops) = .ok M ∧ IsMat n M (embedM n (ops.map Int.toNat) m) := by
  have h1 : (ops.reverse.any fun q => decide (q ≥ (n : Int))) = false := by
    rw [List.any_eq_false]
    intro q hq
    have := hops q (List.mem_reverse.mp hq)
    simp; omega
  have h2 : (ops.reverse.any fun q => decide (q < 0)) = false := by
    rw [List.any_eq_false]
    intro q hq
    have := hops q (List.mem_reverse.mp hq)
    simp; omega
  have h3 : (m.n != 2 ^ ops.length) = false := by simp [hdim]
  simp only [expand, h1, h2, h3, Bool.false_eq_true, if_false]
  refine ⟨_, rfl, isMat_ofFn _ _ _ ?_⟩
  intro r c hr hc
  unfold embedM
  rw [subIdx_eq_reducedKet, subIdx_eq_reducedKet, ← List.map_reverse]
  have hiff := (expandKet_eq_iff (ops.reverse.map Int.toNat) hr hc).trans
    (agreeOff_congr (n := n) (qs := ops.reverse.map Int.toNat) (qs' := ops.map Int.toNat)
      (by intro x; simp) r c)
  by_cases h : agreeOff n (ops.map Int.toNat) r c
  · rw [if_pos h, if_pos (hiff.mpr h)]
  · rw [if_neg h, if_neg (fun h' => h (hiff.mp h'))]

/-- **controlled case**, column-masking form (literally what the code does). -/
theorem expandCtrl_spec {n : Nat} {cq : Int} {g : Gate α} {M : Mat α} (h0 : 0 ≤ cq) (hn : cq < n)
    (hg : expand n g = .ok M) :
    ∃ M', expand n (.ctrl cq g) = .ok M' ∧ IsMat n M' (ctrlOf cq.toNat M.get) := by
  have h1 : ¬ (cq ≥ (n : Int)) := by omega
  have h2 : ¬ (cq < 0) := by omega
  simp only [expand, h1, h2, hg, if_false]
  refine ⟨_, rfl, isMat_ofFn _ _ _ ?_⟩
  intro r c _ _
  rfl

/-- column masking equals `P0 + P1·M` whenever `M` does not touch the control qubit -/
theorem ctrlOf_eq_P0P1 (cq : Nat) (M : Nat → Nat → Cx α) (r c : Nat)
    (hM : r.testBit cq ≠ c.testBit cq → M r c = Cx.zero) :
    ctrlOf cq M r c = ctrlP0P1 cq M r c := by
  unfold ctrlOf ctrlP0P1
  by_cases h : r.testBit cq = c.testBit cq
  · rw [if_pos h]
  · rw [if_neg h]
    by_cases hc : c.testBit cq = true
    · rw [if_pos hc]; exact hM h
    · rw [if_neg hc]
      have : r ≠ c := fun e => h (by rw [e])
      simp [delta, this]

/-! ## All gates, any control depth -/

/-- **`expand` computes the textbook operator** for every gate it accepts (induction on the gate:
    any number of nested controls over a rotation or a matrix gate). -/
theorem expand_ok_spec {n : Nat} (g : Gate α) (hreg : g.inReg n) (hdim : g.dimOk) :
    ∃ M, expand n g = .ok M ∧ IsMat n M (denote n g) := by
  induction g with
  | bsr q axis angle phase =>
    have := hreg q (by simp [Gate.operands])
    exact expandBSR_spec this.1 this.2 axis angle phase
  | matrix m ops => exact expandMatrix_spec m ops hreg hdim
  | ctrl cq g ih =>
    have hc := hreg cq (by simp [Gate.operands])
    obtain ⟨M, hM, _, _, hget⟩ := ih (fun q hq => hreg q (by simp [Gate.operands, hq])) hdim
    obtain ⟨M', hM', hn', hs', hget'⟩ := expandCtrl_spec hc.1 hc.2 hM
    refine ⟨M', hM', hn', hs', ?_⟩
    intro r c hr hc'
    rw [hget' r c hr hc']
    simp only [denote, ctrlOf]
    rw [hget r c hr hc']

/-! ## Refusals: which error wins -/

/-- an operand at or beyond the register size: `IndexError`, whatever else is wrong with the gate -/
theorem expand_refuses {n : Nat} (g : Gate α) (h : ∃ q ∈ g.operands, (n : Int) ≤ q) :
    expand n g = .error .index := by
  induction g with
  | bsr q axis angle phase =>
    obtain ⟨q', hq', hle⟩ := h
    simp only [Gate.operands, List.mem_singleton] at hq'
    subst hq'
    have : q' ≥ (n : Int) := hle
    simp only [expand, this, if_true]
  | matrix m ops =>
    obtain ⟨q, hq, hle⟩ := h
    have h1 : (ops.reverse.any fun q => decide (q ≥ (n : Int))) = true := by
      rw [List.any_eq_true]
      exact ⟨q, List.mem_reverse.mpr hq, by simpa using hle⟩
    simp only [expand, h1, if_true]
  | ctrl cq g ih =>
    obtain ⟨q, hq, hle⟩ := h
    by_cases hc : cq ≥ (n : Int)
    · simp only [expand, hc, if_true]
    · have hq' : q ∈ g.operands := by
        simp only [Gate.operands, List.mem_cons] at hq
        rcases hq with rfl | hq
        · exact absurd hle hc
        · exact hq
      simp only [expand, hc, if_false, ih ⟨q, hq', hle⟩]

/-- no operand beyond the register, but a negative operand or a matrix of the wrong dimension:
    `ValueError` -/
theorem expand_value {n : Nat} (g : Gate α) (hlt : ∀ q ∈ g.operands, q < (n : Int))
    (h : (∃ q ∈ g.operands, q < 0) ∨ ¬ g.dimOk) : expand n g = .error .value := by
  induction g with
  | bsr q axis angle phase =>
    have h1 : ¬ (q ≥ (n : Int)) := by have := hlt q (by simp [Gate.operands]); omega
    have h2 : q < 0 := by
      rcases h with ⟨q', hq', hneg⟩ | h
      · simp only [Gate.operands, List.mem_singleton] at hq'
        subst hq'; exact hneg
      · exact absurd trivial h
    simp only [expand, h1, h2, if_false, if_true]
  | matrix m ops =>
    have h1 : (ops.reverse.any fun q => decide (q ≥ (n : Int))) = false := by
      rw [List.any_eq_false]
      intro q hq
      have := hlt q (List.mem_reverse.mp hq)
      simp; omega
    by_cases hneg : ∃ q ∈ ops, q < 0
    · obtain ⟨q, hq, hq0⟩ := hneg
      have h2 : (ops.reverse.any fun q => decide (q < 0)) = true := by
        rw [List.any_eq_true]
        exact ⟨q, List.mem_reverse.mpr hq, by simpa using hq0⟩
      simp only [expand, h1, h2, Bool.false_eq_true, if_false, if_true]
    · have h2 : (ops.reverse.any fun q => decide (q < 0)) = false := by
        rw [List.any_eq_false]
        intro q hq
        have : ¬ q < 0 := fun h0 => hneg ⟨q, List.mem_reverse.mp hq, h0⟩
        simpa using this
      have hd : ¬ (m.n = 2 ^ ops.length) := by
        rcases h with h | h
        · exact absurd h hneg
        · exact h
      have h3 : (m.n != 2 ^ ops.length) = true := by simpa using hd
      simp only [expand, h1, h2, h3, Bool.false_eq_true, if_false, if_true]
  | ctrl cq g ih =>
    have hc : ¬ (cq ≥ (n : Int)) := by have := hlt cq (by simp [Gate.operands]); omega
    have hlt' : ∀ q ∈ g.operands, q < (n : Int) := fun q hq => hlt q (by simp [Gate.operands, hq])
    by_cases hin : (∃ q ∈ g.operands, q < 0) ∨ ¬ g.dimOk
    · simp only [expand, hc, if_false, ih hlt' hin]
    · have hreg : g.inReg n := by
        intro q hq
        refine ⟨?_, hlt' q hq⟩
        apply Int.not_lt.mp
        intro h0; exact hin (Or.inl ⟨q, hq, h0⟩)
      have hdim : g.dimOk := Classical.byContradiction fun hd => hin (Or.inr hd)
      obtain ⟨M, hM, _⟩ := expand_ok_spec g hreg hdim
      have hneg : cq < 0 := by
        rcases h with ⟨q, hq, h0⟩ | h
        · simp only [Gate.operands, List.mem_cons] at hq
          rcases hq with rfl | hq
          · exact h0
          · exact absurd (Or.inl ⟨q, hq, h0⟩) hin
        · exact absurd hdim h
      simp only [expand, hc, hM, hneg, if_false, if_true]

omit [Scalar α] in
/-- the three outcomes are exhaustive -/
theorem expand_trichotomy (n : Nat) (g : Gate α) :
    (∃ q ∈ g.operands, (n : Int) ≤ q) ∨
    ((∀ q ∈ g.operands, q < (n : Int)) ∧ ((∃ q ∈ g.operands, q < 0) ∨ ¬ g.dimOk)) ∨
    (g.inReg n ∧ g.dimOk) := by
  by_cases h1 : ∃ q ∈ g.operands, (n : Int) ≤ q
  · exact Or.inl h1
  · have hlt : ∀ q ∈ g.operands, q < (n : Int) := by
      intro q hq
      apply Int.not_le.mp
      intro hle; exact h1 ⟨q, hq, hle⟩
    by_cases h2 : (∃ q ∈ g.operands, q < 0) ∨ ¬ g.dimOk
    · exact Or.inr (Or.inl ⟨hlt, h2⟩)
    · refine Or.inr (Or.inr ⟨?_, Classical.byContradiction fun hd => h2 (Or.inr hd)⟩)
      intro q hq
      refine ⟨?_, hlt q hq⟩
      apply Int.not_lt.mp
      intro h0; exact h2 (Or.inl ⟨q, hq, h0⟩)

/-- `expand` succeeds exactly on gates whose operands are all in `0..n-1` and whose matrices fit -/
theorem expand_ok_iff {n : Nat} (g : Gate α) :
    (∃ M, expand n g = .ok M) ↔ (g.inReg n ∧ g.dimOk) := by
  constructor
  · rintro ⟨M, hM⟩
    rcases expand_trichotomy n g with h | h | h
    · rw [expand_refuses g h] at hM; cases hM
    · rw [expand_value g h.1 h.2] at hM; cases hM
    · exact h
  · rintro ⟨h1, h2⟩
    obtain ⟨M, hM, _⟩ := expand_ok_spec g h1 h2
    exact ⟨M, hM⟩

/-- `IndexError` exactly when some operand (control, target, or matrix operand) is `≥ n` -/
theorem expand_index_iff {n : Nat} (g : Gate α) :
    expand n g = .error .index ↔ ∃ q ∈ g.operands, (n : Int) ≤ q := by
  constructor
  · intro hE
    rcases expand_trichotomy n g with h | h | h
    · exact h
    · rw [expand_value g h.1 h.2] at hE; cases hE
    · obtain ⟨M, hM, _⟩ := expand_ok_spec g h.1 h.2
      rw [hM] at hE; cases hE
  · exact expand_refuses g

/-- `ValueError` exactly when no operand is `≥ n` but one is negative or a matrix has the wrong size -/
theorem expand_value_iff {n : Nat} (g : Gate α) :
    expand n g = .error .value ↔
      ((∀ q ∈ g.operands, q < (n : Int)) ∧ ((∃ q ∈ g.operands, q < 0) ∨ ¬ g.dimOk)) := by
  constructor
  · intro hE
    rcases expand_trichotomy n g with h | h | h
    · rw [expand_refuses g h] at hE; cases hE
    · exact h
    · obtain ⟨M, hM, _⟩ := expand_ok_spec g h.1 h.2
      rw [hM] at hE; cases hE
  · rintro ⟨h1, h2⟩; exact expand_value g h1 h2

/-- no other error class is ever produced -/
theorem expand_error_cases {n : Nat} (g : Gate α) {e : Err} (h : expand n g = .error e) :
    e = .index ∨ e = .value := by
  rcases expand_trichotomy n g with h' | h' | h'
  · rw [expand_refuses g h'] at h; cases h; exact Or.inl rfl
  · rw [expand_value g h'.1 h'.2] at h; cases h; exact Or.inr rfl
  · obtain ⟨M, hM, _⟩ := expand_ok_spec g h'.1 h'.2
    rw [hM] at h; cases h

/-- well-formed statements (`Stmt.wf`) always expand -/
theorem expand_ok_of_wf {n : Nat} (g : Gate α) (hops : g.operands.all (inRange n) = true)
    (hshape : g.shapeOk = true) : ∃ M, expand n g = .ok M := by
  apply (expand_ok_iff g).mpr
  refine ⟨?_, Gate.dimOk_of_shapeOk g hshape⟩
  intro q hq
  have := List.all_eq_true.mp hops q hq
  simpa [inRange] using this

/-! ## Main theorem and consequences -/

/-- **whatever `expand` returns is the textbook operator** (`denote`) as a full `2^n × 2^n` matrix -/
theorem expand_spec {n : Nat} {g : Gate α} {M : Mat α} (h : expand n g = .ok M) :
    IsMat n M (denote n g) := by
  obtain ⟨h1, h2⟩ := (expand_ok_iff g).mp ⟨M, h⟩
  obtain ⟨M', hM', hspec⟩ := expand_ok_spec g h1 h2
  rw [h] at hM'
  cases hM'
  exact hspec

/-- **dimension** of the result -/
theorem expand_dim {n : Nat} {g : Gate α} {M : Mat α} (h : expand n g = .ok M) :
    M.n = 2 ^ n ∧ M.d.size = 2 ^ n * 2 ^ n :=
  ⟨(expand_spec h).1, (expand_spec h).2.1⟩

/-- a gate whose operands avoid qubit `cq` has zero entries between basis states that differ on `cq` -/
theorem denote_not_touching {n : Nat} (g : Gate α) (hreg : g.inReg n) {cq : Nat} (hcq : cq < n)
    (hnot : (cq : Int) ∉ g.operands) {r c : Nat} (hrc : r.testBit cq ≠ c.testBit cq) :
    denote n g r c = Cx.zero := by
  induction g generalizing r c with
  | bsr q axis angle phase =>
    have hq := hreg q (by simp [Gate.operands])
    have hne : cq ∉ [q.toNat] := by
      simp only [List.mem_singleton]
      intro e
      apply hnot
      simp only [Gate.operands, List.mem_singleton]
      omega
    simp only [denote, embed1]
    rw [if_neg]
    intro hag
    exact hrc (hag cq hcq hne)
  | matrix m ops =>
    have hne : cq ∉ ops.map Int.toNat := by
      intro hm
      obtain ⟨q, hq, e⟩ := List.mem_map.mp hm
      have := hreg q hq
      apply hnot
      have : (cq : Int) = q := by omega
      rw [this]; exact hq
    simp only [denote, embedM]
    rw [if_neg]
    intro hag
    exact hrc (hag cq hcq hne)
  | ctrl cq' g ih =>
    have hreg' : g.inReg n := fun q hq => hreg q (by simp [Gate.operands, hq])
    have hnot' : (cq : Int) ∉ g.operands := fun hm => hnot (by simp [Gate.operands, hm])
    simp only [denote, ctrlOf]
    by_cases hb : c.testBit cq'.toNat = true
    · rw [if_pos hb]; exact ih hreg' hnot' hrc
    · rw [if_neg hb]
      have : r ≠ c := fun e => hrc (by rw [e])
      simp [delta, this]

/-- … and so does the matrix `expand` computes for it -/
theorem expand_not_touching {n : Nat} {g : Gate α} {M : Mat α} (h : expand n g = .ok M) {cq : Nat}
    (hcq : cq < n) (hnot : (cq : Int) ∉ g.operands) {r c : Nat} (hr : r < 2 ^ n) (hc : c < 2 ^ n)
    (hrc : r.testBit cq ≠ c.testBit cq) : M.get r c = Cx.zero := by
  rw [(expand_spec h).2.2 r c hr hc]
  exact denote_not_touching g ((expand_ok_iff g).mp ⟨M, h⟩).1 hcq hnot hrc

/-- **controlled case, `P0 + P1·M` reading**: for a control qubit that is not an operand of the
    target gate (which `mkCtrl` enforces), column masking is the textbook controlled operator. -/
theorem expandCtrl_P0P1 {n : Nat} {cq : Int} {g : Gate α} {M : Mat α} (h0 : 0 ≤ cq) (hn : cq < n)
    (hg : expand n g = .ok M) (hnot : cq ∉ g.operands) :
    ∃ M', expand n (.ctrl cq g) = .ok M' ∧ IsMat n M' (ctrlP0P1 cq.toNat M.get) := by
  obtain ⟨M', hM', h1, h2, hget⟩ := expandCtrl_spec h0 hn hg
  refine ⟨M', hM', h1, h2, ?_⟩
  intro r c hr hc
  rw [hget r c hr hc]
  apply ctrlOf_eq_P0P1
  intro hrc
  have hcast : ((cq.toNat : Nat) : Int) = cq := Int.toNat_of_nonneg h0
  exact expand_not_touching hg (by omega) (by rw [hcast]; exact hnot) hr hc hrc

/-! ## `circuitMatrix` -/

theorem circuitMatrix_nil (n : Nat) : circuitMatrix n ([] : List (Stmt α)) = .ok (Mat.identity (2 ^ n)) :=
  rfl

/-- a trailing gate multiplies on the left -/
theorem circuitMatrix_append_gate (n : Nat) (stmts : List (Stmt α)) (g : Gate α)
    (nm : Option (Named α)) :
    circuitMatrix n (stmts ++ [.gate g nm]) =
      (do let a ← circuitMatrix n stmts; let b ← expand n g; pure (Mat.mul b a)) := by
  unfold circuitMatrix
  rw [List.foldlM_append]
  simp [List.foldlM]

/-- measurements, resets and comments are skipped -/
theorem circuitMatrix_append_nongate (n : Nat) (stmts : List (Stmt α)) (s : Stmt α)
    (hs : s.isGate = false) : circuitMatrix n (stmts ++ [s]) = circuitMatrix n stmts := by
  unfold circuitMatrix
  rw [List.foldlM_append]
  cases s with
  | gate g nm => simp [Stmt.isGate] at hs
  | measure q b ax nm => simp [List.foldlM]
  | reset q nm => simp [List.foldlM]
  | comment c => simp [List.foldlM]

/-- the loop body of `get_circuit_matrix` -/
def cmStep (n : Nat) (acc : Mat α) (s : Stmt α) : Except Err (Mat α) :=
  match s with
  | .gate g _ => do let b ← expand n g; pure (Mat.mul b acc)
  | _ => pure acc

theorem circuitMatrix_eq (n : Nat) (stmts : List (Stmt α)) :
    circuitMatrix n stmts = stmts.foldlM (cmStep n) (Mat.identity (2 ^ n)) := rfl

theorem circuitMatrix_cons_gate_aux (n : Nat) (init : Mat α) (g : Gate α) (nm : Option (Named α))
    (rest : List (Stmt α)) :
    (Stmt.gate g nm :: rest).foldlM (cmStep n) init =
      (do let b ← expand n g; rest.foldlM (cmStep n) (Mat.mul b init)) := by
  simp [List.foldlM, cmStep]

theorem cm_fold_ok_iff (n : Nat) (stmts : List (Stmt α)) (init : Mat α) :
    (∃ M, stmts.foldlM (cmStep n) init = .ok M) ↔
      ∀ g nm, Stmt.gate g nm ∈ stmts → ∃ b, expand n g = .ok b := by
  induction stmts generalizing init with
  | nil => simp [List.foldlM, pure, Except.pure]
  | cons s rest ih =>
    cases s with
    | gate g nm =>
      rw [circuitMatrix_cons_gate_aux]
      cases hb : expand n g with
      | error e =>
        simp only [bind, Except.bind]
        constructor
        · rintro ⟨M, hM⟩; cases hM
        · intro H
          obtain ⟨b, hb'⟩ := H g nm List.mem_cons_self
          rw [hb] at hb'; cases hb'
      | ok b =>
        simp only [bind, Except.bind]
        rw [ih]
        constructor
        · intro H g' nm' hmem
          rcases List.mem_cons.mp hmem with e | hmem
          · cases e; exact ⟨b, hb⟩
          · exact H g' nm' hmem
        · intro H g' nm' hmem
          exact H g' nm' (List.mem_cons_of_mem _ hmem)
    | measure q b ax nm =>
      have : (Stmt.measure q b ax nm :: rest).foldlM (cmStep n) init = rest.foldlM (cmStep n) init := by
        simp [List.foldlM, cmStep]
      rw [this, ih]; simp
    | reset q nm =>
      have : (Stmt.reset q nm :: rest).foldlM (cmStep n) init = rest.foldlM (cmStep n) init := by
        simp [List.foldlM, cmStep]
      rw [this, ih]; simp
    | comment c =>
      have : (Stmt.comment c :: rest).foldlM (cmStep n) init = rest.foldlM (cmStep n) init := by
        simp [List.foldlM, cmStep]
      rw [this, ih]; simp

/-- `circuitMatrix` succeeds iff every gate statement expands -/
theorem circuitMatrix_ok_iff (n : Nat) (stmts : List (Stmt α)) :
    (∃ M, circuitMatrix n stmts = .ok M) ↔
      ∀ g nm, Stmt.gate g nm ∈ stmts → ∃ b, expand n g = .ok b :=
  cm_fold_ok_iff n stmts _

theorem cm_fold_dim (n : Nat) (stmts : List (Stmt α)) (init M : Mat α)
    (hi : init.n = 2 ^ n ∧ init.d.size = 2 ^ n * 2 ^ n)
    (h : stmts.foldlM (cmStep n) init = .ok M) : M.n = 2 ^ n ∧ M.d.size = 2 ^ n * 2 ^ n := by
  induction stmts generalizing init with
  | nil => simp [List.foldlM, pure, Except.pure] at h; rw [← h]; exact hi
  | cons s rest ih =>
    cases s with
    | gate g nm =>
      rw [circuitMatrix_cons_gate_aux] at h
      cases hb : expand n g with
      | error e => rw [hb] at h; simp [bind, Except.bind] at h
      | ok b =>
        rw [hb] at h
        simp only [bind, Except.bind] at h
        have hd := expand_dim hb
        exact ih (Mat.mul b init) ⟨by rw [Mat.mul_n, hd.1], by rw [Mat.mul_size, hd.1]⟩ h
    | measure q b ax nm =>
      have : (Stmt.measure q b ax nm :: rest).foldlM (cmStep n) init = rest.foldlM (cmStep n) init := by
        simp [List.foldlM, cmStep]
      rw [this] at h; exact ih init hi h
    | reset q nm =>
      have : (Stmt.reset q nm :: rest).foldlM (cmStep n) init = rest.foldlM (cmStep n) init := by
        simp [List.foldlM, cmStep]
      rw [this] at h; exact ih init hi h
    | comment c =>
      have : (Stmt.comment c :: rest).foldlM (cmStep n) init = rest.foldlM (cmStep n) init := by
        simp [List.foldlM, cmStep]
      rw [this] at h; exact ih init hi h

/-- the circuit matrix is `2^n × 2^n` with full storage -/
theorem circuitMatrix_dim {n : Nat} {stmts : List (Stmt α)} {M : Mat α}
    (h : circuitMatrix n stmts = .ok M) : M.n = 2 ^ n ∧ M.d.size = 2 ^ n * 2 ^ n :=
  cm_fold_dim n stmts _ M ⟨Mat.identity_n _, Mat.identity_size _⟩ h

/-- the gates of a statement list, in program order -/
def gatesOf : List (Stmt α) → List (Gate α)
  | [] => []
  | .gate g _ :: rest => g :: gatesOf rest
  | _ :: rest => gatesOf rest

/-- **explicit product**: if the gate statements of `stmts` are `g_1 … g_k` (in program order) with
    matrices `M_1 … M_k`, the result is `M_k * (… * (M_1 * I))`. -/
theorem circuitMatrix_product (n : Nat) (stmts : List (Stmt α)) (Ms : List (Mat α))
    (h : (gatesOf stmts).mapM (expand n) = .ok Ms) :
    circuitMatrix n stmts = .ok (Ms.foldl (fun acc M => Mat.mul M acc) (Mat.identity (2 ^ n))) := by
  rw [circuitMatrix_eq]
  generalize (Mat.identity (2 ^ n) : Mat α) = init
  induction stmts generalizing init Ms with
  | nil =>
    simp [gatesOf, pure, Except.pure] at h
    subst h; rfl
  | cons s rest ih =>
    cases s with
    | gate g nm =>
      rw [circuitMatrix_cons_gate_aux]
      simp only [gatesOf, List.mapM_cons] at h
      cases hb : expand n g with
      | error e => rw [hb] at h; simp [bind, Except.bind] at h
      | ok b =>
        rw [hb] at h
        simp only [bind, Except.bind] at h ⊢
        cases hr : List.mapM (expand n) (gatesOf rest) with
        | error e => rw [hr] at h; simp at h
        | ok Ms' =>
          rw [hr] at h
          simp [pure, Except.pure] at h
          subst h
          rw [ih Ms' hr]
          rfl
    | measure q b ax nm =>
      have : (Stmt.measure q b ax nm :: rest).foldlM (cmStep n) init = rest.foldlM (cmStep n) init := by
        simp [List.foldlM, cmStep]
      rw [this]; exact ih Ms h init
    | reset q nm =>
      have : (Stmt.reset q nm :: rest).foldlM (cmStep n) init = rest.foldlM (cmStep n) init := by
        simp [List.foldlM, cmStep]
      rw [this]; exact ih Ms h init
    | comment c =>
      have : (Stmt.comment c :: rest).foldlM (cmStep n) init = rest.foldlM (cmStep n) init := by
        simp [List.foldlM, cmStep]
      rw [this]; exact ih Ms h init

/-! ## C19 (cost): matrices of replacement checks live on the operands only -/

/-- `localMatrix idx gs` (used by `checkGateReplacement` with `idx = g.operands` and by `compareGates`
    with `idx` = union of both operand lists) has dimension `2^idx.length`, never `2^(register size)`. -/
theorem localMatrix_dim {idx : List Int} {gs : List (Gate α)} {m : Mat α}
    (h : localMatrix idx gs = .ok m) : m.n = 2 ^ idx.length ∧ m.d.size = 2 ^ idx.length * 2 ^ idx.length := by
  unfold localMatrix at h
  cases hg : gs.mapM (reindexGate idx) with
  | error e => rw [hg] at h; simp [bind, Except.bind] at h
  | ok gs' =>
    rw [hg] at h
    simp only [bind, Except.bind] at h
    exact circuitMatrix_dim h

/-- both matrices compared by `checkGateReplacement atol g gs` have dimension `2^(#operands of g)` -/
theorem checkGateReplacement_dims (g : Gate α) (gs : List (Gate α)) {a b : Mat α}
    (ha : localMatrix g.operands [g] = .ok a) (hb : localMatrix g.operands gs = .ok b) :
    a.n = 2 ^ g.operands.length ∧ b.n = 2 ^ g.operands.length :=
  ⟨(localMatrix_dim ha).1, (localMatrix_dim hb).1⟩

/-! ## Non-vacuity: doctest values of `matrix_expander.py` and concrete instances of each spec -/

-- `get_reduced_ket` doctests
example : reducedKet 1 [0] = 1 := by decide
example : reducedKet 1111 [2] = 1 := by decide
example : reducedKet 1111 [5] = 0 := by decide
example : reducedKet 1111 [2, 5] = 1 := by decide
example : reducedKet 101 [1, 0] = 2 := by decide
example : reducedKet 101 [0, 1] = 1 := by decide
-- `expand_ket` doctests
example : expandKet 0b00000 0b0 [5] = 0 := by decide
example : expandKet 0b00000 0b1 [5] = 32 := by decide
example : expandKet 0b00111 0b0 [5] = 7 := by decide
example : expandKet 0b00111 0b1 [5] = 39 := by decide
example : expandKet 0b0000 0b000 [1, 2, 3] = 0 := by decide
example : expandKet 0b0000 0b001 [1, 2, 3] = 2 := by decide
example : expandKet 0b0000 0b011 [1, 2, 3] = 6 := by decide
example : expandKet 0b0000 0b101 [1, 2, 3] = 10 := by decide
example : expandKet 0b0001 0b101 [1, 2, 3] = 11 := by decide

-- instances of the bit-level specs
example : (reducedKet 101 [1, 0]).testBit 1 = Nat.testBit 101 0 := by
  simpa using reducedKet_spec 101 [1, 0] 1
example : (expandKet 1 5 [1, 2, 3]).testBit 3 = Nat.testBit 5 2 := by
  have h : List.idxOf 3 [1, 2, 3] = 2 := by decide
  simpa [h] using expandKet_spec 1 5 [1, 2, 3] (by decide) 3
example : (expandKet 1 5 [1, 2, 3]).testBit 0 = Nat.testBit 1 0 := by
  simpa using expandKet_spec 1 5 [1, 2, 3] (by decide) 0
example : expandKet 1 5 [1, 2, 3] < 2 ^ 4 := expandKet_lt 1 5 [1, 2, 3] (by decide) (by decide)
example : subIdx 5 [2, 0] = 3 ∧ subIdx 1 [2, 0] = 1 ∧ subIdx 2 [1, 0] = 2 ∧ subIdx 2 [0, 1] = 1 := by decide

-- rotation on qubit 1 of 3: entry (0b101, 0b111) is `u[0,1]`; entry (0b101, 0b110) is 0
example (ax : Vec3 α) (an ph : α) :
    ∃ M, expand 3 (.bsr 1 ax an ph) = .ok M ∧ IsMat 3 M (embed1 3 1 (can1 ax an ph)) :=
  expandBSR_spec (by decide) (by decide) ax an ph
example (u : Mat α) : embed1 3 1 u 5 7 = u.get 0 1 := by
  unfold embed1; rw [if_pos (by decide)]; rfl
example (u : Mat α) : embed1 3 1 u 5 6 = Cx.zero := by
  unfold embed1; rw [if_neg (by decide)]

-- matrix gate on operands (q2, q0) of 3: entry (0b101, 0b001) is `m[0b11, 0b01]`
example (m : Mat α) (h : m.n = 4) :
    ∃ M, expand 3 (.matrix m [2, 0]) = .ok M ∧ IsMat 3 M (embedM 3 [2, 0] m) :=
  expandMatrix_spec m [2, 0] (by decide) h
example (m : Mat α) : embedM 3 [2, 0] m 5 1 = m.get 3 1 := by
  unfold embedM; rw [if_pos (by decide)]; rfl
example (m : Mat α) : embedM 3 [2, 0] m 5 3 = Cx.zero := by
  unfold embedM; rw [if_neg (by decide)]

-- `CNOT q[0], q[2]` of the `get_matrix` docstring, and a doubly controlled rotation
example (ax : Vec3 α) (an ph : α) :
    ∃ M, expand 3 (.ctrl 0 (.bsr 2 ax an ph)) = .ok M ∧
      IsMat 3 M (denote 3 (.ctrl 0 (.bsr 2 ax an ph))) :=
  expand_ok_spec _ (by simp [Gate.inReg, Gate.operands]) trivial
example (ax : Vec3 α) (an ph : α) :
    denote 3 (.ctrl 0 (.bsr 2 ax an ph)) 5 1 = (can1 ax an ph).get 1 0 := by
  simp only [denote, ctrlOf, embed1]
  rw [if_pos (by decide), if_pos (by decide)]; rfl
example (ax : Vec3 α) (an ph : α) :
    denote 3 (.ctrl 0 (.bsr 2 ax an ph)) 4 4 = Cx.one := by
  simp only [denote, ctrlOf]
  rw [if_neg (by decide)]; simp [delta]
example (ax : Vec3 α) (an ph : α) :
    ∃ M, expand 3 (.ctrl 0 (.ctrl 1 (.bsr 2 ax an ph))) = .ok M ∧
      IsMat 3 M (ctrlP0P1 0 (ctrlP0P1 1 (embed1 3 2 (can1 ax an ph)))) := by
  obtain ⟨M1, h1, hM1⟩ := expandBSR_spec (n := 3) (q := 2) (by decide) (by decide) ax an ph
  obtain ⟨M2, h2, hM2⟩ := expandCtrl_P0P1 (n := 3) (cq := 1) (by decide) (by decide) h1
    (by simp [Gate.operands])
  obtain ⟨M3, h3, hM3⟩ := expandCtrl_P0P1 (n := 3) (cq := 0) (by decide) (by decide) h2
    (by simp [Gate.operands])
  refine ⟨M3, h3, hM3.1, hM3.2.1, ?_⟩
  intro r c hr hc
  rw [hM3.2.2 r c hr hc]
  simp only [ctrlP0P1, Int.toNat_zero, Int.toNat_one, hM2.2.2 r c hr hc]
  have : Int.toNat 2 = 2 := rfl
  simp only [hM1.2.2 r c hr hc, this]

-- refusals: `IndexError` wins over a negative operand, whichever is outermost
example (ax : Vec3 α) (an ph : α) : expand 2 (.ctrl 5 (.bsr (-1) ax an ph)) = .error .index :=
  expand_refuses _ ⟨5, by simp [Gate.operands], by decide⟩
example (ax : Vec3 α) (an ph : α) : expand 2 (.ctrl (-1) (.bsr 7 ax an ph)) = .error .index :=
  expand_refuses _ ⟨7, by simp [Gate.operands], by decide⟩
example (ax : Vec3 α) (an ph : α) : expand 2 (.ctrl (-1) (.bsr 0 ax an ph)) = .error .value :=
  expand_value _ (by simp [Gate.operands]) (Or.inl ⟨-1, by simp [Gate.operands], by decide⟩)
example (m : Mat α) (h : m.n = 2) : expand 2 (.matrix m [0, 1]) = .error .value :=
  expand_value _ (by simp [Gate.operands]) (Or.inr (by simp [Gate.dimOk, h]))

-- circuits
example : circuitMatrix 2 ([.comment "x"] : List (Stmt α)) = .ok (Mat.identity 4) := rfl
example (ax : Vec3 α) (an ph : α) :
    ∃ A B, expand 2 (.bsr 0 ax an ph) = .ok A ∧ expand 2 (.ctrl 0 (.bsr 1 ax an ph)) = .ok B ∧
      circuitMatrix 2 [.gate (.bsr 0 ax an ph) none, .comment "c", .gate (.ctrl 0 (.bsr 1 ax an ph)) none]
        = .ok (Mat.mul B (Mat.mul A (Mat.identity 4))) := by
  obtain ⟨A, hA, _⟩ := expandBSR_spec (n := 2) (q := 0) (by decide) (by decide) ax an ph
  obtain ⟨B, hB, _⟩ := expand_ok_spec (n := 2) (.ctrl 0 (.bsr 1 ax an ph))
    (by simp [Gate.inReg, Gate.operands]) trivial
  refine ⟨A, B, hA, hB, ?_⟩
  exact circuitMatrix_product 2 _ [A, B] (by simp [gatesOf, List.mapM_cons, hA, hB, bind, Except.bind, pure, Except.pure])

-- C19: a controlled rotation on qubits 5 and 9 of a large register is checked with a 4×4 matrix
example (ax : Vec3 α) (an ph : α) :
    ∃ m, localMatrix [5, 9] [Gate.ctrl 5 (.bsr 9 ax an ph)] = .ok m ∧ m.n = 4 := by
  obtain ⟨B, hB, hn, _⟩ := expand_ok_spec (n := 2) (.ctrl 0 (.bsr 1 ax an ph))
    (by simp [Gate.inReg, Gate.operands]) trivial
  have : localMatrix [5, 9] [Gate.ctrl 5 (.bsr 9 ax an ph)]
      = circuitMatrix 2 [.gate (.ctrl 0 (.bsr 1 ax an ph)) none] := by
    simp [localMatrix, reindexGate, indexOf?, List.mapM_cons, List.mapM_nil, bind, Except.bind,
      pure, Except.pure, List.findIdx_cons]
  rw [this]
  have h2 := circuitMatrix_product 2 [Stmt.gate (.ctrl 0 (.bsr 1 ax an ph)) none] [B]
    (by simp [gatesOf, List.mapM_cons, hB, bind, Except.bind, pure, Except.pure])
  exact ⟨_, h2, by simp [hn]⟩

end OSq

#print axioms OSq.reducedKet_spec
#print axioms OSq.expandKet_spec
#print axioms OSq.expandKet_lt
#print axioms OSq.expandKet_eq_imp_reduced
#print axioms OSq.circuitMatrix_dim
#print axioms OSq.expandBSR_spec
#print axioms OSq.expandMatrix_spec
#print axioms OSq.expandCtrl_spec
#print axioms OSq.expandCtrl_P0P1
#print axioms OSq.expand_ok_spec
#print axioms OSq.expand_spec
#print axioms OSq.expand_not_touching
#print axioms OSq.expand_refuses
#print axioms OSq.expand_ok_iff
#print axioms OSq.expand_index_iff
#print axioms OSq.expand_value_iff
#print axioms OSq.expand_dim
#print axioms OSq.circuitMatrix_append_gate
#print axioms OSq.circuitMatrix_append_nongate
#print axioms OSq.circuitMatrix_ok_iff
#print axioms OSq.circuitMatrix_product
#print axioms OSq.localMatrix_dim
