import OSq.Proofs.MergeAbstract
import Mathlib.Data.Real.Basic
import Mathlib.Tactic.Linarith
import Mathlib.Tactic.Ring
/-
  OSq.Proofs.MergeBand — **the metric version of the abstract merge theorem** (`MergeAbstract.gmerge_correct` /
  `merge_sem` with the crisp hypothesis `Crisp` removed): the accumulate/flush algorithm of the merge pass is an
  *approximate* monoid homomorphism, and the errors of its steps add.

  Setting (namespace `OSq.MergeAbs`).  `S : Sem Op M B` is a monoid-valued semantics with commuting one-qubit
  embeddings, `G : Alg A Op` the algorithmic parameters (`comp`, `unit`, `isId`, `fin`, denotation `ρ`), exactly as in
  `MergeAbstract`.  New:
  * `Approx M`            an abstract "distance up to an invisible unit factor" on the monoid `M`: a relation
                          `near ε x y` (reflexive at `0`, monotone in `ε`, symmetric, triangle inequality with added
                          errors) and a predicate `contr` ("contraction", closed under products) such that multiplying
                          both sides by a contraction keeps `near ε`.
  * `Alg.virt`            the same algorithm with the denotation `a ↦ if isId a then 1 else ρ a` ("an accumulator that
                          tests as identity is as good as dropped").  The exact lemmas of `MergeAbstract` apply to it with
                          no crisp hypothesis; the invariant of the metric proof is `ginv S G.virt`.
  * `BandHyp S G P n GoodI Good K E F`   the all-inputs hypotheses, for accumulators satisfying the invariant `Good q a`:
                          `near K (emb (ρ (comp u a))) (emb (ρ u) · emb (ρ a))`   (a composition is right up to `K`)
                          `isId a → near E (emb (ρ a)) 1`                         (what tests as identity is `E`-close to it)
                          `¬ isId a → near F (emb (ρ (fin a))) (emb (ρ a))`       (the final renaming moves by `≤ F`)
                          plus closure of `Good`, `isId (unit q)`, contractivity of the embedded denotations.
  Theorems
  * `grot_step_near`      one rotation statement costs `K + 2·E`  (`K` for the composition, `E` because the old
                          accumulator may have been virtually dropped, `E` because the new one may be)
  * `gbar_step_eq`        a barrier statement costs nothing (exact), although an accumulator that tests as identity is
                          carried across the barrier by the code
  * `grun_near`           a run over `prog` costs `nrot prog · (K + 2·E)`
  * `gfinish_near`        the final flush costs `F` per emitted accumulator
  * `gmerge_approx`       **abstract metric merge theorem**:
                          `near (nrot prog · (K + 2·E + F)) (denA (gmergeR n prog)) (denA prog.reverse)`
  * `merge_sem_approx`    (namespace `OSq`) the model's `merge` is an instance: in-range operands, no exception,
                          `BandHyp` for `modelAlg atol ρ`, good rotations and contractive barriers in the input ⇒
                          `near (G · (K + 2·E + F)) (denS S ρ (merge atol c).1.stmts) (denS S ρ c.stmts)` with
                          `G = c.stmts.countP Stmt.isBSR` the number of one-qubit rotations of the input.
  * `approxEq`, example   the discrete `Approx` (near ε x y ↔ x = y ∧ 0 ≤ ε) — non-vacuity: with it `gmerge_approx`
                          specialises to an exact statement.
  The instantiation with the register semantics (`circOp`, operator norm) is in `MergeBand2`.
-/
set_option linter.unusedSectionVars false
set_option linter.unusedVariables false

namespace OSq.MergeAbs
open Function

variable {Op M B A : Type} [Monoid Op] [Monoid M]

/-- an abstract distance "up to an invisible unit factor" on a monoid, with its contractions -/
structure Approx (M : Type) [Monoid M] where
  near : ℝ → M → M → Prop
  contr : M → Prop
  near_refl : ∀ x, near 0 x x
  near_mono : ∀ {ε δ x y}, near ε x y → ε ≤ δ → near δ x y
  near_symm : ∀ {ε x y}, near ε x y → near ε y x
  near_trans : ∀ {ε δ x y w}, near ε x y → near δ y w → near (ε + δ) x w
  contr_one : contr 1
  contr_mul : ∀ {x y}, contr x → contr y → contr (x * y)
  near_mul_left : ∀ {ε m x y}, contr m → near ε x y → near ε (m * x) (m * y)
  near_mul_right : ∀ {ε m x y}, contr m → near ε x y → near ε (x * m) (y * m)

/-- the same algorithm, read with "tests as identity ⇒ denotes the unit" -/
def Alg.virt (G : Alg A Op) : Alg A Op :=
  { comp := G.comp, unit := G.unit, isId := G.isId, fin := G.fin,
    ρ := fun a => if G.isId a then 1 else G.ρ a }

variable (S : Sem Op M B) (G : Alg A Op) (P : Approx M)

theorem virt_ρ_id (a : A) (h : G.isId a = true) : G.virt.ρ a = 1 := by simp [Alg.virt, h]
theorem virt_ρ_nid (a : A) (h : G.isId a = false) : G.virt.ρ a = G.ρ a := by simp [Alg.virt, h]

theorem gflush1_virt (st : GState A B) (q : ℕ) : gflush1 G.virt st q = gflush1 G st q := rfl
theorem gflush_virt (qs : List ℕ) (st : GState A B) : gflush G.virt qs st = gflush G qs st := rfl
theorem gstep_virt (st : GState A B) (s : St A B) : gstep S G.virt st s = gstep S G st s := by
  cases s <;> rfl
theorem grun_virt (prog : List (St A B)) (st : GState A B) : grun S G.virt prog st = grun S G prog st := by
  induction prog generalizing st with
  | nil => rfl
  | cons s prog ih =>
    show grun S G.virt prog (gstep S G.virt st s) = grun S G prog (gstep S G st s)
    rw [gstep_virt, ih]

/-- number of rotation statements -/
def nrot : List (St A B) → ℕ
  | [] => 0
  | .rot _ _ :: l => nrot l + 1
  | .bar _ :: l => nrot l

/-- the all-inputs hypotheses on the parameters of the algorithm -/
structure BandHyp (n : ℕ) (GoodI Good : ℕ → A → Prop) (K E F : ℝ) : Prop where
  K_nonneg : 0 ≤ K
  E_nonneg : 0 ≤ E
  F_nonneg : 0 ≤ F
  unit_id : ∀ q, G.isId (G.unit q) = true
  good_unit : ∀ q, q < n → Good q (G.unit q)
  good_comp : ∀ q, q < n → ∀ u a, GoodI q u → Good q a → Good q (G.comp u a)
  contr_in : ∀ q, q < n → ∀ u, GoodI q u → P.contr (S.emb q (G.ρ u))
  contr_emb : ∀ q, q < n → ∀ a, Good q a → P.contr (S.emb q (G.ρ a))
  contr_fin : ∀ q, q < n → ∀ a, Good q a → P.contr (S.emb q (G.ρ (G.fin a)))
  near_comp : ∀ q, q < n → ∀ u a, GoodI q u → Good q a →
    P.near K (S.emb q (G.ρ (G.comp u a))) (S.emb q (G.ρ u) * S.emb q (G.ρ a))
  near_id : ∀ q, q < n → ∀ a, Good q a → G.isId a = true → P.near E (S.emb q (G.ρ a)) 1
  near_fin : ∀ q, q < n → ∀ a, Good q a → G.isId a = false →
    P.near F (S.emb q (G.ρ (G.fin a))) (S.emb q (G.ρ a))

/-- a well-formed, good input statement: rotations are good for their (register) qubit, barriers touch register
    qubits and denote contractions -/
def okIn (n : ℕ) (GoodI : ℕ → A → Prop) : St A B → Prop
  | .rot q u => q < n ∧ GoodI q u
  | .bar b => (∀ q ∈ S.touches b, q < n) ∧ P.contr (S.den b)

/-- what the algorithm has emitted so far: barriers of the input, and accumulators that did not test as identity -/
def okOut (n : ℕ) (Good : ℕ → A → Prop) : St A B → Prop
  | .rot q a => q < n ∧ Good q a ∧ G.isId a = false
  | .bar b => P.contr (S.den b)

theorem okIn_wf {n : ℕ} {GoodI : ℕ → A → Prop} {s : St A B} (h : okIn S P n GoodII s) : wfSt S n s := by
  cases s with
  | rot q u => exact h.1
  | bar b => exact h.1

variable {n : ℕ} {GoodI Good : ℕ → A → Prop} {K E F : ℝ}

/-! ### contractions -/

theorem contr_accProd (m : ℕ) (f : ℕ → Op) (h : ∀ q, q < m → P.contr (S.emb q (f q))) :
    P.contr (accProd S m f) := by
  induction m with
  | zero => simp only [accProd, List.range_zero, List.map_nil, List.prod_nil]; exact P.contr_one
  | succ m ih =>
    rw [accProd_succ]
    exact P.contr_mul (ih (fun q hq => h q (by omega))) (h m (by omega))

section withHyp
variable (H : BandHyp S G P n GoodI Good K E F)
include H

theorem contr_emb_virt (q : ℕ) (hq : q < n) (a : A) (ha : Good q a) : P.contr (S.emb q (G.virt.ρ a)) := by
  cases h : G.isId a with
  | true => rw [virt_ρ_id G a h, map_one]; exact P.contr_one
  | false => rw [virt_ρ_nid G a h]; exact H.contr_emb q hq a ha

theorem near_virt (q : ℕ) (hq : q < n) (a : A) (ha : Good q a) :
    P.near E (S.emb q (G.ρ a)) (S.emb q (G.virt.ρ a)) := by
  cases h : G.isId a with
  | true => rw [virt_ρ_id G a h, map_one]; exact H.near_id q hq a ha h
  | false => rw [virt_ρ_nid G a h]; exact P.near_mono (P.near_refl _) H.E_nonneg

theorem contr_denA_out (out : List (St A B)) (h : ∀ s ∈ out, okOut S G P n Good s) :
    P.contr (denA S G out) := by
  induction out with
  | nil => exact P.contr_one
  | cons s out ih =>
    have hs := h s List.mem_cons_self
    have ih' := ih (fun x hx => h x (List.mem_cons_of_mem _ hx))
    cases s with
    | rot q a => exact P.contr_mul (H.contr_emb q hs.1 a hs.2.1) ih'
    | bar b => exact P.contr_mul hs ih'

theorem contr_denA_in (l : List (St A B)) (h : ∀ s ∈ l, okIn S P n GoodI s) :
    P.contr (denA S G l) := by
  induction l with
  | nil => exact P.contr_one
  | cons s l ih =>
    have hs := h s List.mem_cons_self
    have ih' := ih (fun x hx => h x (List.mem_cons_of_mem _ hx))
    cases s with
    | rot q a => exact P.contr_mul (H.contr_in q hs.1 a hs.2) ih'
    | bar b => exact P.contr_mul hs.2 ih'

omit H in
theorem denA_virt_out (out : List (St A B)) (h : ∀ s ∈ out, okOut S G P n Good s) :
    denA S G.virt out = denA S G out := by
  induction out with
  | nil => rfl
  | cons s out ih =>
    have hs := h s List.mem_cons_self
    have ih' := ih (fun x hx => h x (List.mem_cons_of_mem _ hx))
    cases s with
    | rot q a => simp only [denA, ih', virt_ρ_nid G a hs.2.2]
    | bar b => simp only [denA, ih']

/-! ### the state invariant -/

end withHyp

/-- accumulators are good, the output so far is good -/
def StOK (n : ℕ) (Good : ℕ → A → Prop) (st : GState A B) : Prop :=
  (∀ q, q < n → Good q (st.1 q)) ∧ (∀ s ∈ st.2, okOut S G P n Good s)

/-- number of accumulators (of the register) that do not test as identity -/
def nz (n : ℕ) (acc : ℕ → A) : ℕ := ((List.range n).filter fun q => !G.isId (acc q)).length

theorem nz_succ (m : ℕ) (acc : ℕ → A) :
    nz G (m + 1) acc = nz G m acc + (if G.isId (acc m) then 0 else 1) := by
  unfold nz
  rw [List.range_succ, List.filter_append, List.length_append]
  cases h : G.isId (acc m) <;> simp [h]

theorem nz_congr (m : ℕ) (acc acc' : ℕ → A) (h : ∀ q, q < m → acc q = acc' q) : nz G m acc = nz G m acc' := by
  induction m with
  | zero => rfl
  | succ m ih => rw [nz_succ, nz_succ, ih (fun q hq => h q (by omega)), h m (by omega)]

theorem nz_update_le (m : ℕ) (acc : ℕ → A) (q : ℕ) (x : A) : nz G m (update acc q x) ≤ nz G m acc + 1 := by
  induction m with
  | zero => simp [nz]
  | succ m ih =>
    rw [nz_succ, nz_succ]
    by_cases h : m = q
    · subst h
      rw [nz_congr G m (update acc m x) acc (fun q' hq' => update_of_ne (by omega) _ _)]
      split <;> split <;> omega
    · rw [update_of_ne h]
      omega

theorem nz_update_id_le (m : ℕ) (acc : ℕ → A) (q : ℕ) (x : A) (hx : G.isId x = true) :
    nz G m (update acc q x) ≤ nz G m acc := by
  induction m with
  | zero => simp [nz]
  | succ m ih =>
    rw [nz_succ, nz_succ]
    by_cases h : m = q
    · subst h
      rw [nz_congr G m (update acc m x) acc (fun q' hq' => update_of_ne (by omega) _ _), update_self, hx]
      simp
    · rw [update_of_ne h]
      omega

section withHyp2
variable (H : BandHyp S G P n GoodI Good K E F)
include H

theorem virt_unit (q : ℕ) : G.virt.ρ (G.virt.unit q) = 1 := virt_ρ_id G _ (H.unit_id q)

/-! ### flushing -/

theorem gflush1_ok (q : ℕ) (hq : q < n) (st : GState A B) (hst : StOK S G P n Good st) :
    StOK S G P n Good (gflush1 G st q) ∧ nz G n (gflush1 G st q).1 ≤ nz G n st.1 := by
  unfold gflush1
  cases h : G.isId (st.1 q) with
  | true => simp only [if_true]; exact ⟨hst, le_refl _⟩
  | false =>
    simp only [Bool.false_eq_true, if_false]
    refine ⟨⟨?_, ?_⟩, nz_update_id_le G n st.1 q _ (H.unit_id q)⟩
    · intro q' hq'
      show Good q' (update st.1 q (G.unit q) q')
      by_cases e : q' = q
      · subst e; rw [update_self]; exact H.good_unit _ hq'
      · rw [update_of_ne e]; exact hst.1 q' hq'
    · intro s hs
      rcases List.mem_cons.mp hs with rfl | hs
      · exact ⟨hq, hst.1 q hq, h⟩
      · exact hst.2 s hs

theorem gflush_ok (qs : List ℕ) (hqs : ∀ q ∈ qs, q < n) (st : GState A B) (hst : StOK S G P n Good st) :
    StOK S G P n Good (gflush G qs st) ∧ nz G n (gflush G qs st).1 ≤ nz G n st.1 := by
  induction qs generalizing st with
  | nil => exact ⟨hst, le_refl _⟩
  | cons q qs ih =>
    obtain ⟨a1, a2⟩ := gflush1_ok S G P H q (hqs q List.mem_cons_self) st hst
    obtain ⟨b1, b2⟩ := ih (fun q' hq' => hqs q' (List.mem_cons_of_mem _ hq')) (gflush1 G st q) a1
    exact ⟨b1, le_trans b2 a2⟩

/-! ### one step -/

/-- **a barrier costs nothing**: exact equation for the virtual invariant -/
theorem gbar_step_eq (b : B) (hb : ∀ q ∈ S.touches b, q < n) (st : GState A B) :
    ginv S G.virt n (gstep S G st (.bar b)) = S.den b * ginv S G.virt n st := by
  have := gstep_inv S G.virt (virt_unit S G P H) n (.bar b) hb st
    (fun q _ h => virt_ρ_id G _ h)
  rw [gstep_virt] at this
  rw [this]
  simp [denA]

theorem gbar_step_ok (b : B) (hb : okIn S P n GoodI (.bar b)) (st : GState A B) (hst : StOK S G P n Good st) :
    StOK S G P n Good (gstep S G st (.bar b)) ∧ nz G n (gstep S G st (.bar b)).1 ≤ nz G n st.1 := by
  obtain ⟨a1, a2⟩ := gflush_ok S G P H (S.touches b) hb.1 st hst
  refine ⟨⟨a1.1, ?_⟩, a2⟩
  intro s hs
  rcases List.mem_cons.mp hs with rfl | hs
  · exact hb.2
  · exact a1.2 s hs

/-- **a rotation costs `K + 2·E`** -/
theorem grot_step_near (q : ℕ) (u : A) (hu : okIn S P n GoodI (.rot q u)) (st : GState A B)
    (hst : StOK S G P n Good st) :
    P.near (K + 2 * E) (ginv S G.virt n (gstep S G st (.rot q u)))
      (S.emb q (G.ρ u) * ginv S G.virt n st) := by
  obtain ⟨acc, out⟩ := st
  obtain ⟨hq, hgu⟩ := hu
  have hga : Good q (acc q) := hst.1 q hq
  have hga' : Good q (G.comp u (acc q)) := H.good_comp q hq u _ hgu hga
  -- the factor of the other accumulators and of the output is a contraction
  set R : M := accProd S n (update (racc G.virt (acc, out)) q 1) * denA S G.virt out with hR
  have hRc : P.contr R := by
    apply P.contr_mul
    · apply contr_accProd
      intro q' hq'
      by_cases e : q' = q
      · subst e; rw [update_self, map_one]; exact P.contr_one
      · rw [update_of_ne e]; exact contr_emb_virt S G P H q' hq' _ (hst.1 q' hq')
    · rw [denA_virt_out S G P out hst.2]; exact contr_denA_out S G P H out hst.2
  have e1 : ginv S G.virt n (gstep S G (acc, out) (.rot q u))
      = S.emb q (G.virt.ρ (G.comp u (acc q))) * R := by
    show accProd S n (racc G.virt (update acc q (G.comp u (acc q)), out)) * denA S G.virt out = _
    rw [racc_update G.virt acc out q _, accProd_pull S n q hq (update _ q _), update_self, update_idem, mul_assoc]
  have e2 : S.emb q (G.ρ u) * ginv S G.virt n (acc, out)
      = (S.emb q (G.ρ u) * S.emb q (G.virt.ρ (acc q))) * R := by
    show S.emb q (G.ρ u) * (accProd S n (racc G.virt (acc, out)) * denA S G.virt out) = _
    rw [accProd_pull S n q hq (racc G.virt (acc, out))]
    simp only [mul_assoc, racc, hR]
  rw [e1, e2]
  apply P.near_mul_right hRc
  -- `emb v(a') ≈_E emb ρ(a') ≈_K emb ρ(u) · emb ρ(a) ≈_E emb ρ(u) · emb v(a)`
  have h1 := P.near_symm (near_virt S G P H q hq _ hga')
  have h2 := H.near_comp q hq u (acc q) hgu hga
  have h3 := P.near_mul_left (H.contr_in q hq u hgu) (near_virt S G P H q hq _ hga)
  have := P.near_trans (P.near_trans h1 h2) h3
  exact P.near_mono this (by linarith)

theorem grot_step_ok (q : ℕ) (u : A) (hu : okIn S P n GoodI (.rot q u)) (st : GState A B)
    (hst : StOK S G P n Good st) :
    StOK S G P n Good (gstep S G st (.rot q u)) ∧ nz G n (gstep S G st (.rot q u)).1 ≤ nz G n st.1 + 1 := by
  obtain ⟨acc, out⟩ := st
  refine ⟨⟨?_, hst.2⟩, nz_update_le G n acc q _⟩
  intro q' hq'
  show Good q' (update acc q (G.comp u (acc q)) q')
  by_cases e : q' = q
  · subst e; rw [update_self]; exact H.good_comp q' hq' u _ hu.2 (hst.1 q' hq')
  · rw [update_of_ne e]; exact hst.1 q' hq'

/-! ### a run -/

/-- **a run costs `nrot prog · (K + 2·E)`** (relative to any reference `X` the start state is `e`-close to) -/
theorem grun_near (prog : List (St A B)) :
    ∀ (st : GState A B) (X : M) (e : ℝ), (∀ s ∈ prog, okIn S P n GoodI s) → StOK S G P n Good st →
      P.near e (ginv S G.virt n st) X →
      P.near (e + nrot prog * (K + 2 * E)) (ginv S G.virt n (grun S G prog st)) (denA S G prog.reverse * X) ∧
      StOK S G P n Good (grun S G prog st) ∧ nz G n (grun S G prog st).1 ≤ nz G n st.1 + nrot prog := by
  induction prog with
  | nil =>
    intro st X e _ hst hX
    refine ⟨?_, hst, by simp [grun, nrot]⟩
    simpa [grun, nrot, denA] using hX
  | cons s prog ih =>
    intro st X e hok hst hX
    have hs := hok s List.mem_cons_self
    have hok' : ∀ s' ∈ prog, okIn S P n GoodI s' := fun s' h => hok s' (List.mem_cons_of_mem _ h)
    have hden : denA S G (s :: prog).reverse * X = denA S G prog.reverse * (denA S G [s] * X) := by
      rw [List.reverse_cons, denA_append, mul_assoc]
    cases s with
    | rot q u =>
      obtain ⟨o1, o2⟩ := grot_step_ok S G P H q u hs st hst
      have h1 := grot_step_near S G P H q u hs st hst
      have h2 : P.near e (S.emb q (G.ρ u) * ginv S G.virt n st) (S.emb q (G.ρ u) * X) :=
        P.near_mul_left (H.contr_in q hs.1 u hs.2) hX
      obtain ⟨i1, i2, i3⟩ := ih (gstep S G st (.rot q u)) (S.emb q (G.ρ u) * X) (K + 2 * E + e) hok' o1
        (P.near_trans h1 h2)
      refine ⟨?_, i2, ?_⟩
      · rw [hden]
        have e' : denA S G [St.rot q u] * X = S.emb q (G.ρ u) * X := by simp [denA]
        rw [e']
        refine P.near_mono i1 (le_of_eq ?_)
        simp only [nrot]; push_cast; ring
      · show nz G n (grun S G prog (gstep S G st (.rot q u))).1 ≤ _
        simp only [nrot]; omega
    | bar b =>
      obtain ⟨o1, o2⟩ := gbar_step_ok S G P H b hs st hst
      have h1 := gbar_step_eq S G P H b hs.1 st
      have h2 : P.near e (ginv S G.virt n (gstep S G st (.bar b))) (S.den b * X) := by
        rw [h1]; exact P.near_mul_left hs.2 hX
      obtain ⟨i1, i2, i3⟩ := ih (gstep S G st (.bar b)) (S.den b * X) e hok' o1 h2
      refine ⟨?_, i2, ?_⟩
      · rw [hden]
        have e' : denA S G [St.bar b] * X = S.den b * X := by simp [denA]
        rw [e']
        exact P.near_mono i1 (le_of_eq (by simp only [nrot]))
      · show nz G n (grun S G prog (gstep S G st (.bar b))).1 ≤ _
        simp only [nrot]; omega

/-! ### the final flush -/

/-- **the final flush costs `F` per emitted accumulator** -/
theorem gfinish_near (st : GState A B) (hst : StOK S G P n Good st) :
    ∀ m, m ≤ n →
      P.near (nz G m st.1 * F) (denA S G (gfinish G m st)) (accProd S m (racc G.virt st) * denA S G st.2) := by
  intro m
  induction m with
  | zero =>
    intro _
    simp only [gfinish, List.range_zero, List.foldl_nil, accProd, List.map_nil, List.prod_nil, one_mul, nz,
      List.filter_nil, List.length_nil, Nat.cast_zero, zero_mul]
    exact P.near_refl _
  | succ m ih =>
    intro hm
    have hmn : m < n := by omega
    have ih := ih (by omega)
    have hga := hst.1 m hmn
    have hcm : Commute (S.emb m (racc G.virt st m)) (accProd S m (racc G.virt st)) :=
      commute_accProd S m _ _ (fun q' hq' => S.comm_emb m q' _ _ (by omega))
    have e : gfinish G (m + 1) st =
        if G.isId (st.1 m) then gfinish G m st else .rot m (G.fin (st.1 m)) :: gfinish G m st := by
      simp [gfinish, List.range_succ]
    rw [e, accProd_succ, ← hcm.eq, nz_succ]
    cases h : G.isId (st.1 m) with
    | true =>
      simp only [if_true]
      have : racc G.virt st m = 1 := virt_ρ_id G _ h
      rw [this, map_one, one_mul]
      simpa using ih
    | false =>
      simp only [Bool.false_eq_true, if_false, denA]
      have hv : racc G.virt st m = G.ρ (st.1 m) := virt_ρ_nid G _ h
      rw [hv, mul_assoc]
      -- the rest is a contraction
      have hRc : P.contr (accProd S m (racc G.virt st) * denA S G st.2) := by
        apply P.contr_mul
        · apply contr_accProd
          intro q' hq'
          exact contr_emb_virt S G P H q' (by omega) _ (hst.1 q' (by omega))
        · exact contr_denA_out S G P H st.2 hst.2
      have h1 := P.near_mul_left (H.contr_fin m hmn _ hga) ih
      have h2 := P.near_mul_right hRc (H.near_fin m hmn _ hga h)
      refine P.near_mono (P.near_trans h1 h2) (le_of_eq ?_)
      push_cast; ring

/-- **Abstract metric merge theorem.**  For every program of good rotations and contractive barriers on register
    qubits, the output of the accumulate/flush algorithm denotes, up to the error `nrot prog · (K + 2·E + F)`, what the
    input denotes — with no hypothesis on the tolerance tests. -/
theorem gmerge_approx (prog : List (St A B)) (hok : ∀ s ∈ prog, okIn S P n GoodI s) :
    P.near (nrot prog * (K + 2 * E + F)) (denA S G (gmergeR S G n prog)) (denA S G prog.reverse) := by
  have hst0 : StOK S G P n Good ((G.unit, []) : GState A B) :=
    ⟨fun q hq => H.good_unit q hq, fun s hs => by cases hs⟩
  have hone : accProd S n (racc G.virt ((G.unit, []) : GState A B)) = 1 := by
    unfold accProd; apply List.prod_eq_one; intro x hx
    obtain ⟨q, _, rfl⟩ := List.mem_map.mp hx
    simp [racc, virt_ρ_id G _ (H.unit_id q)]
  have hnz0 : nz G n (G.unit : ℕ → A) = 0 := by
    unfold nz
    rw [List.length_eq_zero_iff, List.filter_eq_nil_iff]
    intro q _
    simp [H.unit_id q]
  have h0 : P.near 0 (ginv S G.virt n ((G.unit, []) : GState A B)) 1 := by
    have : ginv S G.virt n ((G.unit, []) : GState A B) = 1 := by
      show accProd S n (racc G.virt ((G.unit, []) : GState A B)) * denA S G.virt [] = 1
      rw [hone]; simp [denA]
    rw [this]; exact P.near_refl _
  obtain ⟨r1, r2, r3⟩ := grun_near S G P H prog (G.unit, []) 1 0 hok hst0 h0
  have hf := gfinish_near S G P H (grun S G prog (G.unit, [])) r2 n (le_refl n)
  have hv : accProd S n (racc G.virt (grun S G prog (G.unit, []))) * denA S G (grun S G prog (G.unit, [])).2
      = ginv S G.virt n (grun S G prog (G.unit, [])) := by
    show _ = accProd S n _ * denA S G.virt _
    rw [denA_virt_out S G P _ r2.2]
  rw [hv] at hf
  have := P.near_trans hf r1
  rw [mul_one] at this
  refine P.near_mono this ?_
  rw [hnz0, Nat.zero_add] at r3
  have hc : (nz G n (grun S G prog (G.unit, [])).1 : ℝ) ≤ nrot prog := by exact_mod_cast r3
  have := mul_le_mul_of_nonneg_right hc H.F_nonneg
  have e : (nrot prog : ℝ) * (K + 2 * E + F) = nrot prog * F + (0 + nrot prog * (K + 2 * E)) := by ring
  rw [e]
  linarith

end withHyp2

/-! ### Non-vacuity of the abstract layer: the discrete distance -/

/-- the discrete `Approx`: `near ε x y ↔ x = y ∧ 0 ≤ ε`, everything is a contraction -/
def approxEq (M : Type) [Monoid M] : Approx M where
  near ε x y := x = y ∧ 0 ≤ ε
  contr _ := True
  near_refl x := ⟨rfl, le_refl _⟩
  near_mono h hδ := ⟨h.1, le_trans h.2 hδ⟩
  near_symm h := ⟨h.1.symm, h.2⟩
  near_trans h1 h2 := ⟨h1.1.trans h2.1, add_nonneg h1.2 h2.2⟩
  contr_one := trivial
  contr_mul _ _ := trivial
  near_mul_left _ h := ⟨by rw [h.1], h.2⟩
  near_mul_right _ h := ⟨by rw [h.1], h.2⟩

end OSq.MergeAbs

namespace OSq
open MergeAbs Function
variable {α : Type} [Scalar α] {Op M : Type} [Monoid Op] [Monoid M]

theorem nrot_absStmt (l : List (Stmt α)) :
    nrot (l.map absStmt) = l.countP Stmt.isBSR := by
  induction l with
  | nil => rfl
  | cons s l ih =>
    rw [List.map_cons, List.countP_cons]
    cases hb : s.isBSR with
    | true =>
      obtain ⟨r, hr⟩ := (rot?_isBSR s).mp hb
      simp only [absStmt, hr, nrot, ih, if_true]
    | false =>
      rw [absStmt_nonBSR s hb]
      simp only [nrot, ih, Bool.false_eq_true, if_false, Nat.add_zero]

/-- **Metric semantic correctness of the model's merge pass** (abstract form).  `S` is a monoid-valued semantics with
    commuting one-qubit embeddings, `ρ` the denotation of a rotation record, `P` a distance-up-to-phase on the register
    monoid.  If the operands are in range, the pass does not raise, the parameters of the model's algorithm satisfy the
    all-inputs hypotheses `BandHyp` (constants `K`, `E`, `F`), every rotation of the input is `GoodI` for its qubit and
    every other statement of the input denotes a contraction, then the output denotes what the input denotes up to
    `G · (K + 2·E + F)`, where `G` is the number of one-qubit rotations of the input.  No crisp hypothesis. -/
theorem merge_sem_approx (atol : α) (S : Sem Op M (Stmt α)) (ρ : Rot α → Op) (P : Approx M)
    (htouch : ∀ s : Stmt α, S.touches s = s.qubits.map Int.toNat)
    (c : Circuit α) (hr : OperandsInRange c.nQubits c.stmts) (hne : (merge atol c).2 = none)
    (GoodI Good : ℕ → Rot α → Prop) (K E F : ℝ)
    (H : BandHyp S (modelAlg atol ρ) P c.nQubits GoodI Good K E F)
    (hgood : ∀ s ∈ c.stmts, ∀ r, s.rot? = some r → GoodI r.q.toNat r)
    (hbar : ∀ s ∈ c.stmts, s.isBSR = false → P.contr (S.den s)) :
    P.near (c.stmts.countP Stmt.isBSR * (K + 2 * E + F))
      (denS S ρ (merge atol c).1.stmts) (denS S ρ c.stmts) := by
  rw [denS_eq S ρ atol, denS_eq S ρ atol, merge_is_instance atol S ρ htouch c hne, ← nrot_absStmt]
  apply gmerge_approx S (modelAlg atol ρ) P H
  intro s hs
  obtain ⟨s', hs', rfl⟩ := List.mem_map.mp hs
  have hwf := absStmt_wf S htouch _ s' (hr s' hs')
  cases hb : s'.isBSR with
  | true =>
    obtain ⟨r, hr'⟩ := (rot?_isBSR s').mp hb
    simp only [absStmt, hr'] at hwf ⊢
    exact ⟨hwf, hgood s' hs' r hr'⟩
  | false =>
    rw [absStmt_nonBSR s' hb] at hwf ⊢
    exact ⟨hwf, hbar s' hs' hb⟩

/-! ### Non-vacuity -/

/-- with the discrete distance and the trivial denotation of rotations (free monoid on the statements), all
    hypotheses of `merge_sem_approx` hold for every circuit, and the theorem says that the word of barrier statements is
    preserved exactly. -/
example (c : Circuit Float) (hr : OperandsInRange c.nQubits c.stmts) (hne : (merge Gen.atol c).2 = none)
    (hI : ∀ q, (defaultI Gen.atol q : Rot Float).isIdentity Gen.atol = true) :
    denS (freeSem Float) (fun _ => 1) (merge Gen.atol c).1.stmts = denS (freeSem Float) (fun _ => 1) c.stmts := by
  have := merge_sem_approx Gen.atol (freeSem Float) (fun _ => 1) (approxEq _) (fun _ => rfl) c hr hne
    (fun _ _ => True) (fun _ _ => True) 0 0 0
    { K_nonneg := le_refl _, E_nonneg := le_refl _, F_nonneg := le_refl _
      unit_id := hI
      good_unit := fun _ _ => trivial
      good_comp := fun _ _ _ _ _ _ => trivial
      contr_in := fun _ _ _ _ => trivial
      contr_emb := fun _ _ _ _ => trivial
      contr_fin := fun _ _ _ _ => trivial
      near_comp := fun _ _ _ _ _ _ => ⟨by simp [modelAlg, freeSem], le_refl _⟩
      near_id := fun _ _ _ _ _ => ⟨by simp [modelAlg, freeSem], le_refl _⟩
      near_fin := fun _ _ _ _ _ => ⟨by simp [modelAlg, freeSem], le_refl _⟩ }
    (fun _ _ _ _ => trivial) (fun _ _ _ => trivial)
  exact this.1

#print axioms MergeAbs.grot_step_near
#print axioms MergeAbs.gbar_step_eq
#print axioms MergeAbs.grun_near
#print axioms MergeAbs.gfinish_near
#print axioms MergeAbs.gmerge_approx
#print axioms merge_sem_approx

end OSq
