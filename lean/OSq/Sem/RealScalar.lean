import OSq.Model.Scalar
import Mathlib.Analysis.SpecialFunctions.Trigonometric.Inverse
import Mathlib.Analysis.SpecialFunctions.Complex.Arg
/-
  OSq.Sem.RealScalar — the instantiation of the generic scalar at `ℝ`.
  The *same* model definitions that are executed at `Float` by the driver are the subject of the
  theorems at `ℝ`.  `copysign x y` takes the sign of `y` with `0` counted as positive (there is no
  negative zero in `ℝ`); `finite` is always true.
-/
noncomputable instance : Trig ℝ where
  pi := Real.pi
  sin := Real.sin
  cos := Real.cos
  tan := Real.tan
  acos := Real.arccos
  sqrt := Real.sqrt
  atan2 y x := Complex.arg ⟨x, y⟩
  floor x := (⌊x⌋ : ℝ)
  abs x := |x|
  copysign x y := if 0 ≤ y then |x| else -|x|
  finite _ := true

noncomputable instance : OSq.Scalar ℝ where
  decLt := inferInstance
  decLe := inferInstance
  decEqB x y := decide (x = y)
  default := 0

namespace OSq
/-- unfolding lemmas for the scalar helpers at `ℝ` -/
@[simp] theorem sc_real (n : Nat) : (sc n : ℝ) = (n : ℝ) := rfl
@[simp] theorem zero_real : (zero : ℝ) = 0 := by simp [zero]
@[simp] theorem one_real : (one : ℝ) = 1 := by simp [one]
@[simp] theorem two_real : (two : ℝ) = 2 := by simp [two]
@[simp] theorem pi_real : (π : ℝ) = Real.pi := rfl
@[simp] theorem half_real : (half : ℝ) = 1 / 2 := by simp [half]
@[simp] theorem absS_real (x : ℝ) : absS x = |x| := rfl
@[simp] theorem trig_sin_real (x : ℝ) : Trig.sin x = Real.sin x := rfl
@[simp] theorem trig_cos_real (x : ℝ) : Trig.cos x = Real.cos x := rfl
@[simp] theorem trig_tan_real (x : ℝ) : Trig.tan x = Real.tan x := rfl
@[simp] theorem trig_acos_real (x : ℝ) : Trig.acos x = Real.arccos x := rfl
@[simp] theorem trig_sqrt_real (x : ℝ) : Trig.sqrt x = Real.sqrt x := rfl
@[simp] theorem trig_atan2_real (y x : ℝ) : Trig.atan2 y x = Complex.arg ⟨x, y⟩ := rfl
@[simp] theorem trig_floor_real (x : ℝ) : Trig.floor x = (⌊x⌋ : ℝ) := rfl
@[simp] theorem trig_abs_real (x : ℝ) : Trig.abs x = |x| := rfl
@[simp] theorem trig_pi_real : (Trig.pi : ℝ) = Real.pi := rfl
theorem trig_copysign_real (x y : ℝ) : Trig.copysign x y = if 0 ≤ y then |x| else -|x| := rfl
@[simp] theorem trig_finite_real (x : ℝ) : Trig.finite x = true := rfl
theorem maxS_real (x y : ℝ) : maxS x y = max x y := by
  unfold maxS; split_ifs with h
  · exact (max_eq_right h.le).symm
  · exact (max_eq_left (not_lt.mp h)).symm
theorem minS_real (x y : ℝ) : minS x y = min x y := by
  unfold minS; split_ifs with h
  · exact (min_eq_right h.le).symm
  · exact (min_eq_left (not_lt.mp h)).symm
end OSq
