import OSq.Proofs.SplitOn
/-
  OSq.Sem.Grammar — a *specification* reader for exactly the sub-language of cQASM 3 / cQASM 1 that the writers
  of `OSq/Model/Text.lean` (`writeStmt`, `writeCircuit`, `exportV1Stmt`, `exportV1`; Python `writer/writer.py`,
  `exporter/cqasmv1_exporter.py`) emit.  It is not a general cQASM parser: it accepts one statement per line, in
  the writers' layout, and nothing else.  Core Lean only (plus the `String.splitOn` bridge of
  `OSq/Proofs/SplitOn.lean`); everything works on `List Char`.
  The round-trip theorems (reading what the writers write gives back the statements) are in
  `OSq/Proofs/RoundTrip.lean` (properties C04, C12, C20).

  Lexical classes
  * identifier      `isIdent`      non-empty, letters / digits / `_`
  * parameter token `isParamTok`   non-empty, none of `,` `(` `)` `[` `]`, no white space (space, newline, tab,
                                   carriage return)  — the float / int renderings are such tokens
  * natural, integer  `Gram.readNat`, `Gram.readInt`   `d+`, `[-]d+`

  cQASM 3 lines (`readLine3`)            result (`Line3`)
    (empty)                               `blank`
    `version 3.0`                         `version`
    `qubit[N] q`, `bit[M] b`              `decl true N`, `decl false M`
    `/* text */`                          `comment text`      (text must not contain the terminator `*/`)
    `b[i] = name q[j]`                    `measure i name j`
    `name q[i], q[j], …`  (≥ 1 operand)   `gate name [] [i, j, …]`   (also a reset: the caller classifies by name,
                                                                       `Line3.classify`)
    `name(p1, p2, …) q[i], q[j], …`       `gate name [p1, p2, …] [i, j, …]`
  `readProgram3` splits the text at `'\n'`, reads every line (all must be readable), drops the blank lines and
  expects `version`, the qubit declaration, optionally the bit declaration (absent ⇒ 0 bits), then statements only.

  cQASM 1 lines (`readLine1`)            result (`Line1`)
    (empty), `version 1.0`, `/* text */`  `blank`, `version`, `comment text`
    `qubits N`                            `qubits N`
    `name q[i], q[j], …, p1, p2, …`       `instr name [i, j, …] [p1, p2, …]`   (≥ 1 qubit, qubits first)
  `readProgram1`: `version`, optionally `qubits N` (absent ⇒ 0), then instructions / comments only.

  `readProgram3_eq_splitOn`, `readProgram1_eq_splitOn`: the line splitting is `String.splitOn "\n"`.
-/
namespace OSq

/-! ### Results -/

/-- one line of the written cQASM 3 text -/
inductive Line3
  | decl (isQubit : Bool) (size : Nat)
  | gate (name : String) (params : List String) (qubits : List Int)
  | measure (bit : Int) (name : String) (qubit : Int)
  | reset (name : String) (qubit : Int)
  | comment (text : String)
  | version
  | blank
deriving DecidableEq, Repr, Inhabited

/-- one line of the exported cQASM 1 text -/
inductive Line1
  | qubits (n : Nat)
  | instr (name : String) (qubits : List Int) (params : List String)
  | comment (text : String)
  | version
  | blank
deriving DecidableEq, Repr, Inhabited

def Line3.isBlank : Line3 → Bool
  | .blank => true
  | _ => false

def Line3.isStmt : Line3 → Bool
  | .gate .. | .measure .. | .reset .. | .comment _ => true
  | _ => false

def Line1.isBlank : Line1 → Bool
  | .blank => true
  | _ => false

def Line1.isStmt : Line1 → Bool
  | .instr .. | .comment _ => true
  | _ => false

namespace Gram

/-! ### Character-list helpers -/

/-- remove the fixed prefix `p` -/
def stripPrefix : List Char → List Char → Option (List Char)
  | [], l => some l
  | _ :: _, [] => none
  | p :: ps, x :: xs => if p = x then stripPrefix ps xs else none

/-- remove the fixed suffix `s` -/
def stripSuffix (s l : List Char) : Option (List Char) :=
  (stripPrefix s.reverse l.reverse).map List.reverse

/-- split at the first occurrence of `c` (which is dropped) -/
def splitAt1 (c : Char) : List Char → Option (List Char × List Char)
  | [] => none
  | x :: t => if x = c then some ([], t) else (splitAt1 c t).map fun r => (x :: r.1, r.2)

/-- split at `", "`: split at every comma and demand the space behind it -/
def splitCommaSp (l : List Char) : Option (List (List Char)) :=
  match l.splitOn ',' with
  | [] => none
  | h :: r => (r.mapM (stripPrefix [' '])).map (h :: ·)

/-! ### Lexical classes -/

def isIdentChar (c : Char) : Bool := c.isAlphanum || c == '_'
def isIdentL (l : List Char) : Bool := !l.isEmpty && l.all isIdentChar

def isParamChar (c : Char) : Bool :=
  !(c == ',' || c == '(' || c == ')' || c == '[' || c == ']' || c == ' ' || c == '\n' || c == '\t' || c == '\r')
def isParamTokL (l : List Char) : Bool := !l.isEmpty && l.all isParamChar

/-- `d+` -/
def readNat (l : List Char) : Option Nat :=
  if !l.isEmpty && l.all Char.isDigit then some (Nat.ofDigitChars 10 l 0) else none

/-- `[-]d+` -/
def readInt : List Char → Option Int
  | [] => none
  | c :: t => if c = '-' then (readNat t).map (fun (n : Nat) => -(n : Int)) else (readNat (c :: t)).map Int.ofNat

/-- `r[i]` for the register letter `r` -/
def readIndexed (reg : Char) (l : List Char) : Option Int :=
  (stripPrefix [reg, '['] l).bind fun t => (stripSuffix [']'] t).bind readInt

/-- `q[i], q[j], …` -/
def readQubits (l : List Char) : Option (List Int) :=
  (splitCommaSp l).bind fun toks => toks.mapM (readIndexed 'q')

/-- `/* text */`, the text free of `*/` -/
def readCommentText (l : List Char) : Option String :=
  (stripPrefix "/* ".toList l).bind fun r => (stripSuffix " */".toList r).bind fun t =>
    if hasPair '*' '/' t then none else some (String.ofList t)

/-! ### cQASM 3 -/

/-- `w[idx]rest` with `w ∈ {qubit, bit, b}` -/
def readBracket3 (w r : List Char) : Option Line3 :=
  (splitAt1 ']' r).bind fun p =>
    if w = "qubit".toList then (if p.2 = " q".toList then (readNat p.1).map (Line3.decl true) else none)
    else if w = "bit".toList then (if p.2 = " b".toList then (readNat p.1).map (Line3.decl false) else none)
    else if w = "b".toList then
      (readInt p.1).bind fun b => (stripPrefix " = ".toList p.2).bind fun r2 =>
        if isIdentL (r2.takeWhile isIdentChar) then
          (stripPrefix [' '] (r2.dropWhile isIdentChar)).bind fun r3 =>
            (readIndexed 'q' r3).map fun q => Line3.measure b (String.ofList (r2.takeWhile isIdentChar)) q
        else none
    else none

/-- `w(p1, p2, …) q[i], …` after the opening parenthesis -/
def readParamGate3 (w r : List Char) : Option Line3 :=
  (splitAt1 ')' r).bind fun p =>
    (splitCommaSp p.1).bind fun toks =>
      if toks.all isParamTokL then
        (stripPrefix [' '] p.2).bind fun qs =>
          (readQubits qs).bind fun q =>
            if q.isEmpty then none else some (Line3.gate (String.ofList w) (toks.map String.ofList) q)
      else none

/-- one line: dispatch on the leading identifier `w` and the character behind it -/
def readLine3L (l : List Char) : Option Line3 :=
  let w := l.takeWhile isIdentChar
  match l.dropWhile isIdentChar with
  | [] => if w.isEmpty then some Line3.blank else none
  | c :: r =>
    if c = '/' then (if w.isEmpty then (readCommentText l).map Line3.comment else none)
    else if w.isEmpty then none
    else if c = ' ' then
      match readQubits r with
      | some q => if q.isEmpty then none else some (Line3.gate (String.ofList w) [] q)
      | none => if l = "version 3.0".toList then some Line3.version else none
    else if c = '[' then readBracket3 w r
    else if c = '(' then readParamGate3 w r
    else none

/-- an optional leading bit declaration -/
def splitBitDecl : List Line3 → Nat × List Line3
  | .decl false m :: r => (m, r)
  | r => (0, r)

/-- register sizes and statements from the lines of a program -/
def collect3 (ls : List Line3) : Option (Nat × Nat × List Line3) :=
  match ls.filter (fun x => !x.isBlank) with
  | .version :: .decl true n :: rest =>
      if (splitBitDecl rest).2.all Line3.isStmt then some (n, (splitBitDecl rest).1, (splitBitDecl rest).2)
      else none
  | _ => none

/-! ### cQASM 1 -/

/-- `q[i], q[j], …, p1, p2, …`: at least one qubit, qubits first, then parameter tokens -/
def readOperands1 (l : List Char) : Option (List Int × List String) :=
  (splitCommaSp l).bind fun toks =>
    let qs := toks.takeWhile fun t => (readIndexed 'q' t).isSome
    let ps := toks.dropWhile fun t => (readIndexed 'q' t).isSome
    if qs.isEmpty then none
    else if ps.all isParamTokL then (qs.mapM (readIndexed 'q')).map fun q => (q, ps.map String.ofList)
    else none

def readLine1L (l : List Char) : Option Line1 :=
  let w := l.takeWhile isIdentChar
  match l.dropWhile isIdentChar with
  | [] => if w.isEmpty then some Line1.blank else none
  | c :: r =>
    if c = '/' then (if w.isEmpty then (readCommentText l).map Line1.comment else none)
    else if w.isEmpty then none
    else if c = ' ' then
      match readOperands1 r with
      | some qp => some (Line1.instr (String.ofList w) qp.1 qp.2)
      | none =>
        if l = "version 1.0".toList then some Line1.version
        else if w = "qubits".toList then (readNat r).map Line1.qubits
        else none
    else none

/-- an optional leading `qubits N` line -/
def splitQubitsDecl : List Line1 → Nat × List Line1
  | .qubits n :: r => (n, r)
  | r => (0, r)

def collect1 (ls : List Line1) : Option (Nat × List Line1) :=
  match ls.filter (fun x => !x.isBlank) with
  | .version :: rest =>
      if (splitQubitsDecl rest).2.all Line1.isStmt then some ((splitQubitsDecl rest).1, (splitQubitsDecl rest).2)
      else none
  | _ => none

/-- read every `'\n'`-separated line; all must be readable -/
def readLines {β : Type} (rd : List Char → Option β) (l : List Char) : Option (List β) :=
  (l.splitOn '\n').mapM rd

end Gram

/-! ### The readers -/

/-- non-empty, letters / digits / underscore -/
def isIdent (s : String) : Bool := Gram.isIdentL s.toList
/-- non-empty, no comma, parenthesis, bracket, white space -/
def isParamTok (s : String) : Bool := Gram.isParamTokL s.toList

/-- read one line of written cQASM 3 -/
def readLine3 (s : String) : Option Line3 := Gram.readLine3L s.toList

/-- read a written cQASM 3 program: `(qubit register size, bit register size, statement lines in order)` -/
def readProgram3 (s : String) : Option (Nat × Nat × List Line3) :=
  (Gram.readLines Gram.readLine3L s.toList).bind Gram.collect3

/-- read one line of exported cQASM 1 -/
def readLine1 (s : String) : Option Line1 := Gram.readLine1L s.toList

/-- read an exported cQASM 1 program: `(qubit register size, instruction lines in order)` -/
def readProgram1 (s : String) : Option (Nat × List Line1) :=
  (Gram.readLines Gram.readLine1L s.toList).bind Gram.collect1

/-- classification of a parameter-free one-operand line as a reset by its name -/
def Line3.classify (isReset : String → Bool) : Line3 → Line3
  | .gate name [] [q] => if isReset name then .reset name q else .gate name [] [q]
  | l => l

/-- the lines are those of `String.splitOn "\n"` -/
theorem readProgram3_eq_splitOn (s : String) :
    readProgram3 s = ((s.splitOn "\n").mapM readLine3).bind Gram.collect3 := by
  have h : readLine3 ∘ String.ofList = Gram.readLine3L := by
    funext l; simp only [Function.comp, readLine3, String.toList_ofList]
  rw [splitOn_char s "\n" '\n' rfl, List.mapM_map, h]
  rfl

theorem readProgram1_eq_splitOn (s : String) :
    readProgram1 s = ((s.splitOn "\n").mapM readLine1).bind Gram.collect1 := by
  have h : readLine1 ∘ String.ofList = Gram.readLine1L := by
    funext l; simp only [Function.comp, readLine1, String.toList_ofList]
  rw [splitOn_char s "\n" '\n' rfl, List.mapM_map, h]
  rfl

/-! ### Examples (the texts are outputs of the writers, cf. the examples of `OSq/Proofs/Writer.lean`) -/

example : readLine3 "CRk(<7>, -3) q[1], q[0]" = some (.gate "CRk" ["<7>", "-3"] [1, 0]) := by decide
example : readLine3 "b[0] = measure q[2]" = some (.measure 0 "measure" 2) := by decide
example : readLine3 "reset q[1]" = some (.gate "reset" [] [1]) := by decide
example : (Line3.gate "reset" [] [1]).classify (· == "reset") = .reset "reset" 1 := by decide
example : readLine3 "/* a comment */" = some (.comment "a comment") := by decide
example : readLine3 "/* evil */ X q[0] /* */" = none := by decide
example : readLine3 "Rz(1.0e-05) q[0]" = some (.gate "Rz" ["1.0e-05"] [0]) := by decide
example : readLine3 "Rz (1.0) q[0]" = none := by decide
example : readLine3 "H q[0] " = none := by decide
example : readProgram3 "version 3.0\n\nqubit[2] q\nbit[1] b\n\nRz(3) q[0]\n\n/* c */\n\nb[0] = measure q[0]\n"
    = some (2, 1, [.gate "Rz" ["3"] [0], .comment "c", .measure 0 "measure" 0]) := by decide
example : readProgram3 "version 3.0\n\nqubit[2] q\n\nH q[0]\n" = some (2, 0, [.gate "H" [] [0]]) := by decide
example : readProgram3 "version 3.0\n\nH q[0]\n" = none := by decide
example : readLine1 "crk q[1], q[0], 4" = some (.instr "crk" [1, 0] ["4"]) := by decide
example : readProgram1 "version 1.0\n\nqubits 2\n\nrz q[0], 3\nmeasure_z q[0]\nprep_z q[1]\n"
    = some (2, [.instr "rz" [0] ["3"], .instr "measure_z" [0] [], .instr "prep_z" [1] []]) := by decide
example : readProgram1 "version 1.0\n\n\n\n/* only a comment */\n" = some (0, [.comment "only a comment"]) := by
  decide

end OSq

#print axioms OSq.readProgram3_eq_splitOn
#print axioms OSq.readProgram1_eq_splitOn
