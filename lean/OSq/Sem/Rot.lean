import OSq.Model.Matrix
import OSq.Sem.RealScalar
import OSq.Proofs.MatBasic
import Mathlib.Analysis.SpecialFunctions.Trigonometric.Basic
import Mathlib.LinearAlgebra.Matrix.Notation
import Mathlib.LinearAlgebra.UnitaryGroup
import Mathlib.Algebra.BigOperators.Fin
import Mathlib.Tactic.Ring
import Mathlib.Tactic.FinCases
/-
  OSq.Sem.Rot — the textbook semantics of a single-qubit gate and the bridge from the model's
  matrices (`OSq.Mat ℝ`, entries `OSq.Cx ℝ`) to Mathlib's `Matrix (Fin n) (Fin n) ℂ`.

  Definitions
  * `Cx.toC : Cx ℝ → ℂ`                         model complex number ↦ Mathlib complex number
  * `Mat.toMatrixOn n m : Matrix (Fin n) (Fin n) ℂ`  entries of `m` through `Mat.get` (any `n`; no casts)
  * `Mat.toMatrix m : Matrix (Fin m.n) (Fin m.n) ℂ`  `= m.toMatrixOn m.n`
  * `Sem.σx σy σz`, `Sem.nσ n = n.1•σx + n.2.1•σy + n.2.2•σz`
  * `Sem.rot n θ φ = exp(iφ) • (cos(θ/2) • 1 − (i sin(θ/2)) • nσ n)`

  Theorems (bridge)
  * `Cx.toC_zero/one/add/sub/mul/ofReal/smul/expI`  `toC` is a ring morphism; `expI φ ↦ exp(iφ)`
  * `Cx.toC_injective`
  * `Mat.toC_dotRow`            the fold in `Mat.dotRow` is the finite sum `∑ k, a i k * b k j`
  * `Mat.toMatrixOn_mul`        `(a.mul b).toMatrixOn a.n = a.toMatrixOn a.n * b.toMatrixOn a.n`
  * `Mat.toMatrixOn_mul'`       same at any `n` with `a.n = n`
  * `Mat.toMatrix_mul`          `b.n = a.n → (a.mul b).toMatrix = a.toMatrix * b.toMatrix` (up to `Fin.cast`)
  * `Mat.toMatrixOn_identity`, `Mat.toMatrix_identity`   the model identity is `1`
  * `Mat.toMatrixOn_smul`, `Mat.toMatrixOn_ofFn`

  Theorems (specification)
  * `Sem.nσ_eq`, `Sem.rot_eq`   explicit 2×2 entries
  * `Sem.nσ_conjTranspose`      `n·σ` is Hermitian;   `Sem.nσ_mul_self`: `(n·σ)² = 1` for a unit axis
  * `Sem.rot_conjTranspose_mul_self`, `Sem.rot_mul_conjTranspose_self`, `Sem.rot_unitary`
                                `rot n θ φ` is unitary for a unit axis
  * `Sem.rot_add_two_pi`        `rot n (θ + 2π) φ = - rot n θ φ`
  * `Sem.rot_add_int_mul_two_pi`        `rot n (θ + 2πk) φ = (-1)^k • rot n θ φ`
  * `Sem.rot_add_int_mul_two_pi_cases`  the same split by the parity of `k`
  * `Sem.rot_phase_add_two_pi`, `Sem.rot_phase_add_int_mul_two_pi`   the phase is `2π`-periodic
  * `Sem.rot_neg_neg`           `rot (-n) (-θ) φ = rot n θ φ`
  * `Sem.rot_zero`              `rot n 0 0 = 1`;  `Sem.rot_angle_zero`: `rot n 0 φ = exp(iφ) • 1`
-/
open Matrix

namespace OSq

/-! ### Bridge: model complex numbers / matrices → Mathlib -/

/-- A model complex number over `ℝ` read as a Mathlib complex number. -/
def Cx.toC (z : Cx ℝ) : ℂ := ⟨z.re, z.im⟩

namespace Cx
@[simp] theorem toC_re (z : Cx ℝ) : z.toC.re = z.re := rfl
@[simp] theorem toC_im (z : Cx ℝ) : z.toC.im = z.im := rfl
@[simp] theorem toC_mk (x y : ℝ) : (Cx.mk x y).toC = ⟨x, y⟩ := rfl
@[simp] theorem toC_zero : (Cx.zero : Cx ℝ).toC = 0 := by
  apply Complex.ext <;> simp [Cx.zero]
@[simp] theorem toC_one : (Cx.one : Cx ℝ).toC = 1 := by
  apply Complex.ext <;> simp [Cx.one]
@[simp] theorem toC_add (a b : Cx ℝ) : (a + b).toC = a.toC + b.toC := by
  apply Complex.ext <;> rfl
@[simp] theorem toC_sub (a b : Cx ℝ) : (a - b).toC = a.toC - b.toC := by
  apply Complex.ext <;> rfl
@[simp] theorem toC_mul (a b : Cx ℝ) : (a * b).toC = a.toC * b.toC := by
  apply Complex.ext
  · rfl
  · show a.re * b.im + a.im * b.re = _
    simp [Complex.mul_im]
@[simp] theorem toC_ofReal (x : ℝ) : (Cx.ofReal x).toC = (x : ℂ) := by
  apply Complex.ext <;> simp [Cx.ofReal]
@[simp] theorem toC_smul (x : ℝ) (a : Cx ℝ) : (Cx.smul x a).toC = (x : ℂ) * a.toC := by
  apply Complex.ext <;> simp [Cx.smul]
/-- `cmath.rect(1, φ)` is `e^{iφ}`. -/
@[simp] theorem toC_expI (φ : ℝ) : (Cx.expI φ).toC = Complex.exp (Complex.I * φ) := by
  rw [mul_comm]
  apply Complex.ext
  · simp [Cx.expI, Complex.exp_ofReal_mul_I_re]
  · simp [Cx.expI, Complex.exp_ofReal_mul_I_im]
theorem toC_injective : Function.Injective Cx.toC := by
  rintro ⟨a, b⟩ ⟨c, d⟩ h
  have h1 := congrArg Complex.re h
  have h2 := congrArg Complex.im h
  simp at h1 h2
  subst h1; subst h2; rfl
end Cx

namespace Mat

/-- The model matrix `m` read as an `n × n` Mathlib matrix (entries through `Mat.get`).  Meaningful
    when `m.n = n`; keeping `n` a free parameter avoids dependent casts. -/
noncomputable def toMatrixOn (n : Nat) (m : Mat ℝ) : Matrix (Fin n) (Fin n) ℂ := fun i j => (m.get i j).toC

/-- The model matrix as a Mathlib matrix of its own dimension. -/
noncomputable def toMatrix (m : Mat ℝ) : Matrix (Fin m.n) (Fin m.n) ℂ := m.toMatrixOn m.n

theorem toMatrix_apply (m : Mat ℝ) (i j : Fin m.n) : m.toMatrix i j = (m.get i j).toC := rfl
theorem toMatrixOn_apply (n : Nat) (m : Mat ℝ) (i j : Fin n) :
    m.toMatrixOn n i j = (m.get i j).toC := rfl
theorem toMatrix_eq_toMatrixOn (m : Mat ℝ) : m.toMatrix = m.toMatrixOn m.n := rfl

/-- the fold in `Mat.dotRow` is a finite sum -/
theorem toC_foldl_range (f : Nat → Cx ℝ) (n : Nat) :
    ((List.range n).foldl (fun acc k => acc + f k) Cx.zero).toC = ∑ k : Fin n, (f k).toC := by
  induction n with
  | zero => simp
  | succ n ih =>
    rw [List.range_succ, List.foldl_append, List.foldl_cons, List.foldl_nil, Cx.toC_add, ih,
      Fin.sum_univ_castSucc]
    rfl

theorem toC_dotRow (a b : Mat ℝ) (i j : Nat) :
    (Mat.dotRow a b i j).toC = ∑ k : Fin a.n, (a.get i k).toC * (b.get k j).toC := by
  unfold Mat.dotRow
  rw [toC_foldl_range (fun k => a.get i k * b.get k j)]
  simp

/-- The model product is the Mathlib matrix product (both read at dimension `a.n`). -/
theorem toMatrixOn_mul (a b : Mat ℝ) :
    (Mat.mul a b).toMatrixOn a.n = a.toMatrixOn a.n * b.toMatrixOn a.n := by
  ext i j
  rw [toMatrixOn_apply, Mat.get_mul a b i.isLt j.isLt, toC_dotRow, Matrix.mul_apply]
  rfl

/-- Same, with the dimension given by a hypothesis. -/
theorem toMatrixOn_mul' {n : Nat} (a b : Mat ℝ) (ha : a.n = n) :
    (Mat.mul a b).toMatrixOn n = a.toMatrixOn n * b.toMatrixOn n := by
  subst ha; exact toMatrixOn_mul a b

/-- `Mat.mul` = Mathlib matrix product when both factors have the same dimension. -/
theorem toMatrix_mul (a b : Mat ℝ) (h : b.n = a.n) :
    (Mat.mul a b).toMatrix
      = a.toMatrix * b.toMatrix.submatrix (Fin.cast h.symm) (Fin.cast h.symm) :=
  toMatrixOn_mul a b

theorem toMatrixOn_identity (n : Nat) : (Mat.identity n : Mat ℝ).toMatrixOn n = 1 := by
  ext i j
  rw [toMatrixOn_apply, Mat.get_identity i.isLt j.isLt, Matrix.one_apply]
  by_cases h : i = j
  · subst h; simp
  · have : (i : Nat) ≠ j := fun e => h (Fin.ext e)
    simp [h, this]

theorem toMatrix_identity (n : Nat) : (Mat.identity n : Mat ℝ).toMatrix = 1 :=
  toMatrixOn_identity n

theorem toMatrixOn_smul (z : Cx ℝ) (a : Mat ℝ) :
    (Mat.smul z a).toMatrixOn a.n = z.toC • a.toMatrixOn a.n := by
  ext i j
  rw [toMatrixOn_apply, Mat.get_smul z a i.isLt j.isLt]
  simp [toMatrixOn_apply]

theorem toMatrixOn_ofFn (n : Nat) (f : Nat → Nat → Cx ℝ) :
    (Mat.ofFn n f).toMatrixOn n = fun (i j : Fin n) => (f i j).toC := by
  ext i j
  rw [toMatrixOn_apply, Mat.get_ofFn i.isLt j.isLt]

end Mat

namespace Sem
open Complex

/-! ### Specification: the single-qubit operator -/

def σx : Matrix (Fin 2) (Fin 2) ℂ := !![0, 1; 1, 0]
def σy : Matrix (Fin 2) (Fin 2) ℂ := !![0, -I; I, 0]
def σz : Matrix (Fin 2) (Fin 2) ℂ := !![1, 0; 0, -1]

/-- `n · σ` -/
def nσ (n : ℝ × ℝ × ℝ) : Matrix (Fin 2) (Fin 2) ℂ :=
  (n.1 : ℂ) • σx + (n.2.1 : ℂ) • σy + (n.2.2 : ℂ) • σz

/-- `R_n(θ, φ) = e^{iφ} (cos(θ/2) I − i sin(θ/2) n·σ)` -/
noncomputable def rot (n : ℝ × ℝ × ℝ) (θ φ : ℝ) : Matrix (Fin 2) (Fin 2) ℂ :=
  Complex.exp (I * φ) •
    ((Real.cos (θ / 2) : ℂ) • (1 : Matrix (Fin 2) (Fin 2) ℂ)
      - (I * (Real.sin (θ / 2) : ℂ)) • nσ n)

theorem nσ_eq (n : ℝ × ℝ × ℝ) :
    nσ n = !![(n.2.2 : ℂ), n.1 - I * n.2.1; n.1 + I * n.2.1, -(n.2.2 : ℂ)] := by
  ext i j
  fin_cases i <;> fin_cases j <;> simp [nσ, σx, σy, σz] <;> ring

/-- explicit entries of `rot` -/
theorem rot_eq (n : ℝ × ℝ × ℝ) (θ φ : ℝ) :
    rot n θ φ = Complex.exp (I * φ) •
      !![(Real.cos (θ / 2) : ℂ) - I * Real.sin (θ / 2) * n.2.2,
          -(I * Real.sin (θ / 2) * n.1) - Real.sin (θ / 2) * n.2.1;
         -(I * Real.sin (θ / 2) * n.1) + Real.sin (θ / 2) * n.2.1,
          (Real.cos (θ / 2) : ℂ) + I * Real.sin (θ / 2) * n.2.2] := by
  unfold rot
  rw [nσ_eq]
  congr 1
  ext i j
  fin_cases i <;> fin_cases j <;> simp <;> ring_nf
  all_goals simp [Complex.I_sq]
  all_goals ring

theorem nσ_conjTranspose (n : ℝ × ℝ × ℝ) : (nσ n)ᴴ = nσ n := by
  rw [nσ_eq]
  ext i j
  fin_cases i <;> fin_cases j <;> simp [Matrix.conjTranspose_apply]
  ring

theorem nσ_mul_self (n : ℝ × ℝ × ℝ) (h : n.1 ^ 2 + n.2.1 ^ 2 + n.2.2 ^ 2 = 1) :
    nσ n * nσ n = 1 := by
  have hc : ((n.1 : ℂ)) ^ 2 + (n.2.1 : ℂ) ^ 2 + (n.2.2 : ℂ) ^ 2 = 1 := by exact_mod_cast h
  rw [nσ_eq]
  ext i j
  fin_cases i <;> fin_cases j <;> simp [Matrix.mul_apply, Fin.sum_univ_two]
  · linear_combination hc - (n.2.1 : ℂ) ^ 2 * Complex.I_sq
  · ring
  · ring
  · linear_combination hc - (n.2.1 : ℂ) ^ 2 * Complex.I_sq

theorem nσ_neg (n : ℝ × ℝ × ℝ) : nσ (-n) = - nσ n := by
  simp [nσ]; abel

/-- `R_n(θ, φ)` is unitary for a unit axis. -/
theorem rot_conjTranspose_mul_self (n : ℝ × ℝ × ℝ) (θ φ : ℝ)
    (h : n.1 ^ 2 + n.2.1 ^ 2 + n.2.2 ^ 2 = 1) : (rot n θ φ)ᴴ * rot n θ φ = 1 := by
  have hcs : ((Real.cos (θ / 2) : ℂ)) ^ 2 + (Real.sin (θ / 2) : ℂ) ^ 2 = 1 := by
    exact_mod_cast Real.cos_sq_add_sin_sq (θ / 2)
  have he : (starRingEnd ℂ) (Complex.exp (I * φ)) * Complex.exp (I * φ) = 1 := by
    rw [← Complex.exp_conj, ← Complex.exp_add]; simp
  unfold rot
  rw [Matrix.conjTranspose_smul, Matrix.conjTranspose_sub, Matrix.conjTranspose_smul,
    Matrix.conjTranspose_smul, nσ_conjTranspose, Matrix.conjTranspose_one]
  simp only [smul_mul_assoc, mul_smul_comm, Matrix.sub_mul, Matrix.mul_sub, Matrix.mul_one,
    Matrix.one_mul, nσ_mul_self n h, smul_sub, smul_smul, star_def, map_mul, Complex.conj_I,
    Complex.conj_ofReal]
  rw [show ∀ a b c d : Matrix (Fin 2) (Fin 2) ℂ, a - b - (c - d) = a + d - (b + c) from
    fun a b c d => by abel]
  rw [← add_smul, ← add_smul]
  have h1 : Complex.exp (I * φ) * (Real.cos (θ / 2) : ℂ)
        * ((starRingEnd ℂ) (Complex.exp (I * φ)) * (Real.cos (θ / 2) : ℂ))
      + Complex.exp (I * φ) * (I * (Real.sin (θ / 2) : ℂ))
        * ((starRingEnd ℂ) (Complex.exp (I * φ)) * (-I * (Real.sin (θ / 2) : ℂ))) = 1 := by
    linear_combination ((Real.cos (θ / 2) : ℂ) ^ 2 - I ^ 2 * (Real.sin (θ / 2) : ℂ) ^ 2) * he + hcs
      - (Real.sin (θ / 2) : ℂ) ^ 2 * Complex.I_sq
  have h2 : Complex.exp (I * φ) * (Real.cos (θ / 2) : ℂ)
        * ((starRingEnd ℂ) (Complex.exp (I * φ)) * (-I * (Real.sin (θ / 2) : ℂ)))
      + Complex.exp (I * φ) * (I * (Real.sin (θ / 2) : ℂ))
        * ((starRingEnd ℂ) (Complex.exp (I * φ)) * (Real.cos (θ / 2) : ℂ)) = 0 := by ring
  rw [h1, h2, one_smul, zero_smul, sub_zero]

theorem rot_unitary (n : ℝ × ℝ × ℝ) (θ φ : ℝ) (h : n.1 ^ 2 + n.2.1 ^ 2 + n.2.2 ^ 2 = 1) :
    rot n θ φ ∈ Matrix.unitaryGroup (Fin 2) ℂ := by
  rw [Matrix.mem_unitaryGroup_iff']
  exact rot_conjTranspose_mul_self n θ φ h

theorem rot_mul_conjTranspose_self (n : ℝ × ℝ × ℝ) (θ φ : ℝ)
    (h : n.1 ^ 2 + n.2.1 ^ 2 + n.2.2 ^ 2 = 1) : rot n θ φ * (rot n θ φ)ᴴ = 1 :=
  Matrix.mem_unitaryGroup_iff.mp (rot_unitary n θ φ h)

/-- A full turn of the rotation angle flips the sign of the operator (spinor double cover). -/
theorem rot_add_two_pi (n : ℝ × ℝ × ℝ) (θ φ : ℝ) : rot n (θ + 2 * Real.pi) φ = - rot n θ φ := by
  unfold rot
  rw [show (θ + 2 * Real.pi) / 2 = θ / 2 + Real.pi by ring, Real.cos_add_pi, Real.sin_add_pi]
  push_cast
  rw [← smul_neg]
  congr 1
  rw [neg_smul, mul_neg, neg_smul]
  abel

theorem rot_sub_two_pi (n : ℝ × ℝ × ℝ) (θ φ : ℝ) : rot n (θ - 2 * Real.pi) φ = - rot n θ φ := by
  have := rot_add_two_pi n (θ - 2 * Real.pi) φ
  rw [sub_add_cancel] at this
  rw [this, neg_neg]

/-- Shifting the angle by `2πk` multiplies the operator by `(-1)^k`. -/
theorem rot_add_int_mul_two_pi (n : ℝ × ℝ × ℝ) (θ φ : ℝ) (k : ℤ) :
    rot n (θ + 2 * Real.pi * k) φ = ((-1 : ℂ) ^ k) • rot n θ φ := by
  induction k using Int.induction_on with
  | zero => simp
  | succ k ih =>
    rw [show θ + 2 * Real.pi * ((k : ℤ) + 1 : ℤ) = (θ + 2 * Real.pi * (k : ℤ)) + 2 * Real.pi by
      push_cast; ring, rot_add_two_pi, ih, zpow_add₀ (by norm_num : (-1 : ℂ) ≠ 0)]
    simp
  | pred k ih =>
    rw [show θ + 2 * Real.pi * ((-(k : ℤ) - 1 : ℤ)) = (θ + 2 * Real.pi * (-(k : ℤ) : ℤ)) - 2 * Real.pi by
      push_cast; ring, rot_sub_two_pi, ih, zpow_sub₀ (by norm_num : (-1 : ℂ) ≠ 0)]
    simp [div_neg, neg_smul]

theorem rot_add_int_mul_two_pi_cases (n : ℝ × ℝ × ℝ) (θ φ : ℝ) (k : ℤ) :
    (Even k ∧ rot n (θ + 2 * Real.pi * k) φ = rot n θ φ)
      ∨ (Odd k ∧ rot n (θ + 2 * Real.pi * k) φ = - rot n θ φ) := by
  rcases Int.even_or_odd k with hk | hk
  · left; refine ⟨hk, ?_⟩; rw [rot_add_int_mul_two_pi, hk.neg_one_zpow, one_smul]
  · right; refine ⟨hk, ?_⟩; rw [rot_add_int_mul_two_pi, hk.neg_one_zpow, neg_smul, one_smul]

/-- The global phase is `2π`-periodic. -/
theorem rot_phase_add_two_pi (n : ℝ × ℝ × ℝ) (θ φ : ℝ) : rot n θ (φ + 2 * Real.pi) = rot n θ φ := by
  unfold rot
  congr 1
  rw [show I * ((φ + 2 * Real.pi : ℝ) : ℂ) = I * φ + 2 * Real.pi * I by push_cast; ring,
    Complex.exp_add, Complex.exp_two_pi_mul_I, mul_one]

theorem rot_phase_add_int_mul_two_pi (n : ℝ × ℝ × ℝ) (θ φ : ℝ) (k : ℤ) :
    rot n θ (φ + 2 * Real.pi * k) = rot n θ φ := by
  unfold rot
  congr 1
  rw [show I * ((φ + 2 * Real.pi * k : ℝ) : ℂ) = I * φ + k * (2 * Real.pi * I) by push_cast; ring,
    Complex.exp_add, Complex.exp_int_mul_two_pi_mul_I, mul_one]

/-- Reversing both the axis and the angle gives the same operator. -/
theorem rot_neg_neg (n : ℝ × ℝ × ℝ) (θ φ : ℝ) : rot (-n) (-θ) φ = rot n θ φ := by
  unfold rot
  rw [nσ_neg, neg_div, Real.cos_neg, Real.sin_neg]
  push_cast
  simp

theorem rot_zero (n : ℝ × ℝ × ℝ) : rot n 0 0 = 1 := by
  simp [rot]

/-- more generally: angle `0` leaves only the phase -/
theorem rot_angle_zero (n : ℝ × ℝ × ℝ) (φ : ℝ) :
    rot n 0 φ = Complex.exp (I * φ) • (1 : Matrix (Fin 2) (Fin 2) ℂ) := by
  simp [rot]

/-! Non-vacuity: the `x`-axis is a unit axis, `rot` about it is unitary; a `2π` turn is `-1`. -/
example : rot (1, 0, 0) (Real.pi / 2) 0 ∈ Matrix.unitaryGroup (Fin 2) ℂ :=
  rot_unitary _ _ _ (by norm_num)
example : rot (0, 0, 1) (2 * Real.pi) 0 = -1 := by
  have := rot_add_two_pi (0, 0, 1) 0 0
  rw [zero_add, rot_zero] at this; exact this
example : rot (0, 0, -1) (-Real.pi) 0 = rot (0, 0, 1) Real.pi 0 := by
  have := rot_neg_neg (0, 0, 1) Real.pi 0
  simpa using this

end Sem
end OSq

#print axioms OSq.Mat.toMatrixOn_mul
#print axioms OSq.Mat.toMatrix_mul
#print axioms OSq.Mat.toMatrix_identity
#print axioms OSq.Sem.rot_unitary
#print axioms OSq.Sem.rot_add_two_pi
#print axioms OSq.Sem.rot_add_int_mul_two_pi
#print axioms OSq.Sem.rot_phase_add_int_mul_two_pi
#print axioms OSq.Sem.rot_neg_neg
#print axioms OSq.Sem.rot_zero
