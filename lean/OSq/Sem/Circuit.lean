import OSq.Sem.Rot
import OSq.Proofs.Expander
import Mathlib.Analysis.Complex.Norm
/-
  OSq.Sem.Circuit — the register-level *specification* of what a circuit means (at `ℝ`/`ℂ`, Mathlib matrices).

  Definitions
  * `Op n`                 `Matrix (Fin (2^n)) (Fin (2^n)) ℂ`: operators on an `n`-qubit register (qubit 0 = least
                           significant bit of the basis-state index).
  * `gateOp n g`           the textbook operator of a gate: entry `(r, c)` is `denote n g r c` (the bit-level embedding
                           of `OSq.Proofs.Expander`, proved there to be what the model's `expand` computes).
  * `measOp n q b`         projector `|b⟩⟨b|` on qubit `q`: entry `(r,c) = if r = c ∧ r.testBit q = b then 1 else 0`.
  * `resetOp n q b`        `|0⟩⟨b|` on qubit `q` (the Kraus operator of a reset whose pre-measurement gave `b`):
                           entry `(r,c) = if agreeOff n [q] r c ∧ c.testBit q = b ∧ r.testBit q = false then 1 else 0`.
  * `stmtOp n s b`         outcome-indexed statement semantics: gate ↦ `gateOp`, `measure q …` with outcome `b` ↦
                           `measOp`, `reset q` with pre-outcome `b` ↦ `resetOp`, comment ↦ `1`.
                           (The measurement axis stored in `Stmt.measure` is *not* interpreted: measurements are in the
                           computational basis, which is the only axis the cQASM front end produces; negative qubit
                           indices are read through `Int.toNat` — statements are meant to satisfy `Stmt.wf`.)
  * `Stmt.hasOutcome`, `nOutcomes`   measure / reset statements consume one outcome each.
  * `circOp n stmts o`     the state map of the circuit for the outcome assignment `o : List Bool`: product in program
                           order (later statements on the left); the `j`-th measure/reset statement consumes `o[j]`
                           (missing outcomes default to `false`).
  * `CircEquiv n s1 s2`    `∃ z : ℂ, ‖z‖ = 1 ∧ ∀ o, circOp n s1 o = z • circOp n s2 o` — the two circuits implement
                           the same operation up to ONE global phase for ALL outcome assignments.  (Called `Equiv` in the
                           design notes; renamed to avoid the clash with Mathlib's `Equiv`.)  The relation compares the
                           `j`-th outcome-consuming statement of `s1` with the `j`-th of `s2`; it is meant for lists with
                           the same non-gate subsequence: `SameBarriers s1 s2`.
  * `SameBarriers s1 s2`   `s1.filter (¬ isGate) = s2.filter (¬ isGate)`.

  Theorems
  * `expand_toMatrixOn`    `expand n g = .ok M → M.toMatrixOn (2^n) = gateOp n g`  (model matrix = specification)
  * `circuitMatrix_toMatrixOn`  for a list of gate statements, `circuitMatrix n stmts = .ok M →
                           M.toMatrixOn (2^n) = circOp n stmts o` (Python's `get_circuit_matrix` = specification)
  * `circOp_nil/_cons/_gate/_measure/_reset/_comment`   unfolding equations
  * `measOp_add`, `measOp_mul_self`, `measOp_mul_ne`   the two outcome projectors are complementary, idempotent, orthogonal
  * `resetOp_mul_measOp`   `resetOp q b * measOp q b = resetOp q b`, and `resetOp q b * measOp q (!b) = 0`
  * `CircEquiv.refl/.symm/.trans`, `circEquiv_equivalence`   `CircEquiv n` is an equivalence relation (symmetry uses `z⁻¹`)
  * `SameBarriers.refl/.symm/.trans`, `SameBarriers.nOutcomes`
-/
open Matrix

namespace OSq

/-- operators on an `n`-qubit register -/
abbrev Op (n : Nat) := Matrix (Fin (2 ^ n)) (Fin (2 ^ n)) ℂ

/-- the textbook operator of a gate on `n` qubits (`denote` of `OSq.Proofs.Expander`, read in `ℂ`) -/
noncomputable def gateOp (n : Nat) (g : Gate ℝ) : Op n := fun r c => (denote n g r.val c.val).toC

theorem gateOp_apply (n : Nat) (g : Gate ℝ) (r c : Fin (2 ^ n)) :
    gateOp n g r c = (denote n g r.val c.val).toC := rfl

/-- **the matrix the model computes is the specification** -/
theorem expand_toMatrixOn {n : Nat} {g : Gate ℝ} {M : Mat ℝ} (h : expand n g = .ok M) :
    M.toMatrixOn (2 ^ n) = gateOp n g := by
  ext r c
  rw [Mat.toMatrixOn_apply, (expand_spec h).2.2 r c r.isLt c.isLt]
  rfl

/-- projector `|b⟩⟨b|` on qubit `q` -/
def measOp (n q : Nat) (b : Bool) : Op n :=
  fun r c => if r = c ∧ r.val.testBit q = b then 1 else 0

/-- `|0⟩⟨b|` on qubit `q` -/
def resetOp (n q : Nat) (b : Bool) : Op n :=
  fun r c => if agreeOff n [q] r.val c.val ∧ c.val.testBit q = b ∧ r.val.testBit q = false then 1 else 0

/-- outcome-indexed semantics of one statement -/
noncomputable def stmtOp (n : Nat) : Stmt ℝ → Bool → Op n
  | .gate g _, _ => gateOp n g
  | .measure q _ _ _, b => measOp n q.toNat b
  | .reset q _, b => resetOp n q.toNat b
  | .comment _, _ => 1

/-- measure and reset statements consume one outcome -/
def Stmt.hasOutcome {α : Type} : Stmt α → Bool
  | .measure _ _ _ _ => true
  | .reset _ _ => true
  | _ => false

/-- number of outcomes a statement list consumes -/
def nOutcomes {α : Type} (l : List (Stmt α)) : Nat := l.countP Stmt.hasOutcome

/-- **the state map of a circuit for the outcome assignment `o`**: product in program order, later statements
    on the left; each measure / reset consumes the next outcome (default `false`). -/
noncomputable def circOp (n : Nat) : List (Stmt ℝ) → List Bool → Op n
  | [], _ => 1
  | s :: rest, o =>
    if s.hasOutcome then circOp n rest o.tail * stmtOp n s (o.headD false)
    else circOp n rest o * stmtOp n s false

/-- **same operation up to one global phase, for every combination of measurement / reset outcomes** -/
def CircEquiv (n : Nat) (s1 s2 : List (Stmt ℝ)) : Prop :=
  ∃ z : ℂ, ‖z‖ = 1 ∧ ∀ o, circOp n s1 o = z • circOp n s2 o

/-- the two lists have the same non-gate statements (measurements, resets, comments), in the same order -/
def SameBarriers {α : Type} (s1 s2 : List (Stmt α)) : Prop :=
  s1.filter (fun s => !s.isGate) = s2.filter (fun s => !s.isGate)

/-! ### unfolding -/

@[simp] theorem circOp_nil (n : Nat) (o : List Bool) : circOp n [] o = 1 := rfl

theorem circOp_cons (n : Nat) (s : Stmt ℝ) (rest : List (Stmt ℝ)) (o : List Bool) :
    circOp n (s :: rest) o =
      if s.hasOutcome then circOp n rest o.tail * stmtOp n s (o.headD false)
      else circOp n rest o * stmtOp n s false := rfl

@[simp] theorem circOp_gate (n : Nat) (g : Gate ℝ) (nm : Option (Named ℝ)) (rest : List (Stmt ℝ))
    (o : List Bool) : circOp n (.gate g nm :: rest) o = circOp n rest o * gateOp n g := rfl

@[simp] theorem circOp_comment (n : Nat) (c : String) (rest : List (Stmt ℝ)) (o : List Bool) :
    circOp n (.comment c :: rest) o = circOp n rest o := by
  simp [circOp_cons, Stmt.hasOutcome, stmtOp]

@[simp] theorem circOp_measure (n : Nat) (q b : Int) (ax : Vec3 ℝ) (nm : Option (Named ℝ))
    (rest : List (Stmt ℝ)) (o : List Bool) :
    circOp n (.measure q b ax nm :: rest) o = circOp n rest o.tail * measOp n q.toNat (o.headD false) := rfl

@[simp] theorem circOp_reset (n : Nat) (q : Int) (nm : Option (Named ℝ)) (rest : List (Stmt ℝ))
    (o : List Bool) :
    circOp n (.reset q nm :: rest) o = circOp n rest o.tail * resetOp n q.toNat (o.headD false) := rfl

/-- the uniform form: a statement consumes `nOutcomes [s]` outcomes -/
theorem circOp_cons' (n : Nat) (s : Stmt ℝ) (rest : List (Stmt ℝ)) (o : List Bool) :
    circOp n (s :: rest) o = circOp n rest (o.drop (nOutcomes [s])) * stmtOp n s (o.headD false) := by
  cases s <;> simp [nOutcomes, Stmt.hasOutcome, stmtOp]

/-! ### Python's `get_circuit_matrix` on a measurement-free circuit is `circOp` -/

theorem cmFold_toMatrixOn (n : Nat) (stmts : List (Stmt ℝ)) (hg : ∀ s ∈ stmts, s.isGate = true)
    (init M : Mat ℝ) (h : stmts.foldlM (cmStep n) init = .ok M) (o : List Bool) :
    M.toMatrixOn (2 ^ n) = circOp n stmts o * init.toMatrixOn (2 ^ n) := by
  induction stmts generalizing init with
  | nil =>
    simp only [List.foldlM, pure, Except.pure, Except.ok.injEq] at h
    subst h; simp
  | cons s rest ih =>
    cases s with
    | gate g nm =>
      rw [circuitMatrix_cons_gate_aux] at h
      cases hb : expand n g with
      | error e => rw [hb] at h; simp [bind, Except.bind] at h
      | ok b =>
        rw [hb] at h
        simp only [bind, Except.bind] at h
        rw [ih (fun s hs => hg s (List.mem_cons_of_mem _ hs)) _ h, circOp_gate,
          Mat.toMatrixOn_mul' b init (expand_dim hb).1, expand_toMatrixOn hb, Matrix.mul_assoc]
    | measure q b ax nm => have := hg _ List.mem_cons_self; simp [Stmt.isGate] at this
    | reset q nm => have := hg _ List.mem_cons_self; simp [Stmt.isGate] at this
    | comment c => have := hg _ List.mem_cons_self; simp [Stmt.isGate] at this

/-- **`get_circuit_matrix` computes the specification** on a list of gate statements -/
theorem circuitMatrix_toMatrixOn {n : Nat} {stmts : List (Stmt ℝ)} (hg : ∀ s ∈ stmts, s.isGate = true)
    {M : Mat ℝ} (h : circuitMatrix n stmts = .ok M) (o : List Bool) :
    M.toMatrixOn (2 ^ n) = circOp n stmts o := by
  rw [circuitMatrix_eq] at h
  rw [cmFold_toMatrixOn n stmts hg _ M h o, Mat.toMatrixOn_identity, Matrix.mul_one]

/-! ### sanity of the measurement / reset operators -/

theorem measOp_add (n q : Nat) : measOp n q false + measOp n q true = 1 := by
  ext r c
  simp only [Matrix.add_apply, measOp, Matrix.one_apply]
  by_cases h : r = c
  · subst h; cases r.val.testBit q <;> simp
  · simp [h]

theorem measOp_mul_self (n q : Nat) (b : Bool) : measOp n q b * measOp n q b = measOp n q b := by
  ext r c
  rw [Matrix.mul_apply, Finset.sum_eq_single r]
  · simp only [measOp]
    by_cases h : r = c ∧ r.val.testBit q = b
    · obtain ⟨rfl, hb⟩ := h; simp [hb]
    · by_cases hb : r.val.testBit q = b
      · have : r ≠ c := fun e => h ⟨e, hb⟩
        simp [this]
      · simp [hb]
  · intro x _ hx
    simp [measOp, Ne.symm hx]
  · intro h; exact absurd (Finset.mem_univ r) h

theorem measOp_mul_ne (n q : Nat) (b : Bool) : measOp n q b * measOp n q (!b) = 0 := by
  ext r c
  rw [Matrix.mul_apply]
  apply Finset.sum_eq_zero
  intro x _
  simp only [measOp]
  by_cases h1 : r = x
  · subst h1
    by_cases h2 : r.val.testBit q = b
    · simp [h2]
    · simp [h2]
  · simp [h1]

theorem resetOp_mul_measOp (n q : Nat) (b b' : Bool) :
    resetOp n q b * measOp n q b' = if b = b' then resetOp n q b else 0 := by
  ext r c
  rw [Matrix.mul_apply, Finset.sum_eq_single c]
  · by_cases hbb : b = b'
    · subst hbb
      rw [if_pos rfl]
      simp only [resetOp, measOp]
      by_cases h : c.val.testBit q = b
      · simp [h]
      · simp [h]
    · rw [if_neg hbb]
      simp only [resetOp, measOp, Matrix.zero_apply]
      by_cases h : c.val.testBit q = b
      · have : ¬ c.val.testBit q = b' := fun e => hbb (h.symm.trans e)
        simp [this]
      · simp [h]
  · intro x _ hx
    simp [measOp, hx]
  · intro h; exact absurd (Finset.mem_univ c) h

/-! ### `CircEquiv` is an equivalence relation -/

theorem CircEquiv.refl (n : Nat) (s : List (Stmt ℝ)) : CircEquiv n s s :=
  ⟨1, norm_one, fun _ => (one_smul _ _).symm⟩

theorem CircEquiv.symm {n : Nat} {s1 s2 : List (Stmt ℝ)} (h : CircEquiv n s1 s2) : CircEquiv n s2 s1 := by
  obtain ⟨z, hz, H⟩ := h
  have hz0 : z ≠ 0 := by
    intro h0; rw [h0, norm_zero] at hz; exact zero_ne_one hz
  refine ⟨z⁻¹, by rw [norm_inv, hz, inv_one], ?_⟩
  intro o
  rw [H o, smul_smul, inv_mul_cancel₀ hz0, one_smul]

theorem CircEquiv.trans {n : Nat} {s1 s2 s3 : List (Stmt ℝ)} (h1 : CircEquiv n s1 s2)
    (h2 : CircEquiv n s2 s3) : CircEquiv n s1 s3 := by
  obtain ⟨z, hz, H⟩ := h1
  obtain ⟨w, hw, K⟩ := h2
  refine ⟨z * w, by rw [norm_mul, hz, hw, one_mul], ?_⟩
  intro o
  rw [H o, K o, smul_smul]

theorem circEquiv_equivalence (n : Nat) : Equivalence (CircEquiv n) :=
  ⟨CircEquiv.refl n, CircEquiv.symm, CircEquiv.trans⟩

theorem SameBarriers.refl {α : Type} (s : List (Stmt α)) : SameBarriers s s := rfl
theorem SameBarriers.symm {α : Type} {s1 s2 : List (Stmt α)} (h : SameBarriers s1 s2) :
    SameBarriers s2 s1 := Eq.symm h
theorem SameBarriers.trans {α : Type} {s1 s2 s3 : List (Stmt α)} (h1 : SameBarriers s1 s2)
    (h2 : SameBarriers s2 s3) : SameBarriers s1 s3 := Eq.trans h1 h2

theorem nOutcomes_eq_filter {α : Type} (l : List (Stmt α)) :
    nOutcomes l = nOutcomes (l.filter (fun s => !s.isGate)) := by
  unfold nOutcomes
  rw [List.countP_filter]
  apply List.countP_congr
  intro s _
  cases s <;> simp [Stmt.hasOutcome, Stmt.isGate]

/-- lists with the same barriers consume the same number of outcomes -/
theorem SameBarriers.nOutcomes {α : Type} {s1 s2 : List (Stmt α)} (h : SameBarriers s1 s2) :
    nOutcomes s1 = nOutcomes s2 := by
  rw [nOutcomes_eq_filter s1, nOutcomes_eq_filter s2, h]

/-! ### Non-vacuity -/

-- a 1-qubit register: measuring qubit 0 with outcome `true` keeps `|1⟩`
example : measOp 1 0 true ⟨1, by decide⟩ ⟨1, by decide⟩ = 1 := by simp [measOp]
example : measOp 1 0 true ⟨0, by decide⟩ ⟨0, by decide⟩ = 0 := by simp [measOp]
-- resetting qubit 0 of 2 after outcome `true` maps `|11⟩` to `|10⟩`
example : resetOp 2 0 true ⟨2, by decide⟩ ⟨3, by decide⟩ = 1 := by
  unfold resetOp; rw [if_pos]; exact ⟨by decide, by decide, by decide⟩
-- a circuit with a measurement: `circOp` consumes the outcome
example (g : Gate ℝ) (o : List Bool) :
    circOp 2 [.gate g none, .measure 1 0 (0, 0, 1) none, .comment "c"] (true :: o)
      = measOp 2 1 true * gateOp 2 g := by simp
example (g : Gate ℝ) : CircEquiv 2 [.gate g none, .reset 0 none] [.gate g none, .reset 0 none] :=
  CircEquiv.refl _ _

end OSq

#print axioms OSq.expand_toMatrixOn
#print axioms OSq.circuitMatrix_toMatrixOn
#print axioms OSq.measOp_add
#print axioms OSq.resetOp_mul_measOp
#print axioms OSq.circEquiv_equivalence
#print axioms OSq.SameBarriers.nOutcomes
