import OSq.Model.Scalar
import OSq.Model.IR
import OSq.Model.Matrix
import OSq.Model.Instr
import OSq.Generated.Tables
import OSq.Model.Passes
import OSq.Model.Mapping
import OSq.Model.Text
import OSq.Model.Sched
import OSq.Model.Front
import OSq.Model.CircuitEq
/-
  OSq.Driver — line protocol.  One self-contained request per input line, one reply line per
  request.  Floats cross as IEEE-754 bit patterns (16 hex digits), strings as `x<hex of utf-8>`.
  The driver only parses, calls the model definitions instantiated at `Float`, and prints.
-/
namespace OSq.Driver
open OSq

abbrev F := Float
def atol : F := Gen.atol

/-! ### token reader -/
structure Rd where
  toks : Array String
  pos : Nat

abbrev P := StateT Rd (Except String)

def next : P String := do
  let s ← get
  match s.toks[s.pos]? with
  | some t => set { s with pos := s.pos + 1 }; pure t
  | none => throw "unexpected end of line"

def hexVal (c : Char) : Option Nat :=
  if '0' ≤ c ∧ c ≤ '9' then some (c.toNat - '0'.toNat)
  else if 'a' ≤ c ∧ c ≤ 'f' then some (c.toNat - 'a'.toNat + 10)
  else none

def parseHexNat (s : String) : Option Nat :=
  s.toList.foldlM (fun acc c => (hexVal c).map (acc * 16 + ·)) 0

def rInt : P Int := do
  let t ← next
  match t.toInt? with
  | some i => pure i
  | none => throw s!"bad int {t}"

def rNat : P Nat := do
  let i ← rInt
  if i < 0 then throw "negative count" else pure i.toNat

def rFloat : P F := do
  let t ← next
  match parseHexNat t with
  | some n => pure (Float.ofBits n.toUInt64)
  | none => throw s!"bad float {t}"

def rStr : P String := do
  let t ← next
  match t.toList with
  | 'x' :: rest =>
    let rec go : List Char → List UInt8 → Option (List UInt8)
      | [], acc => some acc.reverse
      | [_], _ => none
      | a :: b :: r, acc => do
          let x ← hexVal a; let y ← hexVal b
          go r ((x * 16 + y).toUInt8 :: acc)
    match go rest [] with
    | some bs => match String.fromUTF8? ⟨bs.toArray⟩ with
      | some s => pure s
      | none => throw "bad utf8"
    | none => throw "bad hex string"
  | _ => throw s!"bad string {t}"

def rMany {β} (p : P β) : P (List β) := do
  let n ← rNat
  let rec go : Nat → List β → P (List β)
    | 0, acc => pure acc.reverse
    | k + 1, acc => do let x ← p; go k (x :: acc)
  go n []

def rArg : P (Arg F) := do
  match ← next with
  | "q" => pure (.qubit (← rInt))
  | "b" => pure (.bit (← rInt))
  | "i" => pure (.int (← rInt))
  | "f" => pure (.float (← rFloat))
  | t => throw s!"bad arg {t}"

def rNamed : P (Option (Named F)) := do
  match ← next with
  | "A" => pure none
  | "N" => do
      let n ← rStr
      let as ← rMany rArg
      pure (some ⟨n, as⟩)
  | t => throw s!"bad named {t}"

def rMat : P (Mat F) := do
  let dim ← rNat
  let rec go : Nat → Array (Cx F) → P (Array (Cx F))
    | 0, acc => pure acc
    | k + 1, acc => do let re ← rFloat; let im ← rFloat; go k (acc.push ⟨re, im⟩)
  let d ← go (dim * dim) #[]
  pure ⟨dim, d⟩

partial def rGate : P (Gate F) := do
  match ← next with
  | "B" => do
      let q ← rInt; let ax ← rFloat; let ay ← rFloat; let az ← rFloat
      let an ← rFloat; let ph ← rFloat
      pure (.bsr q (ax, ay, az) an ph)
  | "M" => do
      let ops ← rMany rInt
      let m ← rMat
      pure (.matrix m ops)
  | "T" => do
      let c ← rInt
      let g ← rGate
      pure (.ctrl c g)
  | t => throw s!"bad gate {t}"

def rStmt : P (Stmt F) := do
  match ← next with
  | "G" => do let nm ← rNamed; let g ← rGate; pure (.gate g nm)
  | "S" => do
      let q ← rInt; let b ← rInt; let ax ← rFloat; let ay ← rFloat; let az ← rFloat
      let nm ← rNamed
      pure (.measure q b (ax, ay, az) nm)
  | "R" => do let q ← rInt; let nm ← rNamed; pure (.reset q nm)
  | "K" => do pure (.comment (← rStr))
  | t => throw s!"bad stmt {t}"

def rCircuit : P (Circuit F) := do
  match ← next with
  | "C" => do
      let nq ← rNat; let nb ← rNat
      let st ← rMany rStmt
      pure ⟨nq, nb, st⟩
  | t => throw s!"bad circuit {t}"

def rErr : P Err := do
  match ← next with
  | "ValueError" => pure .value | "IndexError" => pure .index | "TypeError" => pure .type
  | "KeyError" => pure .key | "OSError" => pure .os | "ExporterError" => pure .exporter
  | "UnsupportedGateError" => pure .unsupported
  | t => throw s!"bad err {t}"

/-! ### printer -/
def hexDigit (n : Nat) : Char := if n < 10 then Char.ofNat (48 + n) else Char.ofNat (87 + n)

def wFloat (x : F) : String :=
  let n := x.toBits.toNat
  String.ofList ((List.range 16).map fun i => hexDigit ((n >>> (4 * (15 - i))) % 16))

def wStr (s : String) : String :=
  "x" ++ String.ofList (s.toUTF8.toList.flatMap fun b => [hexDigit (b.toNat / 16), hexDigit (b.toNat % 16)])

def wArg : Arg F → String
  | .qubit i => s!"q {i}" | .bit i => s!"b {i}" | .int i => s!"i {i}" | .float v => "f " ++ wFloat v

def wNamed : Option (Named F) → String
  | none => "A"
  | some nm => "N " ++ wStr nm.name ++ s!" {nm.args.length}" ++ String.join (nm.args.map fun a => " " ++ wArg a)

def wMat (m : Mat F) : String :=
  s!"{m.n}" ++ String.join (m.d.toList.map fun z => " " ++ wFloat z.re ++ " " ++ wFloat z.im)

def wGate : Gate F → String
  | .bsr q ax an ph => s!"B {q} " ++ wFloat ax.1 ++ " " ++ wFloat ax.2.1 ++ " " ++ wFloat ax.2.2 ++ " " ++ wFloat an ++ " " ++ wFloat ph
  | .matrix m ops => s!"M {ops.length}" ++ String.join (ops.map fun o => s!" {o}") ++ " " ++ wMat m
  | .ctrl c g => s!"T {c} " ++ wGate g

def wStmt : Stmt F → String
  | .gate g nm => "G " ++ wNamed nm ++ " " ++ wGate g
  | .measure q b ax nm => s!"S {q} {b} " ++ wFloat ax.1 ++ " " ++ wFloat ax.2.1 ++ " " ++ wFloat ax.2.2 ++ " " ++ wNamed nm
  | .reset q nm => s!"R {q} " ++ wNamed nm
  | .comment s => "K " ++ wStr s

def wStmts (l : List (Stmt F)) : String := s!"{l.length}" ++ String.join (l.map fun s => " " ++ wStmt s)
def wCircuit (c : Circuit F) : String := s!"C {c.nQubits} {c.nBits} " ++ wStmts c.stmts

def wExcept {β} (w : β → String) : Except Err β → String
  | .ok x => let s := w x; if s.isEmpty then "ok" else "ok " ++ s
  | .error e => "err " ++ e.name

def wPass (r : Circuit F × Option Err) : String :=
  match r.2 with
  | none => "ok " ++ wCircuit r.1
  | some e => "err " ++ e.name ++ " " ++ wCircuit r.1

def rDecomposer : P Decomposer := do
  match ← next with
  | "XYX" => pure (.aba .XYX) | "XZX" => pure (.aba .XZX) | "YXY" => pure (.aba .YXY)
  | "YZY" => pure (.aba .YZY) | "ZXZ" => pure (.aba .ZXZ) | "ZYZ" => pure (.aba .ZYZ)
  | "McKay" => pure .mckay | "CNOT" => pure .cnot
  | t => throw s!"bad decomposer {t}"

def gstmtOf (s : Stmt F) : P (GStmt F) :=
  match s with
  | .gate g nm => pure (g, nm)
  | _ => throw "expected a gate statement"

/-- entries of a scripted decomposer / replacement callback: per call either a list or an error -/
def rScript : P (List (Except Err (List (GStmt F)))) :=
  rMany do
    match ← next with
    | "r" => do
        let ss ← rMany rStmt
        let gs ← ss.mapM gstmtOf
        pure (.ok gs)
    | "e" => do pure (.error (← rErr))
    | t => throw s!"bad script entry {t}"

def rPyArg : P (PyArg F) := do
  match ← next with
  | "int" => pure (.int (← rInt))
  | "qubit" => pure (.qubit (← rInt))
  | "bit" => pure (.bit (← rInt))
  | "float" => pure (.float (← rFloat))
  | "intobj" => pure (.intObj (← rInt))
  | "other" => pure .other
  | t => throw s!"bad pyarg {t}"

def rOperand : P (Operand F) := do
  match ← next with
  | "v" => do let n ← rStr; let q ← rNat; let s ← rNat; pure (.varRef n (q == 1) s)
  | "x" => do let n ← rStr; let q ← rNat; let is ← rMany rInt; pure (.indexRef n (q == 1) is)
  | "ci" => pure (.constInt (← rInt))
  | "cf" => pure (.constFloat (← rFloat))
  | t => throw s!"bad operand {t}"

def rAst : P (Ast F) := do
  let vars ← rMany do
    let n ← rStr; let q ← rNat; let s ← rNat
    pure (⟨n, q == 1, s⟩ : VarDecl)
  let stmts ← rMany do
    let n ← rStr
    let ops ← rMany rOperand
    pure (⟨n, ops⟩ : AstStmt F)
  pure ⟨vars, stmts⟩

def wSOp : SOp F → String
  | .rxy q t p => s!"rxy {q} " ++ wFloat t ++ " " ++ wFloat p
  | .rz q t => s!"rz {q} " ++ wFloat t
  | .cnot c t => s!"cnot {c} {t}"
  | .cz c t => s!"cz {c} {t}"
  | .measure q ch ix => s!"measure {q} {ch} {ix}"
  | .reset q => s!"reset {q}"

def anonPlaceholder (_ : Gate F) : String := "<anon>"

def handle : P String := do
  let cmd ← next
  match cmd with
  | "normalize" => do pure (wFloat (normalizeAngle atol (← rFloat)))
  | "mkbsr" => do
      let q ← rInt; let ax ← rFloat; let ay ← rFloat; let az ← rFloat; let an ← rFloat; let ph ← rFloat
      pure (wExcept wGate (mkBSR atol q (ax, ay, az) an ph))
  | "mkmatrix" => do
      let ops ← rMany rInt
      let m ← rMat
      pure (wExcept wGate (mkMatrix m ops))
  | "mkctrl" => do
      let c ← rInt; let g ← rGate
      pure (wExcept wGate (mkCtrl c g))
  | "mkcomment" => do
      let s ← rStr
      pure (wExcept (fun (_ : Stmt F) => "") (mkComment s))
  | "isid" => do let g ← rGate; pure (if g.isIdentity atol then "1" else "0")
  | "matrix" => do
      let n ← rNat; let g ← rGate
      pure (wExcept wMat (expand n g))
  | "cmatrix" => do
      let c ← rCircuit
      pure (wExcept wMat (circuitMatrix c.nQubits c.stmts))
  | "compose" => do
      let a ← rStmt; let b ← rStmt
      let (ga, na) ← gstmtOf a; let (gb, nb) ← gstmtOf b
      match gstmtToRot (ga, na), gstmtToRot (gb, nb) with
      | some ra, some rb =>
          pure (wExcept (fun r => wStmt (Rot.toGStmt r).toStmt) (composeRot atol ra rb))
      | _, _ => throw "compose expects rotations"
  | "gateeq" => do
      let a ← rGate; let b ← rGate
      pure (wExcept (fun (x : Bool) => if x then "1" else "0") (gateEq atol a b))
  | "circuiteq" => do
      let a ← rCircuit; let b ← rCircuit
      pure (wExcept (fun (x : Bool) => if x then "1" else "0") (circuitEq atol a b))
  | "compareidx" => do
      let idx ← rMany rInt
      let a ← rGate; let b ← rGate
      pure (wExcept (fun (x : Bool) => if x then "1" else "0") (compareGatesWith atol idx a b))
  | "check" => do
      let g ← rGate
      let gs ← rMany rGate
      pure (match checkGateReplacement atol g gs with | none => "ok" | some e => "err " ++ e.name)
  | "named" => do
      let n ← rStr
      let as ← rMany rArg
      pure (wExcept (fun (r : Gate F × Named F) => wStmt (.gate r.1 (some r.2))) (callGate atol Gen.gateTable n as))
  | "dgate" => do
      let d ← rDecomposer
      let s ← rStmt
      let g ← gstmtOf s
      pure (wExcept (fun (l : List (GStmt F)) => wStmts (l.map GStmt.toStmt)) (d.run atol g))
  | "abaangles" => do
      let d ← rDecomposer
      let al ← rFloat; let ax ← rFloat; let ay ← rFloat; let az ← rFloat
      match d with
      | .aba k => pure (wExcept (fun (t : F × F × F) => wFloat t.1 ++ " " ++ wFloat t.2.1 ++ " " ++ wFloat t.2.2)
                    (abaAngles atol k al (ax, ay, az)))
      | _ => throw "abaangles expects an A-B-A decomposer"
  | "decompose" => do
      let d ← rDecomposer
      let c ← rCircuit
      let r := decomposeBuiltin atol d c.stmts
      pure (wPass ({ c with stmts := r.1 }, r.2))
  | "dcustom" => do
      let c ← rCircuit
      let script ← rScript
      let d : Nat → GStmt F → Except Err (List (GStmt F)) := fun i g =>
        match script[i]? with
        | some r => r
        | none => .ok [g]
      let r := decompose atol d c.stmts
      pure (wPass ({ c with stmts := r.1 }, r.2))
  | "replace" => do
      let name ← rStr
      let c ← rCircuit
      let script ← rScript
      let f : Nat → List (Arg F) → Except Err (List (GStmt F)) := fun i _ =>
        match script[i]? with
        | some r => r
        | none => .error .index
      let r := replace atol name f c.stmts
      pure (wPass ({ c with stmts := r.1 }, r.2))
  | "merge" => do
      let c ← rCircuit
      pure (wPass (merge atol c))
  | "mapping" => do
      let l ← rMany rInt
      pure (wExcept (fun (_ : List Int) => "") (mkMapping l))
  | "map" => do
      let l ← rMany rInt
      let c ← rCircuit
      match mkMapping l >>= mkMapper c.nQubits with
      | .error e => pure ("err " ++ e.name ++ " " ++ wCircuit c)
      | .ok m => pure (wPass (remap m c))
  | "remap" => do
      let l ← rMany rInt
      let c ← rCircuit
      pure (wPass (remap l c))
  | "write" => do
      let c ← rCircuit
      pure ("ok " ++ wStr (writeCircuit (fmtFloat Gen.writerPrecision) anonPlaceholder c))
  | "exportv1" => do
      let c ← rCircuit
      pure (wExcept wStr (exportV1 (fmtFloat Gen.v1Precision) c))
  | "sched" => do
      let c ← rCircuit
      pure (wExcept (fun (r : List (SOp F) × List (Option (Nat × Nat))) =>
        s!"{r.1.length}" ++ String.join (r.1.map fun o => " " ++ wSOp o) ++ s!" {r.2.length}" ++
          String.join (r.2.map fun | none => " n" | some (a, q) => s!" s {a} {q}")) (exportSched atol c))
  | "graph" => do
      let c ← rCircuit
      pure (wExcept (fun (es : List (Int × Int)) => s!"{es.length}" ++ String.join (es.map fun e => s!" {e.1} {e.2}"))
        (interactionGraph c.stmts))
  | "build" => do
      let nq ← rNat; let nb ← rNat
      let calls ← rMany do
        match ← next with
        | "c" => do let n ← rStr; let as ← rMany rPyArg; pure (Sum.inl (n, as))
        | "k" => do pure (Sum.inr (← rStr))
        | t => throw s!"bad call {t}"
      let mut b : Builder F := ⟨nq, nb, []⟩
      let mut out := ""
      for c in calls do
        let r := match c with
          | .inl (n, as) => b.call atol defaultLib n as
          | .inr s => b.comment s
        match r with
        | .ok b' => b := b'; out := out ++ " ok"
        | .error e => out := out ++ " err:" ++ e.name
      pure (s!"{calls.length}" ++ out ++ " " ++ wCircuit b.toCircuit)
  | "parse" => do
      let a ← rAst
      pure (wExcept wCircuit (parseAst atol defaultLib a))
  | "fmt" => do
      let p ← rNat; let x ← rFloat
      pure (wStr (fmtFloat p x))
  | "fmtraw" => do
      let p ← rNat; let x ← rFloat
      pure (wStr (fmtBits p x.toBits))
  | "wf" => do
      let c ← rCircuit
      pure (if c.wf then "1" else "0")
  | "consts" => pure s!"{Gen.atolMantissa} {Gen.atolExp} {Gen.writerPrecision} {Gen.v1Precision} {Gen.degPrecision}"
  | t => throw s!"unknown command {t}"

def handleLine (line : String) : String :=
  let toks := (line.splitOn " ").filter (· ≠ "")
  match (handle.run ⟨toks.toArray, 0⟩) with
  | .ok (s, _) => s
  | .error e => "bad-request " ++ e

partial def loop (hin hout : IO.FS.Stream) : IO Unit := do
  let line ← hin.getLine
  if line.isEmpty then return ()
  let l := String.ofList (line.toList.reverse.dropWhile (fun c => c == '\n' || c == '\r')).reverse
  hout.putStrLn (handleLine l)
  loop hin hout

end OSq.Driver

def main : IO Unit := do
  let hin ← IO.getStdin
  let hout ← IO.getStdout
  OSq.Driver.loop hin hout
  hout.flush
