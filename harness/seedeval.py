#!/usr/bin/env python3
"""Confirm and evaluate seeded changes delivered in $SEED_DIR/<pid>/ (patchN.diff, demoN.py, meta.json):
 1. in the scratch worktree: demo passes without the patch, fails with it, and the 266 tests pass with it;
 2. apply the patch to /repo, run our checks (target property first, extra ones on request), undo;
 3. store patch/demo/meta + our result under /verif/seeded/<pid>-<n>/.
usage: seedeval.py <pid> [extra check ids…]"""
import json, os, shutil, subprocess, sys
ROOT = os.path.abspath(os.path.join(os.path.dirname(__file__), ".."))

def sh(cmd, cwd=None, env=None, timeout=3600):
    p = subprocess.run(cmd, cwd=cwd, env=env, stdout=subprocess.PIPE, stderr=subprocess.STDOUT, timeout=timeout)
    return p.returncode, p.stdout.decode(errors="replace")

def main():
    pid = sys.argv[1]; extra = sys.argv[2:]
    wt = os.path.join(os.environ.get("SEED_DIR", "/tmp/mut3"), pid); off = int(os.environ.get("SEED_OFFSET", "4"))
    env = {**os.environ, "PYTHONPATH": wt}
    metas = json.load(open(os.path.join(wt, "meta.json")))
    if isinstance(metas, dict): metas = [metas]
    for n, meta in enumerate(metas, 1):
        patch = os.path.join(wt, meta.get("patch", f"patch{n}.diff")); demo = os.path.join(wt, meta.get("demo", f"demo{n}.py"))
        res = {"patch": os.path.basename(patch)}
        sh(["git", "checkout", "--", "opensquirrel"], cwd=wt)
        rc0, _ = sh(["/venv/bin/python", demo], cwd=wt, env=env)
        rca, out = sh(["git", "apply", patch], cwd=wt)
        if rca != 0:
            print(f"{pid}-{n}: patch does not apply: {out[:200]}"); continue
        rc1, dout = sh(["/venv/bin/python", demo], cwd=wt, env=env)
        rct, tout = sh(["/venv/bin/python", "-m", "pytest", "-q", "-p", "no:cacheprovider", "-x", "test"], cwd=wt, env=env)
        sh(["git", "checkout", "--", "opensquirrel"], cwd=wt)
        res.update({"demo_without_patch_exit": rc0, "demo_with_patch_exit": rc1, "tests_with_patch_exit": rct, "tests_tail": tout.strip().split("\n")[-1][:200]})
        confirmed = rc0 == 0 and rc1 != 0 and rct == 0
        res["confirmed"] = confirmed
        print(f"{pid}-{n}: demo clean={rc0} patched={rc1} tests={rct} -> {'confirmed' if confirmed else 'NOT confirmed'}", flush=True)
        if confirmed:
            if os.environ.get("SEED_STORE_ONLY"):
                res["checks"] = {}          # checks are run afterwards by isomut.py (isolated, parallel)
            else:
                rc, out = sh([sys.executable, os.path.join(ROOT, "harness", "mutate.py"), patch, pid, *extra, "--seeds", "1,2,3"], cwd=ROOT)
                last = out.strip().split("\n")[-1]
                try: res["checks"] = json.loads(last)
                except Exception: res["checks"] = {"error": out[-500:]}
            for k, v in res.get("checks", {}).items():
                if isinstance(v, dict): print(f"   {k}: {'VIOLATION' if v['violation'] else 'pass'}{' (no-failing-input-found)' if v.get('no_failing_input') else ''} {v.get('what','')[:160]}")
            d = os.path.join(ROOT, "seeded", f"{pid}-{n+off}"); os.makedirs(d, exist_ok=True)
            shutil.copy(patch, os.path.join(d, "patch.diff")); shutil.copy(demo, os.path.join(d, "demo.py"))
            det = sorted({k.split("/")[0] for k, v in res.get("checks", {}).items() if isinstance(v, dict) and v["violation"]})
            json.dump({"breaks": pid, "what_changed": meta.get("what_changed"), "needs_to_manifest": meta.get("needs_to_manifest"),
                       "author": "independent sub-agent given only the property text and a scratch worktree",
                       "confirmed_by": {"demo exit without patch": rc0, "demo exit with patch": rc1, "266 tests with patch": "pass" if rct == 0 else "fail"},
                       "ran": [f"git -C /repo apply seeded/{pid}-{n+off}/patch.diff", f"./check {pid} quick (VERIF_SEED=1,2)", "git -C /repo checkout -- ."],
                       "our_checks": res.get("checks"), "detected_by": det}, open(os.path.join(d, "meta.json"), "w"), indent=1)
    return 0

if __name__ == "__main__":
    sys.exit(main())
