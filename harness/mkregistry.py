#!/usr/bin/env python3
"""Builds lean/registry.json: for every property the Lean modules to build and the theorems to audit.
The theorem list of a module is taken from its trailing `#print axioms` lines; FILES maps modules to properties
(optionally restricted to theorems whose name matches one of the given prefixes)."""
import json, os, re
HERE = os.path.dirname(os.path.abspath(__file__))
LEAN = os.path.join(HERE, "..", "lean")
FILES = {
    "OSq.Proofs.ABA": {"C01": None, "C10": ["OSq.ABA.aba_total"]},
    "OSq.Proofs.DecomposeLoop": {"C01": ["OSq.decompose", "OSq.genLoop", "OSq.splice"], "C06": ["OSq.decompose_fail", "OSq.decompose_ok_or", "OSq.replace", "OSq.splice", "OSq.decompose_nongates"],
                                  "C05": ["OSq.decompose_nongates", "OSq.replace_nongates", "OSq.decompose_ok_or_prefix"], "C20": ["OSq.replace_only_named", "OSq.replace_eq_decompose_const"]},
    "OSq.Proofs.Construct": {"C15": None, "C01": ["OSq.normalizeAngle_range"], "C07": ["OSq.mkBSR_denotes", "OSq.can1_eq_rot"], "C16": ["OSq.can1_eq_rot"]},
    "OSq.Proofs.Compose": {"C02": None, "C14": ["OSq.compose_name"]},
    "OSq.Proofs.MergeStruct": {"C02": None, "C14": None},
    "OSq.Proofs.MergeAbstract": {"C02": None},
    "OSq.Proofs.MergeReal": {"C02": None, "C14": None},
    "OSq.Proofs.Remap": {"C03": None, "C05": ["OSq.remap_spec", "OSq.remap_fail_unchanged"], "C20": ["OSq.Stmt.qubitArgs_mapQubits", "OSq.Stmt.eraseQubits_mapQubits"], "C17": ["OSq.heap_remap_other"]},
    "OSq.Proofs.Writer": {"C04": ["OSq.mkComment", "OSq.writeStmt", "OSq.writeCircuit", "OSq.rstripNl"], "C12": ["OSq.exportV1"], "C20": ["OSq.writeStmt_gate_form", "OSq.exportV1Stmt_gate_form"]},
    "OSq.Proofs.FloatFmt": {"C04": None},
    "OSq.Proofs.Sched": {"C11": None},
    "OSq.Proofs.Builder": {"C13": None, "C20": ["OSq.call_accept_wf", "OSq.coherent_by_construction", "OSq.builder_wf"]},
    "OSq.Proofs.InstrWF": {"C13": None, "C09": ["OSq.callGate_idem", "OSq.gateName"]},
    "OSq.Proofs.Parser": {"C09": None, "C13": ["OSq.parse_wf"]},
    "OSq.Proofs.Expander": {"C08": None, "C19": ["OSq.localMatrix_dim", "OSq.expand_dim"], "C06": ["OSq.localMatrix_dim"]},
    "OSq.Proofs.MatBasic": {"C08": None},
    "OSq.Sem.Rot": {"C08": ["OSq.Sem.rot_unitary", "OSq.Mat.toMatrix"], "C15": ["OSq.Sem.rot_add", "OSq.Sem.rot_neg_neg", "OSq.Sem.rot_phase"]},
    "OSq.Proofs.Graph": {"C18": None},
    "OSq.Proofs.Graph2": {"C18": None},
    "OSq.Proofs.Graph3": {"C18": ["OSq.graph_mapQ", "OSq.graph_remap"], "C03": ["OSq.graph_remap_edge"]},
    "OSq.Proofs.SplitOn": {"C04": None},
    "OSq.Proofs.ShapeReal": {"C10": None},
    "OSq.Proofs.MergeSemReal": {"C02": None},
    "OSq.Proofs.NaturalityMerge": {"C19": None},
    "OSq.Proofs.RotAlgebra": {"C01": ["OSq.aba_rot", "OSq.rot_mul_rot", "OSq.rot_eq_qMat", "OSq.qMat_mul"], "C02": ["OSq.rot_mul_rot"]},
    "OSq.Proofs.DecomposeSem": {"C01": None, "C02": ["OSq.composeRot_sem"], "C10": ["OSq.abaDecompose_ok", "OSq.cnotDecompose_ok"]},
    "OSq.Sem.Circuit": {"C01": ["OSq.expand_toMatrixOn", "OSq.circEquiv_equivalence"], "C08": ["OSq.expand_toMatrixOn", "OSq.circuitMatrix_toMatrixOn"]},
    "OSq.Proofs.CircuitSem": {"C01": None, "C05": ["OSq.block_congr", "OSq.flatMap_congr"]},
    "OSq.Proofs.CircuitSem2": {"C06": None, "C19": ["OSq.gateOp_eq_lift"], "C01": ["OSq.local_phase_eq_global"]},
    "OSq.Proofs.CircuitSem3": {"C01": None, "C06": None},
    "OSq.Proofs.CircuitSem4": {"C03": None, "C05": None},
    "OSq.Proofs.CircuitSem5": {"C02": None},
    "OSq.Proofs.CircuitSem6": {"C02": None},
    "OSq.Proofs.CircuitSem7": {"C02": None},
    "OSq.Proofs.CircuitSem8": {"C06": None},
    "OSq.Proofs.CheckIff": {"C16": None, "C06": ["OSq.checkGateReplacement", "OSq.lift_injective", "OSq.equivPhase_iff_crisp"], "C17": ["OSq.compareGatesWith_iff_exact"]},
    "OSq.Proofs.Main": {"C01": None, "C05": ["OSq.C01_of_gate_ok"], "C10": ["OSq.mckayDecompose_ok"]},
    "OSq.Proofs.Main2": {"C05": None, "C03": ["OSq.map_step_sem"]},
    "OSq.Proofs.Main3": {"C01": None, "C10": ["OSq.cnotDecompose_total"]},
    "OSq.Proofs.Main4": {"C02": None, "C05": None},
    "OSq.Proofs.Main5": {"C01": None, "C06": None},
    "OSq.Proofs.RoundTrip": {"C04": ["OSq.readLine3", "OSq.readProgram3", "OSq.param_value", "OSq.isParamTok", "OSq.decimalValue"], "C12": ["OSq.readLine1", "OSq.readProgram1", "OSq.exportV1_writable"],
                              "C20": ["OSq.readLine3_gate", "OSq.readLine1_gate"]},
    "OSq.Sem.Grammar": {"C04": None},
    "OSq.Proofs.Bands": {"C01": None, "C02": ["OSq.Bands.composeRot_identity_band", "OSq.Bands.compose_identity_dist", "OSq.Bands.filter_identities_band"], "C15": ["OSq.Bands.rot_lipschitz", "OSq.Bands.rot_identity_band"]},
    "OSq.Proofs.SchedSem": {"C11": None},
    "OSq.Proofs.Bands2": {"C02": None, "C14": ["OSq.Bands.filter_identities_band_sharp"]},
    "OSq.Proofs.Bands3": {"C01": None, "C10": ["OSq.Bands.mckay_all_inputs"]},
    "OSq.Proofs.Bands4": {"C01": None},
    "OSq.Proofs.Bands5": {"C01": None, "C10": ["OSq.Bands.cnotDecompose_ok_shortcut"]},
    "OSq.Proofs.Kron": {"C08": None},
    "OSq.Proofs.PipelineBand": {"C05": None},
    "OSq.Proofs.PipelineBand2": {"C05": None},
    "OSq.Proofs.PipelineBand3": {"C05": None},
    "OSq.Proofs.DecomposeBand": {"C06": None, "C01": ["OSq.gateOp_unitary", "OSq.checkGateReplacement_band_op"]},
    "OSq.Proofs.DecomposeBand2": {"C06": None, "C01": ["OSq.decompose_ok_band", "OSq.decomposeBuiltin_ok_band"], "C05": ["OSq.decompose_ok_band", "OSq.replace_ok_band", "OSq.decompose_fail_band"]},
    "OSq.Proofs.DecomposeBand3": {"C06": None},
    "OSq.Proofs.DecomposeBand4": {"C01": None, "C06": None},
    "OSq.Proofs.MergeBand": {"C02": None},
    "OSq.Proofs.MergeBand2": {"C02": None},
    "OSq.Proofs.MergeBand3": {"C02": None, "C05": ["OSq.Bands.merge_all_inputs"]},
    "OSq.Proofs.MergeBand4": {"C02": None},
    "OSq.Proofs.MergeBand5": {"C02": None},
    "OSq.Proofs.V3Sem": {"C04": None},
    "OSq.Proofs.V3Sem2": {"C04": None},
    "OSq.Proofs.V3Sem3": {"C04": None},
    "OSq.Proofs.PipelineShape": {"C10": None},
    "OSq.Proofs.EqBands": {"C06": None, "C16": None},
    "OSq.Proofs.EqBands2": {"C06": None, "C16": None},
    "OSq.Proofs.V1Sem": {"C12": None},
    "OSq.Proofs.V1Sem2": {"C12": None},
    "OSq.Proofs.Snapshots": {"C13": None, "C17": ["OSq.Snap.frame_", "OSq.Snap.step_frame", "OSq.Snap.stepsAvoid_frame", "OSq.Snap.snapshot_independent", "OSq.Snap.mapInPlace_eq_heap_remap", "OSq.Snap.replaceObjs_spec"]},
    "OSq.Proofs.MergeIdem": {"C14": None, "C02": ["OSq.merge_idem_sem"]},
    "OSq.Proofs.GateTable": {"C07": None},
    "OSq.Proofs.Shape": {"C10": None},
    "OSq.Proofs.Equality": {"C16": None, "C17": ["OSq.compare"]},
    "OSq.Proofs.Naturality": {"C19": None, "C17": ["OSq.model_deterministic"]},
    "OSq.Proofs.Pipeline": {"C05": None},
}

def theorems_of(module):
    p = os.path.join(LEAN, *module.split(".")) + ".lean"
    if not os.path.exists(p):
        return None
    src = open(p).read()
    out = []
    for m in re.finditer(r"^#print axioms\s+(\S+)", src, re.M):
        n = m.group(1)
        if not n.startswith("OSq."):
            n = "OSq." + n
        if n not in out:
            out.append(n)
    return out

def main():
    reg = {}
    for mod, props in FILES.items():
        ths = theorems_of(mod)
        if ths is None:
            continue
        for pid, prefixes in props.items():
            sel = [t for t in ths if prefixes is None or any(t.startswith(p) for p in prefixes)]
            if not sel:
                continue
            e = reg.setdefault(pid, {"modules": [], "theorems": []})
            if mod not in e["modules"]:
                e["modules"].append(mod)
            for t in sel:
                e["theorems"].append({"name": t, "module": mod})
    # per-property theorem files: OSq/Props/Cxx.lean restate (by `property_theorem`) exactly the registered theorems
    os.makedirs(os.path.join(LEAN, "OSq", "Props"), exist_ok=True)
    for pid in sorted(reg):
        e = reg[pid]
        lines = [f"/- GENERATED by harness/mkregistry.py: the theorems registered for property {pid}. -/", "import OSq.Props.Index"]
        lines += [f"import {m}" for m in e["modules"]]
        seen = set()
        for t in e["theorems"]:
            short = t["name"].split(".")[-1]
            if short in seen: continue
            seen.add(short)
            lines.append(f"property_theorem {pid} {t['name']}")
        with open(os.path.join(LEAN, "OSq", "Props", f"{pid}.lean"), "w") as f:
            f.write("\n".join(lines) + "\n")
        # the check builds and audits the per-property file (which imports the proof modules)
        newt = []; seen = set()
        for t in e["theorems"]:
            short = t["name"].split(".")[-1]
            if short in seen: continue
            seen.add(short)
            nt = {"name": f"OSq.Props.{pid}.{short}", "module": f"OSq.Props.{pid}", "source": t["name"], "source_module": t["module"]}
            newt.append(nt)
        e["proof_modules"] = e["modules"]
        e["modules"] = [f"OSq.Props.{pid}"]
        e["theorems"] = newt
    with open(os.path.join(LEAN, "OSq", "Props", "All.lean"), "w") as f:
        f.write("/- GENERATED: all per-property theorem files -/\n" + "".join(f"import OSq.Props.{pid}\n" for pid in sorted(reg)))
    # keep the pinned statement hashes of theorems that are already registered (pin new ones with --pin)
    old = {}
    rp = os.path.join(LEAN, "registry.json")
    if os.path.exists(rp):
        for e in json.load(open(rp)).values():
            for t in e["theorems"]:
                if t.get("typehash"): old[t["name"]] = t["typehash"]
    import sys
    if "--pin" in sys.argv:
        sys.path.insert(0, HERE)
        import framework as F
        for pid in sorted(reg):
            json.dump(dict(sorted(reg.items())), open(rp, "w"), indent=1)
            for f in os.listdir(F.CACHE) if os.path.isdir(F.CACHE) else []:
                if f.startswith(f"prove_{pid}_"): os.remove(os.path.join(F.CACHE, f))
            r = F.prove(pid)
            for k, v in r.get("typehashes", {}).items(): old[k] = v
    for e in reg.values():
        for t in e["theorems"]:
            if t["name"] in old: t["typehash"] = old[t["name"]]
    with open(os.path.join(LEAN, "registry.json"), "w") as f:
        json.dump(dict(sorted(reg.items())), f, indent=1)
    for pid in sorted(reg):
        print(pid, len(reg[pid]["theorems"]), reg[pid]["modules"])

if __name__ == "__main__":
    main()
