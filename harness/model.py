"""Runs the Lean model driver (compiled `osq_driver`) on a batch of request lines."""
from __future__ import annotations
import os, subprocess, tempfile

HERE = os.path.dirname(os.path.abspath(__file__))
LEAN_DIR = os.path.join(HERE, "..", "lean")
DRIVER = os.path.join(LEAN_DIR, ".lake", "build", "bin", "osq_driver")

class ModelError(Exception):
    pass

def run_batch(lines: list[str], timeout: float = 1800) -> list[str]:
    if not lines:
        return []
    if not os.path.exists(DRIVER):
        raise ModelError(f"driver not built: {DRIVER}")
    data = ("\n".join(lines) + "\n").encode()
    p = subprocess.run([DRIVER], input=data, stdout=subprocess.PIPE, stderr=subprocess.PIPE, timeout=timeout)
    if p.returncode != 0:
        raise ModelError(f"driver exit {p.returncode}: {p.stderr.decode()[:500]}")
    out = p.stdout.decode().split("\n")
    if out and out[-1] == "":
        out.pop()
    if len(out) != len(lines):
        raise ModelError(f"driver returned {len(out)} replies for {len(lines)} requests")
    return out


def run_reader(requests: list[str], timeout: float = 1800) -> list[str]:
    """the specification reader of OSq/Sem/Grammar.lean (`3 x<hex>` / `1 x<hex>` per line) via `lake env lean --run`"""
    if not requests:
        return []
    data = ("\n".join(requests) + "\n").encode()
    p = subprocess.run(["lake", "env", "lean", "--run", "OSq/ReadDriver.lean"], cwd=LEAN_DIR, input=data,
                       stdout=subprocess.PIPE, stderr=subprocess.PIPE, timeout=timeout)
    if p.returncode != 0:
        raise ModelError(f"reader exit {p.returncode}: {p.stderr.decode()[:500]}")
    out = p.stdout.decode().split("\n")
    if out and out[-1] == "":
        out.pop()
    if len(out) != len(requests):
        raise ModelError(f"reader returned {len(out)} replies for {len(requests)} requests")
    return out

def parse_reader(line: str):
    """-> None (rejected) or (header ints, [tuple per line])"""
    if not line.startswith("ok"):
        return None
    parts = line.split(" | ")
    head = [int(x) for x in parts[0].split()[1:]]
    unhex = lambda t: bytes.fromhex(t[1:]).decode()
    out = []
    for p in parts[1:]:
        t = p.split()
        k = t[0]
        if k == "gate":
            name = unhex(t[1]); n = int(t[2]); ps = [unhex(x) for x in t[3:3 + n]]; m = int(t[3 + n]); qs = [int(x) for x in t[4 + n:4 + n + m]]
            out.append(("gate", name, ps, qs))
        elif k == "instr":
            name = unhex(t[1]); m = int(t[2]); qs = [int(x) for x in t[3:3 + m]]; n = int(t[3 + m]); ps = [unhex(x) for x in t[4 + m:4 + m + n]]
            out.append(("instr", name, qs, ps))
        elif k == "measure": out.append(("measure", int(t[1]), unhex(t[2]), int(t[3])))
        elif k == "reset": out.append(("reset", unhex(t[1]), int(t[2])))
        elif k == "comment": out.append(("comment", unhex(t[1]) if len(t) > 1 else ""))
        else: out.append((k,))
    return head, out
