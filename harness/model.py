"""Runs the Lean model driver (compiled `osq_driver`) on a batch of request lines."""
from __future__ import annotations
import os, subprocess, tempfile

HERE = os.path.dirname(os.path.abspath(__file__))
LEAN_DIR = os.path.join(HERE, "..", "lean")
DRIVER = os.path.join(LEAN_DIR, ".lake", "build", "bin", "osq_driver")

class ModelError(Exception):
    pass

def run_batch(lines: list[str], timeout: float = 1800) -> list[str]:
    if not lines:
        return []
    if not os.path.exists(DRIVER):
        raise ModelError(f"driver not built: {DRIVER}")
    data = ("\n".join(lines) + "\n").encode()
    p = subprocess.run([DRIVER], input=data, stdout=subprocess.PIPE, stderr=subprocess.PIPE, timeout=timeout)
    if p.returncode != 0:
        raise ModelError(f"driver exit {p.returncode}: {p.stderr.decode()[:500]}")
    out = p.stdout.decode().split("\n")
    if out and out[-1] == "":
        out.pop()
    if len(out) != len(lines):
        raise ModelError(f"driver returned {len(out)} replies for {len(lines)} requests")
    return out
