"""Property checks C01, C02, C06, C10, C14 (decomposition, merging, replacement checking)."""
from __future__ import annotations
import copy, itertools, math, random
import numpy as np
import wire as W, ops as O, oracle as R, gen as G
from framework import Run, batch_tie
import framework as F_

TOL_F = 2e-7      # float fields of pass results (acos near +-1 amplifies ulp differences to ~1e-8)
TOL_OP = 1e-6     # operator distance accepted by the oracle (band snapping <= ~3e-7; real defects >= 1e-3)

def non_gates(stmts):
    return [s for s in stmts if s["k"] != "gate"]

def cmp_pass(case, r, m):
    if m is None: return None
    band = case.get("band", False)
    if r["err"] != m["err"]:
        return "ambiguous" if band else f"outcome {r['err']} vs model {m['err']}"
    d = W.diff(r["c"], m["c"], TOL_F)
    if d:
        ok, dist, _ = R.equiv_stmts(r["c"]["stmts"], m["c"]["stmts"], TOL_OP)
        if ok: return "ambiguous" if band else "soft:" + d      # same operation: a threshold decided differently in float
        return d
    return None

def cmp_val(tol=TOL_F):
    def f(case, r, m):
        if m is None: return None
        band = case.get("band", False)
        if r["err"] != m["err"]:
            return "ambiguous" if band else f"outcome {r['err']} vs model {m['err']}"
        d = W.diff(r["v"], m["v"], tol)
        if d and band: return "ambiguous"
        if d and isinstance(r["v"], list) and isinstance(m["v"], list) and all(isinstance(x, dict) and x.get("k") == "gate" for x in r["v"] + m["v"]):
            ok, dist, _ = R.equiv_stmts(r["v"], m["v"], TOL_OP)
            if ok: return "soft:" + d
        return d
    return f

# ----------------------------------------------------------------------------------------- C01 / C10
def gate_cases(run: Run, n_each):
    """(decomposer, single gate statement) cases"""
    rng = random.Random(run.seed * 7919 + 1)
    g = G.Gen(rng)
    cases = []
    for d in O.DECOMPOSERS:
        for i in range(n_each):
            g.band = False
            m = rng.randrange(10)
            if d == "CNOT" and m < 7:
                s = g.ctrl_anon(1, 0) if m < 5 else g.named2(1, 0)
            elif m < 6: s = g.bsr(0)
            elif m < 8: s = g.named1(0)
            elif m == 8: s = g.ctrl_anon(1, 0)
            else: s = g.matrix_gate([0, 1]) if rng.random() < 0.5 else g.ctrl2(2, 1, 0)
            cases.append({"d": d, "s": s, "band": g.band})
    # fixed corpus: inputs that were wrong on the pinned tree (see known_findings.json "fixed" entries)
    from opensquirrel.ir import BlochSphereRotation, ControlledGate, Float
    import opensquirrel.default_gates as dg
    corpus = [BlochSphereRotation(0, (-1, -1, 1), 1.0), BlochSphereRotation(0, (-1, 1, -1), 2.0), BlochSphereRotation(0, (1, -1, -1), -1.0),
              BlochSphereRotation(0, (1, 2, -3), math.pi), BlochSphereRotation(0, (-1e-4, -1, -1), math.pi), dg.I(0),
              dg.Rx(0, Float(3.1415927)), dg.Ry(0, Float(-math.pi + 1e-7)), BlochSphereRotation(0, (1, 1, 1), 2 * math.pi / 3),
              BlochSphereRotation(0, (-1, -1, 0), math.pi + 1e-5), BlochSphereRotation(0, (1, 3e-4, 3e-4), math.pi),
              BlochSphereRotation(0, (-1, -1, 0), 1.1e-7), dg.H(0), dg.X(0), dg.Y(0), dg.Z(0), dg.S(0), dg.T(0),
              BlochSphereRotation(0, (0, 0, 1), 0.0, 0.4), BlochSphereRotation(0, (0, 0, -1), 2 * math.pi, 0.0), BlochSphereRotation(0, (0, 0, 1), 1e-9, 1.0),
              BlochSphereRotation(0, (0, 0, -1), 0.7), BlochSphereRotation(0, (0, 0, -1), -2.5, 0.3), BlochSphereRotation(0, (1, 0, 0), 0.0, 2.0)]
    # half-turns about axes with negative components, as merging two default gates produces them
    from opensquirrel.merger.general_merger import compose_bloch_sphere_rotations as _comp
    for a_ in G.NOPARAM:
        for b_ in G.NOPARAM:
            try: corpus.append(_comp(getattr(dg, a_)(0), getattr(dg, b_)(0)))
            except Exception: pass
    # half turns (and near-half turns) about axes in the coordinate planes, every sign pattern, several phases: the
    # single-CNOT shortcut, the alpha = pi branches and the pivot choice of the phase measurement all live here
    for k_, th_ in itertools.product(range(3), [0.0, 0.5, math.pi / 2, 2.2, math.pi, -2.0, -0.7]):
        v = [math.cos(th_), math.sin(th_)]; v.insert(k_, 0.0)
        for al_, ph_ in [(math.pi, 0.0), (math.pi, math.pi / 2), (math.pi, -math.pi / 2), (math.pi, 1.0), (math.pi - 1e-3, 0.3), (-math.pi + 1e-3, -1.2)]:
            corpus.append(BlochSphereRotation(0, tuple(v), al_, ph_))
    # rotations about exactly +-x, +-y, +-z (named and anonymous) with many angles: the arguments of acos reach 1 up to rounding
    for _ in range(run.n(120, 1500)):
        k_ = rng.randrange(3); v = [0.0, 0.0, 0.0]; v[k_] = rng.choice([1.0, -1.0])
        th_ = rng.uniform(-math.pi, math.pi)
        corpus.append(BlochSphereRotation(0, tuple(v), th_, rng.choice([0.0, 0.4])) if rng.random() < 0.5 else getattr(dg, ["Rx", "Ry", "Rz"][k_])(0, Float(th_)))
    for o in corpus:
        for d in O.DECOMPOSERS:
            cases.append({"d": d, "s": W.w_stmt(ControlledGate(1, o)) if d == "CNOT" else W.w_stmt(o), "band": False})
    for o in [dg.H(0), BlochSphereRotation(0, (1, 2, 3), math.pi), BlochSphereRotation(0, (-1, -1, -1), math.pi), dg.X(0), dg.Z(0), dg.S(0), dg.Rz(0, Float(0.3))]:
        cases.append({"d": "CNOT", "s": W.w_stmt(ControlledGate(1, o)), "band": False})
    return cases

def circ_cases(run: Run, n):
    rng = random.Random(run.seed * 104729 + 2)
    g = G.Gen(rng)
    cases = []
    for i in range(n):
        g.band = False
        c = g.circuit(sparse=(i % 7 == 0), kinds="all")
        if i % 3 == 0 and c["stmts"]:
            # identity gates (which decompose to nothing) directly in front of other gates
            import opensquirrel.default_gates as _dg
            qs = [q for s in c["stmts"] for q in R.stmt_qubits(s)] or [0]
            for _ in range(rng.randint(1, 3)):
                c["stmts"].insert(rng.randrange(len(c["stmts"])), W.w_stmt(_dg.I(rng.choice(qs))))
        cases.append({"d": rng.choice(O.DECOMPOSERS), "c": c, "band": g.band})
    return cases

ABA_AXES = {"XYX": ("Rx", "Ry"), "XZX": ("Rx", "Rz"), "YXY": ("Ry", "Rx"), "YZY": ("Ry", "Rz"), "ZXZ": ("Rz", "Rx"), "ZYZ": ("Rz", "Ry")}

def in_scope(d, s):
    g = s["g"]
    if d == "CNOT":
        return g["k"] == "ctrl" and g["g"]["k"] == "bsr"
    if d == "McKay":
        return g["k"] == "bsr" and not (s["nm"] and s["nm"]["name"] in ("Rz", "X90"))
    return g["k"] == "bsr"

def is_identity_gate(g, atol=1e-7):
    if g["k"] == "bsr": return abs(g["angle"]) < atol and abs(g["phase"]) < atol
    if g["k"] == "ctrl": return is_identity_gate(g["g"], atol)
    return False

def shape_violation(d, s, out):
    """C10: the advertised target gate set; returns a message or None"""
    if not in_scope(d, s):
        return None if (len(out) == 1 and W.diff(out[0], s, 0.0) is None) else "out-of-scope gate not passed through unchanged"
    for o in out:
        if o["nm"] is None: return "anonymous gate emitted"
        if is_identity_gate(o["g"]): return "identity gate emitted"
    names = [o["nm"]["name"] for o in out]
    qs = set(R.gate_ops(s["g"]))
    for o in out:
        if not set(R.gate_ops(o["g"])) <= qs: return "emitted gate on a foreign qubit"
    if d in ABA_AXES:
        a, b = ABA_AXES[d]
        if len(out) > 3: return "more than three rotations"
        # a subsequence of [A, B, A]
        allowed = [[], [a], [b], [a, b], [b, a], [a, a], [a, b, a]]
        if names not in allowed: return f"not A-B-A ordered: {names}"
    elif d == "McKay":
        if len(out) > 5: return "more than five gates"
        if any(n not in ("Rz", "X90") for n in names): return f"gate outside Rz/X90: {names}"
        if names.count("X90") > 2: return "more than two X90"
    elif d == "CNOT":
        if names.count("CNOT") > 2: return "more than two CNOT"
        if any(n not in ("CNOT", "Ry", "Rz") for n in names): return f"gate outside CNOT/Ry/Rz: {names}"
    return None

def circuit_shape_violation(d, stmts):
    """C10 on a whole decomposed circuit: every gate in the decomposer's scope has been rewritten into the target set"""
    for s in stmts:
        if s["k"] != "gate": continue
        g = s["g"]; nm = s["nm"]["name"] if s["nm"] else None
        if d in ABA_AXES and g["k"] == "bsr":
            if nm not in ABA_AXES[d]: return f"single-qubit gate {nm or 'anonymous'} left after the {d} pass"
            if is_identity_gate(g): return "identity gate left"
        elif d == "McKay" and g["k"] == "bsr":
            if nm not in ("Rz", "X90"): return f"single-qubit gate {nm or 'anonymous'} left after the McKay pass"
        elif d == "CNOT" and g["k"] == "ctrl" and g["g"]["k"] == "bsr":
            if nm != "CNOT": return f"controlled gate {nm or 'anonymous'} left after the CNOT pass"
    return None

def run_decomposition(run: Run, want_c01: bool, want_c10: bool):
    # ---------- gate level: decomposer output (no replacement check)
    gc = gate_cases(run, run.n(150, 2500))
    res = batch_tie(run, "decomposer.decompose", gc, lambda c: O.req_dgate(c["d"], c["s"]),
                    lambda c: O.impl_dgate(c["d"], c["s"]), O.parse_dgate, cmp_val())
    # circuit level on the single gate: the pass with its own replacement check
    single = [{"d": c["d"], "c": {"nq": 3, "nb": 0, "stmts": [c["s"]]}, "band": c["band"]} for c in gc]
    res1 = batch_tie(run, "Circuit.decompose(single gate)", single, lambda c: O.req_decompose(c["d"], c["c"]),
                     lambda c: O.impl_decompose(c["d"], c["c"]), O.parse_pass, cmp_pass)
    for (c, r, _), (c1, r1, _) in zip(res, res1):
        run.count({"d": c["d"], "s": c["s"]}, nontrivial=in_scope(c["d"], c["s"]), tag=("band" if c["band"] else "plain") + ":" + c["d"])
        if "harness_error" in r or "harness_error" in r1: continue
        out = r["v"]
        if want_c01:
            if r["err"] is not None:
                run.violation(f"{c['d']}.decompose raised {r['err']}", c)
            else:
                ok, dist, why = R.equiv_stmts([c["s"]], out, TOL_OP)
                if not ok:
                    run.violation(f"{c['d']} output is not equivalent to the gate (distance {dist:.3g})", c)
                elif r1["err"] is not None:
                    # decomposition is right (to 1e-6) but the pass raised: the checker's tolerance rejected it
                    fk = "C01-band-compound" if c["band"] else None
                    run.violation(f"Circuit.decompose({c['d']}) raised {r1['err']} on a well-formed gate (decomposition distance {dist:.3g})", c, fk)
        if want_c10 and r["err"] is None:
            msg = shape_violation(c["d"], c["s"], out)
            if msg: run.violation(f"{c['d']}: {msg}", c)
    # ---------- circuit level
    cc = circ_cases(run, run.n(120, 3000))
    resc = batch_tie(run, "Circuit.decompose", cc, lambda c: O.req_decompose(c["d"], c["c"]),
                     lambda c: O.impl_decompose(c["d"], c["c"]), O.parse_pass, cmp_pass)
    for c, r, _ in resc:
        run.count(c, tag="circuit:" + c["d"])
        if "harness_error" in r: continue
        if want_c01:
            if r["err"] is not None:
                run.violation(f"Circuit.decompose({c['d']}) raised {r['err']} on a well-formed circuit", c, "C01-band-compound" if c["band"] else None)
                continue
            a, b = c["c"], r["c"]
            if (a["nq"], a["nb"]) != (b["nq"], b["nb"]): run.violation("registers changed", c)
            if W.diff(non_gates(a["stmts"]), non_gates(b["stmts"]), 0.0): run.violation("comments/measurements/resets changed", c)
            # in place: the non-gate statements keep their position relative to the gates' replacements
            ok, dist, why = R.equiv_stmts(a["stmts"], b["stmts"], TOL_OP * max(1, len(b["stmts"])))
            if not ok: run.violation(f"decomposed circuit not equivalent ({why}, distance {dist:.3g})", c)
        if want_c10 and r["err"] is None:
            msg = circuit_shape_violation(c["d"], r["c"]["stmts"])
            if msg: run.violation(f"Circuit.decompose({c['d']}): {msg}", c)
    if want_c10:
        check_pipeline_cnot_merge_mckay(run)

def check_pipeline_cnot_merge_mckay(run: Run):
    """C10: the pipeline CNOT-decompose -> merge -> McKay delivers only CNOT / Rz / X90"""
    rng = random.Random(run.seed * 31 + 5); g = G.Gen(rng)
    for i in range(run.n(40, 600)):
        g.band = False
        c = g.circuit(n=rng.randint(2, 3), kinds="all", allow_band=False, max_outcomes=2)
        c["stmts"] = [s for s in c["stmts"] if not (s["k"] == "gate" and (s["g"]["k"] == "mat" or (s["g"]["k"] == "ctrl" and s["g"]["g"]["k"] != "bsr")))]
        circ = W.os_circuit(c)
        try:
            circ.decompose(O.os_decomposer("CNOT")); circ.merge_single_qubit_gates(); circ.decompose(O.os_decomposer("McKay"))
        except Exception as ex:
            run.violation(f"pipeline CNOT->merge->McKay raised {O.err_name(ex)}", {"c": c}); continue
        out = W.w_circuit(circ)
        run.count({"pipeline": c}, tag="pipeline")
        for s in out["stmts"]:
            if s["k"] != "gate": continue
            nm = s["nm"]["name"] if s["nm"] else None
            if nm not in ("CNOT", "Rz", "X90"):
                run.violation(f"pipeline CNOT->merge->McKay left gate {nm or 'anonymous'}", {"c": c}); break
        ok, dist, why = R.equiv_stmts(c["stmts"], out["stmts"], TOL_OP * max(1, len(out["stmts"])))
        if not ok: run.violation(f"pipeline result not equivalent ({why}, {dist:.3g})", {"c": c})

def check_C01(run: Run): run_decomposition(run, True, False)
def check_C10(run: Run): run_decomposition(run, False, True)

# ----------------------------------------------------------------------------------------- C02 / C14
def merge_alphabet(nq):
    """templates for the bounded-exhaustive merge programs (statement factories on concrete qubits)"""
    import opensquirrel.default_gates as dg, opensquirrel.default_measures as dm
    from opensquirrel.default_resets import reset
    from opensquirrel.ir import BlochSphereRotation, Float, Bit, MatrixGate, ControlledGate
    import numpy as np
    t = []
    for q in range(nq):
        t += [lambda q=q: dg.H(q), lambda q=q: dg.X(q), lambda q=q: dg.Rz(q, Float(0.5)), lambda q=q: dg.Rz(q, Float(-0.5)),
              lambda q=q: BlochSphereRotation(q, (1, 1, 0), 1.0, 0.3), lambda q=q: dm.measure(q, Bit(0)), lambda q=q: reset(q)]
    for a in range(nq):
        for b in range(nq):
            if a != b:
                t.append(lambda a=a, b=b: dg.CNOT(a, b))
    if nq >= 2:
        t.append(lambda: MatrixGate(np.array([[1, 0, 0, 0], [0, 0, 1, 0], [0, 1, 0, 0], [0, 0, 0, 1]], complex), [0, 1]))
    from opensquirrel.ir import Comment
    t.append(lambda: Comment("c"))
    return t

def merge_cases(run: Run):
    rng = random.Random(run.seed * 15485863 + 3); g = G.Gen(rng)
    cases = []
    # bounded-exhaustive small programs
    if run.quick():
        alpha = merge_alphabet(2)
        for L in (1, 2):
            for combo in itertools.product(range(len(alpha)), repeat=L):
                cases.append({"c": {"nq": 2, "nb": 1, "stmts": [W.w_stmt(alpha[i]()) for i in combo]}, "band": False, "ex": True})
        for _ in range(150):
            combo = [rng.randrange(len(alpha)) for _ in range(rng.randint(3, 5))]
            cases.append({"c": {"nq": 2, "nb": 1, "stmts": [W.w_stmt(alpha[i]()) for i in combo]}, "band": False, "ex": False})
    else:
        for nq in (1, 2, 3):
            alpha = merge_alphabet(nq)
            maxL = {1: 5, 2: 3, 3: 3}[nq]
            for L in range(1, maxL + 1):
                for combo in itertools.product(range(len(alpha)), repeat=L):
                    cases.append({"c": {"nq": nq, "nb": 1, "stmts": [W.w_stmt(alpha[i]()) for i in combo]}, "band": False, "ex": True})
            for _ in range(3000):
                combo = [rng.randrange(len(alpha)) for _ in range(rng.randint(4, 5))]
                cases.append({"c": {"nq": nq, "nb": 1, "stmts": [W.w_stmt(alpha[i]()) for i in combo]}, "band": False, "ex": False})
    # every ordered pair of parameter-free default gates on one qubit, fused at the end of the circuit (renaming to default gates)
    import opensquirrel.default_gates as _dg0
    for a_ in G.NOPARAM:
        for b_ in G.NOPARAM:
            cases.append({"c": {"nq": 2, "nb": 1, "stmts": [W.w_stmt(getattr(_dg0, a_)(1)), W.w_stmt(getattr(_dg0, b_)(1))]}, "band": False, "ex": True})
    for a_ in G.NOPARAM:
        for th in (math.pi / 2, -math.pi / 2, math.pi / 4, -math.pi / 4, math.pi):
            from opensquirrel.ir import Float as _F0
            for r_ in ("Rx", "Ry", "Rz"):
                if rng.random() < run.n(0.25, 1.0):
                    cases.append({"c": {"nq": 1, "nb": 1, "stmts": [W.w_stmt(getattr(_dg0, a_)(0)), W.w_stmt(getattr(_dg0, r_)(0, _F0(th)))]}, "band": False, "ex": False})
    # small but not negligible rotations (2e-7 .. 1e-3, well outside the 1e-7 identity band): alone, in front of and behind a
    # two-qubit gate, next to another gate - they must neither be dropped nor carried across the barrier
    for nm_ in ("Rx", "Ry", "Rz"):
        for th in (3e-7, 1e-6, 1e-5, -1e-5, 1e-4, -4e-4, 1e-3):
            sm = lambda q_: W.w_stmt(getattr(_dg0, nm_)(q_, _F0(th)))
            cx = W.w_stmt(_dg0.CNOT(0, 1))
            for st_ in ([sm(1)], [sm(1), cx, W.w_stmt(_dg0.X(1))], [W.w_stmt(_dg0.H(1)), cx, sm(1)], [sm(0), cx, sm(0)], [sm(1), W.w_stmt(_dg0.H(1))]):
                if run.quick() and rng.random() < 0.5: continue
                cases.append({"c": {"nq": 2, "nb": 1, "stmts": st_}, "band": False, "ex": False})
    from opensquirrel.ir import BlochSphereRotation as _B1
    import opensquirrel.default_gates as _dg1
    from opensquirrel.ir import Float as _F1
    # two half turns about one oblique axis make a full turn (the acos argument is -1 up to rounding, from either side)
    int_axes = [ax_ for ax_ in itertools.product(range(-3, 4), repeat=3) if any(ax_) and sum(1 for x_ in ax_ if x_) >= 2]
    for ax_ in (int_axes if not run.quick() else rng.sample(int_axes, 60)):
        for a1, a2 in ((math.pi, math.pi), (math.pi, -math.pi), (-math.pi, -math.pi)):
            st_ = [W.w_stmt(_B1(0, ax_, a1, 0.0)), W.w_stmt(_B1(0, ax_, a2, 0.0))]
            cases.append({"c": {"nq": 2, "nb": 1, "stmts": st_ + [W.w_stmt(_dg1.CNOT(0, 1)), W.w_stmt(_dg1.H(0))]}, "band": False, "ex": False})
    # pairs that cancel as rotations while their stored phases differ (X then Rx(pi), Z then Rz(pi), S S Z, ...): nothing may be left
    for st_ in ([_dg1.X(0), _dg1.Rx(0, _F1(math.pi))], [_dg1.Z(0), _dg1.Rz(0, _F1(math.pi))], [_dg1.Y(0), _dg1.Ry(0, _F1(-math.pi))], [_dg1.S(0), _dg1.S(0), _dg1.Z(0)],
                [_dg1.T(0), _dg1.T(0), _dg1.S(0), _dg1.Z(0)], [_dg1.Rx(0, _F1(math.pi)), _dg1.Rx(0, _F1(math.pi))], [_dg1.X(0), _dg1.Rx(0, _F1(-math.pi))], [_dg1.Rz(0, _F1(math.pi)), _dg1.Z(0)]):
        cases.append({"c": {"nq": 1, "nb": 1, "stmts": [W.w_stmt(x_) for x_ in st_]}, "band": False, "ex": False, "cancel": True})
        cases.append({"c": {"nq": 2, "nb": 1, "stmts": [W.w_stmt(x_) for x_ in st_] + [W.w_stmt(_dg1.CNOT(0, 1))]}, "band": False, "ex": False, "cancel": True})
    # a rotation directly followed by its exact inverse (cos^2 + sin^2 may evaluate to 1.0000000000000002)
    from opensquirrel.ir import BlochSphereRotation as _B1
    import opensquirrel.default_gates as _dg1
    from opensquirrel.ir import Float as _F1
    for _ in range(run.n(400, 6000)):
        th = rng.uniform(-math.pi, math.pi)
        if rng.random() < 0.5:
            nm_ = rng.choice(["Rx", "Ry", "Rz"])
            pair = [W.w_stmt(getattr(_dg1, nm_)(0, _F1(th))), W.w_stmt(getattr(_dg1, nm_)(0, _F1(-th)))]
        else:
            ax = rng.choice([(1, 1, 0), (1, 0, 1), (0, 1, 1), (1, 1, 1), (1, -1, 0), (1, 2, 3)])
            pair = [W.w_stmt(_B1(0, ax, th, 0.0)), W.w_stmt(_B1(0, ax, -th, 0.0))]
        cases.append({"c": {"nq": 1, "nb": 1, "stmts": pair}, "band": False, "ex": False})
    # lone named rotations whose operation coincides with a parameter-free default gate (must keep name and parameter)
    import opensquirrel.default_gates as _dg
    from opensquirrel.ir import Float as _F
    for name, th in [("Rx", math.pi / 2), ("Ry", math.pi / 2), ("Rz", math.pi / 2), ("Rz", math.pi / 4), ("Rx", -math.pi / 2), ("Rz", -math.pi / 4), ("Rx", math.pi), ("Rz", 0.78539816)]:
        for tail in ([], [W.w_stmt(_dg.CNOT(0, 1))], [g.measure(0, 0)]):
            for head in ([], [W.w_stmt(_dg.CNOT(1, 0))]):
                cases.append({"c": {"nq": 2, "nb": 1, "stmts": head + [W.w_stmt(getattr(_dg, name)(0, _F(th)))] + tail}, "band": False, "ex": False})
    # the only single-qubit gate of the circuit is an identity
    for idg in [_dg.I(0), _dg.Rx(0, _F(2 * math.pi)), _dg.Rz(1, _F(0.0))]:
        for extra in ([], [W.w_stmt(_dg.CNOT(0, 1))], [W.w_stmt(_dg.CNOT(0, 1)), g.measure(0, 0)]):
            cases.append({"c": {"nq": 2, "nb": 1, "stmts": [W.w_stmt(idg)] + extra}, "band": False, "ex": False})
            cases.append({"c": {"nq": 2, "nb": 1, "stmts": extra + [W.w_stmt(idg)]}, "band": False, "ex": False})
    # random circuits with cancellation structure
    from opensquirrel.ir import BlochSphereRotation
    for i in range(run.n(150, 4000)):
        g.band = False
        c = g.circuit(length=rng.randint(1, 40 if i % 5 == 0 else 12), kinds="all")
        # inject cancelling pairs
        if rng.random() < 0.5:
            q = rng.randrange(min(c["nq"], 4)) if c["nq"] <= 4 else R.stmt_qubits(c["stmts"][0])[0] if R.stmt_qubits(c["stmts"][0]) else 0
            ax = g.axis(False); an = g.angle(False)
            pair = [W.w_stmt(BlochSphereRotation(q, ax, an, 0.4)), W.w_stmt(BlochSphereRotation(q, rng.choice([ax, tuple(-x for x in ax)]), rng.choice([-an, an, math.pi - an]), -0.4))]
            pos = rng.randrange(len(c["stmts"]) + 1)
            c["stmts"][pos:pos] = pair
        cases.append({"c": c, "band": g.band, "ex": False})
    return cases

def is_bsr_stmt(s): return s["k"] == "gate" and s["g"]["k"] == "bsr"

def barrier_view(stmts):
    return [s for s in stmts if not is_bsr_stmt(s)]

def per_qubit_trace(stmts, q):
    return [s for s in stmts if q in R.stmt_qubits(s)]

def run_merge(run: Run, want_c02: bool, want_c14: bool):
    cases = merge_cases(run)
    res = batch_tie(run, "Circuit.merge_single_qubit_gates", cases, lambda c: O.req_merge(c["c"]),
                    lambda c: O.impl_merge(c["c"]), O.parse_pass, cmp_pass)
    for c, r, _ in res:
        nbsr = sum(1 for s in c["c"]["stmts"] if is_bsr_stmt(s))
        run.count(c["c"], nontrivial=nbsr >= 1, tag="exhaustive" if c.get("ex") else ("band" if c["band"] else "random"))
        if "harness_error" in r: continue
        a, b = c["c"], r["c"]
        if r["err"] is not None:
            if want_c02: run.violation(f"merge raised {r['err']} on a well-formed circuit", c)
            continue
        if want_c02:
            if (a["nq"], a["nb"]) != (b["nq"], b["nb"]): run.violation("registers changed", c)
            if W.diff(barrier_view(a["stmts"]), barrier_view(b["stmts"]), 0.0):
                run.violation("multi-qubit gates / measurements / resets / comments dropped, duplicated, altered or reordered", c)
            ok, dist, why = R.equiv_stmts(a["stmts"], b["stmts"], TOL_OP * max(1, len(a["stmts"])))
            if not ok: run.violation(f"merged circuit not equivalent ({why}, distance {dist:.3g})", c)
            else:
                # no single-qubit gate crosses a barrier on its qubit: segment-wise equivalence per qubit
                for q in sorted({x for s in a["stmts"] for x in R.stmt_qubits(s)}):
                    ta, tb = per_qubit_trace(a["stmts"], q), per_qubit_trace(b["stmts"], q)
                    sa, sb = split_segments(ta), split_segments(tb)
                    if len(sa) != len(sb):
                        run.violation(f"qubit {q}: barrier structure changed", c); break
                    bad = False
                    for x, y in zip(sa, sb):
                        okk, dd, _ = R.equiv_stmts(x, y, TOL_OP * max(1, len(x)))
                        if not okk:
                            run.violation(f"qubit {q}: a single-qubit gate moved across a barrier (segment distance {dd:.3g})", c); bad = True; break
                    if bad: break
        if want_c14:
            for q in sorted({x for s in b["stmts"] for x in R.stmt_qubits(s)}):
                tb = per_qubit_trace(b["stmts"], q)
                for s1, s2 in zip(tb, tb[1:]):
                    if is_bsr_stmt(s1) and is_bsr_stmt(s2):
                        run.violation(f"after merging, qubit {q} carries two adjacent single-qubit gates", c); break
            for s in b["stmts"]:
                if is_bsr_stmt(s) and is_identity_gate(s["g"]):
                    run.violation("identity gate left after merging", c); break
            if not any(is_bsr_stmt(s) and abs(s["g"]["angle"]) < 3e-7 for s in a["stmts"]):
                for s in b["stmts"]:
                    if is_bsr_stmt(s) and abs(s["g"]["angle"]) < 1e-7:
                        run.violation("a gate that does nothing (rotation by 0, only a global phase) is left after merging", c); break
            # stability
            r2 = O.impl_merge(b)
            if r2["err"] is not None: run.violation(f"second merge raised {r2['err']}", c)
            else:
                if len(r2["c"]["stmts"]) != len(b["stmts"]): run.violation("second merge changed the number of statements", c)
                ok2, d2, _ = R.equiv_stmts(b["stmts"], r2["c"]["stmts"], TOL_OP * max(1, len(b["stmts"])))
                if not ok2: run.violation(f"second merge changed the operation ({d2:.3g})", c)
            # a gate with nothing to fuse with keeps its name and parameters
            for q in sorted({x for s in a["stmts"] for x in R.stmt_qubits(s)}):
                sa, sb = split_segments(per_qubit_trace(a["stmts"], q)), split_segments(per_qubit_trace(b["stmts"], q))
                if len(sa) != len(sb): continue
                for x, y in zip(sa, sb):
                    if len(x) == 1 and is_bsr_stmt(x[0]) and x[0]["nm"] is not None and not is_identity_gate(x[0]["g"], 3e-7):   # out of the identity band
                        if len(y) != 1 or y[0]["nm"] is None or W.diff(y[0]["nm"], x[0]["nm"], 0.0):
                            run.violation(f"a single-qubit gate with nothing to fuse with lost its name/parameters ({x[0]['nm']['name']})", c)

def split_segments(trace):
    """split a per-qubit trace at barrier statements: [seg0, [barrier], seg1, ...]"""
    out = [[]]
    for s in trace:
        if is_bsr_stmt(s): out[-1].append(s)
        else: out.append([s]); out.append([])
    return out

def merge_histories(run: Run):
    """C14 on ONE circuit object with other passes in between: every merge call reaches the normal form again"""
    rng = random.Random(run.seed * 977 + 5); g = G.Gen(rng)
    import opensquirrel.default_gates as dg
    from opensquirrel.decomposer.aba_decomposer import ZYZDecomposer
    for _ in range(run.n(20, 200)):
        n = rng.randint(2, 3)
        c = g.circuit(n=n, kinds="named", allow_band=False, length=rng.randint(3, 8))
        c["stmts"] = [s for s in c["stmts"] if s["k"] != "comment"] + [W.w_stmt(dg.CNOT(0, 1)), W.w_stmt(dg.H(1))]
        circ = W.os_circuit(c)
        hist = []
        try:
            circ.merge_single_qubit_gates(); hist.append("merge")
            for step in range(rng.randint(1, 3)):
                k = rng.randrange(3)
                if k == 0: circ.replace(dg.CNOT, lambda c_, t_: [dg.H(t_), dg.CZ(c_, t_), dg.H(t_)]); hist.append("replace CNOT")
                elif k == 1: circ.replace(dg.CZ, lambda c_, t_: [dg.H(t_), dg.CNOT(c_, t_), dg.H(t_)]); hist.append("replace CZ")
                else: circ.decompose(ZYZDecomposer()); hist.append("decompose ZYZ")
                before = W.w_circuit(circ)
                circ.merge_single_qubit_gates(); hist.append("merge")
                b = W.w_circuit(circ)
                run.count({"history": hist[:], "c": c}, tag="history")
                bad = None
                for q in sorted({x for s in b["stmts"] for x in R.stmt_qubits(s)}):
                    tb = per_qubit_trace(b["stmts"], q)
                    if any(is_bsr_stmt(s1) and is_bsr_stmt(s2) for s1, s2 in zip(tb, tb[1:])): bad = f"qubit {q} carries two adjacent single-qubit gates"
                if any(is_bsr_stmt(s) and is_identity_gate(s["g"]) for s in b["stmts"]): bad = "an identity gate is left"
                if bad: run.violation(f"after {hist} on one circuit object: {bad}", {"c": c, "history": hist}); break
                ok, dist, why = R.equiv_stmts(before["stmts"], b["stmts"], TOL_OP * max(1, len(before["stmts"])))
                if not ok: run.violation(f"after {hist}: the merge changed the operation ({why}, {dist:.3g})", {"c": c, "history": hist}); break
        except Exception as ex:
            run.violation(f"history {hist} raised {O.err_name(ex)}", {"c": c, "history": hist})

def check_C02(run: Run): run_merge(run, True, False)
def check_C14(run: Run):
    run_merge(run, False, True)
    merge_histories(run)

# ----------------------------------------------------------------------------------------- C06
def exact_decompositions(g: G.Gen):
    """(gate statement, exact replacement list) pairs obtained from the built-in decomposers and identities"""
    import opensquirrel.default_gates as dg
    from opensquirrel.ir import BlochSphereRotation, ControlledGate, Float
    rng = g.rng
    out = []
    pairs = [(dg.H(0), [dg.Y90(0), dg.X(0)]), (dg.CNOT(0, 1), [dg.H(1), dg.CZ(0, 1), dg.H(1)]), (dg.CZ(0, 1), [dg.H(1), dg.CNOT(0, 1), dg.H(1)]),
             (dg.X(0), [dg.H(0), dg.Z(0), dg.H(0)]), (dg.I(0), []), (dg.I(0), [dg.H(0), dg.H(0)]), (dg.S(0), [dg.T(0), dg.T(0)]),
             (dg.CNOT(2, 0), [dg.H(0), dg.CZ(2, 0), dg.H(0)])]
    for a, b in pairs:
        out.append((W.w_stmt(a), [W.w_stmt(x) for x in b]))
    for _ in range(12):
        s = g.bsr(0, False)
        d = rng.choice(["XYX", "ZYZ", "ZXZ", "McKay"])
        r = O.impl_dgate(d, s)
        if r["err"] is None: out.append((s, r["v"]))
        s2 = g.ctrl_anon(1, 0, False)
        r = O.impl_dgate("CNOT", s2)
        if r["err"] is None: out.append((s2, r["v"]))
    return out

def perturb(g: G.Gen, gate, repl):
    """near-misses of an exact replacement: (label, list, expected_accept) where expected is None when it
    depends on the tolerance"""
    rng = g.rng
    from opensquirrel.ir import BlochSphereRotation
    outs = [("exact", repl, True)]
    bsr_idx = [i for i, s in enumerate(repl) if s["g"]["k"] == "bsr"]
    if bsr_idx:
        i = rng.choice(bsr_idx)
        for eps in (1e-12, 1e-9, 1e-4, 3e-4, 1e-3, 1e-2, 1.0):
            p = copy.deepcopy(repl); gg = p[i]["g"]
            p[i] = W.w_stmt(BlochSphereRotation(gg["q"], gg["axis"], gg["angle"] + eps, gg["phase"]))
            outs.append((f"angle+{eps:g}", p, True if eps <= 1e-9 else (False if eps >= 3e-4 else None)))
        j = rng.choice(bsr_idx)
        p = copy.deepcopy(repl); gg = p[j]["g"]
        p[j] = W.w_stmt(BlochSphereRotation(gg["q"], gg["axis"], gg["angle"], gg["phase"] + 0.7))
        outs.append(("global phase on one gate", p, True))
    if len(repl) >= 1:
        p = copy.deepcopy(repl); k = rng.randrange(len(p)); del p[k]
        outs.append(("dropped element", p, None))
        p = copy.deepcopy(repl); k = rng.randrange(len(p)); p.insert(k, copy.deepcopy(p[k]))
        outs.append(("duplicated element", p, None))
    if len(repl) >= 2:
        p = copy.deepcopy(repl); p[0], p[-1] = p[-1], p[0]
        outs.append(("reordered", p, None))
    qs = R.gate_ops(gate["g"])
    foreign = max(qs) + 1
    outs.append(("foreign qubit", repl + [g.named1(foreign)], False))
    outs.append(("empty list", [], None))
    if len(qs) == 2:
        sw = {qs[0]: qs[1], qs[1]: qs[0]}
        outs.append(("control/target swapped", [R.rename_stmt(s, lambda q: sw.get(q, q)) for s in repl], None))
        # relative phase on one operand
        from opensquirrel.ir import ControlledGate
        import opensquirrel.default_gates as dg
        from opensquirrel.ir import Float
        outs.append(("relative phase 1e-3", repl + [W.w_stmt(dg.Rz(qs[0], Float(1e-3)))], False))
    return outs

def check_C06(run: Run):
    rng = random.Random(run.seed * 2147483647 % 999983 + 4); g = G.Gen(rng)
    pairs = []
    for _ in range(run.n(2, 12)):
        pairs += exact_decompositions(g)
    cases = []
    for gate, repl in pairs:
        for label, cand, exp in perturb(g, gate, repl):
            cases.append({"g": gate, "cand": cand, "label": label, "exp": exp})
    # a multiple of the right matrix is not "equal up to a global phase" unless the factor has modulus one
    import cmath
    import opensquirrel.default_gates as _dg6
    from opensquirrel.ir import MatrixGate as _MG6
    Mc = np.array([[1, 0, 0, 0], [0, 1, 0, 0], [0, 0, 0, 1], [0, 0, 1, 0]], complex); Mz = np.diag([1, 1, 1, -1]).astype(complex)
    Ug = g.unitary(2)
    for gate_, mat_, ops_ in ((_dg6.CNOT(0, 1), Mc, [0, 1]), (_dg6.CZ(1, 0), Mz, [1, 0]), (_MG6(Ug, [0, 1]), Ug, [0, 1])):
        for f_, exp_ in ((2.0, False), (0.5, False), (1e3, False), (3j, False), (1 + 1e-3, False), (-1.0, True), (cmath.exp(0.7j), True), (1 + 1e-12, True)):
            cases.append({"g": W.w_stmt(gate_), "cand": [W.w_stmt(_MG6(f_ * mat_, ops_))], "label": f"matrix times {f_:.4g}", "exp": exp_})
    # named candidates: after the right one was accepted, the same names on the same qubits with another parameter are wrong
    from opensquirrel.ir import Float as _F6
    for th_ in (0.5, -1.3):
        for q_ in (0, 1):
            good = [_dg6.H(q_), _dg6.Rz(q_, _F6(th_)), _dg6.H(q_)]
            cases.append({"g": W.w_stmt(_dg6.Rx(q_, _F6(th_))), "cand": [W.w_stmt(x_) for x_ in good], "label": "exact (named)", "exp": True})
            for d_ in (1.0, 3e-3, -0.4):
                bad = [_dg6.H(q_), _dg6.Rz(q_, _F6(th_ + d_)), _dg6.H(q_)]
                cases.append({"g": W.w_stmt(_dg6.Rx(q_, _F6(th_))), "cand": [W.w_stmt(x_) for x_ in bad], "label": f"named parameter+{d_:g}", "exp": False})
            cases.append({"g": W.w_stmt(_dg6.Rx(q_, _F6(th_))), "cand": [W.w_stmt(x_) for x_ in good], "label": "exact (named, again)", "exp": True})
    cases.append({"g": W.w_stmt(_dg6.CR(0, 1, _F6(0.7))), "cand": [W.w_stmt(_dg6.CR(0, 1, _F6(0.7)))], "label": "exact (named)", "exp": True})
    cases.append({"g": W.w_stmt(_dg6.CR(0, 1, _F6(0.7))), "cand": [W.w_stmt(_dg6.CR(0, 1, _F6(1.7)))], "label": "named parameter+1", "exp": False})
    cases.append({"g": W.w_stmt(_dg6.CRk(0, 1, 2)), "cand": [W.w_stmt(_dg6.CRk(0, 1, 2))], "label": "exact (named)", "exp": True})
    cases.append({"g": W.w_stmt(_dg6.CRk(0, 1, 2)), "cand": [W.w_stmt(_dg6.CRk(0, 1, 3))], "label": "named parameter+1", "exp": False})
    # the same rotation bare and as the target of a control inside one candidate list
    for gate_, cand_, exp_ in ((_dg6.CNOT(0, 1), [_dg6.X(1), _dg6.CNOT(0, 1), _dg6.X(1)], True), (_dg6.CZ(0, 1), [_dg6.Z(1), _dg6.CZ(0, 1), _dg6.Z(1)], True),
                               (_dg6.X(1), [_dg6.CNOT(0, 1), _dg6.CNOT(0, 1), _dg6.X(1)], True), (_dg6.CNOT(0, 1), [_dg6.CNOT(0, 1), _dg6.X(1), _dg6.X(1)], True),
                               (_dg6.CNOT(0, 1), [_dg6.X(1), _dg6.CNOT(0, 1)], False), (_dg6.CNOT(2, 1), [_dg6.CNOT(0, 1), _dg6.CNOT(2, 1), _dg6.CNOT(0, 1)], True)):
        cases.append({"g": W.w_stmt(gate_), "cand": [W.w_stmt(x_) for x_ in cand_], "label": "repeated rotation", "exp": exp_})
    def cmp_chk(case, r, m):
        if m is None: return None
        if r["err"] != m["err"]:
            return "ambiguous" if case["exp"] is None and case["label"].startswith("angle") else f"check {r['err']} vs model {m['err']}"
        return None
    res = batch_tie(run, "check_gate_replacement", cases, lambda c: O.req_check(c["g"]["g"], [s["g"] for s in c["cand"]]),
                    lambda c: O.impl_check_stmts(c["g"], c["cand"]), lambda l: O.parse_ok_err(l), cmp_chk)
    for c, r, _ in res:
        run.count({"g": c["g"], "cand": c["cand"]}, tag=c["label"])
        if "harness_error" in r: continue
        accepted = r["err"] is None
        qs = set(R.gate_ops(c["g"]["g"]))
        on_qubits = all(set(R.gate_ops(s["g"])) <= qs for s in c["cand"])
        ok, dist, _ = R.equiv_stmts([c["g"]], c["cand"], TOL_OP) if on_qubits else (False, float("inf"), "")
        if accepted and not on_qubits: run.violation(f"accepted a replacement touching other qubits ({c['label']})", c)
        elif accepted and dist > 6e-5: run.violation(f"accepted a replacement at operator distance {dist:.3g} ({c['label']})", c, fkey="C06-scalar-multiple" if c["label"].startswith("matrix times") else None)
        elif (not accepted) and on_qubits and dist < 1e-9: run.violation(f"rejected an exact replacement ({c['label']}, distance {dist:.3g}): {r['err']}", c)
        if not accepted and r["err"] != "ValueError": run.violation(f"rejection raised {r['err']} instead of ValueError ({c['label']})", c)
    # --- the verdict on a proposal is a function of the proposal: asked first, asked again after exact and wrong neighbours
    near = []
    for d_ in (0.0, 1e-9, 3e-7, 2.6e-6, 1e-5, 8e-5, 1e-3):
        near.append((W.w_stmt(_dg6.X(0)), [W.w_stmt(_dg6.Rx(0, _F6(math.pi - d_)))]))
        near.append((W.w_stmt(_dg6.Rx(1, _F6(0.5))), [W.w_stmt(_dg6.H(1)), W.w_stmt(_dg6.Rz(1, _F6(0.5 + d_))), W.w_stmt(_dg6.H(1))]))
        near.append((W.w_stmt(_dg6.CZ(0, 1)), [W.w_stmt(_dg6.CR(0, 1, _F6(math.pi - d_)))]))
    order = list(range(len(near))); rng.shuffle(order)
    first = {i: O.impl_check_stmts(*near[i])["err"] for i in order}
    for i in sorted(order): O.impl_check_stmts(*near[i])
    second = {i: O.impl_check_stmts(*near[i])["err"] for i in reversed(order)}
    run.count({"history-independence": len(near)}, tag="history")
    for i in order:
        if first[i] != second[i]:
            run.violation(f"the verdict on one and the same proposal changed with what was checked before ({first[i] or 'accepted'} at first, {second[i] or 'accepted'} later)",
                          {"g": near[i][0], "cand": near[i][1]}); break
    # --- replace(): only the requested name is rewritten, spliced in place
    import opensquirrel.default_gates as dg
    for i in range(run.n(40, 600)):
        g.band = False
        c = g.circuit(n=rng.randint(2, 3), kinds="all", allow_band=False)
        name, f = rng.choice([("CNOT", lambda a, b: [dg.H(b), dg.CZ(a, b), dg.H(b)]), ("CZ", lambda a, b: [dg.H(b), dg.CNOT(a, b), dg.H(b)]),
                              ("H", lambda q: [dg.Y90(q), dg.X(q)])])
        matching = [s for s in c["stmts"] if s["k"] == "gate" and s["nm"] and s["nm"]["name"] == name]
        script = [("r", [W.w_stmt(x) for x in f(*[a[1] for a in s["nm"]["args"]])]) for s in matching]
        r = O.impl_replace(name, c, script)
        m = O.parse_pass(__import__("model").run_batch([O.req_replace(name, c, script)])[0])
        run.count({"replace": name, "c": c}, nontrivial=bool(matching), tag="replace")
        d = cmp_pass({"band": False}, r, m)
        F_.record_tie(run, "Circuit.replace", d, {"name": name, "c": c}, {"err": r["err"], "c": r["c"]}, m)
        if r["err"] is not None: run.violation(f"replace({name}) with an exact rule raised {r['err']}", {"name": name, "c": c}); continue
        # expected: flatMap
        exp = []; it = iter(script)
        for s in c["stmts"]:
            if s["k"] == "gate" and s["nm"] and s["nm"]["name"] == name: exp += next(it)[1]
            else: exp.append(s)
        if W.diff(exp, r["c"]["stmts"], 1e-12): run.violation(f"replace({name}) did not splice the replacements exactly where the gates stood", {"name": name, "c": c})
        if r.get("callback_args") != [s["nm"]["args"] for s in matching]:
            run.violation(f"replace({name}) called the callback with other arguments than the gates'", {"name": name, "c": c})
    # --- an empty replacement (identity gate) must not hide the next gate from the decomposer
    import opensquirrel.default_gates as dg2
    for _ in range(run.n(30, 300)):
        nq = rng.randint(1, 3); q = rng.randrange(nq)
        pre = g.circuit(n=nq, kinds="named", allow_band=False, length=rng.randint(0, 3), max_outcomes=0)["stmts"]
        mid = [W.w_stmt(dg2.I(q))] * rng.randint(1, 3)
        nxt = g.named1(q)
        c = {"nq": nq, "nb": 1, "stmts": pre + mid + [nxt] + [W.w_stmt(dg2.H(rng.randrange(nq)))]}
        # script: drop identities, answer the gate right after the identities with a WRONG proposal
        script = []
        for s_ in c["stmts"]:
            if s_["k"] != "gate": continue
            if s_ is nxt: script.append(("r", [g.named1(q), g.named1(q)])); break
            script.append(("r", [] if (s_["nm"] and s_["nm"]["name"] == "I") else [s_]))
        okp, dist, _ = R.equiv_stmts([nxt], script[-1][1], 1e-3)
        r = O.impl_dcustom(c, script)
        m = O.parse_pass(__import__("model").run_batch([O.req_dcustom(c, script)])[0])
        run.count({"empty-then-wrong": c, "script": script}, tag="empty-replacement")
        d = cmp_pass({"band": False}, r, m)
        F_.record_tie(run, "Circuit.decompose(custom, empty replacement)", d, {"c": c, "script": script}, {"err": r["err"], "c": r["c"]}, m)
        if not okp and r["err"] is None:
            run.violation("a wrong proposal for the gate right after an empty replacement was not rejected", {"c": c, "script": script})
        # replace(I -> []) removes every I
        c2 = {"nq": nq, "nb": 1, "stmts": pre + mid + [nxt]}
        nI = sum(1 for s_ in c2["stmts"] if s_["k"] == "gate" and s_["nm"] and s_["nm"]["name"] == "I")
        r2 = O.impl_replace("I", c2, [("r", [])] * nI)
        if r2["err"] is not None: run.violation(f"replace(I -> []) raised {r2['err']}", {"c": c2})
        elif any(s_["k"] == "gate" and s_["nm"] and s_["nm"]["name"] == "I" for s_ in r2["c"]["stmts"]):
            run.violation("replace(I -> []) left an I gate in the circuit", {"c": c2})
    # --- failure at position k: prefix replaced, rest intact, circuit well-formed and equivalent
    for i in range(run.n(40, 500)):
        c = g.circuit(n=rng.randint(1, 3), kinds="all", allow_band=False)
        gates = [s for s in c["stmts"] if s["k"] == "gate"]
        if not gates: continue
        k = rng.randrange(len(gates))
        script = []
        for j, s in enumerate(gates[:k + 1]):
            if j < k:
                script.append(("r", [s, ] if rng.random() < 0.5 else (O.impl_dgate("ZYZ", s)["v"] if s["g"]["k"] == "bsr" and O.impl_dgate("ZYZ", s)["err"] is None else [s])))
            else:
                mode = rng.randrange(3)
                if mode == 0: script.append(("e", rng.choice(["ValueError", "KeyError", "TypeError"])))
                elif mode == 1: script.append(("r", [g.named1(max(R.gate_ops(s["g"])) + 1)]))       # foreign qubit
                else: script.append(("r", [s, g.named1(R.gate_ops(s["g"])[0])] if rng.random() < 0.9 else [s]))  # extra non-identity gate
        r = O.impl_dcustom(c, script)
        m = O.parse_pass(__import__("model").run_batch([O.req_dcustom(c, script)])[0])
        run.count({"dcustom": script, "c": c}, tag="fail-at-k")
        d = cmp_pass({"band": False}, r, m)
        F_.record_tie(run, "Circuit.decompose(custom)", d, {"c": c, "script": script}, {"err": r["err"], "c": r["c"]}, m)
        out = r["c"]
        if not wire_wf(out): run.violation("circuit not well-formed after a rejected proposal", {"c": c, "script": script})
        ok, dist, why = R.equiv_stmts(c["stmts"], out["stmts"], TOL_OP * max(1, len(out["stmts"])))
        if r["err"] is not None and not ok:
            run.violation(f"after a rejected proposal the circuit is not equivalent to the original ({why}, {dist:.3g})", {"c": c, "script": script})

def wire_wf(c):
    for s in c["stmts"]:
        qs = R.stmt_qubits(s)
        if any(q < 0 or q >= c["nq"] for q in qs): return False
        if len(set(qs)) != len(qs): return False
        if s["k"] == "measure" and not (0 <= s["b"] < c["nb"]): return False
    return True
