#!/usr/bin/env python3
"""Automatic mutation run against our own checks (a blind-spot finder; not part of any registered check).

  automut.py gen [--files a.py,b.py]            write <work>/mutants.jsonl: syntactic mutants of /repo/opensquirrel
  automut.py run [--workers 6] [--limit N]      for every mutant: the repo's own tests, then (if they pass) the checks of
                                                the properties anchored in the mutated file; results -> <work>/results.jsonl
  automut.py report                             summary; survivors (tests pass, no check reports a violation)

Every worker has its own scratch worktree of /repo and its own copy of /verif under <work> (default /tmp/am), so /repo is
never touched.  A survivor is either an equivalent mutant or a blind spot of the checks: triage by hand."""
from __future__ import annotations
import ast, json, os, random, shutil, subprocess, sys, time
from concurrent.futures import ThreadPoolExecutor

ROOT = os.path.abspath(os.path.join(os.path.dirname(__file__), ".."))
REPO = "/repo"
WORK = os.environ.get("AUTOMUT_WORK", "/tmp/am")
PY = "/venv/bin/python"

CMP = {ast.Lt: ("<", "<="), ast.LtE: ("<=", "<"), ast.Gt: (">", ">="), ast.GtE: (">=", ">"), ast.Eq: ("==", "!="), ast.NotEq: ("!=", "=="),
       ast.Is: ("is", "is not"), ast.IsNot: ("is not", "is"), ast.In: ("in", "not in"), ast.NotIn: ("not in", "in")}
CMP2 = {ast.Lt: ("<", ">"), ast.Gt: (">", "<"), ast.LtE: ("<=", ">="), ast.GtE: (">=", "<=")}
BIN = {ast.Add: ("+", "-"), ast.Sub: ("-", "+"), ast.Mult: ("*", "/"), ast.Div: ("/", "*"), ast.FloorDiv: ("//", "/"), ast.Mod: ("%", "*"),
       ast.Pow: ("**", "*"), ast.MatMult: ("@", "*"), ast.LShift: ("<<", ">>"), ast.RShift: (">>", "<<"), ast.BitAnd: ("&", "|"), ast.BitOr: ("|", "&")}
CALLSWAP = {"sin": "cos", "cos": "sin", "min": "max", "max": "min", "floor": "ceil", "ceil": "floor", "atan2": "hypot", "any": "all", "all": "any",
            "append": "remove", "issubset": "issuperset", "isclose": "allclose"}


class Src:
    def __init__(self, text):
        self.text = text
        self.lines = text.split("\n")
        self.off = [0]
        for l in self.lines:
            self.off.append(self.off[-1] + len(l.encode()) + 1)
        self.bytes = text.encode()

    def pos(self, lineno, col):
        return self.off[lineno - 1] + col

    def span(self, node):
        return self.pos(node.lineno, node.col_offset), self.pos(node.end_lineno, node.end_col_offset)

    def get(self, a, b):
        return self.bytes[a:b].decode()


def mutants_of(path, rel):
    text = open(path).read()
    src = Src(text)
    tree = ast.parse(text)
    out = []
    skip = set()

    def add(a, b, new, op, node):
        old = src.get(a, b)
        if old == new: return
        out.append({"file": rel, "a": a, "b": b, "new": new, "old": old, "op": op, "line": node.lineno})

    # mark annotation / docstring / decorator / import nodes so that nothing inside them is mutated
    for n in ast.walk(tree):
        if isinstance(n, (ast.FunctionDef, ast.AsyncFunctionDef)):
            for a_ in n.args.args + n.args.kwonlyargs + n.args.posonlyargs + ([n.args.vararg] if n.args.vararg else []) + ([n.args.kwarg] if n.args.kwarg else []):
                if a_.annotation is not None: skip.update(id(x) for x in ast.walk(a_.annotation))
            if n.returns is not None: skip.update(id(x) for x in ast.walk(n.returns))
            for d in n.decorator_list: skip.update(id(x) for x in ast.walk(d))
            if n.name in ("__repr__", "__str__", "__hash__"): skip.update(id(x) for x in ast.walk(n))
        if isinstance(n, ast.AnnAssign): skip.update(id(x) for x in ast.walk(n.annotation))
        if isinstance(n, (ast.Import, ast.ImportFrom)): skip.update(id(x) for x in ast.walk(n))
        if isinstance(n, (ast.FunctionDef, ast.ClassDef, ast.Module, ast.AsyncFunctionDef)) and n.body and isinstance(n.body[0], ast.Expr) \
                and isinstance(getattr(n.body[0], "value", None), ast.Constant) and isinstance(n.body[0].value.value, str):
            skip.update(id(x) for x in ast.walk(n.body[0]))
        if isinstance(n, ast.If) and "TYPE_CHECKING" in ast.unparse(n.test): skip.update(id(x) for x in ast.walk(n))
        if isinstance(n, ast.Raise): skip.update(id(x) for x in ast.walk(n) if x is not n)      # error messages
        if isinstance(n, ast.Subscript) and isinstance(n.value, ast.Name) and n.value.id in ("list", "dict", "tuple", "Callable", "Iterable", "Optional", "Union", "type", "Sequence", "Mapping"):
            skip.update(id(x) for x in ast.walk(n))

    for n in ast.walk(tree):
        if id(n) in skip: continue
        if isinstance(n, ast.Compare) and len(n.ops) == 1:
            a = src.span(n.left)[1]; b = src.span(n.comparators[0])[0]
            mid = src.get(a, b)
            for table, tag in ((CMP, "cmp"), (CMP2, "cmp-rev")):
                t = table.get(type(n.ops[0]))
                if t and t[0] in mid:
                    add(a, b, mid.replace(t[0], t[1], 1), f"{tag} {t[0]}->{t[1]}", n)
        elif isinstance(n, ast.BinOp):
            t = BIN.get(type(n.op))
            if t:
                a = src.span(n.left)[1]; b = src.span(n.right)[0]
                mid = src.get(a, b)
                if t[0] in mid and not (isinstance(n.op, ast.Mod) and isinstance(n.left, ast.Constant) and isinstance(n.left.value, str)):
                    add(a, b, mid.replace(t[0], t[1], 1), f"bin {t[0]}->{t[1]}", n)
        elif isinstance(n, ast.BoolOp):
            for i in range(len(n.values) - 1):
                a = src.span(n.values[i])[1]; b = src.span(n.values[i + 1])[0]
                mid = src.get(a, b)
                w = ("and", "or") if isinstance(n.op, ast.And) else ("or", "and")
                if w[0] in mid: add(a, b, mid.replace(w[0], w[1], 1), f"bool {w[0]}->{w[1]}", n)
        elif isinstance(n, ast.UnaryOp):
            a, b = src.span(n); oa, ob = src.span(n.operand)
            if isinstance(n.op, ast.Not): add(a, b, "(" + src.get(oa, ob) + ")", "drop not", n)
            elif isinstance(n.op, ast.USub) and not isinstance(n.operand, ast.Constant): add(a, b, "(" + src.get(oa, ob) + ")", "drop unary minus", n)
            elif isinstance(n.op, ast.USub): add(a, b, src.get(oa, ob), "drop minus of constant", n)
        elif isinstance(n, ast.Constant):
            a, b = src.span(n)
            v = n.value
            if isinstance(v, bool): add(a, b, str(not v), "bool constant", n)
            elif isinstance(v, int):
                add(a, b, str(v + 1), "int+1", n)
                if v != 0: add(a, b, str(v - 1), "int-1", n)
            elif isinstance(v, float):
                add(a, b, repr(v * 2), "float*2", n)
                if v != 0: add(a, b, repr(-v), "float negated", n)
        elif isinstance(n, (ast.If, ast.While, ast.IfExp)):
            a, b = src.span(n.test)
            add(a, b, "(not (" + src.get(a, b) + "))", "negate condition", n)
        elif isinstance(n, ast.Call):
            f = n.func
            nm = f.attr if isinstance(f, ast.Attribute) else (f.id if isinstance(f, ast.Name) else None)
            if nm in CALLSWAP:
                if isinstance(f, ast.Attribute):
                    b = src.span(f)[1]; a = b - len(nm.encode())
                else:
                    a, b = src.span(f)
                add(a, b, CALLSWAP[nm], f"call {nm}->{CALLSWAP[nm]}", n)
            if nm in ("abs", "float", "normalize_angle", "round", "copysign", "sorted", "reversed", "deepcopy", "copy", "list", "Qubit") and len(n.args) >= 1 and not n.keywords:
                a, b = src.span(n); aa, ab = src.span(n.args[0])
                add(a, b, "(" + src.get(aa, ab) + ")", f"drop call {nm}", n)
            if len(n.args) >= 2 and not any(isinstance(x, ast.Starred) for x in n.args[:2]):
                a0, b0 = src.span(n.args[0]); a1, b1 = src.span(n.args[1])
                add(a0, b1, src.get(a1, b1) + src.get(b0, a1) + src.get(a0, b0), "swap first two arguments", n)
        elif isinstance(n, ast.Subscript) and isinstance(n.slice, ast.Slice):
            pass
        elif isinstance(n, (ast.Break, ast.Continue)):
            a, b = src.span(n)
            add(a, b, "continue" if isinstance(n, ast.Break) else "break", "break<->continue", n)

    # statement deletion (statement -> pass), return value -> None
    for n in ast.walk(tree):
        if id(n) in skip: continue
        body_lists = [getattr(n, f) for f in ("body", "orelse", "finalbody") if isinstance(getattr(n, f, None), list)]
        for body in body_lists:
            for s in body:
                if id(s) in skip: continue
                a, b = src.span(s)
                if isinstance(s, ast.Expr) and isinstance(s.value, ast.Call): add(a, b, "pass", "delete call statement", s)
                elif isinstance(s, (ast.Assign, ast.AugAssign)) and s.lineno == s.end_lineno:
                    if isinstance(s, ast.AugAssign): add(a, b, "pass", "delete augmented assignment", s)
                    elif all(isinstance(t, (ast.Attribute, ast.Subscript)) for t in s.targets): add(a, b, "pass", "delete attribute/item assignment", s)
                elif isinstance(s, ast.Raise): add(a, b, "pass", "delete raise", s)
                elif isinstance(s, ast.Return) and s.value is not None and not (isinstance(s.value, ast.Constant) and s.value.value is None):
                    va, vb = src.span(s.value)
                    if isinstance(s.value, ast.List) or (isinstance(s.value, ast.Constant) and isinstance(s.value.value, bool)): pass
                    else: add(va, vb, "None", "return None", s)
                elif isinstance(s, ast.If) and not s.orelse and len(s.body) == 1 and isinstance(s.body[0], (ast.Raise, ast.Return, ast.Continue)):
                    add(a, b, "pass", "delete guard", s)
    # keep only mutants that still compile
    good = []
    seen = set()
    for m in out:
        k = (m["a"], m["b"], m["new"])
        if k in seen: continue
        seen.add(k)
        new_text = (src.bytes[:m["a"]] + m["new"].encode() + src.bytes[m["b"]:]).decode()
        try:
            ast.parse(new_text)
        except SyntaxError:
            continue
        good.append(m)
    return good


def anchors():
    """file (relative to /repo) -> property ids anchored there"""
    m = {}
    for l in open(os.path.join(ROOT, "properties.jsonl")):
        d = json.loads(l)
        for f in d["anchors"]["files"]:
            m.setdefault(f, []).append(d["id"])
    return m

# checks that exercise a file although the property is not anchored there (passes run through them)
EXTRA = {
    "opensquirrel/common.py": ["C01", "C02", "C06", "C15", "C16", "C08"],
    "opensquirrel/ir.py": ["C15", "C16", "C13", "C07", "C03", "C08", "C04", "C20", "C02"],
    "opensquirrel/circuit.py": ["C05", "C13", "C06", "C03", "C16"],
    "opensquirrel/circuit_builder.py": ["C13", "C20"],
    "opensquirrel/register_manager.py": ["C09", "C13", "C04", "C16"],
    "opensquirrel/instruction_library.py": ["C13", "C20", "C09"],
    "opensquirrel/utils/matrix_expander.py": ["C08", "C06", "C16"],
    "opensquirrel/circuit_matrix_calculator.py": ["C08", "C06"],
    "opensquirrel/reindexer/qubit_reindexer.py": ["C06", "C16", "C19"],
    "opensquirrel/mapper/mapping.py": ["C03", "C16"], "opensquirrel/mapper/general_mapper.py": ["C03"], "opensquirrel/mapper/simple_mappers.py": ["C03", "C05"],
    "opensquirrel/mapper/qubit_remapper.py": ["C03", "C05", "C12", "C20"], "opensquirrel/mapper/utils.py": ["C18"],
    "opensquirrel/decomposer/aba_decomposer.py": ["C01", "C10", "C05"], "opensquirrel/decomposer/mckay_decomposer.py": ["C01", "C10", "C05"],
    "opensquirrel/decomposer/cnot_decomposer.py": ["C01", "C10", "C05"], "opensquirrel/decomposer/general_decomposer.py": ["C06", "C01", "C10", "C20"],
    "opensquirrel/merger/general_merger.py": ["C02", "C14", "C05"],
    "opensquirrel/writer/writer.py": ["C04", "C20"], "opensquirrel/exporter/cqasmv1_exporter.py": ["C12"],
    "opensquirrel/exporter/quantify_scheduler_exporter.py": ["C11"], "opensquirrel/exporter/export_format.py": ["C11", "C12"],
    "opensquirrel/parser/libqasm/parser.py": ["C09", "C13", "C04"],
    "opensquirrel/default_gates.py": ["C07"], "opensquirrel/default_measures.py": ["C07"], "opensquirrel/default_resets.py": ["C07"],
}


def checks_for(rel):
    a = anchors()
    out = []
    for p in EXTRA.get(rel, []) + a.get(rel, []):
        if p not in out and p not in ("C19",): out.append(p)
    return out or ["C05"]


def gen(files=None):
    os.makedirs(WORK, exist_ok=True)
    all_m = []
    for base, _, fs in sorted(os.walk(os.path.join(REPO, "opensquirrel"))):
        for f in sorted(fs):
            if not f.endswith(".py"): continue
            p = os.path.join(base, f); rel = os.path.relpath(p, REPO)
            if files and rel not in files and f not in files: continue
            ms = mutants_of(p, rel)
            all_m += ms
    for i, m in enumerate(all_m): m["id"] = i
    with open(os.path.join(WORK, "mutants.jsonl"), "w") as f:
        for m in all_m: f.write(json.dumps(m) + "\n")
    import collections
    c = collections.Counter(m["file"] for m in all_m)
    print(len(all_m), "mutants")
    for k, v in sorted(c.items()): print(f"  {v:5d} {k}")


def sh(cmd, cwd=None, env=None, timeout=600):
    try:
        p = subprocess.run(cmd, cwd=cwd, env=env, stdout=subprocess.PIPE, stderr=subprocess.STDOUT, timeout=timeout)
        return p.returncode, p.stdout.decode(errors="replace")
    except subprocess.TimeoutExpired as e:
        return 124, (e.stdout or b"").decode(errors="replace") + "\nTIMEOUT"


def setup_worker(k):
    d = os.path.join(WORK, f"w{k}")
    repo = os.path.join(d, "repo"); verif = os.path.join(d, "verif")
    if not os.path.exists(repo):
        os.makedirs(d, exist_ok=True)
        rc, out = sh(["git", "-C", REPO, "worktree", "add", "--detach", repo, "HEAD"])
        if rc != 0: raise RuntimeError(out)
    sh(["git", "-C", repo, "checkout", "--detach", subprocess.check_output(["git", "-C", REPO, "rev-parse", "HEAD"]).decode().strip()])
    sh(["git", "-C", repo, "checkout", "--", "."])
    os.makedirs(verif, exist_ok=True)
    sh(["rsync", "-a", "--delete", "--exclude", ".git", "--exclude", "seeded", "--exclude", "replays", "--exclude", "__pycache__", ROOT + "/", verif + "/"])
    return repo, verif


def run_one(m, repo, verif):
    path = os.path.join(repo, m["file"])
    orig = open(path, "rb").read()
    res = {"id": m["id"], "file": m["file"], "line": m["line"], "op": m["op"], "old": m["old"], "new": m["new"]}
    env = {**os.environ, "PYTHONPATH": repo, "OSQ_REPO": repo, "PYTHONHASHSEED": "0", "VERIF_SEED": "1"}
    try:
        open(path, "wb").write(orig[:m["a"]] + m["new"].encode() + orig[m["b"]:])
        t0 = time.time()
        rc, out = sh([PY, "-m", "pytest", "-q", "-x", "-p", "no:cacheprovider", "-o", "addopts=", "--timeout=120", "test"], cwd=repo, env=env, timeout=400)
        res["tests"] = "pass" if rc == 0 else ("timeout" if rc == 124 else "fail")
        res["tests_s"] = round(time.time() - t0, 1)
        if rc != 0:
            return res
        res["checks"] = {}
        for pid in checks_for(m["file"]):
            t0 = time.time()
            rc, out = sh([os.path.join(verif, "check"), pid, "quick"], cwd=verif, env=env, timeout=900)
            v = [l for l in out.split("\n") if l.startswith("VIOLATION")]
            what = ""
            if v and "replay=" in v[0]:
                try:
                    d = json.load(open(v[0].split("replay=")[1].split()[0])); what = (d.get("what") or str(d.get("broken")))[:160]
                except Exception: pass
            res["checks"][pid] = {"exit": rc, "s": round(time.time() - t0, 1), "nf": bool(v and "no-failing-input-found" in v[0]), "what": what,
                                  "tail": "" if rc in (0, 1) else out[-600:]}
            if rc == 1 and v:
                res["caught_by"] = pid
                break
        return res
    finally:
        open(path, "wb").write(orig)


def survivors(path=None):
    rs = {}
    for l in open(path or os.path.join(WORK, "results.jsonl")):
        try: r = json.loads(l); rs[r["id"]] = r
        except Exception: pass
    return {i for i, r in rs.items() if r.get("tests") == "pass" and not r.get("caught_by")}

def run(workers, limit, files, seed, only=None, out="results.jsonl"):
    ms = [json.loads(l) for l in open(os.path.join(WORK, "mutants.jsonl"))]
    if files: ms = [m for m in ms if m["file"] in files or os.path.basename(m["file"]) in files]
    if only is not None: ms = [m for m in ms if m["id"] in only]
    done = set()
    rp = os.path.join(WORK, out)
    if os.path.exists(rp):
        for l in open(rp):
            try: done.add(json.loads(l)["id"])
            except Exception: pass
    ms = [m for m in ms if m["id"] not in done]
    random.Random(seed).shuffle(ms)
    if limit: ms = ms[:limit]
    print(len(ms), "mutants to run on", workers, "workers", flush=True)
    ws = [setup_worker(k) for k in range(workers)]
    import queue, threading
    q = queue.Queue()
    for m in ms: q.put(m)
    lock = threading.Lock()
    def work(k):
        repo, verif = ws[k]
        while True:
            try: m = q.get_nowait()
            except queue.Empty: return
            try:
                r = run_one(m, repo, verif)
            except Exception as ex:
                r = {"id": m["id"], "file": m["file"], "error": repr(ex)}
            with lock:
                with open(rp, "a") as f: f.write(json.dumps(r) + "\n")
                tag = r.get("caught_by") or ("tests" if r.get("tests") != "pass" else "SURVIVED")
                print(f"#{r['id']} {r.get('file')}:{r.get('line')} {r.get('op')} -> {tag}", flush=True)
    ts = [threading.Thread(target=work, args=(k,)) for k in range(workers)]
    for t in ts: t.start()
    for t in ts: t.join()


def report(path="results.jsonl"):
    rs = {}
    for l in open(os.path.join(WORK, path)):
        r = json.loads(l); rs[r["id"]] = r
    n = len(rs); tk = sum(1 for r in rs.values() if r.get("tests") != "pass")
    caught = [r for r in rs.values() if r.get("caught_by")]
    surv = [r for r in rs.values() if r.get("tests") == "pass" and not r.get("caught_by")]
    infra = [r for r in surv if any(c["exit"] not in (0, 1) for c in r.get("checks", {}).values())]
    print(f"{n} mutants run: {tk} killed by the repo's tests, {len(caught)} pass the tests and are caught by a check "
          f"({sum(1 for r in caught if r['checks'][r['caught_by']]['nf'])} without failing input), {len(surv)} survive ({len(infra)} with a harness failure)")
    for r in sorted(surv, key=lambda r: (r["file"], r["line"])):
        ex = {p: c["exit"] for p, c in r.get("checks", {}).items() if c["exit"] not in (0,)}
        print(f"  #{r['id']} {r['file']}:{r['line']} [{r['op']}] {r['old']!r} -> {r['new']!r} {ex or ''}")


def cleanup():
    for k in range(64):
        d = os.path.join(WORK, f"w{k}", "repo")
        if os.path.exists(d): sh(["git", "-C", REPO, "worktree", "remove", "--force", d])
    sh(["git", "-C", REPO, "worktree", "prune"])
    for k in range(64):
        d = os.path.join(WORK, f"w{k}")
        if os.path.exists(d): shutil.rmtree(d, ignore_errors=True)


if __name__ == "__main__":
    a = sys.argv[1:]
    def opt(name, default=None):
        return a[a.index(name) + 1] if name in a else default
    files = opt("--files"); files = files.split(",") if files else None
    if a[0] == "gen": gen(files)
    elif a[0] == "run": run(int(opt("--workers", "6")), int(opt("--limit", "0")), files, int(opt("--seed", "1")))
    elif a[0] == "rerun":
        # automut.py rerun --from results.jsonl --out results2.jsonl : survivors of an earlier run against the current /verif
        run(int(opt("--workers", "6")), 0, files, 1, only=survivors(os.path.join(WORK, opt("--from", "results.jsonl"))), out=opt("--out", "results2.jsonl"))
    elif a[0] == "report": report(opt("--from", "results.jsonl"))
    elif a[0] == "one":
        # automut.py one <id> [--checks C01,C02] : re-run one mutant against the *current* /verif in a private worker
        ms = {json.loads(l)["id"]: json.loads(l) for l in open(os.path.join(WORK, "mutants.jsonl"))}
        repo, verif = setup_worker(90 + (os.getpid() % 9))
        for mid in [int(x) for x in a[1:] if x.isdigit()]:
            m = ms[mid]
            cs = opt("--checks")
            if cs:
                _cf = checks_for
                globals()["checks_for"] = lambda rel, cs=cs: cs.split(",")
            r = run_one(m, repo, verif)
            print(json.dumps({k: v for k, v in r.items() if k != "checks"}), {p_: (c["exit"], c["what"][:140]) for p_, c in r.get("checks", {}).items()})
    elif a[0] == "cleanup": cleanup()
    elif a[0] == "clean":
        # automut.py clean C01 C02 … [--seeds 1,2] : run checks of the *current* /verif against an unchanged scratch worktree
        repo, verif = setup_worker(80 + (os.getpid() % 9))
        seeds = (opt("--seeds") or "1").split(",")
        for pid in [x for x in a[1:] if x.startswith("C")]:
            for sd in seeds:
                env = {**os.environ, "PYTHONPATH": repo, "OSQ_REPO": repo, "PYTHONHASHSEED": "0", "VERIF_SEED": sd}
                rc, out = sh([os.path.join(verif, "check"), pid, opt("--tier") or "quick"], cwd=verif, env=env, timeout=7200)
                print("\n".join(l[:260] for l in out.split("\n") if l.startswith(("[" + pid, "VIOLATION", "KNOWN")) or "Error" in l or "Traceback" in l), flush=True)
                for l in out.split("\n"):
                    if l.startswith("VIOLATION") and "replay=" in l:
                        try:
                            d = json.load(open(l.split("replay=")[1].split()[0])); print("   ", (d.get("what") or str(d.get("broken")))[:300])
                        except Exception: pass
