import json, os, sys
sys.path.insert(0, os.path.dirname(os.path.abspath(__file__)))
import props_c
order = json.loads(sys.argv[1])
pool = props_c.pipeline_pool()
out = {}
for i in order:
    out[str(i)], _ = props_c.compile_one(*pool[i])
print(json.dumps(out))
