"""Property checks C07, C08, C09, C13, C15, C16, C17, C18, C19."""
from __future__ import annotations
import copy, itertools, json, math, os, random, subprocess, sys, time
import numpy as np
import wire as W, ops as O, oracle as R, gen as G
import model as M
from framework import Run, batch_tie, ROOT
from props_a import cmp_pass, cmp_val, TOL_F, TOL_OP, wire_wf, is_bsr_stmt
from props_b import coherent, spec_map_stmt, pass_alphabet, apply_pass, seed_circuits, perm_of

# ----------------------------------------------------------------------------------------- C07
GATE_SIG = {"I": "q", "H": "q", "X": "q", "X90": "q", "mX90": "q", "Y": "q", "Y90": "q", "mY90": "q", "Z": "q", "S": "q", "Sdag": "q", "T": "q",
            "Tdag": "q", "Rx": "qf", "Ry": "qf", "Rz": "qf", "CNOT": "qq", "CZ": "qq", "CR": "qqf", "CRk": "qqi"}

def theta_grid(rng, n_random):
    pi = math.pi
    g = [k * pi / 4 for k in range(-16, 17)]
    for b in (pi, -pi, 2 * pi, -2 * pi, 0.0, 3 * pi, -3 * pi, 4 * pi, -4 * pi):
        for d in (1e-9, 1e-7, 1e-5, 1e-3):
            g += [b + d, b - d]
    g += [rng.uniform(-100, 100) for _ in range(n_random)]
    return g


from shared import redefinition_check

def check_C07(run: Run):
    redefinition_check(run, True)
    rng = random.Random(run.seed * 53 + 59)
    import opensquirrel.default_gates as dg
    from opensquirrel.default_gates import default_gate_set, default_gate_aliases
    from opensquirrel import CircuitBuilder, Circuit
    from opensquirrel.ir import Float, Bit
    names = [f.__name__ for f in default_gate_set]
    if sorted(names) != sorted(GATE_SIG): run.violation(f"default gate set changed: {sorted(set(names) ^ set(GATE_SIG))}", {"names": names})
    thetas = theta_grid(rng, run.n(20, 400))
    cases = []
    for name in names:
        sig = GATE_SIG.get(name)
        if sig is None: continue
        nq = sig.count("q")
        for n in range(nq, run.n(3, 4) + 1):
            for ops in itertools.permutations(range(n), nq):
                plist = [None]
                if "f" in sig: plist = rng.sample(thetas, run.n(6, 40)) + [math.pi, -math.pi, 2 * math.pi, -2 * math.pi, 3.5, 0.0]
                if "i" in sig: plist = list(range(-3, 65)) if not run.quick() else [-3, -1, 0, 1, 2, 3, 5, 17, 64]
                if nq == 2 and n > 3 and len(plist) > 10: plist = rng.sample(plist, 10)
                for p in plist:
                    args = [["q", o] for o in ops] + ([["f", p]] if "f" in sig else []) + ([["i", p]] if "i" in sig else [])
                    cases.append({"name": name, "args": args, "n": n})
    def cmp_named(c, r, m):
        if m is None: return None
        if r["err"] != m["err"]: return f"{c['name']}: {r['err']} vs model {m['err']}"
        return W.diff(r["v"], m["v"], 1e-12)
    res = batch_tie(run, "default gate", cases, lambda c: O.req_named(c["name"], c["args"]), lambda c: O.impl_named(c["name"], c["args"]), O.parse_stmt, cmp_named)
    for c, r, _ in res:
        run.count({"name": c["name"], "args": c["args"]}, tag=c["name"])
        if "harness_error" in r: continue
        if r["err"] is not None: run.violation(f"default gate {c['name']}{c['args']} raised {r['err']}", c); continue
        s = r["v"]
        params = [v for k, v in c["args"] if k != "q"]
        ops = [v for k, v in c["args"] if k == "q"]
        std, k = R.std_matrix(c["name"], params)
        A = R.gate_matrix(s["g"], c["n"]); B = R.embed(c["n"], ops, std)
        if k == 1: d = R.phase_dist(A, B)
        else: d = float(np.abs(A - B).max())          # controlled gates: exactly, no phase freedom
        if d > 1e-7 * max(1.0, abs(params[0]) if params and c["name"] != "CRk" else 1.0):
            run.violation(f"{c['name']}{tuple(params)} on {ops} differs from the cQASM standard operation by {d:.3g}", c)
        if s["nm"] is None or s["nm"]["name"] != c["name"] or s["nm"]["args"] != c["args"]:
            run.violation(f"{c['name']}: name/arguments not recorded as called", c)
    # keyword call, builder (positional) and parser give the same gate
    for name in names:
        sig = GATE_SIG.get(name)
        if sig is None: continue
        for _ in range(run.n(3, 20)):
            nq = sig.count("q"); ops = rng.sample(range(4), nq)
            p = rng.choice(thetas) if "f" in sig else (rng.choice([0, 1, 2, 3, -1]) if "i" in sig else None)
            args = [["q", o] for o in ops] + ([["f", p]] if "f" in sig else []) + ([["i", p]] if "i" in sig else [])
            a = O.impl_named(name, args, "positional"); b = O.impl_named(name, args, "keyword")
            b2 = O.impl_named(name, args, "keyword-shuffled:%d" % rng.randrange(10 ** 6))
            if W.diff(a["v"], b2["v"], 0.0) or a["err"] != b2["err"]:
                run.violation(f"{name}: keyword call with the keywords in another order builds a different gate", {"name": name, "args": args})
            bl = CircuitBuilder(4)
            try:
                getattr(bl, name)(*[o for o in ops] + ([Float(p)] if "f" in sig else []) + ([p] if "i" in sig else []))
                c3 = W.w_stmt(bl.to_circuit().ir.statements[0])
            except Exception as ex:
                run.violation(f"builder refuses default gate {name}{args}: {O.err_name(ex)}", {"name": name, "args": args}); continue
            if a["err"] is not None or b["err"] is not None:
                run.violation(f"default gate {name}{args} raised {a['err'] or b['err']}", {"name": name, "args": args}); continue
            run.count({"ways": name, "args": args}, tag="three-ways")
            if W.diff(a["v"], b["v"], 0.0) or W.diff(a["v"], c3, 0.0):
                run.violation(f"{name}: positional, keyword and builder construction differ", {"name": name, "args": args})
            ptxt = f"({p!r})" if "f" in sig else (f"({p})" if "i" in sig else "")
            if p is None or (isinstance(p, float) and abs(p) < 1e3 and abs(p) > 1e-4) or isinstance(p, int):
                txt = f"version 3.0\nqubit[4] q\n{name}{ptxt} " + ", ".join(f"q[{o}]" for o in ops) + "\n"
                pr = O.impl_parse(txt)
                if pr["err"] is not None: run.violation(f"parser rejects default gate {name}: {txt!r}", {"text": txt})
                elif W.diff(pr["v"]["stmts"][0], a["v"], 1e-12): run.violation(f"{name}: parser builds a different gate than the direct call", {"text": txt})
    # the parser applied to multi-element operands (index lists, ranges, whole variables): one standard gate per element
    for name in names:
        sig = GATE_SIG.get(name)
        if sig is None: continue
        nq_ = sig.count("q")
        p = rng.choice(thetas[:40]) if "f" in sig else (rng.choice([1, 2, 3]) if "i" in sig else None)
        if isinstance(p, float) and not (1e-4 < abs(p) < 1e3): p = 0.75
        ptxt = f"({p!r})" if "f" in sig else (f"({p})" if "i" in sig else "")
        for form in ("list", "range", "var"):
            if nq_ == 1:
                ops_txt, elems = {"list": ("q[0, 2, 3]", [(0,), (2,), (3,)]), "range": ("q[1:3]", [(1,), (2,), (3,)]), "var": ("q", [(0,), (1,), (2,), (3,)])}[form]
            else:
                ops_txt, elems = {"list": ("q[0, 1, 2], q[3, 2, 0]", [(0, 3), (1, 2), (2, 0)]), "range": ("q[0:1], q[2:3]", [(0, 2), (1, 3)]), "var": ("q[0, 1], q[3, 2]", [(0, 3), (1, 2)])}[form]
            txt = f"version 3.0\nqubit[4] q\n{name}{ptxt} {ops_txt}\n"
            pr = O.impl_parse(txt)
            run.count({"multi": name, "form": form}, tag="parser-multi")
            if pr["err"] is not None: run.violation(f"parser rejects {name} on a multi-element operand: {txt!r} ({pr['err']})", {"text": txt}); continue
            exp_ = []
            for e_ in elems:
                args = [["q", o] for o in e_] + ([["f", p]] if "f" in sig else []) + ([["i", p]] if "i" in sig else [])
                exp_.append(O.impl_named(name, args)["v"])
            d_ = W.diff(pr["v"]["stmts"], exp_, 1e-12)
            if d_: run.violation(f"{name} on a multi-element operand is not one standard gate per element: {d_}", {"text": txt})
    # aliases
    for al, f in default_gate_aliases.items():
        bl = CircuitBuilder(2); getattr(bl, al)(1)
        st = W.w_stmt(bl.to_circuit().ir.statements[0])
        run.count({"alias": al}, tag="alias")
        if W.diff(st, W.w_stmt(f(1)), 0.0):
            run.violation(f"alias {al} does not name the gate {f.__name__}", {"alias": al})
    # measure / reset
    import opensquirrel.default_measures as dm
    from opensquirrel.default_resets import reset
    for q in range(3):
        for b in range(2):
            for mn in ("measure", "measure_z"):
                s = W.w_stmt(getattr(dm, mn)(q, Bit(b)))
                run.count({"measure": [mn, q, b]}, tag="measure")
                if (s["q"], s["b"]) != (q, b) or np.abs(np.array(s["axis"]) - np.array([0, 0, 1.0])).max() > 1e-12:
                    run.violation(f"{mn}({q}, Bit({b})) does not measure qubit {q} in the computational basis into bit {b}", {"s": s})
        s = W.w_stmt(reset(q))
        if s["q"] != q: run.violation(f"reset({q}) resets qubit {s['q']}", {"s": s})

# ----------------------------------------------------------------------------------------- C08
def check_C08(run: Run):
    rng = random.Random(run.seed * 61 + 67); g = G.Gen(rng)
    cases = []
    for n in range(1, run.n(3, 4) + 1):
        for q in range(n):
            for _ in range(run.n(2, 6)): cases.append({"n": n, "g": g.gate1(q, False)["g"]})
        for c, t in itertools.permutations(range(n), 2):
            for _ in range(run.n(1, 4)): cases.append({"n": n, "g": g.ctrl_anon(c, t, False)["g"]})
            cases.append({"n": n, "g": g.matrix_gate([c, t], "unitary")["g"]})
            cases.append({"n": n, "g": g.matrix_gate([c, t], "perm")["g"]})
        for a, b, c in itertools.permutations(range(n), 3):
            cases.append({"n": n, "g": g.ctrl2(a, b, c)["g"]})
            if rng.random() < run.n(0.3, 1.0): cases.append({"n": n, "g": g.matrix_gate([a, b, c], "unitary")["g"]})
        for ops in itertools.permutations(range(n), 4):
            if rng.random() < run.n(0.1, 0.5):
                from opensquirrel.ir import ControlledGate
                cases.append({"n": n, "g": W.w_gate(ControlledGate(ops[0], ControlledGate(ops[1], ControlledGate(ops[2], W.os_stmt(g.gate1(ops[3], False))))))})
            if rng.random() < run.n(0.05, 0.3): cases.append({"n": n, "g": g.matrix_gate(list(ops), "unitary")["g"]})
    if not run.quick():
        # all 24 basis permutations on two operands
        from opensquirrel.ir import MatrixGate
        for p in itertools.permutations(range(4)):
            m = np.zeros((4, 4), complex)
            for i, j in enumerate(p): m[j, i] = 1
            for ops in ([0, 1], [1, 0], [2, 0]):
                cases.append({"n": 3, "g": W.w_gate(MatrixGate(m, ops))})
    # explicit rarely-taken shapes: multiply-controlled gates, pure-phase rotations (angle 0, phase != 0) also under a control
    from opensquirrel.ir import BlochSphereRotation as _B, ControlledGate as _C
    import opensquirrel.default_gates as _dg
    for n in (3, 4):
        for ops in itertools.permutations(range(n), 3):
            cases.append({"n": n, "g": W.w_gate(_C(ops[0], _C(ops[1], _dg.X(ops[2]))))})
            cases.append({"n": n, "g": W.w_gate(_C(ops[0], _C(ops[1], _B(ops[2], (0, 0, 1), 0.0, rng.uniform(-3, 3)))))})
        for a, b in itertools.permutations(range(n), 2):
            cases.append({"n": n, "g": W.w_gate(_C(a, _B(b, (1, 0, 0), 0.0, rng.choice([math.pi / 4, math.pi, -1.0]))))})
            cases.append({"n": n, "g": W.w_gate(_C(a, _B(b, (0, 1, 0), 2 * math.pi, 0.7)))})
        for q in range(n):
            cases.append({"n": n, "g": W.w_gate(_B(q, (0, 1, 0), 0.0, rng.uniform(-3, 3)))})
            cases.append({"n": n, "g": W.w_gate(_B(q, (1, 1, 1), 1e-9, 1.0))})
    for _ in range(run.n(30, 400)):
        n = 5; ops = rng.sample(range(5), rng.randint(1, 3))
        cases.append({"n": n, "g": (g.gate1(ops[0], False) if len(ops) == 1 else g.ctrl_anon(ops[0], ops[1], False) if len(ops) == 2 else g.ctrl2(*ops))["g"]})
    # out of range operands
    for _ in range(run.n(30, 300)):
        n = rng.randint(1, 3)
        cq = rng.choice([n, 0]); tq = rng.choice([x for x in (n + 1, 1 if n > 1 else n, n + 2) if x != cq])
        gt = g.gate1(rng.choice([n, n + 1, 7]), False)["g"] if rng.random() < 0.5 else g.ctrl_anon(cq, tq, False)["g"]
        cases.append({"n": n, "g": gt, "oob": True})
    from opensquirrel.ir import ControlledGate as _CG
    for n in (1, 2, 3):
        for t in range(n):
            cases.append({"n": n, "g": W.w_gate(_CG(n, W.os_stmt(g.gate1(t, False)))), "oob": True})
            cases.append({"n": n, "g": W.w_gate(_CG(n + 1, W.os_stmt(g.gate1(t, False)))), "oob": True})
            if n >= 2:
                t2 = (t + 1) % n
                cases.append({"n": n, "g": W.w_gate(_CG(t2, _CG(n, W.os_stmt(g.gate1(t, False))))), "oob": True})
                cases.append({"n": n, "g": W.w_gate(_CG(n, _CG(t2, W.os_stmt(g.gate1(t, False))))), "oob": True})
                cases.append({"n": n, "g": g.matrix_gate([t, n])["g"], "oob": True})
                cases.append({"n": n, "g": g.matrix_gate([n, t2])["g"], "oob": True})
    def cmp_mat(c, r, m):
        if m is None: return None
        if r["err"] != m["err"]: return f"get_matrix {r['err']} vs model {m['err']}"
        if r["err"] is not None: return None
        return W.diff(r["v"], m["v"], 1e-12)
    res = batch_tie(run, "get_matrix", cases, lambda c: O.req_matrix(c["n"], c["g"]), lambda c: O.impl_matrix(c["n"], c["g"]), O.parse_matrix, cmp_mat)
    for c, r, _ in res:
        run.count(c, tag="oob" if c.get("oob") else c["g"]["k"])
        if "harness_error" in r: continue
        ops = R.gate_ops(c["g"])
        if any(q >= c["n"] for q in ops):
            if r["err"] is None: run.violation("an operand outside the register was not refused", c)
            continue
        if r["err"] is not None: run.violation(f"get_matrix raised {r['err']}", c); continue
        A = np.array([complex(a, b) for a, b in r["v"]["m"]]).reshape(r["v"]["dim"], r["v"]["dim"])
        B = R.gate_matrix(c["g"], c["n"])
        d = float(np.abs(A - B).max())
        if d > 1e-9: run.violation(f"matrix differs from the textbook embedding by {d:.3g}", c)
        if not R.is_unitary(A, 1e-7): run.violation("matrix of a gate is not unitary", c)
    # a builder that refused an out-of-range operand: the circuit (and its matrix) consists of the accepted gates only
    from opensquirrel import CircuitBuilder as _CB8
    from opensquirrel.circuit_matrix_calculator import get_circuit_matrix as _gcm8
    import opensquirrel.default_gates as _dg8
    for n_ in (1, 2, 3):
        b_ = _CB8(n_); acc = []
        for nm_, ops_ in (("H", (0,)), ("X", (n_,)), ("CNOT", (0, n_ + 3)), ("Y", (n_ - 1,)), ("CZ", (n_, 0)), ("X", (-1,)), ("S", (0,))):
            try:
                getattr(b_, nm_)(*ops_); acc.append(W.w_stmt(getattr(_dg8, nm_)(*ops_)))
            except Exception:
                pass
        run.count({"builder-refusal": n_}, tag="builder-refusal")
        wc_ = W.w_circuit(b_.to_circuit())
        if W.diff(wc_["stmts"], acc, 0.0): run.violation(f"after refused calls the builder's circuit is not the list of accepted gates ({len(wc_['stmts'])} statements, {len(acc)} accepted)", {"n": n_})
        else:
            try:
                A_ = _gcm8(b_.to_circuit()); B_ = R.circ_matrix(acc, n_)
                if float(np.abs(A_ - B_).max()) > 1e-8: run.violation("circuit matrix of a builder that refused calls differs from the product of the accepted gates", {"n": n_})
            except Exception as ex:
                run.violation(f"circuit matrix of a builder that refused calls raised {O.err_name(ex)}", {"n": n_})
    # circuits: product in program order
    cc = []
    for _ in range(run.n(40, 600)):
        c = g.circuit(n=rng.randint(1, 4), kinds="all", allow_band=False, length=rng.randint(1, 12))
        c["stmts"] = [s for s in c["stmts"] if s["k"] in ("gate", "comment")]
        cc.append({"c": c})
    res = batch_tie(run, "get_circuit_matrix", cc, lambda c: O.req_cmatrix(c["c"]), lambda c: O.impl_cmatrix(c["c"]), O.parse_matrix,
                    lambda c, r, m: None if m is None else (f"{r['err']} vs {m['err']}" if r["err"] != m["err"] else (W.diff(r["v"], m["v"], 1e-9) if r["err"] is None else None)))
    for c, r, _ in res:
        run.count(c["c"], tag="circuit")
        if "harness_error" in r or r["err"] is not None:
            if r.get("err"): run.violation(f"get_circuit_matrix raised {r['err']}", c)
            continue
        A = np.array([complex(a, b) for a, b in r["v"]["m"]]).reshape(r["v"]["dim"], r["v"]["dim"])
        B = R.circ_matrix(c["c"]["stmts"], c["c"]["nq"])
        d = float(np.abs(A - B).max())
        if d > 1e-8: run.violation(f"circuit matrix differs from the product of its gates in program order by {d:.3g}", c)
        am = r.get("_after_map")
        if am is not None:
            B2 = R.circ_matrix(am["c"]["stmts"], am["c"]["nq"])
            d2 = float(np.abs(am["m"] - B2).max())
            if d2 > 1e-8: run.violation(f"after relabelling the circuit in place, a second get_circuit_matrix differs from the product of its current gates by {d2:.3g}", c)

# ----------------------------------------------------------------------------------------- C09
def render_program(rng, g: G.Gen):
    """random flat instruction list + a cQASM rendering choosing surface forms at random.
    returns (text, expected wire circuit)"""
    import opensquirrel.default_gates as dg, opensquirrel.default_measures as dm
    from opensquirrel.default_resets import reset
    from opensquirrel.ir import Float, Bit
    nqv = rng.randint(1, 3); nbv = rng.randint(0, 3)
    decls = [("q", f"qv{i}", rng.randint(1, 5), rng.random() < 0.25) for i in range(nqv)] + [("b", f"bv{i}", rng.randint(1, 5), rng.random() < 0.25) for i in range(nbv)]
    rng.shuffle(decls)
    decls = [(k, n, (1 if scalar else sz), scalar) for k, n, sz, scalar in decls]
    # some declarations come mid-program; the layout follows the order of declaration in the text
    late_flags = [rng.random() < 0.25 for _ in decls]
    text_order = [d for d, l in zip(decls, late_flags) if not l] + [d for d, l in zip(decls, late_flags) if l]
    qoff = {}; boff = {}; tq = tb = 0
    for k, n, sz, sc in text_order:
        if k == "q": qoff[n] = (tq, sz, sc); tq += sz
        else: boff[n] = (tb, sz, sc); tb += sz
    lines = ["version 3.0", ""]
    late = []
    for d, l in zip(decls, late_flags):
        k, n, sz, sc = d
        txt = ("qubit" if k == "q" else "bit") + ("" if sc else f"[{sz}]") + f" {n}"
        if l: late.append((d, txt))
        else: lines.append(txt)
    declared = {d[1] for d, l in zip(decls, late_flags) if not l}
    expected = []
    def surface(name, off, sz, sc, idxs):
        """render sub-indices `idxs` of variable `name`"""
        if sc: return name
        if idxs == list(range(sz)) and rng.random() < 0.5: return name
        if len(idxs) > 1 and idxs == list(range(idxs[0], idxs[-1] + 1)) and rng.random() < 0.6: return f"{name}[{idxs[0]}:{idxs[-1]}]"
        return f"{name}[{', '.join(map(str, idxs))}]"
    def pick(vars_, k):
        """k sub-indices of one declared variable of the given table"""
        cands = [n for n in vars_ if n in declared and vars_[n][1] >= 1]
        if not cands: return None
        n = rng.choice(cands); off, sz, sc = vars_[n]
        if sc: return (n, [0]) if k == 1 else None
        m = rng.randrange(3)
        if m == 0 and sz >= k: idxs = list(range(sz)) if k == sz else None
        else: idxs = None
        if idxs is None:
            if k > sz: return None
            if rng.random() < 0.5:
                a = rng.randint(0, sz - k); idxs = list(range(a, a + k))
            else: idxs = rng.sample(range(sz), k)
        return n, idxs
    def fparam(v):
        forms = [repr(v)]
        return rng.choice(forms)
    nst = rng.randint(1, 10)
    for _ in range(nst):
        if late and rng.random() < 0.4:
            d, txt = late.pop(0); lines.append(txt); declared.add(d[1])
        m = rng.randrange(10)
        if m == 0: lines.append(rng.choice(["", "// line comment", "/* block */"])); continue
        k = rng.randint(1, 3)
        if m <= 4:
            name = rng.choice(["H", "X", "Y90", "mX90", "S", "Tdag", "I", "Rx", "Ry", "Rz", "Z", "Sdag", "T", "X90", "Y", "mY90"])
            pk = pick(qoff, k)
            if pk is None: continue
            n, idxs = pk
            if name in ("Rx", "Ry", "Rz"):
                v, txt = rng.choice([(1.5, "1.5"), (-math.pi / 3, "-pi/3"), (2.0, "2"), (math.pi, "pi"), (0.25, "0.25"), (-0.5, "-0.5"), (2 * math.pi / 8, "2*pi/8"), (1e-5, "1.0e-5")])
                lines.append(f"{name}({txt}) {surface(n, *qoff[n], idxs)}")
                for i in idxs: expected.append(W.w_stmt(getattr(dg, name)(qoff[n][0] + i, Float(v))))
            else:
                lines.append(f"{name} {surface(n, *qoff[n], idxs)}")
                real = {"Hadamard": "H", "Identity": "I"}.get(name, name)
                for i in idxs: expected.append(W.w_stmt(getattr(dg, real)(qoff[n][0] + i)))
        elif m <= 6:
            name = rng.choice(["CNOT", "CZ", "CR", "CRk"])
            a = pick(qoff, k); b = pick(qoff, k)
            if a is None or b is None: continue
            qa = [qoff[a[0]][0] + i for i in a[1]]; qb = [qoff[b[0]][0] + i for i in b[1]]
            if any(x == y for x, y in zip(qa, qb)): continue
            if name == "CR":
                v, txt = rng.choice([(0.5, "0.5"), (-math.pi / 2, "-pi/2"), (3.0, "3.0")])
                lines.append(f"CR({txt}) {surface(a[0], *qoff[a[0]], a[1])}, {surface(b[0], *qoff[b[0]], b[1])}")
                for x, y in zip(qa, qb): expected.append(W.w_stmt(dg.CR(x, y, Float(v))))
            elif name == "CRk":
                v = rng.choice([0, 1, 2, 5])
                lines.append(f"CRk({v}) {surface(a[0], *qoff[a[0]], a[1])}, {surface(b[0], *qoff[b[0]], b[1])}")
                for x, y in zip(qa, qb): expected.append(W.w_stmt(dg.CRk(x, y, v)))
            else:
                lines.append(f"{name} {surface(a[0], *qoff[a[0]], a[1])}, {surface(b[0], *qoff[b[0]], b[1])}")
                for x, y in zip(qa, qb): expected.append(W.w_stmt(getattr(dg, name)(x, y)))
        elif m == 7 and boff:
            a = pick(qoff, k); b = pick(boff, k)
            if a is None or b is None: continue
            lines.append(f"{surface(b[0], *boff[b[0]], b[1])} = measure {surface(a[0], *qoff[a[0]], a[1])}")
            for i, j in zip(a[1], b[1]): expected.append(W.w_stmt(dm.measure(qoff[a[0]][0] + i, Bit(boff[b[0]][0] + j))))
        elif m == 8:
            if rng.random() < 0.3 and not late:
                lines.append("reset")
                for q in range(tq): expected.append(W.w_stmt(reset(q)))
            else:
                a = pick(qoff, k)
                if a is None: continue
                lines.append(f"reset {surface(a[0], *qoff[a[0]], a[1])}")
                for i in a[1]: expected.append(W.w_stmt(reset(qoff[a[0]][0] + i)))
    for d, txt in late: lines.append(txt)
    return "\n".join(lines) + "\n", {"nq": tq, "nb": tb, "stmts": expected}

MALFORMED = [
    "version 3.0\nqubit[2] q\nH q[2]\n", "version 3.0\nqubit[2] q\nFoo q[0]\n", "version 3.0\nqubit[2] q\nCNOT q[0], q[0]\n",
    "version 3.0\nqubit[2] q\nRx q[0]\n", "version 3.0\nqubit[2] q\nH(1.0) q[0]\n", "version 3.0\nqubit[2] q\nbit[1] b\nb[1] = measure q[0]\n",
    "version 3.0\nH q[0]\n", "version 3.0\nqubit[2] q\nH q[-1]\n", "version 3.0\nqubit[2] q\nCNOT q[0]\n", "version 2.0\nqubit[2] q\n",
    "version 3.0\nqubit[2] q\nbit[2] b\nb = measure q[0]\n", "version 3.0\nqubit[2] q\nRx(1e-05) q[0]\n", "qubit[2] q\nH q[0]\n",
    "version 3.0\nqubit[2] q\nCRk(1.5) q[0], q[1]\n", "version 3.0\nqubit[2] q\nH q[0:5]\n",
]

def check_C09(run: Run):
    rng = random.Random(run.seed * 71 + 73); g = G.Gen(rng)
    progs = [render_program(rng, g) for _ in range(run.n(250, 5000))]
    asts = []
    for text, exp in progs:
        a, err = O.ast_of_text(text)
        asts.append((text, exp, a, err))
    good = [(t, e, a) for t, e, a, err in asts if a is not None and all(o[0] != "other" for _, ops in a["stmts"] for o in ops)]
    rej = [(t, e, err) for t, e, a, err in asts if a is None]
    for t, e, err in rej:
        run.violation(f"a program of the supported subset is rejected: {err[:1]}", {"text": t})
    replies = M.run_batch([O.req_parse(a) for _, _, a in good])
    for (text, exp, a), line in zip(good, replies):
        run.count({"text": text}, nontrivial=len(exp["stmts"]) > 0, tag="program")
        r = O.impl_parse(text)
        m = O.parse_circuit(line)
        if r["err"] != m["err"]: run.mismatch(f"Circuit.from_string {r['err']} vs model {m['err']}", {"text": text})
        elif r["err"] is None and W.diff(r["v"], m["v"], 1e-12): run.mismatch("parsed circuit differs from the model: " + str(W.diff(r["v"], m["v"], 1e-12)), {"text": text}, r["v"], m["v"])
        if r["err"] is not None: run.violation(f"a program of the supported subset raised {r['err']}", {"text": text}); continue
        d = W.diff(r["v"], exp, 1e-12)
        if d: run.violation(f"parsed circuit is not the element-wise expansion of the source: {d}", {"text": text})
    # the public Parser class, one object parsing several programs in a row
    from opensquirrel.parser.libqasm.parser import Parser
    for _ in range(run.n(10, 60)):
        ps = Parser()
        for text, exp, a in rng.sample(good, min(4, len(good))):
            try:
                c_ = W.w_circuit(ps.circuit_from_string(text))
            except Exception as ex:
                run.violation(f"a reused Parser object raised {O.err_name(ex)} on a supported program", {"text": text}); break
            run.count({"reused-parser": text}, tag="reused-parser")
            if W.diff(c_, exp, 1e-12):
                run.violation("a Parser object that already parsed another program gives a different circuit for this program", {"text": text}); break
    for text in MALFORMED:
        r = O.impl_parse(text)
        run.count({"malformed": text}, tag="malformed")
        if r["err"] is None: run.violation("a program the language rejects produced a circuit", {"text": text})
        a, err = O.ast_of_text(text)
        if a is not None and all(o[0] != "other" for _, ops in a["stmts"] for o in ops):
            m = O.parse_circuit(M.run_batch([O.req_parse(a)])[0])
            if (m["err"] is None) != (r["err"] is None): run.mismatch(f"malformed program: implementation {r['err']} vs model {m['err']}", {"text": text})

# ----------------------------------------------------------------------------------------- C13
class Circuit_ir_holder:
    def __init__(self, b): self.ir = b.ir

def check_C13(run: Run):
    rng = random.Random(run.seed * 79 + 83); g = G.Gen(rng)
    names = list(GATE_SIG) + ["measure", "measure_z", "reset", "Hadamard", "Identity", "Foo", "cnot", "h", "", "to_circuit2"]
    sig = {**GATE_SIG, "measure": "qb", "measure_z": "qb", "reset": "q", "Hadamard": "q", "Identity": "q"}
    seqs = []
    for _ in range(run.n(150, 3000)):
        nq = rng.randint(1, 4); nb = rng.randint(0, 3)
        idx_pool = [-2, -1, 0, nq - 1, nq, nq + 1, 10 ** 9]
        bit_pool = [-1, 0, nb - 1, nb, nb + 1]
        calls = []
        for _ in range(rng.randint(1, 8)):
            if rng.random() < 0.1:
                calls.append(("k", rng.choice(["fine", "bad */ comment", "x"]))); continue
            name = rng.choice(names)
            s = sig.get(name, "q")
            args = []
            valid = rng.random() < 0.5
            used = []
            for ch in s:
                if ch == "q":
                    v = rng.choice([x for x in range(nq) if x not in used] or [0]) if valid else rng.choice(idx_pool + used)
                    used.append(v)
                    args.append(rng.choice([("int", v), ("qubit", v), ("int", v), ("intobj", v)]) if valid or rng.random() < 0.8 else rng.choice([("float", 0.5), ("bit", 0), ("other", None)]))
                elif ch == "b":
                    v = rng.randrange(nb) if (valid and nb > 0) else rng.choice(bit_pool)
                    args.append(("bit", v) if valid or rng.random() < 0.8 else rng.choice([("int", v), ("other", None)]))
                elif ch == "f":
                    args.append(("float", g.angle(False)) if valid or rng.random() < 0.7 else rng.choice([("int", 1), ("other", None), ("qubit", 0)]))
                else:
                    args.append(("int", rng.choice([0, 1, 2, -1, 7])) if valid or rng.random() < 0.7 else rng.choice([("float", 1.0), ("other", None)]))
            if not valid:
                k = rng.randrange(4)
                if k == 0 and args: args = args[:-1]                       # missing argument
                elif k == 1: args = args + [("int", 0)]                    # extra argument
            calls.append(("c", name, args))
        seqs.append({"nq": nq, "nb": nb, "calls": calls})
    def cmp_b(c, r, m):
        if m is None: return None
        ri = [x.split(":STATE")[0] for x in r["results"]]
        if ri != m["results"]: return f"call results {ri} vs model {m['results']}"
        return W.diff(r["c"], m["c"], 1e-12)
    res = batch_tie(run, "CircuitBuilder", seqs, lambda c: O.req_build(c["nq"], c["nb"], c["calls"]), lambda c: O.impl_build(c["nq"], c["nb"], c["calls"]), O.parse_build, cmp_b)
    for c, r, _ in res:
        run.count(c, tag="builder-seq")
        if "harness_error" in r: continue
        for call, out in zip(c["calls"], r["results"]):
            run.hist[out.split(":STATE")[0]] += 1
            if "STATE-CHANGED" in out: run.violation(f"a rejected builder call changed the builder's circuit: {call}", c)
        if not wire_wf(r["c"]): run.violation("the builder produced a circuit that is not well-formed (index out of range or repeated operand)", c)
        for s in r["c"]["stmts"]:
            ok, why = coherent(s)
            if not ok: run.violation(f"builder statement {s.get('nm')} does not denote its operation ({why})", c); break
        for s in r["c"]["stmts"]:
            if s["k"] == "comment" and "*/" in s["s"]: run.violation("a comment that ends a comment early was accepted", c)
    # --- snapshots are independent
    from opensquirrel import CircuitBuilder
    import opensquirrel.default_gates as dg
    for _ in range(run.n(40, 600)):
        nq = rng.randint(2, 4)
        b = CircuitBuilder(nq, 2)
        snaps = []
        ops_log = []
        for step in range(rng.randint(3, 10)):
            k = rng.randrange(6)
            try:
                if k <= 1: b.H(rng.randrange(nq)); ops_log.append("H")
                elif k == 2:
                    x, y = rng.sample(range(nq), 2); b.CNOT(x, y); ops_log.append("CNOT")
                elif k == 3:
                    snaps.append(b.to_circuit()); ops_log.append("snapshot")
                elif k == 4 and snaps:
                    s = rng.choice(snaps); frozen = [W.w_circuit(x) for x in snaps if x is not s]; bw = W.w_circuit(b.to_circuit())
                    p = rng.choice(pass_alphabet()[:12]); ops_log.append(f"pass {p}")
                    apply_pass(s, p, {"perm": list(range(nq)), "comments_dropped": False})
                    after = [W.w_circuit(x) for x in snaps if x is not s]
                    if W.diff(frozen, after, 0.0): run.violation(f"a pass on one snapshot changed another snapshot ({ops_log})", {"log": ops_log}); break
                    if W.diff(bw, W.w_circuit(b.to_circuit()), 0.0): run.violation(f"a pass on a snapshot changed the builder ({ops_log})", {"log": ops_log}); break
                else:
                    frozen = [W.w_circuit(x) for x in snaps]
                    b.X(rng.randrange(nq)); ops_log.append("X")
                    if W.diff(frozen, [W.w_circuit(x) for x in snaps], 0.0): run.violation(f"a later builder call changed an earlier snapshot ({ops_log})", {"log": ops_log}); break
            except Exception as ex:
                run.violation(f"snapshot history raised {O.err_name(ex)} ({ops_log})", {"log": ops_log}); break
        # object identity: no statement object shared between snapshots / builder
        ids = [set(map(id, s.ir.statements)) for s in snaps] + [set(map(id, b.ir.statements))]
        for i in range(len(ids)):
            for j in range(i + 1, len(ids)):
                if ids[i] & ids[j]: run.violation("two snapshots share a statement object", {"log": ops_log})
        run.count({"snap": ops_log, "i": _}, tag="snapshots")
    from shared import snapshot_independence, restricted_set_check
    snapshot_independence(run)
    restricted_set_check(run)
    # a valid call followed by an out-of-range / negative one of the same instruction on the same builder is still refused
    from opensquirrel.ir import Bit as _Bit13b, Float as _Fl13b
    for nq_ in (1, 2, 3):
        for nm_, good, bads in (("H", (0,), [(nq_,), (-1,), (nq_ + 5,)]), ("Rx", (0, _Fl13b(0.5)), [(nq_, _Fl13b(0.5)), (-1, _Fl13b(0.5))]),
                                ("CNOT", (0, nq_ - 1), [(0, nq_), (nq_, 0), (-1, 0)]), ("measure", (0, _Bit13b(0)), [(0, _Bit13b(2)), (nq_, _Bit13b(0)), (0, _Bit13b(-1))]),
                                ("reset", (0,), [(nq_,), (-2,)])):
            if nm_ == "CNOT" and nq_ == 1: continue
            bb = CircuitBuilder(nq_, 2)
            try: getattr(bb, nm_)(*good)
            except Exception as ex:
                run.violation(f"builder refused the valid call {nm_}{good}: {O.err_name(ex)}", {"name": nm_}); continue
            for bad in bads:
                run.count({"valid-then-invalid": nm_, "nq": nq_, "bad": repr(bad)}, tag="valid-then-invalid")
                before = W.w_circuit(bb.to_circuit())
                try:
                    getattr(bb, nm_)(*bad)
                    run.violation(f"after a valid {nm_} call the builder accepted {nm_}{bad} on {nq_} qubits / 2 bits", {"name": nm_, "nq": nq_})
                except Exception:
                    if W.diff(before, W.w_circuit(bb.to_circuit()), 0.0): run.violation(f"a refused {nm_}{bad} changed the builder's circuit", {"name": nm_})
    # gates on three or more qubits (user-defined): a repeated operand in any two positions is refused
    from opensquirrel.ir import named_gate as _ng13, ControlledGate, MatrixGate, QubitLike
    from opensquirrel.default_gates import default_gate_set as _dgs13
    @_ng13
    def CCZ13(c1: QubitLike, c2: QubitLike, t: QubitLike) -> ControlledGate:
        return ControlledGate(c1, ControlledGate(c2, dg.Z(t)))
    @_ng13
    def M3g13(a: QubitLike, b_: QubitLike, c: QubitLike) -> MatrixGate:
        return MatrixGate(np.eye(8, dtype=complex)[[0, 1, 2, 3, 4, 5, 7, 6]], [a, b_, c])
    for gname in ("CCZ13", "M3g13"):
        for ops_ in itertools.product(range(3), repeat=3):
            bb = CircuitBuilder(3, gate_set=[*_dgs13, CCZ13, M3g13])
            run.count({"three-qubit user gate": gname, "ops": list(ops_)}, tag="user3")
            try:
                getattr(bb, gname)(*ops_); accepted = True
            except Exception:
                accepted = False
            distinct = len(set(ops_)) == 3
            if accepted and not distinct: run.violation(f"user gate {gname}{ops_}: a repeated qubit operand was accepted", {"gate": gname, "ops": list(ops_)})
            if distinct and not accepted: run.violation(f"user gate {gname}{ops_} on distinct qubits was refused", {"gate": gname, "ops": list(ops_)})
            if accepted and not wire_wf(W.w_circuit(bb.to_circuit())): run.violation(f"user gate {gname}{ops_}: the builder holds an ill-formed circuit", {"gate": gname, "ops": list(ops_)})
    # --- the same index / arity violations in cQASM source
    for text in MALFORMED:
        r = O.impl_parse(text)
        if r["err"] is None: run.violation("the parser accepted an ill-formed instruction", {"text": text})
    for _ in range(run.n(40, 400)):
        c = g.circuit(kinds="named", allow_band=False)
        c["stmts"] = [s for s in c["stmts"] if not (s["k"] == "measure" and s["nm"]["name"] == "measure_z")]
        r = O.impl_parse(O.impl_write(c)["v"])
        run.count({"parsed": c}, tag="parser-wf")
        if r["err"] is None and not wire_wf(r["v"]): run.violation("the parser produced a circuit that is not well-formed", {"c": c})

# ----------------------------------------------------------------------------------------- C15
def check_C15(run: Run):
    rng = random.Random(run.seed * 89 + 97); g = G.Gen(rng)
    pi = math.pi
    angles = [k * pi / 2 for k in range(-12, 13)] + [k * pi for k in range(-6, 7)]
    for b in list(angles):
        angles += [b + 1e-9, b - 1e-9, b + 1e-7, b - 1e-7, np.nextafter(b, 100), np.nextafter(b, -100)]
    angles += [rng.uniform(-6 * pi, 6 * pi) for _ in range(run.n(100, 3000))]
    angles = [float(a) for a in angles]
    rep = M.run_batch([O.req_normalize(a) for a in angles])
    from opensquirrel.common import normalize_angle
    for a, line in zip(angles, rep):
        v = normalize_angle(a); mv = W.h2f(line)
        run.count({"angle": W.f2h(a)}, tag="normalize")
        if not W.feq(v, mv, 1e-12) and abs(abs(v - mv) - 2 * pi) > 1e-9: run.mismatch(f"normalize_angle({a!r}) = {v!r} vs model {mv!r}", {"angle": a})
        if not (-pi - 1e-12 < v <= pi + 1e-7): run.violation(f"normalize_angle({a!r}) = {v!r} outside (-pi, pi]", {"angle": a})
        k = (v - a) / (2 * pi)
        if abs(k - round(k)) > 1e-9: run.violation(f"normalize_angle({a!r}) = {v!r} is not congruent modulo 2 pi", {"angle": a})
    # rotations
    axes = [(1, 0, 0), (0, 0, 1), (1, 1, 0), (1, 2, 3), (-1, -1, 1), (0, 0, 0), (0.0, -0.0, 0.0), (1e-300, 0, 0), (0, 1e-300, 1e-300), (1e300, 1e300, 0), (1e300, 0, 0),
            (1e-162, 1e-162, 0), (5e-324, 0, 0), (float("nan"), 0, 1), (float("inf"), 0, 0), (0, float("-inf"), 1), (1e308, 1e308, 1e308), (1e-9, 1, 0), (1e150, 1e-150, 1)]
    nan, inf = float("nan"), float("inf")
    for bad in (nan, inf, -inf):            # a non-finite component in every position, next to ordinary, zero, tiny and huge ones
        for pos in range(3):
            for others in ((0.0, 1.0), (1.0, 0.0), (1.0, 2.0), (0.0, 0.0), (1e-200, 1.0), (1e200, 1.0), (-1.0, -1.0)):
                v = list(others); v.insert(pos, bad); axes.append(tuple(v))
    axes += [tuple(rng.uniform(-1, 1) * 10.0 ** rng.randint(-20, 20) for _ in range(3)) for _ in range(run.n(60, 1500))]
    # axes of extreme norm (the constructor rescales them first), every sign pattern, the dominant component negative as often as not
    for e_ in (-300, -250, -160, -101, 101, 150, 250, 300):
        for sg in itertools.product((1.0, -1.0), repeat=3):
            if rng.random() < run.n(0.5, 1.0):
                axes.append(tuple(s_ * rng.uniform(0.1, 1) * 10.0 ** (e_ + rng.choice([0, 0, -1, -3])) for s_ in sg))
        axes += [(-10.0 ** e_, 0.0, 0.0), (0.0, -10.0 ** e_, 0.0), (0.0, 0.0, -10.0 ** e_), (10.0 ** (e_ - 1), -3 * 10.0 ** e_, 2 * 10.0 ** e_)]
    cases = []
    for ax in axes:
        for _ in range(run.n(2, 4)):
            cases.append({"q": 0, "axis": [float(x) for x in ax], "angle": rng.choice(angles), "phase": rng.choice(angles)})
    def cmp_c(c, r, m):
        if m is None: return None
        if r["err"] != m["err"]: return f"BlochSphereRotation {r['err']} vs model {m['err']}"
        return W.diff(r["v"], m["v"], 1e-9) if r["err"] is None else None
    res = batch_tie(run, "BlochSphereRotation()", cases, lambda c: O.req_mkbsr(c["q"], c["axis"], c["angle"], c["phase"]),
                    lambda c: O.impl_mkbsr(c["q"], c["axis"], c["angle"], c["phase"]), O.parse_gate, cmp_c)
    for c, r, _ in res:
        run.count(c, tag="bsr")
        if "harness_error" in r: continue
        ax = c["axis"]
        denotes = all(math.isfinite(x) for x in ax) and any(x != 0 for x in ax)
        if not denotes:
            if r["err"] is None: run.violation(f"axis {ax} denotes no rotation but a gate was constructed", c)
            elif r["err"] not in ("ValueError", "TypeError"): run.violation(f"axis {ax}: raised {r['err']}", c)
            continue
        if r["err"] is not None: run.violation(f"valid request raised {r['err']}", c); continue
        gt = r["v"]
        nrm = math.sqrt(sum(x * x for x in gt["axis"]))
        if not all(math.isfinite(x) for x in gt["axis"]) or abs(nrm - 1) > 1e-9: run.violation(f"constructed axis {gt['axis']} is not a finite unit vector", c); continue
        for nm in ("angle", "phase"):
            if not (-pi - 1e-12 < gt[nm] <= pi + 1e-7): run.violation(f"constructed {nm} {gt[nm]!r} outside (-pi, pi]", c)
        # denotes the requested operator: exactly when the angle is in range, else the same Bloch-sphere rotation
        sc = max(abs(x) for x in ax)
        n0 = [x / sc for x in ax]; nn = math.sqrt(sum(x * x for x in n0)); n0 = [x / nn for x in n0]
        U = R.u1(n0, c["angle"], c["phase"]); V = R.u1(gt["axis"], gt["angle"], gt["phase"])
        if -pi + 1e-7 <= c["angle"] <= pi:      # in range, to the library's tolerance
            if np.abs(U - V).max() > 1e-7: run.violation(f"in-range request does not denote the requested operator (difference {np.abs(U - V).max():.3g})", c)
        elif min(np.abs(U - V).max(), np.abs(U + V).max()) > 1e-6: run.violation("out-of-range request does not denote the same Bloch-sphere rotation", c)
    # matrix / controlled gate operand lists
    cases = []
    for k in range(0, 5):
        for ops in itertools.product(range(4), repeat=k):
            if k >= 3 and rng.random() > run.n(0.15, 1.0): continue
            cases.append({"ops": list(ops)})
    for c in cases:
        k = len(c["ops"]); dim = 1 << max(k, 1)
        m = [(1.0 if i // dim == i % dim else 0.0, 0.0) for i in range(dim * dim)]
        r = O.impl_mkmatrix(c["ops"], dim, m)
        mm = O.parse_gate(M.run_batch([O.req_mkmatrix(c["ops"], dim, m)])[0]) if k <= 3 else None
        run.count({"matrix-ops": c["ops"]}, tag="matrix-ops")
        good = k >= 2 and len(set(c["ops"])) == k
        if mm is not None and (r["err"] is None) != (mm["err"] is None): run.mismatch(f"MatrixGate(ops={c['ops']}) {r['err']} vs model {mm['err']}", c)
        if (r["err"] is None) != good: run.violation(f"MatrixGate with operands {c['ops']} {'accepted' if r['err'] is None else 'refused'}", c)
        if r["err"] not in (None, "ValueError"): run.violation(f"MatrixGate with operands {c['ops']} raised {r['err']}", c)
    # any array that is not 2^k x 2^k for the k operands given: also those whose first dimension alone is right
    from opensquirrel.ir import MatrixGate as _MG15
    for ops_, shape in [([0, 1], (4,)), ([0, 1], (4, 2)), ([0, 1], (4, 3)), ([0, 1], (4, 8)), ([0, 1], (4, 4, 1)), ([0, 1], (4, 1)), ([0, 1], (2, 4)), ([0, 1], (1, 4, 4)),
                        ([0, 1, 2], (8, 4)), ([0, 1, 2], (8,)), ([0, 1, 2], (8, 16)), ([0, 1, 2, 3], (16, 8)), ([0, 1], ())]:
        run.count({"matrix-shape": list(shape), "ops": ops_}, tag="matrix-shape")
        try:
            _MG15(np.ones(shape, dtype=complex) if shape else np.complex128(1.0), ops_)
            run.violation(f"MatrixGate accepted an array of shape {shape} for {len(ops_)} operands", {"shape": list(shape), "ops": ops_})
        except (ValueError, TypeError):
            pass
        except Exception as ex:
            run.violation(f"MatrixGate with an array of shape {shape} raised {O.err_name(ex)}", {"shape": list(shape)})
    for dim, shape in [(4, (2, 8)), (4, (16, 1)), (2, (2, 2)), (8, (8, 8))]:
        m = [(1.0, 0.0)] * (shape[0] * shape[1])
        r = O.impl_mkmatrix([0, 1], dim, m, shape)
        run.count({"matrix-shape": shape}, tag="matrix-shape")
        if r["err"] is None: run.violation(f"MatrixGate accepted a matrix of shape {shape} for two operands", {"shape": shape})
    for cq in range(3):
        for inner in [g.bsr(0, False)["g"], g.ctrl_anon(0, 1, False)["g"], g.matrix_gate([1, 2])["g"]]:
            r = O.impl_mkctrl(cq, inner)
            mm = O.parse_gate(M.run_batch([O.req_mkctrl(cq, inner)])[0])
            run.count({"ctrl": cq, "inner": inner}, tag="ctrl")
            good = cq not in R.gate_ops(inner)
            if (r["err"] is None) != (mm["err"] is None): run.mismatch(f"ControlledGate({cq}, …) {r['err']} vs model {mm['err']}", {"c": cq})
            if (r["err"] is None) != good: run.violation(f"ControlledGate(control {cq}, operands {R.gate_ops(inner)}) {'accepted' if r['err'] is None else 'refused'}", {"c": cq, "inner": inner})
    from opensquirrel.ir import BlochSphereRotation, Axis, Qubit
    for bad in [lambda: Axis("x"), lambda: Axis((1, 2)), lambda: Axis((1, 2, 3, 4)), lambda: BlochSphereRotation("q", (1, 0, 0), 1.0), lambda: Qubit("a"), lambda: Qubit(None), lambda: Axis(None)]:
        try: bad(); run.violation("a non-numeric request yielded an object", {})
        except (TypeError, ValueError): pass

# ----------------------------------------------------------------------------------------- C16
def gate_pool(g: G.Gen, rng):
    """operations with several representations each, and near misses"""
    from opensquirrel.ir import BlochSphereRotation as B, ControlledGate as C, MatrixGate as Mx
    import opensquirrel.default_gates as dg
    pi = math.pi
    pool = []
    def add(label, *objs):
        for o in objs: pool.append((label, W.w_gate(o)))
    ax = (1, 2, -2); an = 1.1
    add("r1", B(0, ax, an, 0.3), B(0, tuple(-x for x in ax), -an, 0.3))
    add("X0", dg.X(0), B(0, (-1, 0, 0), pi, -pi / 2), B(0, (1, 0, 0), -pi, -pi / 2))
    add("I0", dg.I(0), B(0, (0, 1, 0), 0, 0), B(0, (0, 0, 1), 0, 0))
    add("r1-near", *[B(0, ax, an + e, 0.3) for e in (1e-12, 1e-9, 1e-6, 1e-4, 1e-2)])
    add("r1-phase", B(0, ax, an, 0.3 + 1e-3), B(0, ax, an, 1.0))
    add("r1-q1", B(1, ax, an, 0.3))
    cz = np.diag([1, 1, 1, -1]).astype(complex)
    add("CZ01", dg.CZ(0, 1), dg.CZ(1, 0), Mx(cz, [0, 1]), Mx(cz, [1, 0]), C(0, B(1, (0, 0, 1), pi, pi / 2)))
    cn = np.array([[1, 0, 0, 0], [0, 1, 0, 0], [0, 0, 0, 1], [0, 0, 1, 0]], complex)
    cn_rev = np.array([[1, 0, 0, 0], [0, 0, 0, 1], [0, 0, 1, 0], [0, 1, 0, 0]], complex)
    add("CNOT01", dg.CNOT(0, 1), Mx(cn, [0, 1]), Mx(cn_rev, [1, 0]))
    add("CNOT10", dg.CNOT(1, 0), Mx(cn, [1, 0]))
    # a multiple of a gate's matrix is not that gate (only a factor of modulus one is a global phase)
    add("CNOT01-scaled", Mx(2 * cn, [0, 1]), Mx(0.5 * cn, [0, 1]), Mx(1000 * cn, [0, 1]), Mx(3j * cn, [0, 1]), Mx((1 + 1e-3) * cn, [0, 1]))
    add("CNOT01", Mx(np.exp(0.7j) * cn, [0, 1]), Mx(-cn, [0, 1]))
    add("CZ-relphase", C(0, B(1, (0, 0, 1), pi, 0.0)), C(0, B(1, (0, 0, 1), pi, pi / 2 + 1e-3)))
    add("CZ02", dg.CZ(0, 2), Mx(cz, [2, 0]))
    add("CNOT01-near", C(0, B(1, (1, 0, 0), pi - 1e-4, pi / 2)), C(0, B(1, (1, 0, 0), pi - 1e-9, pi / 2)),
        C(0, B(1, (1, 0, 0), pi - 3e-4, pi / 2)), C(0, B(1, (1, 0, 0), pi - 1e-3, pi / 2)), Mx(cn * np.exp(2e-4j), [0, 1]) if False else C(0, B(1, (1, 0, 0), pi, pi / 2 + 2e-4)))
    import opensquirrel.default_gates as dgx
    from opensquirrel.ir import Float as Fl
    add("CR-near", dgx.CR(0, 1, Fl(0.7)), dgx.CR(0, 1, Fl(0.7 + 1e-4)), dgx.CR(0, 1, Fl(0.7 + 5e-4)), Mx(np.diag([1, 1, 1, np.exp(0.7002j)]), [0, 1]))
    # controlled gates with multi-qubit targets: a phase on the target is a relative phase of the controlled gate
    add("Toffoli", C(0, C(1, dg.X(2))), C(0, Mx(cn, [1, 2])), C(1, C(0, dg.X(2))))
    add("Toffoli-relphase", C(0, Mx(1j * cn, [1, 2])), C(0, Mx(np.exp(0.3j) * cn, [1, 2])))
    add("CI", C(0, dg.I(1)), C(0, dg.I(2)), C(0, Mx(np.eye(4), [1, 2])))
    # a controlled pure phase (target: rotation by 0 with a phase) is the phase gate on the control, not the identity
    add("CPhase0.7", C(0, B(1, (0, 0, 1), 0.0, 0.7)), C(0, B(1, (1, 0, 0), 0.0, 0.7)), C(0, B(2, (0, 1, 0), 2 * pi, 0.7 + pi)))
    # identity operations on disjoint operand sets (same operation on the union, also up to a global phase)
    add("I-disjoint", Mx(np.eye(4), [0, 1]), Mx(1j * np.eye(4), [2, 3]), C(2, dg.I(3)), C(1, dg.I(0)), Mx(np.eye(8), [4, 2, 0]))
    add("CZ23", dg.CZ(2, 3))
    add("CCZ-relphase", C(0, Mx(np.exp(0.3j) * cz, [1, 2])))
    add("I01", C(1, dg.I(0)), Mx(np.eye(4), [0, 1]), C(0, dg.I(1)))
    add("globalphase", Mx(np.eye(4) * np.exp(0.7j), [0, 1]))
    sw = np.array([[1, 0, 0, 0], [0, 0, 1, 0], [0, 1, 0, 0], [0, 0, 0, 1]], complex)
    add("SWAP", Mx(sw, [0, 1]), Mx(sw, [1, 0]))
    add("CCZ", C(0, C(1, dg.Z(2))), C(1, C(0, dg.Z(2))), C(2, C(0, dg.Z(1))), Mx(np.diag([1] * 7 + [-1]).astype(complex), [0, 1, 2]))
    for _ in range(6):
        pool.append(("rnd", g.gate1(rng.randrange(2), False)["g"]))
    return pool

def check_C16(run: Run):
    rng = random.Random(run.seed * 101 + 103); g = G.Gen(rng)
    pool = gate_pool(g, rng)
    pairs = list(itertools.product(range(len(pool)), repeat=2))
    cases = [{"a": pool[i][1], "b": pool[j][1], "la": pool[i][0], "lb": pool[j][0]} for i, j in pairs]
    def cmp_e(c, r, m):
        if m is None: return None
        if r["err"] != m["err"] or r["v"] != m["v"]:
            return "ambiguous" if ("near" in c["la"] or "near" in c["lb"]) else f"== gives {r['v']}/{r['err']} vs model {m['v']}/{m['err']}"
        return None
    res = batch_tie(run, "gate == gate", cases, lambda c: O.req_gateeq(c["a"], c["b"]), lambda c: O.impl_gateeq(c["a"], c["b"]), O.parse_bool, cmp_e)
    results = {}
    for c, r, _ in res:
        run.count({"a": c["a"], "b": c["b"]}, tag="pair")
        if "harness_error" in r: continue
        if r["err"] is not None: run.violation(f"== raised {r['err']}", c); continue
        results[(json.dumps(c["a"], sort_keys=True), json.dumps(c["b"], sort_keys=True))] = r["v"]
        qs = sorted(set(R.gate_ops(c["a"])) | set(R.gate_ops(c["b"])))
        A = R.gate_matrix(R.rename_gate(c["a"], lambda q: qs.index(q)), len(qs)); B = R.gate_matrix(R.rename_gate(c["b"], lambda q: qs.index(q)), len(qs))
        both_bsr = c["a"]["k"] == "bsr" and c["b"]["k"] == "bsr"
        d = float(np.abs(A - B).max()) if both_bsr else R.phase_dist(A, B)
        if r["v"] and d > 3e-5: run.violation(f"two gates with different operations compare equal (distance {d:.3g}; {c['la']} vs {c['lb']})", c,
                                              fkey="C16-scalar-multiple" if ("scaled" in c["la"] or "scaled" in c["lb"]) else None)
        if (not r["v"]) and d < 1e-9: run.violation(f"two representations of the same operation compare unequal ({c['la']} vs {c['lb']})", c)
    scaled = {json.dumps(gt, sort_keys=True) for lab, gt in pool if "scaled" in lab}
    for (a, b), v in results.items():
        if (b, a) in results and results[(b, a)] != v and "near" not in a:
            d = json.loads(a), json.loads(b)
            run.violation("gate equality is not symmetric", {"a": d[0], "b": d[1]}, fkey="C16-scalar-multiple" if (a in scaled or b in scaled) else None)
    for _, gt in pool:
        if O.impl_gateeq(gt, gt)["v"] is not True: run.violation("gate equality is not reflexive", {"a": gt})
    # equality with an object of another type is False, never an exception (gates, statements, IR, circuit, mapping, registers)
    from opensquirrel import CircuitBuilder as _CB16
    from opensquirrel.mapper.mapping import Mapping as _Map16
    import opensquirrel.default_gates as _dg16
    from opensquirrel.ir import Bit as _Bit16
    _b = _CB16(2, 1); _b.H(0); _b.CNOT(0, 1); _b.measure(0, _Bit16(0))
    _c = _b.to_circuit()
    objs = [("gate", _dg16.H(0)), ("controlled gate", _dg16.CNOT(0, 1)), ("measure", _c.ir.statements[2]), ("IR", _c.ir), ("circuit", _c),
            ("mapping", _Map16([0, 1])), ("register manager", _c.register_manager), ("qubit", _c.ir.statements[0].qubit)]
    for lab, o in objs:
        for foreign in (5, "H q[0]", None, (0, 1), [0, 1], 1.5, object()):
            run.count({"foreign": lab, "other": repr(foreign)[:20]}, tag="foreign")
            try:
                v1 = (o == foreign); v2 = (o != foreign)
            except Exception as ex:
                run.violation(f"comparing a {lab} with {type(foreign).__name__} raised {O.err_name(ex)}", {"kind": lab}); continue
            if v1 or not v2: run.violation(f"a {lab} compares equal to a {type(foreign).__name__}", {"kind": lab})
    # circuit equality: tie with the model's `circuitEq` on pairs of related circuits
    cpairs = []
    for _ in range(run.n(80, 1200)):
        c = g.circuit(kinds="all", allow_band=False, length=rng.randint(1, 6))
        d = copy.deepcopy(c)
        m_ = rng.randrange(6)
        if m_ == 0 and d["stmts"]: d["stmts"] = d["stmts"][:-1]
        elif m_ == 1 and d["stmts"]:
            i = rng.randrange(len(d["stmts"]))
            if d["stmts"][i]["k"] == "gate": d["stmts"][i] = g.gate1(R.gate_ops(d["stmts"][i]["g"])[0], False)
        elif m_ == 2: d["nb"] += 1
        elif m_ == 3 and d["stmts"]:
            i = rng.randrange(len(d["stmts"]))
            if d["stmts"][i]["k"] == "measure": d["stmts"][i] = {**d["stmts"][i], "b": (d["stmts"][i]["b"] + 1) % max(1, d["nb"])}
        elif m_ == 4 and len(d["stmts"]) >= 2: d["stmts"][0], d["stmts"][1] = d["stmts"][1], d["stmts"][0]
        cpairs.append({"a": c, "b": d})
    def cmp_ce(c, r, m):
        if m is None: return None
        return None if (r["err"], r["v"]) == (m["err"], m["v"]) else f"circuit == gives {r['v']}/{r['err']} vs model {m['v']}/{m['err']}"
    batch_tie(run, "circuit == circuit", cpairs, lambda c: O.req_circuiteq(c["a"], c["b"]), lambda c: O.impl_circuiteq(c["a"], c["b"]), O.parse_bool, cmp_ce)
    for c in cpairs: run.count(c, tag="circuit-pair")
    # circuit equality is statement-wise
    from opensquirrel.ir import IR
    for _ in range(run.n(40, 400)):
        c = g.circuit(kinds="all", allow_band=False, length=rng.randint(1, 6))
        c1 = W.os_circuit(c); c2 = W.os_circuit(c)
        run.count({"circ-eq": c}, tag="circuit-eq")
        if not (c1 == c2): run.violation("a circuit does not equal its copy", {"c": c})
        if len(c["stmts"]) >= 1:
            gates = [i for i, s in enumerate(c["stmts"]) if s["k"] == "gate"]
            if gates:
                i = rng.choice(gates); d = copy.deepcopy(c)
                d["stmts"][i] = g.bsr(R.gate_ops(c["stmts"][i]["g"])[0], False)
                okk, dist, _ = R.equiv_stmts([c["stmts"][i]], [d["stmts"][i]], 1e-3)
                if not okk and (W.os_circuit(d) == c1): run.violation("circuits differing in one statement compare equal", {"c": c, "d": d})
            d = copy.deepcopy(c); d["stmts"] = d["stmts"][:-1]
            if W.os_circuit(d) == c1: run.violation("circuits of different length compare equal", {"c": c})
        # the same statements on registers of another size are another circuit (one more qubit / one more bit)
        for dq, db in ((1, 0), (0, 1), (2, 3)):
            d = copy.deepcopy(c); d["nq"] += dq; d["nb"] += db
            c3 = W.os_circuit(d)
            if (c3 == c1) or (c1 == c3): run.violation(f"circuits on registers of different size compare equal (+{dq} qubits, +{db} bits)", {"c": c})

# ----------------------------------------------------------------------------------------- C18
def check_C18(run: Run):
    rng = random.Random(run.seed * 107 + 109); g = G.Gen(rng)
    cases = []
    import opensquirrel.default_gates as dg
    # exhaustive: all multisets of up to 3 placements on 4 qubits
    plc = []
    for a, b in itertools.permutations(range(4), 2):
        plc.append(("CNOT", a, b)); plc.append(("CZ", a, b)); plc.append(("M", a, b))
    sets = [()] + [(p,) for p in plc] + (list(itertools.combinations(plc, 2)) if True else [])
    if not run.quick(): sets += list(itertools.combinations(plc, 3))
    else: sets += rng.sample(list(itertools.combinations(plc, 3)), 150); sets = rng.sample(sets, 350)
    for st in sets:
        stm = []
        for k, a, b in st:
            stm.append(W.w_stmt(dg.CNOT(a, b)) if k == "CNOT" else W.w_stmt(dg.CZ(a, b)) if k == "CZ" else g.matrix_gate([a, b], "swap"))
        cases.append({"c": {"nq": 4, "nb": 0, "stmts": stm}})
    for _ in range(run.n(100, 2000)):
        cases.append({"c": g.circuit(n=rng.randint(2, 8), kinds="all", allow_band=False, length=rng.randint(0, 12))})
    def cmp_g(c, r, m):
        if m is None: return None
        if r["err"] != m["err"]: return f"graph {r['err']} vs model {m['err']}"
        return None if r["err"] is not None or r["v"]["edges"] == m["v"]["edges"] else f"edges {r['v']['edges']} vs model {m['v']['edges']}"
    res = batch_tie(run, "make_interaction_graph", cases, lambda c: O.req_graph(c["c"]), lambda c: O.impl_graph(c["c"]), O.parse_graph, cmp_g)
    for c, r, _ in res:
        gates = [s for s in c["c"]["stmts"] if s["k"] == "gate"]
        run.count(c["c"], nontrivial=any(len(R.gate_ops(s["g"])) >= 2 for s in gates), tag="graph")
        if "harness_error" in r: continue
        big = any(len(R.gate_ops(s["g"])) >= 3 for s in gates)
        if big:
            if r["err"] is None: run.violation("a circuit with a gate on three or more qubits was not refused", c)
            elif r["err"] != "ValueError": run.violation(f"three-qubit gate: raised {r['err']}", c)
            continue
        if r["err"] is not None: run.violation(f"interaction graph raised {r['err']}", c); continue
        exp = sorted({tuple(sorted(R.gate_ops(s["g"]))) for s in gates if len(R.gate_ops(s["g"])) == 2})
        if [tuple(e) for e in r["v"]["edges"]] != exp: run.violation(f"edges {r['v']['edges']}, expected {exp}", c)
        touched = sorted({q for e in exp for q in e})
        if sorted(r["v"]["nodes"]) != touched: run.violation(f"nodes {r['v']['nodes']} include qubits without two-qubit interaction (expected {touched})", c)

    # the graph of a circuit that was relabelled in place: nodes are the qubits as they are now, usable with fresh Qubit objects
    from opensquirrel.mapper.utils import make_interaction_graph
    from opensquirrel.ir import Qubit
    for _ in range(run.n(30, 300)):
        n = rng.randint(2, 6)
        c0 = g.circuit(n=n, kinds="named", allow_band=False, length=rng.randint(2, 10))
        p = list(range(n)); rng.shuffle(p)
        if p == sorted(p): p = p[1:] + p[:1]
        r0 = O.impl_map(p, c0)
        run.count({"mapped-graph": c0, "p": p}, tag="after-map")
        if r0["err"] is not None: continue
        circ = r0["_circ"]
        if rng.random() < 0.5:
            circ.replace(dg.CZ, lambda a_, b_: [dg.H(b_), dg.CNOT(a_, b_), dg.H(b_)])
        wc = W.w_circuit(circ)
        exp = sorted({tuple(sorted(R.gate_ops(s_["g"]))) for s_ in wc["stmts"] if s_["k"] == "gate" and len(R.gate_ops(s_["g"])) == 2})
        try:
            gr = make_interaction_graph(circ.ir)
            got = sorted({(min(a.index, b.index), max(a.index, b.index)) for a, b in gr.edges})
            if got != exp: run.violation(f"after map: edges {got}, expected {exp}", {"c": c0, "p": p}); continue
            if len(gr.nodes) != len({q for e in exp for q in e}): run.violation(f"after map: {len(gr.nodes)} nodes for {len({q for e in exp for q in e})} interacting qubits (a qubit occurs as several nodes)", {"c": c0, "p": p}); continue
            if len(gr.edges) != len(exp): run.violation("after map: a pair occurs as several edges", {"c": c0, "p": p}); continue
            for a, b in exp:
                if not gr.has_edge(Qubit(a), Qubit(b)) or not gr.has_edge(Qubit(b), Qubit(a)):
                    run.violation(f"after map: has_edge(Qubit({a}), Qubit({b})) is False for an existing interaction", {"c": c0, "p": p}); break
        except Exception as ex:
            run.violation(f"interaction graph of a mapped circuit raised {O.err_name(ex)}", {"c": c0, "p": p})

# ----------------------------------------------------------------------------------------- C17
PIPE_POOL = None
def pipeline_pool():
    src = [
        "version 3.0\nqubit[3] q\nbit[2] b\nH q[0]\nCNOT q[0], q[1]\nRz(0.5) q[2]\nb[0] = measure q[0]\nX q[0]\nCZ q[1], q[2]\n",
        "version 3.0\nqubit[2] q\nRx(1.2) q[0]\nRy(-0.7) q[0]\nCR(2.5) q[0], q[1]\nT q[1]\nH q[0:1]\n",
        "version 3.0\nqubit[4] q\nbit[1] b\nY90 q[3]\nCNOT q[3], q[0]\nS q[2]\nreset q[1]\nCRk(3) q[1], q[2]\nb[0] = measure q[2]\nmX90 q[0]\n",
        "version 3.0\nqubit[2] q\nH q[0]\nH q[0]\nX q[1]\nZ q[1]\nCZ q[0], q[1]\nTdag q[0]\n",
        "version 3.0\nqubit[3] q\nT q[0]\nT q[0]\nY90 q[1]\nX q[1]\nRx(0.78539816339744830962) q[2]\nRx(0.78539816339744830962) q[2]\n",
    ]
    pipes = [[("merge",)], [("decompose", "CNOT"), ("merge",), ("decompose", "McKay")], [("decompose", "ZYZ")], [("map", "rev"), ("decompose", "XYX"), ("merge",)],
             [("replace", "CNOT"), ("merge",), ("decompose", "YXY")], [("decompose", "McKay"), ("map", "cycle")],
             [("merge",), ("map", "cycle")], [("merge",), ("map", "cycle"), ("decompose", "ZYZ"), ("merge",)]]
    pool = [(s, p) for s in src for p in pipes]
    # sources that differ from one another only in what a hidden memo could confuse: variable layouts with the same names and the
    # same total size, bare resets on registers of different size, angles that agree to seven decimals, the I gate, measurements
    # into re-used bits, and circuits whose schedule export fails after a measurement was already visited
    extra = [
        "version 3.0\nqubit[2] a\nqubit[3] b\nbit[2] m\nX b[0]\nCNOT a[1], b[2]\nm[1] = measure b[1]\nRz(0.3) a[0]\n",
        "version 3.0\nqubit[3] a\nqubit[2] b\nbit[2] m\nX b[0]\nCNOT a[1], b[1]\nm[1] = measure b[1]\nRz(0.3) a[0]\n",
        "version 3.0\nqubit[5] q\nX90 q[4]\nreset\nY q[1]\n",
        "version 3.0\nqubit[3] q\nX90 q[2]\nreset\nY q[1]\n",
        "version 3.0\nqubit[2] q\nRx(0.12345674) q[0]\nRy(0.5) q[0]\nCZ q[0], q[1]\nRz(2.00000004) q[1]\n",
        "version 3.0\nqubit[2] q\nRx(0.12345671) q[0]\nRy(0.5) q[0]\nCZ q[0], q[1]\nRz(2.00000001) q[1]\n",
        "version 3.0\nqubit[3] q\nI q[0]\nI q[2]\nX q[1]\nCNOT q[2], q[0]\nI q[1]\n",
        "version 3.0\nqubit[2] q\nbit[1] b\nX q[0]\nb[0] = measure q[0]\nb[0] = measure q[1]\nY90 q[1]\nb[0] = measure q[0]\n",
        "version 3.0\nqubit[2] q\nbit[2] b\nb[0] = measure q[0]\nb[1] = measure q[0]\nH q[1]\nb[0] = measure q[0]\n",
    ]
    xp = [[], [("merge",)], [("map", "rev")], [("decompose", "ZYZ")], [("merge",), ("map", "cycle"), ("decompose", "XYX")]]
    pool += [(s, p) for s in extra for p in xp]
    return pool

def compile_one(src, pipe):
    """text of the compiled circuit followed by its other outward views (cQASM 1, schedule, interaction graph); an export that is
    refused is recorded by the type of the error"""
    from opensquirrel import Circuit
    c = Circuit.from_string(src)
    st = {"perm": list(range(c.qubit_register_size)), "comments_dropped": False}
    for p in pipe: c = apply_pass(c, p, st)
    views = [str(c)]
    for f in (lambda: O.impl_exportv1(None, circ=c), lambda: O.impl_sched(None, circ=c), lambda: O.impl_graph(W.w_circuit(c))):
        try:
            r = f(); views.append(json.dumps(r["v"] if r["err"] is None else {"error": r["err"]}, sort_keys=True, default=str))
        except Exception as ex:
            views.append("raised " + type(ex).__name__)
    return "\n----\n".join(views), c

def snapshot_globals():
    import opensquirrel.default_gates as dg, opensquirrel.default_measures as dm, opensquirrel.default_resets as dr
    import opensquirrel.ir as ir
    snap = {"gate_set": [f.__name__ for f in dg.default_gate_set], "noparams": [f.__name__ for f in dg.default_bloch_sphere_rotations_without_params],
            "aliases": {k: v.__name__ for k, v in dg.default_gate_aliases.items()}, "measures": [f.__name__ for f in dm.default_measure_set],
            "resets": [f.__name__ for f in dr.default_reset_set], "ids": [id(f) for f in dg.default_gate_set],
            "H": W.w_stmt(dg.H(0)), "X": W.w_stmt(dg.X(1)), "CNOT": W.w_stmt(dg.CNOT(0, 1)), "I": W.w_stmt(dg.I(2)),
            "ann": sorted(ir.ANNOTATIONS_TO_TYPE_MAP)}
    return snap

def check_C17(run: Run):
    redefinition_check(run, False)
    from shared import snapshot_independence, mapper_reuse, decomposer_reuse
    snapshot_independence(run)
    mapper_reuse(run)
    decomposer_reuse(run)
    rng = random.Random(run.seed * 113 + 127)
    pool = pipeline_pool()
    ref = {}
    g0 = snapshot_globals()
    for i, (s, p) in enumerate(pool):
        ref[i], _ = compile_one(s, p)
    # interleavings in one process: compile k other things before / in between, hold on to earlier circuits
    n_hist = run.n(60, 800)
    for h in range(n_hist):
        k = rng.randint(2, 4)
        idxs = [rng.randrange(len(pool)) for _ in range(k)]
        live = []
        for i in idxs:
            frozen = [(W.w_circuit(c), str(c)) for c in live]
            out, circ = compile_one(*pool[i])
            run.count({"history": idxs, "at": i, "h": h}, tag="in-process")
            if out != ref[i]: run.violation(f"compiling pool item {i} after {idxs} gave different text than on its own", {"history": idxs, "item": i})
            after = [(W.w_circuit(c), str(c)) for c in live]
            if W.diff([a for a, _ in frozen], [a for a, _ in after], 0.0) or [b for _, b in frozen] != [b for _, b in after]:
                run.violation(f"compiling another circuit modified an earlier circuit (history {idxs})", {"history": idxs})
            live.append(circ)
        g1 = snapshot_globals()
        if g1 != g0: run.violation(f"default gate definitions / gate sets were modified by compiling (history {idxs})", {"history": idxs}); break
    # gates handed to a callback or copied from another circuit are not modified
    import opensquirrel.default_gates as dg
    from opensquirrel import Circuit
    for _ in range(run.n(20, 200)):
        c1 = Circuit.from_string(pool[0][0]); c2 = Circuit.from_string(pool[2][0])
        shared = dg.H(1)
        c1.ir.add_gate(shared)
        before = W.w_stmt(shared)
        handed = []
        def f(a, b):
            x = [dg.H(b), dg.CZ(a, b), dg.H(b)]; handed.extend(x); return x
        c2.replace(dg.CNOT, f)
        hb = [W.w_stmt(x) for x in handed]
        c2.merge_single_qubit_gates(); c2.decompose(O.os_decomposer("McKay"))
        run.count({"alias-check": _}, tag="aliasing")
        if W.diff(before, W.w_stmt(shared), 0.0): run.violation("a pass on one circuit modified a gate held by another circuit", {})
    # gates handed to a decomposer and gates copied into another circuit are never modified by later passes
    from opensquirrel.decomposer import Decomposer
    from opensquirrel.mapper import HardcodedMapper
    from opensquirrel.mapper.mapping import Mapping
    for it in range(run.n(20, 200)):
        src, _p = pool[rng.randrange(len(pool))]
        c1 = Circuit.from_string(src)
        n = c1.qubit_register_size
        kept = []
        inner = O.os_decomposer(rng.choice(["McKay", "ZYZ", "XYX", "CNOT"]))
        class Recording(Decomposer):
            def decompose(self, gate):
                kept.append(gate); return inner.decompose(gate)
        c1.decompose(Recording())
        live = set(map(id, c1.ir.statements))
        kept = [x for x in kept if id(x) not in live]           # only the gates that were replaced and left the circuit
        before = [W.w_stmt(x) for x in kept]
        perm = list(range(n)); rng.shuffle(perm)
        if perm == sorted(perm) and n > 1: perm = perm[1:] + perm[:1]
        c1.map(HardcodedMapper(n, Mapping(perm)))
        run.count({"recording": it}, tag="aliasing")
        if W.diff(before, [W.w_stmt(x) for x in kept], 0.0):
            run.violation("gates that were handed to a decomposer (and replaced) were modified by a later map of the circuit", {"src": src, "perm": perm})
        # copy gates through generator(*arguments) into a second circuit, map that one
        c3 = Circuit.from_string(src); txt3 = str(c3); w3 = W.w_circuit(c3)
        c4 = Circuit.from_string("version 3.0\nqubit[%d] q\n" % n)
        for st in c3.ir.statements:
            if getattr(st, "generator", None) is not None and hasattr(st, "get_qubit_operands") and st.__class__.__name__ != "Measure" and st.__class__.__name__ != "Reset":
                c4.ir.add_gate(st.generator(*st.arguments))
        c4.map(HardcodedMapper(n, Mapping(perm)))
        if str(c3) != txt3 or W.diff(w3, W.w_circuit(c3), 0.0):
            run.violation("mapping a circuit built from another circuit's generators and arguments modified the original", {"src": src, "perm": perm})
    # across processes and hash seeds
    script = os.path.join(os.path.dirname(os.path.abspath(__file__)), "c17_worker.py")
    seeds = ["0", "1", "2", "random"] if not run.quick() else ["0", "random"]
    orders = [list(range(len(pool))), list(reversed(range(len(pool))))]
    if not run.quick(): orders += [rng.sample(range(len(pool)), len(pool)) for _ in range(3)]
    for hs in seeds:
        for order in orders[: (1 if run.quick() and hs != "0" else len(orders))]:
            env = {**os.environ, "PYTHONHASHSEED": hs}
            p = subprocess.run([sys.executable, script, json.dumps(order)], stdout=subprocess.PIPE, stderr=subprocess.PIPE, env=env, timeout=600)
            run.count({"process": hs, "order": order}, tag="process")
            if p.returncode != 0:
                run.violation(f"compilation in a fresh process failed (PYTHONHASHSEED={hs})", {"stderr": p.stderr.decode()[-500:]}); continue
            outs = json.loads(p.stdout.decode())
            for i, txt in outs.items():
                if txt != ref[int(i)]:
                    run.violation(f"pool item {i} compiles to different text in a fresh process with PYTHONHASHSEED={hs} (order {order})", {"item": int(i), "hashseed": hs, "order": order}); break
    # model: the order in which the union of qubits is enumerated does not matter (the only hash-ordered computation)
    g = G.Gen(rng)
    lines = []; meta = []
    for _ in range(run.n(40, 500)):
        a = g.ctrl_anon(*rng.sample(range(3), 2), False)["g"] if rng.random() < 0.6 else g.matrix_gate(rng.sample(range(3), 2))["g"]
        b = a if rng.random() < 0.4 else (g.ctrl_anon(*rng.sample(range(3), 2), False)["g"])
        qs = sorted(set(R.gate_ops(a)) | set(R.gate_ops(b)))
        res = []
        for perm in itertools.permutations(qs):
            lines.append(" ".join(["compareidx"] + W.t_ints(list(perm)) + W.t_gate(a) + W.t_gate(b))); meta.append((len(meta), a, b))
    rep = M.run_batch(lines)
    i = 0
    while i < len(rep):
        j = i
        while j < len(rep) and meta[j][1] is meta[i][1] and meta[j][2] is meta[i][2]: j += 1
        if len(set(rep[i:j])) != 1: run.mismatch("model: gate comparison depends on the enumeration order of the qubit union", {"a": meta[i][1], "b": meta[i][2]})
        i = j

# ----------------------------------------------------------------------------------------- C19
def check_C19(run: Run):
    rng = random.Random(run.seed * 131 + 137); g = G.Gen(rng)
    import opensquirrel.utils.matrix_expander as mx
    import opensquirrel.circuit_matrix_calculator as cmc
    sizes = []
    orig_get = mx.get_matrix
    class Spy(mx.MatrixExpander):
        def __init__(self, n):
            sizes.append(n)
            if n > 16: raise RuntimeError(f"matrix expansion requested on {n} qubits")      # never allocate 4^n entries here
            super().__init__(n)
    orig_cls = mx.MatrixExpander
    mx.MatrixExpander = Spy
    try:
        regs = [40, 64, 1000] + ([100000] if True else [])
        al = pass_alphabet()
        for reg in regs:
            for it in range(run.n(8, 60) if reg < 100000 else run.n(6, 18)):
                if len(run.violations) >= 5: break          # enough evidence; do not soak a degraded implementation
                k = rng.randint(2, 4)
                base = g.circuit(n=k, kinds="all", allow_band=False, length=rng.randint(4, 24), max_outcomes=2)
                if it % 6 in (0, 1, 5):      # two-qubit gates between the lowest and the highest placed qubit
                    import opensquirrel.default_gates as _dg
                    base["stmts"].append(W.w_stmt(_dg.CNOT(0, k - 1))); base["stmts"].append(W.w_stmt(_dg.CZ(k - 1, 0)))
                place = ["spread", "random", "low", "high", "digits"][it % 5]
                idx = list(range(k)) if place == "low" else list(range(reg - k, reg)) if place == "high" else \
                    ([0] + sorted(rng.sample(range(1, reg - 1), k - 2)) + [reg - 1]) if place == "spread" else sorted(rng.sample(range(reg), k))
                if place == "digits":
                    # indices whose decimal spellings have different lengths (3, 12, 101, ...), and a rotation pending on every
                    # qubit at the end of the circuit: whatever orders the final flush must order by index
                    idx = sorted({rng.randint(2, 9), rng.randint(10, min(99, reg - 1)), reg - 1, rng.randint(10, reg - 2)})[:k]
                    while len(idx) < k: idx = sorted(set(idx) | {rng.randrange(reg)})
                    import opensquirrel.default_gates as _dg
                    base["stmts"] += [W.w_stmt(_dg.H(q_)) for q_ in range(k)] + [W.w_stmt(_dg.T(q_)) for q_ in reversed(range(k))]
                big = {"nq": reg, "nb": base["nb"], "stmts": [spec_map_stmt(s, {i: idx[i] for i in range(k)}) for s in base["stmts"]]}
                seq = [rng.choice([p for p in al if p[0] != "writeparse"]) for _ in range(rng.randint(1, 3))]
                forced = [("decompose", "CNOT"), ("replace", "CNOT"), ("map", "cycle"), ("merge",), ("decompose", "ZYZ"), ("replace", "CZ")]
                seq = [forced[it % len(forced)]] + seq[:2]
                if place == "digits": seq = [("merge",)] + seq[:1]
                run.count({"reg": reg, "base": base, "seq": seq, "idx": idx}, tag=f"reg{reg}")
                sizes.clear()
                t0 = time.time()
                try:
                    cb = W.os_circuit(big); cs = W.os_circuit(base)
                    stb = {"perm": list(range(reg)), "comments_dropped": False}; sts = {"perm": list(range(k)), "comments_dropped": False}
                    for p in seq:
                        if p[0] == "map":
                            # map: the same permutation of the used qubits, identity elsewhere
                            from opensquirrel.mapper import HardcodedMapper
                            from opensquirrel.mapper.mapping import Mapping
                            ps = perm_of(p[1], k); pb = list(range(reg))
                            for i in range(k): pb[idx[i]] = idx[ps[i]]
                            cs.map(HardcodedMapper(k, Mapping(ps))); cb.map(HardcodedMapper(reg, Mapping(pb)))
                        else:
                            cs = apply_pass(cs, p, sts); cb = apply_pass(cb, p, stb)
                    txt = str(cb); v1 = None
                    wb = W.w_circuit(cb); ws = W.w_circuit(cs)
                    if all(s["k"] != "gate" or s["nm"] for s in wb["stmts"]): O.impl_exportv1(None, circ=cb)
                    O.impl_sched(None, circ=cb)
                    _ = (cb == cb)
                    if reg <= 1000 and all((s["k"] != "gate" or s["nm"]) and not (s["k"] == "measure" and s["nm"]["name"] == "measure_z") for s in wb["stmts"]):
                        from opensquirrel import Circuit
                        Circuit.from_string(txt)
                except Exception as ex:
                    run.violation(f"pipeline {seq} on a register of {reg} qubits raised {O.err_name(ex)}: {ex}"[:300], {"reg": reg, "seq": seq, "base": base, "idx": idx}); continue
                dt = time.time() - t0
                if dt > 20: run.violation(f"pipeline {seq} on {reg} qubits took {dt:.1f}s", {"reg": reg, "seq": seq, "base": base})
                if sizes and max(sizes) > 6: run.violation(f"a matrix on {max(sizes)} qubits was built (register {reg}); cost must follow the gates' operands", {"reg": reg, "seq": seq, "base": base})
                run.hist["max_matrix_qubits"] = max(run.hist.get("max_matrix_qubits", 0), max(sizes) if sizes else 0)
                # same result as on the small register
                exp = [spec_map_stmt(s, {i: idx[i] for i in range(k)}) for s in ws["stmts"]]
                d = W.diff(exp, wb["stmts"], 1e-9)
                if d: run.violation(f"the result on a register of {reg} qubits differs from the small-register run: {d}", {"reg": reg, "seq": seq, "base": base, "idx": idx})
        # the front ends on a very large register: declaration and a handful of statements, cost follows the statements
        from opensquirrel import Circuit as _C19, CircuitBuilder as _CB19
        for reg in (1000, 100000):
            src = f"version 3.0\nqubit[{reg}] q\nbit[{reg}] b\nH q[0]\nCNOT q[0], q[{reg - 1}]\nRz(0.25) q[{reg // 2}]\nb[{reg - 1}] = measure q[{reg - 1}]\n"
            t0 = time.time()
            try:
                c_ = _C19.from_string(src); txt_ = str(c_)
                b_ = _CB19(reg, reg); b_.H(0); b_.CNOT(0, reg - 1); c2_ = b_.to_circuit()
            except Exception as ex:
                run.violation(f"parsing / building on a register of {reg} qubits raised {O.err_name(ex)}", {"reg": reg}); continue
            dt = time.time() - t0
            run.count({"front-end": reg}, tag=f"reg{reg}")
            if dt > 20: run.violation(f"parsing, writing and building a 4-statement program on {reg} qubits took {dt:.1f}s", {"reg": reg})
            if len(c_.ir.statements) != 4: run.violation(f"program on {reg} qubits parsed to {len(c_.ir.statements)} statements", {"reg": reg})
    finally:
        mx.MatrixExpander = orig_cls
    # model side: dimensions of the matrices the model builds for checks are 2^(operands)
    # (theorem localMatrix_dim); nothing to run here beyond the tie of the passes in C01/C02/C05.
