"""Seeded generators of wire values.  Every random choice comes from the one `random.Random` passed in.
Values are built with the real constructors (so they are what a user can actually hold) and converted to
wire form; `band=True` marks inputs drawn deliberately close (1e-9 … 1e-6) to a tolerance threshold."""
from __future__ import annotations
import itertools, math, random
import numpy as np
import wire as W

PATTERNS = [p for p in itertools.product([-1, 0, 1], repeat=3) if p != (0, 0, 0)]
SPECIAL = [0.0, math.pi / 4, -math.pi / 4, math.pi / 2, -math.pi / 2, math.pi, -math.pi]
OFFSETS = [1e-9, 1e-8, 3e-8, 9e-8, 1.1e-7, 1e-6, 1e-5, 1e-4, 1e-3]
NOPARAM = ["I", "H", "X", "X90", "mX90", "Y", "Y90", "mY90", "Z", "S", "Sdag", "T", "Tdag"]

class Gen:
    def __init__(self, rng: random.Random):
        self.rng = rng
        self.band = False

    # ------------------------------------------------------------ scalars
    def angle(self, allow_band=True):
        r = self.rng; m = r.randrange(10)
        if m <= 1: return r.choice(SPECIAL)
        if m == 2 and allow_band:
            off = r.choice(OFFSETS)
            if off < 1e-5: self.band = True
            return r.choice(SPECIAL) + r.choice([-1, 1]) * off
        if m == 3:
            if allow_band: self.band = True      # the 8-digit rendering of +-pi is 4.6e-8 away from it
            return float(f"{r.choice(SPECIAL if allow_band else SPECIAL[:5]):.8}")
        if m == 4: return r.choice([2 * math.pi, 3 * math.pi, -3.5, 5.0, 7.0, -2 * math.pi, 4 * math.pi, -9.0, 100.0])
        if m == 5: return r.choice(SPECIAL) + r.choice([-1, 1]) * r.choice([1e-4, 1e-3, 1e-2])
        return r.uniform(-math.pi, math.pi) if m < 9 else r.uniform(-7, 7)

    def axis(self, allow_band=True):
        r = self.rng; m = r.randrange(10)
        if m <= 2:
            return tuple(float(x) for x in r.choice(PATTERNS))
        if m == 3:
            p = r.choice(PATTERNS)
            return tuple(x * r.uniform(0.1, 1) for x in p)
        if m == 4 and allow_band:
            p = r.choice(PATTERNS); e = r.choice([1e-9, 1e-8, 1e-7, 1e-6])
            self.band = True
            return tuple((float(x) if x else r.choice([-1, 1]) * e) for x in p)
        if m == 5:
            p = r.choice(PATTERNS); e = r.choice([1e-5, 1e-4, 1e-3])
            return tuple((float(x) if x else r.choice([-1, 1]) * e) for x in p)
        return tuple(r.uniform(-1, 1) for _ in range(3))

    def phase(self):
        r = self.rng
        return r.choice([0.0, 0.0, math.pi / 2, -math.pi / 2, math.pi, r.uniform(-3.2, 3.2), r.uniform(-7, 7)])

    def param(self):
        """a float parameter as passes can produce it"""
        r = self.rng; m = r.randrange(8)
        if m == 0: return self.angle()
        if m == 1: return r.choice([1, -1]) * 10.0 ** r.randint(-12, 3) * r.choice([1.0, r.uniform(1, 9.99)])
        if m == 2: return r.choice([-0.0, 0.0, 1.0, -2.0, 3.0, 1e-5, 1e-12, 999.99999, 1e-4, 0.00012345678949, 123.456785])
        return r.uniform(-math.pi, math.pi)

    # ------------------------------------------------------------ gates (wire)
    def bsr(self, q, allow_band=True):
        from opensquirrel.ir import BlochSphereRotation
        return W.w_stmt(BlochSphereRotation(q, self.axis(allow_band), self.angle(allow_band), self.phase()))

    def named1(self, q):
        import opensquirrel.default_gates as dg
        from opensquirrel.ir import Float
        r = self.rng
        if r.random() < 0.55:
            return W.w_stmt(getattr(dg, r.choice(NOPARAM))(q))
        return W.w_stmt(getattr(dg, r.choice(["Rx", "Ry", "Rz"]))(q, Float(self.param() if r.random() < 0.3 else self.angle())))

    def gate1(self, q, allow_band=True):
        return self.bsr(q, allow_band) if self.rng.random() < 0.5 else self.named1(q)

    def named2(self, c, t):
        import opensquirrel.default_gates as dg
        from opensquirrel.ir import Float
        r = self.rng; k = r.randrange(4)
        if k == 0: return W.w_stmt(dg.CNOT(c, t))
        if k == 1: return W.w_stmt(dg.CZ(c, t))
        if k == 2: return W.w_stmt(dg.CR(c, t, Float(self.angle())))
        return W.w_stmt(dg.CRk(c, t, r.choice([0, 1, 2, 3, 4, -1, -2, 7, 64])))

    def ctrl_anon(self, c, t, allow_band=True):
        from opensquirrel.ir import ControlledGate
        inner = W.os_stmt(self.gate1(t, allow_band))
        return W.w_stmt(ControlledGate(c, inner))

    def ctrl_matrix(self, c, ops):
        """an anonymous controlled gate whose target is a matrix gate"""
        from opensquirrel.ir import ControlledGate
        return W.w_stmt(ControlledGate(c, W.os_stmt(self.matrix_gate(ops))))

    def ctrl2(self, c1, c2, t):
        from opensquirrel.ir import ControlledGate
        return W.w_stmt(ControlledGate(c1, ControlledGate(c2, W.os_stmt(self.gate1(t, False)))))

    def unitary(self, k):
        r = self.rng
        d = 1 << k
        a = np.array([[complex(r.gauss(0, 1), r.gauss(0, 1)) for _ in range(d)] for _ in range(d)])
        q, rr = np.linalg.qr(a)
        return q * (np.diag(rr) / np.abs(np.diag(rr)))

    def perm_matrix(self, k):
        d = 1 << k
        p = list(range(d)); self.rng.shuffle(p)
        m = np.zeros((d, d), complex)
        for i, j in enumerate(p): m[j, i] = 1
        return m

    def matrix_gate(self, ops, kind=None):
        from opensquirrel.ir import MatrixGate
        k = len(ops)
        kind = kind or self.rng.choice(["unitary", "perm", "swap" if k == 2 else "perm"])
        if kind == "swap":
            m = np.array([[1, 0, 0, 0], [0, 0, 1, 0], [0, 1, 0, 0], [0, 0, 0, 1]], complex)
        elif kind == "perm":
            m = self.perm_matrix(k)
        else:
            m = self.unitary(k)
        return W.w_stmt(MatrixGate(m, list(ops)))

    def measure(self, q, b, name=None):
        import opensquirrel.default_measures as dm
        from opensquirrel.ir import Bit
        return W.w_stmt(getattr(dm, name or self.rng.choice(["measure", "measure_z"]))(q, Bit(b)))

    def reset(self, q):
        from opensquirrel.default_resets import reset
        return W.w_stmt(reset(q))

    def comment(self):
        r = self.rng
        return {"k": "comment", "s": r.choice(["a comment", "x", "", "two words", "/* nested open", "unicode é", "q[0] H"])}

    # ------------------------------------------------------------ circuits
    def qubit_pool(self, n, sparse=False):
        if sparse:
            big = sorted(self.rng.sample(range(0, 10**6), n))
            return big, big[-1] + 1
        return list(range(n)), n

    def circuit(self, n=None, length=None, kinds="all", sparse=False, allow_band=True, nbits=None, max_outcomes=3):
        """kinds: 'all' | '1q' (single-qubit gates + barriers) | 'named' (printable: no anonymous gates)"""
        r = self.rng
        n = n or r.randint(1, 4)
        pool, nq = self.qubit_pool(n, sparse)
        nb = nbits if nbits is not None else r.randint(1, 3)
        L = length if length is not None else r.randint(1, 12)
        stmts = []; outcomes = 0
        for _ in range(L):
            m = r.randrange(12)
            qs = r.sample(pool, min(len(pool), 3))
            q = qs[0]
            if m <= 4:
                stmts.append(self.named1(q) if kinds == "named" else self.gate1(q, allow_band))
            elif m <= 6 and len(qs) >= 2:
                if kinds == "named" or r.random() < 0.6: stmts.append(self.named2(qs[0], qs[1]))
                else: stmts.append(self.ctrl_anon(qs[0], qs[1], allow_band))
            elif m == 7 and len(qs) >= 2 and kinds == "all":
                if len(qs) >= 3 and r.random() < 0.25: stmts.append(self.ctrl_matrix(qs[0], qs[1:3]))
                elif len(qs) >= 3 and r.random() < 0.4: stmts.append(self.ctrl2(qs[0], qs[1], qs[2]))
                else: stmts.append(self.matrix_gate(qs[:r.randint(2, len(qs))]))
            elif m == 8 and outcomes < max_outcomes and nb > 0:
                stmts.append(self.measure(q, r.randrange(nb))); outcomes += 1
            elif m == 9 and outcomes < max_outcomes:
                stmts.append(self.reset(q)); outcomes += 1
            elif m == 10:
                stmts.append(self.comment())
            else:
                stmts.append(self.named1(q))
        return {"nq": nq, "nb": nb, "stmts": stmts}

def case_key(obj) -> str:
    """stable hash of a wire value for counting distinct cases"""
    import hashlib, json
    return hashlib.sha1(json.dumps(obj, sort_keys=True, default=str).encode()).hexdigest()[:16]
