"""Checks shared by several properties."""
from __future__ import annotations
import math
import wire as W, ops as O
from framework import Run

def redefinition_check(run: Run, user_first: bool):
    """A gate set is a parameter of every builder and parser: a user set that gives a default NAME another meaning must
    get its own meaning, and must not change what the default set means - whichever of the two is used first."""
    from opensquirrel import CircuitBuilder, Circuit
    from opensquirrel.ir import named_gate, BlochSphereRotation, ControlledGate, QubitLike
    import opensquirrel.default_gates as dg
    from opensquirrel.default_gates import default_gate_set
    @named_gate
    def H(q: QubitLike) -> BlochSphereRotation:
        return BlochSphereRotation(qubit=q, axis=(0, 1, 0), angle=math.pi / 2, phase=0.0)
    @named_gate
    def CNOT(control: QubitLike, target: QubitLike) -> ControlledGate:
        return ControlledGate(control, BlochSphereRotation(qubit=target, axis=(1, 0, 0), angle=math.pi, phase=0.0))
    user_set = [H, CNOT] + [f for f in default_gate_set if f.__name__ not in ("H", "CNOT")]
    text = "version 3.0\nqubit[2] q\nH q[0]\nCNOT q[0], q[1]\n"
    def user():
        b = CircuitBuilder(2, gate_set=user_set); b.H(0); b.CNOT(0, 1)
        return [W.w_circuit(b.to_circuit()), W.w_circuit(Circuit.from_string(text, gate_set=user_set))]
    def default():
        b = CircuitBuilder(2); b.H(0); b.CNOT(0, 1)
        return [W.w_circuit(b.to_circuit()), W.w_circuit(Circuit.from_string(text))]
    try:
        for rnd in range(2):
            if user_first: ru = user(); rd = default()
            else: rd = default(); ru = user()
            exp_u = [W.w_stmt(H(0)), W.w_stmt(CNOT(0, 1))]; exp_d = [W.w_stmt(dg.H(0)), W.w_stmt(dg.CNOT(0, 1))]
            for how, c_ in zip(("builder", "parser"), ru):
                run.count({"redefine": how, "first": user_first, "round": rnd}, tag="redefinition")
                if W.diff(c_["stmts"], exp_u, 1e-12): run.violation(f"{how} with a user gate set redefining H and CNOT does not build the user's gates", {"how": how, "user_first": user_first})
            for how, c_ in zip(("builder", "parser"), rd):
                if W.diff(c_["stmts"], exp_d, 1e-12): run.violation(f"{how} with the default gate set does not build the default H/CNOT after a user set redefined those names", {"how": how, "user_first": user_first})
    except Exception as ex:
        run.violation(f"gate set redefining default names: {O.err_name(ex)}", {"user_first": user_first})



class _IrHolder:
    def __init__(self, b): self.ir = b.ir
Circuit_ir_holder = _IrHolder

def snapshot_independence(run: Run):
    """snapshot, build on, snapshot again, relabel the first snapshot in place (the only pass that edits statements rather than
    replacing them): the builder and the other snapshot must not move; no Qubit object is shared"""
    from opensquirrel import CircuitBuilder
    # deterministic: snapshot, build on, snapshot again, relabel the first snapshot in place (the only pass that edits
    # statements rather than replacing them): the builder and the other snapshot must not move; no Qubit object is shared
    from opensquirrel.mapper.mapping import Mapping as _Map13
    from opensquirrel.ir import Float as _Fl13
    from opensquirrel.mapper import HardcodedMapper as _HM13
    def _qubit_ids(circ_):
        out_ = set()
        for st_ in circ_.ir.statements:
            stack = [st_]
            while stack:
                o_ = stack.pop()
                for a_ in ("qubit", "control_qubit"):
                    if hasattr(o_, a_): out_.add(id(getattr(o_, a_)))
                for q_ in getattr(o_, "operands", None) or []: out_.add(id(q_))
                for q_ in getattr(o_, "arguments", None) or []:
                    if type(q_).__name__ == "Qubit": out_.add(id(q_))
                if hasattr(o_, "target_gate"): stack.append(o_.target_gate)
        return out_
    for nq in (2, 3, 4):
        for perm in ([(i + 1) % nq for i in range(nq)], list(reversed(range(nq)))):
            if perm == list(range(nq)): continue
            b = CircuitBuilder(nq, 1); b.H(0); b.CNOT(0, nq - 1); b.Rz(nq - 1, _Fl13(0.25))
            s1 = b.to_circuit(); b.X(1); b.CZ(1, 0); s2 = b.to_circuit()
            w2, wb = W.w_circuit(s2), W.w_circuit(b.to_circuit())
            run.count({"snapshot-map": perm}, tag="snapshots")
            try:
                s1.map(_HM13(nq, _Map13(perm)))
            except Exception as ex:
                run.violation(f"mapping a snapshot raised {O.err_name(ex)}", {"perm": perm}); continue
            if W.diff(w2, W.w_circuit(s2), 0.0): run.violation("relabelling one snapshot changed another snapshot", {"perm": perm})
            if W.diff(wb, W.w_circuit(b.to_circuit()), 0.0): run.violation("relabelling a snapshot changed the builder", {"perm": perm})
            if _qubit_ids(s1) & _qubit_ids(s2) or _qubit_ids(s1) & _qubit_ids(Circuit_ir_holder(b)):
                run.violation("two snapshots (or a snapshot and the builder) share a Qubit object", {"perm": perm})


def mapper_reuse(run: Run):
    """A mapper / mapping object is an input: using it must not change it, and what it does to a circuit must not depend on what
    was compiled with it before (also when it is shorter than the register, also when a call with it failed)."""
    from opensquirrel import CircuitBuilder
    from opensquirrel.mapper import HardcodedMapper
    from opensquirrel.mapper.mapping import Mapping
    def circ(n, used):
        b = CircuitBuilder(n, 1)
        for q in used: b.H(q)
        if len(used) >= 2: b.CNOT(used[0], used[1])
        return b.to_circuit()
    for perm in ([1, 2, 0], [2, 0, 1], [1, 0]):
        k = len(perm)
        def fresh(): return HardcodedMapper(k, Mapping(list(perm)))
        shared = fresh()
        jobs = [(5, [0, 1]), (k, list(range(k))), (5, [k - 1, 0]), (k, [0]), (5, [4, 0]), (k, list(range(k)))]   # (register, qubits used); the 5th uses an uncovered qubit
        for i, (n, used) in enumerate(jobs):
            run.count({"mapper-reuse": perm, "job": i}, tag="mapper-reuse")
            res = []
            for mp in (shared, fresh()):
                c_ = circ(n, used)
                try:
                    c_.map(mp); res.append(("ok", W.w_circuit(c_)))
                except Exception as ex:
                    res.append((O.err_name(ex), W.w_circuit(c_)))
            if res[0][0] != res[1][0] or W.diff(res[0][1], res[1][1], 0.0):
                run.violation(f"compilation {i} with a re-used mapper ({perm}) differs from the same compilation with a fresh mapper: {res[0][0]} vs {res[1][0]}", {"perm": perm, "job": i})
                break
            m_ = shared.get_mapping()
            if m_.size() != k or [m_[j] for j in range(k)] != list(perm) or not (m_ == Mapping(list(perm))):
                run.violation(f"using a mapper changed its mapping ({perm} became size {m_.size()})", {"perm": perm, "job": i}); break


def restricted_set_check(run: Run):
    """a builder / parser created with a restricted gate set refuses everything else, whatever other front ends in the process did"""
    from opensquirrel import CircuitBuilder, Circuit
    import opensquirrel.default_gates as dg
    b0 = CircuitBuilder(2); b0.X90(0); b0.Y(1); b0.CZ(0, 1)          # the default set resolves these names first
    Circuit.from_string("version 3.0\nqubit[2] q\nX90 q[0]\nY q[1]\n")
    small = [dg.H, dg.CNOT]
    for name, args in (("X90", (0,)), ("Y", (1,)), ("CZ", (0, 1))):
        b = CircuitBuilder(2, gate_set=small, gate_aliases={}); b.H(0)
        run.count({"restricted": name}, tag="restricted-set")
        before = W.w_circuit(b.to_circuit())
        try:
            getattr(b, name)(*args)
            run.violation(f"a builder whose gate set is [H, CNOT] accepted {name}", {"gate": name})
        except Exception:
            if W.diff(before, W.w_circuit(b.to_circuit()), 0.0): run.violation(f"a refused {name} changed the builder's circuit", {"gate": name})
        txt = f"version 3.0\nqubit[2] q\n{name} " + ", ".join(f"q[{a}]" for a in args) + "\n"
        try:
            Circuit.from_string(txt, gate_set=small, gate_aliases={})
            run.violation(f"a parser whose gate set is [H, CNOT] accepted {name}", {"text": txt})
        except Exception:
            pass
    b = CircuitBuilder(2, gate_set=small, gate_aliases={}); b.H(1); b.CNOT(1, 0)
    if W.diff(W.w_circuit(b.to_circuit())["stmts"], [W.w_stmt(dg.H(1)), W.w_stmt(dg.CNOT(1, 0))], 0.0):
        run.violation("a builder with the gate set [H, CNOT] does not build H and CNOT", {})

def decomposer_reuse(run: Run):
    """one decomposer object used for several circuits, with an in-place relabelling in between: every result equals what a fresh
    decomposer gives, and circuits decomposed earlier are not touched"""
    from opensquirrel import Circuit
    from opensquirrel.mapper import HardcodedMapper
    from opensquirrel.mapper.mapping import Mapping
    srcs = ["version 3.0\nqubit[3] q\nH q[0]\nCNOT q[0], q[2]\nRx(0.4) q[1]\nH q[0]\nCR(1.1) q[1], q[2]\n",
            "version 3.0\nqubit[3] q\nH q[0]\nH q[1]\nY90 q[2]\nCNOT q[0], q[2]\nRx(0.4) q[1]\n",
            "version 3.0\nqubit[3] q\nRx(0.4) q[1]\nH q[0]\nCNOT q[0], q[2]\nH q[0]\n"]
    for dname in O.DECOMPOSERS:
        d = O.os_decomposer(dname)
        held = []
        for i, src in enumerate(srcs * 2):
            run.count({"decomposer-reuse": dname, "i": i}, tag="decomposer-reuse")
            c = Circuit.from_string(src); cf = Circuit.from_string(src)
            frozen = [W.w_circuit(x) for x in held]
            try:
                c.decompose(d)
            except Exception as ex:
                run.violation(f"a re-used {dname} decomposer raised {O.err_name(ex)} on its use number {i + 1}", {"decomposer": dname, "i": i}); break
            cf.decompose(O.os_decomposer(dname))
            if W.diff(W.w_circuit(c), W.w_circuit(cf), 0.0):
                run.violation(f"a re-used {dname} decomposer gives another result than a fresh one (use number {i + 1})", {"decomposer": dname, "i": i}); break
            if W.diff(frozen, [W.w_circuit(x) for x in held], 0.0):
                run.violation(f"decomposing with a re-used {dname} decomposer modified a circuit decomposed earlier", {"decomposer": dname, "i": i}); break
            c.map(HardcodedMapper(3, Mapping([1, 2, 0])))
            held.append(c)
            fr2 = [W.w_circuit(x) for x in held[:-1]]
            if W.diff(frozen, fr2, 0.0):
                run.violation(f"relabelling a circuit modified another circuit decomposed with the same {dname} decomposer object", {"decomposer": dname, "i": i}); break
