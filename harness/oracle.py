"""Independent reference semantics (numpy only, no OpenSquirrel import) on wire values.

U(bsr)   = e^{i phi} (cos(theta/2) I - i sin(theta/2) n.sigma)
ctrl     = P0_c + P1_c . inner
matrix   = given matrix, first operand most significant
register = qubit 0 least significant bit
measure outcome b on q : |b><b| on q ; reset with pre-outcome b : |0><b| on q
circuit  = product in program order; two circuits are equivalent iff ONE unit complex z works for
           ALL outcome assignments.
"""
from __future__ import annotations
import itertools, math
import numpy as np

SX = np.array([[0, 1], [1, 0]], complex)
SY = np.array([[0, -1j], [1j, 0]])
SZ = np.array([[1, 0], [0, -1]], complex)
I2 = np.eye(2, dtype=complex)

def u1(axis, angle, phase):
    ax = np.array(axis, float)
    return np.exp(1j * phase) * (math.cos(angle / 2) * I2 - 1j * math.sin(angle / 2) * (ax[0] * SX + ax[1] * SY + ax[2] * SZ))

def embed(n, ops, m):
    """m: 2^k x 2^k on operands `ops` (first operand most significant); qubit 0 = LSB of the ket"""
    k = len(ops); N = 1 << n
    M = np.zeros((N, N), complex)
    for c in range(N):
        sc = 0
        for j, q in enumerate(ops):
            sc |= ((c >> q) & 1) << (k - 1 - j)
        for sr in range(1 << k):
            r = c
            for j, q in enumerate(ops):
                b = (sr >> (k - 1 - j)) & 1
                r = (r & ~(1 << q)) | (b << q)
            M[r, c] = m[sr, sc]
    return M

def gate_ops(g):
    if g["k"] == "bsr": return [g["q"]]
    if g["k"] == "mat": return list(g["ops"])
    return [g["c"]] + gate_ops(g["g"])

def gate_matrix(g, n):
    if g["k"] == "bsr":
        return embed(n, [g["q"]], u1(g["axis"], g["angle"], g["phase"]))
    if g["k"] == "mat":
        m = np.array([complex(a, b) for a, b in g["m"]]).reshape(g["dim"], g["dim"])
        return embed(n, g["ops"], m)
    inner = gate_matrix(g["g"], n)
    P0 = embed(n, [g["c"]], np.array([[1, 0], [0, 0]], complex))
    P1 = embed(n, [g["c"]], np.array([[0, 0], [0, 1]], complex))
    return P0 + P1 @ inner

def stmt_qubits(s):
    if s["k"] == "gate": return gate_ops(s["g"])
    if s["k"] in ("measure", "reset"): return [s["q"]]
    return []

def rename_gate(g, f):
    if g["k"] == "bsr": return {**g, "q": f(g["q"])}
    if g["k"] == "mat": return {**g, "ops": [f(o) for o in g["ops"]]}
    return {**g, "c": f(g["c"]), "g": rename_gate(g["g"], f)}

def rename_stmt(s, f):
    if s["k"] == "gate": return {**s, "g": rename_gate(s["g"], f)}
    if s["k"] in ("measure", "reset"): return {**s, "q": f(s["q"])}
    return s

def compress(stmt_lists):
    """map the qubits used by any of the statement lists onto 0..k-1, order preserving"""
    used = sorted({q for l in stmt_lists for s in l for q in stmt_qubits(s)})
    idx = {q: i for i, q in enumerate(used)}
    return [[rename_stmt(s, lambda q: idx[q]) for s in l] for l in stmt_lists], max(1, len(used))

def n_outcomes(stmts):
    return sum(1 for s in stmts if s["k"] in ("measure", "reset"))

def circ_matrix(stmts, n, outcomes=()):
    M = np.eye(1 << n, dtype=complex); oi = 0
    for s in stmts:
        if s["k"] == "gate":
            M = gate_matrix(s["g"], n) @ M
        elif s["k"] == "measure":
            b = outcomes[oi]; oi += 1
            M = embed(n, [s["q"]], np.array([[1 - b, 0], [0, b]], complex)) @ M
        elif s["k"] == "reset":
            b = outcomes[oi]; oi += 1
            M = embed(n, [s["q"]], np.array([[1 - b, b], [0, 0]], complex)) @ M
    return M

def phase_dist(A, B):
    """min over unit z of max|A - zB| (z estimated from the largest element of A)"""
    idx = np.unravel_index(np.argmax(np.abs(A)), A.shape)
    if abs(A[idx]) < 1e-9:
        return float(np.abs(B).max())
    if abs(B[idx]) < 1e-12:
        return float(np.abs(A).max())
    z = A[idx] / B[idx]
    z = z / abs(z)
    return float(np.abs(A - z * B).max())

def equiv_stmts(s1, s2, tol=1e-6, perm=None, max_outcomes=6):
    """distance between two statement lists as quantum operations: one global phase for all outcome
    assignments.  `perm`: s2 is expected to act on perm[q] where s1 acts on q (s1 is relabelled first).
    Returns (ok, dist, why)."""
    if perm is not None:
        s1 = [rename_stmt(s, lambda q: perm[q]) for s in s1]
    (a, b), n = compress([s1, s2])
    if n > 10:
        return True, 0.0, "skipped: too many qubits"
    na, nb_ = n_outcomes(a), n_outcomes(b)
    if na != nb_:
        return False, float("inf"), "different number of measurements/resets"
    if na > max_outcomes:
        return True, 0.0, "skipped: too many outcomes"
    pairs = [(circ_matrix(a, n, oc), circ_matrix(b, n, oc)) for oc in itertools.product([0, 1], repeat=na)]
    # one global phase for all outcomes, estimated from the largest element over all outcomes
    best = max(pairs, key=lambda p: float(np.abs(p[0]).max()))
    A0, B0 = best
    idx = np.unravel_index(np.argmax(np.abs(A0)), A0.shape)
    if abs(A0[idx]) < 1e-9:
        worst = max(float(np.abs(B).max()) for _, B in pairs)
        return worst <= tol, worst, "operators differ" if worst > tol else ""
    if abs(B0[idx]) < 1e-9:
        return False, float(abs(A0[idx])), "operator vanishes on one side"
    z = A0[idx] / B0[idx]; z = z / abs(z)
    worst = max(float(np.abs(A - z * B).max()) for A, B in pairs)
    return worst <= tol, worst, "operators differ" if worst > tol else ""

def is_unitary(M, tol=1e-9):
    return bool(np.allclose(M.conj().T @ M, np.eye(M.shape[0]), atol=tol))

# -------------------------------------------------------------- standard cQASM gate matrices (C07)
def std_matrix(name, params):
    pi = math.pi
    e = lambda x: complex(math.cos(x), math.sin(x))
    one = {
        "I": I2, "H": (SX + SZ) / math.sqrt(2), "X": SX, "Y": SY, "Z": SZ,
        "X90": (I2 - 1j * SX) / math.sqrt(2), "mX90": (I2 + 1j * SX) / math.sqrt(2),
        "Y90": (I2 - 1j * SY) / math.sqrt(2), "mY90": (I2 + 1j * SY) / math.sqrt(2),
        "S": np.diag([1, 1j]), "Sdag": np.diag([1, -1j]),
        "T": np.diag([1, e(pi / 4)]), "Tdag": np.diag([1, e(-pi / 4)]),
    }
    if name in one: return one[name], 1
    if name == "Rx": t = params[0]; return math.cos(t / 2) * I2 - 1j * math.sin(t / 2) * SX, 1
    if name == "Ry": t = params[0]; return math.cos(t / 2) * I2 - 1j * math.sin(t / 2) * SY, 1
    if name == "Rz": t = params[0]; return math.cos(t / 2) * I2 - 1j * math.sin(t / 2) * SZ, 1
    def ctrl(u):
        m = np.eye(4, dtype=complex); m[2:, 2:] = u; return m      # first operand (control) most significant
    if name == "CNOT": return ctrl(SX), 2
    if name == "CZ": return ctrl(SZ), 2
    if name == "CR": return ctrl(np.diag([1, e(params[0])])), 2
    if name == "CRk": return ctrl(np.diag([1, e(2 * pi / (2.0 ** params[0]))])), 2
    raise KeyError(name)
