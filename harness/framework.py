"""Check framework: PROVE (build + axiom audit of the registered theorems), TIE (model vs implementation),
SEARCH (independent oracle on the implementation's results), evidence, known findings, exit codes."""
from __future__ import annotations
import collections, hashlib, json, os, re, subprocess, sys, time, traceback

HERE = os.path.dirname(os.path.abspath(__file__))
ROOT = os.path.abspath(os.path.join(HERE, ".."))
LEAN = os.path.join(ROOT, "lean")
CACHE = os.path.join(ROOT, ".cache")
ALLOWED_AXIOMS = {"propext", "Classical.choice", "Quot.sound"}
FORBIDDEN = re.compile(r"\b(sorry|admit|native_decide|bv_decide|implemented_by|unsafe)\b|^\s*axiom\s|maxHeartbeats\s+0\b", re.M)

TYPEHASH_CMD = """
open Lean Elab Command in
elab "#typehash " id:ident : command => do
  let n ← liftCoreM <| realizeGlobalConstNoOverloadWithInfo id
  let ci ← getConstInfo n
  logInfo m!"TYPEHASH {n} {ci.type.hash}"
"""

TRUSTED_BASE = [
    "Lean 4.33 kernel; axioms propext, Classical.choice, Quot.sound only (audited per theorem on every run); no native_decide/bv_decide/custom axioms/sorry",
    "Mathlib v4.33 as compiled on the image",
    "specification layer OSq/Sem (textbook rotation operator, bit-level register embedding) and the oracle's reference semantics",
    "tie: harness/translate.py (declarative tables regenerated from /repo), correspondence harness (wire.py, ops.py, Driver.lean) - differential, as strong as the generated inputs",
    "float64 vs real arithmetic and tolerance bands: validated by the oracle on the implementation's outputs, not proved",
    "not modelled: libqasm front end (AST is the model's input), numpy/libm/CPython formatting, quantify-scheduler, networkx, CPython object identity beyond the heap model, time and memory",
]

def sh(cmd, cwd=None, timeout=3600, env=None):
    p = subprocess.run(cmd, cwd=cwd, stdout=subprocess.PIPE, stderr=subprocess.STDOUT, timeout=timeout, env=env)
    return p.returncode, p.stdout.decode(errors="replace")

def lean_sources_hash():
    h = hashlib.sha256()
    for base, _, files in sorted(os.walk(os.path.join(LEAN, "OSq"))):
        for f in sorted(files):
            if f.endswith(".lean"):
                p = os.path.join(base, f)
                h.update(os.path.relpath(p, LEAN).encode()); h.update(open(p, "rb").read())
    for f in ("lakefile.toml", "registry.json", "OSq.lean"):
        p = os.path.join(LEAN, f)
        if os.path.exists(p):
            h.update(open(p, "rb").read())
    return h.hexdigest()[:20]

def registry():
    with open(os.path.join(LEAN, "registry.json")) as f:
        return json.load(f)

def translate():
    """regenerate Generated/Tables.lean from /repo; returns (ok, message)"""
    rc, out = sh([sys.executable, os.path.join(HERE, "translate.py")], env={**os.environ, "OSQ_REPO": os.environ.get("OSQ_REPO", "/repo")})
    return rc == 0, out.strip()

def table_fallback_check():
    """The translator recognises one source shape per construct.  When /repo's default_gates.py (or the constants) are written
    differently, the generated table of the last recognised source is kept and the tie for the table falls back to the second
    mechanism: the implementation's default gates, aliases, measures, resets and constants are compared with what the model
    computes from the table, on a fixed grid of parameters and operand placements.  Returns (ok, message, n_compared)."""
    import math
    sys.path.insert(0, HERE)
    import ops as O, model as M, wire as W
    from opensquirrel.default_gates import default_gate_set, default_gate_aliases
    from opensquirrel.default_measures import default_measure_set
    from opensquirrel.default_resets import default_reset_set
    import inspect
    problems = []; n = 0
    reqs = []; impls = []
    thetas = [-7.3, -3.5, -math.pi, -2.0, -1e-3, 0.0, 1e-9, 0.3, 1.0, math.pi / 2, math.pi, 3.5, 2 * math.pi, 9.0, 40.1]
    ks = [-2, 0, 1, 2, 3, 7, 33]
    names = []
    for f in default_gate_set:
        name = f.__name__; names.append(name)
        sig = inspect.signature(f)
        kinds = []
        for par in sig.parameters.values():
            a = str(par.annotation)
            kinds.append("q" if "Qubit" in a else ("f" if "Float" in a else ("i" if "Int" in a else "?")))
        if "?" in kinds: problems.append(f"{name}: parameter kinds {kinds}"); continue
        nq = kinds.count("q")
        for ops_ in ([(0,), (2,)] if nq == 1 else [(0, 1), (1, 0), (2, 0)]):
            plist = thetas if "f" in kinds else (ks if "i" in kinds else [None])
            for p_ in plist:
                it = iter(ops_); args = []
                for k_ in kinds:
                    args.append(["q", next(it)] if k_ == "q" else [k_, p_])
                reqs.append(O.req_named(name, args)); impls.append((name, args))
    reqs.append("consts")
    try:
        replies = M.run_batch(reqs)
    except Exception as ex:
        return False, f"model driver unavailable: {ex!r}", 0
    for (name, args), line in zip(impls, replies[:-1]):
        r = O.impl_named(name, args); m = O.parse_stmt(line)
        n += 1
        if m is None or r["err"] != m["err"] or (r["err"] is None and W.diff(r["v"], m["v"], 1e-12)):
            problems.append(f"{name}{args}: implementation {r['err'] or 'ok'} vs table {m and (m['err'] or 'ok')} {'' if m is None or r['err'] or m['err'] else W.diff(r['v'], m['v'], 1e-12)}")
            if len(problems) > 5: break
    # gate set order, aliases, measure / reset sets, constants
    from opensquirrel.common import ATOL
    from opensquirrel.writer.writer import _WriterImpl
    try:
        am, ae, wp = [int(x) for x in replies[-1].split()[:3]]
        if abs(am * 10.0 ** (-ae) - ATOL) > 1e-30: problems.append(f"ATOL {ATOL} vs table {am}e-{ae}")
        if wp != _WriterImpl.FLOAT_PRECISION: problems.append(f"writer precision {_WriterImpl.FLOAT_PRECISION} vs table {wp}")
    except Exception as ex:
        problems.append(f"constants: {ex!r}")
    tab = open(os.path.join(LEAN, "OSq", "Generated", "Tables.lean")).read()
    def lst(var):
        mm = re.search(r"def " + var + r" : List String := \[(.*?)\]", tab, re.S)
        return re.findall(r'"([^"]*)"', mm.group(1)) if mm else None
    if lst("gateSet") != names: problems.append(f"gate set {names} vs table {lst('gateSet')}")
    if lst("measureSet") != [f.__name__ for f in default_measure_set]: problems.append("measure set differs from the table")
    if lst("resetSet") != [f.__name__ for f in default_reset_set]: problems.append("reset set differs from the table")
    mm = re.search(r"def aliases : List \(String × String\) := \[(.*?)\]\n", tab, re.S)
    tab_al = re.findall(r'\("([^"]*)", "([^"]*)"\)', mm.group(1)) if mm else None
    if tab_al is None or sorted(tab_al) != sorted((a, f.__name__) for a, f in default_gate_aliases.items()): problems.append("aliases differ from the table")
    return (not problems), ("; ".join(problems[:4]) if problems else f"table of the last recognised source validated against the implementation on {n} default-gate calls, the gate/measure/reset sets, aliases and constants"), n

def strip_comments(src: str) -> str:
    src = re.sub(r"/-.*?-/", "", src, flags=re.S)
    return re.sub(r"--.*", "", src)

def prove(pid: str, tier: str = "quick"):
    """build the modules registered for `pid` and audit the axioms of its theorems.
    Returns dict(obligations, discharged, failed:[...], build_ok, driver_ok, translator_ok, log)"""
    os.makedirs(CACHE, exist_ok=True)
    t_ok, t_msg = translate()
    reg = registry().get(pid, {"modules": [], "theorems": []})
    key = lean_sources_hash()
    cpath = os.path.join(CACHE, f"prove_{pid}_{tier}_{key}.json")
    if os.path.exists(cpath):
        r = json.load(open(cpath)); r["cached"] = True; r["translator_ok"] = t_ok; r["translator_msg"] = t_msg
        return r
    res = {"obligations": len(reg["theorems"]), "discharged": 0, "failed": [], "build_ok": True, "driver_ok": True,
           "translator_ok": t_ok, "translator_msg": t_msg, "log": "", "cached": False, "modules": reg["modules"]}
    lock = open(os.path.join(CACHE, "lake.lock"), "w")
    try:
        import fcntl
        fcntl.flock(lock, fcntl.LOCK_EX)
        rc, out = sh(["lake", "build", "osq_driver"], cwd=LEAN)
        if rc != 0:
            res["driver_ok"] = False; res["log"] += out[-3000:]
        bad_modules = []
        for m in reg["modules"]:
            rc, out = sh(["lake", "build", m], cwd=LEAN)
            if rc != 0:
                bad_modules.append(m); res["log"] += f"\n--- {m}\n" + out[-3000:]
        res["build_ok"] = not bad_modules
        res["bad_modules"] = bad_modules
        # forbidden constructs in the sources of the registered modules
        for m in reg["modules"]:
            p = os.path.join(LEAN, *m.split(".")) + ".lean"
            if os.path.exists(p) and FORBIDDEN.search(strip_comments(open(p).read())):
                res["failed"].append(f"{m}: forbidden construct (sorry/axiom/native_decide/...)")
        # axiom audit
        good_modules = [m for m in reg["modules"] if m not in bad_modules]
        thms = [t for t in reg["theorems"] if t["module"] in good_modules]
        for t in reg["theorems"]:
            if t["module"] in bad_modules:
                res["failed"].append(f"{t['name']}: module {t['module']} does not build")
        if thms:
            audit = os.path.join(CACHE, f"Audit_{pid}.lean")
            with open(audit, "w") as f:
                f.write("import Lean\n")
                for m in sorted({t["module"] for t in thms}):
                    f.write(f"import {m}\n")
                f.write(TYPEHASH_CMD)
                for t in thms:
                    f.write(f"#print axioms {t['name']}\n#typehash {t['name']}\n")
            rc, out = sh(["lake", "env", "lean", audit], cwd=LEAN)
            res["audit_out"] = out[-6000:]
            found = {}
            for mm in re.finditer(r"'(\S+)' (depends on axioms: \[([^\]]*)\]|does not depend on any axioms)", out.replace("\n ", " ").replace("\n", " ")):
                axs = {a.strip() for a in (mm.group(3) or "").split(",") if a.strip()}
                found[mm.group(1)] = axs
            res["axioms_used"] = sorted({a for axs in found.values() for a in axs})
            hashes = dict(re.findall(r"TYPEHASH (\S+) (\d+)", out))
            res["typehashes"] = hashes
            for t in thms:
                nm = t["name"]
                if t.get("typehash") and hashes.get(nm) and str(t["typehash"]) != hashes[nm]:
                    res["failed"].append(f"{nm}: statement differs from the pinned one (theorem was restated)")
                    continue
                if nm not in found:
                    res["failed"].append(f"{nm}: not found / audit error")
                elif not found[nm] <= ALLOWED_AXIOMS:
                    res["failed"].append(f"{nm}: axioms {sorted(found[nm] - ALLOWED_AXIOMS)}")
                else:
                    res["discharged"] += 1
            if tier == "thorough" and not bad_modules:
                # independent re-check of the compiled proofs (the property file and every proof module it imports from OSq.Proofs / OSq.Sem)
                mods = list(reg["modules"]) + list(reg.get("proof_modules", []))
                # in batches of three modules: memory grows by about 2 GB per module checked in one invocation
                rc, out = 0, ""
                for i in range(0, len(mods), 3):
                    rc_i, out_i = sh(["lake", "env", "leanchecker", *mods[i:i + 3]], cwd=LEAN, timeout=7200)
                    out += out_i[-300:]
                    if rc_i != 0: rc = rc_i; break
                res["leanchecker"] = {"modules": mods, "exit": rc, "tail": out[-500:]}
                if rc != 0:
                    res["failed"].append("leanchecker rejected the compiled modules: " + out[-300:])
                    res["discharged"] = 0
    finally:
        lock.close()
    if res["driver_ok"]:
        json.dump(res, open(cpath, "w"))
    return res

def known_findings():
    p = os.path.join(ROOT, "known_findings.json")
    return json.load(open(p)) if os.path.exists(p) else []

class Run:
    def __init__(self, pid, tier, seed):
        self.pid, self.tier, self.seed = pid, tier, seed
        self.t0 = time.time()
        self.evaluations = 0
        self.keys = set()
        self.samples = []
        self.hist = collections.Counter()
        self.violations = []        # property failures on the implementation (with replay case)
        self.mismatches = []        # model/implementation disagreements
        self.ambiguous = 0
        self.soft = []              # results differ but denote the same operation (float noise at an un-tagged threshold)
        self.notes = []
        self.open_findings = {f["key"]: f for f in known_findings() if f["property"] == pid and f["status"] == "open"}
        self.known_hits = collections.Counter()

    def quick(self): return self.tier == "quick"
    def n(self, q, t): return q if self.quick() else t

    def count(self, case, nontrivial=True, tag=None):
        from gen import case_key
        self.evaluations += 1
        if nontrivial:
            self.keys.add(case_key(case))
        if tag: self.hist[tag] += 1
        if len(self.samples) < 5 and nontrivial:
            self.samples.append(case)

    def violation(self, what, case, fkey=None):
        if fkey and fkey in self.open_findings:
            self.known_hits[fkey] += 1
            return
        if len(self.violations) < 50:
            self.violations.append({"what": what, "case": case})
        else:
            self.hist["violations_not_recorded"] += 1

    def mismatch(self, what, case, impl=None, model=None):
        if len(self.mismatches) < 50:
            self.mismatches.append({"what": what, "case": case, "impl": impl, "model": model})
        else:
            self.hist["mismatches_not_recorded"] += 1

def write_replay(run: Run, kind, entry, prove_res):
    d = os.path.join(ROOT, "replays"); os.makedirs(d, exist_ok=True)
    p = os.path.join(d, f"{run.pid}-{run.tier}-{run.seed}-{kind}.json")
    with open(p, "w") as f:
        json.dump({"property": run.pid, "tier": run.tier, "seed": run.seed, "kind": kind, **entry,
                   "prove": {k: prove_res.get(k) for k in ("obligations", "discharged", "failed", "build_ok", "driver_ok", "translator_ok", "translator_msg")}},
                  f, indent=1, default=str)
    return p

def finish(run: Run, prove_res, level_note=""):
    """decide, write evidence, print lines, return exit code"""
    if not prove_res["translator_ok"]:
        try:
            ok_fb, msg_fb, n_fb = table_fallback_check()
        except Exception as ex:
            ok_fb, msg_fb, n_fb = False, f"fallback check failed: {ex!r}", 0
        prove_res["translator_fallback_ok"] = ok_fb; prove_res["translator_fallback_msg"] = msg_fb
        prove_res["translator_msg"] = prove_res.get("translator_msg", "") + (" - FALLBACK: " + msg_fb)
        run.notes.append("translator: " + prove_res["translator_msg"])
        if ok_fb:
            print(f"[{run.pid}] note: the translator does not recognise the shape of the source; {msg_fb}")
    # soft disagreements (same operation, different representation) are threshold ambiguities when they are rare;
    # a systematic divergence of the model shows up as many of them and breaks the tie
    soft_limit = max(2, run.evaluations // 1000)
    if len(run.soft) <= soft_limit:
        run.ambiguous += len(run.soft)
    else:
        for e in run.soft[:50]: run.mismatch("(same operation, different result) " + e["what"], e["case"], e["impl"], e["model"])
    wall = time.time() - run.t0
    ev = {
        "property_id": run.pid, "tier": run.tier, "seed": run.seed, "level": "proof",
        "coverage": {
            "obligations": prove_res["obligations"], "discharged": prove_res["discharged"],
            "checker_cmd": "lake build OSq.Props.%s && lake env lean .cache/Audit_%s.lean  (#print axioms + statement hash per theorem)%s" % (run.pid, run.pid, "; lake env leanchecker <property and proof modules>" if run.tier == "thorough" else ""),
            "leanchecker": prove_res.get("leanchecker"),
            "trusted_base": TRUSTED_BASE,
            "theorem_failures": prove_res["failed"],
            "axioms_used_by_the_audited_theorems": prove_res.get("axioms_used", []),
            "modules": prove_res.get("modules", []),
            "translator": prove_res.get("translator_msg", ""),
            "evaluations": run.evaluations, "distinct_nontrivial": len(run.keys),
            "rule": "correspondence + oracle cases generated from VERIF_SEED; distinct = distinct wire-form inputs (sha1), non-trivial = reaches the modelled code path under test",
            "samples": run.samples[:3] if run.samples else ["(no generated cases)"],
            "histogram": dict(run.hist),
            "tie_mismatches": len(run.mismatches), "threshold_ambiguous": run.ambiguous, "soft_disagreements": len(run.soft),
            "known_finding_hits": dict(run.known_hits),
            "notes": run.notes,
        },
        "assumptions": TRUSTED_BASE,
        "wall_s": round(wall, 2),
        "violations": len(run.violations),
    }
    os.makedirs(os.path.join(ROOT, "evidence"), exist_ok=True)
    with open(os.path.join(ROOT, "evidence", f"{run.pid}.json"), "w") as f:
        json.dump(ev, f, indent=1, default=str)
    for k, n in run.known_hits.items():
        print(f"KNOWN-FINDING: property={run.pid} {run.open_findings[k]['what']} (hits this run: {n})")
    code = 0
    if run.violations:
        p = write_replay(run, "failing-input", run.violations[0] | {"all": run.violations[:10]}, prove_res)
        print(f"VIOLATION property={run.pid} replay={p}")
        code = 1
    else:
        broken = []
        if prove_res["obligations"] != prove_res["discharged"] or prove_res["failed"]:
            broken.append("theorems no longer checking: " + "; ".join(prove_res["failed"][:5]))
        if not prove_res["translator_ok"] and not prove_res.get("translator_fallback_ok"):
            broken.append("translator: " + prove_res.get("translator_msg", "") + "; fallback: " + prove_res.get("translator_fallback_msg", ""))
        if not prove_res["driver_ok"]:
            broken.append("model driver does not build")
        if run.mismatches:
            broken.append(f"correspondence: {len(run.mismatches)} disagreement(s), first: {run.mismatches[0]['what']}")
        if broken:
            p = write_replay(run, "tie-or-proof-broken", {"broken": broken, "mismatches": run.mismatches[:10], "log": prove_res.get("log", "")[-4000:]}, prove_res)
            print(f"VIOLATION property={run.pid} replay={p} no-failing-input-found")
            code = 1
    print(f"[{run.pid}] tier={run.tier} seed={run.seed} theorems {prove_res['discharged']}/{prove_res['obligations']} "
          f"cases={run.evaluations} distinct={len(run.keys)} mismatches={len(run.mismatches)} ambiguous={run.ambiguous} "
          f"violations={len(run.violations)} wall={wall:.1f}s exit={code}")
    return code

WATCHDOG = {}

class Abort(BaseException):
    """raised to stop a check early once the verdict is settled (e.g. several calls into the implementation do not return)"""

def batch_tie(run: Run, label, cases, req, impl, parse, compare, tol=1e-9):
    """generic tie: for each case run the implementation and the model, compare; returns list of
    (case, impl_result, model_result)"""
    import model as M
    impl_res = []
    import signal
    class _CallTimeout(BaseException): pass
    def _on_alarm(signum, frame): raise _CallTimeout()
    can_alarm = hasattr(signal, "SIGALRM") and __import__("threading").current_thread() is __import__("threading").main_thread()
    budget = int(os.environ.get("VERIF_CALL_TIMEOUT", "60"))
    n_timeouts = 0
    for c in cases:
        if WATCHDOG.get("deadline") and time.time() > WATCHDOG["deadline"]:
            run.violation(f"{label}: the check did not finish in time; calls into the implementation are far slower than on the unchanged tree or do not return", c)
            raise Abort()
        old_h = signal.signal(signal.SIGALRM, _on_alarm) if can_alarm else None
        try:
            if can_alarm: signal.alarm(budget)
            impl_res.append(impl(c))
        except _CallTimeout:                            # the call does not return: a failure of the implementation on this input
            impl_res.append({"harness_error": f"no result within {budget} s (the call does not return)", "tb": ""})
            n_timeouts += 1
            run.violation(f"{label}: no result within {budget} s - the call does not return", c)
            if n_timeouts >= 3:
                if can_alarm: signal.alarm(0)
                raise Abort()
        except Exception as ex:                         # harness error, not an implementation verdict
            impl_res.append({"harness_error": repr(ex), "tb": traceback.format_exc()[-800:]})
        finally:
            if can_alarm:
                signal.alarm(0); signal.signal(signal.SIGALRM, old_h)
                if WATCHDOG.get("deadline"):        # re-arm the check-wide watchdog
                    signal.alarm(max(1, int(WATCHDOG["deadline"] - time.time())))
    try:
        replies = M.run_batch([req(c) for c in cases])
    except Exception as ex:
        run.notes.append(f"model unavailable for {label}: {ex!r}")
        return [(c, r, None) for c, r in zip(cases, impl_res)]
    out = []
    for c, r, line in zip(cases, impl_res, replies):
        if line.startswith("bad-request"):
            run.notes.append(f"{label}: {line[:200]}")
            out.append((c, r, None)); continue
        m = parse(line)
        out.append((c, r, m))
        if "harness_error" in r:
            # the implementation returned (or raised) something the harness cannot read: on the unchanged tree this never
            # happens, so it is a failure of the implementation on this very input, not something to skip
            run.notes.append(f"{label}: harness error {r['harness_error']}")
            run.violation(f"{label}: the implementation's result cannot be read back ({r['harness_error'][:120]})", c)
            continue
        d = compare(c, r, m)
        if d == "ambiguous":
            run.ambiguous += 1
        elif d and d.startswith("soft:"):
            run.soft.append({"what": f"{label}: {d[5:]}", "case": c, "impl": strip_private(r), "model": m})
        elif d:
            run.mismatch(f"{label}: {d}", c, strip_private(r), m)
    return out

def record_tie(run: Run, label, d, case, impl=None, model=None):
    """file the result of one model/implementation comparison made outside batch_tie: ambiguous, soft, or a mismatch"""
    if not d: return
    if d == "ambiguous": run.ambiguous += 1
    elif d.startswith("soft:"): run.soft.append({"what": f"{label}: {d[5:]}", "case": case, "impl": impl, "model": model})
    else: run.mismatch(f"{label}: {d}", case, impl, model)

def strip_private(r):
    return {k: v for k, v in r.items() if not k.startswith("_")} if isinstance(r, dict) else r
