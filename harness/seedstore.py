#!/usr/bin/env python3
"""Confirm and store per-file seeded changes delivered in $SEED_DIR/<area>/ (patchN.diff, demoN.py, meta.json with "breaks"):
demo passes without the patch, fails with it, the 266 tests pass with it -> /verif/seeded/<breaks>-<area><n>/ .
The checks are run afterwards by isomut.py.   usage: seedstore.py <area> [<area>…]"""
import json, os, shutil, subprocess, sys
ROOT = os.path.abspath(os.path.join(os.path.dirname(__file__), ".."))
def sh(cmd, cwd=None, env=None, timeout=3600):
    p = subprocess.run(cmd, cwd=cwd, env=env, stdout=subprocess.PIPE, stderr=subprocess.STDOUT, timeout=timeout)
    return p.returncode, p.stdout.decode(errors="replace")
def main():
    base = os.environ.get("SEED_DIR", "/tmp/mut5")
    for area in sys.argv[1:]:
        wt = os.path.join(base, area); env = {**os.environ, "PYTHONPATH": wt}
        try: metas = json.load(open(os.path.join(wt, "meta.json")))
        except Exception as ex: print(f"{area}: no meta.json ({ex})"); continue
        for n, meta in enumerate(metas, 1):
            patch = os.path.join(wt, meta.get("patch", f"patch{n}.diff")); demo = os.path.join(wt, meta.get("demo", f"demo{n}.py"))
            sh(["git", "checkout", "--", "opensquirrel"], cwd=wt)
            rc0, _ = sh(["/venv/bin/python", demo], cwd=wt, env=env)
            rca, out = sh(["git", "apply", patch], cwd=wt)
            if rca != 0: print(f"{area}-{n}: patch does not apply"); continue
            rc1, _ = sh(["/venv/bin/python", demo], cwd=wt, env=env)
            rct, _ = sh(["/venv/bin/python", "-m", "pytest", "-q", "-p", "no:cacheprovider", "-o", "addopts=", "-x", "test"], cwd=wt, env=env)
            sh(["git", "checkout", "--", "opensquirrel"], cwd=wt)
            ok = rc0 == 0 and rc1 != 0 and rct == 0
            pid = str(meta.get("breaks", "C05"))[:3]
            print(f"{area}-{n} ({pid}): demo clean={rc0} patched={rc1} tests={rct} -> {'confirmed' if ok else 'NOT confirmed'}", flush=True)
            if ok:
                sid = f"{pid}-{area}{'abc'[n - 1]}"
                d = os.path.join(ROOT, "seeded", sid); os.makedirs(d, exist_ok=True)
                shutil.copy(patch, os.path.join(d, "patch.diff")); shutil.copy(demo, os.path.join(d, "demo.py"))
                json.dump({"breaks": pid, "also_breaks": meta.get("also_breaks", []), "what_changed": meta.get("what_changed"), "needs_to_manifest": meta.get("needs_to_manifest"),
                           "author": "independent sub-agent given the twenty property texts, one part of the source to change and a scratch worktree",
                           "confirmed_by": {"demo exit without patch": rc0, "demo exit with patch": rc1, "266 tests with patch": "pass"},
                           "our_checks": {}, "detected_by": []}, open(os.path.join(d, "meta.json"), "w"), indent=1)
if __name__ == "__main__":
    main()
