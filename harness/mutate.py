#!/usr/bin/env python3
"""Apply a seeded change to /repo, run the given checks, undo it.  usage: mutate.py <patch.diff> <Cxx> [Cxx…] [--tier quick] [--seeds 1,2]
Never commits anything; /repo is restored with `git checkout -- .` even on error."""
import json, os, subprocess, sys, time
ROOT = os.path.abspath(os.path.join(os.path.dirname(__file__), ".."))

def sh(cmd, **kw):
    return subprocess.run(cmd, stdout=subprocess.PIPE, stderr=subprocess.STDOUT, **kw)

def main():
    args = sys.argv[1:]
    patch = args[0]
    tier = "quick"; seeds = ["1"]
    pids = []
    i = 1
    while i < len(args):
        if args[i] == "--tier": tier = args[i + 1]; i += 2
        elif args[i] == "--seeds": seeds = args[i + 1].split(","); i += 2
        else: pids.append(args[i]); i += 1
    st = sh(["git", "-C", "/repo", "status", "--porcelain", "--untracked-files=no"]).stdout.decode().strip()
    if st:
        print("refusing: /repo has uncommitted changes:\n" + st); return 2
    r = sh(["git", "-C", "/repo", "apply", patch])
    if r.returncode != 0:
        print("patch does not apply:", r.stdout.decode()); return 2
    out = {}
    try:
        for pid in pids:
            for s in seeds:
                t0 = time.time()
                p = sh([os.path.join(ROOT, "check"), pid, tier], env={**os.environ, "VERIF_SEED": s}, cwd=ROOT)
                txt = p.stdout.decode()
                lines = [l for l in txt.split("\n") if l.startswith(("VIOLATION", "KNOWN-FINDING", "[" + pid))]
                what = ""
                for l in lines:
                    if l.startswith("VIOLATION") and "replay=" in l:
                        rp = l.split("replay=")[1].split()[0]
                        try:
                            d = json.load(open(rp)); what = d.get("what") or str(d.get("broken"))
                        except Exception: pass
                out[f"{pid}/seed{s}"] = {"exit": p.returncode, "s": round(time.time() - t0, 1), "violation": any(l.startswith("VIOLATION") for l in lines),
                                        "no_failing_input": any("no-failing-input-found" in l for l in lines), "what": (what or "")[:300]}
                if p.returncode not in (0, 1): print(f"{pid} seed {s}: INFRASTRUCTURE exit {p.returncode}: {txt[-600:]}", flush=True)
                print(f"{pid} seed {s}: exit {p.returncode} {'VIOLATION' if out[f'{pid}/seed{s}']['violation'] else 'pass'} {'(no-failing-input-found)' if out[f'{pid}/seed{s}']['no_failing_input'] else ''} {what[:200]}", flush=True)
    finally:
        sh(["git", "-C", "/repo", "checkout", "--", "."])
        sh([sys.executable, os.path.join(ROOT, "harness", "translate.py")])
    print(json.dumps(out))
    return 0

if __name__ == "__main__":
    sys.exit(main())
