from props_a import check_C01, check_C02, check_C06, check_C10, check_C14
from props_b import check_C03, check_C04, check_C05, check_C11, check_C12, check_C20
from props_c import check_C07, check_C08, check_C09, check_C13, check_C15, check_C16, check_C17, check_C18, check_C19
CHECKS = {f"C{i:02d}": globals()[f"check_C{i:02d}"] for i in range(1, 21)}
