from props_a import check_C01, check_C02, check_C06, check_C10, check_C14
CHECKS = {"C01": check_C01, "C02": check_C02, "C06": check_C06, "C10": check_C10, "C14": check_C14}
