from props_a import check_C01, check_C02, check_C06, check_C10, check_C14
from props_b import check_C03, check_C04, check_C05, check_C11, check_C12, check_C20
CHECKS = {"C01": check_C01, "C02": check_C02, "C03": check_C03, "C04": check_C04, "C05": check_C05, "C06": check_C06, "C10": check_C10,
          "C11": check_C11, "C12": check_C12, "C14": check_C14, "C20": check_C20}
