"""Property checks C03 (mapping), C04 (write/parse), C12 (cQASM 1), C11 (schedule), C20 (user gates), C05 (pipelines)."""
from __future__ import annotations
import copy, itertools, math, random, re
import wire as W, ops as O, oracle as R, gen as G
import model as M
from framework import Run, batch_tie
import framework as F_
from props_a import cmp_pass, cmp_val, TOL_F, TOL_OP, wire_wf, is_bsr_stmt

# ----------------------------------------------------------------------------------------- helpers
def spec_map_stmt(s, p):
    """the specification of mapping: relabel every qubit occurrence, in both views"""
    f = lambda q: p[q]
    t = R.rename_stmt(s, f)
    if t.get("nm"):
        t = {**t, "nm": {"name": t["nm"]["name"], "args": [[k, (p[v] if k == "q" else v)] for k, v in t["nm"]["args"]]}}
    return t

def coherent(s, lookup=W.os_lookup, tol=1e-9):
    """name and arguments denote exactly the operation the statement performs: re-evaluating the generator on
    the stored arguments reproduces the semantic fields (up to the sign freedom axis,angle -> -axis,-angle and
    2 pi in angle/phase, compared through the operator)"""
    if s["k"] == "comment" or s.get("nm") is None:
        return True, ""
    try:
        o = lookup(s["nm"]["name"])(*[W.os_arg(a) for a in s["nm"]["args"]])
    except Exception as ex:
        return False, f"generator raised {ex!r}"
    w = W.w_stmt(o)
    if w["k"] != s["k"]:
        return False, "kind differs"
    if s["k"] == "gate":
        ok, dist, _ = R.equiv_stmts([{"k": "gate", "nm": None, "g": s["g"]}], [{"k": "gate", "nm": None, "g": w["g"]}], 1e-6)
        if R.gate_ops(s["g"]) != R.gate_ops(w["g"]):
            return False, f"operands {R.gate_ops(s['g'])} vs arguments' {R.gate_ops(w['g'])}"
        return ok, f"operator distance {dist:.3g}"
    if s["k"] == "measure":
        return (s["q"], s["b"]) == (w["q"], w["b"]), "measure operands differ from arguments"
    return s["q"] == w["q"], "reset operand differs from arguments"

LINE_RE = re.compile(r"^(?:(b\[\d+\]) = )?([A-Za-z_][A-Za-z0-9_]*)(?:\(([^)]*)\))? ?(.*)$")

def parse_written(text):
    """independent reader for the writer's sub-language: (nq, nb, [(name, params, qubits, bit)], comments)"""
    lines = text.split("\n")
    out = []; nq = nb = 0; comments = []
    for l in lines:
        if not l.strip() or l.startswith("version"): continue
        if l.startswith("qubit["): nq = int(l[6:l.index("]")]); continue
        if l.startswith("bit["): nb = int(l[4:l.index("]")]); continue
        if l.startswith("/*"): comments.append(l[3:-3]); continue
        m = LINE_RE.match(l)
        if not m: out.append(("?", l)); continue
        bit, name, params, rest = m.groups()
        qs = [int(x[x.index("[") + 1:-1]) for x in rest.split(", ")] if rest else []
        out.append((name, [p.strip() for p in params.split(",")] if params else [], qs, int(bit[2:-1]) if bit else None))
    return nq, nb, out, comments

# ----------------------------------------------------------------------------------------- C03
def check_C03(run: Run):
    from shared import mapper_reuse
    mapper_reuse(run)
    rng = random.Random(run.seed * 7 + 11); g = G.Gen(rng)
    # --- accept/reject of candidate mappings, exhaustive
    lists = []
    for n in range(0, run.n(4, 5) + 1):
        for k in range(0, n + 2):
            if (n + 1) ** k > 4000: continue
            for l in itertools.product(range(n + 1), repeat=k):
                lists.append(list(l))
    lists += [[-1, 0], [0, -1], [1, 2], [0, 0], [2, 0, 1], [0, 2], [10 ** 9], [1]]
    seen = set(); uniq = []
    for l in lists:
        if tuple(l) not in seen: seen.add(tuple(l)); uniq.append(l)
    def cmp_m(c, r, m):
        return None if m is None or r["err"] == m["err"] else f"Mapping({c}) {r['err']} vs model {m['err']}"
    res = batch_tie(run, "Mapping", uniq, O.req_mapping, O.impl_mapping, lambda l: O.parse_ok_err(l), cmp_m)
    for l, r, _ in res:
        run.count({"mapping": l}, nontrivial=len(l) > 0, tag="mapping-list")
        is_perm = sorted(l) == list(range(len(l)))
        if (r["err"] is None) != is_perm:
            run.violation(f"Mapping({l}) {'accepted' if r['err'] is None else 'rejected'} but it is {'not ' if not is_perm else ''}a permutation of 0..k-1", {"mapping": l})
    # --- circuits x permutations
    cases = []
    perms = [list(p) for n in range(1, run.n(4, 5) + 1) for p in itertools.permutations(range(n))]
    for p in perms:
        n = len(p)
        for _ in range(run.n(1, 3)):
            c = g.circuit(n=n, kinds="all", allow_band=False, length=rng.randint(1, 8))
            cases.append({"p": p, "c": c})
    for _ in range(run.n(20, 300)):
        n = rng.randint(6, 12); p = list(range(n)); rng.shuffle(p)
        c = g.circuit(n=n, kinds="all", allow_band=False, length=rng.randint(3, 14))
        cases.append({"p": p, "c": c})
    # circuits produced by earlier passes
    for _ in range(run.n(20, 200)):
        n = rng.randint(2, 4); p = list(range(n)); rng.shuffle(p)
        c = g.circuit(n=n, kinds="all", allow_band=False)
        r0 = O.impl_merge(c) if rng.random() < 0.5 else O.impl_decompose(rng.choice(O.DECOMPOSERS), c)
        if r0["err"] is None: cases.append({"p": p, "c": r0["c"]})
    def cmp_map(c, r, m): return cmp_pass({"band": False}, {"err": r["err"], "c": r["c"]}, m)
    res = batch_tie(run, "Circuit.map", cases, lambda c: O.req_map(c["p"], c["c"]), lambda c: O.impl_map(c["p"], c["c"]), O.parse_pass, cmp_map)
    from opensquirrel.exporter.export_format import ExportFormat
    for c, r, _ in res:
        run.count(c, nontrivial=c["p"] != sorted(c["p"]), tag=f"perm{len(c['p'])}")
        if "harness_error" in r: continue
        if r["err"] is not None:
            run.violation(f"map with a permutation of the register raised {r['err']}", c); continue
        exp = [spec_map_stmt(s, c["p"]) for s in c["c"]["stmts"]]
        d = W.diff(exp, r["c"]["stmts"], 0.0)
        if d: run.violation(f"mapped circuit differs from the relabelled circuit: {d}", c); continue
        circ = r["_circ"]
        # outward views
        txt = str(circ); txt0 = str(W.os_circuit({**c["c"], "stmts": exp}))
        if txt != txt0: run.violation("cQASM 3 text of the mapped circuit does not show the mapped qubits", c)
        printable = all(s["k"] != "gate" or s["nm"] for s in exp)
        if printable:
            a = O.impl_exportv1(None, circ=circ); b = O.impl_exportv1({**c["c"], "stmts": exp})
            if a != b: run.violation("cQASM 1 export of the mapped circuit does not show the mapped qubits", c)
        sa = O.impl_sched(None, circ=circ); sb = O.impl_sched({**c["c"], "stmts": exp})
        if W.diff(sa, sb, 1e-9): run.violation("schedule export of the mapped circuit differs from that of the relabelled circuit", c)
        # operation: conjugation by the permutation
        ok, dist, why = R.equiv_stmts(c["c"]["stmts"], r["c"]["stmts"], TOL_OP, perm=c["p"])
        if not ok: run.violation(f"mapped circuit is not the original conjugated by the permutation ({why}, {dist:.3g})", c)
        # inverse restores
        inv = [0] * len(c["p"])
        for i, v in enumerate(c["p"]): inv[v] = i
        r2 = O.impl_map(inv, None, circ=circ)
        if r2["err"] is not None or W.diff(r2["c"], c["c"], 0.0):
            run.violation("mapping with p then p^-1 does not restore the circuit", c)
    # --- replace() after map sees the mapped qubits
    import opensquirrel.default_gates as dg
    for _ in range(run.n(15, 150)):
        n = rng.randint(2, 4); p = list(range(n)); rng.shuffle(p)
        c = g.circuit(n=n, kinds="named", allow_band=False)
        c["stmts"].append(W.w_stmt(dg.CNOT(0, 1)))
        r = O.impl_map(p, c)
        seen = []
        def f(a, b):
            seen.append((a.index, b.index)); return [dg.H(b), dg.CZ(a, b), dg.H(b)]
        try:
            r["_circ"].replace(dg.CNOT, f)
        except Exception as ex:
            run.violation(f"replace after map raised {O.err_name(ex)}", {"p": p, "c": c}); continue
        exp = [(p[s["nm"]["args"][0][1]], p[s["nm"]["args"][1][1]]) for s in c["stmts"] if s["k"] == "gate" and s["nm"] and s["nm"]["name"] == "CNOT"]
        run.count({"replace-after-map": c, "p": p}, tag="replace-after-map")
        if seen != exp: run.violation(f"replacement callback after map received {seen}, expected the mapped qubits {exp}", {"p": p, "c": c})
    # --- the same statement object several times in the IR
    for _ in range(run.n(30, 300)):
        n = rng.randint(2, 5); p = list(range(n)); rng.shuffle(p)
        c = g.circuit(n=n, kinds="all", allow_band=False, length=rng.randint(1, 6))
        circ = W.os_circuit(c)
        idxs = list(range(len(circ.ir.statements)))
        order = idxs + [rng.choice(idxs) for _ in range(rng.randint(1, 4))]
        rng.shuffle(order)
        objs = list(circ.ir.statements)
        circ.ir.statements[:] = [objs[i] for i in order]
        before = W.w_circuit(circ)
        r = O.impl_map(p, None, circ=circ)
        run.count({"shared": before, "p": p, "order": order}, tag="shared-object")
        exp = [spec_map_stmt(s, p) for s in before["stmts"]]
        if r["err"] is not None: run.violation(f"map raised {r['err']} on a circuit with a shared statement object", {"p": p, "c": before, "order": order})
        elif W.diff(exp, r["c"]["stmts"], 0.0):
            run.violation("a statement object occurring several times was not relabelled exactly once", {"p": p, "c": before, "order": order})
        # model (value level on distinct objects)
    # --- callbacks that return the same gate object several times, then map
    for _ in range(run.n(10, 100)):
        n = rng.randint(2, 4); p = list(range(n)); rng.shuffle(p)
        circ = W.os_circuit({"nq": n, "nb": 0, "stmts": [W.w_stmt(dg.I(0)), W.w_stmt(dg.H(1))]})
        def f(q):
            x = dg.X(q); return [x, x, x, x]        # X^4 = I
        try:
            circ.replace(dg.I, f)
            before = W.w_circuit(circ)
            r = O.impl_map(p, None, circ=circ)
        except Exception as ex:
            run.violation(f"replace/map with a repeated object raised {O.err_name(ex)}", {"p": p}); continue
        exp = [spec_map_stmt(s, p) for s in before["stmts"]]
        run.count({"repeated-callback-object": p}, tag="shared-object")
        if W.diff(exp, r["c"]["stmts"], 0.0): run.violation("gate object returned several times by a callback was relabelled more than once", {"p": p, "c": before})
    # --- shorter / longer mappings: refused, atomic
    cases = []
    def derangement(k):
        p = list(range(k))
        for _ in range(20):
            rng.shuffle(p)
            if k < 2 or all(i != v for i, v in enumerate(p)): break
        return p
    for _ in range(run.n(60, 600)):
        n = rng.randint(2, 5)
        c = g.circuit(n=n, kinds="all", allow_band=False, length=rng.randint(1, 8))
        k = rng.choice([x for x in range(1, n + 3) if x != n])
        cases.append({"p": derangement(k), "c": c})
    # the uncovered qubit occurs in one nested position only, after statements that are covered
    from opensquirrel.ir import ControlledGate
    for _ in range(run.n(120, 1200)):
        n = rng.randint(3, 5); k = rng.randint(2, n - 1)
        pre = g.circuit(n=k, kinds="all", allow_band=False, length=rng.randint(1, 4))["stmts"]
        u = rng.randrange(k, n); a, b = rng.sample(range(k), 2)
        m = rng.randrange(6)
        if m == 0: s = g.ctrl_anon(a, u, False)                                  # anonymous control, uncovered target
        elif m == 1: s = g.ctrl2(a, b, u)                                        # uncovered innermost target
        elif m == 2: s = g.ctrl2(a, u, b)                                        # uncovered inner control
        elif m == 3: s = g.matrix_gate([a, u] if rng.random() < 0.5 else [a, b, u])
        elif m == 4: s = g.named2(a, u)
        else: s = rng.choice([g.measure(u, 0), g.reset(u), g.named1(u), g.bsr(u, False)])
        post = g.circuit(n=k, kinds="all", allow_band=False, length=rng.randint(0, 2))["stmts"]
        cases.append({"p": derangement(k), "c": {"nq": n, "nb": 3, "stmts": pre + [s] + post}})
    def cmp_remap(c, r, m): return cmp_pass({"band": False}, {"err": r["err"], "c": r["c"]}, m)
    res = batch_tie(run, "Circuit.map(short/long mapping)", cases, lambda c: O.req_remap(c["p"], c["c"]), lambda c: O.impl_remap(c["p"], c["c"]), O.parse_pass, cmp_remap)
    for c, r, _ in res:
        run.count(c, tag="short-long")
        if "harness_error" in r: continue
        used = {q for s in c["c"]["stmts"] for q in R.stmt_qubits(s)}
        k = len(c["p"])
        covers = all(q < k for q in used)
        if k > c["c"]["nq"]:
            if r["err"] is None: run.violation("a mapping longer than the register was not refused", c)
        elif not covers and r["err"] is None:
            run.violation("a mapping that does not cover a used qubit was accepted", c)
        if r["err"] is not None and W.diff(r["c"], c["c"], 0.0):
            run.violation(f"failed map ({r['err']}) left the circuit partially mapped", c)
        if r["err"] is None:
            exp = [spec_map_stmt(s, {i: v for i, v in enumerate(c["p"])}) for s in c["c"]["stmts"]]
            if W.diff(exp, r["c"]["stmts"], 0.0): run.violation("short mapping: result differs from the relabelled circuit", c)
    # Mapper size check
    from opensquirrel.mapper import HardcodedMapper
    from opensquirrel.mapper.mapping import Mapping
    for n in range(1, 5):
        for k in range(1, 6):
            try: HardcodedMapper(n, Mapping(list(range(k)))); ok = True
            except ValueError: ok = False
            run.count({"mapper": [n, k]}, tag="mapper-size")
            if ok != (n == k): run.violation(f"Mapper(register {n}, mapping of size {k}) {'accepted' if ok else 'refused'}", {"n": n, "k": k})

# ----------------------------------------------------------------------------------------- C04 / C12 / C20 text
def printable_circuit(g: G.Gen, passes=True):
    rng = g.rng
    n = rng.choice([1, 2, 3, 4, 7, 64])
    c = g.circuit(n=min(n, 4), kinds="named", allow_band=True, length=rng.randint(1, 12))
    if n > 4:
        sh = n - 4
        c = {"nq": n, "nb": c["nb"], "stmts": [W.w_stmt(W.os_stmt(spec_map_stmt(s, {i: i + rng.choice([0, sh]) for i in range(4)}))) if False else s for s in c["stmts"]]}
    # parameter ranges
    import opensquirrel.default_gates as dg
    from opensquirrel.ir import Float
    for _ in range(rng.randint(0, 4)):
        q = rng.randrange(min(c["nq"], 4))
        c["stmts"].insert(rng.randrange(len(c["stmts"]) + 1), W.w_stmt(getattr(dg, rng.choice(["Rx", "Ry", "Rz"]))(q, Float(g.param()))))
    for _ in range(rng.randint(0, 2)):
        rots = [i for i, s_ in enumerate(c["stmts"]) if s_["k"] == "gate" and s_["nm"] and s_["nm"]["name"] in ("Rx", "Ry", "Rz")]
        if not rots: break
        i = rng.choice(rots); q = c["stmts"][i]["g"]["q"]
        idg = rng.choice([lambda: dg.I(q), lambda: dg.Rz(q, Float(0.0)), lambda: dg.Rx(q, Float(2 * math.pi)), lambda: dg.Ry(q, Float(0.0))])()
        c["stmts"].insert(i + rng.choice([0, 1]), W.w_stmt(idg))
    if c["nq"] >= 2:
        for _ in range(rng.randint(0, 2)):
            a, b = rng.sample(range(min(c["nq"], 4)), 2)
            c["stmts"].append(W.w_stmt(dg.CR(a, b, Float(g.param()))) if rng.random() < 0.5 else W.w_stmt(dg.CRk(a, b, rng.choice([0, 1, 2, 5, -1, -3, 17]))))
    return c

def through_passes(g: G.Gen, c):
    """the circuit after a random pass that keeps it printable, or None"""
    rng = g.rng
    k = rng.randrange(6)
    if k == 0: r = O.impl_decompose(rng.choice(O.DECOMPOSERS), c)
    elif k in (1, 4, 5): r = O.impl_merge(c)
    elif k == 2:
        p = list(range(c["nq"])); rng.shuffle(p); r = O.impl_map(p, c)
    else:
        import opensquirrel.default_gates as dg
        m = [s for s in c["stmts"] if s["k"] == "gate" and s["nm"] and s["nm"]["name"] == "CNOT"]
        r = O.impl_replace("CNOT", c, [("r", [W.w_stmt(x) for x in (lambda a, b: [dg.H(b), dg.CZ(a, b), dg.H(b)])(s["nm"]["args"][0][1], s["nm"]["args"][1][1])]) for s in m])
    if r["err"] is not None: return None
    if any(s["k"] == "gate" and s["nm"] is None for s in r["c"]["stmts"]): return None
    return r["c"]

def float_text_ok(t):
    return re.fullmatch(r"-?\d+\.\d+(e[+-]\d\d+)?", t) is not None

def same_8_digits(text, value):
    try: v = float(text)
    except ValueError: return False
    if value == 0: return v == 0
    return abs(v - value) <= abs(value) * 0.5000001e-7 * 10 ** 0 * 10 if False else abs(v - value) <= 5.0000001 * 10 ** (math.floor(math.log10(abs(value))) - 8)

def rotation_identity_cases():
    """a parametrised rotation directly next to an identity-like named gate on the same qubit, after merging"""
    import opensquirrel.default_gates as dg
    from opensquirrel.ir import Float
    out = []
    for name, th in [("Rx", 1.2), ("Ry", -0.7), ("Rz", 0.3)]:
        for mk in (lambda q: dg.I(q), lambda q: dg.Rz(q, Float(0.0)), lambda q: dg.Rx(q, Float(2 * math.pi)), lambda q: dg.Ry(q, Float(0.0))):
            for order in (0, 1):
                pair = [W.w_stmt(getattr(dg, name)(1, Float(th))), W.w_stmt(mk(1))]
                if order: pair.reverse()
                for tail in ([], [W.w_stmt(dg.CNOT(1, 0))]):
                    r = O.impl_merge({"nq": 2, "nb": 0, "stmts": pair + tail})
                    if r["err"] is None: out.append(r["c"])
    return out

def check_C04(run: Run):
    rng = random.Random(run.seed * 13 + 17); g = G.Gen(rng)
    # --- float formatting
    xs = [1e-5, 1e-12, 1e8, 123456789.0, 0.0001, 3.0, -0.0, 0.0, 0.1, 1 / 3, 1e22, 1e-300, 1e300, 0.00012345678949, 99999999.5, 9999999.95, 0.5,
          1234567.85, 12345678.0, 1234567.0, 0.001, 1e-4, 9.9999999e-5, 0.000099999999, 1.00000005, 2.5e-7, math.pi, -math.pi]
    for _ in range(run.n(3000, 100000)):
        m = rng.randrange(4)
        if m == 0: xs.append(rng.uniform(-1, 1) * 10.0 ** rng.randint(-300, 300))
        elif m == 1: xs.append(float(rng.randint(-10 ** 9, 10 ** 9)))
        elif m == 2: xs.append(rng.choice([1, -1]) * (rng.randint(10 ** 7, 10 ** 8 - 1) + 0.5) * 10.0 ** rng.randint(-20, 5))   # ties at the 8th digit
        else: xs.append(rng.uniform(-math.pi, math.pi) * 10.0 ** rng.randint(-12, 3))
    from opensquirrel.writer.writer import _WriterImpl  # the formatting is only reachable through the writer
    from opensquirrel.ir import Float
    import opensquirrel.default_gates as dg
    replies = M.run_batch([O.req_fmt(8, x) for x in xs])
    texts = []
    for chunk in range(0, len(xs), 200):
        sub = xs[chunk:chunk + 200]
        circ = W.os_circuit({"nq": 1, "nb": 0, "stmts": [W.w_stmt(dg.Rx(0, Float(x))) for x in sub]})
        lines = [l for l in str(circ).split("\n") if l.startswith("Rx(")]
        texts += [l[3:l.index(")")] for l in lines]
    for x, t, rep in zip(xs, texts, replies):
        run.count({"float": W.f2h(x)}, tag="float")
        mt = W.h2s(rep)
        if mt != t: run.mismatch(f"float formatting of {x!r}: {t!r} vs model {mt!r}", {"x": x})
        if not float_text_ok(t): run.violation(f"float {x!r} is written as {t!r}, which is not a cQASM float literal", {"x": x})
        elif not same_8_digits(t, x): run.violation(f"float {x!r} is written as {t!r}: not the value to 8 significant digits", {"x": x})
    # --- circuits: write, parse back
    cases = [{"c": c} for c in rotation_identity_cases() if all(s_["k"] != "gate" or s_["nm"] for s_ in c["stmts"])]
    for _ in range(run.n(120, 2500)):
        g.band = False
        c = printable_circuit(g)
        if rng.random() < 0.4:
            c2 = through_passes(g, c)
            if c2 is not None: c = c2
        cases.append({"c": c})
    # circuits with every statement kind that went through a non-identity map
    for _ in range(run.n(40, 400)):
        n = rng.randint(2, 4)
        c = g.circuit(n=n, kinds="named", allow_band=False, length=rng.randint(2, 7))
        c["stmts"] += [g.reset(rng.randrange(n)), g.measure(rng.randrange(n), 0, "measure"), g.named2(*rng.sample(range(n), 2))]
        rng.shuffle(c["stmts"])
        p_ = list(range(n)); rng.shuffle(p_)
        if p_ == sorted(p_): p_ = p_[1:] + p_[:1]
        r0 = O.impl_map(p_, c)
        if r0["err"] is None: cases.append({"c": r0["c"], "via": "map"})
    # real parameters given as Python integers (Float(1), Float(-2), Float(0)) are written and read back like 1.0, -2.0, 0.0
    from opensquirrel import CircuitBuilder as _CB4
    from opensquirrel.ir import Float as _F4
    for iv in (1, -2, 0, 3, 100):
        for nm_ in ("Rx", "Rz", "CR"):
            bb_ = _CB4(2)
            run.count({"int-valued-float": iv, "gate": nm_}, tag="int-param")
            try:
                (bb_.CR(0, 1, _F4(iv)) if nm_ == "CR" else getattr(bb_, nm_)(1, _F4(iv)))
                c_ = bb_.to_circuit(); txt_ = str(c_)
            except Exception as ex:
                run.violation(f"{nm_}(Float({iv})) cannot be built and written: {O.err_name(ex)}", {"gate": nm_, "value": iv}); continue
            back_ = O.impl_parse(txt_)
            if back_["err"] is not None: run.violation(f"{nm_}(Float({iv})) is written as text the parser rejects", {"text": txt_}); continue
            if W.diff(back_["v"]["stmts"], W.w_circuit(c_)["stmts"], 1e-12): run.violation(f"{nm_}(Float({iv})) does not survive the round trip", {"text": txt_})
            e1_ = O.impl_exportv1(None, circ=c_)
            if e1_["err"] is not None: run.violation(f"{nm_}(Float({iv})) cannot be exported to cQASM 1 ({e1_['err']})", {"gate": nm_, "value": iv})
    # a statement object occurring several times (what a replace callback returning [h, cz, h] produces), mapped, then written:
    # the text must name the qubits the statements act on
    for _ in range(run.n(25, 300)):
        n = rng.randint(2, 4); p_ = list(range(n)); rng.shuffle(p_)
        c0 = g.circuit(n=n, kinds="named", allow_band=False, length=rng.randint(2, 6))
        c0["stmts"] = [s_ for s_ in c0["stmts"] if not (s_["k"] == "measure" and s_["nm"]["name"] == "measure_z")] or [g.named1(0)]
        circ = W.os_circuit(c0)
        objs = list(circ.ir.statements)
        circ.ir.statements[:] = objs + [rng.choice(objs) for _ in range(rng.randint(1, 3))]
        r0 = O.impl_map(p_, None, circ=circ)
        run.count({"shared-then-write": c0, "p": p_}, tag="shared-object")
        if r0["err"] is not None: run.violation(f"map of a circuit with a repeated statement object raised {r0['err']}", {"c": c0, "p": p_}); continue
        txt = O.impl_write(None, circ=circ)
        back = O.impl_parse(txt["v"]) if txt["err"] is None else {"err": txt["err"], "v": None}
        if back["err"] is not None: run.violation(f"a mapped circuit with a repeated statement object cannot be written and read back ({back['err']})", {"c": c0, "p": p_}); continue
        sem = [R.stmt_qubits(s_) for s_ in r0["c"]["stmts"] if s_["k"] != "comment"]
        got = [R.stmt_qubits(s_) for s_ in back["v"]["stmts"] if s_["k"] != "comment"]
        if sem != got:
            run.violation("the written text names other qubits than the statements act on (repeated statement object, after map)", {"c": c0, "p": p_, "text": txt["v"]})
    def cmp_w(c, r, m):
        if m is None: return None
        if r["err"] != m["err"]: return f"write {r['err']} vs model {m['err']}"
        return None if r["v"] == m["v"] else "written text differs: " + first_diff(r["v"], m["v"])
    res = batch_tie(run, "str(circuit)", cases, lambda c: O.req_write(c["c"]), lambda c: O.impl_write(c["c"]), O.parse_str, cmp_w)
    # the specification reader (OSq/Sem/Grammar.lean, the recogniser the round-trip theorem is stated against) vs libqasm
    texts = [r["v"] for c, r, _ in res if "harness_error" not in r and r["err"] is None]
    try:
        reads = dict(zip(texts, M.run_reader(["3 " + W.s2h(t) for t in texts])))
    except Exception as ex:
        run.notes.append(f"specification reader unavailable: {ex!r}"); reads = {}
    for c, r, _ in res:
        run.count(c["c"], tag="write-parse")
        if "harness_error" in r: continue
        if r["err"] is not None: run.violation(f"writing raised {r['err']}", c); continue
        pr = O.impl_parse(r["v"])
        rd = M.parse_reader(reads[r["v"]]) if r["v"] in reads else "n/a"
        if rd != "n/a":
            run.hist["texts_read_by_specification_reader"] += 1
            has_mz = "= measure_z " in r["v"]
            if (rd is None) != (pr["err"] is not None) and not has_mz:
                run.mismatch(f"specification reader {'rejects' if rd is None else 'accepts'} a text that libqasm {'accepts' if pr['err'] is None else 'rejects'}", {"text": r["v"]})
            elif rd is not None and pr["err"] is None:
                head, lines = rd
                lines = [l for l in lines if l[0] != "comment"]
                if head[:2] != [pr["v"]["nq"], pr["v"]["nb"]] or len(lines) != len(pr["v"]["stmts"]):
                    run.mismatch("specification reader and libqasm disagree on registers / number of statements", {"text": r["v"]})
                else:
                    for l, st in zip(lines, pr["v"]["stmts"]):
                        args = st["nm"]["args"]
                        qs = [v for k, v in args if k == "q"]; ps = [v for k, v in args if k not in ("q", "b")]
                        if l[0] == "gate" and st["k"] in ("gate", "reset"):
                            ok_ = l[1] == st["nm"]["name"] and l[3] == qs and len(l[2]) == len(ps) and all(float(t_) == float(v_) for t_, v_ in zip(l[2], ps))
                        elif l[0] == "measure" and st["k"] == "measure":
                            ok_ = l[2] == st["nm"]["name"] and l[3] == st["q"] and l[1] == st["b"]
                        else: ok_ = False
                        if not ok_:
                            run.mismatch(f"specification reader and libqasm read a line differently: {l} vs {st['nm']}", {"text": r["v"]}); break
        if pr["err"] is not None:
            fk = "C04-measure_z-unparseable" if "= measure_z " in r["v"] and O.impl_parse(r["v"].replace("= measure_z ", "= measure "))["err"] is None else None
            run.violation(f"the written cQASM is rejected by the parser ({pr['err']})", {**c, "text": r["v"]}, fk); continue
        a, b = c["c"], pr["v"]
        if (a["nq"], a["nb"]) != (b["nq"], b["nb"]): run.violation("register sizes changed in the round trip", c); continue
        sa = [s for s in a["stmts"] if s["k"] != "comment"]; sb = b["stmts"]
        if len(sa) != len(sb): run.violation(f"round trip changed the number of statements {len(sa)} -> {len(sb)}", {**c, "text": r["v"]}); continue
        for x, y in zip(sa, sb):
            if x["k"] != y["k"] or x["nm"]["name"] != y["nm"]["name"] or R.stmt_qubits(x) != R.stmt_qubits(y) or x.get("b") != y.get("b"):
                run.violation(f"round trip changed a statement: {x['nm']} -> {y['nm']}", {**c, "text": r["v"]}); break
            bad = False
            for (k1, v1), (k2, v2) in zip(x["nm"]["args"], y["nm"]["args"]):
                if k1 != k2 or (k1 != "f" and v1 != v2) or (k1 == "f" and not same_8_digits(repr(v2), v1)):
                    run.violation(f"round trip changed an argument of {x['nm']['name']}: {v1!r} -> {v2!r}", {**c, "text": r["v"]}); bad = True; break
            if bad: break
            if x["k"] == "gate":
                ok, dist, _ = R.equiv_stmts([x], [y], 1e-4)
                if not ok: run.violation(f"parsed-back gate {x['nm']['name']} is a different operation ({dist:.3g})", {**c, "text": r["v"]}); break
        # comments survive in the text
        for s in a["stmts"]:
            if s["k"] == "comment" and f"/* {s['s']} */" not in r["v"]:
                run.violation("a comment is missing from the written text", c); break
    # --- comment safety
    from opensquirrel.ir import Comment
    from opensquirrel import CircuitBuilder
    texts = ["*/", "a */ b", "/* x */", "ok", "* /", "*", "/", "**/", "x*/", "*/*/", "a\n*/", ""] + ["".join(rng.choice("*/ ab") for _ in range(rng.randint(0, 6))) for _ in range(run.n(100, 2000))]
    rep = M.run_batch(["mkcomment " + W.s2h(t) for t in texts])
    for t, line in zip(texts, rep):
        try: Comment(t); ok = True
        except ValueError: ok = False
        run.count({"comment": t}, tag="comment")
        if ok != (not line.startswith("err")): run.mismatch(f"Comment({t!r}) accepted={ok} vs model {line}", {"comment": t})
        if ok != ("*/" not in t): run.violation(f"Comment({t!r}) {'accepted' if ok else 'refused'}", {"comment": t})
        if ok and "\n" not in t:
            txt = str(CircuitBuilder(1).comment(t).H(0).to_circuit())
            pr = O.impl_parse(txt)
            if pr["err"] is not None or len(pr["v"]["stmts"]) != 1: run.violation(f"comment {t!r} breaks the written program", {"comment": t})
    # --- anonymous gates: one line per statement
    for _ in range(run.n(60, 800)):
        c = g.circuit(kinds="all", allow_band=False)
        r = O.impl_write(c)
        m = O.parse_str(M.run_batch([O.req_write(c)])[0])
        run.count(c, nontrivial=any(s["k"] == "gate" and s["nm"] is None for s in c["stmts"]), tag="anonymous")
        if r["err"] is not None: run.violation(f"writing a circuit with anonymous gates raised {r['err']}", {"c": c}); continue
        if O.mask_anonymous(r["v"]) != m["v"]: run.mismatch("written text (anonymous masked) differs: " + first_diff(O.mask_anonymous(r["v"]), m["v"]), {"c": c})
        body = [l for l in r["v"].split("\n")[4 if c["nb"] == 0 else 6:] if l.strip() and not l.startswith("/*")]
        body = [l for l in r["v"].split("\n") if l.strip() and not l.startswith(("/*", "version", "qubit[", "bit["))]
        nstm = sum(1 for s in c["stmts"] if s["k"] != "comment")
        if len(body) != nstm: run.violation(f"{nstm} statements were written as {len(body)} lines", {"c": c, "text": r["v"]})

def first_diff(a, b):
    la, lb = a.split("\n"), b.split("\n")
    for i, (x, y) in enumerate(zip(la, lb)):
        if x != y: return f"line {i}: {x!r} vs {y!r}"
    return f"{len(la)} vs {len(lb)} lines"

V1_MEANING = {"i": "I", "h": "H", "x": "X", "x90": "X90", "mx90": "mX90", "y": "Y", "y90": "Y90", "my90": "mY90", "z": "Z", "s": "S", "sdag": "Sdag",
              "t": "T", "tdag": "Tdag", "rx": "Rx", "ry": "Ry", "rz": "Rz", "cnot": "CNOT", "cz": "CZ", "cr": "CR", "crk": "CRk"}

def read_v1(text):
    """read cQASM 1 lines back with the cQASM 1 meaning of each name: wire statements"""
    import opensquirrel.default_gates as dg
    from opensquirrel.ir import Float, Bit
    from opensquirrel.default_measures import measure_z
    from opensquirrel.default_resets import reset
    lines = text.split("\n")
    if lines[0] != "version 1.0": return None, "header"
    nq = None; out = []
    for l in lines[1:]:
        if not l.strip(): continue
        if l.startswith("qubits "): nq = int(l[7:]); continue
        if l.startswith("/*"): out.append({"k": "comment", "s": l[3:-3]}); continue
        name, _, rest = l.partition(" ")
        toks = [t.strip() for t in rest.split(",")]
        qs = [int(t[2:-1]) for t in toks if t.startswith("q[")]
        ps = [t for t in toks if not t.startswith("q[")]
        if name == "measure_z": out.append(("measure", qs[0])); continue
        if name == "prep_z": out.append(("reset", qs[0])); continue
        if name not in V1_MEANING: return None, f"unknown name {name}"
        f = getattr(dg, V1_MEANING[name])
        try:
            args = list(qs) + [Float(float(p)) if name in ("rx", "ry", "rz", "cr") else int(p) for p in ps]
            out.append(W.w_stmt(f(*args)))
        except Exception as ex:
            return None, f"line {l!r} cannot be read with the cQASM 1 meaning of {name}: {type(ex).__name__}"
    return (nq, out), None

def v1_line_qubits(text):
    out = []
    for l in text.split("\n")[1:]:
        if not l.strip() or l.startswith(("qubits", "/*")): continue
        out.append([int(t.strip()[2:-1]) for t in l.partition(" ")[2].split(",") if t.strip().startswith("q[")])
    return out

def check_C12(run: Run):
    rng = random.Random(run.seed * 19 + 23); g = G.Gen(rng)
    # the line form holds for any named gate, also a user's whose generator lists a parameter before or between its qubits:
    # lower-cased name, the qubits, then the parameters
    from opensquirrel import CircuitBuilder as _CB12
    from opensquirrel.default_gates import default_gate_set as _dgs12
    from opensquirrel.ir import Float as _F12
    fam12 = user_gate_family()
    for name_, (f_, kinds_) in sorted(fam12.items()):
        n_ = 4; qs_ = rng.sample(range(n_), kinds_.count("q")); it_ = iter(qs_)
        args_ = [next(it_) if k_ == "q" else (_F12(round(rng.uniform(0.1, 3.0), 3)) if k_ == "f" else rng.randint(1, 5)) for k_ in kinds_]
        bb_ = _CB12(n_, gate_set=[*_dgs12, f_])
        run.count({"user-gate-v1": name_}, tag="user-gate")
        try:
            getattr(bb_, name_)(*args_)
            e_ = O.impl_exportv1(None, circ=bb_.to_circuit())
        except Exception as ex:
            run.violation(f"user gate {name_}: building / exporting raised {O.err_name(ex)}", {"gate": name_}); continue
        if e_["err"] is not None: run.violation(f"user gate {name_}: cQASM 1 export refused ({e_['err']})", {"gate": name_}); continue
        line_ = [l for l in e_["v"].split("\n") if l.startswith(name_.lower() + " ")]
        qtxt = ", ".join(f"q[{a}]" for a, k_ in zip(args_, kinds_) if k_ == "q")
        ntok = [k_ for k_ in kinds_ if k_ != "q"]
        if len(line_) != 1: run.violation(f"user gate {name_}: no line '{name_.lower()} ...' in the export", {"gate": name_, "text": e_["v"]}); continue
        rest_ = line_[0][len(name_) + 1:]
        if not rest_.startswith(qtxt) or len([t for t in rest_[len(qtxt):].split(",") if t.strip()]) != len(ntok) or "q[" in rest_[len(qtxt):]:
            run.violation(f"user gate {name_}: exported as {line_[0]!r}, expected the name, the qubits {qtxt}, then {len(ntok)} parameter(s)", {"gate": name_, "line": line_[0]})
    # the exported line names the qubits the statement actually acts on - also for statement objects occurring twice, after map
    for _ in range(run.n(25, 300)):
        n = rng.randint(2, 4); p = list(range(n)); rng.shuffle(p)
        c0 = g.circuit(n=n, kinds="named", allow_band=False, length=rng.randint(2, 6))
        circ = W.os_circuit(c0)
        objs = list(circ.ir.statements)
        circ.ir.statements[:] = objs + [rng.choice(objs) for _ in range(rng.randint(1, 3))]
        r = O.impl_map(p, None, circ=circ)
        e = O.impl_exportv1(None, circ=circ)
        run.count({"shared-then-export": c0, "p": p}, tag="shared-object")
        if r["err"] is not None or e["err"] is not None: run.violation(f"map/export of a circuit with a repeated statement object raised {r['err'] or e['err']}", {"c": c0, "p": p}); continue
        sem = [R.stmt_qubits(s_) for s_ in r["c"]["stmts"] if s_["k"] != "comment"]
        if v1_line_qubits(e["v"]) != sem:
            run.violation("cQASM 1 lines name other qubits than the statements act on (repeated statement object, after map)", {"c": c0, "p": p, "text": e["v"]})
    cases = [{"c": c} for c in rotation_identity_cases() if all(s_["k"] != "gate" or s_["nm"] for s_ in c["stmts"])]
    for _ in range(run.n(120, 2500)):
        c = printable_circuit(g)
        if rng.random() < 0.5:
            c2 = through_passes(g, c)
            if c2 is not None: c = c2
        cases.append({"c": c})
    # anonymous gate at every position
    for _ in range(run.n(30, 300)):
        c = printable_circuit(g)
        pos = rng.randrange(len(c["stmts"]) + 1)
        c["stmts"].insert(pos, g.bsr(0, False) if rng.random() < 0.6 else g.ctrl_anon(0, 1 % c["nq"], False) if c["nq"] > 1 else g.bsr(0, False))
        cases.append({"c": c, "anon": True})
    def cmp_e(c, r, m):
        if m is None: return None
        if r["err"] != m["err"]: return f"export {r['err']} vs model {m['err']}"
        return None if r["v"] == m["v"] else "exported text differs: " + first_diff(r["v"] or "", m["v"] or "")
    res = batch_tie(run, "Circuit.export(CQASM_V1)", cases, lambda c: O.req_exportv1(c["c"]), lambda c: O.impl_exportv1(c["c"]), O.parse_str, cmp_e)
    for c, r, _ in res:
        run.count(c["c"], tag="anon" if c.get("anon") else "v1")
        if "harness_error" in r: continue
        if c.get("anon"):
            if r["err"] is None: run.violation("a circuit containing an anonymous gate was exported to cQASM 1", c)
            elif r["err"] != "UnsupportedGateError": run.violation(f"anonymous gate: export raised {r['err']}", c)
            continue
        if r["err"] is not None: run.violation(f"cQASM 1 export raised {r['err']}", c); continue
        rd, why = read_v1(r["v"])
        if rd is None: run.violation(f"cQASM 1 output cannot be read back ({why})", {**c, "text": r["v"]}); continue
        nq, out = rd
        if nq != c["c"]["nq"]: run.violation("cQASM 1 header declares the wrong qubit count", c)
        src = c["c"]["stmts"]
        if len(out) != len(src): run.violation(f"{len(src)} statements exported as {len(out)} lines", {**c, "text": r["v"]}); continue
        for s, o in zip(src, out):
            if s["k"] == "comment":
                if o != s: run.violation("comment not kept", c); break
            elif s["k"] == "measure":
                if o != ("measure", s["q"]): run.violation(f"measurement exported as {o}", {**c, "text": r["v"]}); break
            elif s["k"] == "reset":
                if o != ("reset", s["q"]): run.violation(f"reset exported as {o}", {**c, "text": r["v"]}); break
            else:
                if not isinstance(o, dict) or R.gate_ops(o["g"]) != R.gate_ops(s["g"]):
                    run.violation(f"exported line acts on other qubits than the statement ({s['nm']['name']})", {**c, "text": r["v"]}); break
                ok, dist, _ = R.equiv_stmts([s], [o], 1e-4)
                if not ok: run.violation(f"exported line reads back as a different operation ({s['nm']['name']}, {dist:.3g})", {**c, "text": r["v"]}); break
        for l in r["v"].split("\n"):
            for tok in re.findall(r"(?<![\w\[])-?\d+\.?\d*(?:e[+-]?\d+)?(?![\w\]])", l.partition(" ")[2]) if l and not l.startswith(("version", "qubits", "/*")) else []:
                if ("e" in tok) and "." not in tok: run.violation(f"cQASM 1 float literal without decimal point: {tok}", {**c, "text": r["v"]})

# ----------------------------------------------------------------------------------------- C11
def sched_circuit(g: G.Gen):
    rng = g.rng
    import opensquirrel.default_gates as dg
    from opensquirrel.ir import BlochSphereRotation, ControlledGate, Float, Bit
    n = rng.randint(1, 4); nb = rng.randint(1, 3)
    st = []; supported = True
    for _ in range(rng.randint(1, 10)):
        m = rng.randrange(12); q = rng.randrange(n)
        if m <= 2:
            phi = rng.choice([0, math.pi / 2, math.pi, -math.pi / 2, rng.uniform(-math.pi, math.pi)])
            ax = (math.cos(phi), math.sin(phi), rng.choice([0.0, 0.0, 1e-9, -1e-8, 1e-5, -2e-4]))      # the last two: tilted out of the plane, not expressible
            st.append(W.w_stmt(BlochSphereRotation(q, ax, g.angle(False), g.phase())))
        elif m <= 4:
            z = rng.choice([1.0, -1.0]); e = rng.choice([0.0, 0.0, 1e-9, 3e-6, 1e-4, 4e-4])               # tilted away from z by more than the tolerance: not an Rz
            st.append(W.w_stmt(BlochSphereRotation(q, (e, -e, z), g.angle(False), g.phase())))
        elif m == 5: st.append(g.named1(q) if False else W.w_stmt(getattr(dg, rng.choice(["X", "Y", "Z", "X90", "mX90", "Y90", "mY90", "S", "Sdag", "T", "Tdag", "I"]))(q)))
        elif m == 6 and n >= 2:
            a, b = rng.sample(range(n), 2)
            k = rng.randrange(5)
            if k == 0: st.append(W.w_stmt(dg.CNOT(a, b)))
            elif k == 1: st.append(W.w_stmt(dg.CZ(a, b)))
            elif k == 2: st.append(W.w_stmt(ControlledGate(a, BlochSphereRotation(b, (1, 0, 0), math.pi, rng.choice([math.pi / 2, 0.0, -math.pi / 2, 1.0]))))); 
            elif k == 3: st.append(W.w_stmt(ControlledGate(a, BlochSphereRotation(b, (-1, 0, 0), math.pi, -math.pi / 2))))   # X in another representation
            else: st.append(W.w_stmt(ControlledGate(a, BlochSphereRotation(b, (0, 0, 1), math.pi, rng.choice([math.pi / 2, 0.0])))))
        elif m == 7: st.append(g.measure(q, rng.randrange(nb)))
        elif m == 8: st.append(g.reset(q))
        elif m == 9: st.append(g.comment())
        elif m == 10:
            k = rng.randrange(4)
            if k == 0: st.append(g.bsr(q, False))
            elif k == 1: st.append(W.w_stmt(dg.H(q)))
            elif k == 2 and n >= 2: st.append(g.matrix_gate(rng.sample(range(n), 2)))
            elif n >= 2:
                a, b = rng.sample(range(n), 2); st.append(W.w_stmt(dg.CR(a, b, Float(0.3))))
        else:
            st.append(W.w_stmt(dg.Rz(q, Float(g.angle(False)))))
    return {"nq": n, "nb": nb, "stmts": st}

def expected_sched(c):
    """independent expectation of the schedule: list of ops or 'error'"""
    ops = []; acq = {}; bm = [None] * c["nb"]
    for s in c["stmts"]:
        if s["k"] == "comment": continue
        if s["k"] == "measure":
            k = acq.get(s["q"], 0); acq[s["q"]] = k + 1; bm[s["b"]] = [k, s["q"]]
            ops.append(["measure", s["q"], s["q"], k]); continue
        if s["k"] == "reset": ops.append(["reset", s["q"]]); continue
        gt = s["g"]
        if gt["k"] == "bsr":
            x, y, z = gt["axis"]
            # the exporter's own tests use ATOL = 1e-7; between 5e-8 and 2e-6 the verdict is a matter of tolerance (such axes
            # come out of earlier passes), so the expectation is only stated outside that band
            if abs(z) < 5e-8: ops.append(["rxy", gt["q"], gt["angle"], math.atan2(y, x), gt]); continue
            if abs(x) < 5e-8 and abs(y) < 5e-8: ops.append(["rz", gt["q"], gt["angle"] * (1 if z > 0 else -1), None, gt]); continue
            if abs(z) < 2e-6 or (abs(x) < 2e-6 and abs(y) < 2e-6): return "ambiguous"
            return "error"
        if gt["k"] == "ctrl" and gt["g"]["k"] == "bsr":
            u = R.u1(gt["g"]["axis"], gt["g"]["angle"], gt["g"]["phase"])
            import numpy as np
            if np.abs(u - R.SX).max() < 1e-5: ops.append(["cnot", gt["c"], gt["g"]["q"]]); continue
            if np.abs(u - R.SZ).max() < 1e-5: ops.append(["cz", gt["c"], gt["g"]["q"]]); continue
            if np.abs(u - R.SX).max() < 1e-3 or np.abs(u - R.SZ).max() < 1e-3: return "ambiguous"
            return "error"
        return "error"
    return {"ops": ops, "bitmap": bm}

def deg_close(a_deg, b_rad):
    d = (a_deg - math.degrees(b_rad)) % 360.0
    return min(d, 360 - d) < 2e-5

def check_C11(run: Run):
    rng = random.Random(run.seed * 29 + 31); g = G.Gen(rng)
    cases = []
    for _ in range(run.n(150, 2500)):
        c = sched_circuit(g)
        if rng.random() < 0.35:
            k = rng.randrange(3)
            if k == 0: r0 = O.impl_merge(c)
            elif k == 1:
                p = list(range(c["nq"])); rng.shuffle(p); r0 = O.impl_map(p, c)
            else: r0 = O.impl_decompose(rng.choice(["XYX", "McKay", "ZXZ"]), c)
            if r0["err"] is None: c = r0["c"]
        cases.append({"c": c})
    # measurement bookkeeping: repeated measurements of few qubits into few bits (bits overwritten, interleaved qubits)
    for _ in range(run.n(60, 600)):
        nq = rng.randint(1, 3); nb = rng.randint(1, 3)
        st = []
        for _ in range(rng.randint(2, 9)):
            st.append(g.measure(rng.randrange(nq), rng.randrange(nb)) if rng.random() < 0.8 else g.reset(rng.randrange(nq)))
        cases.append({"c": {"nq": nq, "nb": nb, "stmts": st}})
    import opensquirrel.default_gates as dg
    from opensquirrel.ir import Float
    # shapes that cannot be expressed at all: controlled gates whose target is not a rotation, matrix gates
    from opensquirrel.ir import ControlledGate as _CG11
    for _ in range(run.n(12, 60)):
        n_ = rng.randint(3, 4); qs_ = rng.sample(range(n_), 3)
        pre = [W.w_stmt(dg.X(qs_[0])), g.measure(qs_[1], 0)] if rng.random() < 0.5 else []
        k_ = rng.randrange(3)
        if k_ == 0: bad = W.w_stmt(_CG11(qs_[0], _CG11(qs_[1], dg.X(qs_[2]))))
        elif k_ == 1: bad = g.ctrl_matrix(qs_[0], qs_[1:3])
        else: bad = g.matrix_gate(qs_[0:2], "swap")
        cases.append({"c": {"nq": n_, "nb": 1, "stmts": pre + [bad]}})
    # controlled gates whose target is X or Z only up to a phase (-X, iX, -Z, ...): a relative phase once controlled, not CNOT/CZ
    from opensquirrel.ir import BlochSphereRotation as _B11
    for ax_, ph_ in (((1, 0, 0), -math.pi / 2), ((-1, 0, 0), math.pi / 2), ((1, 0, 0), 0.0), ((1, 0, 0), math.pi), ((0, 0, 1), -math.pi / 2), ((0, 0, -1), math.pi / 2), ((0, 0, 1), 0.0)):
        for a_, b_ in ((0, 1), (1, 0)):
            cases.append({"c": {"nq": 2, "nb": 1, "stmts": [W.w_stmt(dg.X90(a_)), W.w_stmt(_CG11(a_, _B11(b_, ax_, math.pi, ph_)))]}})
    for th in (-0.5, 0.5, 2.0, -2.0):       # the negated-axis forms merging produces
        r0 = O.impl_merge({"nq": 1, "nb": 1, "stmts": [W.w_stmt(dg.Rz(0, Float(th)))]})
        cases.append({"c": r0["c"]})
    def cmp_s(c, r, m):
        if m is None: return None
        if r["err"] != m["err"]: return f"export {r['err']} vs model {m['err']}"
        if r["err"] is not None: return None
        a, b = r["v"], m["v"]
        if a["bitmap"] != b["bitmap"]: return f"bit map {a['bitmap']} vs model {b['bitmap']}"
        if len(a["ops"]) != len(b["ops"]): return f"{len(a['ops'])} operations vs model {len(b['ops'])}"
        for x, y in zip(a["ops"], b["ops"]):
            if x[0] != y[0] or x[1] != y[1]: return f"operation {x} vs model {y}"
            if x[0] in ("rxy", "rz"):
                for u, v in zip(x[2:], y[2:]):
                    d = (u - v) % 360.0
                    if min(d, 360 - d) > 2e-5: return f"operation {x} vs model {y}"
            elif x[2:] != y[2:]: return f"operation {x} vs model {y}"
        return None
    res = batch_tie(run, "Circuit.export(QUANTIFY_SCHEDULER)", cases, lambda c: O.req_sched(c["c"]), lambda c: O.impl_sched(c["c"]), O.parse_sched, cmp_s)
    for c, r, _ in res:
        run.count(c["c"], tag="sched")
        if "harness_error" in r: continue
        exp = expected_sched(c["c"])
        if exp == "ambiguous": continue
        if exp == "error":
            if r["err"] is None: run.violation("a statement that cannot be expressed was exported instead of raising", c)
            elif r["err"] != "ExporterError": run.violation(f"unsupported statement raised {r['err']} instead of the export error", c)
            continue
        if r["err"] is not None: run.violation(f"export raised {r['err']} on an expressible circuit", c); continue
        v = r["v"]
        if v["bitmap"] != exp["bitmap"]: run.violation(f"bit map {v['bitmap']}, expected {exp['bitmap']}", c)
        if len(v["ops"]) != len(exp["ops"]): run.violation(f"{len(exp['ops'])} statements gave {len(v['ops'])} operations", c); continue
        for o, e in zip(v["ops"], exp["ops"]):
            if o[0] != e[0] or o[1] != e[1]: run.violation(f"operation {o[:2]} where {e[:2]} expected", c); break
            if o[0] == "rxy":
                # the operation it denotes: rotation about (cos phi, sin phi, 0) by theta
                th, ph = math.radians(o[2]), math.radians(o[3])
                ok, dist, _ = R.equiv_stmts([{"k": "gate", "nm": None, "g": e[4]}], [{"k": "gate", "nm": None, "g": {"k": "bsr", "q": e[1], "axis": [math.cos(ph), math.sin(ph), 0.0], "angle": th, "phase": 0.0}}], 1e-5)
                if not ok: run.violation(f"Rxy({o[2]}, {o[3]}) does not denote the rotation ({dist:.3g})", c); break
            elif o[0] == "rz":
                th = math.radians(o[2])
                ok, dist, _ = R.equiv_stmts([{"k": "gate", "nm": None, "g": e[4]}], [{"k": "gate", "nm": None, "g": {"k": "bsr", "q": e[1], "axis": [0.0, 0.0, 1.0], "angle": th, "phase": 0.0}}], 1e-5)
                if not ok: run.violation(f"Rz({o[2]}) does not denote the rotation about {e[4]['axis']} by {e[4]['angle']} ({dist:.3g})", c); break
            elif o[2:] != e[2:]:
                run.violation(f"operation {o} where {e} expected", c); break

# ----------------------------------------------------------------------------------------- C20
def user_gate_family():
    """user gates with arbitrary parameter names, numbers and positions of numeric parameters, of each kind"""
    import numpy as np
    from typing import SupportsInt
    from opensquirrel.ir import named_gate, BlochSphereRotation, ControlledGate, MatrixGate, Float, QubitLike
    fam = []
    @named_gate
    def swap(q1: QubitLike, q2: QubitLike) -> MatrixGate:
        return MatrixGate(np.array([[1, 0, 0, 0], [0, 0, 1, 0], [0, 1, 0, 0], [0, 0, 0, 1]], complex), [q1, q2])
    @named_gate
    def vx(a: QubitLike) -> BlochSphereRotation:
        return BlochSphereRotation(a, (1, 0, 0), math.pi / 4, 0)
    @named_gate
    def u3(alpha: Float, tgt: QubitLike, k: SupportsInt, beta: Float) -> BlochSphereRotation:
        return BlochSphereRotation(tgt, (0, 1, 0), alpha.value + beta.value * int(k), 0)
    @named_gate
    def cphase(ctrl: QubitLike, phi: Float, tgt: QubitLike) -> ControlledGate:
        return ControlledGate(ctrl, BlochSphereRotation(tgt, (0, 0, 1), math.pi, math.pi / 2))
    @named_gate
    def ccz(a: QubitLike, b: QubitLike, c: QubitLike) -> ControlledGate:
        return ControlledGate(a, ControlledGate(b, BlochSphereRotation(c, (0, 0, 1), math.pi, math.pi / 2)))
    @named_gate
    def iswapk(first: QubitLike, n: SupportsInt, second: QubitLike, w: Float, v: Float) -> MatrixGate:
        return MatrixGate(np.array([[1, 0, 0, 0], [0, 0, 1j, 0], [0, 1j, 0, 0], [0, 0, 0, 1]], complex), [first, second])
    @named_gate
    def tcx(tgt: QubitLike, ctrl: QubitLike) -> ControlledGate:        # qubit parameters in another order than the operands
        return ControlledGate(ctrl, BlochSphereRotation(tgt, (1, 0, 0), math.pi, math.pi / 2))
    @named_gate
    def rswap(a: QubitLike, b: QubitLike) -> MatrixGate:
        return MatrixGate(np.array([[1, 0, 0, 0], [0, 0, 1j, 0], [0, 1j, 0, 0], [0, 0, 0, 1]], complex), [b, a])
    @named_gate
    def vx90(q: QubitLike) -> BlochSphereRotation:                      # coincides with the default gate X90
        return BlochSphereRotation(q, (1, 0, 0), math.pi / 2, 0)
    @named_gate
    def zrot(theta: Float, q: QubitLike) -> BlochSphereRotation:
        return BlochSphereRotation(q, (0, 0, 1), theta.value, 0)
    fam_extra = {"tcx": (tcx, ["q", "q"]), "rswap": (rswap, ["q", "q"]), "vx90": (vx90, ["q"]), "zrot": (zrot, ["f", "q"])}
    return {**fam_extra, "swap": (swap, ["q", "q"]), "vx": (vx, ["q"]), "u3": (u3, ["f", "q", "i", "f"]), "cphase": (cphase, ["q", "f", "q"]),
            "ccz": (ccz, ["q", "q", "q"]), "iswapk": (iswapk, ["q", "i", "q", "f", "f"])}

def check_C20(run: Run):
    from shared import redefinition_check
    redefinition_check(run, False)
    rng = random.Random(run.seed * 37 + 41); g = G.Gen(rng)
    from opensquirrel import CircuitBuilder
    from opensquirrel.default_gates import default_gate_set
    import opensquirrel.default_gates as dg
    from opensquirrel.ir import Float, Bit
    from opensquirrel.exporter.export_format import ExportFormat
    fam = user_gate_family()
    gate_set = [*default_gate_set] + [f for f, _ in fam.values()]
    def lookup(name):
        return fam[name][0] if name in fam else W.os_lookup(name)
    for it in range(run.n(60, 1200)):
        n = rng.randint(3, 5)
        b = CircuitBuilder(n, 2, gate_set=gate_set)
        expect_lines = []; expect_v1 = []; ok_build = True
        L = rng.randint(2, 9)
        for _ in range(L):
            if rng.random() < 0.55:
                name = rng.choice(list(fam)); f, kinds = fam[name]
                qs = rng.sample(range(n), kinds.count("q")); qi = iter(qs)
                args = []; ptxt = []; qtxt = []
                for k in kinds:
                    if k == "q": v = next(qi); args.append(v); qtxt.append(f"q[{v}]")
                    elif k == "i": v = rng.choice([0, 1, 2, -3, 17]); args.append(v); ptxt.append(str(v))
                    else:
                        v = rng.choice([math.pi / 2, math.pi / 4]) if name == "zrot" and rng.random() < 0.5 else g.param(); args.append(Float(v)); ptxt.append(None)
                try:
                    getattr(b, name)(*args)
                except Exception as ex:
                    run.violation(f"builder refused listed user gate {name}: {O.err_name(ex)}", {"gate": name}); ok_build = False; break
                expect_lines.append((name, kinds, args))
            else:
                k = rng.randrange(4); q = rng.randrange(n)
                if k == 0: b.H(q); expect_lines.append(("H", ["q"], [q]))
                elif k == 1:
                    a, c2 = rng.sample(range(n), 2); b.CNOT(a, c2); expect_lines.append(("CNOT", ["q", "q"], [a, c2]))
                elif k == 2: b.measure(q, Bit(rng.randrange(2))); expect_lines.append(None)
                else: b.reset(q); expect_lines.append(None)
        if not ok_build: continue
        circ = b.to_circuit()
        c0 = W.w_circuit(circ)
        run.count(c0, tag="user-circuit")
        # both descriptions present
        for s in c0["stmts"]:
            if s["k"] == "gate" and s["nm"] is None: run.violation("user gate lost its name in the builder", {"c": c0})
        # model tie for the two writers
        m1 = O.parse_str(M.run_batch([O.req_write(c0)])[0]); t1 = O.impl_write(None, circ=circ)
        if t1["err"] is not None or t1["v"] != m1["v"]: run.mismatch("cQASM 3 text of a user-gate circuit differs from the model: " + first_diff(t1["v"] or "", m1["v"] or ""), {"c": c0})
        m2 = O.parse_str(M.run_batch([O.req_exportv1(c0)])[0]); t2 = O.impl_exportv1(None, circ=circ)
        if t2["err"] != m2["err"] or t2["v"] != m2["v"]: run.mismatch("cQASM 1 text of a user-gate circuit differs from the model", {"c": c0})
        # expected line shape: name(p1, p2, …) q…   /   name q…, p…
        if t1["err"] is None:
            lines = [l for l in t1["v"].split("\n") if l.strip() and not l.startswith(("version", "qubit[", "bit[", "/*"))]
            if len(lines) != len(expect_lines): run.violation(f"{len(expect_lines)} statements written as {len(lines)} lines", {"c": c0, "text": t1["v"]})
            else:
                for l, e in zip(lines, expect_lines):
                    if e is None: continue
                    name, kinds, args = e
                    m = re.fullmatch(r"([A-Za-z_]\w*)(?:\(([^()]*)\))? (q\[\d+\](?:, q\[\d+\])*)", l)
                    if not m or m.group(1) != name:
                        run.violation(f"user gate {name} written as {l!r}", {"c": c0, "text": t1["v"]}); break
                    qs = [int(x[2:-1]) for x in m.group(3).split(", ")]
                    ps = [p.strip() for p in m.group(2).split(",")] if m.group(2) else []
                    eq = [a for k, a in zip(kinds, args) if k == "q"]; ep = [a for k, a in zip(kinds, args) if k != "q"]
                    if qs != eq or len(ps) != len(ep):
                        run.violation(f"user gate {name} written as {l!r}: wrong operands/parameters", {"c": c0, "text": t1["v"]}); break
                    for p, a in zip(ps, ep):
                        if isinstance(a, int):
                            if p != str(a): run.violation(f"{name}: int parameter written as {p}", {"c": c0}); break
                        elif not float_text_ok(p) or not same_8_digits(p, a.value):
                            run.violation(f"{name}: float parameter {a.value!r} written as {p}", {"c": c0}); break
        if t2["err"] is None:
            lines = [l for l in t2["v"].split("\n") if l.strip() and not l.startswith(("version", "qubits", "/*"))]
            if len(lines) == len(expect_lines):
                for l, e in zip(lines, expect_lines):
                    if e is None: continue
                    name, kinds, args = e
                    eq = [f"q[{a}]" for k, a in zip(kinds, args) if k == "q"]
                    toks = l.partition(" ")[2].split(", ")
                    if l.partition(" ")[0] != name.lower() or toks[:len(eq)] != eq or len(toks) != len(kinds):
                        run.violation(f"user gate {name} exported to cQASM 1 as {l!r}", {"c": c0, "text": t2["v"]}); break
        # passes keep name/arguments of gates they do not rewrite; map relabels both descriptions
        p = list(range(n)); rng.shuffle(p)
        before = W.w_circuit(circ)
        r = O.impl_map(p, None, circ=circ)
        exp = [spec_map_stmt(s, p) for s in before["stmts"]]
        if r["err"] is not None or W.diff(exp, r["c"]["stmts"], 0.0):
            run.violation("mapping a circuit with user gates did not relabel both descriptions", {"c": before, "p": p})
        mm = O.parse_pass(M.run_batch([O.req_map(p, before)])[0])
        F_.record_tie(run, "map of a user-gate circuit differs from the model", cmp_pass({"band": False}, {"err": r["err"], "c": r["c"]}, mm), {"c": before, "p": p})
        # merge / CNOT-decompose treat user gates through their operation and keep untouched ones intact
        circ2 = W.os_circuit(before, lookup)
        try:
            circ2.merge_single_qubit_gates()
        except Exception as ex:
            run.violation(f"merge raised {O.err_name(ex)} on a circuit with user gates", {"c": before}); continue
        after = W.w_circuit(circ2)
        ok, dist, why = R.equiv_stmts(before["stmts"], after["stmts"], TOL_OP * len(before["stmts"]))
        if not ok: run.violation(f"merge changed the operation of a circuit with user gates ({why}, {dist:.3g})", {"c": before})
        for s in before["stmts"]:
            if s["k"] == "gate" and not is_bsr_stmt(s) and not any(W.diff(s, t, 0.0) is None for t in after["stmts"]):
                run.violation(f"merge altered user gate {s['nm']['name']}", {"c": before}); break
        # a user single-qubit gate with nothing to fuse with keeps its name and arguments
        from props_a import split_segments, per_qubit_trace, is_identity_gate
        for q in range(n):
            sa, sb = split_segments(per_qubit_trace(before["stmts"], q)), split_segments(per_qubit_trace(after["stmts"], q))
            if len(sa) != len(sb): continue
            for x, y in zip(sa, sb):
                if len(x) == 1 and x[0]["nm"] and x[0]["nm"]["name"] in fam and not is_identity_gate(x[0]["g"], 3e-7):   # 3e-7: stay out of the identity band
                    if len(y) != 1 or y[0]["nm"] is None or W.diff(y[0]["nm"], x[0]["nm"], 0.0):
                        run.violation(f"merge renamed or stripped the user gate {x[0]['nm']['name']} although it had nothing to fuse with", {"c": before})
        # name and arguments still denote the operation (user gates may list qubit parameters in any order)
        for s in r["c"]["stmts"] if r["err"] is None else []:
            ok_, why = coherent(s, lookup)
            if not ok_: run.violation(f"after map, {s['nm']['name']}{s['nm']['args']} does not denote the operation it performs ({why})", {"c": before, "p": p}); break
        mm = O.parse_pass(M.run_batch([O.req_merge(before)])[0])
        d = cmp_pass({"band": False}, {"err": None, "c": after}, mm)
        F_.record_tie(run, "merge of a user-gate circuit differs from the model", d, {"c": before})
        # replace keyed on the user gate
        swaps = [s for s in before["stmts"] if s["k"] == "gate" and s["nm"]["name"] == "swap"]
        if swaps:
            circ3 = W.os_circuit(before, lookup)
            try:
                circ3.replace(fam["swap"][0], lambda a, b: [dg.CNOT(a, b), dg.CNOT(b, a), dg.CNOT(a, b)])
                aft = W.w_circuit(circ3)
                if any(s["k"] == "gate" and s["nm"] and s["nm"]["name"] == "swap" for s in aft["stmts"]): run.violation("replace keyed on a user gate left it in place", {"c": before})
                ok, dist, why = R.equiv_stmts(before["stmts"], aft["stmts"], TOL_OP * len(aft["stmts"]))
                if not ok: run.violation(f"replace of a user gate changed the operation ({dist:.3g})", {"c": before})
            except Exception as ex:
                run.violation(f"replace keyed on a user gate raised {O.err_name(ex)}", {"c": before})
        # equality is by operation
        if fam["vx"][0](0) != W.os_gate_raw({"k": "bsr", "q": 0, "axis": [1.0, 0.0, 0.0], "angle": math.pi / 4, "phase": 0.0}):
            run.violation("a user gate does not compare equal to the same operation", {})
    # builder refuses a user gate that is not listed
    try:
        CircuitBuilder(2).swap(0, 1); run.violation("builder accepted a user gate that is not in the gate set", {})
    except ValueError: pass
    except Exception as ex: run.violation(f"unlisted user gate raised {O.err_name(ex)}", {})

# ----------------------------------------------------------------------------------------- C05
def pass_alphabet():
    al = [("decompose", d) for d in O.DECOMPOSERS] + [("merge",), ("replace", "CNOT"), ("replace", "CZ"),
          ("map", "rev"), ("map", "cycle"), ("map", "swap01"), ("writeparse",)]
    return al

def perm_of(kind, n):
    if kind == "rev": return list(reversed(range(n)))
    if kind == "cycle": return [(i + 1) % n for i in range(n)]
    p = list(range(n))
    if n >= 2: p[0], p[1] = 1, 0
    return p

def seed_circuits(g: G.Gen):
    import opensquirrel.default_gates as dg
    from opensquirrel.ir import Float, Bit, BlochSphereRotation, ControlledGate
    from opensquirrel.default_measures import measure
    from opensquirrel.default_resets import reset
    from opensquirrel.ir import Comment
    S = lambda *xs: [W.w_stmt(x) for x in xs]
    out = [
        {"nq": 3, "nb": 2, "stmts": S(dg.H(0), dg.CNOT(0, 1), dg.Rz(2, Float(0.5)), measure(0, Bit(0)), dg.X(0), reset(1), Comment("c"), dg.CZ(1, 2))},
        {"nq": 3, "nb": 1, "stmts": S(dg.Rx(0, Float(-0.5)), dg.Ry(0, Float(1e-5)), dg.CR(0, 2, Float(2.5)), dg.CRk(1, 2, 3), dg.T(1), measure(2, Bit(0)))},
        {"nq": 2, "nb": 1, "stmts": S(BlochSphereRotation(0, (1, 1, 1), 2 * math.pi / 3), BlochSphereRotation(1, (-1, -1, 1), 1.0, 0.3), ControlledGate(0, dg.H(1)), dg.S(0))},
        {"nq": 3, "nb": 0, "stmts": S(ControlledGate(0, ControlledGate(1, dg.X(2))), dg.H(2), dg.Y90(1))},
        {"nq": 4, "nb": 2, "stmts": S(dg.I(0), dg.mX90(3), dg.CNOT(3, 0), dg.Sdag(2), dg.CZ(2, 1), reset(3), measure(1, Bit(1)), dg.Tdag(1))},
    ]
    out.append({"nq": 3, "nb": 1, "stmts": S(dg.Z(1), dg.Y(2)) + [g.matrix_gate([0, 2], "swap")] + S(dg.Rz(0, Float(math.pi)), dg.mY90(0))})
    # "rich": negative z rotations left alone, anonymous fusions that equal default gates, identities next to rotations
    out.append({"nq": 3, "nb": 1, "stmts": S(dg.T(0), dg.T(0), dg.Rx(1, Float(math.pi / 4)), dg.Rx(1, Float(math.pi / 4)), dg.Y90(2), dg.X(2), dg.CNOT(0, 1),
                                          dg.Sdag(0), dg.CZ(0, 2), dg.Tdag(2), dg.Rz(1, Float(-0.7)), dg.I(1), dg.CNOT(2, 1), dg.Rx(2, Float(1.2)), dg.Rz(2, Float(0.0)),
                                          measure(1, Bit(0)), dg.Sdag(1), dg.Tdag(0), dg.CNOT(0, 2),
                                          dg.T(0), dg.T(0), dg.Rx(1, Float(math.pi / 4)), dg.Rx(1, Float(math.pi / 4)), dg.Y90(2), dg.X(2))})
    # pairs whose fusion is a half-turn about an axis with negative components
    out.append({"nq": 3, "nb": 1, "stmts": S(dg.S(0), dg.X(0), dg.H(1), dg.Y(1), dg.Z(2), dg.X90(2), dg.CNOT(0, 1), dg.T(0), dg.X(0), dg.mY90(1), dg.X(1), dg.CZ(1, 2),
                                          dg.Y(2), dg.S(2), dg.Sdag(0), dg.Y(0))})
    return out

def apply_pass(circ, p, state):
    """apply one pass to the real circuit object; returns the (possibly new) circuit"""
    from opensquirrel import Circuit
    import opensquirrel.default_gates as dg
    if p[0] == "decompose": circ.decompose(O.os_decomposer(p[1]))
    elif p[0] == "merge": circ.merge_single_qubit_gates()
    elif p[0] == "replace":
        if p[1] == "CNOT": circ.replace(dg.CNOT, lambda a, b: [dg.H(b), dg.CZ(a, b), dg.H(b)])
        else: circ.replace(dg.CZ, lambda a, b: [dg.H(q=b), dg.CNOT(target=b, control=a), dg.H(b)])      # keyword arguments, not in signature order
    elif p[0] == "map":
        from opensquirrel.mapper import HardcodedMapper
        from opensquirrel.mapper.mapping import Mapping
        perm = perm_of(p[1], circ.qubit_register_size)
        circ.map(HardcodedMapper(circ.qubit_register_size, Mapping(perm)))
        state["perm"] = [perm[x] for x in state["perm"]]
    elif p[0] == "writeparse":
        w = W.w_circuit(circ)
        # printable = no anonymous gate and no measure_z (known finding C04-measure_z-unparseable)
        if all((s["k"] != "gate" or s["nm"]) and not (s["k"] == "measure" and s["nm"] and s["nm"]["name"] == "measure_z") for s in w["stmts"]):
            circ = Circuit.from_string(str(circ))
            state["comments_dropped"] = True
    return circ

def model_pass_req(p, c):
    if p[0] == "decompose": return O.req_decompose(p[1], c)
    if p[0] == "merge": return O.req_merge(c)
    if p[0] == "map": return O.req_map(perm_of(p[1], c["nq"]), c)
    if p[0] == "replace":
        import opensquirrel.default_gates as dg
        other = {"CNOT": "CZ", "CZ": "CNOT"}[p[1]]
        m = [s for s in c["stmts"] if s["k"] == "gate" and s["nm"] and s["nm"]["name"] == p[1]]
        script = [("r", [W.w_stmt(x) for x in [dg.H(s["nm"]["args"][1][1]), getattr(dg, other)(s["nm"]["args"][0][1], s["nm"]["args"][1][1]), dg.H(s["nm"]["args"][1][1])]]) for s in m]
        return O.req_replace(p[1], c, script)
    return None

def check_C05(run: Run):
    rng = random.Random(run.seed * 43 + 47); g = G.Gen(rng)
    al = pass_alphabet()
    seeds = seed_circuits(g)
    seqs = []
    L = run.n(2, 3)
    if run.quick():
        all2 = list(itertools.product(range(len(al)), repeat=2))
        for sq in all2: seqs.append((seeds[-2], [al[j] for j in sq]))          # every pair on the rich seed
        for d_ in O.DECOMPOSERS: seqs.append((seeds[-1], [("merge",), ("decompose", d_)]))
        rng.shuffle(all2)
        for i, sq in enumerate(all2[:run.n(90, 0)]): seqs.append((seeds[i % len(seeds)], [al[j] for j in sq]))
        for _ in range(12): seqs.append((seeds[-2], [("merge",), ("map", "cycle"), ("decompose", rng.choice(["ZYZ", "XYX"])), ("merge",)]))
    else:
        for sd in seeds:
            for sq in itertools.product(range(len(al)), repeat=2): seqs.append((sd, [al[j] for j in sq]))
        all3 = list(itertools.product(range(len(al)), repeat=3)); rng.shuffle(all3)
        for i, sq in enumerate(all3[:1500]): seqs.append((seeds[i % len(seeds)], [al[j] for j in sq]))
    for _ in range(run.n(25, 400)):
        seqs.append((rng.choice(seeds) if rng.random() < 0.5 else g.circuit(n=rng.randint(2, 4), kinds="all", allow_band=False, max_outcomes=2), [rng.choice(al) for _ in range(rng.randint(3, 8))]))
    for c0, seq in seqs:
        circ = W.os_circuit(c0)
        state = {"perm": list(range(c0["nq"])), "comments_dropped": False}
        cur = c0; failed = False
        run.count({"c": c0, "seq": seq}, tag=f"len{len(seq)}")
        for i, p in enumerate(seq):
            before = cur
            try:
                circ = apply_pass(circ, p, state)
            except Exception as ex:
                run.violation(f"pass {p} (step {i} of {seq}) raised {O.err_name(ex)}", {"c": c0, "seq": seq}); failed = True; break
            cur = W.w_circuit(circ)
            run.hist["pass:" + p[0]] += 1
            # model tie, step by step
            req = model_pass_req(p, before)
            if req is not None:
                m = O.parse_pass(M.run_batch([req])[0])
                d = cmp_pass({"band": False}, {"err": None, "c": cur}, m)
                if d == "ambiguous": run.ambiguous += 1
                elif d and d.startswith("soft:"):      # same operation, another representation: counted by the soft rule of the framework
                    run.soft.append({"what": f"step {i} {p}: {d[5:]}", "case": {"c": c0, "seq": seq}, "impl": cur, "model": m})
                elif d: run.mismatch(f"step {i} {p}: {d}", {"c": c0, "seq": seq}, cur, m)
            if not wire_wf(cur): run.violation(f"circuit not well-formed after {seq[:i + 1]}", {"c": c0, "seq": seq}); failed = True; break
            for s in cur["stmts"]:
                ok, why = coherent(s)
                if not ok:
                    run.violation(f"after {seq[:i + 1]} instruction {s['nm']['name']} {s['nm']['args']} does not denote the operation it performs ({why})", {"c": c0, "seq": seq}); failed = True; break
            if failed: break
        if failed: continue
        ref = [s for s in c0["stmts"] if s["k"] != "comment"] if state["comments_dropped"] else c0["stmts"]
        ok, dist, why = R.equiv_stmts(ref, cur["stmts"], TOL_OP * max(4, len(cur["stmts"])), perm=state["perm"])
        if not ok: run.violation(f"after {seq} the circuit is not equivalent to the original up to the accumulated permutation ({why}, {dist:.3g})", {"c": c0, "seq": seq})
