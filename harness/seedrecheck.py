#!/usr/bin/env python3
"""Re-run our checks against already confirmed seeded changes: seedrecheck.py <id> [<id>…] [--checks Cxx,Cyy] [--seeds 1,2,3]"""
import json, os, subprocess, sys
ROOT = os.path.abspath(os.path.join(os.path.dirname(__file__), ".."))
ids = []; checks = None; seeds = "1,2,3"
a = sys.argv[1:]; i = 0
while i < len(a):
    if a[i] == "--checks": checks = a[i + 1].split(","); i += 2
    elif a[i] == "--seeds": seeds = a[i + 1]; i += 2
    else: ids.append(a[i]); i += 1
for sid in ids:
    d = os.path.join(ROOT, "seeded", sid)
    meta = json.load(open(os.path.join(d, "meta.json")))
    cs = checks or [meta["breaks"]]
    p = subprocess.run([sys.executable, os.path.join(ROOT, "harness", "mutate.py"), os.path.join(d, "patch.diff"), *cs, "--seeds", seeds],
                       stdout=subprocess.PIPE, stderr=subprocess.STDOUT, cwd=ROOT)
    last = p.stdout.decode().strip().split("\n")[-1]
    try: res = json.loads(last)
    except Exception: res = {"error": p.stdout.decode()[-400:]}
    meta.setdefault("our_checks", {}); meta["our_checks"] = {**{k: v for k, v in (meta["our_checks"] or {}).items() if k.split("/")[0] not in cs}, **res}
    meta["detected_by"] = sorted({k.split("/")[0] for k, v in meta["our_checks"].items() if isinstance(v, dict) and v.get("violation")})
    json.dump(meta, open(os.path.join(d, "meta.json"), "w"), indent=1)
    print(sid, {k: ("V" if v["violation"] else ("INFRA" if v["exit"] not in (0, 1) else "-")) + ("(nf)" if v.get("no_failing_input") else "") for k, v in res.items() if isinstance(v, dict)}, flush=True)
    for k, v in res.items():
        if isinstance(v, dict) and v.get("what"): print("    ", k, v["what"][:180]); break
