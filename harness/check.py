#!/usr/bin/env python3
"""./check <Cxx> <quick|thorough> [--replay <file>]   (env: VERIF_SEED, VERIF_TIER)"""
from __future__ import annotations
import json, os, sys, traceback
HERE = os.path.dirname(os.path.abspath(__file__))
sys.path.insert(0, HERE)
os.environ.setdefault("PYTHONHASHSEED", "0")

def main():
    args = sys.argv[1:]
    if not args:
        print(__doc__); return 2
    pid = args[0]
    tier = os.environ.get("VERIF_TIER") or (args[1] if len(args) > 1 and not args[1].startswith("--") else "quick")
    seed = int(os.environ.get("VERIF_SEED", "1"))
    import framework as F
    if "--replay" in args:
        import replay
        return replay.run(pid, args[args.index("--replay") + 1])
    import props
    fn = props.CHECKS.get(pid)
    if fn is None:
        print(f"unknown property {pid}"); return 2
    run = F.Run(pid, tier, seed)
    try:
        pr = F.prove(pid, tier)
    except Exception:
        traceback.print_exc(); return 2
    # watchdog: a check that does not finish means some call into the implementation does not return
    import signal
    class _Watchdog(BaseException): pass
    def _bark(signum, frame): raise _Watchdog()
    limit = int(os.environ.get("VERIF_CHECK_TIMEOUT", "900" if tier == "quick" else "14400"))
    if hasattr(signal, "SIGALRM"):
        signal.signal(signal.SIGALRM, _bark); signal.alarm(limit)
        F.WATCHDOG["deadline"] = __import__("time").time() + limit
    try:
        if pr["driver_ok"]:
            fn(run)
        else:
            run.notes.append("model driver unavailable: correspondence skipped")
            os.environ["OSQ_NO_MODEL"] = "1"
            fn(run)
    except (OSError, MemoryError, KeyboardInterrupt, NameError, ImportError, SyntaxError) as ex:
        traceback.print_exc()
        tb_ = traceback.extract_tb(ex.__traceback__)
        raised_in_impl = any("/opensquirrel/" in fr.filename for fr in tb_)          # the exception passed through the implementation
        if isinstance(ex, (NameError, ImportError)) and raised_in_impl:
            # raised inside the implementation while the check was using it: a failure on that input, not a harness problem
            run.violation(f"check aborted by {type(ex).__name__} raised inside the implementation: {str(ex)[:200]}",
                          {"traceback": traceback.format_exc()[-3000:], "last_cases": run.samples[-2:]})
            if hasattr(signal, "SIGALRM"): signal.alarm(0)
            return F.finish(run, pr)
        print(f"[{pid}] infrastructure failure"); return 2
    except F.Abort:
        pass                                    # the violations that settled the verdict are already recorded
    except _Watchdog:
        run.violation(f"the check did not finish within {limit} s: a call into the implementation does not return (last inputs in the replay)",
                      {"last_cases": run.samples[-2:], "evaluations": run.evaluations})
    except Exception as ex:
        # The check itself never raises on the unchanged tree; when it does, the implementation handed it something
        # (a value of another shape, an exception from an attribute access, ...) that no run on the unchanged tree produces.
        # That is a failure on the input being processed, not an infrastructure problem: report it with the traceback.
        traceback.print_exc()
        tb = traceback.format_exc()
        run.violation(f"check aborted by {type(ex).__name__}: {str(ex)[:200]} - the implementation produced something the check cannot process",
                      {"traceback": tb[-3000:], "last_cases": run.samples[-2:]})
    if hasattr(signal, "SIGALRM"): signal.alarm(0)
    return F.finish(run, pr)

if __name__ == "__main__":
    sys.exit(main())
