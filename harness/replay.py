"""./check Cxx --replay <file>: re-executes the recorded run (same tier and seed, hence the same generated cases, all
derived from the one PRNG seed) against the real code and reports whether the recorded violation reproduces."""
import json, os, sys
import framework as F

def run(pid, path):
    d = json.load(open(path))
    print(f"replay of {path}: property={d['property']} kind={d['kind']} tier={d['tier']} seed={d['seed']}")
    if d["kind"] == "failing-input":
        print("recorded violation:", d["what"])
        print("recorded input:", json.dumps(d["case"], default=str)[:2000])
    else:
        print("recorded breakage:", d.get("broken"))
    import props
    run_ = F.Run(pid, d["tier"], d["seed"])
    pr = F.prove(pid)
    props.CHECKS[pid](run_)
    whats = [v["what"] for v in run_.violations]
    if d["kind"] == "failing-input":
        if d["what"] in whats:
            print("REPRODUCED: the same violation occurs on the current tree"); return 1
        print(f"not reproduced on the current tree ({len(whats)} violation(s) of this property now)"); return 0 if not whats else 1
    rc = F.finish(run_, pr)
    return rc
