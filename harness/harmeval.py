#!/usr/bin/env python3
"""Confirm behaviour-preserving changes delivered in $HARM_DIR/<area>/ (patchN.diff, equivN.py, meta.json) and store them under
/verif/harmless/<area>-<n>/: the patch applies, the 266 tests pass with it, and the digest printed by equivN.py is the same on the
unchanged and on the patched tree.  The checks are run afterwards with `isomut.py --base harmless all --checks all`."""
import json, os, shutil, subprocess, sys
ROOT = os.path.abspath(os.path.join(os.path.dirname(__file__), ".."))
def sh(cmd, cwd=None, env=None, timeout=3600):
    p = subprocess.run(cmd, cwd=cwd, env=env, stdout=subprocess.PIPE, stderr=subprocess.STDOUT, timeout=timeout)
    return p.returncode, p.stdout.decode(errors="replace")
def main():
    base = os.environ.get("HARM_DIR", "/tmp/harm")
    for area in sys.argv[1:]:
        wt = os.path.join(base, area); env = {**os.environ, "PYTHONPATH": wt}
        metas = json.load(open(os.path.join(wt, "meta.json")))
        for n, meta in enumerate(metas, 1):
            patch = os.path.join(wt, meta.get("patch", f"patch{n}.diff")); eq = os.path.join(wt, meta.get("equiv", f"equiv{n}.py"))
            sh(["git", "checkout", "--", "opensquirrel"], cwd=wt)
            rc0, d0 = sh(["/venv/bin/python", eq], cwd=wt, env=env)
            rca, out = sh(["git", "apply", patch], cwd=wt)
            if rca != 0: print(f"{area}-{n}: patch does not apply"); continue
            rc1, d1 = sh(["/venv/bin/python", eq], cwd=wt, env=env)
            rct, tout = sh(["/venv/bin/python", "-m", "pytest", "-q", "-p", "no:cacheprovider", "-o", "addopts=", "-x", "test"], cwd=wt, env=env)
            sh(["git", "checkout", "--", "opensquirrel"], cwd=wt)
            dig = lambda t: [l for l in t.split("\n") if l.startswith("DIGEST")]
            same = rc0 == 0 and rc1 == 0 and dig(d0) and dig(d0) == dig(d1)
            ok = same and rct == 0
            print(f"{area}-{n}: digest {'same' if same else 'DIFFERENT'} ({(dig(d0) or ['?'])[0][:30]} / {(dig(d1) or ['?'])[0][:30]}), tests {'pass' if rct == 0 else 'FAIL'} -> {'confirmed harmless' if ok else 'NOT confirmed'}", flush=True)
            if ok:
                d = os.path.join(ROOT, "harmless", f"{area}-{n}"); os.makedirs(d, exist_ok=True)
                shutil.copy(patch, os.path.join(d, "patch.diff")); shutil.copy(eq, os.path.join(d, "equiv.py"))
                json.dump({"breaks": None, "kind": meta.get("kind"), "what_changed": meta.get("what_changed"), "why_equivalent": meta.get("why_equivalent"),
                           "float_reordering": meta.get("float_reordering", False),
                           "author": "independent sub-agent asked for behaviour-preserving changes in one area of the code; saw nothing of /verif",
                           "confirmed_by": {"digest on the unchanged tree": (dig(d0) or [''])[0], "digest with the patch": (dig(d1) or [''])[0], "266 tests with patch": "pass"}},
                          open(os.path.join(d, "meta.json"), "w"), indent=1)
if __name__ == "__main__":
    main()
