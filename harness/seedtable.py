#!/usr/bin/env python3
"""Print the markdown detection table for seeded changes: seedtable.py [suffixes…]  (e.g. seedtable.py 3 4)"""
import glob, json, os, sys
ROOT = os.path.abspath(os.path.join(os.path.dirname(__file__), ".."))
suf = sys.argv[1:] or None
def cut(s, n): return (s or "").replace("|", "/").replace("\n", " ")[:n]
print("| id | change | needs | caught by: first violation reported |\n|---|---|---|---|")
for d in sorted(glob.glob(os.path.join(ROOT, "seeded", "C*-*"))):
    sid = os.path.basename(d)
    if suf and sid.split("-")[1] not in suf: continue
    m = json.load(open(os.path.join(d, "meta.json")))
    oc = m.get("our_checks") or {}
    first = ""; seeds_v = 0; seeds_all = 0; nf = False
    for k, v in sorted(oc.items()):
        if not isinstance(v, dict): continue
        seeds_all += 1
        if v.get("violation"):
            seeds_v += 1
            if not first: first = f"{k.split('/')[0]}: {cut(v.get('what'), 120)}"; nf = v.get("no_failing_input")
    if nf: first = first.replace(":", " (tie only: no-failing-input-found):", 1)
    print(f"| {sid} | {cut(m.get('what_changed'), 150)} | {cut(m.get('needs_to_manifest'), 140)} | {first or 'MISSED'} ({seeds_v}/{seeds_all} seeds) |")
