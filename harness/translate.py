#!/usr/bin/env python3
"""Translator: /repo source (Python `ast`, no import) -> lean/OSq/Generated/Tables.lean.

Regenerates the *declarative* part of the model on every run: the default gate table
(parameters, kinds, bodies), gate-set order, aliases, measure/reset definitions and the numeric
constants.  One shape is recognised per construct; anything else raises `Untranslatable`, which the
check turns into "translation tie broken -> search" (never silently into a pass).
"""
from __future__ import annotations
import ast, sys, os, re
from fractions import Fraction

REPO = os.environ.get("OSQ_REPO", "/repo")

class Untranslatable(Exception):
    pass

KINDS = {"QubitLike": "qubit", "Qubit": "qubit", "Float": "float", "SupportsInt": "int", "Int": "int", "Bit": "bit"}

def _src(path):
    with open(os.path.join(REPO, path)) as f:
        return f.read()

def lean_str(s: str) -> str:
    return '"' + s.replace("\\", "\\\\").replace('"', '\\"') + '"'

def sci_of_text(txt: str):
    """decimal literal text -> (mantissa, negExp, exp) exactly"""
    fr = Fraction(txt)
    if fr < 0:
        raise Untranslatable(f"negative literal {txt}")
    # find exponent e such that fr * 10^e is an integer
    e = 0
    while (fr * 10**e).denominator != 1:
        e += 1
        if e > 400:
            raise Untranslatable(f"literal {txt}")
    return int(fr * 10**e), e

def sexpr(node, locals_, params) -> str:
    if isinstance(node, ast.Attribute) and isinstance(node.value, ast.Name):
        if node.value.id == "math" and node.attr == "pi":
            return "SExpr.pi"
        if node.attr == "value" and params.get(node.value.id) == "float":
            return f"(SExpr.fparam {lean_str(node.value.id)})"
    if isinstance(node, ast.Constant) and isinstance(node.value, (int, float)) and not isinstance(node.value, bool):
        if isinstance(node.value, int):
            if node.value < 0:
                raise Untranslatable("negative int constant")
            return f"(SExpr.nat {node.value})"
        m, e = sci_of_text(repr(node.value))
        return f"(SExpr.sci {m} true {e})"
    if isinstance(node, ast.Name) and node.id in locals_:
        return f"(SExpr.var {lean_str(node.id)})"
    if isinstance(node, ast.UnaryOp) and isinstance(node.op, ast.USub):
        return f"(SExpr.neg {sexpr(node.operand, locals_, params)})"
    if isinstance(node, ast.BinOp):
        if isinstance(node.op, ast.Mult):
            return f"(SExpr.mul {sexpr(node.left, locals_, params)} {sexpr(node.right, locals_, params)})"
        if isinstance(node.op, ast.Div):
            return f"(SExpr.div {sexpr(node.left, locals_, params)} {sexpr(node.right, locals_, params)})"
        if isinstance(node.op, ast.Pow):
            # 2 ** Int(k).value
            l, r = node.left, node.right
            if (isinstance(l, ast.Constant) and l.value == 2 and isinstance(r, ast.Attribute) and r.attr == "value"
                    and isinstance(r.value, ast.Call) and isinstance(r.value.func, ast.Name) and r.value.func.id == "Int"
                    and len(r.value.args) == 1 and isinstance(r.value.args[0], ast.Name)
                    and params.get(r.value.args[0].id) == "int"):
                return f"(SExpr.pow2 {lean_str(r.value.args[0].id)})"
    if isinstance(node, ast.Call) and isinstance(node.func, ast.Name) and node.func.id == "normalize_angle" and len(node.args) == 1:
        return f"(SExpr.normalize {sexpr(node.args[0], locals_, params)})"
    raise Untranslatable("scalar expression: " + ast.dump(node)[:200])

def qname(node, params) -> str:
    if isinstance(node, ast.Name) and params.get(node.id) == "qubit":
        return lean_str(node.id)
    raise Untranslatable("qubit operand: " + ast.dump(node)[:120])

def axis_ints(node):
    if isinstance(node, ast.Tuple) and len(node.elts) == 3:
        out = []
        for e in node.elts:
            neg = False
            if isinstance(e, ast.UnaryOp) and isinstance(e.op, ast.USub):
                neg, e = True, e.operand
            if isinstance(e, ast.Constant) and isinstance(e.value, int) and not isinstance(e.value, bool):
                out.append(-e.value if neg else e.value)
            else:
                raise Untranslatable("axis component")
        return out
    raise Untranslatable("axis")

def lean_int(i: int) -> str:
    return f"({i})" if i < 0 else str(i)

def gexpr(node, locals_, params, known) -> str:
    if not isinstance(node, ast.Call):
        raise Untranslatable("gate expression: " + ast.dump(node)[:120])
    f = node.func
    if isinstance(f, ast.Attribute) and isinstance(f.value, ast.Name) and f.value.id == "BlochSphereRotation" and f.attr == "identity":
        if len(node.args) == 1 and not node.keywords:
            return f"(GExpr.identity {qname(node.args[0], params)})"
    if isinstance(f, ast.Name) and f.id == "BlochSphereRotation":
        kw = {k.arg: k.value for k in node.keywords}
        names = ["qubit", "axis", "angle", "phase"]
        for i, a in enumerate(node.args):
            kw[names[i]] = a
        if set(kw) - set(names) or "qubit" not in kw or "axis" not in kw or "angle" not in kw:
            raise Untranslatable("BlochSphereRotation arguments")
        ax = axis_ints(kw["axis"])
        phase = sexpr(kw["phase"], locals_, params) if "phase" in kw else "(SExpr.nat 0)"
        return (f"(GExpr.bsr {qname(kw['qubit'], params)} {lean_int(ax[0])} {lean_int(ax[1])} {lean_int(ax[2])} "
                f"{sexpr(kw['angle'], locals_, params)} {phase})")
    if isinstance(f, ast.Name) and f.id == "ControlledGate":
        kw = {k.arg: k.value for k in node.keywords}
        names = ["control_qubit", "target_gate"]
        for i, a in enumerate(node.args):
            kw[names[i]] = a
        if set(kw) != set(names):
            raise Untranslatable("ControlledGate arguments")
        return f"(GExpr.ctrl {qname(kw['control_qubit'], params)} {gexpr(kw['target_gate'], locals_, params, known)})"
    if isinstance(f, ast.Name) and f.id in known and not node.keywords:
        args = []
        for a in node.args:
            if isinstance(a, ast.Name) and a.id in params:
                args.append(lean_str(a.id))
            else:
                raise Untranslatable("call argument")
        return f"(GExpr.call {lean_str(f.id)} [{', '.join(args)}])"
    raise Untranslatable("gate expression: " + ast.dump(node)[:200])

def fn_params(fn: ast.FunctionDef):
    if fn.args.vararg or fn.args.kwarg or fn.args.kwonlyargs or fn.args.posonlyargs or fn.args.defaults:
        raise Untranslatable(f"signature of {fn.name}")
    out = []
    for a in fn.args.args:
        ann = a.annotation
        name = ann.id if isinstance(ann, ast.Name) else (ann.value if isinstance(ann, ast.Constant) else None)
        if name not in KINDS:
            raise Untranslatable(f"annotation of {fn.name}.{a.arg}")
        out.append((a.arg, KINDS[name]))
    return out

def decorated(fn, deco):
    return any(isinstance(d, ast.Name) and d.id == deco for d in fn.decorator_list)

def strip_doc(body):
    if body and isinstance(body[0], ast.Expr) and isinstance(body[0].value, ast.Constant) and isinstance(body[0].value.value, str):
        return body[1:]
    return body

def translate_gate(fn: ast.FunctionDef, known) -> str:
    params = fn_params(fn)
    pd = dict(params)
    body = strip_doc(fn.body)
    locals_ = []
    lets = []
    for st in body[:-1]:
        if isinstance(st, ast.Assign) and len(st.targets) == 1 and isinstance(st.targets[0], ast.Name):
            lets.append((st.targets[0].id, sexpr(st.value, locals_, pd)))
            locals_.append(st.targets[0].id)
        else:
            raise Untranslatable(f"statement in {fn.name}")
    if not body or not isinstance(body[-1], ast.Return) or body[-1].value is None:
        raise Untranslatable(f"return of {fn.name}")
    g = gexpr(body[-1].value, locals_, pd, known)
    for n, v in reversed(lets):
        g = f"(GExpr.letS {lean_str(n)} {v} {g})"
    ps = ", ".join(f"({lean_str(n)}, Kind.{k})" for n, k in params)
    return f"  {{ name := {lean_str(fn.name)}, params := [{ps}],\n    body := {g} }}"

def name_list(tree, var, env):
    """value of a module-level `var = [ ... ]` (Names and *Starred names), resolved through `env`"""
    for st in tree.body:
        if isinstance(st, ast.Assign) and len(st.targets) == 1 and isinstance(st.targets[0], ast.Name) and st.targets[0].id == var:
            if not isinstance(st.value, ast.List):
                raise Untranslatable(var)
            out = []
            for e in st.value.elts:
                if isinstance(e, ast.Name):
                    out.append(e.id)
                elif isinstance(e, ast.Starred) and isinstance(e.value, ast.Name) and e.value.id in env:
                    out += env[e.value.id]
                else:
                    raise Untranslatable(var)
            env[var] = out
            return out
    raise Untranslatable(f"{var} not found")

def const_assign(tree_or_class_body, var):
    for st in tree_or_class_body:
        if isinstance(st, ast.Assign) and len(st.targets) == 1 and isinstance(st.targets[0], ast.Name) and st.targets[0].id == var:
            return st.value
        if isinstance(st, ast.AnnAssign) and isinstance(st.target, ast.Name) and st.target.id == var and st.value is not None:
            return st.value
    raise Untranslatable(f"{var} not found")

def class_body(tree, cls):
    for st in tree.body:
        if isinstance(st, ast.ClassDef) and st.name == cls:
            return st.body
    raise Untranslatable(cls)

def int_const(node, what):
    if isinstance(node, ast.Constant) and isinstance(node.value, int) and not isinstance(node.value, bool):
        return node.value
    raise Untranslatable(what)

def generate() -> str:
    gates_src = _src("opensquirrel/default_gates.py")
    gt = ast.parse(gates_src)
    fns = [st for st in gt.body if isinstance(st, ast.FunctionDef) and decorated(st, "named_gate")]
    known = {f.name for f in fns}
    defs = [translate_gate(f, known) for f in fns]
    env = {}
    noparams = name_list(gt, "default_bloch_sphere_rotations_without_params", env)
    name_list(gt, "default_bloch_sphere_rotations", env)
    gate_set = name_list(gt, "default_gate_set", env)
    aliases_node = const_assign(gt.body, "default_gate_aliases")
    if not isinstance(aliases_node, ast.Dict):
        raise Untranslatable("default_gate_aliases")
    aliases = []
    for k, v in zip(aliases_node.keys, aliases_node.values):
        if isinstance(k, ast.Constant) and isinstance(k.value, str) and isinstance(v, ast.Name):
            aliases.append((k.value, v.id))
        else:
            raise Untranslatable("default_gate_aliases entry")

    # measures
    mt = ast.parse(_src("opensquirrel/default_measures.py"))
    mdefs = []
    for fn in [st for st in mt.body if isinstance(st, ast.FunctionDef) and decorated(st, "named_measure")]:
        params = fn_params(fn); pd = dict(params)
        body = strip_doc(fn.body)
        if len(body) != 1 or not isinstance(body[0], ast.Return):
            raise Untranslatable(f"measure {fn.name}")
        call = body[0].value
        if not (isinstance(call, ast.Call) and isinstance(call.func, ast.Name) and call.func.id == "Measure"):
            raise Untranslatable(f"measure {fn.name}")
        kw = {k.arg: k.value for k in call.keywords}
        for i, a in enumerate(call.args):
            kw[["qubit", "bit", "axis"][i]] = a
        if not (isinstance(kw.get("qubit"), ast.Name) and pd.get(kw["qubit"].id) == "qubit"
                and isinstance(kw.get("bit"), ast.Name) and pd.get(kw["bit"].id) == "bit"):
            raise Untranslatable(f"measure {fn.name} operands")
        ax = axis_ints(kw["axis"]) if "axis" in kw else [0, 0, 1]
        ps = ", ".join(f"({lean_str(n)}, Kind.{k})" for n, k in params)
        mdefs.append(f"  {{ name := {lean_str(fn.name)}, params := [{ps}], qparam := {lean_str(kw['qubit'].id)}, "
                     f"bparam := {lean_str(kw['bit'].id)}, axis := ({lean_int(ax[0])}, {lean_int(ax[1])}, {lean_int(ax[2])}) }}")
    measure_set = name_list(mt, "default_measure_set", {})

    rt = ast.parse(_src("opensquirrel/default_resets.py"))
    rdefs = []
    for fn in [st for st in rt.body if isinstance(st, ast.FunctionDef) and decorated(st, "named_reset")]:
        params = fn_params(fn); pd = dict(params)
        body = strip_doc(fn.body)
        call = body[0].value if len(body) == 1 and isinstance(body[0], ast.Return) else None
        if not (isinstance(call, ast.Call) and isinstance(call.func, ast.Name) and call.func.id == "Reset"):
            raise Untranslatable(f"reset {fn.name}")
        kw = {k.arg: k.value for k in call.keywords}
        for i, a in enumerate(call.args):
            kw[["qubit"][i]] = a
        if not (isinstance(kw.get("qubit"), ast.Name) and pd.get(kw["qubit"].id) == "qubit"):
            raise Untranslatable(f"reset {fn.name} operand")
        ps = ", ".join(f"({lean_str(n)}, Kind.{k})" for n, k in params)
        rdefs.append(f"  {{ name := {lean_str(fn.name)}, params := [{ps}], qparam := {lean_str(kw['qubit'].id)} }}")
    reset_set = name_list(rt, "default_reset_set", {})

    # constants
    ct = ast.parse(_src("opensquirrel/common.py"))
    atol_node = const_assign(ct.body, "ATOL")
    if not (isinstance(atol_node, ast.Constant) and isinstance(atol_node.value, float)):
        raise Untranslatable("ATOL")
    seg = ast.get_source_segment(_src("opensquirrel/common.py"), atol_node)
    am, ae = sci_of_text(seg if re.fullmatch(r"[0-9.]+([eE][-+]?[0-9]+)?", seg or "") else repr(atol_node.value))
    wt = ast.parse(_src("opensquirrel/writer/writer.py"))
    wprec = int_const(const_assign(class_body(wt, "_WriterImpl"), "FLOAT_PRECISION"), "writer precision")
    vt = ast.parse(_src("opensquirrel/exporter/cqasmv1_exporter.py"))
    vprec = int_const(const_assign(class_body(vt, "_CQASMv1Creator"), "FLOAT_PRECISION"), "v1 precision")
    st_ = ast.parse(_src("opensquirrel/exporter/quantify_scheduler_exporter.py"))
    dprec = int_const(const_assign(st_.body, "FIXED_POINT_DEG_PRECISION"), "deg precision")
    it = ast.parse(_src("opensquirrel/ir.py"))
    rdec = int_const(const_assign(it.body, "REPR_DECIMALS"), "repr decimals")

    sl = lambda xs: "[" + ", ".join(lean_str(x) for x in xs) + "]"
    out = f"""/- GENERATED by harness/translate.py from {REPO} — do not edit. -/
import OSq.Model.Instr
namespace OSq.Gen
open OSq

/-- `common.ATOL` = {am}e-{ae} -/
def atolMantissa : Nat := {am}
def atolExp : Nat := {ae}
def atol {{α : Type}} [Scalar α] : α := OfScientific.ofScientific {am} true {ae}
def writerPrecision : Nat := {wprec}
def v1Precision : Nat := {vprec}
def degPrecision : Nat := {dprec}
def reprDecimals : Nat := {rdec}

def gateTable : List GateDef := [
{(',' + chr(10)).join(defs)}
]

/-- `default_gate_set`, in order -/
def gateSet : List String := {sl(gate_set)}
/-- `default_bloch_sphere_rotations_without_params`, in order -/
def bsrNoParams : List String := {sl(noparams)}
def aliases : List (String × String) := [{', '.join(f'({lean_str(a)}, {lean_str(b)})' for a, b in aliases)}]

def measureTable : List MeasureDef := [
{(',' + chr(10)).join(mdefs)}
]
def measureSet : List String := {sl(measure_set)}

def resetTable : List ResetDef := [
{(',' + chr(10)).join(rdefs)}
]
def resetSet : List String := {sl(reset_set)}

end OSq.Gen
"""
    return out

def main():
    out_path = sys.argv[1] if len(sys.argv) > 1 else os.path.join(os.path.dirname(__file__), "..", "lean", "OSq", "Generated", "Tables.lean")
    try:
        text = generate()
    except Untranslatable as e:
        print(f"UNTRANSLATABLE: {e}")
        sys.exit(3)
    old = None
    if os.path.exists(out_path):
        with open(out_path) as f:
            old = f.read()
    if old != text:
        with open(out_path, "w") as f:
            f.write(text)
        print("tables: regenerated (changed)")
    else:
        print("tables: unchanged")

if __name__ == "__main__":
    main()
