"""Canonical, implementation-independent representation of OpenSquirrel values ("wire" form), its
token serialisation for the Lean driver, and conversion from/to real OpenSquirrel objects.

wire circuit : {"nq": int, "nb": int, "stmts": [stmt]}
stmt   : {"k":"gate","nm":named|None,"g":gate} | {"k":"measure","q","b","axis":[3],"nm"} |
         {"k":"reset","q","nm"} | {"k":"comment","s"}
gate   : {"k":"bsr","q","axis":[3],"angle","phase"} | {"k":"mat","ops":[int],"dim":int,"m":[(re,im)…]} |
         {"k":"ctrl","c","g":gate}
named  : {"name": str, "args": [["q",i] | ["b",i] | ["i",v] | ["f",x]]}
Floats cross the process boundary as IEEE-754 bit patterns.
"""
from __future__ import annotations
import struct, math

# ---------------------------------------------------------------- tokens
def f2h(x: float) -> str:
    return struct.pack(">d", float(x)).hex()

def h2f(s: str) -> float:
    return struct.unpack(">d", bytes.fromhex(s))[0]

def s2h(s: str) -> str:
    return "x" + s.encode("utf-8").hex()

def h2s(t: str) -> str:
    assert t[0] == "x", t
    return bytes.fromhex(t[1:]).decode("utf-8")

def t_named(nm):
    if nm is None:
        return ["A"]
    out = ["N", s2h(nm["name"]), str(len(nm["args"]))]
    for k, v in nm["args"]:
        out += [k, f2h(v) if k == "f" else str(int(v))]
    return out

def t_gate(g):
    if g["k"] == "bsr":
        return ["B", str(g["q"])] + [f2h(x) for x in g["axis"]] + [f2h(g["angle"]), f2h(g["phase"])]
    if g["k"] == "mat":
        out = ["M", str(len(g["ops"]))] + [str(o) for o in g["ops"]] + [str(g["dim"])]
        for re, im in g["m"]:
            out += [f2h(re), f2h(im)]
        return out
    if g["k"] == "ctrl":
        return ["T", str(g["c"])] + t_gate(g["g"])
    raise ValueError(g)

def t_stmt(s):
    k = s["k"]
    if k == "gate":
        return ["G"] + t_named(s["nm"]) + t_gate(s["g"])
    if k == "measure":
        return ["S", str(s["q"]), str(s["b"])] + [f2h(x) for x in s["axis"]] + t_named(s["nm"])
    if k == "reset":
        return ["R", str(s["q"])] + t_named(s["nm"])
    if k == "comment":
        return ["K", s2h(s["s"])]
    raise ValueError(s)

def t_stmts(l):
    out = [str(len(l))]
    for s in l:
        out += t_stmt(s)
    return out

def t_circuit(c):
    return ["C", str(c["nq"]), str(c["nb"])] + t_stmts(c["stmts"])

def t_ints(l):
    return [str(len(l))] + [str(int(x)) for x in l]

class Rd:
    def __init__(self, line: str):
        self.t = line.split()
        self.i = 0
    def next(self):
        v = self.t[self.i]; self.i += 1; return v
    def peek(self):
        return self.t[self.i] if self.i < len(self.t) else None
    def int(self): return int(self.next())
    def float(self): return h2f(self.next())
    def str(self): return h2s(self.next())
    def done(self): return self.i >= len(self.t)

def p_named(r: Rd):
    t = r.next()
    if t == "A":
        return None
    assert t == "N", t
    name = r.str(); n = r.int(); args = []
    for _ in range(n):
        k = r.next()
        args.append([k, r.float() if k == "f" else r.int()])
    return {"name": name, "args": args}

def p_mat(r: Rd):
    dim = r.int()
    return dim, [(r.float(), r.float()) for _ in range(dim * dim)]

def p_gate(r: Rd):
    t = r.next()
    if t == "B":
        q = r.int(); ax = [r.float(), r.float(), r.float()]
        return {"k": "bsr", "q": q, "axis": ax, "angle": r.float(), "phase": r.float()}
    if t == "M":
        n = r.int(); ops = [r.int() for _ in range(n)]
        dim, m = p_mat(r)
        return {"k": "mat", "ops": ops, "dim": dim, "m": m}
    if t == "T":
        c = r.int()
        return {"k": "ctrl", "c": c, "g": p_gate(r)}
    raise ValueError(t)

def p_stmt(r: Rd):
    t = r.next()
    if t == "G":
        nm = p_named(r)
        return {"k": "gate", "nm": nm, "g": p_gate(r)}
    if t == "S":
        q = r.int(); b = r.int(); ax = [r.float(), r.float(), r.float()]
        return {"k": "measure", "q": q, "b": b, "axis": ax, "nm": p_named(r)}
    if t == "R":
        q = r.int()
        return {"k": "reset", "q": q, "nm": p_named(r)}
    if t == "K":
        return {"k": "comment", "s": r.str()}
    raise ValueError(t)

def p_stmts(r: Rd):
    return [p_stmt(r) for _ in range(r.int())]

def p_circuit(r: Rd):
    t = r.next(); assert t == "C", t
    nq = r.int(); nb = r.int()
    return {"nq": nq, "nb": nb, "stmts": p_stmts(r)}

# ---------------------------------------------------------------- from OpenSquirrel objects
def w_arg(a):
    from opensquirrel.ir import Qubit, Bit, Int, Float
    if isinstance(a, Qubit): return ["q", a.index]
    if isinstance(a, Bit): return ["b", a.index]
    if isinstance(a, Int): return ["i", a.value]
    if isinstance(a, Float): return ["f", a.value]
    if isinstance(a, bool): return ["i", int(a)]
    if isinstance(a, int): return ["i", a]
    raise TypeError(f"argument {a!r}")

def w_named(obj):
    if obj.arguments is None or obj.generator is None:
        return None
    return {"name": obj.generator.__name__, "args": [w_arg(a) for a in obj.arguments]}

def w_gate(g):
    from opensquirrel.ir import BlochSphereRotation, MatrixGate, ControlledGate
    if isinstance(g, BlochSphereRotation):
        return {"k": "bsr", "q": g.qubit.index, "axis": [float(x) for x in g.axis.value],
                "angle": float(g.angle), "phase": float(g.phase)}
    if isinstance(g, MatrixGate):
        m = g.matrix
        return {"k": "mat", "ops": [q.index for q in g.operands], "dim": int(m.shape[0]),
                "m": [(float(z.real), float(z.imag)) for z in m.reshape(-1)]}
    if isinstance(g, ControlledGate):
        return {"k": "ctrl", "c": g.control_qubit.index, "g": w_gate(g.target_gate)}
    raise TypeError(g)

def w_stmt(s):
    from opensquirrel.ir import Gate, Measure, Reset, Comment
    if isinstance(s, Gate):
        return {"k": "gate", "nm": w_named(s), "g": w_gate(s)}
    if isinstance(s, Measure):
        return {"k": "measure", "q": s.qubit.index, "b": s.bit.index, "axis": [float(x) for x in s.axis.value],
                "nm": w_named(s)}
    if isinstance(s, Reset):
        return {"k": "reset", "q": s.qubit.index, "nm": w_named(s)}
    if isinstance(s, Comment):
        return {"k": "comment", "s": s.str}
    raise TypeError(s)

def w_circuit(c):
    return {"nq": c.qubit_register_size, "nb": c.bit_register_size, "stmts": [w_stmt(s) for s in c.ir.statements]}

# ---------------------------------------------------------------- to OpenSquirrel objects
def os_lookup(name):
    import opensquirrel.default_gates as dg, opensquirrel.default_measures as dm, opensquirrel.default_resets as dr
    for mod in (dg, dm, dr):
        if hasattr(mod, name):
            return getattr(mod, name)
    raise KeyError(name)

def os_arg(a):
    from opensquirrel.ir import Qubit, Bit, Int, Float
    k, v = a
    return {"q": lambda: Qubit(v), "b": lambda: Bit(v), "i": lambda: Int(v), "f": lambda: Float(v)}[k]()

def os_gate_raw(g):
    """semantic gate without a name, fields set verbatim (constructors would re-normalise)"""
    import numpy as np
    from opensquirrel.ir import BlochSphereRotation, MatrixGate, ControlledGate, Qubit
    if g["k"] == "bsr":
        o = BlochSphereRotation(g["q"], (1, 0, 0), 0.0, 0.0)
        o.axis._value = np.array(g["axis"], dtype=float)
        o.angle = g["angle"]; o.phase = g["phase"]
        return o
    if g["k"] == "mat":
        m = np.array([complex(a, b) for a, b in g["m"]]).reshape(g["dim"], g["dim"])
        return MatrixGate(m, g["ops"])
    if g["k"] == "ctrl":
        return ControlledGate(g["c"], os_gate_raw(g["g"]))
    raise ValueError(g)

def os_stmt(s, lookup=os_lookup):
    """rebuild a statement object with exactly the wire fields (used for replays and scripted callbacks)"""
    import numpy as np
    from opensquirrel.ir import Measure, Reset, Comment, Bit
    k = s["k"]
    if k == "comment":
        return Comment(s["s"])
    if k == "gate":
        o = os_gate_raw(s["g"])
    elif k == "measure":
        o = Measure(s["q"], Bit(s["b"]), (0, 0, 1))
        o.axis._value = np.array(s["axis"], dtype=float)
    elif k == "reset":
        o = Reset(s["q"])
    else:
        raise ValueError(s)
    if s["nm"] is not None:
        o.generator = lookup(s["nm"]["name"])
        o.arguments = tuple(os_arg(a) for a in s["nm"]["args"])
    return o

def os_circuit(c, lookup=os_lookup):
    from opensquirrel.circuit import Circuit
    from opensquirrel.ir import IR
    from opensquirrel.register_manager import RegisterManager, QubitRegister, BitRegister
    ir = IR()
    for s in c["stmts"]:
        ir.statements.append(os_stmt(s, lookup))
    return Circuit(RegisterManager(QubitRegister(c["nq"]), BitRegister(c["nb"])), ir)

# ---------------------------------------------------------------- comparison
def feq(a: float, b: float, tol: float) -> bool:
    if a == b:
        return True
    if math.isnan(a) or math.isnan(b):
        return math.isnan(a) and math.isnan(b)
    if math.isinf(a) or math.isinf(b):
        return False
    return abs(a - b) <= tol * max(1.0, abs(a), abs(b))

def angle_eq(a, b, tol):
    """angles are compared modulo 2*pi (pi and -pi denote the same stored angle up to sign of the operator)"""
    if feq(a, b, tol):
        return True
    d = abs(a - b) % (2 * math.pi)
    return min(d, 2 * math.pi - d) <= tol

def diff(a, b, tol=1e-9, path=""):
    """first difference between two wire values, or None"""
    if isinstance(a, float) or isinstance(b, float):
        if not (isinstance(a, (int, float)) and isinstance(b, (int, float))):
            return f"{path}: {a!r} vs {b!r}"
        return None if feq(float(a), float(b), tol) else f"{path}: {a!r} vs {b!r}"
    if type(a) != type(b):
        if isinstance(a, (list, tuple)) and isinstance(b, (list, tuple)):
            pass
        else:
            return f"{path}: type {type(a).__name__} vs {type(b).__name__}"
    if isinstance(a, dict):
        if set(a) != set(b):
            return f"{path}: keys {sorted(a)} vs {sorted(b)}"
        for k in a:
            d = diff(a[k], b[k], tol, f"{path}.{k}")
            if d: return d
        return None
    if isinstance(a, (list, tuple)):
        if len(a) != len(b):
            return f"{path}: length {len(a)} vs {len(b)}"
        for i, (x, y) in enumerate(zip(a, b)):
            d = diff(x, y, tol, f"{path}[{i}]")
            if d: return d
        return None
    return None if a == b else f"{path}: {a!r} vs {b!r}"
