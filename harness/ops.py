"""One function pair per operation: `req_*` builds the request line for the Lean model driver and
`impl_*` performs the same operation on the real OpenSquirrel code (public API, in-process) and returns
the result in wire form; `parse_*` reads the driver's reply into the same form."""
from __future__ import annotations
import copy, math
import wire as W

KNOWN_ERR = {"ValueError", "IndexError", "TypeError", "KeyError", "OSError", "ExporterError", "UnsupportedGateError"}

def err_name(e: BaseException) -> str:
    n = type(e).__name__
    if n in KNOWN_ERR:
        return n
    for c in type(e).__mro__:
        if c.__name__ in KNOWN_ERR:
            return c.__name__
    return "other:" + n

# ----------------------------------------------------------------------------- reply parsers
def parse_pass(line: str):
    r = W.Rd(line); t = r.next()
    if t == "ok":
        return {"err": None, "c": W.p_circuit(r)}
    if t == "err":
        e = r.next()
        return {"err": e, "c": W.p_circuit(r) if not r.done() else None}
    raise ValueError("bad reply: " + line[:200])

def parse_ok_err(line: str, payload=None):
    r = W.Rd(line); t = r.next()
    if t == "ok":
        return {"err": None, "v": payload(r) if payload else None}
    if t == "err":
        return {"err": r.next(), "v": None}
    raise ValueError("bad reply: " + line[:200])

def p_matrix(r: W.Rd):
    dim, m = W.p_mat(r)
    return {"dim": dim, "m": m}

# ----------------------------------------------------------------------------- poison after use
def scribble(circ):
    """After a result has been copied out, relabel the circuit object in place with a non-identity mapping.  Nothing the
    library keeps (a cache, a memo, a default argument) may share objects with a circuit it handed out: if it does, the
    next call that uses the shared object goes wrong and the tie / the oracle of whatever check runs next sees it."""
    try:
        from opensquirrel.mapper.mapping import Mapping
        from opensquirrel.mapper import HardcodedMapper
        n = circ.qubit_register_size
        if n >= 2:
            circ.map(HardcodedMapper(n, Mapping([(i + 1) % n for i in range(n)])))
    except Exception:
        pass

# ----------------------------------------------------------------------------- decomposers
DECOMPOSERS = ["XYX", "XZX", "YXY", "YZY", "ZXZ", "ZYZ", "McKay", "CNOT"]

def os_decomposer(name):
    from opensquirrel.decomposer import aba_decomposer as aba
    from opensquirrel.decomposer.mckay_decomposer import McKayDecomposer
    from opensquirrel.decomposer.cnot_decomposer import CNOTDecomposer
    if name == "McKay": return McKayDecomposer()
    if name == "CNOT": return CNOTDecomposer()
    return getattr(aba, name + "Decomposer")()

def req_decompose(d, c): return " ".join(["decompose", d] + W.t_circuit(c))
def impl_decompose(d, c, lookup=W.os_lookup):
    circ = W.os_circuit(c, lookup)
    try:
        circ.decompose(os_decomposer(d)); e = None
    except Exception as ex:
        e = err_name(ex)
    out = {"err": e, "c": W.w_circuit(circ)}
    scribble(circ)
    return out

def req_dgate(d, s): return " ".join(["dgate", d] + W.t_stmt(s))
def impl_dgate(d, s):
    g = W.os_stmt(s)
    try:
        out = os_decomposer(d).decompose(g)
        return {"err": None, "v": [W.w_stmt(x) for x in out]}
    except Exception as ex:
        return {"err": err_name(ex), "v": None}
def parse_dgate(line): return parse_ok_err(line, W.p_stmts)

def req_merge(c): return " ".join(["merge"] + W.t_circuit(c))
def impl_merge(c, lookup=W.os_lookup):
    circ = W.os_circuit(c, lookup)
    try:
        circ.merge_single_qubit_gates(); e = None
    except Exception as ex:
        e = err_name(ex)
    out = {"err": e, "c": W.w_circuit(circ)}
    scribble(circ)
    return out

# ----------------------------------------------------------------------------- scripted decomposer / replace
def t_script(script):
    out = [str(len(script))]
    for ent in script:
        if ent[0] == "r":
            out += ["r"] + W.t_stmts(ent[1])
        else:
            out += ["e", ent[1]]
    return out

def req_dcustom(c, script): return " ".join(["dcustom"] + W.t_circuit(c) + t_script(script))
def impl_dcustom(c, script):
    from opensquirrel.decomposer import Decomposer
    circ = W.os_circuit(c)
    calls = [0]
    class Scripted(Decomposer):
        def decompose(self, g):
            i = calls[0]; calls[0] += 1
            if i < len(script):
                ent = script[i]
                if ent[0] == "e":
                    raise {"ValueError": ValueError, "KeyError": KeyError, "TypeError": TypeError, "IndexError": IndexError}[ent[1]]("scripted")
                return [W.os_stmt(s) for s in ent[1]]
            return [g]
    try:
        circ.decompose(Scripted()); e = None
    except Exception as ex:
        e = err_name(ex)
    return {"err": e, "c": W.w_circuit(circ)}

def req_replace(name, c, script): return " ".join(["replace", W.s2h(name)] + W.t_circuit(c) + t_script(script))
def impl_replace(name, c, script, lookup=W.os_lookup):
    circ = W.os_circuit(c, lookup)
    calls = [0]; seen_args = []
    def f(*args):
        i = calls[0]; calls[0] += 1
        seen_args.append([W.w_arg(a) for a in args])
        if i < len(script):
            ent = script[i]
            if ent[0] == "e":
                raise {"ValueError": ValueError, "KeyError": KeyError, "TypeError": TypeError, "IndexError": IndexError}[ent[1]]("scripted")
            return [W.os_stmt(s, lookup) for s in ent[1]]
        raise IndexError("script exhausted")
    try:
        circ.replace(lookup(name), f); e = None
    except Exception as ex:
        e = err_name(ex)
    out = {"err": e, "c": W.w_circuit(circ), "callback_args": seen_args}
    scribble(circ)
    return out

# ----------------------------------------------------------------------------- mapping
def req_mapping(l): return " ".join(["mapping"] + W.t_ints(l))
def impl_mapping(l):
    from opensquirrel.mapper.mapping import Mapping
    try:
        Mapping(list(l)); return {"err": None, "v": None}
    except Exception as ex:
        return {"err": err_name(ex), "v": None}

def req_map(l, c): return " ".join(["map"] + W.t_ints(l) + W.t_circuit(c))
def impl_map(l, c, lookup=W.os_lookup, circ=None):
    from opensquirrel.mapper.mapping import Mapping
    from opensquirrel.mapper import HardcodedMapper
    circ = circ if circ is not None else W.os_circuit(c, lookup)
    try:
        circ.map(HardcodedMapper(circ.qubit_register_size, Mapping(list(l)))); e = None
    except Exception as ex:
        e = err_name(ex)
    return {"err": e, "c": W.w_circuit(circ), "_circ": circ}

def req_remap(l, c): return " ".join(["remap"] + W.t_ints(l) + W.t_circuit(c))
def impl_remap(l, c, circ=None):
    """Circuit.map with a mapper whose mapping need not have the register's size (the size test lives in the
    Mapper constructor; a Mapper subclass can bypass it, as can mapper.qubit_remapper.remap_ir)"""
    from opensquirrel.mapper.mapping import Mapping
    from opensquirrel.mapper import Mapper
    circ = circ if circ is not None else W.os_circuit(c)
    class Raw(Mapper):
        def __init__(self, mapping): self.mapping = mapping
    try:
        m = Mapping(list(l))
    except Exception as ex:
        return {"err": "mapping:" + err_name(ex), "c": W.w_circuit(circ), "_circ": circ}
    try:
        circ.map(Raw(m)); e = None
    except Exception as ex:
        e = err_name(ex)
    return {"err": e, "c": W.w_circuit(circ), "_circ": circ}

# ----------------------------------------------------------------------------- text
def req_write(c): return " ".join(["write"] + W.t_circuit(c))
def impl_write(c, lookup=W.os_lookup, circ=None):
    circ = circ if circ is not None else W.os_circuit(c, lookup)
    try:
        return {"err": None, "v": str(circ)}
    except Exception as ex:
        return {"err": err_name(ex), "v": None}
def parse_str(line): return parse_ok_err(line, lambda r: r.str())

def req_exportv1(c): return " ".join(["exportv1"] + W.t_circuit(c))
def impl_exportv1(c, lookup=W.os_lookup, circ=None):
    from opensquirrel.exporter.export_format import ExportFormat
    circ = circ if circ is not None else W.os_circuit(c, lookup)
    try:
        return {"err": None, "v": circ.export(ExportFormat.CQASM_V1)}
    except Exception as ex:
        return {"err": err_name(ex), "v": None}

def mask_anonymous(text: str) -> str:
    """anonymous gates are written as an opaque repr; the model writes `<anon>`"""
    return "\n".join("<anon>" if l.startswith("Anonymous gate: ") else l for l in text.split("\n"))

def req_fmt(p, x): return f"fmt {p} {W.f2h(x)}"

# ----------------------------------------------------------------------------- schedule
def req_sched(c): return " ".join(["sched"] + W.t_circuit(c))
def parse_sched(line):
    def pl(r):
        ops = []
        for _ in range(r.int()):
            k = r.next()
            if k == "rxy": ops.append(["rxy", r.int(), r.float(), r.float()])
            elif k == "rz": ops.append(["rz", r.int(), r.float()])
            elif k in ("cnot", "cz"): ops.append([k, r.int(), r.int()])
            elif k == "measure": ops.append(["measure", r.int(), r.int(), r.int()])
            elif k == "reset": ops.append(["reset", r.int()])
            else: raise ValueError(k)
        bm = []
        for _ in range(r.int()):
            t = r.next()
            bm.append(None if t == "n" else [r.int(), r.int()])
        return {"ops": ops, "bitmap": bm}
    return parse_ok_err(line, pl)

def _qidx(s: str) -> int:
    return int(s[s.index("[") + 1:s.index("]")])

def impl_sched(c, lookup=W.os_lookup, circ=None):
    from opensquirrel.exporter.export_format import ExportFormat
    circ = circ if circ is not None else W.os_circuit(c, lookup)
    try:
        sched, bitmap = circ.export(ExportFormat.QUANTIFY_SCHEDULER)
    except Exception as ex:
        return {"err": err_name(ex), "v": None}
    ops = []
    for sch in sched.schedulables.values():
        op = sched.operations[sch["operation_id"]]
        gi = op.data.get("gate_info", {})
        t = gi.get("operation_type")
        qs = [_qidx(q) for q in (gi.get("qubits") or gi.get("device_elements") or [])]
        if t == "Rxy": ops.append(["rxy", qs[0], float(gi["theta"]), float(gi["phi"])])
        elif t == "Rz": ops.append(["rz", qs[0], float(gi["theta"])])
        elif t == "CNOT": ops.append(["cnot", qs[0], qs[1]])
        elif t == "CZ": ops.append(["cz", qs[0], qs[1]])
        elif t == "measure": ops.append(["measure", qs[0], int(gi["acq_channel_override"] if gi.get("acq_channel_override") is not None else gi.get("acq_channel")), int(gi["acq_index"])])
        elif t == "reset": ops.append(["reset", qs[0]])
        else: ops.append(["unknown:" + str(t)] + qs)
    bm = [None if a is None else [int(a), int(q)] for (a, q) in bitmap]
    return {"err": None, "v": {"ops": ops, "bitmap": bm}}

# ----------------------------------------------------------------------------- matrices
def req_matrix(n, g): return " ".join(["matrix", str(n)] + W.t_gate(g))
def impl_matrix(n, g):
    from opensquirrel.utils import get_matrix
    try:
        m = get_matrix(W.os_gate_raw(g), n)
        return {"err": None, "v": {"dim": int(m.shape[0]), "m": [(float(z.real), float(z.imag)) for z in m.reshape(-1)]}}
    except Exception as ex:
        return {"err": err_name(ex), "v": None}
def parse_matrix(line): return parse_ok_err(line, p_matrix)

def req_cmatrix(c): return " ".join(["cmatrix"] + W.t_circuit(c))
def impl_cmatrix(c):
    from opensquirrel.circuit_matrix_calculator import get_circuit_matrix
    try:
        circ = W.os_circuit(c)
        m = get_circuit_matrix(circ)
        out = {"err": None, "v": {"dim": int(m.shape[0]), "m": [(float(z.real), float(z.imag)) for z in m.reshape(-1)]}}
        # the matrix is a function of the circuit as it is now: relabel in place, ask again
        n = circ.qubit_register_size
        if n >= 2:
            scribble(circ)
            m2 = get_circuit_matrix(circ)
            out["_after_map"] = {"perm": [(i + 1) % n for i in range(n)], "c": W.w_circuit(circ), "m": m2}
        return out
    except Exception as ex:
        return {"err": err_name(ex), "v": None}

# ----------------------------------------------------------------------------- constructors / equality / check
def req_normalize(x): return "normalize " + W.f2h(x)
def req_mkbsr(q, axis, angle, phase): return " ".join(["mkbsr", str(q)] + [W.f2h(a) for a in axis] + [W.f2h(angle), W.f2h(phase)])
def impl_mkbsr(q, axis, angle, phase):
    from opensquirrel.ir import BlochSphereRotation
    try:
        return {"err": None, "v": W.w_gate(BlochSphereRotation(q, axis, angle, phase))}
    except Exception as ex:
        return {"err": err_name(ex), "v": None}
def parse_gate(line): return parse_ok_err(line, W.p_gate)

def req_mkmatrix(ops, dim, m):
    out = ["mkmatrix"] + W.t_ints(ops) + [str(dim)]
    for re, im in m: out += [W.f2h(re), W.f2h(im)]
    return " ".join(out)
def impl_mkmatrix(ops, dim, m, shape=None):
    import numpy as np
    from opensquirrel.ir import MatrixGate
    arr = np.array([complex(a, b) for a, b in m]).reshape(shape or (dim, dim))
    try:
        return {"err": None, "v": W.w_gate(MatrixGate(arr, ops))}
    except Exception as ex:
        return {"err": err_name(ex), "v": None}

def req_mkctrl(c, g): return " ".join(["mkctrl", str(c)] + W.t_gate(g))
def impl_mkctrl(c, g):
    from opensquirrel.ir import ControlledGate
    try:
        return {"err": None, "v": W.w_gate(ControlledGate(c, W.os_gate_raw(g)))}
    except Exception as ex:
        return {"err": err_name(ex), "v": None}

def req_gateeq(a, b): return " ".join(["gateeq"] + W.t_gate(a) + W.t_gate(b))
def impl_gateeq(a, b):
    try:
        return {"err": None, "v": bool(W.os_gate_raw(a) == W.os_gate_raw(b))}
    except Exception as ex:
        return {"err": err_name(ex), "v": None}
def parse_bool(line): return parse_ok_err(line, lambda r: r.next() == "1")

def req_circuiteq(a, b): return " ".join(["circuiteq"] + W.t_circuit(a) + W.t_circuit(b))
def impl_circuiteq(a, b):
    try:
        return {"err": None, "v": bool(W.os_circuit(a) == W.os_circuit(b))}
    except Exception as ex:
        return {"err": err_name(ex), "v": None}

def req_check(g, gs):
    out = ["check"] + W.t_gate(g) + [str(len(gs))]
    for x in gs: out += W.t_gate(x)
    return " ".join(out)
def impl_check(g, gs):
    from opensquirrel.decomposer.general_decomposer import check_gate_replacement
    try:
        check_gate_replacement(W.os_gate_raw(g), [W.os_gate_raw(x) for x in gs])
        return {"err": None, "v": None}
    except Exception as ex:
        return {"err": err_name(ex), "v": None}

def impl_check_stmts(s, ss):
    """like impl_check, on statements: named gates keep their name and arguments (what a user rule returns)"""
    from opensquirrel.decomposer.general_decomposer import check_gate_replacement
    try:
        check_gate_replacement(W.os_stmt(s), [W.os_stmt(x) for x in ss])
        return {"err": None, "v": None}
    except Exception as ex:
        return {"err": err_name(ex), "v": None}

def req_compose(a, b): return " ".join(["compose"] + W.t_stmt(a) + W.t_stmt(b))
def impl_compose(a, b):
    from opensquirrel.merger.general_merger import compose_bloch_sphere_rotations
    try:
        return {"err": None, "v": W.w_stmt(compose_bloch_sphere_rotations(W.os_stmt(a), W.os_stmt(b)))}
    except Exception as ex:
        return {"err": err_name(ex), "v": None}
def parse_stmt(line): return parse_ok_err(line, W.p_stmt)

def req_named(name, args):
    out = ["named", W.s2h(name), str(len(args))]
    for k, v in args: out += [k, W.f2h(v) if k == "f" else str(int(v))]
    return " ".join(out)
def impl_named(name, args, how="positional"):
    f = W.os_lookup(name)
    try:
        if how == "positional":
            o = f(*[W.os_arg(a) for a in args])
        else:
            import inspect, random as _r
            names = list(inspect.signature(f).parameters.keys())
            items = [(n, W.os_arg(a)) for n, a in zip(names, args)]
            if how.startswith("keyword-shuffled"):
                _r.Random(int(how.split(":")[1])).shuffle(items); items.reverse()
            o = f(**dict(items))
        return {"err": None, "v": W.w_stmt(o)}
    except Exception as ex:
        return {"err": err_name(ex), "v": None}

# ----------------------------------------------------------------------------- graph
def req_graph(c): return " ".join(["graph"] + W.t_circuit(c))
def impl_graph(c):
    from opensquirrel.mapper.utils import make_interaction_graph
    try:
        g = make_interaction_graph(W.os_circuit(c).ir)
    except Exception as ex:
        return {"err": err_name(ex), "v": None}
    edges = sorted({(min(a.index, b.index), max(a.index, b.index)) for a, b in g.edges})
    nodes = sorted(n.index for n in g.nodes)
    return {"err": None, "v": {"edges": [list(e) for e in edges], "nodes": nodes}}
def parse_graph(line):
    def pl(r):
        es = [[r.int(), r.int()] for _ in range(r.int())]
        return {"edges": sorted(es)}
    return parse_ok_err(line, pl)

# ----------------------------------------------------------------------------- builder
def t_pyarg(a):
    k, v = a
    if k == "float": return ["float", W.f2h(v)]
    if k == "other": return ["other"]
    return [k, str(int(v))]

def req_build(nq, nb, calls):
    out = ["build", str(nq), str(nb), str(len(calls))]
    for c in calls:
        if c[0] == "c":
            out += ["c", W.s2h(c[1]), str(len(c[2]))]
            for a in c[2]: out += t_pyarg(a)
        else:
            out += ["k", W.s2h(c[1])]
    return " ".join(out)

def os_pyarg(a):
    from opensquirrel.ir import Qubit, Bit, Float, Int
    k, v = a
    if k == "int": return int(v)
    if k == "qubit": return Qubit(v)
    if k == "bit": return Bit(v)
    if k == "float": return Float(v)
    if k == "intobj": return Int(v)
    return v if k == "other" and v is not None else "a string"

def impl_build(nq, nb, calls, snapshots=None):
    """`snapshots`: optional set of call indices after which `to_circuit()` is taken; returned as wire circuits
    together with their object-identity sets, to observe independence"""
    from opensquirrel import CircuitBuilder
    b = CircuitBuilder(nq, nb)
    res = []
    snaps = []
    for i, c in enumerate(calls):
        before = W.w_circuit(b.to_circuit())
        try:
            if c[0] == "c":
                getattr(b, c[1])(*[os_pyarg(a) for a in c[2]])
            else:
                b.comment(c[1])
            res.append("ok")
        except Exception as ex:
            res.append("err:" + err_name(ex))
            after = W.w_circuit(b.to_circuit())
            if W.diff(before, after, 0.0) is not None:
                res[-1] += ":STATE-CHANGED"
        if snapshots and i in snapshots:
            snaps.append((i, b.to_circuit()))
    return {"results": res, "c": W.w_circuit(b.to_circuit()), "_snaps": snaps, "_builder": b}

def parse_build(line):
    r = W.Rd(line)
    n = r.int()
    res = [r.next() for _ in range(n)]
    return {"results": res, "c": W.p_circuit(r)}

# ----------------------------------------------------------------------------- parser (libqasm AST -> IR)
def ast_of_text(text: str):
    """libqasm's semantic AST of a cQASM 3 program in the wire form the model reads, or the error list"""
    import cqasm.v3x as cqasm
    res = cqasm.Analyzer("3.0", False).analyze_string(text)
    if isinstance(res, list):
        return None, res
    vars_ = []
    for v in res.variables:
        isq = isinstance(v.typ, (cqasm.types.Qubit, cqasm.types.QubitArray))
        isb = isinstance(v.typ, (cqasm.types.Bit, cqasm.types.BitArray))
        if not (isq or isb):
            continue
        vars_.append((v.name, 1 if isq else 0, int(v.typ.size)))
    stmts = []
    for st in res.block.statements:
        ops = []
        for o in st.operands:
            if isinstance(o, cqasm.values.VariableRef):
                isq = isinstance(o.variable.typ, (cqasm.types.Qubit, cqasm.types.QubitArray))
                ops.append(("v", o.variable.name, 1 if isq else 0, int(o.variable.typ.size)))
            elif isinstance(o, cqasm.values.IndexRef):
                isq = isinstance(o.variable.typ, (cqasm.types.Qubit, cqasm.types.QubitArray))
                ops.append(("x", o.variable.name, 1 if isq else 0, [int(i.value) for i in o.indices]))
            elif isinstance(o, cqasm.values.ConstInt):
                ops.append(("ci", int(o.value)))
            elif isinstance(o, cqasm.values.ConstFloat):
                ops.append(("cf", float(o.value)))
            else:
                ops.append(("other", type(o).__name__))
        stmts.append((st.name, ops))
    return {"vars": vars_, "stmts": stmts}, None

def req_parse(ast):
    out = ["parse", str(len(ast["vars"]))]
    for n, q, s in ast["vars"]:
        out += [W.s2h(n), str(q), str(s)]
    out.append(str(len(ast["stmts"])))
    for name, ops in ast["stmts"]:
        out += [W.s2h(name), str(len(ops))]
        for o in ops:
            if o[0] == "v": out += ["v", W.s2h(o[1]), str(o[2]), str(o[3])]
            elif o[0] == "x": out += ["x", W.s2h(o[1]), str(o[2])] + W.t_ints(o[3])
            elif o[0] == "ci": out += ["ci", str(o[1])]
            elif o[0] == "cf": out += ["cf", W.f2h(o[1])]
            else: raise ValueError(o)
    return " ".join(out)

def impl_parse(text: str):
    from opensquirrel import Circuit
    try:
        c = Circuit.from_string(text)
        return {"err": None, "v": W.w_circuit(c), "_circ": c}
    except Exception as ex:
        return {"err": err_name(ex), "v": None}
def parse_circuit(line): return parse_ok_err(line, W.p_circuit)
