#!/usr/bin/env python3
"""Re-run our checks against confirmed seeded changes in isolated workers (private worktree of /repo + private copy of
/verif per worker), in parallel; /repo itself is never touched, so checks may run in /verif at the same time.

  isomut.py <seeded-id>… | all  [--checks Cxx,Cyy] [--seeds 1,2,3] [--workers 8] [--tier quick]

Updates seeded/<id>/meta.json (our_checks, detected_by) like seedrecheck.py."""
from __future__ import annotations
import json, os, queue, sys, threading, time
sys.path.insert(0, os.path.dirname(os.path.abspath(__file__)))
import automut as A

ROOT = A.ROOT

BASE = "seeded"

def job(repo, verif, sid, pid, seed, tier):
    d = os.path.join(ROOT, BASE, sid)
    A.sh(["git", "-C", repo, "checkout", "--", "."])
    rc, out = A.sh(["git", "-C", repo, "apply", os.path.join(d, "patch.diff")])
    if rc != 0:
        return {"exit": 2, "violation": False, "no_failing_input": False, "what": "patch does not apply: " + out[:200], "s": 0}
    env = {**os.environ, "PYTHONPATH": repo, "OSQ_REPO": repo, "PYTHONHASHSEED": "0", "VERIF_SEED": str(seed)}
    t0 = time.time()
    try:
        rc, out = A.sh([os.path.join(verif, "check"), pid, tier], cwd=verif, env=env, timeout=3600)
    finally:
        A.sh(["git", "-C", repo, "checkout", "--", "."])
    v = [l for l in out.split("\n") if l.startswith("VIOLATION")]
    what = ""
    if v and "replay=" in v[0]:
        try:
            dd = json.load(open(v[0].split("replay=")[1].split()[0])); what = (dd.get("what") or str(dd.get("broken")))[:300]
        except Exception: pass
    return {"exit": rc, "s": round(time.time() - t0, 1), "violation": bool(rc == 1 and v), "no_failing_input": bool(v and "no-failing-input-found" in v[0]), "what": what}

def main():
    a = sys.argv[1:]
    def opt(n, d=None): return a[a.index(n) + 1] if n in a else d
    checks = opt("--checks"); seeds = (opt("--seeds") or "1,2,3").split(","); workers = int(opt("--workers", "8")); tier = opt("--tier", "quick")
    skip = {"--checks", "--seeds", "--workers", "--tier", "--base"}
    global BASE
    BASE = opt("--base", "seeded")
    ids = []; i = 0
    while i < len(a):
        if a[i] in skip: i += 2
        else: ids.append(a[i]); i += 1
    if ids == ["all"]: ids = sorted(d for d in os.listdir(os.path.join(ROOT, BASE)) if os.path.isdir(os.path.join(ROOT, BASE, d)))
    jobs = queue.Queue(); results = {}
    for sid in ids:
        meta = json.load(open(os.path.join(ROOT, BASE, sid, "meta.json")))
        all20 = [f"C{i:02d}" for i in range(1, 21)]
        for pid in (all20 if checks == "all" else checks.split(",") if checks else [meta["breaks"]]):
            for sd in seeds: jobs.put((sid, pid, sd))
    base_w = 100 + (os.getpid() % 50) * 16          # two concurrent invocations never share a worker
    ws = [A.setup_worker(base_w + k) for k in range(workers)]
    lock = threading.Lock()
    def work(k):
        repo, verif = ws[k]
        while True:
            try: sid, pid, sd = jobs.get_nowait()
            except queue.Empty: return
            r = job(repo, verif, sid, pid, sd, tier)
            with lock: results.setdefault(sid, {})[f"{pid}/seed{sd}"] = r
    ts = [threading.Thread(target=work, args=(k,)) for k in range(workers)]
    for t in ts: t.start()
    for t in ts: t.join()
    for sid in ids:
        res = results.get(sid, {})
        mp = os.path.join(ROOT, BASE, sid, "meta.json")
        meta = json.load(open(mp))
        cs = {k.split("/")[0] for k in res}
        meta["our_checks"] = {**{k: v for k, v in (meta.get("our_checks") or {}).items() if k.split("/")[0] not in cs}, **res}
        meta["detected_by"] = sorted({k.split("/")[0] for k, v in meta["our_checks"].items() if isinstance(v, dict) and v.get("violation")})
        json.dump(meta, open(mp, "w"), indent=1)
        print(sid, {k: ("V" if v["violation"] else ("INFRA" if v["exit"] not in (0, 1) else "-")) + ("(nf)" if v.get("no_failing_input") else "") for k, v in sorted(res.items())}, flush=True)
        for k, v in sorted(res.items()):
            if v.get("what"): print("    ", k, v["what"][:180]); break

if __name__ == "__main__":
    main()
